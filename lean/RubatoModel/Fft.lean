/-
Hand model of the three synchronous (FFT) resamplers of synchro.rs: block sizing, the
`saved_frames` / `frames_needed` bookkeeping and the routing of frames into and out of the
per-block resampler `FftResampler::resample_unit`, which is abstract here (`FftUnit`): any function
from an input block and a per-channel state (the overlap) to an output block and a new state.

The divisions the Rust code evaluates through `f32` are a parameter (`DivArith`): `DivArith.f32`
is the executable twin, `DivArith.exact` what the [exact] theorems are about, and the [law-free]
theorems hold for every choice.
-/
import RubatoModel.Validate

namespace Rubato

inductive FKind where
  | fftIn | fftOut | fftIo
  deriving DecidableEq, Repr, Inhabited

/-- `resample_unit`: `(overlap state, input block of fft_in frames) ↦ (output block of fft_out frames, state)` -/
structure FftUnit (σ υ : Type) where
  init : υ
  run  : υ → List σ → List σ × υ

structure FState (σ υ : Type) where
  kind         : FKind
  nch          : Nat
  chunkIn      : Nat      -- `chunk_size_in`  (FftFixedIn, FftFixedInOut)
  chunkOut     : Nat      -- `chunk_size_out` (FftFixedOut, FftFixedInOut)
  fftIn        : Nat
  fftOut       : Nat
  saved        : Nat
  framesNeeded : Nat
  /-- per channel: the overlap -/
  ov           : List υ
  /-- per channel: `input_buffers` (FftFixedIn) or `output_buffers` (FftFixedOut) -/
  store        : List (List σ)
  mask         : List Bool

/-- block sizes: `fft_chunks = max(1, ⌈wanted / (rate/gcd)⌉)` (with the `fix:` for zero sizes),
`fft_size_x = fft_chunks * rate_x / gcd` -/
def fftSizes (da : DivArith) (rateIn rateOut wanted : Nat) (byOutput : Bool) : Nat × Nat :=
  let g := Nat.gcd rateIn rateOut
  let minChunk := (if byOutput then rateOut else rateIn) / g
  let k := max (da.cdiv wanted minChunk) 1
  (k * rateIn / g, k * rateOut / g)

variable {σ υ : Type}

def FState.init (da : DivArith) (u : FftUnit σ υ) (zero : σ) (kind : FKind)
    (rateIn rateOut chunk sub nch : Nat) : Except CErr (FState σ υ) :=
  if rateIn = 0 ∨ rateOut = 0 then .error (.invalidSampleRate rateIn rateOut)
  else
    let ov := List.replicate nch u.init
    let mask := List.replicate nch true
    match kind with
    | .fftIo =>
      let (fi, fo) := fftSizes da rateIn rateOut chunk false
      .ok { kind, nch, chunkIn := fi, chunkOut := fo, fftIn := fi, fftOut := fo, saved := 0,
            framesNeeded := 0, ov, store := List.replicate nch [], mask }
    | .fftIn =>
      let (fi, fo) := fftSizes da rateIn rateOut (chunk / sub) false
      .ok { kind, nch, chunkIn := chunk, chunkOut := 0, fftIn := fi, fftOut := fo, saved := 0,
            framesNeeded := 0, ov, store := List.replicate nch (List.replicate (chunk + fi) zero), mask }
    | .fftOut =>
      let (fi, fo) := fftSizes da rateIn rateOut (chunk / sub) true
      .ok { kind, nch, chunkIn := 0, chunkOut := chunk, fftIn := fi, fftOut := fo, saved := 0,
            framesNeeded := da.cdiv chunk fo * fi, ov,
            store := List.replicate nch (List.replicate (chunk + fo) zero), mask }

/-! ### Getters -/

def FState.inputFramesNext (s : FState σ υ) : Nat :=
  match s.kind with
  | .fftIn => s.chunkIn
  | .fftOut => s.framesNeeded
  | .fftIo => s.fftIn

def FState.inputFramesMax (da : DivArith) (s : FState σ υ) : Nat :=
  match s.kind with
  | .fftIn => s.chunkIn
  | .fftOut => da.cdiv s.chunkOut s.fftOut * s.fftIn
  | .fftIo => s.fftIn

def FState.outputFramesNext (da : DivArith) (s : FState σ υ) : Nat :=
  match s.kind with
  | .fftIn => da.fdiv (s.saved + s.chunkIn) s.fftIn * s.fftOut
  | .fftOut => s.chunkOut
  | .fftIo => s.chunkOut

/-- FftFixedIn: `(fft_in - 1 + chunk) / fft_in * fft_out` in integer arithmetic -/
def FState.outputFramesMax (s : FState σ υ) : Nat :=
  match s.kind with
  | .fftIn => (s.fftIn - 1 + s.chunkIn) / s.fftIn * s.fftOut
  | .fftOut => s.chunkOut
  | .fftIo => s.chunkOut

def FState.outputDelay (s : FState σ υ) : Nat :=
  match s.kind with
  | .fftIo => s.chunkOut / 2
  | _ => s.fftOut / 2

def FState.reset (da : DivArith) (u : FftUnit σ υ) (zero : σ) (s : FState σ υ) : FState σ υ :=
  let base := { s with ov := List.replicate s.nch u.init, mask := List.replicate s.nch true }
  match s.kind with
  | .fftIo => base
  | .fftIn => { base with saved := 0, store := s.store.map fun b => List.replicate b.length zero }
  | .fftOut => { base with saved := 0, store := s.store.map fun b => List.replicate b.length zero,
                           framesNeeded := da.cdiv s.chunkOut s.fftOut * s.fftIn }

/-! ### Block processing -/

/-- cut a list into blocks of `n` (last one possibly short), like `slice::chunks` -/
def chunksOf (n : Nat) (l : List σ) : List (List σ) :=
  if n = 0 then [] else
  if l.isEmpty then [] else
    go n l.length l
where
  go (n : Nat) : Nat → List σ → List (List σ)
    | 0, _ => []
    | fuel + 1, l => if l.isEmpty then [] else l.take n :: go n fuel (l.drop n)

/-- run the unit over a list of input blocks; `none` if a block does not have exactly `fftIn` frames
(`copy_from_slice` length mismatch panic in `resample_unit`) -/
def runBlocks (u : FftUnit σ υ) (fftIn : Nat) : υ → List (List σ) → Option (List (List σ) × υ)
  | st, [] => some ([], st)
  | st, b :: bs =>
    if b.length ≠ fftIn then none
    else
      let r := u.run st b
      match runBlocks u fftIn r.2 bs with
      | none => none
      | some (os, st') => some (r.1 :: os, st')

/-- write `data` into `buf` at `pos`, keeping the length of `buf` (frames that do not fit are dropped) -/
def overlay (buf : List σ) (pos : Nat) (data : List σ) : List σ :=
  buf.take pos ++ (data.take (buf.length - pos)) ++ buf.drop (pos + data.length)

structure FCallOut (σ : Type) where
  nIn  : Nat
  nOut : Nat
  out  : List (Option (List σ))

/-- per-channel helper: apply `f` to the active channels (`mask`), threading `(overlap, store, input)` -/
def mapActive {α β : Type} (mask : List Bool) (xs : List α) (f : Nat → α → Option β) (skip : α → β) :
    Option (List β) :=
  go 0 mask xs
where
  go : Nat → List Bool → List α → Option (List β)
    | _, [], _ => some []
    | _, _, [] => some []
    | i, m :: ms, x :: xs' =>
      match (if m then f i x else some (skip x)) with
      | none => none
      | some y => match go (i + 1) ms xs' with
        | none => none
        | some ys => some (y :: ys)

def FState.process (da : DivArith) (u : FftUnit σ υ) (s : FState σ υ)
    (input : List (List σ)) (outLens : List Nat) (userMask : Option (List Bool)) :
    FState σ υ × Outcome (FCallOut σ) :=
  match updateMask s.nch userMask with
  | .error e => (s, .err e)
  | .ok mask =>
    let s := { s with mask := mask }
    let inLens := input.map List.length
    match s.kind with
    | .fftIo =>
      match validateBuffers inLens outLens mask s.nch s.chunkIn s.chunkOut with
      | .error e => (s, .err e)
      | .ok () =>
        let chans := List.zip s.ov input
        match mapActive mask chans
            (fun _ p => match runBlocks u s.fftIn p.1 [p.2.take s.chunkIn] with
              | some ([o], st) => some (st, some (o.take s.chunkOut))
              | _ => none)
            (fun p => (p.1, none)) with
        | none => (s, .panic "resample_unit")
        | some rs =>
          ({ s with ov := rs.map (·.1) }, .ok { nIn := s.chunkIn, nOut := s.chunkOut, out := rs.map (·.2) })
    | .fftIn =>
      let nextSaved := s.saved + s.chunkIn
      let nReady := da.fdiv nextSaved s.fftIn
      let neededLen := nReady * s.fftOut
      match validateBuffers inLens outLens mask s.nch s.chunkIn neededLen with
      | .error e => (s, .err e)
      | .ok () =>
        let used := nReady * s.fftIn
        if used > nextSaved then (s, .panic "saved_frames - frames_in_used") else
        let chans := List.zip (List.zip s.ov s.store) (List.zip input outLens)
        match mapActive mask chans
            (fun _ p =>
              let ov := p.1.1
              let store := overlay p.1.2 s.saved (p.2.1.take s.chunkIn)
              let nOutChunks := if s.fftOut = 0 then 0 else (p.2.2 + s.fftOut - 1) / s.fftOut
              let blocks := ((chunksOf s.fftIn store).take nReady).take nOutChunks
              match runBlocks u s.fftIn ov blocks with
              | none => none
              | some (os, ov') =>
                let outFrames := (os.flatten).take p.2.2
                let store' := if nextSaved > used then overlay store 0 ((store.drop used).take (nextSaved - used)) else store
                some (ov', store', some (outFrames.take neededLen)))
            (fun p => (p.1.1, p.1.2, none)) with
        | none => (s, .panic "resample_unit")
        | some rs =>
          ({ s with ov := rs.map (·.1), store := rs.map (·.2.1), saved := nextSaved - used },
            .ok { nIn := s.chunkIn, nOut := neededLen, out := rs.map (·.2.2) })
    | .fftOut =>
      match validateBuffers inLens outLens mask s.nch s.framesNeeded s.chunkOut with
      | .error e => (s, .err e)
      | .ok () =>
        let processed := s.saved + s.fftOut * (s.framesNeeded / s.fftIn)
        let copyOut := decide (processed ≥ s.chunkOut)
        let saved' := if copyOut then processed - s.chunkOut else processed
        if s.store.any (fun b => decide (s.saved > b.length)) then (s, .panic "output_buffers[saved..]") else
        if copyOut && s.store.any (fun b => decide (s.chunkOut + saved' > b.length)) then (s, .panic "copy_within") else
        let chans := List.zip (List.zip s.ov s.store) input
        match mapActive mask chans
            (fun _ p =>
              let ov := p.1.1
              let store := p.1.2
              let room := store.length - s.saved
              let nOutChunks := if s.fftOut = 0 then 0 else (room + s.fftOut - 1) / s.fftOut
              let blocks := (chunksOf s.fftIn (p.2.take s.framesNeeded)).take nOutChunks
              match runBlocks u s.fftIn ov blocks with
              | none => none
              | some (os, ov') =>
                let store1 := overlay store s.saved os.flatten
                if copyOut then
                  let out := store1.take s.chunkOut
                  let store2 := overlay store1 0 ((store1.drop s.chunkOut).take saved')
                  some (ov', store2, some out)
                else some (ov', store1, some []))
            (fun p => (p.1.1, p.1.2, none)) with
        | none => (s, .panic "resample_unit")
        | some rs =>
          let neededOut := if s.chunkOut > saved' then s.chunkOut - saved' else 0
          ({ s with ov := rs.map (·.1), store := rs.map (·.2.1), saved := saved',
                    framesNeeded := da.cdiv neededOut s.fftOut * s.fftIn },
            .ok { nIn := s.framesNeeded, nOut := s.chunkOut, out := rs.map (·.2.2) })

end Rubato

namespace Rubato
variable {σ υ : Type}

/-- `set_resample_ratio` / `set_resample_ratio_relative` of the three synchronous types -/
def FState.setRatio (s : FState σ υ) : FState σ υ × Except RErr Unit := (s, .error .syncNotAdjustable)

/-- `set_chunk_size` (the trait's default method: the synchronous types do not override it) -/
def FState.setChunk (s : FState σ υ) (_n : Nat) : FState σ υ × Except RErr Unit := (s, .error .chunkNotAdjustable)

end Rubato
