/-
Line-protocol driver: executes the same operation lines as harness/src/session.rs on the
IEEE instantiation of the model and prints the same canonical observation lines.
-/
import RubatoModel.SincTable
import RubatoModel.Fft
import RubatoModel.Wrappers
import RubatoModel.Kernels
import RubatoModel.FftUnitModel

namespace Rubato.Driver
open Rubato

/-! ### small text helpers -/

def hexDigit (n : Nat) : Char :=
  if n < 10 then Char.ofNat (48 + n) else Char.ofNat (87 + n)

def hexNat (n : Nat) (pad : Nat := 1) : String :=
  let rec go (fuel n : Nat) (acc : List Char) : List Char :=
    match fuel with
    | 0 => acc
    | fuel + 1 => if n = 0 then acc else go fuel (n / 16) (hexDigit (n % 16) :: acc)
  let ds := go 20 n []
  let ds := List.replicate (pad - ds.length) '0' ++ ds
  String.ofList ds

def parseHex (s : String) : Option Nat :=
  s.toList.foldl (fun acc c =>
    match acc with
    | none => none
    | some a =>
      let v := c.toNat
      if 48 ≤ v ∧ v ≤ 57 then some (a * 16 + (v - 48))
      else if 97 ≤ v ∧ v ≤ 102 then some (a * 16 + (v - 87))
      else if 65 ≤ v ∧ v ≤ 70 then some (a * 16 + (v - 55))
      else none) (some 0)

def hexF64 (s : String) : Option Float := (parseHex s).map fun n => Float.ofBits n.toUInt64
def hexF32 (s : String) : Option Float := (parseHex s).map fun n => (Float32.ofBits n.toUInt32).toFloat

def fnv (vals : List UInt64) : UInt64 :=
  vals.foldl (fun h v => (h ^^^ v) * 0x100000001b3) 0xcbf29ce484222325

/-! ### signals (bit-identical to harness/src/signal.rs) -/

def K1 : UInt64 := 0x9E3779B97F4A7C15
def K2 : UInt64 := 0xC2B2AE3D27D4EB4F

def splitmix64 (x : UInt64) : UInt64 :=
  let z := x + 0x9E3779B97F4A7C15
  let z := (z ^^^ (z >>> 30)) * 0xBF58476D1CE4E5B9
  let z := (z ^^^ (z >>> 27)) * 0x94D049BB133111EB
  z ^^^ (z >>> 31)

inductive Sig where
  | zero | index | noise (seed : UInt64) | poly (deg : Nat) (seed : UInt64)
  | sine (f : Float) | impulse (pos : Nat) | tiny32 (seed : UInt64) | tiny64 (seed : UInt64)
  | burst (period : Nat) (seed : UInt64)

def Sig.parse (s : String) : Option Sig :=
  let h := s.take 1
  let t := (s.drop 1).toString
  if h == "z" then some .zero
  else if h == "i" then some .index
  else if h == "r" then t.toNat?.map fun n => .noise n.toUInt64
  else if h == "p" then
    match t.splitOn "," with
    | [d, sd] => match d.toNat?, sd.toNat? with
      | some d, some sd => some (.poly d sd.toUInt64)
      | _, _ => none
    | _ => none
  else if h == "s" then (hexF64 t).map .sine
  else if h == "k" then t.toNat?.map .impulse
  else if h == "d" then t.toNat?.map fun n => .tiny32 n.toUInt64
  else if h == "e" then t.toNat?.map fun n => .tiny64 n.toUInt64
  else if h == "b" then
    match t.splitOn "," with
    | [pd, sd] => match pd.toNat?, sd.toNat? with
      | some pd, some sd => if pd == 0 then none else some (.burst pd sd.toUInt64)
      | _, _ => none
    | _ => none
  else none

def polyCoeff (seed : UInt64) (k : Nat) : Float :=
  (splitmix64 (seed ^^^ (k.toUInt64 * K1)) % 7).toFloat - 3.0

def pi64 : Float := Float.ofBits 0x400921FB54442D18

def noiseValue (seed : UInt64) (ch g : Nat) : Float :=
  let h := splitmix64 (seed ^^^ (ch.toUInt64 * K1) ^^^ (g.toUInt64 * K2))
  (h >>> 11).toFloat * (1.0 / 4503599627370496.0) - 1.0

def Sig.value (sg : Sig) (ch : Nat) (g : Nat) : Float :=
  match sg with
  | .tiny32 seed => noiseValue seed ch g * Float.ofBits 0x3730000000000000
  | .tiny64 seed => noiseValue seed ch g * Float.ofBits 0x0000000400000000
  | .zero => 0.0
  | .index => g.toUInt64.toFloat + 0.25 * ch.toUInt64.toFloat
  | .noise seed =>
    let h := splitmix64 (seed ^^^ (ch.toUInt64 * K1) ^^^ (g.toUInt64 * K2))
    (h >>> 11).toFloat * (1.0 / 4503599627370496.0) - 1.0
  | .poly deg seed =>
    let u := g.toUInt64.toFloat * 0.015625
    let acc := (List.range (deg + 1)).reverse.foldl (fun acc k => acc * u + polyCoeff seed k) 0.0
    acc + ch.toUInt64.toFloat
  | .sine f => Float.sin (2.0 * pi64 * f * g.toUInt64.toFloat + 0.3 * ch.toUInt64.toFloat)
  | .impulse p => if g == p then 1.0 else 0.0
  | .burst pd seed => if (g / pd + ch) % 2 == 0 then noiseValue seed ch g else 0.0

/-! ### option parsing -/

structure CallOpts where
  ic : Option Nat := none
  oc : Option Nat := none
  si : List (Nat × Nat) := []
  so : List (Nat × Nat) := []
  em : Bool := false
  dump : Bool := false
  co : Nat := 0
  zl : Option String := none
  zc : List (Nat × Nat) := []

def parsePair (v : String) : Option (Nat × Nat) :=
  match v.splitOn ":" with
  | [a, b] => match a.toNat?, b.toNat? with
    | some a, some b => some (a, b)
    | _, _ => none
  | _ => none

def parseOpts (ts : List String) : Option CallOpts :=
  ts.foldl (fun acc w =>
    match acc with
    | none => none
    | some o =>
      if w.startsWith "ic=" then (w.drop 3).toString.toNat?.map fun n => { o with ic := some n }
      else if w.startsWith "oc=" then (w.drop 3).toString.toNat?.map fun n => { o with oc := some n }
      else if w.startsWith "si=" then (parsePair (w.drop 3).toString).map fun p => { o with si := o.si ++ [p] }
      else if w.startsWith "so=" then (parsePair (w.drop 3).toString).map fun p => { o with so := o.so ++ [p] }
      else if w.startsWith "co=" then (w.drop 3).toString.toNat?.map fun n => { o with co := n }
      else if w.startsWith "zl=" then some { o with zl := some (w.drop 3).toString }
      else if w.startsWith "zc=" then (parsePair (w.drop 3).toString).map fun p => { o with zc := o.zc ++ [p] }
      else if w == "em" then some { o with em := true }
      else if w == "dyn" then some o
      else if w == "dump" then some { o with dump := true }
      else none) (some {})

def parseMask (s : String) : Option (Option (List Bool)) :=
  if s == "-" then some none
  else if s == "e" then some (some [])
  else
    s.toList.foldr (fun c acc =>
      match acc with
      | none => none
      | some (some l) => if c == '0' then some (some (false :: l)) else if c == '1' then some (some (true :: l)) else none
      | some none => none) (some (some []))

/-- `n+K`, `n-K`, `m+K`, `m-K`, `=K` -/
def sizeSpec (s : String) (next max : Nat) : Option Nat :=
  let h := s.take 1
  let t := (s.drop 1).toString
  if h == "=" then t.toNat?
  else if h == "p" then
    (if t.isEmpty then some 0 else t.toNat?).map fun d => Nat.max 1 (next - d)
  else if h == "n" ∨ h == "m" then
    let base : Int := if h == "n" then next else max
    if t.isEmpty then some base.toNat
    else
      let neg := t.startsWith "-"
      match (t.drop 1).toString.toNat? with
      | some d => if t.startsWith "+" then some (base + d).toNat
                  else if neg then some (base - d).toNat else none
      | none => none
  else none

def lastOverride (l : List (Nat × Nat)) (ch : Nat) (dflt : Nat) : Nat :=
  l.foldl (fun acc p => if p.1 == ch then p.2 else acc) dflt

/-- `input_buffer_allocate` / `output_buffer_allocate` (both `filled` flags): per-channel lengths, capacity reached,
all zero -/
def bufsStatus (nch inMax outMax : Nat) : String :=
  let sh (len : Nat) : String := ",".intercalate ((List.range nch).map fun _ => toString len) ++ ":1:1"
  s!"ok b {sh 0} {sh inMax} {sh 0} {sh outMax}"

/-! ### async ops, generic in the sample type -/

section
variable {σ : Type} [SNum Float σ] [STrig σ] [Inhabited σ]

def gettersA (s : AState Float σ) : String :=
  s!"g {s.inputFramesNext} {s.inputFramesMax} {s.outputFramesNext} {s.outputFramesMax} {s.outputDelay} {s.nch}"

def dataSection (chans : List (Option (Array σ))) (dump : Bool) : String :=
  chans.foldl (fun acc c =>
    match c with
    | none => acc ++ " -"
    | some v =>
      if dump then
        acc ++ " v" ++ ",".intercalate (v.toList.map fun x => hexNat (SNum.sbits (ρ := Float) x).toNat)
      else acc ++ " " ++ hexNat (fnv (v.toList.map (SNum.sbits (ρ := Float)))).toNat 16) "d"

def makeInput (ofF : Float → σ) (sg : Sig) (consumed nGiven lenAll : Nat) (o : CallOpts)
    (mask : Option (List Bool)) (inNext inMax : Nat) : List (Array σ) :=
  let zl : Option Nat := o.zl.bind fun z => sizeSpec z inNext inMax
  (List.range nGiven).map fun ch =>
    let len := lastOverride o.si ch lenAll
    let act := match mask with
      | none => true
      | some m => (m[ch]?).getD true
    let len := if o.em && !act then 0 else len
    let zl : Option Nat := o.zc.foldl (fun acc p => if p.1 == ch then some p.2 else acc) zl
    (Array.range len).map fun k =>
      match zl with
      | some z => if k ≥ z then ofF 0.0 else ofF (sg.value (ch + o.co) (consumed + k))
      | none => ofF (sg.value (ch + o.co) (consumed + k))

def coreA : Core (AState Float σ) (Array σ) where
  inNext := AState.inputFramesNext
  outNext := AState.outputFramesNext
  nch := fun s => s.nch
  proc := fun s inp lens mask =>
    match s.process { input := inp, outLens := lens, mask := mask } with
    | (s', .ok r) => (s', .ok (r.nIn, r.nOut, r.out))
    | (s', .err e) => (s', .err e)
    | (s', .panic m) => (s', .panic m)
    | (s', .abort m) => (s', .abort m)
  size := Array.size
  zeros := fun n => Array.replicate n SNum.zero
  takeN := fun x n => x.extract 0 n
  append := fun a b => a ++ b
  empty := #[]

/-- returns (new state, new consumed, observation, dead?) -/
def opAsync (ofF : Float → σ) (s : AState Float σ) (consumed : Nat) (op : String) (t : List String) :
    AState Float σ × Nat × String × Bool :=
  let bad := (s, consumed, "bad-op", false)
  match op with
  | "proc" | "part" =>
    match t with
    | m :: insz :: outsz :: sg :: rest =>
      match parseMask m, Sig.parse sg, parseOpts rest with
      | some mask, some sig, some o =>
        let partial_ := op == "part"
        let inNone := partial_ && insz == "none"
        match (if inNone then some 0 else sizeSpec insz s.inputFramesNext s.inputFramesMax),
              sizeSpec outsz s.outputFramesNext s.outputFramesMax with
        | some inlen, some outlen =>
          let input := makeInput ofF sig consumed (o.ic.getD s.nch) inlen o mask s.inputFramesNext s.inputFramesMax
          let outLens := (List.range (o.oc.getD s.nch)).map fun ch => lastOverride o.so ch outlen
          let input' := if partial_ then paddedInput coreA s (if inNone then none else some input) else input
          let (s', r) := s.process { input := input', outLens := outLens, mask := mask }
          match r with
          | .ok c =>
            (s', consumed + c.nIn,
              s!"ok {c.nIn} {c.nOut} | {gettersA s'} | a{if partial_ then "+" else "0"} | u1 | {dataSection c.out o.dump} | s{if c.stale then 1 else 0}", false)
          | .err e => (s', consumed, s!"{e.render} | {gettersA s'} | a{if partial_ then "+" else "0"} | u1 | d", false)
          | .panic m => (s', consumed, "panic " ++ m, true)
          | .abort m => (s', consumed, "abort " ++ m, true)
        | _, _ => bad
      | _, _, _ => bad
    | _ => bad
  | "procw" | "partw" =>
    match t with
    | m :: insz :: sg :: rest =>
      match parseMask m, Sig.parse sg, parseOpts rest with
      | some mask, some sig, some o =>
        let partial_ := op == "partw"
        let inNone := partial_ && insz == "none"
        match (if inNone then some 0 else sizeSpec insz s.inputFramesNext s.inputFramesMax) with
        | some inlen =>
          let input := makeInput ofF sig consumed (o.ic.getD s.nch) inlen o mask s.inputFramesNext s.inputFramesMax
          let inn := s.inputFramesNext
          let (s', r) := if partial_ then processPartialW coreA s (if inNone then none else some input) mask
                         else processW coreA s input mask
          match r with
          | .ok outs =>
            let lens := ",".intercalate (outs.map fun v => toString v.size)
            (s', consumed + inn,
              s!"ok {lens} | {gettersA s'} | a+ | u1 | {dataSection (outs.map some) o.dump}", false)
          | .err e => (s', consumed, s!"{e.render} | {gettersA s'} | a+ | u1 | d", false)
          | .panic m => (s', consumed, "panic " ++ m, true)
          | .abort m => (s', consumed, "abort " ++ m, true)
        | none => bad
      | _, _, _ => bad
    | _ => bad
  | "ratio" | "rel" =>
    match t with
    | x :: r :: _ =>
      match hexF64 x with
      | some v =>
        let ramp := r == "1"
        let (s', res) := if op == "ratio" then s.setRatio v ramp else s.setRatioRelative v ramp
        let st := match res with
          | .ok () => "ok"
          | .error e => e.render
        (s', consumed, s!"{st} | {gettersA s'} | a0", false)
      | none => bad
    | _ => bad
  | "chunk" =>
    match t with
    | n :: _ =>
      match n.toNat? with
      | some n =>
        let (s', res) := s.setChunk n
        let st := match res with
          | .ok () => "ok"
          | .error e => e.render
        (s', consumed, s!"{st} | {gettersA s'} | a0", false)
      | none => bad
    | _ => bad
  | "reset" =>
    let s' := s.reset
    (s', 0, s!"ok | {gettersA s'} | a0", false)
  | "get" => (s, consumed, s!"ok | {gettersA s} | a0", false)
  | "bufs" => (s, consumed, s!"{bufsStatus s.nch s.inputFramesMax s.outputFramesMax} | {gettersA s} | a+", false)
  | _ => bad

def newAsync (kind : AKind) (p : List String) : Option (Except CErr (AState Float σ)) :=
  match kind, p with
  | .fastIn, [r, mr, d, c, n] | .fastOut, [r, mr, d, c, n] =>
    match hexF64 r, hexF64 mr, d.toNat?.bind Degree.ofCode, c.toNat?, n.toNat? with
    | some r, some mr, some d, some c, some n =>
      some (AState.init kind r mr d .nearest (probeInterp (ρ := Float) 0 0) c n)
    | _, _, _, _, _ => none
  | .sincIn, [r, mr, it, sl, osf, fc, w, c, n, which] | .sincOut, [r, mr, it, sl, osf, fc, w, c, n, which] =>
    match hexF64 r, hexF64 mr, it.toNat?.bind SincInterp.ofCode, sl.toNat?, osf.toNat?, hexF32 fc,
          w.toNat?.bind Window.ofCode, c.toNat?, n.toNat? with
    | some r, some mr, some it, some sl, some osf, some fc, some w, some c, some n =>
      let len := interpLen (ρ := Float) sl
      let ip : Interp σ :=
        if which == "probe" then probeInterp (ρ := Float) len osf
        else if which == "lprobe" then lprobeInterp (ρ := Float) len osf
        -- a user-implemented interpolator whose `len()` is NOT rounded to a multiple of 8 (any length, odd ones included)
        else if which == "rprobe" then probeInterp (ρ := Float) sl osf
        else tableInterp (ρ := Float) len osf (interpCutoff fc r) w
      some (AState.init kind r mr .nearest it ip c n)
    | _, _, _, _, _, _, _, _, _ => none
  | _, _ => none

end

/-! ### FFT ops: control plane always; data plane through the naive-DFT unit model when the blocks are small -/

/-- largest FFT block for which the driver runs the naive-DFT unit (quadratic cost) -/
def fftModelLimit : Nat := 320

structure FftSlot (σ : Type) where
  s : FState σ (Array σ)
  tables : UnitTables σ
  modelled : Bool

section
variable {σ : Type} [SNum Float σ] [STrig σ] [Inhabited σ]

def FftSlot.unit (f : FftSlot σ) : FftUnit σ (Array σ) :=
  if f.modelled then UnitTables.unit (ρ := Float) f.tables
  else { init := #[], run := fun st _ => (List.replicate f.s.fftOut (SNum.zero (ρ := Float)), st) }

def gettersF (s : FState σ (Array σ)) : String :=
  s!"g {s.inputFramesNext} {s.inputFramesMax (DivArith.ofNum Float)} {s.outputFramesNext (DivArith.ofNum Float)} {s.outputFramesMax} {s.outputDelay} {s.nch}"

def f32Cutoff (n : Nat) : Float :=
  (Rubato.Gen.Win.calculate_cutoff (ρ := Float) (σ := Float32) n .blackmanHarris2).toFloat

def opFft (ofF : Float → σ) (f : FftSlot σ) (consumed : Nat) (op : String) (t : List String) :
    FftSlot σ × Nat × String × Bool :=
  let s := f.s
  let bad := (f, consumed, "bad-op", false)
  let da := (DivArith.ofNum Float)
  let u := f.unit
  let inNext := s.inputFramesNext
  let inMax := s.inputFramesMax da
  let outNext := s.outputFramesNext da
  let outMax := s.outputFramesMax
  let coreF : Core (FState σ (Array σ)) (List σ) :=
    { inNext := FState.inputFramesNext, outNext := FState.outputFramesNext da, nch := fun s => s.nch,
      proc := fun s inp lens mask =>
        match s.process da u inp lens mask with
        | (s', .ok r) => (s', .ok (r.nIn, r.nOut, r.out))
        | (s', .err e) => (s', .err e)
        | (s', .panic m) => (s', .panic m)
        | (s', .abort m) => (s', .abort m),
      size := List.length, zeros := fun n => List.replicate n (SNum.zero (ρ := Float)), takeN := fun x n => x.take n,
      append := fun a b => a ++ b, empty := [] }
  let dsec (outs : List (Option (List σ))) (dump : Bool) : String :=
    if f.modelled then dataSection (outs.map (Option.map List.toArray)) dump else "d ?"
  match op with
  | "proc" | "part" =>
    match t with
    | m :: insz :: outsz :: sg :: rest =>
      match parseMask m, Sig.parse sg, parseOpts rest with
      | some mask, some sig, some o =>
        let partial_ := op == "part"
        let inNone := partial_ && insz == "none"
        match (if inNone then some 0 else sizeSpec insz inNext inMax), sizeSpec outsz outNext outMax with
        | some inlen, some outlen =>
          let input := (makeInput ofF sig consumed (o.ic.getD s.nch) inlen o mask inNext inMax).map Array.toList
          let outLens := (List.range (o.oc.getD s.nch)).map fun ch => lastOverride o.so ch outlen
          let input' := if partial_ then paddedInput coreF s (if inNone then none else some input) else input
          let (s', r) := s.process da u input' outLens mask
          let al := if partial_ then "+" else "0"
          match r with
          | .ok c => ({ f with s := s' }, consumed + c.nIn,
              s!"ok {c.nIn} {c.nOut} | {gettersF s'} | a{al} | u1 | {dsec c.out o.dump}", false)
          | .err e => ({ f with s := s' }, consumed, s!"{e.render} | {gettersF s'} | a{al} | u1 | d", false)
          | .panic m => ({ f with s := s' }, consumed, "panic " ++ m, true)
          | .abort m => ({ f with s := s' }, consumed, "abort " ++ m, true)
        | _, _ => bad
      | _, _, _ => bad
    | _ => bad
  | "procw" | "partw" =>
    match t with
    | m :: insz :: sg :: rest =>
      match parseMask m, Sig.parse sg, parseOpts rest with
      | some mask, some sig, some o =>
        let partial_ := op == "partw"
        let inNone := partial_ && insz == "none"
        match (if inNone then some 0 else sizeSpec insz inNext inMax) with
        | some inlen =>
          let input := (makeInput ofF sig consumed (o.ic.getD s.nch) inlen o mask inNext inMax).map Array.toList
          let (s', r) := if partial_ then processPartialW coreF s (if inNone then none else some input) mask
                         else processW coreF s input mask
          match r with
          | .ok outs =>
            let lens := ",".intercalate (outs.map fun v => toString v.length)
            ({ f with s := s' }, consumed + inNext,
              s!"ok {lens} | {gettersF s'} | a+ | u1 | {dsec (outs.map some) o.dump}", false)
          | .err e => ({ f with s := s' }, consumed, s!"{e.render} | {gettersF s'} | a+ | u1 | d", false)
          | .panic m => ({ f with s := s' }, consumed, "panic " ++ m, true)
          | .abort m => ({ f with s := s' }, consumed, "abort " ++ m, true)
        | none => bad
      | _, _, _ => bad
    | _ => bad
  | "ratio" | "rel" =>
    let (s', r) := s.setRatio
    let st := match r with
      | .ok () => "ok"
      | .error e => e.render
    ({ f with s := s' }, consumed, s!"{st} | {gettersF s'} | a0", false)
  | "chunk" =>
    let (s', r) := s.setChunk 0
    let st := match r with
      | .ok () => "ok"
      | .error e => e.render
    ({ f with s := s' }, consumed, s!"{st} | {gettersF s'} | a0", false)
  | "reset" =>
    let s' := s.reset da u (SNum.zero (ρ := Float))
    ({ f with s := s' }, 0, s!"ok | {gettersF s'} | a0", false)
  | "get" => (f, consumed, s!"ok | {gettersF s} | a0", false)
  | "bufs" => (f, consumed, s!"{bufsStatus s.nch inMax outMax} | {gettersF s} | a+", false)
  | _ => bad

def newFft (kind : FKind) (p0 : List String) : Option (Except CErr (FftSlot σ)) :=
  -- a trailing `ctl` asks for the control plane only (long streams whose sample values nobody looks at)
  let ctlOnly := p0.getLast? == some "ctl"
  let p := if ctlOnly then p0.dropLast else p0
  let da := (DivArith.ofNum Float)
  let mk (ri ro c sub n : Nat) : Except CErr (FftSlot σ) :=
    -- sizes first (they do not depend on the unit), then the tables, then the state with the real unit
    let wanted := if kind == .fftIo then c else c / sub
    let (fi, fo) := fftSizes da ri ro wanted (kind == .fftOut)
    let modelled := !ctlOnly && decide (fi ≤ fftModelLimit) && decide (fo ≤ fftModelLimit) && decide (0 < fi) && decide (0 < fo)
    let tables : UnitTables σ :=
      if modelled then UnitTables.make (ρ := Float) (fftCutoff f32Cutoff fi fo) fi fo
      else { fftIn := fi, fftOut := fo, twIn := (#[], #[]), twOut := (#[], #[]), filterF := #[] }
    let u : FftUnit σ (Array σ) :=
      if modelled then UnitTables.unit (ρ := Float) tables else { init := #[], run := fun st _ => ([], st) }
    match FState.init da u (SNum.zero (ρ := Float)) kind ri ro c sub n with
    | .ok s => .ok { s := s, tables := tables, modelled := modelled }
    | .error e => .error e
  match kind, p.map String.toNat? with
  | .fftIo, [some ri, some ro, some c, some n] => some (mk ri ro c 1 n)
  | .fftIn, [some ri, some ro, some c, some sub, some n]
  | .fftOut, [some ri, some ro, some c, some sub, some n] =>
    if sub = 0 then none else some (mk ri ro c sub n)
  | _, _ => none

end

/-! ### slots -/

inductive Slot where
  | a64 (s : AState Float Float) (consumed : Nat)
  | a32 (s : AState Float Float32) (consumed : Nat)
  | f64 (f : FftSlot Float) (consumed : Nat)
  | f32 (f : FftSlot Float32) (consumed : Nat)

structure Sess where
  slots : Array (Option Slot) := #[]
  dead : Bool := false

/-! ### kernel protocol (C15): `kdot <T> <kind> <length> <index> <wave,hex,…> <sinc,hex,…>` -/

instance : OfNat Float32 0 := ⟨(0.0 : Float32)⟩

def parseHexList (s : String) : Option (List Nat) :=
  (s.splitOn ",").foldr (fun x acc => match acc, parseHex x with
    | some l, some v => some (v :: l)
    | _, _ => none) (some [])

def kernLine (t : List String) : String :=
  match t with
  | [ty, kind, len, idx, wave, sinc] =>
    match len.toNat?, idx.toNat?, parseHexList wave, parseHexList sinc with
    | some length, some index, some w, some sv =>
      if ty == "f64" then
        let wv : List Float := w.map fun n => Float.ofBits n.toUInt64
        let sc : List Float := sv.map fun n => Float.ofBits n.toUInt64
        let r : Option Float := match kind with
          | "scalar" => some (Kern.scalar wv index sc)
          | "avx" => some (Kern.avxF64 wv index (Kern.pack 4 sc) length)
          | "sse" => some (Kern.sseF64 wv index (Kern.pack 2 sc) length)
          | "neon" => some (Kern.neonF64 wv index (Kern.pack 2 sc) length)
          | _ => none
        match r with
        | some v => "v " ++ hexNat v.toBits.toNat
        | none => "bad-op"
      else if ty == "f32" then
        let wv : List Float32 := w.map fun n => Float32.ofBits n.toUInt32
        let sc : List Float32 := sv.map fun n => Float32.ofBits n.toUInt32
        let r : Option Float32 := match kind with
          | "scalar" => some (Kern.scalar wv index sc)
          | "avx" => some (Kern.avxF32 wv index (Kern.pack 8 sc) length)
          | "sse" => some (Kern.sseF32 wv index (Kern.pack 4 sc) length)
          | "neon" => some (Kern.neonF32 wv index (Kern.pack 4 sc) length)
          | _ => none
        match r with
        | some v => "v " ++ hexNat v.toBits.toNat
        | none => "bad-op"
      else "bad-op"
    | _, _, _, _ => "bad-op"
  | _ => "bad-op"

/-- `ktab <T> <len> <osf> <fcut hex f32> <win>`: the model's table (`makeSincs`), row-major [sub][k] -/
def ktabLine (t : List String) : String :=
  match t with
  | [ty, len, osf, fc, w] =>
    match len.toNat?, osf.toNat?, hexF32 fc, w.toNat?.bind Window.ofCode with
    | some len, some osf, some fc, some w =>
      if ty == "f64" then
        let tb : Array (Array Float) := makeSincs (ρ := Float) len osf fc w
        "t " ++ ",".intercalate (tb.toList.flatMap fun r => r.toList.map fun x => hexNat x.toBits.toNat)
      else if ty == "f32" then
        let tb : Array (Array Float32) := makeSincs (ρ := Float) len osf fc w
        "t " ++ ",".intercalate (tb.toList.flatMap fun r => r.toList.map fun x => hexNat x.toBits.toNat)
      else "bad-op"
    | _, _, _, _ => "bad-op"
  | _ => "bad-op"

/-! ### one protocol line -/

def setSlot (ss : Sess) (i : Nat) (v : Option Slot) : Sess :=
  let slots := if ss.slots.size ≤ i then ss.slots ++ Array.replicate (i + 1 - ss.slots.size) none else ss.slots
  { ss with slots := slots.setIfInBounds i v }

def step (ss : Sess) (line : String) : Sess × String :=
  let t := (line.trimAscii.toString.splitOn " ").filter (· ≠ "")
  match t with
  | [] => (ss, "bad-op")
  | "hist" :: _ => ({ slots := #[], dead := false }, "hist")
  | "kdot" :: rest => (ss, kernLine rest)
  | "ktab" :: rest => (ss, ktabLine rest)
  | slot :: op :: rest =>
    if ss.dead then (ss, "skip") else
    match slot.toNat? with
    | none => (ss, "bad-op")
    | some i =>
      if op == "new" then
        match rest with
        | ty :: kind :: p =>
          let akind : Option AKind := match kind with
            | "fastin" => some .fastIn | "fastout" => some .fastOut
            | "sincin" => some .sincIn | "sincout" => some .sincOut | _ => none
          let fkind : Option FKind := match kind with
            | "fftin" => some .fftIn | "fftout" => some .fftOut | "fftio" => some .fftIo | _ => none
          match akind, fkind with
          | some k, _ =>
            if ty == "f64" then
              match newAsync (σ := Float) k p with
              | some (.ok s) => (setSlot ss i (some (.a64 s 0)), s!"ok | {gettersA s}")
              | some (.error e) => (setSlot ss i none, e.render)
              | none => (ss, "bad-op")
            else if ty == "f32" then
              match newAsync (σ := Float32) k p with
              | some (.ok s) => (setSlot ss i (some (.a32 s 0)), s!"ok | {gettersA s}")
              | some (.error e) => (setSlot ss i none, e.render)
              | none => (ss, "bad-op")
            else (ss, "bad-op")
          | none, some k =>
            if ty == "f64" then
              match newFft (σ := Float) k p with
              | some (.ok f) => (setSlot ss i (some (.f64 f 0)), s!"ok | {gettersF f.s}")
              | some (.error e) => (setSlot ss i none, e.render)
              | none => (ss, "bad-op")
            else if ty == "f32" then
              match newFft (σ := Float32) k p with
              | some (.ok f) => (setSlot ss i (some (.f32 f 0)), s!"ok | {gettersF f.s}")
              | some (.error e) => (setSlot ss i none, e.render)
              | none => (ss, "bad-op")
            else (ss, "bad-op")
          | none, none => (ss, "bad-op")
        | _ => (ss, "bad-op")
      else
        match ss.slots.getD i none with
        | none => (ss, "no-inst")
        | some (.a64 s c) =>
          let (s', c', o, dead) := opAsync (fun x => x) s c op rest
          ({ setSlot ss i (some (.a64 s' c')) with dead := dead }, o)
        | some (.a32 s c) =>
          let (s', c', o, dead) := opAsync (fun x => x.toFloat32) s c op rest
          ({ setSlot ss i (some (.a32 s' c')) with dead := dead }, o)
        | some (.f64 f c) =>
          let (f', c', o, dead) := opFft (fun x => x) f c op rest
          ({ setSlot ss i (some (.f64 f' c')) with dead := dead }, o)
        | some (.f32 f c) =>
          let (f', c', o, dead) := opFft (fun x => x.toFloat32) f c op rest
          ({ setSlot ss i (some (.f32 f' c')) with dead := dead }, o)
  | _ => (ss, "bad-op")

end Rubato.Driver
