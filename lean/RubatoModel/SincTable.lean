/-
Hand model of sinc.rs (`sinc`, `make_sincs`), of `make_interpolator`'s parameter handling, of the
scalar kernel of sinc_interpolator/mod.rs and of the probe interpolator used by the harness.
The window point formulas and `calculate_cutoff` come from `Generated.lean`.
-/
import RubatoModel.Async

namespace Rubato
open Rubato.Gen

variable {ρ σ : Type} [RNum ρ] [SNum ρ σ]

/-- `sinc.rs::sinc` -/
def sincFn [STrig σ] (v : σ) : σ :=
  if SNum.isZero v then SNum.one else STrig.sin (v * STrig.pi) / (v * STrig.pi)

/-- the prototype `y[x]`, `x < npoints·factor`, before normalisation -/
def sincProto [STrig σ] (npoints factor : Nat) (fcut : ρ) (w : Window) (x : Nat) : σ :=
  let tot := npoints * factor
  Win.make_window_at (ρ := ρ) w tot x *
    sincFn ((SNum.ofNat (ρ := ρ) x - SNum.ofNat (ρ := ρ) (tot / 2)) * SNum.ofCtl fcut / SNum.ofNat (ρ := ρ) factor)

/-- `make_sincs`: `sincs[factor-n-1][p] = y[factor·p+n] / (Σy / factor)` -/
def makeSincs [STrig σ] (npoints factor : Nat) (fcut : ρ) (w : Window) : Array (Array σ) :=
  let tot := npoints * factor
  let y : Array σ := (Array.range tot).map (sincProto npoints factor fcut w)
  let sum0 : σ := y.foldl (fun acc v => acc + v) SNum.zero
  let sum : σ := sum0 / SNum.ofNat (ρ := ρ) factor
  (Array.range factor).map fun s =>
    (Array.range npoints).map fun p => y.getD (factor * p + (factor - 1 - s)) SNum.zero / sum

/-- `make_interpolator`: length rounded up to a multiple of 8 through `f32`,
cutoff scaled by the ratio (in `f32`) when downsampling -/
def interpLen (sincLen : Nat) : Nat := Formulas.mkInterp_sinc_len (ρ := ρ) sincLen

def interpCutoff (fcut ratio : ρ) : ρ := Formulas.mkInterp_f_cutoff ratio fcut

/-- scalar kernel: eight interleaved accumulators, summed left to right at the end -/
def scalarDot (sincs : Array (Array σ)) (wave : Array σ) (index sub : Nat) : σ :=
  let sinc := sincs.getD sub #[]
  let n := sinc.size / 8
  let z : σ := SNum.zero
  let acc := (List.range n).foldl (fun (a : Array σ) blk =>
      (Array.range 8).map fun j =>
        a.getD j z + wave.getD (index + 8 * blk + j) z * sinc.getD (8 * blk + j) z)
    (Array.replicate 8 z)
  ((((((acc.getD 0 z + acc.getD 1 z) + acc.getD 2 z) + acc.getD 3 z) + acc.getD 4 z) + acc.getD 5 z)
    + acc.getD 6 z) + acc.getD 7 z

def tableInterp [STrig σ] (len factor : Nat) (fcut : ρ) (w : Window) : Interp σ :=
  let t := makeSincs len factor fcut w
  { len := len, nbr := factor, dot := scalarDot t }

/-- weights of the harness's probe interpolator -/
def probeWeight (k sub : Nat) : Int := ((k * 7 + sub * 3) % 11 : Nat) - 5

/-- the harness's probe interpolator: integer-weight FIR over the whole window, summed in order -/
def probeInterp (len nbr : Nat) : Interp σ :=
  { len := len, nbr := nbr,
    dot := fun wave index sub =>
      (List.range len).foldl (fun (acc : σ) k =>
        acc + wave.getD (index + k) SNum.zero * SNum.ofCtl (RNum.ofInt (ρ := ρ) (probeWeight k sub))) SNum.zero }

/-- the harness's linear-interpolation probe: the line through the two samples around the window centre,
evaluated at `index + len/2 - 1 + (sub+1)/nbr` -/
def lprobeInterp (len nbr : Nat) : Interp σ :=
  { len := len, nbr := nbr,
    dot := fun wave index sub =>
      let a := wave.getD (index + len / 2 - 1) SNum.zero
      let b := wave.getD (index + len / 2) SNum.zero
      let w : σ := SNum.ofCtl ((RNum.ofNat (ρ := ρ) sub + RNum.one) / RNum.ofNat nbr)
      a + w * (b - a) }

end Rubato
