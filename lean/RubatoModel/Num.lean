/-
Arithmetic interfaces of the model.

`RNum ρ`  : the control arithmetic of the Rust code (`f64`, with the few places that
            drop to `f32`).  Two instances: `Float` (bit-exact twin of the Rust code)
            and `Rat` (exact arithmetic, the one the [exact] theorems are about).
`SNum ρ σ`: the sample arithmetic (`T: Sample`), with `ofCtl : ρ → σ` = `T::coerce`.

No laws are assumed by the classes: a theorem proved for every instance is true of
IEEE arithmetic with all of its rounding ([law-free] theorems).
-/
namespace Rubato

class RNum (ρ : Type) extends Add ρ, Sub ρ, Mul ρ, Div ρ, Neg ρ where
  /-- a literal of the Rust source: `bits` is the IEEE-754 binary64 pattern rustc gives it,
      `n/d` the exact decimal value written in the source. -/
  lit     : (bits : UInt64) → (n d : Nat) → ρ
  /-- `x as f64` for a `usize`/`isize` value -/
  ofInt   : Int → ρ
  lt      : ρ → ρ → Bool
  le      : ρ → ρ → Bool
  floor   : ρ → ρ
  ceil    : ρ → ρ
  round   : ρ → ρ
  /-- `x as isize` (truncating, saturating) -/
  toInt   : ρ → Int
  /-- `x as usize` (truncating, saturating at 0, NaN ↦ 0) -/
  toNat   : ρ → Nat
  /-- `x as f32` (value kept in ρ) -/
  n32     : ρ → ρ
  /-- `n as f32` for a `usize` -/
  ofNat32 : Nat → ρ
  add32   : ρ → ρ → ρ
  sub32   : ρ → ρ → ρ
  mul32   : ρ → ρ → ρ
  div32   : ρ → ρ → ρ
  /-- IEEE bit pattern for printing (0 for the exact instance: never compared) -/
  bits    : ρ → UInt64
  /-- `a ≥ b` exactly as the Rust `>=` (false on NaN) -/
  ge      : ρ → ρ → Bool := fun a b => le b a

namespace RNum
variable {ρ : Type} [RNum ρ]
@[inline] def ofNat (n : Nat) : ρ := ofInt (Int.ofNat n)
@[inline] def zero : ρ := ofInt 0
/-- the literals `1.0`, `2.0`, `10.0` of the Rust source (same form as the translator emits) -/
@[inline] def one : ρ := lit 0x3FF0000000000000 1 1
@[inline] def two : ρ := lit 0x4000000000000000 2 1
@[inline] def ten : ρ := lit 0x4024000000000000 10 1
/-- the literal `0.5` -/
@[inline] def half : ρ := lit 0x3FE0000000000000 1 2
end RNum

/-- Sample arithmetic; `ofCtl` is `T::coerce(f64)`. -/
class SNum (ρ : outParam Type) (σ : Type) extends Add σ, Sub σ, Mul σ, Div σ, Neg σ where
  ofCtl : ρ → σ
  /-- `T::coerce(n)` for a `usize` -/
  ofNat : Nat → σ
  zero  : σ
  one   : σ
  /-- `value == T::zero()` -/
  isZero : σ → Bool
  sbits : σ → UInt64

/-- `Sample::PI`, `sin`, `cos` (libm for the IEEE instances, the real functions for `ℝ`). -/
class STrig (σ : Type) where
  pi  : σ
  cos : σ → σ
  sin : σ → σ

/-! ### Instance 1: IEEE (the executable twin of the Rust code) -/

@[inline] def f64ToInt (x : Float) : Int := x.toISize.toInt
@[inline] def f64ToNat (x : Float) : Nat := x.toUSize.toNat

instance : RNum Float where
  lit b _ _ := Float.ofBits b
  ofInt i := Float.ofInt i
  lt a b := a < b
  le a b := a ≤ b
  floor := Float.floor
  ceil := Float.ceil
  round := Float.round
  toInt := f64ToInt
  toNat := f64ToNat
  n32 x := x.toFloat32.toFloat
  ofNat32 n := (Float32.ofNat n).toFloat
  add32 a b := (a.toFloat32 + b.toFloat32).toFloat
  sub32 a b := (a.toFloat32 - b.toFloat32).toFloat
  mul32 a b := (a.toFloat32 * b.toFloat32).toFloat
  div32 a b := (a.toFloat32 / b.toFloat32).toFloat
  bits := Float.toBits

instance : SNum Float Float where
  ofCtl x := x
  ofNat n := Float.ofNat n
  zero := 0.0
  one := 1.0
  isZero x := x == 0.0
  sbits := Float.toBits

instance : SNum Float Float32 where
  ofCtl x := x.toFloat32
  ofNat n := Float32.ofNat n
  zero := 0.0
  one := 1.0
  isZero x := x == 0.0
  sbits x := x.toBits.toUInt64

instance : STrig Float where
  pi := Float.ofBits 0x400921FB54442D18
  cos := Float.cos
  sin := Float.sin

instance : STrig Float32 where
  pi := Float32.ofBits 0x40490FDB
  cos := Float32.cos
  sin := Float32.sin

/-! ### Instance 2: exact rationals (what the [exact] theorems are about) -/

instance : RNum Rat where
  lit _ n d := (n : Rat) / (d : Rat)
  ofInt i := (i : Rat)
  lt a b := decide (a < b)
  le a b := decide (a ≤ b)
  floor x := (x.floor : Rat)
  ceil x := (x.ceil : Rat)
  round x := ((x + 1/2).floor : Rat)   -- only used on non-negative arguments
  toInt x := if 0 ≤ x then x.floor else x.ceil
  toNat x := if 0 ≤ x then x.floor.toNat else 0
  n32 x := x
  ofNat32 n := (n : Rat)
  add32 a b := a + b
  sub32 a b := a - b
  mul32 a b := a * b
  div32 a b := a / b
  bits _ := 0

instance : SNum Rat Rat where
  ofCtl x := x
  ofNat n := (n : Rat)
  zero := 0
  one := 1
  isZero x := decide (x = 0)
  sbits _ := 0

/-! ### Integer division helpers for the FFT adapters -/

/-- How `(a as f32 / b as f32).ceil() as usize` and `.floor()` are evaluated. -/
structure DivArith where
  cdiv : Nat → Nat → Nat
  fdiv : Nat → Nat → Nat

/-- exact integer semantics -/
def DivArith.exact : DivArith where
  cdiv a b := (a + b - 1) / b
  fdiv a b := a / b

/-- what the Rust code computes (through `f32`) -/
def DivArith.f32 : DivArith where
  cdiv a b := (Float32.ofNat a / Float32.ofNat b).ceil.toUSize.toNat
  fdiv a b := (Float32.ofNat a / Float32.ofNat b).floor.toUSize.toNat

/-- the same two divisions written with the control-plane interface — the form the translator emits for the Rust
`(a as f32 / b as f32).ceil() as usize` (tie G7); `DivArith.ofNum Float` is the executable twin the driver runs and
`DivArith.ofNum ℚ = DivArith.exact` is a theorem (RubatoProofs/Lemmas/FormulaTie.lean) -/
def DivArith.ofNum (ρ : Type) [RNum ρ] : DivArith where
  cdiv a b := RNum.toNat (RNum.ceil (RNum.div32 (RNum.ofNat32 (ρ := ρ) a) (RNum.ofNat32 b)))
  fdiv a b := RNum.toNat (RNum.floor (RNum.div32 (RNum.ofNat32 (ρ := ρ) a) (RNum.ofNat32 b)))

end Rubato
