/-
Enumerations shared by the hand-written model and the generated definitions.
Numeric codes are the ones used on the driver's line protocol.
-/
namespace Rubato

/-- `PolynomialDegree` -/
inductive Degree where
  | septic | quintic | cubic | linear | nearest
  deriving DecidableEq, Repr, Inhabited

def Degree.ofCode : Nat → Option Degree
  | 0 => some .septic | 1 => some .quintic | 2 => some .cubic | 3 => some .linear | 4 => some .nearest
  | _ => none

/-- which generated kernel a `PolynomialDegree` arm calls -/
inductive FastKernel where
  | septic | quintic | cubic | lin | nearest
  deriving DecidableEq, Repr, Inhabited

/-- `SincInterpolationType` -/
inductive SincInterp where
  | cubic | quadratic | linear | nearest
  deriving DecidableEq, Repr, Inhabited

def SincInterp.ofCode : Nat → Option SincInterp
  | 0 => some .cubic | 1 => some .quadratic | 2 => some .linear | 3 => some .nearest
  | _ => none

/-- number of sinc points blended per output frame -/
def SincInterp.points : SincInterp → Nat
  | .cubic => 4 | .quadratic => 3 | .linear => 2 | .nearest => 1

/-- `WindowFunction` -/
inductive Window where
  | blackman | blackman2 | blackmanHarris | blackmanHarris2 | hann | hann2
  deriving DecidableEq, Repr, Inhabited

def Window.ofCode : Nat → Option Window
  | 0 => some .blackman | 1 => some .blackman2 | 2 => some .blackmanHarris
  | 3 => some .blackmanHarris2 | 4 => some .hann | 5 => some .hann2
  | _ => none

end Rubato
