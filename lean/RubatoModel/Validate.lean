/-
`validate_buffers` of lib.rs, the error type, and the outcome type of a call.
-/
import RubatoModel.Num
import RubatoModel.Types

namespace Rubato

/-- `ResampleError` (payloads as the Rust variants carry them; floats of RatioOutOfBounds dropped) -/
inductive RErr where
  | ratioOutOfBounds
  | syncNotAdjustable
  | wrongIn (expected actual : Nat)
  | wrongOut (expected actual : Nat)
  | wrongMask (expected actual : Nat)
  | insufIn (channel expected actual : Nat)
  | insufOut (channel expected actual : Nat)
  | invalidChunk (max requested : Nat)
  | chunkNotAdjustable
  deriving DecidableEq, Repr, Inhabited

def RErr.render : RErr → String
  | .ratioOutOfBounds => "err RatioOutOfBounds"
  | .syncNotAdjustable => "err SyncNotAdjustable"
  | .wrongIn e a => s!"err WrongNumberOfInputChannels {e} {a}"
  | .wrongOut e a => s!"err WrongNumberOfOutputChannels {e} {a}"
  | .wrongMask e a => s!"err WrongNumberOfMaskChannels {e} {a}"
  | .insufIn c e a => s!"err InsufficientInputBufferSize {c} {e} {a}"
  | .insufOut c e a => s!"err InsufficientOutputBufferSize {c} {e} {a}"
  | .invalidChunk m r => s!"err InvalidChunkSize {m} {r}"
  | .chunkNotAdjustable => "err ChunkSizeNotAdjustable"

/-- `ResamplerConstructionError` -/
inductive CErr where
  | invalidSampleRate (input output : Nat)
  | invalidRelativeRatio
  | invalidRatio
  deriving DecidableEq, Repr, Inhabited

def CErr.render : CErr → String
  | .invalidSampleRate i o => s!"err InvalidSampleRate {i} {o}"
  | .invalidRelativeRatio => "err InvalidRelativeRatio"
  | .invalidRatio => "err InvalidRatio"

/-- How a call ends.  `panic` = a Rust panic (checked index, assert, slice range, overflow check),
`abort` = an out-of-range *unchecked* access (UB in release, abort under debug assertions). -/
inductive Outcome (α : Type) where
  | ok (a : α)
  | err (e : RErr)
  | panic (site : String)
  | abort (site : String)
  deriving Repr, Inhabited

/-- first index `i` with `mask[i]` and `lens[i] < need`, as `(i, lens[i])`. -/
def firstShort (lens : List Nat) (mask : List Bool) (need : Nat) : Option (Nat × Nat) :=
  go lens mask 0
where
  go : List Nat → List Bool → Nat → Option (Nat × Nat)
    | l :: ls, m :: ms, i => if m && decide (l < need) then some (i, l) else go ls ms (i + 1)
    | _, _, _ => none

/-- `lib.rs::validate_buffers` on the *shapes* of the arguments (it never looks at a sample).
The decision list, in source order. -/
def validateBuffers (inLens outLens : List Nat) (mask : List Bool)
    (channels minIn minOut : Nat) : Except RErr Unit :=
  if inLens.length ≠ channels then .error (.wrongIn channels inLens.length)
  else if mask.length ≠ channels then .error (.wrongMask channels mask.length)
  else match firstShort inLens mask minIn with
    | some (c, a) => .error (.insufIn c minIn a)
    | none =>
      if outLens.length ≠ channels then .error (.wrongOut channels outLens.length)
      else match firstShort outLens mask minOut with
        | some (c, a) => .error (.insufOut c minOut a)
        | none => .ok ()

/-- The mask handling at the top of every `process_into_buffer` (after the `fix:` that checks the
length before `copy_from_slice`): `none` ↦ all true. -/
def updateMask (nch : Nat) (user : Option (List Bool)) : Except RErr (List Bool) :=
  match user with
  | none => .ok (List.replicate nch true)
  | some m => if m.length ≠ nch then .error (.wrongMask nch m.length) else .ok m

end Rubato
