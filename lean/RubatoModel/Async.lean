/-
Hand model of the four asynchronous resamplers (asynchro_fast.rs, asynchro_sinc.rs):
state, constructors, `process_into_buffer`, setters, `reset`, getters.

Written once over the arithmetic interfaces of `Num.lean`; instantiated at `Float` it is the
executable twin of the Rust code (tied to it by the correspondence check), instantiated at `Rat`
it is what the [exact] theorems are about.

Conventions
* every slice access of the Rust code is an explicit range test here; failing it ends the call with
  `Outcome.abort` (unchecked access) or `Outcome.panic` (checked access / assert);
* positions (`idx`) are relative to the first frame loaded by the current call, which sits at
  buffer offset `2·L`;
* the kernels and the window table come from `Generated.lean`.
-/
import RubatoModel.Generated
import RubatoModel.Validate

namespace Rubato
open Rubato.Gen

inductive AKind where
  | fastIn | fastOut | sincIn | sincOut
  deriving DecidableEq, Repr, Inhabited

def AKind.isSinc : AKind → Bool
  | .sincIn | .sincOut => true
  | _ => false

def AKind.isFixedIn : AKind → Bool
  | .fastIn | .sincIn => true
  | _ => false

/-- A `SincInterpolator`: `dot wave index subindex`, total; the preconditions the Rust
implementations assert are tested by the caller (`sincPoint`). -/
structure Interp (σ : Type) where
  len : Nat
  nbr : Nat
  dot : Array σ → Nat → Nat → σ

instance {σ} [Inhabited σ] : Inhabited (Interp σ) := ⟨⟨0, 0, fun _ _ _ => default⟩⟩

structure AState (ρ σ : Type) where
  kind      : AKind
  nch       : Nat
  chunk     : Nat
  maxChunk  : Nat
  /-- `needed_input_size` (fixed-out types) -/
  needed    : Nat
  /-- `current_buffer_fill` (FastFixedIn has no such field: it is `chunk` there) -/
  fill      : Nat
  lastIndex : ρ
  ratio     : ρ
  orig      : ρ
  target    : ρ
  maxRel    : ρ
  /-- `POLYNOMIAL_LEN` or `interpolator.len()` -/
  L         : Nat
  deg       : Degree
  sint      : SincInterp
  ip        : Interp σ
  buf       : Array (Array σ)
  mask      : List Bool

variable {ρ σ : Type} [RNum ρ] [SNum ρ σ]

/-! ### Formulas shared by several methods -/

/-- `0.5 * resample_ratio + 0.5 * target_ratio` -/
@[inline] def meanRatio (ratio target : ρ) : ρ := RNum.half * ratio + RNum.half * target

/-- `(chunk as f64 * mean + 10.0) as usize` : `calc_needed_len`, `output_frames_next` of the fixed-in types -/
def outNextIn (chunk : Nat) (ratio target : ρ) : Nat :=
  RNum.toNat (RNum.ofNat chunk * meanRatio ratio target + RNum.ten)

/-- `(chunk as f64 * orig * max_rel + 10.0) as usize` -/
def outMaxIn (chunk : Nat) (orig maxRel : ρ) : Nat :=
  RNum.toNat (RNum.ofNat chunk * orig * maxRel + RNum.ten)

/-- `(chunk as f64 / orig * max_rel).ceil() as usize + 2 + L/2` -/
def inMaxOut (chunk : Nat) (orig maxRel : ρ) (L : Nat) : Nat :=
  RNum.toNat (RNum.ceil (RNum.ofNat chunk / orig * maxRel)) + 2 + L / 2

/-- constructor / `FastFixedOut::reset` / repaired `SincFixedOut::reset`:
`(chunk as f64 / ratio).ceil() as usize + L/2` -/
def neededInit (chunk : Nat) (ratio : ρ) (L : Nat) : Nat :=
  RNum.toNat (RNum.ceil (RNum.ofNat chunk / ratio)) + L / 2

/-- `((max_rel + 1.0) * needed as f64) as usize + 2*L` -/
def bufLenOut (maxRel : ρ) (needed L : Nat) : Nat :=
  RNum.toNat ((maxRel + RNum.one) * RNum.ofNat needed) + 2 * L

/-- `f32` half -/
@[inline] def half32 : ρ := RNum.n32 (RNum.half : ρ)

/-- (after the `fix:` of the ramped needed-size formula)
`chunk as f32 / ratio as f32`, the first summand of the advance -/
def advanceBase32 (chunk : Nat) (ratio : ρ) : ρ :=
  RNum.div32 (RNum.ofNat32 chunk) (RNum.n32 ratio)

/-- `0.5 * (chunk + 1) as f32 * (1.0 / target as f32 - 1.0 / ratio as f32)`: the ramp correction -/
def advanceRamp32 (chunk : Nat) (ratio target : ρ) : ρ :=
  RNum.mul32 (RNum.mul32 half32 (RNum.ofNat32 (chunk + 1)))
    (RNum.sub32 (RNum.div32 (RNum.n32 RNum.one) (RNum.n32 target)) (RNum.div32 (RNum.n32 RNum.one) (RNum.n32 ratio)))

/-- `SincFixedOut::update_needed_len`:
`(last as f32 + chunk as f32 / r as f32 + 0.5*(chunk+1) as f32*(1/t − 1/r) + L as f32).ceil() as usize` -/
def neededSinc (last : ρ) (chunk : Nat) (ratio target : ρ) (L : Nat) : Nat :=
  RNum.toNat (RNum.ceil (RNum.add32 (RNum.add32 (RNum.add32 (RNum.n32 last) (advanceBase32 chunk ratio))
    (advanceRamp32 chunk ratio target)) (RNum.ofNat32 L)))

/-- end of `FastFixedOut::process_into_buffer`:
`(last as f32 + chunk as f32 / ratio as f32 + 8 as f32).ceil() as usize` -/
def neededFastAfter (last : ρ) (chunk : Nat) (ratio : ρ) (L : Nat) : Nat :=
  RNum.toNat (RNum.ceil (RNum.add32 (RNum.add32 (RNum.n32 last)
    (RNum.div32 (RNum.ofNat32 chunk) (RNum.n32 ratio))) (RNum.ofNat32 L)))

/-- `FastFixedOut::set_resample_ratio` (after the two `fix:`es):
`(last as f32 + chunk as f32 / r as f32 + 0.5*(chunk+1) as f32*(1/t − 1/r) + 8 as f32).ceil() as usize`,
the same expression as `SincFixedOut::update_needed_len`. -/
def neededFastSet (last : ρ) (chunk : Nat) (ratio target : ρ) (L : Nat) : Nat :=
  neededSinc last chunk ratio target L

/-- the range test of all four `set_resample_ratio` -/
def ratioInRange (new orig maxRel : ρ) : Bool :=
  RNum.ge (new / orig) (RNum.one / maxRel) && RNum.le (new / orig) maxRel

/-! ### Constructors -/

/-- `validate_ratios` -/
def validateRatios (ratio maxRel : ρ) : Except CErr Unit :=
  if RNum.le ratio RNum.zero then .error .invalidRatio
  else if RNum.lt maxRel RNum.one then .error .invalidRelativeRatio
  else .ok ()

def zeroBuf (nch len : Nat) : Array (Array σ) :=
  Array.replicate nch (Array.replicate len (SNum.zero : σ))

/-- the probe-independent part of a constructor -/
def AState.init (kind : AKind) (ratio maxRel : ρ) (deg : Degree) (sint : SincInterp)
    (ip : Interp σ) (chunk nch : Nat) : Except CErr (AState ρ σ) :=
  match validateRatios ratio maxRel with
  | .error e => .error e
  | .ok () =>
    let L := if kind.isSinc then ip.len else Fast.polyLen
    let last : ρ := - RNum.ofNat (L / 2)
    if kind.isFixedIn then
      .ok { kind, nch, chunk, maxChunk := chunk, needed := 0, fill := chunk, lastIndex := last,
            ratio, orig := ratio, target := ratio, maxRel, L, deg, sint, ip,
            buf := zeroBuf nch (chunk + 2 * L), mask := List.replicate nch true }
    else
      let needed := neededInit chunk ratio L
      .ok { kind, nch, chunk, maxChunk := chunk, needed, fill := needed, lastIndex := last,
            ratio, orig := ratio, target := ratio, maxRel, L, deg, sint, ip,
            buf := zeroBuf nch (bufLenOut maxRel needed L), mask := List.replicate nch true }

/-! ### Getters -/

def AState.inputFramesNext (s : AState ρ σ) : Nat :=
  if s.kind.isFixedIn then s.chunk else s.needed

def AState.inputFramesMax (s : AState ρ σ) : Nat :=
  if s.kind.isFixedIn then s.maxChunk else inMaxOut s.maxChunk s.orig s.maxRel s.L

def AState.outputFramesNext (s : AState ρ σ) : Nat :=
  if s.kind.isFixedIn then outNextIn s.chunk s.ratio s.target else s.chunk

def AState.outputFramesMax (s : AState ρ σ) : Nat :=
  if s.kind.isFixedIn then outMaxIn s.maxChunk s.orig s.maxRel else s.maxChunk

/-- `(L as f64 * ratio / 2.0) as usize` -/
def AState.outputDelay (s : AState ρ σ) : Nat :=
  RNum.toNat (RNum.ofNat s.L * s.ratio / RNum.two)

/-! ### Setters and reset -/

def AState.setRatio (s : AState ρ σ) (new : ρ) (ramp : Bool) : AState ρ σ × Except RErr Unit :=
  if ratioInRange new s.orig s.maxRel then
    let ratio := if ramp then s.ratio else new
    let s1 := { s with ratio := ratio, target := new }
    match s.kind with
    | .fastIn | .sincIn => (s1, .ok ())
    | .fastOut => ({ s1 with needed := neededFastSet s.lastIndex s.chunk ratio new s.L }, .ok ())
    | .sincOut => ({ s1 with needed := neededSinc s.lastIndex s.chunk ratio new s.L }, .ok ())
  else (s, .error .ratioOutOfBounds)

def AState.setRatioRelative (s : AState ρ σ) (rel : ρ) (ramp : Bool) : AState ρ σ × Except RErr Unit :=
  s.setRatio (s.orig * rel) ramp

def AState.setChunk (s : AState ρ σ) (n : Nat) : AState ρ σ × Except RErr Unit :=
  match s.kind with
  | .fastIn | .fastOut => (s, .error .chunkNotAdjustable)
  | .sincIn =>
    if n > s.maxChunk || n == 0 then (s, .error (.invalidChunk s.maxChunk n))
    else ({ s with chunk := n }, .ok ())
  | .sincOut =>
    if n > s.maxChunk || n == 0 then (s, .error (.invalidChunk s.maxChunk n))
    else ({ s with chunk := n, needed := neededSinc s.lastIndex n s.ratio s.target s.L }, .ok ())

def zeroLike (b : Array (Array σ)) : Array (Array σ) :=
  b.map fun ch => Array.replicate ch.size (SNum.zero : σ)

def AState.reset (s : AState ρ σ) : AState ρ σ :=
  let last : ρ := - RNum.ofNat (s.L / 2)
  let base := { s with buf := zeroLike s.buf, mask := List.replicate s.nch true,
                       lastIndex := last, ratio := s.orig, target := s.orig }
  match s.kind with
  | .fastIn => base
  | .sincIn => { base with chunk := s.maxChunk, fill := s.maxChunk }
  | .fastOut =>
    let needed := neededInit s.chunk s.orig s.L
    { base with needed := needed, fill := needed }
  | .sincOut =>
    let needed := neededInit s.maxChunk s.orig s.L
    { base with chunk := s.maxChunk, needed := needed, fill := needed }

/-! ### Stepping loops (the control plane of `process_into_buffer`) -/

/-- fixed-output loop: exactly `n` steps of `t += inc; idx += t` -/
def stepsOut (inc : ρ) : Nat → ρ → ρ → List ρ
  | 0, _, _ => []
  | n + 1, t, idx =>
    let t' := t + inc
    let idx' := idx + t'
    idx' :: stepsOut inc n t' idx'

/-- last position of `stepsOut` (the `idx` after the loop) -/
def stepsOutLast (inc : ρ) : Nat → ρ → ρ → ρ
  | 0, _, idx => idx
  | n + 1, t, idx => stepsOutLast inc n (t + inc) (idx + (t + inc))

/-- fixed-input loop `while idx < end { t += inc; idx += t; … }` with fuel.
Returns the positions, the final `idx`, and whether the loop still wanted to run when the fuel
(the room in the output buffer) was used up. -/
def stepsIn (inc endIdx : ρ) : Nat → ρ → ρ → List ρ × ρ × Bool
  | 0, _, idx => ([], idx, RNum.lt idx endIdx)
  | n + 1, t, idx =>
    if RNum.lt idx endIdx then
      let t' := t + inc
      let idx' := idx + t'
      let r := stepsIn inc endIdx n t' idx'
      (idx' :: r.1, r.2.1, r.2.2)
    else ([], idx, false)

/-! ### Data plane: one output value from a buffer and a position -/

/-- buffer index where the window of a polynomial kernel starts: `⌊idx⌋ - offset + 2·L` -/
def fastStart (deg : Degree) (idx : ρ) : Int :=
  RNum.toInt (RNum.floor idx) - (Fast.fastWindow deg).1 + 2 * (Fast.polyLen : Int)

def fastWidth (deg : Degree) : Nat := (Fast.fastWindow deg).2.1

/-- value of a polynomial kernel (no range test: the caller has done it) -/
def fastValue (deg : Degree) (b : Array σ) (idx : ρ) : σ :=
  let s := (fastStart deg idx).toNat
  let fl := RNum.floor idx
  let x : σ := SNum.ofCtl (idx - fl)
  let y : Nat → σ := fun k => b.getD (s + k) SNum.zero
  match (Fast.fastWindow deg).2.2 with
  | .septic => Fast.interp_septic x y
  | .quintic => Fast.interp_quintic x y
  | .cubic => Fast.interp_cubic x y
  | .lin => Fast.interp_lin x y
  | .nearest => y 0

/-- `interpolation.rs`: wrap `(index, subindex)` into `0 ≤ subindex < factor` (one step each way) -/
def wrapSub (index sub factor : Int) : Int × Int :=
  if sub < 0 then (index - 1, sub + factor)
  else if sub ≥ factor then (index + 1, sub - factor)
  else (index, sub)

/-- `get_nearest_time(s)_k`: the `(index, subindex)` pairs for position `t` -/
def nearestTimes (sint : SincInterp) (t : ρ) (factor : Nat) : List (Int × Int) :=
  let fl := RNum.floor t
  let start := RNum.toInt fl
  let f : ρ := RNum.ofNat factor
  match sint with
  | .nearest =>
    let sub := RNum.toInt (RNum.round ((t - fl) * f))
    if sub ≥ (factor : Int) then [(start + 1, sub - factor)] else [(start, sub)]
  | .linear =>
    let sub := RNum.toInt (RNum.floor ((t - fl) * f))
    let sub1 := sub + 1
    [(start, sub), if sub1 ≥ (factor : Int) then (start + 1, sub1 - factor) else (start, sub1)]
  | .quadratic =>
    let frac := RNum.toInt (RNum.floor ((t - fl) * f))
    let o := Sinc.nearestFirstOffset 3
    [wrapSub start (frac + o) factor, wrapSub start (frac + o + 1) factor,
     wrapSub start (frac + o + 2) factor]
  | .cubic =>
    let frac := RNum.toInt (RNum.floor ((t - fl) * f))
    let o := Sinc.nearestFirstOffset 4
    [wrapSub start (frac + o) factor, wrapSub start (frac + o + 1) factor,
     wrapSub start (frac + o + 2) factor, wrapSub start (frac + o + 3) factor]

/-- the preconditions every `get_sinc_interpolated` asserts, on `(n.0 + 2·L, n.1)` -/
def sincPointOk (ip : Interp σ) (waveLen : Nat) (L : Nat) (p : Int × Int) : Bool :=
  let i := p.1 + 2 * (L : Int)
  decide (0 ≤ i) && decide (i.toNat + ip.len < waveLen) && decide (0 ≤ p.2) && decide (p.2.toNat < ip.nbr)

/-- `frac = idx·f − ⌊idx·f⌋` -/
def sincFrac (idx : ρ) (factor : Nat) : ρ :=
  let p := idx * RNum.ofNat factor
  p - RNum.floor p

def sincValue (sint : SincInterp) (ip : Interp σ) (L : Nat) (b : Array σ) (idx : ρ) : σ :=
  let pts := (nearestTimes sint idx ip.nbr).map fun p => ip.dot b (p.1 + 2 * (L : Int)).toNat p.2.toNat
  let x : σ := SNum.ofCtl (sincFrac idx ip.nbr)
  let y : Nat → σ := fun k => pts.getD k SNum.zero
  match sint with
  | .cubic => Sinc.interp_cubic x y
  | .quadratic => Sinc.interp_quad x y
  | .linear => Sinc.interp_lin x y
  | .nearest => y 0

/-- one past the highest buffer index a position reads (for the "supplied data" predicate) -/
def readEnd (s : AState ρ σ) (idx : ρ) : Int :=
  if s.kind.isSinc then
    ((nearestTimes s.sint idx s.ip.nbr).map fun p => p.1 + 2 * (s.L : Int) + s.ip.len).foldl max 0
  else fastStart s.deg idx + fastWidth s.deg

/-- lowest buffer index a position reads -/
def readStart (s : AState ρ σ) (idx : ρ) : Int :=
  if s.kind.isSinc then
    match (nearestTimes s.sint idx s.ip.nbr).map (fun p => p.1 + 2 * (s.L : Int)) with
    | [] => 0
    | a :: as => as.foldl min a
  else fastStart s.deg idx

/-- range test of one position against one channel buffer; `none` = fine -/
def posFault (s : AState ρ σ) (bufLen : Nat) (idx : ρ) : Option (Outcome Unit) :=
  if s.kind.isSinc then
    if (nearestTimes s.sint idx s.ip.nbr).all (sincPointOk s.ip bufLen s.L) then none
    else some (.panic "get_sinc_interpolated")
  else
    let st := fastStart s.deg idx
    if 0 ≤ st ∧ st + fastWidth s.deg ≤ bufLen then none else some (.abort "get_unchecked(window)")

def posValue (s : AState ρ σ) (b : Array σ) (idx : ρ) : σ :=
  if s.kind.isSinc then sincValue s.sint s.ip s.L b idx else fastValue s.deg b idx

/-! ### Buffer maintenance -/

/-- `buf.copy_within(src..src+n, 0)` -/
def copyWithin (b : Array σ) (src n : Nat) : Array σ :=
  b.extract src (src + n) ++ b.extract n b.size

/-- `buf[at..at+data.len()].copy_from_slice(data)` -/
def loadAt (b : Array σ) (pos : Nat) (data : Array σ) : Array σ :=
  b.extract 0 pos ++ data ++ b.extract (pos + data.size) b.size

/-- arguments of a processing call -/
structure CallArgs (σ : Type) where
  input   : List (Array σ)
  outLens : List Nat
  mask    : Option (List Bool)

/-- what a successful call reports: frames consumed, frames written, the frames written per channel
(`none` for inactive channels) and whether any read went beyond the data loaded (`stale`). -/
structure CallOut (σ : Type) where
  nIn   : Nat
  nOut  : Nat
  out   : List (Option (Array σ))
  stale : Bool

/-- shift the history and load the new frames; `none` = a slice range panic -/
def refill (s : AState ρ σ) (mask : List Bool) (input : List (Array σ)) (shiftFrom loadN : Nat) :
    Option (Array (Array σ)) :=
  let twoL := 2 * s.L
  if s.buf.any (fun b => decide (shiftFrom + twoL > b.size)) then none
  else
    let shifted := s.buf.map fun b => copyWithin b shiftFrom twoL
    let rec go (i : Nat) (ms : List Bool) (ins : List (Array σ)) (acc : Array (Array σ)) :
        Option (Array (Array σ)) :=
      match ms, ins with
      | m :: ms', inp :: ins' =>
        if m then
          let b := acc.getD i #[]
          if twoL + loadN > b.size || loadN > inp.size then none
          else go (i + 1) ms' ins' (acc.setIfInBounds i (loadAt b twoL (inp.extract 0 loadN)))
        else go (i + 1) ms' ins' acc
      | _, _ => some acc
    go 0 mask input shifted

/-- evaluate all positions on all active channels -/
def evalChannels (s : AState ρ σ) (buf : Array (Array σ)) (mask : List Bool) (ps : List ρ) :
    Except (Outcome Unit) (List (Option (Array σ))) :=
  let rec go (i : Nat) (ms : List Bool) (acc : List (Option (Array σ))) :
      Except (Outcome Unit) (List (Option (Array σ))) :=
    match ms with
    | [] => .ok acc.reverse
    | m :: ms' =>
      if m then
        let b := buf.getD i #[]
        match ps.findSome? (posFault s b.size) with
        | some f => .error f
        | none => go (i + 1) ms' (some (ps.toArray.map (posValue s b)) :: acc)
      else go (i + 1) ms' (none :: acc)
  go 0 mask []

/-- smallest output-buffer length among the active channels (`none` if no channel is active) -/
def minActiveLen (outLens : List Nat) (mask : List Bool) : Option Nat :=
  (List.zip outLens mask).foldl
    (fun acc p => if p.2 then (match acc with | none => some p.1 | some a => some (min a p.1)) else acc) none

/-- fuel when no channel is active: nothing is written, the loop is only bounded by `end_idx` -/
def idleFuel : Nat := 1000000

/-- turn an evaluation fault into the outcome of the call -/
def faultOutcome {α : Type} (f : Outcome Unit) : Outcome α :=
  match f with
  | .panic m => .panic m
  | .abort m => .abort m
  | _ => .panic "?"

/- What a fixed-input call ends in when its stepping loop has not reached `end_idx` within the room of the output buffers:
with an active channel the next write is out of range (checked index for the sinc types, unchecked for the polynomial
ones).  With NO active channel nothing is written and the loop just keeps running; that only happens when the position
diverges (a ramp whose step has turned negative, finding D4) — the real loop then runs until the position leaves the
`isize` range (overflow panic in a build with overflow checks; a release build spins on): "position diverges". -/

/-- second half of a fixed-INPUT call: `s` already holds the refilled buffer (`fill` = frames loaded).
`fuel` = room in the output buffers. -/
def AState.finishIn (s : AState ρ σ) (mask : List Bool) (fuel : Nat) : AState ρ σ × Outcome (CallOut σ) :=
  let t0 : ρ := RNum.one / s.ratio
  let t1 : ρ := RNum.one / s.target
  let fillEnd : Int := 2 * (s.L : Int) + s.chunk
  let approx : ρ := RNum.ofNat s.chunk * meanRatio s.ratio s.target
  let inc : ρ := (t1 - t0) / approx
  let endIdx : Int := (s.chunk : Int) - ((s.L : Int) + 1) - RNum.toInt (RNum.ceil t1)
  let r := stepsIn inc (RNum.ofInt endIdx) fuel t0 s.lastIndex
  let ps := r.1
  if r.2.2 then
    (s, (if mask.any id then (if s.kind.isSinc then .panic "wave_out[n]" else .abort "get_unchecked_mut(n)")
         else .panic "position diverges"))
  else
    match evalChannels s s.buf mask ps with
    | .error f => (s, faultOutcome f)
    | .ok outs =>
      let stale := ps.any fun p => decide (readEnd s p > fillEnd)
      ({ s with lastIndex := r.2.1 - RNum.ofNat s.chunk, ratio := s.target },
        .ok { nIn := s.chunk, nOut := ps.length, out := outs, stale })

/-- second half of a fixed-OUTPUT call: `s` already holds the refilled buffer, `s.fill` = frames loaded
by this call (= the `needed` the call was validated against). -/
def AState.finishOut (s : AState ρ σ) (mask : List Bool) : AState ρ σ × Outcome (CallOut σ) :=
  let t0 : ρ := RNum.one / s.ratio
  let t1 : ρ := RNum.one / s.target
  let fillEnd : Int := 2 * (s.L : Int) + s.fill
  let inc : ρ := (t1 - t0) / RNum.ofNat s.chunk
  let ps := stepsOut inc s.chunk t0 s.lastIndex
  match evalChannels s s.buf mask ps with
  | .error f => (s, faultOutcome f)
  | .ok outs =>
    let stale := ps.any fun p => decide (readEnd s p > fillEnd)
    let last := stepsOutLast inc s.chunk t0 s.lastIndex - RNum.ofNat s.fill
    let needed' := match s.kind with
      | .fastOut => neededFastAfter last s.chunk s.target s.L
      | _ => neededSinc last s.chunk s.target s.target s.L
    ({ s with lastIndex := last, ratio := s.target, needed := needed' },
      .ok { nIn := s.fill, nOut := s.chunk, out := outs, stale })

/-- frames a call must be given / frames the output buffers must hold -/
def AState.minIn (s : AState ρ σ) : Nat := if s.kind.isFixedIn then s.chunk else s.needed
def AState.minOut (s : AState ρ σ) : Nat :=
  if s.kind.isFixedIn then outNextIn s.chunk s.ratio s.target else s.chunk

/-- where the history to keep starts: FastFixedIn has no `current_buffer_fill`, it uses `chunk_size` -/
def AState.shiftFrom (s : AState ρ σ) : Nat :=
  match s.kind with
  | .fastIn => s.chunk
  | _ => s.fill

/-- `process_into_buffer` of the four asynchronous resamplers. -/
def AState.process (s : AState ρ σ) (a : CallArgs σ) : AState ρ σ × Outcome (CallOut σ) :=
  match updateMask s.nch a.mask with
  | .error e => (s, .err e)
  | .ok mask =>
    let s := { s with mask := mask }
    match validateBuffers (a.input.map Array.size) a.outLens mask s.nch s.minIn s.minOut with
    | .error e => (s, .err e)
    | .ok () =>
      match refill s mask a.input s.shiftFrom s.minIn with
      | none => (s, .panic "copy_within/copy_from_slice")
      | some buf =>
        let s := { s with buf := buf, fill := s.minIn }
        if s.kind.isFixedIn then
          s.finishIn mask (match minActiveLen a.outLens mask with
            | some n => n
            | none => idleFuel)
        else s.finishOut mask

end Rubato
