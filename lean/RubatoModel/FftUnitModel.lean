/-
Model of `FftResampler::new` / `FftResampler::resample_unit` (synchro.rs) over a NAIVE real DFT:
zero-pad → forward real DFT (fft_in+1 bins) → multiply the first `new_len` bins by the DFT of the anti-aliasing
filter → zero the remaining bins → unnormalised inverse real DFT of length 2·fft_out (imaginary parts of the DC and
Nyquist bins ignored, as realfft does) → overlap-add.  realfft/rustfft themselves are outside the model: this twin
agrees with them to rounding (checked by the correspondence run with a tolerance), it does not share their code.
-/
import RubatoModel.SincTable
import RubatoModel.Fft

namespace Rubato
open Rubato.Gen

variable {ρ σ : Type} [RNum ρ] [SNum ρ σ] [STrig σ]

/-- `cos(2π j / n)` and `sin(2π j / n)` for `j < n` -/
def twiddles (n : Nat) : Array σ × Array σ :=
  let two : σ := SNum.ofNat (ρ := ρ) 2
  let ang (j : Nat) : σ := two * STrig.pi * SNum.ofNat (ρ := ρ) j / SNum.ofNat (ρ := ρ) n
  ((Array.range n).map fun j => STrig.cos (ang j), (Array.range n).map fun j => STrig.sin (ang j))

/-- forward real DFT of `x` (length `n`, even): bins `0 ..= n/2` as (re, im), `X[k] = Σ x[j]·e^{−2πi jk/n}` -/
def rdft (tw : Array σ × Array σ) (x : Array σ) : Array (σ × σ) :=
  let n := x.size
  let z : σ := SNum.zero (ρ := ρ)
  (Array.range (n / 2 + 1)).map fun k =>
    (List.range n).foldl (fun (acc : σ × σ) j =>
      let c := tw.1.getD ((j * k) % n) z
      let s := tw.2.getD ((j * k) % n) z
      let v := x.getD j z
      (acc.1 + v * c, acc.2 - v * s)) (z, z)

/-- unnormalised inverse real DFT to `n` samples (n even) from bins `0 ..= n/2`; the imaginary parts of bins 0 and n/2
are ignored -/
def irdft (tw : Array σ × Array σ) (n : Nat) (X : Array (σ × σ)) : Array σ :=
  let z : σ := SNum.zero (ρ := ρ)
  let two : σ := SNum.ofNat (ρ := ρ) 2
  (Array.range n).map fun j =>
    let dc := (X.getD 0 (z, z)).1
    let ny := (X.getD (n / 2) (z, z)).1
    let nyq := if j % 2 == 0 then ny else z - ny
    let mid := (List.range (n / 2 - 1)).foldl (fun (acc : σ) k0 =>
      let k := k0 + 1
      let b := X.getD k (z, z)
      let c := tw.1.getD ((j * k) % n) z
      let s := tw.2.getD ((j * k) % n) z
      acc + two * (b.1 * c - b.2 * s)) z
    dc + mid + nyq

/-- the cutoff `FftResampler::new` computes (in `f32`): `calculate_cutoff::<f32>(min size, BlackmanHarris2)`, scaled by
`fft_out/fft_in` (in `f32`) when down-sampling -/
def fftCutoff (cutoffOf : Nat → ρ) (fftIn fftOut : Nat) : ρ :=
  if fftIn > fftOut then
    RNum.div32 (RNum.mul32 (cutoffOf fftOut) (RNum.ofNat32 fftOut)) (RNum.ofNat32 fftIn)
  else cutoffOf fftIn

structure UnitTables (σ : Type) where
  fftIn   : Nat
  fftOut  : Nat
  twIn    : Array σ × Array σ
  twOut   : Array σ × Array σ
  filterF : Array (σ × σ)

/-- `FftResampler::new`: filter taps `sincs[0][n] / (2·fft_in)`, zero-padded to `2·fft_in`, transformed -/
def UnitTables.make (cutoff : ρ) (fftIn fftOut : Nat) : UnitTables σ :=
  let z : σ := SNum.zero (ρ := ρ)
  -- table arguments, tap divisor and padded length are the translator's (tie G7, `Formulas.fftUnit_*`)
  let sinc := (makeSincs (ρ := ρ) (σ := σ) fftIn Formulas.fftUnit_sinc_factor cutoff Formulas.fftUnit_window).getD 0 #[]
  let ft : Array σ := (Array.range (Formulas.fftUnit_filter_len (ρ := ρ) fftIn)).map fun n =>
    if n < fftIn then sinc.getD n z / SNum.ofNat (ρ := ρ) (Formulas.fftUnit_tap_divisor (ρ := ρ) fftIn) else z
  let twIn := twiddles (ρ := ρ) (2 * fftIn)
  { fftIn, fftOut, twIn, twOut := twiddles (ρ := ρ) (2 * fftOut), filterF := rdft (ρ := ρ) twIn ft }

/-- number of spectrum bins carried over from the input transform: `fft_in + 1` when up-sampling, `fft_out` otherwise
(the Nyquist bin of the smaller transform is dropped when down-sampling or at equal sizes) -/
def UnitTables.newLen (t : UnitTables σ) : Nat := if t.fftIn < t.fftOut then t.fftIn + 1 else t.fftOut

/-- the `fft_out + 1` bins handed to the inverse transform: input spectrum × filter spectrum on the first `newLen` bins,
exactly zero above -/
def UnitTables.spectrumOut (t : UnitTables σ) (waveIn : List σ) : Array (σ × σ) :=
  let z : σ := SNum.zero (ρ := ρ)
  let x : Array σ := (Array.range (2 * t.fftIn)).map fun n => if n < t.fftIn then waveIn.getD n z else z
  let X := rdft (ρ := ρ) t.twIn x
  (Array.range (t.fftOut + 1)).map fun k =>
    if k < t.newLen then
      let a := X.getD k (z, z)
      let f := t.filterF.getD k (z, z)
      (a.1 * f.1 - a.2 * f.2, a.1 * f.2 + a.2 * f.1)
    else (z, z)

/-- `resample_unit`: overlap state = the second half of the previous inverse transform -/
def UnitTables.run (t : UnitTables σ) (overlap : Array σ) (waveIn : List σ) : List σ × Array σ :=
  let z : σ := SNum.zero (ρ := ρ)
  let y := irdft (ρ := ρ) t.twOut (2 * t.fftOut) (t.spectrumOut (ρ := ρ) waveIn)
  ((List.range t.fftOut).map fun n => y.getD n z + overlap.getD n z, y.extract t.fftOut (2 * t.fftOut))

/-- the unit as an `FftUnit` (overlap state = array of `fft_out` samples, initially zero) -/
def UnitTables.unit (t : UnitTables σ) : FftUnit σ (Array σ) :=
  { init := Array.replicate t.fftOut (SNum.zero (ρ := ρ)), run := fun st b => UnitTables.run (ρ := ρ) t st b }

omit [STrig σ] in
/-- every output block has exactly `fft_out` frames — the hypothesis `hu` of the routing theorems -/
theorem UnitTables.run_length (t : UnitTables σ) (st : Array σ) (b : List σ) :
    (UnitTables.run (ρ := ρ) t st b).1.length = t.fftOut := by
  simp [UnitTables.run]

omit [STrig σ] in
/-- C02 (FFT types): every bin from `newLen` up to the Nyquist bin of the output transform is EXACTLY zero, for every
input block and every arithmetic instance: nothing above `min(fft_in + 1, fft_out)` bins of the input spectrum reaches the
output -/
theorem UnitTables.spectrumOut_zero_above (t : UnitTables σ) (waveIn : List σ) (k : Nat)
    (hk : t.newLen ≤ k) (hk' : k ≤ t.fftOut) :
    (t.spectrumOut (ρ := ρ) waveIn)[k]? = some (SNum.zero (ρ := ρ), SNum.zero (ρ := ρ)) := by
  have h1 : k < t.fftOut + 1 := by omega
  have h2 : ¬ k < t.newLen := by omega
  simp [UnitTables.spectrumOut, h1, h2]

omit [STrig σ] in
theorem UnitTables.spectrumOut_size (t : UnitTables σ) (waveIn : List σ) :
    (t.spectrumOut (ρ := ρ) waveIn).size = t.fftOut + 1 := by
  simp [UnitTables.spectrumOut]

/-- the filter handed to the forward transform: `sincs(fft_in, 1, cutoff, BlackmanHarris2)[0][n] / (2·fft_in)` on the first
`fft_in` points and exactly zero on the padding -/
def filterTaps (cutoff : ρ) (fftIn : Nat) : Array σ :=
  let z : σ := SNum.zero (ρ := ρ)
  let sinc := (makeSincs (ρ := ρ) (σ := σ) fftIn 1 cutoff .blackmanHarris2).getD 0 #[]
  (Array.range (2 * fftIn)).map fun n =>
    if n < fftIn then sinc.getD n z / SNum.ofNat (ρ := ρ) (2 * fftIn) else z

theorem UnitTables.make_filter (cutoff : ρ) (fftIn fftOut : Nat) :
    (UnitTables.make (ρ := ρ) (σ := σ) cutoff fftIn fftOut).filterF =
      rdft (ρ := ρ) (twiddles (ρ := ρ) (2 * fftIn)) (filterTaps (ρ := ρ) (σ := σ) cutoff fftIn) := rfl

theorem filterTaps_padding (cutoff : ρ) (fftIn n : Nat) (h1 : fftIn ≤ n) (h2 : n < 2 * fftIn) :
    (filterTaps (ρ := ρ) (σ := σ) cutoff fftIn)[n]? = some (SNum.zero (ρ := ρ)) := by
  have : ¬ n < fftIn := by omega
  simp [filterTaps, h2, this]

end Rubato
