/-
Model of `FftResampler::new` / `FftResampler::resample_unit` (synchro.rs) over a NAIVE real DFT:
zero-pad → forward real DFT (fft_in+1 bins) → multiply the first `new_len` bins by the DFT of the anti-aliasing
filter → zero the remaining bins → unnormalised inverse real DFT of length 2·fft_out (imaginary parts of the DC and
Nyquist bins ignored, as realfft does) → overlap-add.  realfft/rustfft themselves are outside the model: this twin
agrees with them to rounding (checked by the correspondence run with a tolerance), it does not share their code.
-/
import RubatoModel.SincTable
import RubatoModel.Fft

namespace Rubato
open Rubato.Gen

variable {ρ σ : Type} [RNum ρ] [SNum ρ σ] [STrig σ]

/-- `cos(2π j / n)` and `sin(2π j / n)` for `j < n` -/
def twiddles (n : Nat) : Array σ × Array σ :=
  let two : σ := SNum.ofNat (ρ := ρ) 2
  let ang (j : Nat) : σ := two * STrig.pi * SNum.ofNat (ρ := ρ) j / SNum.ofNat (ρ := ρ) n
  ((Array.range n).map fun j => STrig.cos (ang j), (Array.range n).map fun j => STrig.sin (ang j))

/-- forward real DFT of `x` (length `n`, even): bins `0 ..= n/2` as (re, im), `X[k] = Σ x[j]·e^{−2πi jk/n}` -/
def rdft (tw : Array σ × Array σ) (x : Array σ) : Array (σ × σ) :=
  let n := x.size
  let z : σ := SNum.zero (ρ := ρ)
  (Array.range (n / 2 + 1)).map fun k =>
    (List.range n).foldl (fun (acc : σ × σ) j =>
      let c := tw.1.getD ((j * k) % n) z
      let s := tw.2.getD ((j * k) % n) z
      let v := x.getD j z
      (acc.1 + v * c, acc.2 - v * s)) (z, z)

/-- unnormalised inverse real DFT to `n` samples (n even) from bins `0 ..= n/2`; the imaginary parts of bins 0 and n/2
are ignored -/
def irdft (tw : Array σ × Array σ) (n : Nat) (X : Array (σ × σ)) : Array σ :=
  let z : σ := SNum.zero (ρ := ρ)
  let two : σ := SNum.ofNat (ρ := ρ) 2
  (Array.range n).map fun j =>
    let dc := (X.getD 0 (z, z)).1
    let ny := (X.getD (n / 2) (z, z)).1
    let nyq := if j % 2 == 0 then ny else z - ny
    let mid := (List.range (n / 2 - 1)).foldl (fun (acc : σ) k0 =>
      let k := k0 + 1
      let b := X.getD k (z, z)
      let c := tw.1.getD ((j * k) % n) z
      let s := tw.2.getD ((j * k) % n) z
      acc + two * (b.1 * c - b.2 * s)) z
    dc + mid + nyq

/-- the cutoff `FftResampler::new` computes (in `f32`): `calculate_cutoff::<f32>(min size, BlackmanHarris2)`, scaled by
`fft_out/fft_in` (in `f32`) when down-sampling -/
def fftCutoff (cutoffOf : Nat → ρ) (fftIn fftOut : Nat) : ρ :=
  if fftIn > fftOut then
    RNum.div32 (RNum.mul32 (cutoffOf fftOut) (RNum.ofNat32 fftOut)) (RNum.ofNat32 fftIn)
  else cutoffOf fftIn

structure UnitTables (σ : Type) where
  fftIn   : Nat
  fftOut  : Nat
  twIn    : Array σ × Array σ
  twOut   : Array σ × Array σ
  filterF : Array (σ × σ)

/-- `FftResampler::new`: filter taps `sincs[0][n] / (2·fft_in)`, zero-padded to `2·fft_in`, transformed -/
def UnitTables.make (cutoff : ρ) (fftIn fftOut : Nat) : UnitTables σ :=
  let z : σ := SNum.zero (ρ := ρ)
  let sinc := (makeSincs (ρ := ρ) (σ := σ) fftIn 1 cutoff .blackmanHarris2).getD 0 #[]
  let ft : Array σ := (Array.range (2 * fftIn)).map fun n =>
    if n < fftIn then sinc.getD n z / SNum.ofNat (ρ := ρ) (2 * fftIn) else z
  let twIn := twiddles (ρ := ρ) (2 * fftIn)
  { fftIn, fftOut, twIn, twOut := twiddles (ρ := ρ) (2 * fftOut), filterF := rdft (ρ := ρ) twIn ft }

/-- `resample_unit`: overlap state = the second half of the previous inverse transform -/
def UnitTables.run (t : UnitTables σ) (overlap : Array σ) (waveIn : List σ) : List σ × Array σ :=
  let z : σ := SNum.zero (ρ := ρ)
  let x : Array σ := (Array.range (2 * t.fftIn)).map fun n => if n < t.fftIn then waveIn.getD n z else z
  let X := rdft (ρ := ρ) t.twIn x
  let newLen := if t.fftIn < t.fftOut then t.fftIn + 1 else t.fftOut
  let Y : Array (σ × σ) := (Array.range (t.fftOut + 1)).map fun k =>
    if k < newLen then
      let a := X.getD k (z, z)
      let f := t.filterF.getD k (z, z)
      (a.1 * f.1 - a.2 * f.2, a.1 * f.2 + a.2 * f.1)
    else (z, z)
  let y := irdft (ρ := ρ) t.twOut (2 * t.fftOut) Y
  ((List.range t.fftOut).map fun n => y.getD n z + overlap.getD n z, y.extract t.fftOut (2 * t.fftOut))

/-- the unit as an `FftUnit` (overlap state = array of `fft_out` samples, initially zero) -/
def UnitTables.unit (t : UnitTables σ) : FftUnit σ (Array σ) :=
  { init := Array.replicate t.fftOut (SNum.zero (ρ := ρ)), run := fun st b => UnitTables.run (ρ := ρ) t st b }

omit [STrig σ] in
/-- every output block has exactly `fft_out` frames — the hypothesis `hu` of the routing theorems -/
theorem UnitTables.run_length (t : UnitTables σ) (st : Array σ) (b : List σ) :
    (UnitTables.run (ρ := ρ) t st b).1.length = t.fftOut := by
  simp [UnitTables.run]

end Rubato
