/-
The default methods of the `Resampler` trait (lib.rs): `process`, `process_partial_into_buffer`,
`process_partial`, over an abstract core (`process_into_buffer` + two getters).
-/
import RubatoModel.Validate

namespace Rubato

/-- what the wrappers need from a resampler; `χ` is one channel of samples -/
structure Core (S χ : Type) where
  inNext  : S → Nat
  outNext : S → Nat
  nch     : S → Nat
  /-- `process_into_buffer state input out_buffer_lengths mask` ↦ `(in, out, frames written per channel)` -/
  proc    : S → List χ → List Nat → Option (List Bool) → S × Outcome (Nat × Nat × List (Option χ))
  size    : χ → Nat
  zeros   : Nat → χ
  /-- first `n` frames of `x` (all of it if shorter) -/
  takeN   : χ → Nat → χ
  append  : χ → χ → χ
  empty   : χ

variable {S χ : Type}

/-- the mask lookup of `process`/`process_partial` (after the `fix:`): out-of-range ↦ active -/
def maskAt (mask : Option (List Bool)) (c : Nat) : Bool :=
  match mask with
  | none => true
  | some m => (m[c]?).getD true

/-- lengths of the output vectors `process` allocates -/
def wrapOutLens (C : Core S χ) (s : S) (mask : Option (List Bool)) : List Nat :=
  (List.range (C.nch s)).map fun c => if maskAt mask c then C.outNext s else 0

/-- what is left of the allocated vectors after `truncate(out_len)` -/
def wrapResult (C : Core S χ) (lens : List Nat) (nOut : Nat) (out : List (Option χ)) : List χ :=
  (List.zip lens out).map fun p =>
    match p.2 with
    | some v => C.takeN v nOut
    | none => C.takeN (C.zeros p.1) nOut   -- never written: zeros (empty when not allocated)

/-- `Resampler::process` -/
def processW (C : Core S χ) (s : S) (input : List χ) (mask : Option (List Bool)) :
    S × Outcome (List χ) :=
  let lens := wrapOutLens C s mask
  match C.proc s input lens mask with
  | (s', .ok (_, nOut, out)) => (s', .ok (wrapResult C lens nOut out))
  | (s', .err e) => (s', .err e)
  | (s', .panic m) => (s', .panic m)
  | (s', .abort m) => (s', .abort m)

/-- the padded input `process_partial_into_buffer` builds -/
def paddedInput (C : Core S χ) (s : S) (input : Option (List χ)) : List χ :=
  let frames := C.inNext s
  let n := C.nch s
  match input with
  | none => List.replicate n (C.zeros frames)
  | some xs =>
    (List.range n).map fun c =>
      match xs[c]? with
      | none => C.zeros frames
      | some x =>
        let k := min (C.size x) frames
        if k > 0 then C.append (C.takeN x k) (C.zeros (frames - k)) else C.empty

/-- `Resampler::process_partial_into_buffer` -/
def processPartialInto (C : Core S χ) (s : S) (input : Option (List χ)) (outLens : List Nat)
    (mask : Option (List Bool)) : S × Outcome (Nat × Nat × List (Option χ)) :=
  C.proc s (paddedInput C s input) outLens mask

/-- `Resampler::process_partial` -/
def processPartialW (C : Core S χ) (s : S) (input : Option (List χ)) (mask : Option (List Bool)) :
    S × Outcome (List χ) :=
  let lens := wrapOutLens C s mask
  match processPartialInto C s input lens mask with
  | (s', .ok (_, nOut, out)) => (s', .ok (wrapResult C lens nOut out))
  | (s', .err e) => (s', .err e)
  | (s', .panic m) => (s', .panic m)
  | (s', .abort m) => (s', .abort m)

end Rubato
