/-
Lane-level models of the seven sinc dot-product kernels of rubato 0.16.2:

  scalar   : sinc_interpolator/mod.rs                 (8 interleaved scalar accumulators)
  avxF32   : sinc_interpolator_avx.rs,  impl for f32  (1 x 8 lanes, fused multiply-add)
  avxF64   : sinc_interpolator_avx.rs,  impl for f64  (2 x 4 lanes, fused multiply-add)
  sseF32   : sinc_interpolator_sse.rs,  impl for f32  (2 x 4 lanes, mul then add)
  sseF64   : sinc_interpolator_sse.rs,  impl for f64  (4 x 2 lanes, mul then add)
  neonF32  : sinc_interpolator_neon.rs, impl for f32  (2 x 4 lanes, fused multiply-add)
  neonF64  : sinc_interpolator_neon.rs, impl for f64  (4 x 2 lanes, fused multiply-add)

The models are polymorphic in the sample type `α` (`[Add α] [Mul α] [OfNat α 0]`), hence run at
`Float`, `Float32`, `Int`, … and can be reasoned about in any commutative semiring.  What is kept
faithful is the ORDER of the additions and multiplications: which tap meets which sample, in which
accumulator lane, and in which order the lanes are added in the horizontal-sum epilogue.

Conventions
* a vector register is a fixed tuple `V2 α`, `V4 α`, `V8 α`; lane 0 is the lowest address / the
  lowest bits of the register (`x0`), as for `_mm*_loadu_*` and `vld1q_*`.
* `wave_cut = &wave[index .. index + length]`, so `wave_cut[i]` is `wave[index + i]`; every read of
  `wave` is `wave.getD (index + i) 0`.  A Rust out-of-bounds read (undefined behaviour, the kernels
  use `get_unchecked`) shows up in the model as a read of `0`.
* a packed sinc is a `List (List α)` (`Vec<__m256>` &c.): register `s` is `packed.getD s []`, its
  lane `j` is `(packed.getD s []).getD j 0`.
* fused multiply-add: core Lean has no fused `Float` operation, so `fmadd`/`vfma` below are
  `a * b + c` resp. `a + b * c` (two roundings instead of one when run at `Float`).  In exact
  arithmetic the two are the same thing; the places where the hardware fuses are marked [FMA].
  Consequence: run at `Float`/`Float32`, `scalar`, `sseF32`, `sseF64` follow the hardware rounding
  step by step, while `avxF32`, `avxF64`, `neonF32`, `neonF64` may differ from it in the last bits.
* the NEON kernels cannot be executed on the x86 host of this project: their model is
  "read, not run" (transcribed from the source and from the Arm intrinsics reference, never
  compared against an execution).  The x86 models could be compared with the Rust worker
  (harness/src/kern.rs); this file only carries the `#guard` smoke checks at its end.
-/
namespace Rubato.Kern

/-! ### `pack_sincs` -/

/-- `sinc.chunks(lanes)`: register `i` holds taps `i*lanes .. i*lanes + lanes` (the last one is
shorter when `lanes ∤ sinc.length`; Rust then loads past the end of the chunk, which
`sinc_len % 8 == 0` rules out).  `lanes = 0` gives `[]` (Rust: `chunks(0)` panics). -/
def pack {α : Type} (lanes : Nat) (sinc : List α) : List (List α) :=
  (List.range ((sinc.length + lanes - 1) / lanes)).map fun i => (sinc.drop (i * lanes)).take lanes

/-! ### Vector registers -/

structure V2 (α : Type) where
  x0 : α
  x1 : α
deriving Repr, DecidableEq

structure V4 (α : Type) where
  x0 : α
  x1 : α
  x2 : α
  x3 : α
deriving Repr, DecidableEq

structure V8 (α : Type) where
  x0 : α
  x1 : α
  x2 : α
  x3 : α
  x4 : α
  x5 : α
  x6 : α
  x7 : α
deriving Repr, DecidableEq

variable {α : Type} [Add α] [Mul α] [OfNat α 0]

/-- `wave_cut.get_unchecked(i)` with `wave_cut = &wave[index..]` -/
@[inline] def rd (wave : List α) (index i : Nat) : α := wave.getD (index + i) 0

namespace V2
/-- `_mm_setzero_pd`, `vmovq_n_f64(0.0)` -/
def zero : V2 α := ⟨0, 0⟩
/-- `_mm_loadu_pd(wave_cut.get_unchecked(i))`, `vld1q_f64` -/
def load (wave : List α) (index i : Nat) : V2 α := ⟨rd wave index i, rd wave index (i + 1)⟩
/-- a packed register (`__m128d`, `float64x2_t`) -/
def ofList (l : List α) : V2 α := ⟨l.getD 0 0, l.getD 1 0⟩
/-- `_mm_add_pd a b`, `vaddq_f64 a b`, `vadd_f32 a b` -/
def add (a b : V2 α) : V2 α := ⟨a.x0 + b.x0, a.x1 + b.x1⟩
/-- `_mm_mul_pd a b` -/
def mul (a b : V2 α) : V2 α := ⟨a.x0 * b.x0, a.x1 * b.x1⟩
/-- `vfmaq_f64 a b c = a + b * c` [FMA] -/
def vfma (a b c : V2 α) : V2 α := ⟨a.x0 + b.x0 * c.x0, a.x1 + b.x1 * c.x1⟩
/-- `_mm_hadd_pd a b = [a0 + a1, b0 + b1]` -/
def hadd (a b : V2 α) : V2 α := ⟨a.x0 + a.x1, b.x0 + b.x1⟩
end V2

namespace V4
/-- `_mm_setzero_ps`, `_mm256_setzero_pd`, `vmovq_n_f32(0.0)` -/
def zero : V4 α := ⟨0, 0, 0, 0⟩
/-- `_mm_loadu_ps`, `_mm256_loadu_pd`, `vld1q_f32` at `wave_cut[i]` -/
def load (wave : List α) (index i : Nat) : V4 α :=
  ⟨rd wave index i, rd wave index (i + 1), rd wave index (i + 2), rd wave index (i + 3)⟩
/-- a packed register (`__m128`, `__m256d`, `float32x4_t`) -/
def ofList (l : List α) : V4 α := ⟨l.getD 0 0, l.getD 1 0, l.getD 2 0, l.getD 3 0⟩
/-- `_mm_add_ps a b`, `_mm256_add_pd a b`, `vaddq_f32 a b` -/
def add (a b : V4 α) : V4 α := ⟨a.x0 + b.x0, a.x1 + b.x1, a.x2 + b.x2, a.x3 + b.x3⟩
/-- `_mm_mul_ps a b` -/
def mul (a b : V4 α) : V4 α := ⟨a.x0 * b.x0, a.x1 * b.x1, a.x2 * b.x2, a.x3 * b.x3⟩
/-- `_mm256_fmadd_pd a b c = a * b + c` [FMA] -/
def fmadd (a b c : V4 α) : V4 α :=
  ⟨a.x0 * b.x0 + c.x0, a.x1 * b.x1 + c.x1, a.x2 * b.x2 + c.x2, a.x3 * b.x3 + c.x3⟩
/-- `vfmaq_f32 a b c = a + b * c` [FMA] -/
def vfma (a b c : V4 α) : V4 α :=
  ⟨a.x0 + b.x0 * c.x0, a.x1 + b.x1 * c.x1, a.x2 + b.x2 * c.x2, a.x3 + b.x3 * c.x3⟩
/-- `_mm_hadd_ps a b = [a0 + a1, a2 + a3, b0 + b1, b2 + b3]` -/
def hadd (a b : V4 α) : V4 α := ⟨a.x0 + a.x1, a.x2 + a.x3, b.x0 + b.x1, b.x2 + b.x3⟩
/-- `_mm256_castpd256_pd128`, `vget_low_f32`: lanes 0,1 -/
def low (a : V4 α) : V2 α := ⟨a.x0, a.x1⟩
/-- `_mm256_extractf128_pd(a, 1)`, `vget_high_f32`: lanes 2,3 -/
def high (a : V4 α) : V2 α := ⟨a.x2, a.x3⟩
end V4

namespace V8
/-- `_mm256_setzero_ps` -/
def zero : V8 α := ⟨0, 0, 0, 0, 0, 0, 0, 0⟩
/-- `_mm256_loadu_ps(wave_cut.get_unchecked(i))` -/
def load (wave : List α) (index i : Nat) : V8 α :=
  ⟨rd wave index i, rd wave index (i + 1), rd wave index (i + 2), rd wave index (i + 3),
   rd wave index (i + 4), rd wave index (i + 5), rd wave index (i + 6), rd wave index (i + 7)⟩
/-- a packed register (`__m256`) -/
def ofList (l : List α) : V8 α :=
  ⟨l.getD 0 0, l.getD 1 0, l.getD 2 0, l.getD 3 0, l.getD 4 0, l.getD 5 0, l.getD 6 0, l.getD 7 0⟩
/-- `_mm256_fmadd_ps a b c = a * b + c` [FMA] -/
def fmadd (a b c : V8 α) : V8 α :=
  ⟨a.x0 * b.x0 + c.x0, a.x1 * b.x1 + c.x1, a.x2 * b.x2 + c.x2, a.x3 * b.x3 + c.x3,
   a.x4 * b.x4 + c.x4, a.x5 * b.x5 + c.x5, a.x6 * b.x6 + c.x6, a.x7 * b.x7 + c.x7⟩
/-- `_mm256_castps256_ps128`: lanes 0..3 -/
def low (a : V8 α) : V4 α := ⟨a.x0, a.x1, a.x2, a.x3⟩
/-- `_mm256_extractf128_ps(a, 1)`: lanes 4..7 -/
def high (a : V8 α) : V4 α := ⟨a.x4, a.x5, a.x6, a.x7⟩
end V8

/-! ### Loop states (`acc*`, `w_idx`, `s_idx` are the `let mut` variables of the Rust loops) -/

structure St1 (β : Type) where
  acc : β
  w_idx : Nat

structure St2 (β : Type) where
  acc0 : β
  acc1 : β
  w_idx : Nat
  s_idx : Nat

structure St4 (β : Type) where
  acc0 : β
  acc1 : β
  acc2 : β
  acc3 : β
  w_idx : Nat
  s_idx : Nat

/-! ### scalar (mod.rs, `ScalarInterpolator::get_sinc_interpolated`)

The sinc is not packed here (`sincs: Vec<Vec<T>>`).  `wave_cut = &wave[index..index + sinc.len()]`
and the trip count is `wave_cut.len() / 8 = sinc.len() / 8`: the field `length` is only used by the
assertion, so it is not a parameter of the model. -/

def scalarStep (wave : List α) (index : Nat) (sinc : List α) (st : St1 (V8 α)) : St1 (V8 α) :=
  let idx := st.w_idx
  let a := st.acc
  -- `accJ += *wave_cut.get_unchecked(idx + J) * *sinc.get_unchecked(idx + J)` (mul, then add)
  { acc :=
      ⟨a.x0 + rd wave index idx * sinc.getD idx 0,
       a.x1 + rd wave index (idx + 1) * sinc.getD (idx + 1) 0,
       a.x2 + rd wave index (idx + 2) * sinc.getD (idx + 2) 0,
       a.x3 + rd wave index (idx + 3) * sinc.getD (idx + 3) 0,
       a.x4 + rd wave index (idx + 4) * sinc.getD (idx + 4) 0,
       a.x5 + rd wave index (idx + 5) * sinc.getD (idx + 5) 0,
       a.x6 + rd wave index (idx + 6) * sinc.getD (idx + 6) 0,
       a.x7 + rd wave index (idx + 7) * sinc.getD (idx + 7) 0⟩
    w_idx := idx + 8 }

def scalarLoop (wave : List α) (index : Nat) (sinc : List α) (n : Nat) : St1 (V8 α) :=
  (List.range n).foldl (fun st _ => scalarStep wave index sinc st) ⟨V8.zero, 0⟩

/-- `acc0 + acc1 + acc2 + acc3 + acc4 + acc5 + acc6 + acc7` (left associated) -/
def scalarFinish (a : V8 α) : α :=
  ((((((a.x0 + a.x1) + a.x2) + a.x3) + a.x4) + a.x5) + a.x6) + a.x7

def scalar (wave : List α) (index : Nat) (sinc : List α) : α :=
  scalarFinish (scalarLoop wave index sinc (sinc.length / 8)).acc

/-! ### AVX f32: one 8-lane accumulator -/

/-- body of `for s_idx in 0..length / 8` (here `s_idx` is the loop variable) -/
def avxF32Step (wave : List α) (index : Nat) (sinc : List (List α)) (st : St1 (V8 α))
    (s_idx : Nat) : St1 (V8 α) :=
  let w := V8.load wave index st.w_idx
  { acc := V8.fmadd w (V8.ofList (sinc.getD s_idx [])) st.acc   -- [FMA] w * sinc + acc
    w_idx := st.w_idx + 8 }

def avxF32Loop (wave : List α) (index : Nat) (sinc : List (List α)) (n : Nat) : St1 (V8 α) :=
  (List.range n).foldl (avxF32Step wave index sinc) ⟨V8.zero, 0⟩

def avxF32Finish (acc : V8 α) : α :=
  let acc_high := V8.high acc                 -- _mm256_extractf128_ps(acc, 1)
  let acc_low := V4.add acc_high (V8.low acc) -- _mm_add_ps(acc_high, _mm256_castps256_ps128(acc))
  let temp2 := V4.hadd acc_low acc_low        -- _mm_hadd_ps(acc_low, acc_low)
  let temp1 := V4.hadd temp2 temp2            -- _mm_hadd_ps(temp2, temp2)
  temp1.x0                                    -- _mm_store_ss

def avxF32 (wave : List α) (index : Nat) (sinc : List (List α)) (length : Nat) : α :=
  avxF32Finish (avxF32Loop wave index sinc (length / 8)).acc

/-! ### AVX f64: two 4-lane accumulators -/

def avxF64Step (wave : List α) (index : Nat) (sinc : List (List α)) (st : St2 (V4 α)) :
    St2 (V4 α) :=
  let w0 := V4.load wave index st.w_idx
  let w1 := V4.load wave index (st.w_idx + 4)
  { acc0 := V4.fmadd w0 (V4.ofList (sinc.getD st.s_idx [])) st.acc0         -- [FMA]
    acc1 := V4.fmadd w1 (V4.ofList (sinc.getD (st.s_idx + 1) [])) st.acc1   -- [FMA]
    w_idx := st.w_idx + 8
    s_idx := st.s_idx + 2 }

def avxF64Loop (wave : List α) (index : Nat) (sinc : List (List α)) (n : Nat) : St2 (V4 α) :=
  (List.range n).foldl (fun st _ => avxF64Step wave index sinc st) ⟨V4.zero, V4.zero, 0, 0⟩

def avxF64Finish (acc0 acc1 : V4 α) : α :=
  let acc_all := V4.add acc0 acc1                  -- _mm256_add_pd(acc0, acc1)
  let acc_high := V4.high acc_all                  -- _mm256_extractf128_pd(acc_all, 1)
  let temp2 := V2.add acc_high (V4.low acc_all)    -- _mm_add_pd(acc_high, cast(acc_all))
  let temp1 := V2.hadd temp2 temp2                 -- _mm_hadd_pd(temp2, temp2)
  temp1.x0                                         -- _mm_store_sd

/-- trip count `wave_cut.len() / 8` with `wave_cut = &wave[index..index + length]` -/
def avxF64 (wave : List α) (index : Nat) (sinc : List (List α)) (length : Nat) : α :=
  let st := avxF64Loop wave index sinc (length / 8)
  avxF64Finish st.acc0 st.acc1

/-! ### SSE f32: two 4-lane accumulators, multiply then add -/

def sseF32Step (wave : List α) (index : Nat) (sinc : List (List α)) (st : St2 (V4 α)) :
    St2 (V4 α) :=
  let w0 := V4.load wave index st.w_idx
  let w1 := V4.load wave index (st.w_idx + 4)
  let s0 := V4.mul w0 (V4.ofList (sinc.getD st.s_idx []))
  let s1 := V4.mul w1 (V4.ofList (sinc.getD (st.s_idx + 1) []))
  { acc0 := V4.add st.acc0 s0
    acc1 := V4.add st.acc1 s1
    w_idx := st.w_idx + 8
    s_idx := st.s_idx + 2 }

def sseF32Loop (wave : List α) (index : Nat) (sinc : List (List α)) (n : Nat) : St2 (V4 α) :=
  (List.range n).foldl (fun st _ => sseF32Step wave index sinc st) ⟨V4.zero, V4.zero, 0, 0⟩

def sseF32Finish (acc0 acc1 : V4 α) : α :=
  let temp4 := V4.add acc0 acc1       -- _mm_add_ps(acc0, acc1)
  let temp2 := V4.hadd temp4 temp4    -- _mm_hadd_ps(temp4, temp4)
  let temp1 := V4.hadd temp2 temp2    -- _mm_hadd_ps(temp2, temp2)
  temp1.x0                            -- _mm_store_ss

def sseF32 (wave : List α) (index : Nat) (sinc : List (List α)) (length : Nat) : α :=
  let st := sseF32Loop wave index sinc (length / 8)
  sseF32Finish st.acc0 st.acc1

/-! ### SSE f64: four 2-lane accumulators, multiply then add -/

def sseF64Step (wave : List α) (index : Nat) (sinc : List (List α)) (st : St4 (V2 α)) :
    St4 (V2 α) :=
  let w0 := V2.load wave index st.w_idx
  let w1 := V2.load wave index (st.w_idx + 2)
  let w2 := V2.load wave index (st.w_idx + 4)
  let w3 := V2.load wave index (st.w_idx + 6)
  let s0 := V2.mul w0 (V2.ofList (sinc.getD st.s_idx []))
  let s1 := V2.mul w1 (V2.ofList (sinc.getD (st.s_idx + 1) []))
  let s2 := V2.mul w2 (V2.ofList (sinc.getD (st.s_idx + 2) []))
  let s3 := V2.mul w3 (V2.ofList (sinc.getD (st.s_idx + 3) []))
  { acc0 := V2.add st.acc0 s0
    acc1 := V2.add st.acc1 s1
    acc2 := V2.add st.acc2 s2
    acc3 := V2.add st.acc3 s3
    w_idx := st.w_idx + 8
    s_idx := st.s_idx + 4 }

def sseF64Loop (wave : List α) (index : Nat) (sinc : List (List α)) (n : Nat) : St4 (V2 α) :=
  (List.range n).foldl (fun st _ => sseF64Step wave index sinc st)
    ⟨V2.zero, V2.zero, V2.zero, V2.zero, 0, 0⟩

def sseF64Finish (acc0 acc1 acc2 acc3 : V2 α) : α :=
  let temp2_0 := V2.add acc0 acc1         -- _mm_add_pd(acc0, acc1)
  let temp2_1 := V2.add acc2 acc3         -- _mm_add_pd(acc2, acc3)
  let temp2 := V2.hadd temp2_0 temp2_1    -- _mm_hadd_pd(temp2_0, temp2_1)
  let temp1 := V2.hadd temp2 temp2        -- _mm_hadd_pd(temp2, temp2)
  temp1.x0                                -- _mm_store_sd

def sseF64 (wave : List α) (index : Nat) (sinc : List (List α)) (length : Nat) : α :=
  let st := sseF64Loop wave index sinc (length / 8)
  sseF64Finish st.acc0 st.acc1 st.acc2 st.acc3

/-! ### NEON f32: two 4-lane accumulators (read, not run) -/

def neonF32Step (wave : List α) (index : Nat) (sinc : List (List α)) (st : St2 (V4 α)) :
    St2 (V4 α) :=
  let w0 := V4.load wave index st.w_idx
  let w1 := V4.load wave index (st.w_idx + 4)
  { acc0 := V4.vfma st.acc0 w0 (V4.ofList (sinc.getD st.s_idx []))         -- [FMA] acc + w * sinc
    acc1 := V4.vfma st.acc1 w1 (V4.ofList (sinc.getD (st.s_idx + 1) []))   -- [FMA]
    w_idx := st.w_idx + 8
    s_idx := st.s_idx + 2 }

def neonF32Loop (wave : List α) (index : Nat) (sinc : List (List α)) (n : Nat) : St2 (V4 α) :=
  (List.range n).foldl (fun st _ => neonF32Step wave index sinc st) ⟨V4.zero, V4.zero, 0, 0⟩

def neonF32Finish (acc0 acc1 : V4 α) : α :=
  let sum4 := V4.add acc0 acc1    -- vaddq_f32(acc0, acc1)
  let high := V4.high sum4        -- vget_high_f32(sum4)
  let low := V4.low sum4          -- vget_low_f32(sum4)
  let sum2 := V2.add high low     -- vadd_f32(high, low)
  sum2.x0 + sum2.x1               -- array[0] + array[1]

def neonF32 (wave : List α) (index : Nat) (sinc : List (List α)) (length : Nat) : α :=
  let st := neonF32Loop wave index sinc (length / 8)
  neonF32Finish st.acc0 st.acc1

/-! ### NEON f64: four 2-lane accumulators (read, not run) -/

def neonF64Step (wave : List α) (index : Nat) (sinc : List (List α)) (st : St4 (V2 α)) :
    St4 (V2 α) :=
  let w0 := V2.load wave index st.w_idx
  let w1 := V2.load wave index (st.w_idx + 2)
  let w2 := V2.load wave index (st.w_idx + 4)
  let w3 := V2.load wave index (st.w_idx + 6)
  { acc0 := V2.vfma st.acc0 w0 (V2.ofList (sinc.getD st.s_idx []))         -- [FMA]
    acc1 := V2.vfma st.acc1 w1 (V2.ofList (sinc.getD (st.s_idx + 1) []))   -- [FMA]
    acc2 := V2.vfma st.acc2 w2 (V2.ofList (sinc.getD (st.s_idx + 2) []))   -- [FMA]
    acc3 := V2.vfma st.acc3 w3 (V2.ofList (sinc.getD (st.s_idx + 3) []))   -- [FMA]
    w_idx := st.w_idx + 8
    s_idx := st.s_idx + 4 }

def neonF64Loop (wave : List α) (index : Nat) (sinc : List (List α)) (n : Nat) : St4 (V2 α) :=
  (List.range n).foldl (fun st _ => neonF64Step wave index sinc st)
    ⟨V2.zero, V2.zero, V2.zero, V2.zero, 0, 0⟩

def neonF64Finish (acc0 acc1 acc2 acc3 : V2 α) : α :=
  let packedsum0 := V2.add acc0 acc1               -- vaddq_f64(acc0, acc1)
  let packedsum1 := V2.add acc2 acc3               -- vaddq_f64(acc2, acc3)
  let packedsum2 := V2.add packedsum0 packedsum1   -- vaddq_f64(packedsum0, packedsum1)
  packedsum2.x0 + packedsum2.x1                    -- values[0] + values[1]

def neonF64 (wave : List α) (index : Nat) (sinc : List (List α)) (length : Nat) : α :=
  let st := neonF64Loop wave index sinc (length / 8)
  neonF64Finish st.acc0 st.acc1 st.acc2 st.acc3

/-! ### Which indices of `wave` a kernel touches

One list per loop shape, in program order: a `lanes`-wide load at `wave_cut[i]` touches
`wave[index + i .. index + i + lanes]`.  (`w_idx = 8 * b` in iteration `b`.) -/

/-- indices of `wave` touched by a `lanes`-wide load at `wave_cut[i]` -/
def loadIdx (index i lanes : Nat) : List Nat := List.range' (index + i) lanes

/-- scalar: eight single reads per iteration, `idx .. idx + 7` in order; `n = sinc.len() / 8` -/
def readsScalar (index n : Nat) : List Nat :=
  (List.range n).flatMap fun b =>
    [index + 8 * b, index + (8 * b + 1), index + (8 * b + 2), index + (8 * b + 3),
     index + (8 * b + 4), index + (8 * b + 5), index + (8 * b + 6), index + (8 * b + 7)]

/-- AVX f32: one 8-wide load per iteration -/
def reads1x8 (index length : Nat) : List Nat :=
  (List.range (length / 8)).flatMap fun b => loadIdx index (8 * b) 8

/-- AVX f64, SSE f32, NEON f32: two 4-wide loads per iteration -/
def reads2x4 (index length : Nat) : List Nat :=
  (List.range (length / 8)).flatMap fun b => loadIdx index (8 * b) 4 ++ loadIdx index (8 * b + 4) 4

/-- SSE f64, NEON f64: four 2-wide loads per iteration -/
def reads4x2 (index length : Nat) : List Nat :=
  (List.range (length / 8)).flatMap fun b =>
    loadIdx index (8 * b) 2 ++ loadIdx index (8 * b + 2) 2 ++
    loadIdx index (8 * b + 4) 2 ++ loadIdx index (8 * b + 6) 2

/-! ### Smoke checks (x86 kernels and scalar; run at `Int` and at `Float`) -/

section Smoke
private def w16 : List Int := [100, 1, 2, 3, 4, 5, 6, 7, 8, 9, 10, 11, 12, 13, 14, 15, 16, 999]
private def s16 : List Int := [1, -2, 3, -4, 5, -6, 7, -8, 9, -10, 11, -12, 13, -14, 15, -16]

#guard pack 4 s16 = [[1, -2, 3, -4], [5, -6, 7, -8], [9, -10, 11, -12], [13, -14, 15, -16]]
#guard scalar w16 1 s16 = -136
#guard avxF32 w16 1 (pack 8 s16) 16 = -136
#guard avxF64 w16 1 (pack 4 s16) 16 = -136
#guard sseF32 w16 1 (pack 4 s16) 16 = -136
#guard sseF64 w16 1 (pack 2 s16) 16 = -136
#guard neonF32 w16 1 (pack 4 s16) 16 = -136
#guard neonF64 w16 1 (pack 2 s16) 16 = -136
#guard reads2x4 1 16 = List.range' 1 16

private def wf : List Float := (List.range 20).map fun i => Float.ofNat (i * i + 1) / 7.0
private def sf : List Float := (List.range 16).map fun i => 1.0 / Float.ofNat (i + 3)
#guard (avxF64 wf 2 (pack 4 sf) 16 - scalar wf 2 sf).abs < 1e-9
#guard (sseF64 wf 2 (pack 2 sf) 16 - scalar wf 2 sf).abs < 1e-9
end Smoke

end Rubato.Kern
