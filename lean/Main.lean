import RubatoModel.Driver
open Rubato.Driver

partial def loop (h : IO.FS.Stream) (out : IO.FS.Stream) (ss : Sess) : IO Unit := do
  let line ← h.getLine
  if line.isEmpty then return ()
  let l := line.trimAscii.toString
  if l.isEmpty || l.startsWith "#" then
    loop h out ss
  else
    let (ss', o) := step ss l
    out.putStrLn o
    loop h out ss'

def main : IO Unit := do
  let out ← IO.getStdout
  loop (← IO.getStdin) out {}
