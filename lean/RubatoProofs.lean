import RubatoProofs.Props.C08
