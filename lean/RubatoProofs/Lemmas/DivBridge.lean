/-
`DivArith.ofNum ℚ = DivArith.exact`: the `as f32` divisions of the synchronous resamplers, in the form the translator
emits them (tie G7), read over exact arithmetic ARE the integer ceiling / floor divisions the [exact] FFT theorems use.
-/
import RubatoProofs.Lemmas.RatBridge
import Mathlib.Algebra.Order.Floor.Ring
import Mathlib.Tactic.Linarith
import Mathlib.Tactic.Positivity
import Mathlib.Tactic.FieldSimp

namespace Rubato.DivBridge
open Rubato Rubato.Bridge

theorem floor_natdiv (a b : ℕ) : ⌊(a : ℚ) / (b : ℚ)⌋ = ((a / b : ℕ) : ℤ) := by
  rcases Nat.eq_zero_or_pos b with rfl | hb
  · simp
  · rw [Int.floor_eq_iff]
    have hbq : (0 : ℚ) < b := by exact_mod_cast hb
    have h1 := Nat.div_add_mod a b
    have h2 := Nat.mod_lt a hb
    constructor
    · rw [le_div_iff₀ hbq]
      have : (a / b) * b ≤ a := Nat.div_mul_le_self a b
      exact_mod_cast this
    · rw [div_lt_iff₀ hbq]
      have : a < (a / b + 1) * b := by nlinarith
      exact_mod_cast this

theorem ceil_natdiv (a b : ℕ) : ⌈(a : ℚ) / (b : ℚ)⌉ = (((a + b - 1) / b : ℕ) : ℤ) := by
  rcases Nat.eq_zero_or_pos b with rfl | hb
  · simp
  · rw [Int.ceil_eq_iff]
    have hbq : (0 : ℚ) < b := by exact_mod_cast hb
    set q := (a + b - 1) / b with hq
    have h1 := Nat.div_add_mod (a + b - 1) b
    have h2 := Nat.mod_lt (a + b - 1) hb
    rw [← hq] at h1
    constructor
    · rw [lt_div_iff₀ hbq]
      have : ((q : ℤ) - 1) * b < a := by
        have : b * q ≤ a + b - 1 := by omega
        have h3 : (b : ℤ) * q ≤ a + b - 1 := by
          have := Int.ofNat_le.mpr this
          push_cast [Nat.cast_sub (show 1 ≤ a + b by omega)] at this
          linarith
        nlinarith
      exact_mod_cast this
    · rw [div_le_iff₀ hbq]
      have : a ≤ q * b := by
        have : a + b - 1 < b * q + b := by omega
        have : a < b * q + 1 := by omega
        have : a ≤ b * q := by omega
        rw [Nat.mul_comm]; exact this
      exact_mod_cast this

theorem cdiv_rat (a b : ℕ) : (DivArith.ofNum ℚ).cdiv a b = DivArith.exact.cdiv a b := by
  show RNum.toNat (RNum.ceil (RNum.div32 (RNum.ofNat32 (ρ := ℚ) a) (RNum.ofNat32 b))) = (a + b - 1) / b
  simp only [div32_eq, ofNat32_eq, ceil_eq, ceil_natdiv]
  have : (0 : ℤ) ≤ (((a + b - 1) / b : ℕ) : ℤ) := Int.natCast_nonneg _
  rw [toNat_intCast_of_nonneg this]; exact Int.toNat_natCast _

theorem fdiv_rat (a b : ℕ) : (DivArith.ofNum ℚ).fdiv a b = DivArith.exact.fdiv a b := by
  show RNum.toNat (RNum.floor (RNum.div32 (RNum.ofNat32 (ρ := ℚ) a) (RNum.ofNat32 b))) = a / b
  simp only [div32_eq, ofNat32_eq, floor_eq, floor_natdiv]
  have : (0 : ℤ) ≤ ((a / b : ℕ) : ℤ) := Int.natCast_nonneg _
  rw [toNat_intCast_of_nonneg this]; exact Int.toNat_natCast _

/-- over exact arithmetic the translated `f32` divisions are the integer ceiling / floor divisions -/
theorem ofNum_rat_eq_exact : DivArith.ofNum ℚ = DivArith.exact := by
  have h1 : (DivArith.ofNum ℚ).cdiv = DivArith.exact.cdiv := by funext a b; exact cdiv_rat a b
  have h2 : (DivArith.ofNum ℚ).fdiv = DivArith.exact.fdiv := by funext a b; exact fdiv_rat a b
  cases h : DivArith.ofNum ℚ with
  | mk c f =>
    cases h' : DivArith.exact with
    | mk c' f' =>
      rw [h] at h1 h2; rw [h'] at h1 h2
      simp only at h1 h2
      rw [h1, h2]

end Rubato.DivBridge

namespace Rubato.DivBridge

/-! ### the `f32` divisions are exact for sizes below 2²⁴

The synchronous resamplers compute `⌈a/b⌉` and `⌊a/b⌋` as `(a as f32 / b as f32).ceil()` / `.floor()`.  No IEEE library
is available here, so the rounding is a parameter `rnd : ℚ → ℚ` with the three textbook properties of round-to-nearest
binary32 (monotone; integers up to 2²⁴ are representable; relative error at most 2⁻²⁴).  For every such rounding and all
sizes `a < 2²⁴`, `b > 0` the rounded quotient has the SAME ceiling and floor as the exact one — so `DivArith.exact` is what
the code computes for every block size the crate can meet in practice.  Beyond 2²⁴ the statement is false (`a = 2²⁴+1`,
`b = 1` already loses the unit). -/

structure F32Rounding (rnd : ℚ → ℚ) : Prop where
  mono : ∀ x y, x ≤ y → rnd x ≤ rnd y
  fixInt : ∀ n : ℕ, n ≤ 2 ^ 24 → rnd (n : ℚ) = (n : ℚ)
  relErr : ∀ x : ℚ, 0 ≤ x → |rnd x - x| ≤ x / 2 ^ 24

theorem f32_quotient_same_ceil_floor {rnd : ℚ → ℚ} (hr : F32Rounding rnd) (a b : ℕ) (ha : a < 2 ^ 24) (hb : 0 < b) :
    ⌈rnd ((a : ℚ) / b)⌉ = ⌈(a : ℚ) / b⌉ ∧ ⌊rnd ((a : ℚ) / b)⌋ = ⌊(a : ℚ) / b⌋ := by
  have hbq : (0 : ℚ) < b := by exact_mod_cast hb
  set x : ℚ := (a : ℚ) / b with hx
  have hx0 : 0 ≤ x := div_nonneg (by positivity) hbq.le
  have haq : (a : ℚ) < 2 ^ 24 := by exact_mod_cast ha
  -- the quotient is below 2^24 / b, hence the rounding error is below 1/b
  have herr : |rnd x - x| < 1 / b := by
    have h1 := hr.relErr x hx0
    have h2 : x / 2 ^ 24 < 1 / b := by
      rw [hx, div_div, div_lt_div_iff₀ (by positivity) hbq]
      nlinarith
    exact lt_of_le_of_lt h1 h2
  have herr' := abs_lt.mp herr
  -- integer part of the exact quotient
  have hfl : ⌊x⌋ = ((a / b : ℕ) : ℤ) := floor_natdiv a b
  set k : ℕ := a / b with hk
  have hkle : (k : ℚ) ≤ x := by
    rw [hx, le_div_iff₀ hbq]; exact_mod_cast Nat.div_mul_le_self a b
  have hklt : x < (k : ℚ) + 1 := by
    rw [hx, div_lt_iff₀ hbq]
    have := Nat.lt_div_mul_add hb (a := a)
    have h' : a < (k + 1) * b := by rw [hk]; nlinarith [Nat.div_add_mod a b, Nat.mod_lt a hb]
    exact_mod_cast h'
  have hk24 : k ≤ 2 ^ 24 := by
    have : k ≤ a := Nat.div_le_self a b
    omega
  have hk24' : k + 1 ≤ 2 ^ 24 := by
    have : k ≤ a := Nat.div_le_self a b
    omega
  have hrk : rnd (k : ℚ) = (k : ℚ) := hr.fixInt k hk24
  have hrk1 : rnd ((k : ℚ) + 1) = (k : ℚ) + 1 := by
    have := hr.fixInt (k + 1) hk24'
    push_cast at this; exact this
  have hlow : (k : ℚ) ≤ rnd x := by rw [← hrk]; exact hr.mono _ _ hkle
  have hhigh : rnd x ≤ (k : ℚ) + 1 := by rw [← hrk1]; exact hr.mono _ _ hklt.le
  -- distance of x to the integers above and below is a multiple of 1/b
  have hmod : (x - k) * b = ((a % b : ℕ) : ℚ) := by
    have h := Nat.div_add_mod a b
    have : (a : ℚ) = b * k + (a % b : ℕ) := by rw [hk]; exact_mod_cast h.symm
    rw [hx]; field_simp; linarith
  by_cases hz : a % b = 0
  · -- exact quotient is the integer k: the rounding leaves it alone
    have hxk : x = k := by
      have : (x - k) * b = 0 := by rw [hmod, hz]; simp
      have : x - k = 0 := by
        rcases mul_eq_zero.mp this with h | h
        · exact h
        · exact absurd h hbq.ne'
      linarith
    rw [hxk, hrk]; exact ⟨rfl, rfl⟩
  · have hpos : 1 ≤ a % b := Nat.one_le_iff_ne_zero.mpr hz
    have hlt : a % b < b := Nat.mod_lt a hb
    have hxk1 : 1 / (b : ℚ) ≤ x - k := by
      rw [div_le_iff₀ hbq, hmod]; exact_mod_cast hpos
    have hxk2 : 1 / (b : ℚ) ≤ (k : ℚ) + 1 - x := by
      rw [div_le_iff₀ hbq]
      have : ((k : ℚ) + 1 - x) * b = (b : ℚ) - ((a % b : ℕ) : ℚ) := by rw [← hmod]; ring
      rw [this]
      have : ((a % b : ℕ) : ℚ) + 1 ≤ b := by exact_mod_cast hlt
      linarith
    have h1 : (k : ℚ) < rnd x := by linarith [herr'.1]
    have h2 : rnd x < (k : ℚ) + 1 := by linarith [herr'.2]
    have hxgt : (k : ℚ) < x := by linarith [div_pos one_pos hbq]
    have hc1 : ⌈rnd x⌉ = (k : ℤ) + 1 := Int.ceil_eq_iff.mpr ⟨by push_cast; linarith, by push_cast; linarith⟩
    have hc2 : ⌈x⌉ = (k : ℤ) + 1 := Int.ceil_eq_iff.mpr ⟨by push_cast; linarith, by push_cast; linarith⟩
    have hf1 : ⌊rnd x⌋ = (k : ℤ) := Int.floor_eq_iff.mpr ⟨by push_cast; linarith, by push_cast; linarith⟩
    exact ⟨by rw [hc1, hc2], by rw [hf1, hfl]⟩

/-- the two divisions evaluated through a rounding `rnd` of the quotient -/
def ofRounding (rnd : ℚ → ℚ) : DivArith where
  cdiv a b := ⌈rnd ((a : ℚ) / b)⌉.toNat
  fdiv a b := ⌊rnd ((a : ℚ) / b)⌋.toNat

theorem ofRounding_eq_exact {rnd : ℚ → ℚ} (hr : F32Rounding rnd) (a b : ℕ) (ha : a < 2 ^ 24) (hb : 0 < b) :
    (ofRounding rnd).cdiv a b = DivArith.exact.cdiv a b ∧ (ofRounding rnd).fdiv a b = DivArith.exact.fdiv a b := by
  obtain ⟨h1, h2⟩ := f32_quotient_same_ceil_floor hr a b ha hb
  refine ⟨?_, ?_⟩
  · show ⌈rnd ((a : ℚ) / b)⌉.toNat = (a + b - 1) / b
    rw [h1, ceil_natdiv]; exact Int.toNat_natCast _
  · show ⌊rnd ((a : ℚ) / b)⌋.toNat = a / b
    rw [h2, floor_natdiv]; exact Int.toNat_natCast _

/-- the hypotheses are satisfiable: the identity (exact arithmetic) is such a rounding -/
example : F32Rounding (fun x => x) := ⟨fun _ _ h => h, fun _ _ => rfl, fun x hx => by simp; positivity⟩

end Rubato.DivBridge
