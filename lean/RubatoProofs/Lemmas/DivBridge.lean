/-
`DivArith.ofNum ℚ = DivArith.exact`: the `as f32` divisions of the synchronous resamplers, in the form the translator
emits them (tie G7), read over exact arithmetic ARE the integer ceiling / floor divisions the [exact] FFT theorems use.
-/
import RubatoProofs.Lemmas.RatBridge
import Mathlib.Algebra.Order.Floor.Ring
import Mathlib.Tactic.Linarith
import Mathlib.Tactic.Positivity
import Mathlib.Tactic.FieldSimp

namespace Rubato.DivBridge
open Rubato Rubato.Bridge

theorem floor_natdiv (a b : ℕ) : ⌊(a : ℚ) / (b : ℚ)⌋ = ((a / b : ℕ) : ℤ) := by
  rcases Nat.eq_zero_or_pos b with rfl | hb
  · simp
  · rw [Int.floor_eq_iff]
    have hbq : (0 : ℚ) < b := by exact_mod_cast hb
    have h1 := Nat.div_add_mod a b
    have h2 := Nat.mod_lt a hb
    constructor
    · rw [le_div_iff₀ hbq]
      have : (a / b) * b ≤ a := Nat.div_mul_le_self a b
      exact_mod_cast this
    · rw [div_lt_iff₀ hbq]
      have : a < (a / b + 1) * b := by nlinarith
      exact_mod_cast this

theorem ceil_natdiv (a b : ℕ) : ⌈(a : ℚ) / (b : ℚ)⌉ = (((a + b - 1) / b : ℕ) : ℤ) := by
  rcases Nat.eq_zero_or_pos b with rfl | hb
  · simp
  · rw [Int.ceil_eq_iff]
    have hbq : (0 : ℚ) < b := by exact_mod_cast hb
    set q := (a + b - 1) / b with hq
    have h1 := Nat.div_add_mod (a + b - 1) b
    have h2 := Nat.mod_lt (a + b - 1) hb
    rw [← hq] at h1
    constructor
    · rw [lt_div_iff₀ hbq]
      have : ((q : ℤ) - 1) * b < a := by
        have : b * q ≤ a + b - 1 := by omega
        have h3 : (b : ℤ) * q ≤ a + b - 1 := by
          have := Int.ofNat_le.mpr this
          push_cast [Nat.cast_sub (show 1 ≤ a + b by omega)] at this
          linarith
        nlinarith
      exact_mod_cast this
    · rw [div_le_iff₀ hbq]
      have : a ≤ q * b := by
        have : a + b - 1 < b * q + b := by omega
        have : a < b * q + 1 := by omega
        have : a ≤ b * q := by omega
        rw [Nat.mul_comm]; exact this
      exact_mod_cast this

theorem cdiv_rat (a b : ℕ) : (DivArith.ofNum ℚ).cdiv a b = DivArith.exact.cdiv a b := by
  show RNum.toNat (RNum.ceil (RNum.div32 (RNum.ofNat32 (ρ := ℚ) a) (RNum.ofNat32 b))) = (a + b - 1) / b
  simp only [div32_eq, ofNat32_eq, ceil_eq, ceil_natdiv]
  have : (0 : ℤ) ≤ (((a + b - 1) / b : ℕ) : ℤ) := Int.natCast_nonneg _
  rw [toNat_intCast_of_nonneg this]; exact Int.toNat_natCast _

theorem fdiv_rat (a b : ℕ) : (DivArith.ofNum ℚ).fdiv a b = DivArith.exact.fdiv a b := by
  show RNum.toNat (RNum.floor (RNum.div32 (RNum.ofNat32 (ρ := ℚ) a) (RNum.ofNat32 b))) = a / b
  simp only [div32_eq, ofNat32_eq, floor_eq, floor_natdiv]
  have : (0 : ℤ) ≤ ((a / b : ℕ) : ℤ) := Int.natCast_nonneg _
  rw [toNat_intCast_of_nonneg this]; exact Int.toNat_natCast _

/-- over exact arithmetic the translated `f32` divisions are the integer ceiling / floor divisions -/
theorem ofNum_rat_eq_exact : DivArith.ofNum ℚ = DivArith.exact := by
  have h1 : (DivArith.ofNum ℚ).cdiv = DivArith.exact.cdiv := by funext a b; exact cdiv_rat a b
  have h2 : (DivArith.ofNum ℚ).fdiv = DivArith.exact.fdiv := by funext a b; exact fdiv_rat a b
  cases h : DivArith.ofNum ℚ with
  | mk c f =>
    cases h' : DivArith.exact with
    | mk c' f' =>
      rw [h] at h1 h2; rw [h'] at h1 h2
      simp only at h1 h2
      rw [h1, h2]

end Rubato.DivBridge
