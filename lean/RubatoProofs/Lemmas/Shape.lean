/-
Structural ("law-free") facts about the asynchronous model: which fields an operation can change,
and that buffer shapes never change.  Proved for EVERY instance of the arithmetic interfaces, hence
true of the IEEE instantiation with all its rounding.
-/
import RubatoModel.Async

namespace Rubato
variable {ρ σ : Type} [RNum ρ] [SNum ρ σ]

/-- operations of an asynchronous resampler -/
inductive AOp (ρ σ : Type) where
  | proc (a : CallArgs σ)
  | ratio (r : ρ) (ramp : Bool)
  | rel (r : ρ) (ramp : Bool)
  | chunk (n : Nat)
  | reset

def AState.step (s : AState ρ σ) : AOp ρ σ → AState ρ σ
  | .proc a => (s.process a).1
  | .ratio r ramp => (s.setRatio r ramp).1
  | .rel r ramp => (s.setRatioRelative r ramp).1
  | .chunk n => (s.setChunk n).1
  | .reset => s.reset

def AState.run (s : AState ρ σ) (ops : List (AOp ρ σ)) : AState ρ σ := ops.foldl AState.step s

/-- sizes of the channel buffers -/
def bufShape (b : Array (Array σ)) : List Nat := b.toList.map Array.size

/-- everything `reset` does not recompute stays what the constructor made it -/
structure SameShape (s s0 : AState ρ σ) : Prop where
  kind : s.kind = s0.kind
  nch : s.nch = s0.nch
  maxChunk : s.maxChunk = s0.maxChunk
  orig : s.orig = s0.orig
  maxRel : s.maxRel = s0.maxRel
  L : s.L = s0.L
  deg : s.deg = s0.deg
  sint : s.sint = s0.sint
  ip : s.ip = s0.ip
  shape : bufShape s.buf = bufShape s0.buf
  /-- the types without `set_chunk_size` never change their chunk size -/
  chunkFast : s.kind = .fastIn ∨ s.kind = .fastOut → s.chunk = s0.chunk
  /-- fixed-input types never touch `needed`; FastFixedIn keeps `fill = chunk` -/
  neededIn : s.kind = .fastIn ∨ s.kind = .sincIn → s.needed = s0.needed
  fillFastIn : s.kind = .fastIn → s.fill = s0.fill ∧ s0.fill = s0.chunk

theorem SameShape.refl_of (s0 : AState ρ σ) (h : s0.kind = .fastIn → s0.fill = s0.chunk) :
    SameShape s0 s0 :=
  ⟨rfl, rfl, rfl, rfl, rfl, rfl, rfl, rfl, rfl, rfl, fun _ => rfl, fun _ => rfl, fun hk => ⟨rfl, h hk⟩⟩

theorem copyWithin_size (b : Array σ) (src n : Nat) (h : src + n ≤ b.size) :
    (copyWithin b src n).size = b.size := by
  simp [copyWithin]; omega

theorem loadAt_size (b : Array σ) (pos : Nat) (d : Array σ) (h : pos + d.size ≤ b.size) :
    (loadAt b pos d).size = b.size := by
  simp [loadAt]; omega

theorem bufShape_setIfInBounds (acc : Array (Array σ)) (i : Nat) (v : Array σ)
    (h : v.size = (acc.getD i #[]).size) : bufShape (acc.setIfInBounds i v) = bufShape acc := by
  unfold bufShape
  apply List.ext_getElem
  · simp
  · intro j h1 h2
    have hj : j < acc.size := by simpa using h2
    simp only [List.getElem_map, Array.getElem_toList]
    rw [Array.getElem_setIfInBounds hj]
    split
    · next hij =>
      subst hij
      rw [h]
      simp [Array.getD, hj]
    · rfl

theorem refill_go_shape (loadN twoL : Nat) :
    ∀ (ms : List Bool) (ins : List (Array σ)) (i : Nat) (acc r : Array (Array σ)),
      refill.go loadN twoL i ms ins acc = some r → bufShape r = bufShape acc := by
  intro ms
  induction ms with
  | nil => intro ins i acc r h; simp [refill.go] at h; rw [h]
  | cons m ms ih =>
    intro ins i acc r h
    cases ins with
    | nil => simp [refill.go] at h; rw [h]
    | cons inp ins' =>
      simp only [refill.go] at h
      split at h
      · split at h
        · simp at h
        · next hm hchk =>
          have h' := ih ins' (i + 1) _ r h
          rw [h']
          apply bufShape_setIfInBounds
          simp only [Bool.or_eq_true, decide_eq_true_eq, not_or, Nat.not_lt] at hchk
          apply loadAt_size
          simp only [Array.size_extract]
          omega
      · exact ih ins' (i + 1) acc r h

theorem refill_shape (s : AState ρ σ) (mask : List Bool) (input : List (Array σ)) (shiftFrom loadN : Nat)
    (r : Array (Array σ)) (h : refill s mask input shiftFrom loadN = some r) :
    bufShape r = bufShape s.buf := by
  unfold refill at h
  simp only at h
  split at h
  · simp at h
  · next hchk =>
    have h1 := refill_go_shape loadN _ mask input 0 _ r h
    rw [h1]
    unfold bufShape
    simp only [Array.toList_map, List.map_map]
    apply List.map_congr_left
    intro b hb
    simp only [Function.comp]
    apply copyWithin_size
    simp only [Array.any_eq_true, decide_eq_true_eq, not_exists, Nat.not_lt] at hchk
    obtain ⟨j, hj, rfl⟩ := List.getElem_of_mem hb
    have := hchk j (by simpa using hj)
    simpa using this

end Rubato

namespace Rubato
variable {ρ σ : Type} [RNum ρ] [SNum ρ σ]

/-- what `process_into_buffer` can and cannot change -/
structure ProcFrame (s s' : AState ρ σ) : Prop where
  kind : s'.kind = s.kind
  nch : s'.nch = s.nch
  chunk : s'.chunk = s.chunk
  maxChunk : s'.maxChunk = s.maxChunk
  orig : s'.orig = s.orig
  maxRel : s'.maxRel = s.maxRel
  L : s'.L = s.L
  deg : s'.deg = s.deg
  sint : s'.sint = s.sint
  ip : s'.ip = s.ip
  shape : bufShape s'.buf = bufShape s.buf
  neededIn : s.kind.isFixedIn = true → s'.needed = s.needed
  fillIn : s.kind.isFixedIn = true → s'.fill = s.fill ∨ s'.fill = s.chunk

theorem ProcFrame.rfl' (s : AState ρ σ) : ProcFrame s s :=
  ⟨rfl, rfl, rfl, rfl, rfl, rfl, rfl, rfl, rfl, rfl, rfl, fun _ => rfl, fun _ => Or.inl rfl⟩

theorem finishIn_frame (s : AState ρ σ) (mask : List Bool) (fuel : Nat) :
    ProcFrame s (s.finishIn mask fuel).1 := by
  unfold AState.finishIn
  simp only []
  split
  · exact ProcFrame.rfl' s
  · split
    · exact ProcFrame.rfl' s
    · exact ⟨rfl, rfl, rfl, rfl, rfl, rfl, rfl, rfl, rfl, rfl, rfl, fun _ => rfl, fun _ => Or.inl rfl⟩

theorem finishOut_frame (s : AState ρ σ) (mask : List Bool) (h : s.kind.isFixedIn = false) :
    ProcFrame s (s.finishOut mask).1 := by
  unfold AState.finishOut
  simp only []
  split
  · exact ProcFrame.rfl' s
  · exact ⟨rfl, rfl, rfl, rfl, rfl, rfl, rfl, rfl, rfl, rfl, rfl, fun h' => by simp [h] at h',
      fun _ => Or.inl rfl⟩

theorem ProcFrame.trans {a b c : AState ρ σ} (h1 : ProcFrame a b) (h2 : ProcFrame b c) : ProcFrame a c where
  kind := h2.kind.trans h1.kind
  nch := h2.nch.trans h1.nch
  chunk := h2.chunk.trans h1.chunk
  maxChunk := h2.maxChunk.trans h1.maxChunk
  orig := h2.orig.trans h1.orig
  maxRel := h2.maxRel.trans h1.maxRel
  L := h2.L.trans h1.L
  deg := h2.deg.trans h1.deg
  sint := h2.sint.trans h1.sint
  ip := h2.ip.trans h1.ip
  shape := h2.shape.trans h1.shape
  neededIn := fun h => (h2.neededIn (by rw [h1.kind]; exact h)).trans (h1.neededIn h)
  fillIn := fun h => by
    have hb : b.kind.isFixedIn = true := by rw [h1.kind]; exact h
    rcases h2.fillIn hb with e | e <;> rcases h1.fillIn h with e' | e'
    · left; rw [e, e']
    · right; rw [e, e']
    · right; rw [e, h1.chunk]
    · right; rw [e, h1.chunk]

/-- the state handed to `finishIn`/`finishOut` -/
theorem refilled_frame (s : AState ρ σ) (mask : List Bool) (buf : Array (Array σ))
    (hs : bufShape buf = bufShape s.buf) :
    ProcFrame s { s with mask := mask, buf := buf, fill := AState.minIn { s with mask := mask } } :=
  ⟨rfl, rfl, rfl, rfl, rfl, rfl, rfl, rfl, rfl, rfl, hs, fun _ => rfl, fun h => by
    right; simp only [AState.minIn]; simp [h]⟩

theorem process_frame (s : AState ρ σ) (a : CallArgs σ) : ProcFrame s (s.process a).1 := by
  unfold AState.process
  split
  · exact ProcFrame.rfl' s
  · simp only []
    split
    · exact ⟨rfl, rfl, rfl, rfl, rfl, rfl, rfl, rfl, rfl, rfl, rfl, fun _ => rfl, fun _ => Or.inl rfl⟩
    · split
      · exact ⟨rfl, rfl, rfl, rfl, rfl, rfl, rfl, rfl, rfl, rfl, rfl, fun _ => rfl, fun _ => Or.inl rfl⟩
      · have hs := refill_shape _ _ _ _ _ _ ‹refill _ _ _ _ _ = some _›
        simp only [] at hs
        split
        · exact (refilled_frame s _ _ hs).trans (finishIn_frame _ _ _)
        · next hfi =>
          exact (refilled_frame s _ _ hs).trans (finishOut_frame _ _ (by simpa using hfi))

end Rubato
