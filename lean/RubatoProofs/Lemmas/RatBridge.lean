/-
Bridge between the arithmetic interface of the model (`RNum`, `SNum`) at its exact instance
(ρ = σ = ℚ) and Mathlib's ordered-field / floor-ring vocabulary.  Everything here is `rfl`-level
unfolding, packaged as simp lemmas (simp set `rat_bridge`) so that proofs about the model can be
carried out with `linarith`, `ring`, `Int.floor` lemmas, ….
-/
import RubatoModel.Async
import Mathlib.Data.Rat.Floor
import Mathlib.Algebra.Order.Floor.Ring
import Mathlib.Tactic.Linarith
import Mathlib.Tactic.Ring
import Mathlib.Tactic.Positivity
import Mathlib.Tactic.NormNum

namespace Rubato.Bridge
open Rubato

@[simp] theorem ofInt_eq (i : ℤ) : (RNum.ofInt i : ℚ) = (i : ℚ) := rfl
@[simp] theorem ofNat_eq (n : ℕ) : (RNum.ofNat n : ℚ) = (n : ℚ) := by
  simp [RNum.ofNat]
@[simp] theorem zero_eq : (RNum.zero : ℚ) = 0 := by simp [RNum.zero]
@[simp] theorem one_eq : (RNum.one : ℚ) = 1 := by
  show ((1 : ℕ) : ℚ) / ((1 : ℕ) : ℚ) = 1
  norm_num
@[simp] theorem two_eq : (RNum.two : ℚ) = 2 := by
  show ((2 : ℕ) : ℚ) / ((1 : ℕ) : ℚ) = 2
  norm_num
@[simp] theorem ten_eq : (RNum.ten : ℚ) = 10 := by
  show ((10 : ℕ) : ℚ) / ((1 : ℕ) : ℚ) = 10
  norm_num
@[simp] theorem lit_eq (b : UInt64) (n d : ℕ) : (RNum.lit b n d : ℚ) = (n : ℚ) / (d : ℚ) := rfl
@[simp] theorem half_eq : (RNum.half : ℚ) = 1 / 2 := by simp [RNum.half]
@[simp] theorem lt_eq (a b : ℚ) : RNum.lt a b = decide (a < b) := rfl
@[simp] theorem le_eq (a b : ℚ) : RNum.le a b = decide (a ≤ b) := rfl
@[simp] theorem ge_eq (a b : ℚ) : RNum.ge a b = decide (b ≤ a) := rfl
@[simp] theorem floor_eq (x : ℚ) : (RNum.floor x : ℚ) = (⌊x⌋ : ℚ) := rfl
@[simp] theorem n32_eq (x : ℚ) : (RNum.n32 x : ℚ) = x := rfl
@[simp] theorem ofNat32_eq (n : ℕ) : (RNum.ofNat32 n : ℚ) = (n : ℚ) := rfl
@[simp] theorem add32_eq (a b : ℚ) : RNum.add32 a b = a + b := rfl
@[simp] theorem sub32_eq (a b : ℚ) : RNum.sub32 a b = a - b := rfl
@[simp] theorem mul32_eq (a b : ℚ) : RNum.mul32 a b = a * b := rfl
@[simp] theorem div32_eq (a b : ℚ) : RNum.div32 a b = a / b := rfl
@[simp] theorem sofCtl_eq (x : ℚ) : (SNum.ofCtl x : ℚ) = x := rfl
@[simp] theorem sofNat_eq (n : ℕ) : (SNum.ofNat (ρ := ℚ) n : ℚ) = (n : ℚ) := rfl
@[simp] theorem szero_eq : (SNum.zero (ρ := ℚ) : ℚ) = 0 := rfl
@[simp] theorem sone_eq : (SNum.one (ρ := ℚ) : ℚ) = 1 := rfl

/-- core `Rat.ceil` is Mathlib's `⌈·⌉` -/
theorem rat_ceil_eq (x : ℚ) : x.ceil = ⌈x⌉ := by
  rw [Rat.ceil_eq_neg_floor_neg]
  have h : (-x).floor = ⌊-x⌋ := rfl
  rw [h, Int.floor_neg, neg_neg]

@[simp] theorem ceil_eq (x : ℚ) : (RNum.ceil x : ℚ) = (⌈x⌉ : ℚ) := by
  show ((x.ceil : ℤ) : ℚ) = _
  rw [rat_ceil_eq]

/-- `x as isize`: truncation toward zero -/
theorem toInt_eq (x : ℚ) : RNum.toInt x = if 0 ≤ x then ⌊x⌋ else ⌈x⌉ := by
  show (if 0 ≤ x then x.floor else x.ceil) = _
  rw [rat_ceil_eq]; rfl

@[simp] theorem toInt_intCast (i : ℤ) : RNum.toInt (i : ℚ) = i := by
  rw [toInt_eq]; split <;> simp

/-- `x as usize`: truncation, saturating at 0 -/
theorem toNat_eq (x : ℚ) : RNum.toNat x = if 0 ≤ x then ⌊x⌋.toNat else 0 := rfl

theorem toNat_of_nonneg {x : ℚ} (h : 0 ≤ x) : RNum.toNat x = ⌊x⌋.toNat := by
  rw [toNat_eq, if_pos h]

theorem toNat_intCast_of_nonneg {i : ℤ} (h : 0 ≤ i) : RNum.toNat (i : ℚ) = i.toNat := by
  rw [toNat_of_nonneg (by exact_mod_cast h)]; simp

end Rubato.Bridge
