/-
Tie A for the scalar formulas: the formulas the hand model uses ARE the ones the translator regenerates from the Rust
source on every run (`Rubato.Gen.Formulas`, item G7).  Every lemma is `rfl` for every arithmetic instance: a changed
margin, constant, cast or operand in a getter, in a needed-size formula or in the setters' range test makes the regenerated
definition differ syntactically and the lemma fail.
-/
import RubatoModel.Async
import RubatoModel.Fft
import RubatoModel.SincTable
import RubatoModel.FftUnitModel

namespace Rubato.FormulaTie
open Rubato Rubato.Gen

variable {ρ : Type} [RNum ρ]

theorem fastIn_output_frames_max (chunk : Nat) (orig maxRel : ρ) :
    outMaxIn chunk orig maxRel = Formulas.fastIn_output_frames_max chunk orig maxRel := rfl
theorem fastIn_output_frames_next (chunk : Nat) (ratio target : ρ) :
    outNextIn chunk ratio target = Formulas.fastIn_output_frames_next chunk ratio target := rfl
theorem fastIn_needed_len (chunk : Nat) (ratio target : ρ) :
    outNextIn chunk ratio target = Formulas.fastIn_needed_len chunk ratio target := rfl
theorem sincIn_output_frames_max (maxChunk : Nat) (orig maxRel : ρ) :
    outMaxIn maxChunk orig maxRel = Formulas.sincIn_output_frames_max maxChunk orig maxRel := rfl
theorem sincIn_calc_needed_len (chunk : Nat) (ratio target : ρ) :
    outNextIn chunk ratio target = Formulas.sincIn_calc_needed_len chunk ratio target := rfl

theorem fastOut_input_frames_max (chunk : Nat) (orig maxRel : ρ) :
    inMaxOut chunk orig maxRel Fast.polyLen = Formulas.fastOut_input_frames_max chunk orig maxRel := rfl
theorem sincOut_input_frames_max (maxChunk : Nat) (orig maxRel : ρ) (L : Nat) :
    inMaxOut maxChunk orig maxRel L = Formulas.sincOut_input_frames_max maxChunk orig maxRel L := rfl

theorem fastOut_needed_new (chunk : Nat) (ratio : ρ) :
    neededInit chunk ratio Fast.polyLen = Formulas.fastOut_needed_new chunk ratio := rfl
theorem fastOut_needed_reset (chunk : Nat) (orig : ρ) :
    neededInit chunk orig Fast.polyLen = Formulas.fastOut_needed_reset chunk orig := rfl
theorem sincOut_needed_new (chunk : Nat) (ratio : ρ) (L : Nat) :
    neededInit chunk ratio L = Formulas.sincOut_needed_new chunk ratio L := rfl
theorem sincOut_needed_reset (chunk : Nat) (ratio : ρ) (L : Nat) :
    neededInit chunk ratio L = Formulas.sincOut_needed_reset chunk ratio L := rfl

theorem fastOut_buffer_len (maxRel : ρ) (needed : Nat) :
    bufLenOut maxRel needed Fast.polyLen = Formulas.fastOut_buffer_len_new maxRel needed := rfl
theorem sincOut_buffer_len (maxRel : ρ) (needed L : Nat) :
    bufLenOut maxRel needed L = Formulas.sincOut_buffer_len_new maxRel needed L := rfl

theorem fastOut_needed_after (last : ρ) (chunk : Nat) (ratio : ρ) :
    neededFastAfter last chunk ratio Fast.polyLen = Formulas.fastOut_needed_after last chunk ratio := rfl
theorem fastOut_needed_set (last : ρ) (chunk : Nat) (ratio target : ρ) :
    neededFastSet last chunk ratio target Fast.polyLen = Formulas.fastOut_needed_set last chunk ratio target := rfl
theorem sincOut_update_needed_len (last : ρ) (chunk : Nat) (ratio target : ρ) (L : Nat) :
    neededSinc last chunk ratio target L = Formulas.sincOut_update_needed_len last chunk ratio target L := rfl

theorem range_test_fastIn (new orig maxRel : ρ) :
    ratioInRange new orig maxRel = Formulas.fastIn_range_test new orig maxRel := rfl
theorem range_test_fastOut (new orig maxRel : ρ) :
    ratioInRange new orig maxRel = Formulas.fastOut_range_test new orig maxRel := rfl
theorem range_test_sincIn (new orig maxRel : ρ) :
    ratioInRange new orig maxRel = Formulas.sincIn_range_test new orig maxRel := rfl
theorem range_test_sincOut (new orig maxRel : ρ) :
    ratioInRange new orig maxRel = Formulas.sincOut_range_test new orig maxRel := rfl

/-- `output_delay` of the four asynchronous types: `(L as f64 * ratio / 2.0) as usize` -/
theorem output_delay (σ : Type) [SNum ρ σ] (s : AState ρ σ) :
    (s.L = Fast.polyLen → s.outputDelay = Formulas.fastIn_output_delay s.ratio ∧
        s.outputDelay = Formulas.fastOut_output_delay s.ratio) ∧
    s.outputDelay = Formulas.sincIn_output_delay s.L s.ratio ∧
    s.outputDelay = Formulas.sincOut_output_delay s.L s.ratio := by
  refine ⟨fun h => ?_, rfl, rfl⟩
  unfold AState.outputDelay Formulas.fastIn_output_delay Formulas.fastOut_output_delay
  rw [h]; exact ⟨rfl, rfl⟩

/-- each formula reads exactly the fields the model feeds it, in this order (a wrong-field slip such as
`resample_ratio_original` for `resample_ratio` changes the regenerated table and this lemma fails) -/
theorem formulas_read_the_expected_fields :
    Formulas.formulaParams = [
      ("fastIn_output_frames_max", ["chunk_size", "resample_ratio_original", "max_relative_ratio"]),
      ("fastIn_output_frames_next", ["chunk_size", "resample_ratio", "target_ratio"]),
      ("fastIn_output_delay", ["resample_ratio"]),
      ("fastIn_needed_len", ["chunk_size", "resample_ratio", "target_ratio"]),
      ("fastIn_range_test", ["new_ratio", "resample_ratio_original", "max_relative_ratio"]),
      ("fastOut_input_frames_max", ["chunk_size", "resample_ratio_original", "max_relative_ratio"]),
      ("fastOut_output_delay", ["resample_ratio"]),
      ("fastOut_needed_after", ["last_index", "chunk_size", "resample_ratio"]),
      ("fastOut_needed_set", ["last_index", "chunk_size", "resample_ratio", "target_ratio"]),
      ("fastOut_needed_reset", ["chunk_size", "resample_ratio_original"]),
      ("fastOut_needed_new", ["chunk_size", "resample_ratio"]),
      ("fastOut_buffer_len_new", ["max_resample_ratio_relative", "needed_input_size"]),
      ("fastOut_range_test", ["new_ratio", "resample_ratio_original", "max_relative_ratio"]),
      ("sincIn_calc_needed_len", ["chunk_size", "resample_ratio", "target_ratio"]),
      ("sincIn_output_frames_max", ["max_chunk_size", "resample_ratio_original", "max_relative_ratio"]),
      ("sincIn_output_delay", ["sinc_len", "resample_ratio"]),
      ("sincIn_range_test", ["new_ratio", "resample_ratio_original", "max_relative_ratio"]),
      ("sincOut_update_needed_len", ["last_index", "chunk_size", "resample_ratio", "target_ratio", "sinc_len"]),
      ("sincOut_input_frames_max", ["max_chunk_size", "resample_ratio_original", "max_relative_ratio", "sinc_len"]),
      ("sincOut_output_delay", ["sinc_len", "resample_ratio"]),
      ("sincOut_needed_reset", ["chunk_size", "resample_ratio", "sinc_len"]),
      ("sincOut_needed_new", ["chunk_size", "resample_ratio", "sinc_len"]),
      ("sincOut_buffer_len_new", ["max_resample_ratio_relative", "needed_input_size", "sinc_len"]),
      ("sincOut_range_test", ["new_ratio", "resample_ratio_original", "max_relative_ratio"])] := rfl

/-! ### loop control of the asynchronous `process_into_buffer` bodies

`finishInG` / `finishOutG` are `AState.finishIn` / `finishOut` written again with every scalar statement of the Rust loop
header and footer replaced by its regenerated definition (`t_ratio`, `t_ratio_end`, `approximate_nbr_frames`,
`t_ratio_increment`, `end_idx`, the `last_index` carried over); `finishIn_is_generated` / `finishOut_is_generated` are `rfl`:
the hand model's two functions ARE these, for every arithmetic instance. -/

section loops
variable {σ : Type} [SNum ρ σ]

def finishInG (s : AState ρ σ) (mask : List Bool) (fuel : Nat) : AState ρ σ × Outcome (CallOut σ) :=
  let t0 : ρ := Formulas.sincIn_loop_t_ratio s.ratio
  let t1 : ρ := Formulas.sincIn_loop_t_ratio_end s.target
  let fillEnd : Int := 2 * (s.L : Int) + s.chunk
  let approx : ρ := Formulas.sincIn_loop_approx_frames s.chunk s.ratio s.target
  let inc : ρ := Formulas.sincIn_loop_increment t1 t0 approx
  let endIdx : Int := Formulas.sincIn_loop_end_idx s.chunk s.L t1
  let r := stepsIn inc (RNum.ofInt endIdx) fuel t0 s.lastIndex
  let ps := r.1
  if r.2.2 then
    (s, (if mask.any id then (if s.kind.isSinc then .panic "wave_out[n]" else .abort "get_unchecked_mut(n)")
         else .panic "position diverges"))
  else
    match evalChannels s s.buf mask ps with
    | .error f => (s, faultOutcome f)
    | .ok outs =>
      let stale := ps.any fun p => decide (readEnd s p > fillEnd)
      ({ s with lastIndex := Formulas.sincIn_loop_last_index r.2.1 s.chunk, ratio := s.target },
        .ok { nIn := s.chunk, nOut := ps.length, out := outs, stale })

theorem finishIn_is_generated (s : AState ρ σ) (mask : List Bool) (fuel : Nat) :
    s.finishIn mask fuel = finishInG s mask fuel := rfl

def finishOutG (s : AState ρ σ) (mask : List Bool) : AState ρ σ × Outcome (CallOut σ) :=
  let t0 : ρ := Formulas.sincOut_loop_t_ratio s.ratio
  let t1 : ρ := Formulas.sincOut_loop_t_ratio_end s.target
  let fillEnd : Int := 2 * (s.L : Int) + s.fill
  let inc : ρ := Formulas.sincOut_loop_increment t1 t0 s.chunk
  let ps := stepsOut inc s.chunk t0 s.lastIndex
  match evalChannels s s.buf mask ps with
  | .error f => (s, faultOutcome f)
  | .ok outs =>
    let stale := ps.any fun p => decide (readEnd s p > fillEnd)
    let last := Formulas.sincOut_loop_last_index (stepsOutLast inc s.chunk t0 s.lastIndex) s.fill
    let needed' := match s.kind with
      | .fastOut => neededFastAfter last s.chunk s.target s.L
      | _ => neededSinc last s.chunk s.target s.target s.L
    ({ s with lastIndex := last, ratio := s.target, needed := needed' },
      .ok { nIn := s.fill, nOut := s.chunk, out := outs, stale })

theorem finishOut_is_generated (s : AState ρ σ) (mask : List Bool) :
    s.finishOut mask = finishOutG s mask := rfl

/-- the polynomial resamplers' statements are the same text with `POLYNOMIAL_LEN` for `sinc_len` -/
theorem fast_loops_are_the_sinc_loops (chunk fill : Nat) (r t t0 t1 a idx : ρ) :
    Formulas.fastIn_loop_t_ratio r = Formulas.sincIn_loop_t_ratio r ∧
    Formulas.fastIn_loop_t_ratio_end t = Formulas.sincIn_loop_t_ratio_end t ∧
    Formulas.fastIn_loop_approx_frames chunk r t = Formulas.sincIn_loop_approx_frames chunk r t ∧
    Formulas.fastIn_loop_increment t1 t0 a = Formulas.sincIn_loop_increment t1 t0 a ∧
    Formulas.fastIn_loop_end_idx chunk t1 = Formulas.sincIn_loop_end_idx chunk Fast.polyLen t1 ∧
    Formulas.fastIn_loop_last_index idx chunk = Formulas.sincIn_loop_last_index idx chunk ∧
    Formulas.fastOut_loop_t_ratio r = Formulas.sincOut_loop_t_ratio r ∧
    Formulas.fastOut_loop_t_ratio_end t = Formulas.sincOut_loop_t_ratio_end t ∧
    Formulas.fastOut_loop_increment t1 t0 chunk = Formulas.sincOut_loop_increment t1 t0 chunk ∧
    Formulas.fastOut_loop_last_index idx fill = Formulas.sincOut_loop_last_index idx fill :=
  ⟨rfl, rfl, rfl, rfl, rfl, rfl, rfl, rfl, rfl, rfl⟩

/-- the read position a constructor and `reset()` start from: `-(L/2)` (regenerated for all four types, constructor and
reset) -/
theorem initial_last_index (L : Nat) :
    (- RNum.ofNat (L / 2) : ρ) = Formulas.sincIn_new_last_index L ∧
    (- RNum.ofNat (L / 2) : ρ) = Formulas.sincIn_reset_last_index L ∧
    (- RNum.ofNat (L / 2) : ρ) = Formulas.sincOut_new_last_index L ∧
    (- RNum.ofNat (L / 2) : ρ) = Formulas.sincOut_reset_last_index L :=
  ⟨rfl, rfl, rfl, rfl⟩

theorem initial_last_index_fast :
    (- RNum.ofNat (Fast.polyLen / 2) : ρ) = Formulas.fastIn_new_last_index ∧
    (- RNum.ofNat (Fast.polyLen / 2) : ρ) = Formulas.fastIn_reset_last_index ∧
    (- RNum.ofNat (Fast.polyLen / 2) : ρ) = Formulas.fastOut_new_last_index ∧
    (- RNum.ofNat (Fast.polyLen / 2) : ρ) = Formulas.fastOut_reset_last_index :=
  ⟨rfl, rfl, rfl, rfl⟩

/-- `set_chunk_size`: the rejection test of the two sinc types is the regenerated one (the polynomial and FFT types keep
the trait default `ChunkSizeNotAdjustable`; the translator fails the run if any of them starts overriding it) -/
theorem setChunk_is_generated (s : AState ρ σ) (n : Nat) :
    s.setChunk n =
      (match s.kind with
       | .fastIn | .fastOut => (s, .error .chunkNotAdjustable)
       | .sincIn =>
         if Formulas.sincIn_chunk_rejected (ρ := ρ) n s.maxChunk then (s, .error (.invalidChunk s.maxChunk n))
         else ({ s with chunk := n }, .ok ())
       | .sincOut =>
         if Formulas.sincOut_chunk_rejected (ρ := ρ) n s.maxChunk then (s, .error (.invalidChunk s.maxChunk n))
         else ({ s with chunk := n, needed := neededSinc s.lastIndex n s.ratio s.target s.L }, .ok ())) := by
  unfold AState.setChunk Formulas.sincIn_chunk_rejected Formulas.sincOut_chunk_rejected
  cases s.kind <;> simp

/-- `set_resample_ratio_relative` is `set_resample_ratio` at the regenerated `resample_ratio_original * rel_ratio` (all four
asynchronous types; the shape of the absolute setter's body — range test, `if !ramp { resample_ratio = new }`,
`target_ratio = new`, size update, error payload — is checked on the text by the translator) -/
theorem setRatioRelative_is_generated (s : AState ρ σ) (rel : ρ) (ramp : Bool) :
    s.setRatioRelative rel ramp = s.setRatio (Formulas.fastIn_rel_new_ratio s.orig rel) ramp ∧
    Formulas.fastIn_rel_new_ratio s.orig rel = Formulas.fastOut_rel_new_ratio s.orig rel ∧
    Formulas.fastIn_rel_new_ratio s.orig rel = Formulas.sincIn_rel_new_ratio s.orig rel ∧
    Formulas.fastIn_rel_new_ratio s.orig rel = Formulas.sincOut_rel_new_ratio s.orig rel :=
  ⟨rfl, rfl, rfl, rfl⟩

end loops

/-! ### interpolation.rs (tie G5): index / sub-index statements of the four `get_nearest_time(s)` functions -/

/-- the model's `nearestTimes` is built from the regenerated `index` / `subindex` / `start` / `frac` statements, the
regenerated first offsets, and the wrap blocks (one-sided for `get_nearest_time` and `get_nearest_times_2`, two-sided for
`_3` / `_4`; their text is checked by the translator) -/
theorem nearestTimes_is_generated (sint : SincInterp) (t : ρ) (factor : Nat) :
    nearestTimes sint t factor =
      (match sint with
       | .nearest =>
         let sub := Sinc.time_subindex t (factor : Int)
         if sub ≥ (factor : Int) then [(Sinc.time_index t (factor : Int) + 1, sub - factor)]
         else [(Sinc.time_index t (factor : Int), sub)]
       | .linear =>
         let sub := Sinc.times2_subindex t (factor : Int)
         let sub1 := sub + 1
         [(Sinc.times2_index t (factor : Int), sub),
          if sub1 ≥ (factor : Int) then (Sinc.times2_index t (factor : Int) + 1, sub1 - factor)
          else (Sinc.times2_index t (factor : Int), sub1)]
       | .quadratic =>
         let o := Sinc.nearestFirstOffset 3
         [wrapSub (Sinc.times3_start t (factor : Int)) (Sinc.times3_frac t (factor : Int) + o) factor,
          wrapSub (Sinc.times3_start t (factor : Int)) (Sinc.times3_frac t (factor : Int) + o + 1) factor,
          wrapSub (Sinc.times3_start t (factor : Int)) (Sinc.times3_frac t (factor : Int) + o + 2) factor]
       | .cubic =>
         let o := Sinc.nearestFirstOffset 4
         [wrapSub (Sinc.times4_start t (factor : Int)) (Sinc.times4_frac t (factor : Int) + o) factor,
          wrapSub (Sinc.times4_start t (factor : Int)) (Sinc.times4_frac t (factor : Int) + o + 1) factor,
          wrapSub (Sinc.times4_start t (factor : Int)) (Sinc.times4_frac t (factor : Int) + o + 2) factor,
          wrapSub (Sinc.times4_start t (factor : Int)) (Sinc.times4_frac t (factor : Int) + o + 3) factor]) := by
  cases sint <;> rfl

/-! ### sinc.rs (tie G11): the sinc function, its argument in `make_sincs`, the polyphase layout -/

section sincrs
variable {σ : Type} [SNum ρ σ] [STrig σ]

theorem sincFn_is_generated (v : σ) : sincFn (ρ := ρ) v = SincRs.sinc_fn (ρ := ρ) v := rfl

theorem sincProto_is_generated (npoints factor : Nat) (fcut : ρ) (w : Window) (x : Nat) :
    sincProto (σ := σ) npoints factor fcut w x =
      Win.make_window_at (ρ := ρ) w (npoints * factor) x *
        SincRs.sinc_fn (ρ := ρ) (SincRs.sinc_arg (ρ := ρ) x (npoints * factor) factor fcut) := rfl

/-- the model reads `y[factor·p + (factor−1−s)]` for row `s`: that is the regenerated `sincs[factor − n − 1][p] = y[factor·p + n]`
with `n = factor − 1 − s` -/
theorem sincs_layout (factor p s : Nat) (hs : s < factor) :
    SincRs.sincs_row factor p (factor - 1 - s) = s ∧
    SincRs.sincs_src factor p (factor - 1 - s) = factor * p + (factor - 1 - s) := by
  unfold SincRs.sincs_row SincRs.sincs_src
  omega

end sincrs

/-! ### the synchronous (FFT) resamplers: block sizing and frame bookkeeping (`DivArith.ofNum ρ` = the `as f32` divisions
as the translator emits them) -/

section fft
variable (ρ)

theorem fftIo_sizes (ri ro chunk : Nat) :
    fftSizes (DivArith.ofNum ρ) ri ro chunk false =
      (let g := Formulas.fftIo_new_gcd (ρ := ρ) ri ro
       let k := Formulas.fftIo_new_fft_chunks (ρ := ρ) chunk (Formulas.fftIo_new_min_chunk_in (ρ := ρ) ri g)
       (Formulas.fftIo_new_fft_size_in (ρ := ρ) k ri g, Formulas.fftIo_new_fft_size_out (ρ := ρ) k ro g)) := rfl

theorem fftIn_sizes (ri ro chunk sub : Nat) :
    fftSizes (DivArith.ofNum ρ) ri ro (chunk / sub) false =
      (let g := Formulas.fftIn_new_gcd (ρ := ρ) ri ro
       let k := Formulas.fftIn_new_fft_chunks (ρ := ρ) (Formulas.fftIn_new_wanted_subsize (ρ := ρ) chunk sub)
                  (Formulas.fftIn_new_min_chunk_in (ρ := ρ) ri g)
       (Formulas.fftIn_new_fft_size_in (ρ := ρ) k ri g, Formulas.fftIn_new_fft_size_out (ρ := ρ) k ro g)) := rfl

theorem fftOut_sizes (ri ro chunk sub : Nat) :
    fftSizes (DivArith.ofNum ρ) ri ro (chunk / sub) true =
      (let g := Formulas.fftOut_new_gcd (ρ := ρ) ri ro
       let k := Formulas.fftOut_new_fft_chunks (ρ := ρ) (Formulas.fftOut_new_wanted_subsize (ρ := ρ) chunk sub)
                  (Formulas.fftOut_new_min_chunk_out (ρ := ρ) ro g)
       (Formulas.fftOut_new_fft_size_in (ρ := ρ) k ri g, Formulas.fftOut_new_fft_size_out (ρ := ρ) k ro g)) := rfl

/-- `frames_needed` of FftFixedOut: in `new`, after every call, after `reset` -/
theorem fftOut_frames_needed (wantedOut fo fi : Nat) :
    (DivArith.ofNum ρ).cdiv wantedOut fo * fi =
        Formulas.fftOut_new_frames_needed (ρ := ρ) (Formulas.fftOut_new_chunks_needed (ρ := ρ) wantedOut fo) fi ∧
    (DivArith.ofNum ρ).cdiv wantedOut fo * fi =
        Formulas.fftOut_proc_frames_needed (ρ := ρ) (Formulas.fftOut_proc_chunks_needed (ρ := ρ) wantedOut fo) fi ∧
    (DivArith.ofNum ρ).cdiv wantedOut fo * fi =
        Formulas.fftOut_reset_frames_needed (ρ := ρ) (Formulas.fftOut_reset_chunks_needed (ρ := ρ) wantedOut fo) fi :=
  ⟨rfl, rfl, rfl⟩

variable {σ υ : Type}

theorem fft_getters (s : FState σ υ) :
    (s.kind = .fftOut → s.inputFramesMax (DivArith.ofNum ρ) =
        Formulas.fftOut_input_frames_max (ρ := ρ) s.chunkOut s.fftOut s.fftIn) ∧
    (s.kind = .fftIn → s.outputFramesNext (DivArith.ofNum ρ) =
        Formulas.fftIn_output_frames_next (ρ := ρ) s.saved s.chunkIn s.fftIn s.fftOut) ∧
    (s.kind = .fftIn → s.outputFramesMax =
        Formulas.fftIn_omax_result (ρ := ρ)
          (Formulas.fftIn_omax_max_subchunks_to_process (ρ := ρ)
            (Formulas.fftIn_omax_max_available_frames (ρ := ρ)
              (Formulas.fftIn_omax_max_stored_frames (ρ := ρ) s.fftIn) s.chunkIn) s.fftIn) s.fftOut) ∧
    (s.kind = .fftIn → s.outputDelay = Formulas.fftIn_output_delay (ρ := ρ) s.fftOut) ∧
    (s.kind = .fftOut → s.outputDelay = Formulas.fftOut_output_delay (ρ := ρ) s.fftOut) ∧
    (s.kind = .fftIo → s.outputDelay = Formulas.fftIo_output_delay (ρ := ρ) s.chunkOut) := by
  refine ⟨?_, ?_, ?_, ?_, ?_, ?_⟩ <;> intro h <;>
    simp only [FState.inputFramesMax, FState.outputFramesNext, FState.outputFramesMax, FState.outputDelay, h] <;> rfl

/-- FftFixedIn::process_into_buffer: blocks ready and the output length it demands -/
theorem fftIn_ready (saved chunkIn fi fo : Nat) :
    (DivArith.ofNum ρ).fdiv (saved + chunkIn) fi * fo =
      Formulas.fftIn_proc_needed_len (ρ := ρ)
        (Formulas.fftIn_proc_nbr_chunks_ready (ρ := ρ) (Formulas.fftIn_proc_next_saved_frames (ρ := ρ) saved chunkIn) fi) fo :=
  rfl

/-- FftResampler::new: the anti-aliasing cutoff of the unit model is the regenerated `let cutoff = if … {…} else {…}` -/
theorem fftUnit_cutoff (c : Nat → ρ) (fi fo : Nat) :
    fftCutoff c fi fo = Formulas.fftUnit_cutoff fi fo c := by
  unfold fftCutoff Formulas.fftUnit_cutoff
  by_cases h : fi > fo <;> simp [h]

/-- FftResampler::resample_unit: the number of spectrum bins the unit model keeps is the regenerated `new_len` -/
theorem fftUnit_new_len (t : UnitTables σ) :
    t.newLen = Formulas.fftUnit_new_len (ρ := ρ) t.fftIn t.fftOut := by
  unfold UnitTables.newLen Formulas.fftUnit_new_len
  by_cases h : t.fftIn < t.fftOut <;> simp [h]

/-- FftResampler::new: table arguments `(fft_size_in, 1, cutoff, BlackmanHarris2)`, taps divided by `2·fft_size_in`, padded to
`2·fft_size_in` — the values the theorems about `filterTaps` use are the regenerated ones -/
theorem fftUnit_table_arguments (fi : Nat) :
    Formulas.fftUnit_sinc_factor = 1 ∧ Formulas.fftUnit_window = Window.blackmanHarris2 ∧
    Formulas.fftUnit_tap_divisor (ρ := ρ) fi = 2 * fi ∧ Formulas.fftUnit_filter_len (ρ := ρ) fi = 2 * fi :=
  ⟨rfl, rfl, rfl, rfl⟩

end fft

/-- each FFT formula reads exactly the locals / fields the model feeds it -/
theorem fft_formulas_read_the_expected_fields :
    Formulas.fftFormulaParams = [
    ("mkInterp_sinc_len", ["sinc_len"]),
    ("mkInterp_f_cutoff", ["resample_ratio", "f_cutoff"]),
    ("fastIn_loop_t_ratio", ["resample_ratio"]),
    ("fastIn_loop_t_ratio_end", ["target_ratio"]),
    ("fastIn_loop_approx_frames", ["chunk_size", "resample_ratio", "target_ratio"]),
    ("fastIn_loop_end_idx", ["chunk_size", "t_ratio_end"]),
    ("fastIn_loop_increment", ["t_ratio_end", "t_ratio", "approximate_nbr_frames"]),
    ("fastIn_loop_last_index", ["idx", "chunk_size"]),
    ("fastIn_reset_last_index", []),
    ("fastIn_new_last_index", []),
    ("sincIn_loop_t_ratio", ["resample_ratio"]),
    ("sincIn_loop_t_ratio_end", ["target_ratio"]),
    ("sincIn_loop_approx_frames", ["chunk_size", "resample_ratio", "target_ratio"]),
    ("sincIn_loop_end_idx", ["chunk_size", "sinc_len", "t_ratio_end"]),
    ("sincIn_loop_increment", ["t_ratio_end", "t_ratio", "approximate_nbr_frames"]),
    ("sincIn_loop_last_index", ["idx", "chunk_size"]),
    ("sincIn_reset_last_index", ["sinc_len"]),
    ("sincIn_new_last_index", ["sinc_len"]),
    ("fastOut_loop_t_ratio", ["resample_ratio"]),
    ("fastOut_loop_t_ratio_end", ["target_ratio"]),
    ("fastOut_loop_increment", ["t_ratio_end", "t_ratio", "chunk_size"]),
    ("fastOut_loop_last_index", ["idx", "current_buffer_fill"]),
    ("fastOut_reset_last_index", []),
    ("fastOut_new_last_index", []),
    ("sincOut_loop_t_ratio", ["resample_ratio"]),
    ("sincOut_loop_t_ratio_end", ["target_ratio"]),
    ("sincOut_loop_increment", ["t_ratio_end", "t_ratio", "chunk_size"]),
    ("sincOut_loop_last_index", ["idx", "current_buffer_fill"]),
    ("sincOut_reset_last_index", ["sinc_len"]),
    ("sincOut_new_last_index", ["sinc_len"]),
    ("sincIn_chunk_rejected", ["chunksize", "max_chunk_size"]),
    ("sincOut_chunk_rejected", ["chunksize", "max_chunk_size"]),
    ("fastIn_rel_new_ratio", ["resample_ratio_original", "rel_ratio"]),
    ("fastOut_rel_new_ratio", ["resample_ratio_original", "rel_ratio"]),
    ("sincIn_rel_new_ratio", ["resample_ratio_original", "rel_ratio"]),
    ("sincOut_rel_new_ratio", ["resample_ratio_original", "rel_ratio"]),
    ("fftIo_new_gcd", ["sample_rate_input", "sample_rate_output"]),
    ("fftIo_new_min_chunk_in", ["sample_rate_input", "gcd"]),
    ("fftIo_new_fft_chunks", ["chunk_size_in", "min_chunk_in"]),
    ("fftIo_new_fft_size_out", ["fft_chunks", "sample_rate_output", "gcd"]),
    ("fftIo_new_fft_size_in", ["fft_chunks", "sample_rate_input", "gcd"]),
    ("fftIo_output_delay", ["chunk_size_out"]),
    ("fftIn_new_gcd", ["sample_rate_input", "sample_rate_output"]),
    ("fftIn_new_min_chunk_in", ["sample_rate_input", "gcd"]),
    ("fftIn_new_wanted_subsize", ["chunk_size_in", "sub_chunks"]),
    ("fftIn_new_fft_chunks", ["wanted_subsize", "min_chunk_in"]),
    ("fftIn_new_fft_size_out", ["fft_chunks", "sample_rate_output", "gcd"]),
    ("fftIn_new_fft_size_in", ["fft_chunks", "sample_rate_input", "gcd"]),
    ("fftIn_output_delay", ["fft_size_out"]),
    ("fftIn_proc_next_saved_frames", ["saved_frames", "chunk_size_in"]),
    ("fftIn_proc_nbr_chunks_ready", ["next_saved_frames", "fft_size_in"]),
    ("fftIn_proc_needed_len", ["nbr_chunks_ready", "fft_size_out"]),
    ("fftIn_output_frames_next", ["saved_frames", "chunk_size_in", "fft_size_in", "fft_size_out"]),
    ("fftIn_omax_max_stored_frames", ["fft_size_in"]),
    ("fftIn_omax_max_available_frames", ["max_stored_frames", "chunk_size_in"]),
    ("fftIn_omax_max_subchunks_to_process", ["max_available_frames", "fft_size_in"]),
    ("fftIn_omax_result", ["max_subchunks_to_process", "fft_size_out"]),
    ("fftOut_new_gcd", ["sample_rate_input", "sample_rate_output"]),
    ("fftOut_new_min_chunk_out", ["sample_rate_output", "gcd"]),
    ("fftOut_new_wanted_subsize", ["chunk_size_out", "sub_chunks"]),
    ("fftOut_new_fft_chunks", ["wanted_subsize", "min_chunk_out"]),
    ("fftOut_new_fft_size_out", ["fft_chunks", "sample_rate_output", "gcd"]),
    ("fftOut_new_fft_size_in", ["fft_chunks", "sample_rate_input", "gcd"]),
    ("fftOut_new_chunks_needed", ["chunk_size_out", "fft_size_out"]),
    ("fftOut_new_frames_needed", ["chunks_needed", "fft_size_in"]),
    ("fftOut_output_delay", ["fft_size_out"]),
    ("fftOut_proc_chunks_needed", ["frames_needed_out", "fft_size_out"]),
    ("fftOut_proc_frames_needed", ["chunks_needed", "fft_size_in"]),
    ("fftOut_input_frames_max", ["chunk_size_out", "fft_size_out", "fft_size_in"]),
    ("fftOut_reset_chunks_needed", ["chunk_size_out", "fft_size_out"]),
    ("fftOut_reset_frames_needed", ["chunks_needed", "fft_size_in"]),
    ("fftUnit_cutoff", ["fft_size_in", "fft_size_out", "cutoffOf_BlackmanHarris2"]),
    ("fftUnit_new_len", ["fft_size_in", "fft_size_out"]),
    ("fftUnit_tap_divisor", ["fft_size_in"]),
    ("fftUnit_filter_len", ["fft_size_in"])] := rfl

end Rubato.FormulaTie
