/-
Tie A for the scalar formulas: the formulas the hand model uses ARE the ones the translator regenerates from the Rust
source on every run (`Rubato.Gen.Formulas`, item G7).  Every lemma is `rfl` for every arithmetic instance: a changed
margin, constant, cast or operand in a getter, in a needed-size formula or in the setters' range test makes the regenerated
definition differ syntactically and the lemma fail.
-/
import RubatoModel.Async

namespace Rubato.FormulaTie
open Rubato Rubato.Gen

variable {ρ : Type} [RNum ρ]

theorem fastIn_output_frames_max (chunk : Nat) (orig maxRel : ρ) :
    outMaxIn chunk orig maxRel = Formulas.fastIn_output_frames_max chunk orig maxRel := rfl
theorem fastIn_output_frames_next (chunk : Nat) (ratio target : ρ) :
    outNextIn chunk ratio target = Formulas.fastIn_output_frames_next chunk ratio target := rfl
theorem fastIn_needed_len (chunk : Nat) (ratio target : ρ) :
    outNextIn chunk ratio target = Formulas.fastIn_needed_len chunk ratio target := rfl
theorem sincIn_output_frames_max (maxChunk : Nat) (orig maxRel : ρ) :
    outMaxIn maxChunk orig maxRel = Formulas.sincIn_output_frames_max maxChunk orig maxRel := rfl
theorem sincIn_calc_needed_len (chunk : Nat) (ratio target : ρ) :
    outNextIn chunk ratio target = Formulas.sincIn_calc_needed_len chunk ratio target := rfl

theorem fastOut_input_frames_max (chunk : Nat) (orig maxRel : ρ) :
    inMaxOut chunk orig maxRel Fast.polyLen = Formulas.fastOut_input_frames_max chunk orig maxRel := rfl
theorem sincOut_input_frames_max (maxChunk : Nat) (orig maxRel : ρ) (L : Nat) :
    inMaxOut maxChunk orig maxRel L = Formulas.sincOut_input_frames_max maxChunk orig maxRel L := rfl

theorem fastOut_needed_new (chunk : Nat) (ratio : ρ) :
    neededInit chunk ratio Fast.polyLen = Formulas.fastOut_needed_new chunk ratio := rfl
theorem fastOut_needed_reset (chunk : Nat) (orig : ρ) :
    neededInit chunk orig Fast.polyLen = Formulas.fastOut_needed_reset chunk orig := rfl
theorem sincOut_needed_new (chunk : Nat) (ratio : ρ) (L : Nat) :
    neededInit chunk ratio L = Formulas.sincOut_needed_new chunk ratio L := rfl
theorem sincOut_needed_reset (chunk : Nat) (ratio : ρ) (L : Nat) :
    neededInit chunk ratio L = Formulas.sincOut_needed_reset chunk ratio L := rfl

theorem fastOut_buffer_len (maxRel : ρ) (needed : Nat) :
    bufLenOut maxRel needed Fast.polyLen = Formulas.fastOut_buffer_len_new maxRel needed := rfl
theorem sincOut_buffer_len (maxRel : ρ) (needed L : Nat) :
    bufLenOut maxRel needed L = Formulas.sincOut_buffer_len_new maxRel needed L := rfl

theorem fastOut_needed_after (last : ρ) (chunk : Nat) (ratio : ρ) :
    neededFastAfter last chunk ratio Fast.polyLen = Formulas.fastOut_needed_after last chunk ratio := rfl
theorem fastOut_needed_set (last : ρ) (chunk : Nat) (ratio target : ρ) :
    neededFastSet last chunk ratio target Fast.polyLen = Formulas.fastOut_needed_set last chunk ratio target := rfl
theorem sincOut_update_needed_len (last : ρ) (chunk : Nat) (ratio target : ρ) (L : Nat) :
    neededSinc last chunk ratio target L = Formulas.sincOut_update_needed_len last chunk ratio target L := rfl

theorem range_test_fastIn (new orig maxRel : ρ) :
    ratioInRange new orig maxRel = Formulas.fastIn_range_test new orig maxRel := rfl
theorem range_test_fastOut (new orig maxRel : ρ) :
    ratioInRange new orig maxRel = Formulas.fastOut_range_test new orig maxRel := rfl
theorem range_test_sincIn (new orig maxRel : ρ) :
    ratioInRange new orig maxRel = Formulas.sincIn_range_test new orig maxRel := rfl
theorem range_test_sincOut (new orig maxRel : ρ) :
    ratioInRange new orig maxRel = Formulas.sincOut_range_test new orig maxRel := rfl

/-- `output_delay` of the four asynchronous types: `(L as f64 * ratio / 2.0) as usize` -/
theorem output_delay (σ : Type) [SNum ρ σ] (s : AState ρ σ) :
    (s.L = Fast.polyLen → s.outputDelay = Formulas.fastIn_output_delay s.ratio ∧
        s.outputDelay = Formulas.fastOut_output_delay s.ratio) ∧
    s.outputDelay = Formulas.sincIn_output_delay s.L s.ratio ∧
    s.outputDelay = Formulas.sincOut_output_delay s.L s.ratio := by
  refine ⟨fun h => ?_, rfl, rfl⟩
  unfold AState.outputDelay Formulas.fastIn_output_delay Formulas.fastOut_output_delay
  rw [h]; exact ⟨rfl, rfl⟩

/-- each formula reads exactly the fields the model feeds it, in this order (a wrong-field slip such as
`resample_ratio_original` for `resample_ratio` changes the regenerated table and this lemma fails) -/
theorem formulas_read_the_expected_fields :
    Formulas.formulaParams = [
      ("fastIn_output_frames_max", ["chunk_size", "resample_ratio_original", "max_relative_ratio"]),
      ("fastIn_output_frames_next", ["chunk_size", "resample_ratio", "target_ratio"]),
      ("fastIn_output_delay", ["resample_ratio"]),
      ("fastIn_needed_len", ["chunk_size", "resample_ratio", "target_ratio"]),
      ("fastIn_range_test", ["new_ratio", "resample_ratio_original", "max_relative_ratio"]),
      ("fastOut_input_frames_max", ["chunk_size", "resample_ratio_original", "max_relative_ratio"]),
      ("fastOut_output_delay", ["resample_ratio"]),
      ("fastOut_needed_after", ["last_index", "chunk_size", "resample_ratio"]),
      ("fastOut_needed_set", ["last_index", "chunk_size", "resample_ratio", "target_ratio"]),
      ("fastOut_needed_reset", ["chunk_size", "resample_ratio_original"]),
      ("fastOut_needed_new", ["chunk_size", "resample_ratio"]),
      ("fastOut_buffer_len_new", ["max_resample_ratio_relative", "needed_input_size"]),
      ("fastOut_range_test", ["new_ratio", "resample_ratio_original", "max_relative_ratio"]),
      ("sincIn_calc_needed_len", ["chunk_size", "resample_ratio", "target_ratio"]),
      ("sincIn_output_frames_max", ["max_chunk_size", "resample_ratio_original", "max_relative_ratio"]),
      ("sincIn_output_delay", ["sinc_len", "resample_ratio"]),
      ("sincIn_range_test", ["new_ratio", "resample_ratio_original", "max_relative_ratio"]),
      ("sincOut_update_needed_len", ["last_index", "chunk_size", "resample_ratio", "target_ratio", "sinc_len"]),
      ("sincOut_input_frames_max", ["max_chunk_size", "resample_ratio_original", "max_relative_ratio", "sinc_len"]),
      ("sincOut_output_delay", ["sinc_len", "resample_ratio"]),
      ("sincOut_needed_reset", ["chunk_size", "resample_ratio", "sinc_len"]),
      ("sincOut_needed_new", ["chunk_size", "resample_ratio", "sinc_len"]),
      ("sincOut_buffer_len_new", ["max_resample_ratio_relative", "needed_input_size", "sinc_len"]),
      ("sincOut_range_test", ["new_ratio", "resample_ratio_original", "max_relative_ratio"])] := rfl

end Rubato.FormulaTie
