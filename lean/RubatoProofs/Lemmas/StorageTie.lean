/-
Tie A for storage and buffer maintenance (translator items G13, G14): the lengths the model's constructors allocate and the
ranges its `refill` moves ARE the ones in the Rust source, regenerated on every run.  The sufficiency lemmas at the end are
what makes the allocated lengths enough; they are stated about the regenerated formulas, so a constructor that allocates
less (or a call that moves more) no longer proves them.
-/
import RubatoModel.Async
import RubatoModel.Fft

namespace Rubato.StorageTie
open Rubato Rubato.Gen

variable {ρ σ : Type} [RNum ρ] [SNum ρ σ]

/-! ### G13: constructor storage -/

theorem fastIn_buffer (chunk : Nat) :
    chunk + 2 * Fast.polyLen = Storage.fastIn_buffer_len (ρ := ρ) chunk := rfl
theorem sincIn_buffer (chunk L : Nat) :
    chunk + 2 * L = Storage.sincIn_buffer_len (ρ := ρ) chunk L := rfl
theorem fftIn_input_buffer (chunk fi : Nat) :
    chunk + fi = Storage.fftIn_input_buffer_len (ρ := ρ) chunk fi := rfl
theorem fftOut_output_buffer (chunk fo : Nat) :
    chunk + fo = Storage.fftOut_output_buffer_len (ρ := ρ) chunk fo := rfl
theorem overlap_lengths (fo : Nat) :
    Storage.fftIo_overlap_len (ρ := ρ) fo = fo ∧ Storage.fftIn_overlap_len (ρ := ρ) fo = fo ∧
      Storage.fftOut_overlap_len (ρ := ρ) fo = fo := ⟨rfl, rfl, rfl⟩

/-- the storage formulas read the constructor arguments one expects (a wrong-field slip keeps a positional `rfl` true) -/
theorem storage_formulas_read_the_expected_locals :
    Storage.storageParams =
      [("fastIn_buffer_len", ["chunk_size"]),
       ("sincIn_buffer_len", ["chunk_size", "sinc_len"]),
       ("fftIo_overlap_len", ["fft_size_out"]),
       ("fftOut_overlap_len", ["fft_size_out"]),
       ("fftOut_output_buffer_len", ["chunk_size_out", "fft_size_out"]),
       ("fftIn_overlap_len", ["fft_size_out"]),
       ("fftIn_input_buffer_len", ["chunk_size_in", "fft_size_in"])] := by decide

/-- the constructors of the model allocate exactly that (fixed-input asynchronous types) -/
theorem asyncIn_init_buffer (kind : AKind) (ratio maxRel : ρ) (deg : Degree) (sint : SincInterp) (ip : Interp σ)
    (chunk nch : Nat) (s : AState ρ σ) (hk : kind.isFixedIn = true)
    (h : AState.init kind ratio maxRel deg sint ip chunk nch = .ok s) :
    s.buf = zeroBuf nch (if kind.isSinc then Storage.sincIn_buffer_len (ρ := ρ) chunk ip.len
                         else Storage.fastIn_buffer_len (ρ := ρ) chunk) := by
  unfold AState.init at h
  split at h
  · cases h
  · simp only [hk, if_true] at h
    cases h
    by_cases hs : kind.isSinc = true <;> simp [hs, Storage.sincIn_buffer_len, Storage.fastIn_buffer_len]

/-! ### G13: the allocated lengths are enough -/

/-- FftFixedIn: with fewer than one block carried over (the invariant of `Fft/Storage`), a whole request fits behind it. -/
theorem fftIn_input_fits (chunk fi saved : Nat) (h : saved < fi) :
    saved + chunk ≤ Storage.fftIn_input_buffer_len (ρ := ρ) chunk fi := by
  unfold Storage.fftIn_input_buffer_len; omega

/-- FftFixedOut: the blocks needed to complete a chunk (`ceil((chunk - saved)/fft_size_out)` of them) fit behind the frames
carried over. -/
theorem fftOut_output_fits (chunk fo saved : Nat) (hfo : 0 < fo) (hs : saved ≤ chunk) :
    saved + ((chunk - saved + fo - 1) / fo) * fo ≤ Storage.fftOut_output_buffer_len (ρ := ρ) chunk fo := by
  unfold Storage.fftOut_output_buffer_len
  have := Nat.div_mul_le_self (chunk - saved + fo - 1) fo
  omega

/-- fixed-input asynchronous types: the history kept (two filter lengths) plus one chunk is the whole buffer -/
theorem asyncIn_load_fits (chunk L : Nat) :
    Refill.sincIn_load_to (ρ := ρ) L chunk ≤ Storage.sincIn_buffer_len (ρ := ρ) chunk L ∧
      Refill.fastIn_load_to (ρ := ρ) chunk ≤ Storage.fastIn_buffer_len (ρ := ρ) chunk := by
  unfold Refill.sincIn_load_to Storage.sincIn_buffer_len Refill.fastIn_load_to Storage.fastIn_buffer_len
  omega

/-! ### G14: history carry and input load -/

/-- FastFixedIn: `copy_within(chunk .. chunk + 2L, 0)`, load at `2L .. 2L + chunk` from the first `chunk` input frames -/
theorem fastIn_refill (chunk : Nat) :
    Refill.fastIn_carry_from (ρ := ρ) chunk = chunk ∧
    Refill.fastIn_carry_to (ρ := ρ) chunk = chunk + 2 * Fast.polyLen ∧
    Refill.fastIn_carry_dest (ρ := ρ) = 0 ∧
    Refill.fastIn_load_from (ρ := ρ) = 2 * Fast.polyLen ∧
    Refill.fastIn_load_to (ρ := ρ) chunk = 2 * Fast.polyLen + chunk ∧
    Refill.fastIn_load_len (ρ := ρ) chunk = chunk := ⟨rfl, rfl, rfl, rfl, rfl, rfl⟩

theorem fastOut_refill (fill needed : Nat) :
    Refill.fastOut_carry_from (ρ := ρ) fill = fill ∧
    Refill.fastOut_carry_to (ρ := ρ) fill = fill + 2 * Fast.polyLen ∧
    Refill.fastOut_carry_dest (ρ := ρ) = 0 ∧
    Refill.fastOut_load_from (ρ := ρ) = 2 * Fast.polyLen ∧
    Refill.fastOut_load_to (ρ := ρ) needed = 2 * Fast.polyLen + needed ∧
    Refill.fastOut_load_len (ρ := ρ) needed = needed := ⟨rfl, rfl, rfl, rfl, rfl, rfl⟩

theorem sincIn_refill (fill chunk L : Nat) :
    Refill.sincIn_carry_from (ρ := ρ) fill = fill ∧
    Refill.sincIn_carry_to (ρ := ρ) fill L = fill + 2 * L ∧
    Refill.sincIn_carry_dest (ρ := ρ) = 0 ∧
    Refill.sincIn_load_from (ρ := ρ) L = 2 * L ∧
    Refill.sincIn_load_to (ρ := ρ) L chunk = 2 * L + chunk ∧
    Refill.sincIn_load_len (ρ := ρ) chunk = chunk := ⟨rfl, rfl, rfl, rfl, rfl, rfl⟩

theorem sincOut_refill (fill needed L : Nat) :
    Refill.sincOut_carry_from (ρ := ρ) fill = fill ∧
    Refill.sincOut_carry_to (ρ := ρ) fill L = fill + 2 * L ∧
    Refill.sincOut_carry_dest (ρ := ρ) = 0 ∧
    Refill.sincOut_load_from (ρ := ρ) L = 2 * L ∧
    Refill.sincOut_load_to (ρ := ρ) L needed = 2 * L + needed ∧
    Refill.sincOut_load_len (ρ := ρ) needed = needed := ⟨rfl, rfl, rfl, rfl, rfl, rfl⟩

/-- the buffer-maintenance formulas read the fields one expects (`chunk_size` only on FastFixedIn, `current_buffer_fill`
elsewhere; the load length is what `input_frames_next()` reports) -/
theorem refill_formulas_read_the_expected_fields :
    Refill.refillParams =
      [("fastIn_carry_from", ["chunk_size"]), ("fastIn_carry_to", ["chunk_size"]), ("fastIn_carry_dest", []),
       ("fastIn_load_from", []), ("fastIn_load_to", ["chunk_size"]), ("fastIn_load_len", ["chunk_size"]),
       ("fastOut_carry_from", ["current_buffer_fill"]), ("fastOut_carry_to", ["current_buffer_fill"]),
       ("fastOut_carry_dest", []), ("fastOut_load_from", []), ("fastOut_load_to", ["needed_input_size"]),
       ("fastOut_load_len", ["needed_input_size"]),
       ("sincIn_carry_from", ["current_buffer_fill"]), ("sincIn_carry_to", ["current_buffer_fill", "sinc_len"]),
       ("sincIn_carry_dest", []), ("sincIn_load_from", ["sinc_len"]), ("sincIn_load_to", ["sinc_len", "chunk_size"]),
       ("sincIn_load_len", ["chunk_size"]),
       ("sincOut_carry_from", ["current_buffer_fill"]), ("sincOut_carry_to", ["current_buffer_fill", "sinc_len"]),
       ("sincOut_carry_dest", []), ("sincOut_load_from", ["sinc_len"]),
       ("sincOut_load_to", ["sinc_len", "needed_input_size"]), ("sincOut_load_len", ["needed_input_size"])] := by decide

omit [SNum ρ σ] in
/-- the model's `refill` is called with exactly these: history from `shiftFrom`, `2L` frames, to the front; `minIn` new
frames behind them -/
theorem model_refill_arguments (s : AState ρ σ) :
    s.shiftFrom = (match s.kind with
      | .fastIn => Refill.fastIn_carry_from (ρ := ρ) s.chunk
      | .fastOut => Refill.fastOut_carry_from (ρ := ρ) s.fill
      | .sincIn => Refill.sincIn_carry_from (ρ := ρ) s.fill
      | .sincOut => Refill.sincOut_carry_from (ρ := ρ) s.fill) ∧
    s.minIn = (match s.kind with
      | .fastIn => Refill.fastIn_load_len (ρ := ρ) s.chunk
      | .fastOut => Refill.fastOut_load_len (ρ := ρ) s.needed
      | .sincIn => Refill.sincIn_load_len (ρ := ρ) s.chunk
      | .sincOut => Refill.sincOut_load_len (ρ := ρ) s.needed) := by
  cases hk : s.kind <;> simp [AState.shiftFrom, AState.minIn, hk, AKind.isFixedIn,
    Refill.fastIn_carry_from, Refill.fastOut_carry_from, Refill.sincIn_carry_from, Refill.sincOut_carry_from,
    Refill.fastIn_load_len, Refill.fastOut_load_len, Refill.sincIn_load_len, Refill.sincOut_load_len]

end Rubato.StorageTie

/-! ### G15: data movement of the synchronous resamplers -/
namespace Rubato.StorageTie
open Rubato Rubato.Gen
variable {ρ : Type} [RNum ρ]

/-- FftFixedInOut: the unit reads `chunk_size_in` frames of the caller's input, writes `chunk_size_out` frames of the caller's
output, and those two counts are what the call reports (model: `p.2.take s.chunkIn`, `o.take s.chunkOut`, `nIn`, `nOut`) -/
theorem fftIo_moves (ci co : Nat) :
    Moves.fftIo_unit_in_len (ρ := ρ) ci = ci ∧ Moves.fftIo_unit_out_len (ρ := ρ) co = co ∧
    Moves.fftIo_ret_in (ρ := ρ) ci = ci ∧ Moves.fftIo_ret_out (ρ := ρ) co = co := ⟨rfl, rfl, rfl, rfl⟩

/-- FftFixedIn: the request is stored behind the `saved` carried-over frames (model: `overlay store s.saved (inp.take
s.chunkIn)`), `nReady` blocks of `fft_in` frames are processed into blocks of `fft_out` frames, the rest
(`nextSaved - nReady*fft_in` frames from position `nReady*fft_in`) moves to the front; reported: `chunk_in`, `neededLen` -/
theorem fftIn_moves (saved ci fi fo nextSaved nReady used neededLen extra : Nat) :
    Moves.fftIn_copy_at (ρ := ρ) saved = saved ∧ Moves.fftIn_copy_len (ρ := ρ) ci = ci ∧
    Moves.fftIn_saved_after_copy (ρ := ρ) nextSaved = nextSaved ∧
    Moves.fftIn_block_in (ρ := ρ) fi = fi ∧ Moves.fftIn_blocks (ρ := ρ) nReady = nReady ∧
    Moves.fftIn_block_out (ρ := ρ) fo = fo ∧
    Moves.fftIn_frames_in_used (ρ := ρ) nReady fi = nReady * fi ∧
    Moves.fftIn_extra (ρ := ρ) nextSaved used = nextSaved - used ∧
    Moves.fftIn_carry_cond (ρ := ρ) nextSaved used = decide (nextSaved > used) ∧
    Moves.fftIn_carry_from (ρ := ρ) used = used ∧ Moves.fftIn_carry_to (ρ := ρ) nextSaved = nextSaved ∧
    Moves.fftIn_carry_dest (ρ := ρ) = 0 ∧ Moves.fftIn_saved_final (ρ := ρ) extra = extra ∧
    Moves.fftIn_ret_in (ρ := ρ) ci = ci ∧ Moves.fftIn_ret_out (ρ := ρ) neededLen = neededLen :=
  ⟨rfl, rfl, rfl, rfl, rfl, rfl, rfl, rfl, rfl, rfl, rfl, rfl, rfl, rfl, rfl⟩

/-- FftFixedOut: `frames_needed` input frames are cut into blocks of `fft_in`, their output blocks are staged from position
`saved`; `processed = saved + fft_out * (frames_needed / fft_in)`; a chunk is delivered iff `processed ≥ chunk_out`, then
`chunk_out` frames go to the caller and the `processed - chunk_out` behind them move to the front; reported:
the `frames_needed` of before the call and `chunk_out` -/
theorem fftOut_moves (saved fi fo needed co processed saved' used : Nat) :
    Moves.fftOut_in_len (ρ := ρ) needed = needed ∧ Moves.fftOut_block_in (ρ := ρ) fi = fi ∧
    Moves.fftOut_store_at (ρ := ρ) saved = saved ∧ Moves.fftOut_block_out (ρ := ρ) fo = fo ∧
    Moves.fftOut_processed (ρ := ρ) saved fo needed fi = saved + fo * (needed / fi) ∧
    Moves.fftOut_deliver_cond (ρ := ρ) processed co = decide (processed ≥ co) ∧
    Moves.fftOut_saved_delivered (ρ := ρ) processed co = processed - co ∧
    Moves.fftOut_saved_kept (ρ := ρ) processed = processed ∧
    Moves.fftOut_out_len (ρ := ρ) co = co ∧ Moves.fftOut_out_src_len (ρ := ρ) co = co ∧
    Moves.fftOut_carry_from (ρ := ρ) co = co ∧ Moves.fftOut_carry_to (ρ := ρ) co saved' = co + saved' ∧
    Moves.fftOut_carry_dest (ρ := ρ) = 0 ∧
    Moves.fftOut_used (ρ := ρ) needed = needed ∧ Moves.fftOut_ret_in (ρ := ρ) used = used ∧
    Moves.fftOut_ret_out (ρ := ρ) co = co :=
  ⟨rfl, rfl, rfl, rfl, rfl, rfl, rfl, rfl, rfl, rfl, rfl, rfl, rfl, rfl, rfl, rfl⟩

/-- the data-movement formulas read the fields / locals one expects -/
theorem move_formulas_read_the_expected_fields :
    Moves.moveParams =
      [("fftIo_unit_in_len", ["chunk_size_in"]), ("fftIo_unit_out_len", ["chunk_size_out"]),
       ("fftIo_ret_in", ["chunk_size_in"]), ("fftIo_ret_out", ["chunk_size_out"]),
       ("fftIn_copy_at", ["saved_frames"]), ("fftIn_copy_len", ["chunk_size_in"]),
       ("fftIn_saved_after_copy", ["next_saved_frames"]), ("fftIn_block_in", ["fft_size_in"]),
       ("fftIn_blocks", ["nbr_chunks_ready"]), ("fftIn_block_out", ["fft_size_out"]),
       ("fftIn_frames_in_used", ["nbr_chunks_ready", "fft_size_in"]), ("fftIn_extra", ["saved_frames", "frames_in_used"]),
       ("fftIn_carry_cond", ["saved_frames", "frames_in_used"]), ("fftIn_carry_from", ["frames_in_used"]),
       ("fftIn_carry_to", ["saved_frames"]), ("fftIn_carry_dest", []), ("fftIn_saved_final", ["extra"]),
       ("fftIn_ret_in", ["chunk_size_in"]), ("fftIn_ret_out", ["needed_len"]),
       ("fftOut_in_len", ["frames_needed"]), ("fftOut_block_in", ["fft_size_in"]), ("fftOut_store_at", ["saved_frames"]),
       ("fftOut_block_out", ["fft_size_out"]),
       ("fftOut_processed", ["saved_frames", "fft_size_out", "frames_needed", "fft_size_in"]),
       ("fftOut_deliver_cond", ["processed_frames", "chunk_size_out"]),
       ("fftOut_saved_delivered", ["processed_frames", "chunk_size_out"]), ("fftOut_out_len", ["chunk_size_out"]),
       ("fftOut_out_src_len", ["chunk_size_out"]), ("fftOut_carry_from", ["chunk_size_out"]),
       ("fftOut_carry_to", ["chunk_size_out", "saved_frames"]), ("fftOut_carry_dest", []),
       ("fftOut_saved_kept", ["processed_frames"]), ("fftOut_used", ["frames_needed"]),
       ("fftOut_ret_in", ["input_frames_used"]), ("fftOut_ret_out", ["chunk_size_out"])] := by decide

end Rubato.StorageTie

/-! ### G17: what the constructors reject -/
namespace Rubato.CtorTie
open Rubato Rubato.Gen

theorem lit_zero_rat : (RNum.lit 0x0000000000000000 0 1 : Rat) = RNum.zero := by
  show ((0 : Nat) : Rat) / ((1 : Nat) : Rat) = ((0 : Int) : Rat)
  decide +kernel

/-- [every instance] the relative-ratio test of the constructors -/
theorem invalid_relative_is_generated {ρ : Type} [RNum ρ] (m : ρ) :
    RNum.lt m RNum.one = Ctor.ctor_invalid_relative m := rfl

/-- [exact] the model's `validateRatios` is the regenerated decision list -/
theorem validateRatios_is_generated (r m : Rat) :
    validateRatios r m =
      (if Ctor.ctor_invalid_ratio r then .error .invalidRatio
       else if Ctor.ctor_invalid_relative m then .error .invalidRelativeRatio else .ok ()) := by
  unfold validateRatios Ctor.ctor_invalid_ratio Ctor.ctor_invalid_relative
  rw [lit_zero_rat]
  rfl

/-- the sample-rate test of the synchronous constructors -/
theorem invalid_rates_is_generated (ri ro : Nat) :
    (ri = 0 ∨ ro = 0) ↔ Ctor.ctor_invalid_rates (ρ := Rat) ri ro = true := by
  simp [Ctor.ctor_invalid_rates]

theorem constructors_validate_first : ∀ e ∈ Ctor.ctorValidatesFirst, e.2 = 1 := by decide
theorem constructors_validate_first_all : Ctor.ctorValidatesFirst.map (·.1) = [0, 1, 2, 3, 4, 5, 6] := by decide
end Rubato.CtorTie

/-! ### G18: what an asynchronous call reports and leaves behind -/
namespace Rubato.StorageTie
open Rubato Rubato.Gen
variable {ρ : Type} [RNum ρ]

/-- after every asynchronous call the ratio is the target (a ramp lasts exactly one call); the fixed-input types report
`(chunk_size, n)` with `n` the frame counter of the loop, the fixed-output types `(input_frames_used, chunk_size)` where
`input_frames_used` is `needed_input_size` read BEFORE the next request is computed (the order is checked on the text) -/
theorem async_tail (target : ρ) (chunk n used needed : Nat) :
    Tail.fastIn_ratio_after target = target ∧ Tail.fastOut_ratio_after target = target ∧
    Tail.sincIn_ratio_after target = target ∧ Tail.sincOut_ratio_after target = target ∧
    Tail.fastIn_ret_in (ρ := ρ) chunk = chunk ∧ Tail.fastIn_ret_out (ρ := ρ) n = n ∧
    Tail.sincIn_ret_in (ρ := ρ) chunk = chunk ∧ Tail.sincIn_ret_out (ρ := ρ) n = n ∧
    Tail.fastOut_ret_in (ρ := ρ) used = used ∧ Tail.fastOut_ret_out (ρ := ρ) chunk = chunk ∧
    Tail.fastOut_used (ρ := ρ) needed = needed ∧
    Tail.sincOut_ret_in (ρ := ρ) used = used ∧ Tail.sincOut_ret_out (ρ := ρ) chunk = chunk ∧
    Tail.sincOut_used (ρ := ρ) needed = needed :=
  ⟨rfl, rfl, rfl, rfl, rfl, rfl, rfl, rfl, rfl, rfl, rfl, rfl, rfl, rfl⟩

theorem tail_formulas_read_the_expected_fields :
    Tail.tailParams =
      [("fastIn_ratio_after", ["target_ratio"]), ("fastIn_ret_in", ["chunk_size"]), ("fastIn_ret_out", ["n"]),
       ("fastOut_ratio_after", ["target_ratio"]), ("fastOut_ret_in", ["input_frames_used"]),
       ("fastOut_ret_out", ["chunk_size"]), ("fastOut_used", ["needed_input_size"]),
       ("sincIn_ratio_after", ["target_ratio"]), ("sincIn_ret_in", ["chunk_size"]), ("sincIn_ret_out", ["n"]),
       ("sincOut_ratio_after", ["target_ratio"]), ("sincOut_ret_in", ["input_frames_used"]),
       ("sincOut_ret_out", ["chunk_size"]), ("sincOut_used", ["needed_input_size"])] := by decide

end Rubato.StorageTie
