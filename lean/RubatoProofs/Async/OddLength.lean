/-
Findings D18, D19 and D20, witnessed on the model: a user-supplied `SincInterpolator` whose length is not
a multiple of 8 (`make_interpolator` always rounds up to a multiple of 8, `new_with_interpolator`
takes whatever length the object reports).

* D18: `SincFixedIn` with an interpolator of length 1 panics on a valid call at constant ratio.
  `last_index` starts at `−(1/2) = 0`, the first call carries `idx − chunk = −3` over, but only
  `2·L = 2` frames of history are kept: the first position of the second call has buffer index `−1`.
* D19: `SincFixedOut` with an interpolator of odd length reads one frame that was not supplied:
  the constructor (and `reset`) ask for `⌈chunk/ratio⌉ + L/2` frames with a truncating `L/2`, while
  the window of the last position reaches `L − L/2` frames beyond `⌈chunk/ratio⌉ − L/2 + …`.

* D20: `SincFixedOut` with an interpolator of length 1 panics on its FIRST valid call when the output chunk is shorter
  than the ratio (request 1 frame, buffer 4).

All statements are closed terms over `ℚ`, checked by kernel evaluation.
-/
import RubatoProofs.Async.FixedIn
import RubatoProofs.Async.FixedOut
import RubatoModel.SincTable

namespace Rubato.OddLength
open Rubato

/-! ### helpers -/

def isPanic {α : Type} : Outcome α → Bool
  | .panic _ => true
  | _ => false

/-- the site of a panic -/
def panicSite {α : Type} : Outcome α → Option String
  | .panic m => some m
  | _ => none

/-- what a successful call reports, without the samples: `(nIn, nOut, stale)` -/
def okSummary : Outcome (CallOut ℚ) → Option (ℕ × ℕ × Bool)
  | .ok o => some (o.nIn, o.nOut, o.stale)
  | _ => none

/-- the call of the histories below: exactly `input_frames_next()` zero frames per channel, output
room `output_frames_max()`, no mask -/
def zeroArgs (s : AState ℚ ℚ) : CallArgs ℚ :=
  { input := List.replicate s.nch (Array.replicate s.inputFramesNext 0),
    outLens := List.replicate s.nch s.outputFramesMax,
    mask := none }

/-- state after `k` such calls (whatever they end in) -/
def after : ℕ → AState ℚ ℚ → AState ℚ ℚ
  | 0, s => s
  | k + 1, s => after k (s.process (zeroArgs s)).1

/-- outcome of call number `k + 1` of the history -/
def outcomeOf (k : ℕ) (s : AState ℚ ℚ) : Outcome (CallOut ℚ) :=
  let s' := after k s
  (s'.process (zeroArgs s')).2

/-! ### D18: `SincFixedIn`, interpolator length 1

`SincFixedIn`, one channel, ratio 4, `max_resample_ratio_relative = 1`, chunk 8, linear interpolation
between 2 sub-filters, probe interpolator of length `len`. -/

def d18State (len : ℕ) (last : ℚ) : AState ℚ ℚ :=
  { kind := .sincIn, nch := 1, chunk := 8, maxChunk := 8, needed := 0, fill := 8,
    lastIndex := last, ratio := 4, orig := 4, target := 4, maxRel := 1, L := len,
    deg := .cubic, sint := .linear, ip := probeInterp (ρ := ℚ) len 2,
    buf := zeroBuf 1 (8 + 2 * len), mask := [true] }

/-- length 1: `last_index = −(1/2) = 0` -/
def d18S0 : AState ℚ ℚ := d18State 1 0

/-- control, length 2: `last_index = −1` -/
def d18C0 : AState ℚ ℚ := d18State 2 (-1)

/-- D18: the constructor accepts the length-1 interpolator -/
theorem d18_init :
    AState.init .sincIn (4 : ℚ) 1 .cubic SincInterp.linear (probeInterp (ρ := ℚ) 1 2) 8 1 = .ok d18S0 := by
  simp [AState.init, validateRatios, d18S0, d18State, AKind.isSinc, AKind.isFixedIn, probeInterp]
  norm_num

/-- control: the constructor accepts the length-2 interpolator -/
theorem d18_init_control :
    AState.init .sincIn (4 : ℚ) 1 .cubic SincInterp.linear (probeInterp (ρ := ℚ) 2 2) 8 1 = .ok d18C0 := by
  simp [AState.init, validateRatios, d18C0, d18State, AKind.isSinc, AKind.isFixedIn, probeInterp]
  norm_num

/-- D18: the calls are valid: 8 frames in, room for `output_frames_max() = 42` frames out -/
theorem d18_args : d18S0.inputFramesNext = 8 ∧ d18S0.outputFramesMax = 42 ∧
    (after 1 d18S0).inputFramesNext = 8 ∧ (after 1 d18S0).outputFramesNext = 42 := by
  decide +kernel

/-- D18: the FIRST call succeeds (20 frames out, nothing stale) and carries `last_index = −3` over -/
theorem d18_first_call_ok :
    okSummary (outcomeOf 0 d18S0) = some (8, 20, false) ∧ (after 1 d18S0).lastIndex = -3 := by
  decide +kernel

/-- D18: the first position of the second call is `−3 + 1/4`; its two points have index `−3`, i.e.
buffer index `−3 + 2·L = −1`: the assertion of `get_sinc_interpolated` fails -/
theorem d18_first_position :
    nearestTimes .linear (-3 + 1 / 4 : ℚ) 2 = [(-3, 0), (-3, 1)] ∧
    sincPointOk (probeInterp (ρ := ℚ) (σ := ℚ) 1 2) 10 1 (-3, 0) = false ∧
    (posFault (after 1 d18S0) 10 (-3 + 1 / 4 : ℚ)).map panicSite = some (some "get_sinc_interpolated") := by
  decide +kernel

/-- **D18.**  The SECOND call of the history "process 8 zero frames, output room `output_frames_max()`"
at constant ratio panics in `get_sinc_interpolated`. -/
theorem d18_second_call_panics :
    panicSite (outcomeOf 1 d18S0) = some "get_sinc_interpolated" := by
  decide +kernel

/-- D18 in the `isPanic` form -/
theorem d18_panics : isPanic (outcomeOf 1 d18S0) = true := by
  decide +kernel

/-- D18: the state is left as it was, so every later call panics too -/
theorem d18_later_calls_panic :
    isPanic (outcomeOf 2 d18S0) = true ∧ isPanic (outcomeOf 3 d18S0) = true := by
  decide +kernel

/-- control: with length 2 the first four calls of the same history succeed, 32 frames each
(the first one 20), nothing stale -/
theorem d18_control_ok :
    okSummary (outcomeOf 0 d18C0) = some (8, 20, false) ∧
    okSummary (outcomeOf 1 d18C0) = some (8, 32, false) ∧
    okSummary (outcomeOf 2 d18C0) = some (8, 32, false) ∧
    okSummary (outcomeOf 3 d18C0) = some (8, 32, false) := by
  decide +kernel

/-! ### D19: `SincFixedOut`, odd interpolator length

`SincFixedOut`, one channel, ratio 1/4, `max_resample_ratio_relative = 1`, chunk 16, quadratic
interpolation between 16 sub-filters, probe interpolator of length `len`. -/

def d19State (len needed bufLen : ℕ) : AState ℚ ℚ :=
  { kind := .sincOut, nch := 1, chunk := 16, maxChunk := 16, needed := needed, fill := needed,
    lastIndex := -((len / 2 : ℕ) : ℚ), ratio := 1 / 4, orig := 1 / 4, target := 1 / 4, maxRel := 1, L := len,
    deg := .cubic, sint := .quadratic, ip := probeInterp (ρ := ℚ) len 16,
    buf := zeroBuf 1 bufLen, mask := [true] }

/-- length 9: `needed = ⌈16/(1/4)⌉ + 9/2 = 68`, buffer `2·68 + 18 = 154` -/
def d19S0 : AState ℚ ℚ := d19State 9 68 154

/-- control, length 8: `needed = 64 + 4 = 68`, buffer `2·68 + 16 = 152` -/
def d19C0 : AState ℚ ℚ := d19State 8 68 152

theorem d19_needed : neededInit 16 (1 / 4 : ℚ) 9 = 68 ∧ bufLenOut (1 : ℚ) 68 9 = 154 ∧
    neededInit 16 (1 / 4 : ℚ) 8 = 68 ∧ bufLenOut (1 : ℚ) 68 8 = 152 := by
  decide +kernel

/-- D19: the constructor accepts the length-9 interpolator -/
theorem d19_init :
    AState.init .sincOut (1 / 4 : ℚ) 1 .cubic SincInterp.quadratic (probeInterp (ρ := ℚ) 9 16) 16 1 = .ok d19S0 := by
  have hv : validateRatios (1 / 4 : ℚ) 1 = .ok () := by decide +kernel
  simp only [AState.init, hv, AKind.isSinc, AKind.isFixedIn, if_true, Bool.false_eq_true, if_false,
    d19_needed.1, d19_needed.2.1, d19S0, d19State, probeInterp]
  norm_num

/-- control: the constructor accepts the length-8 interpolator -/
theorem d19_init_control :
    AState.init .sincOut (1 / 4 : ℚ) 1 .cubic SincInterp.quadratic (probeInterp (ρ := ℚ) 8 16) 16 1 = .ok d19C0 := by
  have hv : validateRatios (1 / 4 : ℚ) 1 = .ok () := by decide +kernel
  simp only [AState.init, hv, AKind.isSinc, AKind.isFixedIn, if_true, Bool.false_eq_true, if_false,
    d19_needed.2.2.1, d19_needed.2.2.2, d19C0, d19State, probeInterp]
  norm_num

/-- D19: the call is valid: exactly `input_frames_next() = 68` frames in, room for `chunk = 16` out -/
theorem d19_args : d19S0.inputFramesNext = 68 ∧ d19S0.outputFramesMax = 16 ∧
    d19S0.outputFramesNext = 16 := by
  decide +kernel

/-- **D19.**  The FIRST call after construction, given exactly `input_frames_next()` frames, succeeds
and reads a buffer index beyond the frames loaded for it (`stale = true`). -/
theorem d19_first_call_stale :
    okSummary (outcomeOf 0 d19S0) = some (68, 16, true) := by
  decide +kernel

/-- D19: where: the last position of the call is `−4 + 16·4 = 60`; its points are
`(60, 0), (60, 1), (60, 2)`, their window ends at buffer index `60 + 2·9 + 9 = 87`,
the frames loaded end at `2·9 + 68 = 86`: ONE frame was not supplied. -/
theorem d19_last_position :
    stepsOutLast (0 : ℚ) 16 (1 / (1 / 4)) (-4) = 60 ∧
    nearestTimes .quadratic (60 : ℚ) 16 = [(60, 0), (60, 1), (60, 2)] ∧
    readEnd d19S0 60 = 2 * 9 + 68 + 1 := by
  decide +kernel

/-- D19: the second and third call (again exactly `input_frames_next()` frames: 65, then 64) are not
stale: the defect is in the constructor's (and `reset`'s) `needed_input_size` -/
theorem d19_later_calls_fine :
    okSummary (outcomeOf 1 d19S0) = some (65, 16, false) ∧
    okSummary (outcomeOf 2 d19S0) = some (64, 16, false) := by
  decide +kernel

/-- control: with length 8 the first call reads only supplied frames (`stale = false`); the window of
its last position ends exactly where the loaded frames end -/
theorem d19_control_not_stale :
    okSummary (outcomeOf 0 d19C0) = some (68, 16, false) ∧
    readEnd d19C0 60 = 2 * 8 + 68 := by
  decide +kernel

/-! ### D20: `SincFixedOut`, interpolator length 1, output chunk shorter than the ratio

`SincFixedOut`, one channel, ratio 13, `max_resample_ratio_relative = 1`, chunk 12, linear interpolation between 3
sub-filters, probe interpolator of length `len`.  With length 1 the constructor asks for `⌈12/13⌉ + 1/2 = 1` frame and
allocates `2·1 + 2·1 = 4`; the first position of the first call already violates the assertion `index + len < wave.len()`
of the interpolator. -/

def d20State (len needed bufLen : ℕ) : AState ℚ ℚ :=
  { kind := .sincOut, nch := 1, chunk := 12, maxChunk := 12, needed := needed, fill := needed,
    lastIndex := -((len / 2 : ℕ) : ℚ), ratio := 13, orig := 13, target := 13, maxRel := 1, L := len,
    deg := .cubic, sint := .linear, ip := probeInterp (ρ := ℚ) len 3,
    buf := zeroBuf 1 bufLen, mask := [true] }

theorem d20_needed :
    neededInit 12 (13 : ℚ) 1 = 1 ∧ bufLenOut (1 : ℚ) 1 1 = 4 ∧
    neededInit 12 (13 : ℚ) 2 = 2 ∧ bufLenOut (1 : ℚ) 2 2 = 8 := by
  decide +kernel

/-- length 1 -/
def d20S0 : AState ℚ ℚ := d20State 1 1 4
/-- control, length 2 -/
def d20C0 : AState ℚ ℚ := d20State 2 2 8

/-- D20: the constructor accepts the length-1 interpolator -/
theorem d20_init :
    AState.init .sincOut (13 : ℚ) 1 .cubic SincInterp.linear (probeInterp (ρ := ℚ) 1 3) 12 1 = .ok d20S0 := by
  have hv : validateRatios (13 : ℚ) 1 = .ok () := by decide +kernel
  simp only [AState.init, hv, AKind.isSinc, AKind.isFixedIn, if_true, Bool.false_eq_true, if_false,
    d20_needed.1, d20_needed.2.1, d20S0, d20State, probeInterp]
  norm_num

/-- control: the constructor accepts the length-2 interpolator -/
theorem d20_init_control :
    AState.init .sincOut (13 : ℚ) 1 .cubic SincInterp.linear (probeInterp (ρ := ℚ) 2 3) 12 1 = .ok d20C0 := by
  have hv : validateRatios (13 : ℚ) 1 = .ok () := by decide +kernel
  simp only [AState.init, hv, AKind.isSinc, AKind.isFixedIn, if_true, Bool.false_eq_true, if_false,
    d20_needed.2.2.1, d20_needed.2.2.2, d20C0, d20State, probeInterp]
  norm_num

/-- D20: the call is valid: exactly `input_frames_next() = 1` frame in, room for `output_frames_max() = 12` out -/
theorem d20_args : d20S0.inputFramesNext = 1 ∧ d20S0.outputFramesMax = 12 ∧ d20S0.outputFramesNext = 12 := by
  decide +kernel

/-- **D20.**  The FIRST call after construction panics in `get_sinc_interpolated`. -/
theorem d20_first_call_panics : panicSite (outcomeOf 0 d20S0) = some "get_sinc_interpolated" := by
  decide +kernel

theorem d20_panics : isPanic (outcomeOf 0 d20S0) = true := by
  decide +kernel

/-- control: with length 2 the first four calls of the same history succeed -/
theorem d20_control_ok :
    (okSummary (outcomeOf 0 d20C0)).isSome = true ∧ (okSummary (outcomeOf 1 d20C0)).isSome = true ∧
    (okSummary (outcomeOf 2 d20C0)).isSome = true ∧ (okSummary (outcomeOf 3 d20C0)).isSome = true := by
  decide +kernel

end Rubato.OddLength
