/-
Streaming refinement of the asynchronous resamplers, part 2 (data plane, values):

E  the stream specifications `fastSpec`, `sincSpec` (functions of the zero-extended input stream
   and the global evaluation instant only)
F  `fastValue` on a buffer that holds the stream = `fastSpec` at the global instant
G  `sincValue` on a buffer that holds the stream = `sincSpec` at the global instant
   (for interpolators that only read the `len` taps they are pointed at: `Local`)
-/
import RubatoProofs.Async.Stream1

namespace Rubato.Stream
open Rubato Rubato.Bridge Rubato.Gen

/-! ## E. specifications -/

/-- the polynomial kernel selected by a `PolynomialDegree` -/
def fastKernel (deg : Degree) (x : ℚ) (y : ℕ → ℚ) : ℚ :=
  match (Fast.fastWindow deg).2.2 with
  | .septic => Fast.interp_septic x y
  | .quintic => Fast.interp_quintic x y
  | .cubic => Fast.interp_cubic x y
  | .lin => Fast.interp_lin x y
  | .nearest => y 0

/-- **Specification of the polynomial resamplers**: the output frame evaluated at the global
instant `τ` (in input frames) is the generated kernel applied to `x = τ − ⌊τ⌋` and the samples
`xz (⌊τ⌋ − offset + k)` of the (zero-extended) input stream. -/
def fastSpec (deg : Degree) (xz : ℤ → ℚ) (τ : ℚ) : ℚ :=
  fastKernel deg (τ - (⌊τ⌋ : ℤ)) (fun k => xz (⌊τ⌋ - ((Fast.fastWindow deg).1 : ℤ) + (k : ℤ)))

theorem fastValue_eq_kernel (deg : Degree) (b : Array ℚ) (p : ℚ) :
    fastValue deg b p =
      fastKernel deg (p - (⌊p⌋ : ℤ)) (fun k => b.getD ((fastStart deg p).toNat + k) 0) := rfl

/-- the kernels read only the `width` samples of their window -/
theorem fastKernel_congr (deg : Degree) (x : ℚ) (y y' : ℕ → ℚ)
    (h : ∀ k : ℕ, k < fastWidth deg → y k = y' k) : fastKernel deg x y = fastKernel deg x y' := by
  cases deg <;> simp only [fastWidth, Fast.fastWindow] at h <;>
    simp only [fastKernel, Fast.fastWindow]
  · simp only [Fast.interp_septic]
    rw [h 0 (by norm_num), h 1 (by norm_num), h 2 (by norm_num), h 3 (by norm_num),
      h 4 (by norm_num), h 5 (by norm_num), h 6 (by norm_num), h 7 (by norm_num)]
  · simp only [Fast.interp_quintic]
    rw [h 0 (by norm_num), h 1 (by norm_num), h 2 (by norm_num), h 3 (by norm_num),
      h 4 (by norm_num), h 5 (by norm_num)]
  · simp only [Fast.interp_cubic]
    rw [h 0 (by norm_num), h 1 (by norm_num), h 2 (by norm_num), h 3 (by norm_num)]
  · simp only [Fast.interp_lin]
    rw [h 0 (by norm_num), h 1 (by norm_num)]
  · exact h 0 (by norm_num)

/-- an interpolator that reads only the `len` taps `wave[index .. index+len)` it is pointed at
(true of every implementation: `RubatoProofs/Kernels/Dot.lean`, `*_reads_exactly`) -/
def Local (ip : Interp ℚ) : Prop :=
  ∀ (w w' : Array ℚ) (i i' sub : ℕ),
    (∀ k : ℕ, k < ip.len → w.getD (i + k) 0 = w'.getD (i' + k) 0) → ip.dot w i sub = ip.dot w' i' sub

/-- `len` consecutive frames of the stream, starting at global index `i` -/
def winArr (xz : ℤ → ℚ) (i : ℤ) (len : ℕ) : Array ℚ :=
  Array.ofFn (n := len) fun k => xz (i + ((k : ℕ) : ℤ))

theorem winArr_getD (xz : ℤ → ℚ) (i : ℤ) {len k : ℕ} (h : k < len) :
    (winArr xz i len).getD k 0 = xz (i + (k : ℤ)) := by
  simp [winArr, Array.getD_eq_getD_getElem?, h]

/-- value of one sinc point `(index, subindex)`: the interpolator applied to the `len` frames of
the stream that start at global index `index` -/
def sincPointSpec (ip : Interp ℚ) (xz : ℤ → ℚ) (q : ℤ × ℤ) : ℚ :=
  ip.dot (winArr xz q.1 ip.len) 0 q.2.toNat

/-- the blend selected by a `SincInterpolationType` -/
def sincKernel (sint : SincInterp) (x : ℚ) (y : ℕ → ℚ) : ℚ :=
  match sint with
  | .cubic => Sinc.interp_cubic x y
  | .quadratic => Sinc.interp_quad x y
  | .linear => Sinc.interp_lin x y
  | .nearest => y 0

/-- **Specification of the sinc resamplers**: blend of the interpolator values at the points
`nearestTimes sint τ nbr`, each taken on the stream itself. -/
def sincSpec (sint : SincInterp) (ip : Interp ℚ) (xz : ℤ → ℚ) (τ : ℚ) : ℚ :=
  sincKernel sint (sincFrac τ ip.nbr)
    (fun k => ((nearestTimes sint τ ip.nbr).map (sincPointSpec ip xz)).getD k 0)

theorem sincValue_eq_kernel (sint : SincInterp) (ip : Interp ℚ) (L : ℕ) (b : Array ℚ) (p : ℚ) :
    sincValue sint ip L b p =
      sincKernel sint (sincFrac p ip.nbr)
        (fun k => ((nearestTimes sint p ip.nbr).map
          fun q => ip.dot b (q.1 + 2 * (L : ℤ)).toNat q.2.toNat).getD k 0) := rfl

/-! ## F. polynomial kernels: value = spec -/

/-- If the first `m` cells of `b` hold the stream from global index `base` on, and the window of
position `p` lies inside these cells, the value computed from the buffer is the specification at
the global instant `base + 2·8 + p`. -/
theorem fastValue_eq_spec (deg : Degree) {b : Array ℚ} {m : ℕ} {xz : ℤ → ℚ} {base : ℤ} (p : ℚ)
    (H : Holds b m xz base) (h0 : 0 ≤ fastStart deg p)
    (h1 : fastStart deg p + fastWidth deg ≤ m) :
    fastValue deg b p = fastSpec deg xz (((base + 16 : ℤ) : ℚ) + p) := by
  rw [fastValue_eq_kernel, fastSpec, Int.floor_intCast_add]
  have hx : ((base + 16 : ℤ) : ℚ) + p - ((base + 16 + ⌊p⌋ : ℤ) : ℚ) = p - (⌊p⌋ : ℤ) := by
    push_cast; ring
  rw [hx]
  apply fastKernel_congr
  intro k hk
  have hs := FixedIn.fastStart_eq deg p
  rw [H _ (by omega)]
  congr 1
  push_cast
  omega

/-! ## G. sinc: value = spec -/

theorem wrapSub_add_int (z a sub f : ℤ) :
    wrapSub (z + a) sub f = ((wrapSub a sub f).1 + z, (wrapSub a sub f).2) := by
  unfold wrapSub
  split_ifs <;> simp only [Prod.mk.injEq, and_true] <;> omega

/-- shifting the instant by an integer shifts the indices and keeps the sub-indices -/
theorem nearestTimes_add_int (sint : SincInterp) (z : ℤ) (p : ℚ) (f : ℕ) :
    nearestTimes sint ((z : ℚ) + p) f = (nearestTimes sint p f).map fun q => (q.1 + z, q.2) := by
  have hx : (z : ℚ) + p - ((z + ⌊p⌋ : ℤ) : ℚ) = p - (⌊p⌋ : ℤ) := by push_cast; ring
  cases sint <;>
    simp only [nearestTimes, floor_eq, toInt_intCast, Int.floor_intCast_add, hx, wrapSub_add_int,
      List.map_cons, List.map_nil]
  · -- linear
    split_ifs <;> simp only [List.cons.injEq, Prod.mk.injEq, and_true] <;>
      constructor <;> omega
  · -- nearest
    split_ifs <;> simp only [List.map_cons, List.map_nil, List.cons.injEq, Prod.mk.injEq,
      and_true] <;> omega

theorem sincFrac_add_int (z : ℤ) (p : ℚ) (f : ℕ) : sincFrac ((z : ℚ) + p) f = sincFrac p f := by
  simp only [sincFrac, ofNat_eq, floor_eq]
  have : ((z : ℚ) + p) * (f : ℚ) = ((z * (f : ℤ) : ℤ) : ℚ) + p * f := by push_cast; ring
  rw [this, Int.floor_intCast_add]
  push_cast
  ring

/-- one point: the interpolator on the buffer = the interpolator on the stream -/
theorem sincPoint_eq_spec {ip : Interp ℚ} (hloc : Local ip) (L : ℕ) {b : Array ℚ} {m : ℕ}
    {xz : ℤ → ℚ} {base : ℤ} (H : Holds b m xz base) (q : ℤ × ℤ)
    (h0 : 0 ≤ q.1 + 2 * (L : ℤ)) (h1 : q.1 + 2 * (L : ℤ) + ip.len ≤ m) :
    ip.dot b (q.1 + 2 * (L : ℤ)).toNat q.2.toNat =
      sincPointSpec ip xz (q.1 + (base + 2 * (L : ℤ)), q.2) := by
  unfold sincPointSpec
  apply hloc
  intro k hk
  rw [H _ (by omega), Nat.zero_add, winArr_getD _ _ hk]
  congr 1
  push_cast
  omega

/-- If the first `m` cells of `b` hold the stream from global index `base` on, and all the taps
of position `p` lie inside these cells, the value computed from the buffer is the specification
at the global instant `base + 2·L + p`. -/
theorem sincValue_eq_spec (sint : SincInterp) {ip : Interp ℚ} (hloc : Local ip) (L : ℕ)
    {b : Array ℚ} {m : ℕ} {xz : ℤ → ℚ} {base : ℤ} (p : ℚ) (H : Holds b m xz base)
    (hq : ∀ q ∈ nearestTimes sint p ip.nbr,
      0 ≤ q.1 + 2 * (L : ℤ) ∧ q.1 + 2 * (L : ℤ) + ip.len ≤ m) :
    sincValue sint ip L b p = sincSpec sint ip xz (((base + 2 * (L : ℤ) : ℤ) : ℚ) + p) := by
  rw [sincValue_eq_kernel, sincSpec, sincFrac_add_int, nearestTimes_add_int, List.map_map]
  congr 1
  funext k
  congr 1
  apply List.map_congr_left
  intro q hqm
  obtain ⟨a, b'⟩ := hq q hqm
  exact sincPoint_eq_spec hloc L H q a b'

end Rubato.Stream
