/-
Fixed-INPUT asynchronous resamplers (`.fastIn` = `FastFixedIn`, `.sincIn` = `SincFixedIn`) at exact
arithmetic (ρ = σ = ℚ): the per-call results of `FixedIn.lean` (about `AState.finishIn`) lifted to
whole `AState.process` calls and to arbitrary CONSTANT-RATIO histories.

A  the stages of `process` for a fixed-input resampler
B  `validate_buffers` ⇔ pointwise conditions; the room `process` computes (`fuelOf_ge`)
C  one constant-ratio `finishIn` with the exact state it leaves (`fastIn_finish`, `sincIn_finish`;
   the sinc variant only needs `nbr ≥ 1`, and `nbr ≥ 2` for cubic / quadratic)
D  the invariant `GoodIn`, established by the constructor (`goodIn_init`)
E  a whole call: `ValidCall`, `process_valid_ok`, `process_any` (never a panic / abort),
   `process_ok_iff_valid`
F  `set_chunk_size`, `reset` keep `GoodIn`
G  histories `OpC`, `goodIn_foldl`, headline `fixedIn_constant_ratio_safe`
H  accounting over histories: `no_drift`, `no_drift_init`, `totalIn_valid`, `no_drift_valid`
I  non-vacuity examples (and finding D12 at the level of `process`)

"Machine sizes" assumption (`GoodIn.machine`): `outNextIn maxChunk orig orig ≤ idleFuel = 10^6`.
The model bounds the stepping loop by `idleFuel` when NO channel is active (nothing is written then,
the real loop is bounded by `end_idx` only); the assumption makes that artificial bound irrelevant.
-/
import RubatoProofs.Async.FixedIn
import RubatoProofs.Async.FixedOut
import RubatoProofs.Lemmas.Shape

namespace Rubato.FixedInHistory
open Rubato Rubato.Bridge Rubato.Gen Rubato.FixedIn
open Rubato.FixedOut (AllSize getD_size_of_allSize refill_some updateMask_length
  process_stage_mask_err zeroBuf_allSize zeroLike_allSize firstShort_go_none)

/-! ## A. The stages of `process` for a fixed-input resampler -/

/-- room in the output buffers, as `process` computes it -/
def fuelOf (outLens : List ℕ) (mask : List Bool) : ℕ :=
  match minActiveLen outLens mask with
  | some n => n
  | none => idleFuel

theorem process_stage_validate_err {s : AState ℚ ℚ} {a : CallArgs ℚ} {mask : List Bool} {e : RErr}
    (hk : s.kind.isFixedIn = true)
    (hm : updateMask s.nch a.mask = .ok mask)
    (hv : validateBuffers (a.input.map Array.size) a.outLens mask s.nch s.chunk
      (outNextIn s.chunk s.ratio s.target) = .error e) :
    s.process a = ({ s with mask := mask }, .err e) := by
  unfold AState.process
  simp only [hm, AState.minIn, AState.minOut, hk, if_true, hv]

theorem process_stage_finish {s : AState ℚ ℚ} {a : CallArgs ℚ} {mask : List Bool}
    {buf : Array (Array ℚ)} (hk : s.kind.isFixedIn = true)
    (hm : updateMask s.nch a.mask = .ok mask)
    (hv : validateBuffers (a.input.map Array.size) a.outLens mask s.nch s.chunk
      (outNextIn s.chunk s.ratio s.target) = .ok ())
    (hr : refill ({ s with mask := mask } : AState ℚ ℚ) mask a.input
      (({ s with mask := mask } : AState ℚ ℚ).shiftFrom) s.chunk = some buf) :
    s.process a =
      ({ s with mask := mask, buf := buf, fill := s.chunk } : AState ℚ ℚ).finishIn mask
        (fuelOf a.outLens mask) := by
  unfold AState.process
  simp only [hm, AState.minIn, AState.minOut, hk, if_true, hv, hr, fuelOf]
  rfl


/-! ## B. `validate_buffers`, the room in the output buffers -/

theorem validateBuffers_ok {inLens outLens : List ℕ} {mask : List Bool} {ch minIn minOut : ℕ}
    (h : validateBuffers inLens outLens mask ch minIn minOut = .ok ()) :
    inLens.length = ch ∧ mask.length = ch ∧ firstShort inLens mask minIn = none ∧
      outLens.length = ch ∧ firstShort outLens mask minOut = none := by
  unfold validateBuffers at h
  split at h
  · simp at h
  · rename_i h1
    split at h
    · simp at h
    · rename_i h2
      split at h
      · simp at h
      · rename_i h3
        split at h
        · simp at h
        · rename_i h4
          split at h
          · simp at h
          · rename_i h5
            exact ⟨not_not.1 h1, not_not.1 h2, h3, not_not.1 h4, h5⟩

theorem validateBuffers_of {inLens outLens : List ℕ} {mask : List Bool} {ch minIn minOut : ℕ}
    (h1 : inLens.length = ch) (h2 : mask.length = ch) (h3 : firstShort inLens mask minIn = none)
    (h4 : outLens.length = ch) (h5 : firstShort outLens mask minOut = none) :
    validateBuffers inLens outLens mask ch minIn minOut = .ok () := by
  unfold validateBuffers
  rw [if_neg (not_not.2 h1), if_neg (not_not.2 h2), h3]
  simp only
  rw [if_neg (not_not.2 h4), h5]

/-- converse of `FixedOut.firstShort_go_none` -/
theorem firstShort_go_of (need : ℕ) (lens : List ℕ) (mask : List Bool) (i : ℕ)
    (h : ∀ (j l : ℕ), mask[j]? = some true → lens[j]? = some l → need ≤ l) :
    firstShort.go need lens mask i = none := by
  induction lens generalizing mask i with
  | nil => unfold firstShort.go; rfl
  | cons l0 ls ih =>
    cases mask with
    | nil => unfold firstShort.go; rfl
    | cons m ms =>
      unfold firstShort.go
      have h0 : ¬ ((m && decide (l0 < need)) = true) := by
        cases m with
        | false => simp
        | true =>
          have := h 0 l0 (by simp) (by simp)
          simp only [Bool.true_and, decide_eq_true_eq, not_lt]; exact this
      rw [if_neg h0]
      apply ih
      intro j l a b
      exact h (j + 1) l (by simpa using a) (by simpa using b)

theorem minActive_foldl_ge (need : ℕ) (lens : List ℕ) (mask : List Bool) (i : ℕ) (acc : Option ℕ)
    (h : firstShort.go need lens mask i = none) (hacc : ∀ a, acc = some a → need ≤ a) (n : ℕ)
    (hn : (List.zip lens mask).foldl
      (fun acc p => if p.2 then (match acc with | none => some p.1 | some a => some (min a p.1)) else acc)
      acc = some n) : need ≤ n := by
  induction lens generalizing mask i acc with
  | nil => simp only [List.zip_nil_left, List.foldl_nil] at hn; exact hacc n hn
  | cons l0 ls ih =>
    cases mask with
    | nil => simp only [List.zip_nil_right, List.foldl_nil] at hn; exact hacc n hn
    | cons m ms =>
      unfold firstShort.go at h
      split at h
      · simp at h
      · rename_i hc
        simp only [List.zip_cons_cons, List.foldl_cons] at hn
        refine ih ms (i + 1) _ h ?_ hn
        intro a ha
        cases m with
        | false =>
          simp only [Bool.false_eq_true, if_false] at ha
          exact hacc a ha
        | true =>
          simp only [Bool.true_and, decide_eq_true_eq, not_lt] at hc
          simp only [if_true] at ha
          cases acc with
          | none => simp only [Option.some.injEq] at ha; omega
          | some b =>
            simp only [Option.some.injEq] at ha
            have := hacc b rfl
            omega

/-- the room `process` computes is at least what `validate_buffers` checked -/
theorem fuelOf_ge {need : ℕ} {outLens : List ℕ} {mask : List Bool}
    (h : firstShort outLens mask need = none) (hidle : need ≤ idleFuel) :
    need ≤ fuelOf outLens mask := by
  unfold fuelOf
  cases hm : minActiveLen outLens mask with
  | none => exact hidle
  | some n =>
    simp only
    unfold minActiveLen at hm
    unfold firstShort at h
    exact minActive_foldl_ge need outLens mask 0 none h (by intro a ha; cases ha) n hm


/-! ## C. One constant-ratio `finishIn`, with the exact state it leaves behind -/

/-- generic form of `FixedIn.fastIn_call` / `FixedIn.sincIn_call`: constant ratio, the invariant on
`lastIndex`, enough room, no position fault and no stale read ⇒ the call succeeds; the result and
the new state are given exactly. -/
theorem finishIn_const_call {r : ℚ} (hr : 0 < r) (s : AState ℚ ℚ) (mask : List Bool) (fuel : ℕ)
    (hratio : s.ratio = r) (htarget : s.target = r)
    (hinv : Inv s.L ⌈1 / r⌉ s.lastIndex) (hf : outNextIn s.chunk r r ≤ fuel)
    (hpos : ∀ (i : ℕ) (p : ℚ), i < mask.length →
      p ∈ (callIn s.chunk s.L r r fuel s.lastIndex).1 →
      posFault s (s.buf.getD i #[]).size p = none)
    (hstale : ∀ p ∈ (callIn s.chunk s.L r r fuel s.lastIndex).1,
      ¬ (readEnd s p > 2 * (s.L : ℤ) + s.chunk)) :
    ∃ outs, s.finishIn mask fuel =
      ({ s with lastIndex := nextLast s.chunk s.L r r fuel s.lastIndex, ratio := r },
        .ok { nIn := s.chunk, nOut := nC s.chunk s.L r s.lastIndex, out := outs, stale := false }) := by
  have ht : (0 : ℚ) < 1 / r := by positivity
  have hcnt := count_le hr s.chunk s.L hinv
  have hfuel := no_overrun hr s.chunk s.L hinv hf
  have hst' : ((callIn s.chunk s.L s.ratio s.target fuel s.lastIndex).1.any
      fun p => decide (readEnd s p > 2 * (s.L : ℤ) + s.chunk)) = false := by
    rw [List.any_eq_false]
    intro p hp
    rw [hratio, htarget] at hp
    simpa using hstale p hp
  obtain ⟨outs, hok⟩ := finishIn_succeeds s mask fuel (by rw [hratio, htarget]; exact hfuel)
    (by rw [hratio, htarget]; exact hpos)
  obtain ⟨_, hst, _, _⟩ := finishIn_ok s mask fuel hok
  refine ⟨outs, Prod.ext ?_ ?_⟩
  · rw [hst]; simp only [hratio, htarget]
  · rw [hok, hst']
    simp only [hratio, htarget]
    congr 2
    rw [callIn_const, stepsIn_length_of_fuel ht (le_trans hcnt hf)]
    rfl

/-- the asserts of `get_sinc_interpolated`, with the weakest condition on the oversampling factor:
`nbr ≥ 1`, and `nbr ≥ 2` only for cubic / quadratic interpolation -/
theorem sinc_point_ok' {r : ℚ} (hr : 0 < r) {c waveLen L fuel : ℕ} (hL : 3 ≤ L)
    (hw : c + 2 * L ≤ waveLen)
    {last p : ℚ} (hinv : Inv L ⌈1 / r⌉ last) (hp : p ∈ (callIn c L r r fuel last).1)
    (sint : SincInterp) (ip : Interp ℚ) (hlen : ip.len = L) (hn1 : 1 ≤ ip.nbr)
    (hn2 : sint = .cubic ∨ sint = .quadratic → 2 ≤ ip.nbr) {q : ℤ × ℤ}
    (hq : q ∈ nearestTimes sint p ip.nbr) :
    sincPointOk ip waveLen L q = true := by
  obtain ⟨a1, a2, _⟩ := sinc_index_safe hr hL hinv hp sint ip.nbr hq
  obtain ⟨_, _, b1, b2⟩ := FixedOut.nearestTimes_bounds sint p hn1 hn2 q hq
  simp only [sincPointOk, Bool.and_eq_true, decide_eq_true_eq, hlen]
  refine ⟨⟨⟨a1, by omega⟩, b1⟩, by omega⟩

theorem fastIn_finish {r : ℚ} (hr : 0 < r) (s : AState ℚ ℚ) (mask : List Bool) (fuel : ℕ)
    (hk : s.kind = .fastIn) (hL : s.L = 8) (hratio : s.ratio = r) (htarget : s.target = r)
    (hbuf : ∀ i : ℕ, i < mask.length → s.chunk + 16 ≤ (s.buf.getD i #[]).size)
    (hinv : Inv s.L ⌈1 / r⌉ s.lastIndex) (hf : outNextIn s.chunk r r ≤ fuel) :
    ∃ outs, s.finishIn mask fuel =
      ({ s with lastIndex := nextLast s.chunk s.L r r fuel s.lastIndex, ratio := r },
        .ok { nIn := s.chunk, nOut := nC s.chunk s.L r s.lastIndex, out := outs, stale := false }) := by
  apply finishIn_const_call hr s mask fuel hratio htarget hinv hf
  · intro i p hi hp
    rw [hL] at hp hinv
    obtain ⟨a, b⟩ := fast_read_safe_strong hr hinv hp s.deg
    have := hbuf i hi
    unfold posFault
    rw [hk]
    simp only [AKind.isSinc, Bool.false_eq_true, if_false]
    rw [if_pos]
    constructor <;> omega
  · intro p hp
    rw [hL] at hp hinv
    obtain ⟨a, b⟩ := fast_read_safe_strong hr hinv hp s.deg
    simp only [readEnd, hk, AKind.isSinc, hL]
    simp only [Bool.false_eq_true, if_false, not_lt, gt_iff_lt]
    omega

theorem sincIn_finish {r : ℚ} (hr : 0 < r) (s : AState ℚ ℚ) (mask : List Bool) (fuel : ℕ)
    (hk : s.kind = .sincIn) (hL : 3 ≤ s.L) (hlen : s.ip.len = s.L) (hn1 : 1 ≤ s.ip.nbr)
    (hn2 : s.sint = .cubic ∨ s.sint = .quadratic → 2 ≤ s.ip.nbr)
    (hratio : s.ratio = r) (htarget : s.target = r)
    (hbuf : ∀ i : ℕ, i < mask.length → s.chunk + 2 * s.L ≤ (s.buf.getD i #[]).size)
    (hinv : Inv s.L ⌈1 / r⌉ s.lastIndex) (hf : outNextIn s.chunk r r ≤ fuel) :
    ∃ outs, s.finishIn mask fuel =
      ({ s with lastIndex := nextLast s.chunk s.L r r fuel s.lastIndex, ratio := r },
        .ok { nIn := s.chunk, nOut := nC s.chunk s.L r s.lastIndex, out := outs, stale := false }) := by
  apply finishIn_const_call hr s mask fuel hratio htarget hinv hf
  · intro i p hi hp
    unfold posFault
    rw [hk]
    simp only [AKind.isSinc, if_true]
    rw [if_pos]
    rw [List.all_eq_true]
    intro q hq
    exact sinc_point_ok' hr hL (hbuf i hi) hinv hp s.sint s.ip hlen hn1 hn2 hq
  · intro p hp
    unfold readEnd
    rw [hk]
    simp only [AKind.isSinc, if_true, not_lt, gt_iff_lt]
    apply FixedIn.foldl_max_le
    · omega
    · intro x hx
      simp only [List.mem_map] at hx
      obtain ⟨q, hq, rfl⟩ := hx
      obtain ⟨_, _, a3⟩ := sinc_index_safe hr hL hinv hp s.sint s.ip.nbr hq
      rw [hlen]; omega


/-! ## D. The invariant of a constant-ratio fixed-input resampler -/

/-- Everything a fixed-input resampler (`FastFixedIn`, `SincFixedIn`) satisfies as long as its ratio
is never changed.  `machine` is the "machine sizes" assumption: the advertised output size of the
largest chunk is below the model's idle fuel `10^6` (the fuel is only used when NO channel is
active; real buffers cannot reach that size anyway). -/
structure GoodIn (s : AState ℚ ℚ) : Prop where
  kind : s.kind = .fastIn ∨ s.kind = .sincIn
  orig_pos : 0 < s.orig
  maxRel_ge : 1 ≤ s.maxRel
  ratio_eq : s.ratio = s.orig
  target_eq : s.target = s.orig
  chunk_le : s.chunk ≤ s.maxChunk
  chunk_fast : s.kind = .fastIn → s.chunk = s.maxChunk
  needed : s.needed = 0
  inv : Inv s.L ⌈1 / s.orig⌉ s.lastIndex
  nbuf : s.buf.size = s.nch
  sizes : AllSize s.buf (s.maxChunk + 2 * s.L)
  fill_le : s.fill ≤ s.maxChunk
  fill_fast : s.kind = .fastIn → s.fill = s.chunk
  mask_len : s.mask.length = s.nch
  L_fast : s.kind = .fastIn → s.L = 8
  sinc : s.kind = .sincIn → s.ip.len = s.L ∧ 3 ≤ s.L ∧ 1 ≤ s.ip.nbr ∧
    (s.sint = .cubic ∨ s.sint = .quadratic → 2 ≤ s.ip.nbr)
  machine : outNextIn s.maxChunk s.orig s.orig ≤ idleFuel

namespace GoodIn
variable {s : AState ℚ ℚ}

theorem isFixedIn (h : GoodIn s) : s.kind.isFixedIn = true := by
  rcases h.kind with k | k <;> simp [k, AKind.isFixedIn]

theorem T_nonneg (h : GoodIn s) : (0 : ℤ) ≤ ⌈1 / s.orig⌉ :=
  le_trans (by norm_num) (one_le_T h.orig_pos)

end GoodIn

theorem outNextIn_mono {r : ℚ} (hr : 0 ≤ r) {c c' : ℕ} (h : c ≤ c') :
    outNextIn c r r ≤ outNextIn c' r r := by
  rw [outNextIn_const hr, outNextIn_const hr]
  apply Int.toNat_le_toNat
  apply Int.floor_mono
  have : (c : ℚ) ≤ c' := by exact_mod_cast h
  nlinarith

/-- the constructor establishes `GoodIn` -/
theorem goodIn_init {kind : AKind} (hk : kind = .fastIn ∨ kind = .sincIn) {ratio maxRel : ℚ}
    {deg : Degree} {sint : SincInterp} {ip : Interp ℚ} {chunk nch : ℕ} {s : AState ℚ ℚ}
    (hL3 : kind = .sincIn → 3 ≤ ip.len)
    (hn : kind = .sincIn → 1 ≤ ip.nbr)
    (hn2 : kind = .sincIn → sint = .cubic ∨ sint = .quadratic → 2 ≤ ip.nbr)
    (hmach : outNextIn chunk ratio ratio ≤ idleFuel)
    (h : AState.init kind ratio maxRel deg sint ip chunk nch = .ok s) : GoodIn s := by
  unfold AState.init at h
  split at h
  · simp at h
  · rename_i hv
    unfold validateRatios at hv
    split at hv
    · simp at hv
    · rename_i h1
      split at hv
      · simp at hv
      · rename_i h2
        simp only [le_eq, zero_eq, decide_eq_true_eq, not_le] at h1
        simp only [lt_eq, one_eq, decide_eq_true_eq, not_lt] at h2
        have hfi : kind.isFixedIn = true := by rcases hk with k | k <;> simp [k, AKind.isFixedIn]
        simp only [hfi, if_true, Except.ok.injEq] at h
        subst h
        have hT : (0 : ℤ) ≤ ⌈1 / ratio⌉ := le_trans (by norm_num) (one_le_T h1)
        refine ⟨hk, h1, h2, rfl, rfl, le_rfl, fun _ => rfl, rfl, inv_init _ hT, ?_,
          zeroBuf_allSize _ _, le_rfl, fun _ => rfl, ?_, ?_, ?_, hmach⟩
        · simp [zeroBuf]
        · simp
        · intro k
          have k' : kind = .fastIn := k
          subst k'
          simp [AKind.isSinc, Fast.polyLen]
        · intro k
          have k' : kind = .sincIn := k
          subst k'
          simp only [AKind.isSinc, if_true]
          exact ⟨trivial, hL3 rfl, hn rfl, hn2 rfl⟩


/-! ## E. A whole `process` call -/

theorem shiftFrom_le {s : AState ℚ ℚ} (h : GoodIn s) (mask : List Bool) :
    ({ s with mask := mask } : AState ℚ ℚ).shiftFrom ≤ s.maxChunk := by
  unfold AState.shiftFrom
  rcases h.kind with k | k <;> simp only [k]
  · exact h.chunk_le
  · exact h.fill_le

/-- a call that passed the mask check and `validate_buffers`: it succeeds; the result and the new
state are given exactly -/
theorem process_core {s : AState ℚ ℚ} {a : CallArgs ℚ} {mask : List Bool} (h : GoodIn s)
    (hm : updateMask s.nch a.mask = .ok mask)
    (hv : validateBuffers (a.input.map Array.size) a.outLens mask s.nch s.chunk
      (outNextIn s.chunk s.ratio s.target) = .ok ()) :
    ∃ buf outs fuel, s.process a =
        ({ s with mask := mask, buf := buf, fill := s.chunk,
                  lastIndex := nextLast s.chunk s.L s.orig s.orig fuel s.lastIndex, ratio := s.orig },
          .ok { nIn := s.chunk, nOut := nC s.chunk s.L s.orig s.lastIndex, out := outs,
                stale := false }) ∧
      AllSize buf (s.maxChunk + 2 * s.L) ∧ buf.size = s.nch ∧
      outNextIn s.chunk s.orig s.orig ≤ fuel := by
  have hml := updateMask_length hm
  obtain ⟨_, _, i3, _, i5⟩ := validateBuffers_ok hv
  have hin := firstShort_go_none s.chunk _ mask 0 i3
  have hcl := h.chunk_le
  obtain ⟨buf, hr, hbs, hbn⟩ := refill_some (s := ({ s with mask := mask } : AState ℚ ℚ))
    (B := s.maxChunk + 2 * s.L) h.sizes mask a.input
    (({ s with mask := mask } : AState ℚ ℚ).shiftFrom) s.chunk
    (by have := shiftFrom_le h mask; show _ + 2 * s.L ≤ _; omega)
    (by show 2 * s.L + s.chunk ≤ _; omega)
    (by show mask.length ≤ s.buf.size; rw [h.nbuf, hml])
    (by
      intro j inp h1 h2
      exact hin j inp.size h1 (by rw [List.getElem?_map, h2]; rfl))
  have hbn' : buf.size = s.nch := by rw [hbn]; exact h.nbuf
  rw [process_stage_finish h.isFixedIn hm hv hr]
  have hidle : outNextIn s.chunk s.orig s.orig ≤ idleFuel :=
    le_trans (outNextIn_mono h.orig_pos.le hcl) h.machine
  rw [h.ratio_eq, h.target_eq] at i5
  have hf := fuelOf_ge i5 hidle
  have hbuf : ∀ i : ℕ, i < mask.length → s.chunk + 2 * s.L ≤ (buf.getD i #[]).size := by
    intro i hi
    rw [getD_size_of_allSize hbs (by rw [hbn', ← hml]; exact hi)]; omega
  rcases h.kind with k | k
  · have hL := h.L_fast k
    obtain ⟨outs, hfin⟩ := fastIn_finish h.orig_pos
      ({ s with mask := mask, buf := buf, fill := s.chunk } : AState ℚ ℚ) mask
      (fuelOf a.outLens mask) k hL h.ratio_eq h.target_eq
      (by intro i hi; have := hbuf i hi; rw [hL] at this; exact this) h.inv hf
    exact ⟨buf, outs, _, hfin, hbs, hbn', hf⟩
  · obtain ⟨l1, l2, l3, l4⟩ := h.sinc k
    obtain ⟨outs, hfin⟩ := sincIn_finish h.orig_pos
      ({ s with mask := mask, buf := buf, fill := s.chunk } : AState ℚ ℚ) mask
      (fuelOf a.outLens mask) k l2 l1 l3 l4 h.ratio_eq h.target_eq hbuf h.inv hf
    exact ⟨buf, outs, _, hfin, hbs, hbn', hf⟩


theorem goodIn_with_mask {s : AState ℚ ℚ} (h : GoodIn s) {mask : List Bool}
    (hml : mask.length = s.nch) : GoodIn ({ s with mask := mask } : AState ℚ ℚ) :=
  ⟨h.kind, h.orig_pos, h.maxRel_ge, h.ratio_eq, h.target_eq, h.chunk_le, h.chunk_fast, h.needed,
    h.inv, h.nbuf, h.sizes, h.fill_le, h.fill_fast, hml, h.L_fast, h.sinc, h.machine⟩

/-- the state a successful call leaves behind is `GoodIn` again -/
theorem goodIn_after {s : AState ℚ ℚ} (h : GoodIn s) {mask : List Bool} {buf : Array (Array ℚ)}
    {fuel : ℕ} (hml : mask.length = s.nch) (hbs : AllSize buf (s.maxChunk + 2 * s.L))
    (hbn : buf.size = s.nch) (hf : outNextIn s.chunk s.orig s.orig ≤ fuel) :
    GoodIn ({ s with mask := mask, buf := buf, fill := s.chunk,
                     lastIndex := nextLast s.chunk s.L s.orig s.orig fuel s.lastIndex,
                     ratio := s.orig } : AState ℚ ℚ) :=
  ⟨h.kind, h.orig_pos, h.maxRel_ge, rfl, h.target_eq, h.chunk_le, h.chunk_fast, h.needed,
    inv_preserved' h.orig_pos s.chunk s.L h.inv hf, hbn, hbs, h.chunk_le, fun _ => rfl, hml,
    h.L_fast, h.sinc, h.machine⟩

/-- the mask a call works with: the user's, or all channels active -/
def activeMask (nch : ℕ) (user : Option (List Bool)) : List Bool :=
  user.getD (List.replicate nch true)

/-- what the API asks of the caller: right number of channels (mask, input, output), and every
ACTIVE channel supplies `input_frames_next()` frames and offers `output_frames_next()` frames of
room -/
structure ValidCall (s : AState ℚ ℚ) (a : CallArgs ℚ) : Prop where
  mask_len : ∀ m, a.mask = some m → m.length = s.nch
  in_len : a.input.length = s.nch
  out_len : a.outLens.length = s.nch
  in_size : ∀ (c : ℕ) (inp : Array ℚ), (activeMask s.nch a.mask)[c]? = some true →
    a.input[c]? = some inp → s.chunk ≤ inp.size
  out_size : ∀ (c l : ℕ), (activeMask s.nch a.mask)[c]? = some true →
    a.outLens[c]? = some l → outNextIn s.chunk s.ratio s.target ≤ l

theorem ValidCall.updateMask_ok {s : AState ℚ ℚ} {a : CallArgs ℚ} (hv : ValidCall s a) :
    updateMask s.nch a.mask = .ok (activeMask s.nch a.mask) := by
  unfold updateMask activeMask
  cases hmk : a.mask with
  | none => rfl
  | some m =>
    simp only [Option.getD_some]
    rw [if_neg (not_not.2 (hv.mask_len m hmk))]

theorem activeMask_length {s : AState ℚ ℚ} {a : CallArgs ℚ} (hv : ValidCall s a) :
    (activeMask s.nch a.mask).length = s.nch :=
  updateMask_length hv.updateMask_ok

theorem ValidCall.validate_ok {s : AState ℚ ℚ} {a : CallArgs ℚ} (hv : ValidCall s a) :
    validateBuffers (a.input.map Array.size) a.outLens (activeMask s.nch a.mask) s.nch s.chunk
      (outNextIn s.chunk s.ratio s.target) = .ok () := by
  apply validateBuffers_of
  · rw [List.length_map]; exact hv.in_len
  · exact activeMask_length hv
  · unfold firstShort
    apply firstShort_go_of
    intro j l h1 h2
    rw [List.getElem?_map] at h2
    cases hi : a.input[j]? with
    | none => rw [hi] at h2; simp at h2
    | some inp =>
      rw [hi] at h2
      simp only [Option.map_some, Option.some.injEq] at h2
      subst h2
      exact hv.in_size j inp h1 hi
  · exact hv.out_len
  · unfold firstShort
    apply firstShort_go_of
    exact hv.out_size

theorem updateMask_eq_active {nch : ℕ} {user : Option (List Bool)} {mask : List Bool}
    (hm : updateMask nch user = .ok mask) : mask = activeMask nch user := by
  cases user with
  | none =>
    simp only [updateMask, Except.ok.injEq] at hm
    subst hm; rfl
  | some m =>
    unfold updateMask at hm
    simp only at hm
    split at hm
    · simp at hm
    · simp only [Except.ok.injEq] at hm; subst hm; rfl

/-- conversely, a call that passes the mask check and `validate_buffers` is a `ValidCall` -/
theorem validCall_of {s : AState ℚ ℚ} {a : CallArgs ℚ} {mask : List Bool}
    (hm : updateMask s.nch a.mask = .ok mask)
    (hv : validateBuffers (a.input.map Array.size) a.outLens mask s.nch s.chunk
      (outNextIn s.chunk s.ratio s.target) = .ok ()) : ValidCall s a := by
  obtain ⟨i1, i2, i3, i4, i5⟩ := validateBuffers_ok hv
  have hmask : mask = activeMask s.nch a.mask := updateMask_eq_active hm
  subst hmask
  refine ⟨?_, by simpa using i1, i4, ?_, ?_⟩
  · intro m hmk
    have : activeMask s.nch (some m) = m := rfl
    rw [hmk, this] at i2
    exact i2
  · intro c inp h1 h2
    exact firstShort_go_none s.chunk _ _ 0 i3 c inp.size h1 (by rw [List.getElem?_map, h2]; rfl)
  · exact firstShort_go_none _ _ _ 0 i5

/-- **A valid call**: never panics, aborts or errs; consumes exactly the chunk, writes no more than
`output_frames_next()` (hence no more than `output_frames_max()`), reads only supplied data, and
keeps the invariant.  The last two conjuncts are the exact bookkeeping used for the accounting. -/
theorem process_valid_ok {s : AState ℚ ℚ} {a : CallArgs ℚ} (h : GoodIn s) (hv : ValidCall s a) :
    ∃ out, (s.process a).2 = .ok out ∧ out.nIn = s.chunk ∧
      out.nOut ≤ outNextIn s.chunk s.orig s.orig ∧
      out.nOut ≤ outMaxIn s.maxChunk s.orig s.maxRel ∧ out.stale = false ∧
      GoodIn (s.process a).1 ∧
      (s.process a).1.chunk = s.chunk ∧
      ((s.process a).1.lastIndex + s.chunk = s.lastIndex + (out.nOut : ℚ) * (1 / s.orig)) := by
  obtain ⟨buf, outs, fuel, hp, hbs, hbn, hf⟩ := process_core h hv.updateMask_ok hv.validate_ok
  have hcnt := count_le h.orig_pos s.chunk s.L h.inv
  have hmax : outNextIn s.chunk s.orig s.orig ≤ outMaxIn s.maxChunk s.orig s.maxRel := by
    have hm0 : 0 < s.maxRel := lt_of_lt_of_le one_pos h.maxRel_ge
    apply outNextIn_le_outMaxIn_const h.chunk_le h.orig_pos h.maxRel_ge
    · rw [div_le_iff₀ hm0]; nlinarith [h.orig_pos, h.maxRel_ge]
    · nlinarith [h.orig_pos, h.maxRel_ge]
  rw [hp]
  refine ⟨_, rfl, rfl, hcnt, le_trans hcnt hmax, rfl,
    goodIn_after h (activeMask_length hv) hbs hbn hf, rfl, ?_⟩
  have ht : (0 : ℚ) < 1 / s.orig := by have := h.orig_pos; positivity
  have hf' : nC s.chunk s.L s.orig s.lastIndex ≤ fuel := le_trans hcnt hf
  show nextLast s.chunk s.L s.orig s.orig fuel s.lastIndex + (s.chunk : ℚ) = _
  unfold nextLast
  rw [callIn_const, stepsIn_final ht hf', ofNat_eq]
  unfold nC
  ring

/-- **Any call**, valid or not: the outcome is `Ok` (exactly when the call is valid) or one of the
errors of the mask check / `validate_buffers` — never a panic or an abort; an error changes only
the stored mask; the invariant is kept either way. -/
theorem process_any {s : AState ℚ ℚ} (h : GoodIn s) (a : CallArgs ℚ) :
    GoodIn (s.process a).1 ∧
    ((ValidCall s a ∧ ∃ out, (s.process a).2 = .ok out) ∨
     (¬ ValidCall s a ∧ ∃ e m, (s.process a).2 = .err e ∧
        (s.process a).1 = ({ s with mask := m } : AState ℚ ℚ))) := by
  cases hm : updateMask s.nch a.mask with
  | error e =>
    rw [process_stage_mask_err hm]
    refine ⟨h, Or.inr ⟨?_, e, s.mask, rfl, rfl⟩⟩
    intro hv
    rw [hv.updateMask_ok] at hm
    cases hm
  | ok mask =>
    have hml := updateMask_length hm
    cases hval : validateBuffers (a.input.map Array.size) a.outLens mask s.nch s.chunk
        (outNextIn s.chunk s.ratio s.target) with
    | error e =>
      rw [process_stage_validate_err h.isFixedIn hm hval]
      refine ⟨goodIn_with_mask h hml, Or.inr ⟨?_, e, mask, rfl, rfl⟩⟩
      intro hv
      have h1 := hv.updateMask_ok
      rw [hm] at h1
      simp only [Except.ok.injEq] at h1
      subst h1
      rw [hv.validate_ok] at hval
      cases hval
    | ok u =>
      cases u
      have hv := validCall_of hm hval
      obtain ⟨out, ho, _, _, _, _, hg, _⟩ := process_valid_ok h hv
      exact ⟨hg, Or.inl ⟨hv, out, ho⟩⟩

theorem process_any_keeps_good {s : AState ℚ ℚ} (h : GoodIn s) (a : CallArgs ℚ) :
    GoodIn (s.process a).1 := (process_any h a).1

/-- never a panic, never an out-of-bounds access, whatever the arguments -/
theorem process_never_panics {s : AState ℚ ℚ} (h : GoodIn s) (a : CallArgs ℚ) :
    (∃ out, (s.process a).2 = .ok out) ∨ (∃ e, (s.process a).2 = .err e) := by
  rcases (process_any h a).2 with ⟨_, out, ho⟩ | ⟨_, e, _, he, _⟩
  · exact Or.inl ⟨out, ho⟩
  · exact Or.inr ⟨e, he⟩

/-- the outcome is `Ok` exactly for the valid calls -/
theorem process_ok_iff_valid {s : AState ℚ ℚ} (h : GoodIn s) (a : CallArgs ℚ) :
    (∃ out, (s.process a).2 = .ok out) ↔ ValidCall s a := by
  constructor
  · rintro ⟨out, ho⟩
    rcases (process_any h a).2 with ⟨hv, _⟩ | ⟨_, e, _, he, _⟩
    · exact hv
    · rw [he] at ho; cases ho
  · intro hv
    obtain ⟨out, ho, _⟩ := process_valid_ok h hv
    exact ⟨out, ho⟩


/-! ## F. `set_chunk_size` and `reset` -/

theorem setChunk_fastIn {s : AState ℚ ℚ} (k : s.kind = .fastIn) (n : ℕ) :
    s.setChunk n = (s, .error .chunkNotAdjustable) := by
  unfold AState.setChunk
  cases s
  simp only at k
  subst k
  rfl

theorem setChunk_sincIn {s : AState ℚ ℚ} (k : s.kind = .sincIn) (n : ℕ) :
    s.setChunk n = if n > s.maxChunk || n == 0 then (s, .error (.invalidChunk s.maxChunk n))
      else ({ s with chunk := n }, .ok ()) := by
  unfold AState.setChunk
  cases s
  simp only at k
  subst k
  rfl

theorem goodIn_setChunk {s : AState ℚ ℚ} (h : GoodIn s) (n : ℕ) : GoodIn (s.setChunk n).1 := by
  rcases h.kind with k | k
  · rw [setChunk_fastIn k]; exact h
  · rw [setChunk_sincIn k]
    split
    · exact h
    · rename_i hn
      simp only [Bool.or_eq_true, decide_eq_true_eq, beq_iff_eq, not_or, not_lt] at hn
      have nf : ¬ s.kind = .fastIn := by rw [k]; simp
      exact ⟨h.kind, h.orig_pos, h.maxRel_ge, h.ratio_eq, h.target_eq, hn.1,
        fun k' => absurd k' nf, h.needed, h.inv, h.nbuf, h.sizes, h.fill_le,
        fun k' => absurd k' nf, h.mask_len, h.L_fast, h.sinc, h.machine⟩

/-- `set_chunk_size(n)` of `SincFixedIn` succeeds exactly for `0 < n ≤ max`, and then only the
chunk size changes; otherwise (and always for `FastFixedIn`) nothing changes -/
theorem setChunk_spec {s : AState ℚ ℚ} (h : GoodIn s) (n : ℕ) :
    ((s.setChunk n).2 = .ok () ∧ s.kind = .sincIn ∧ 0 < n ∧ n ≤ s.maxChunk ∧
        (s.setChunk n).1 = { s with chunk := n }) ∨
    ((∃ e, (s.setChunk n).2 = .error e) ∧ (s.setChunk n).1 = s) := by
  rcases h.kind with k | k
  · rw [setChunk_fastIn k]; exact Or.inr ⟨⟨_, rfl⟩, rfl⟩
  · rw [setChunk_sincIn k]
    split
    · exact Or.inr ⟨⟨_, rfl⟩, rfl⟩
    · rename_i hn
      simp only [Bool.or_eq_true, decide_eq_true_eq, beq_iff_eq, not_or, not_lt] at hn
      exact Or.inl ⟨rfl, k, Nat.pos_of_ne_zero hn.2, hn.1, rfl⟩

theorem setChunk_lastIndex {s : AState ℚ ℚ} (h : GoodIn s) (n : ℕ) :
    (s.setChunk n).1.lastIndex = s.lastIndex ∧ (s.setChunk n).1.L = s.L ∧
      (s.setChunk n).1.orig = s.orig := by
  rcases setChunk_spec h n with ⟨_, _, _, _, e⟩ | ⟨_, e⟩ <;> rw [e] <;> exact ⟨rfl, rfl, rfl⟩

theorem zeroLike_size (b : Array (Array ℚ)) : (zeroLike (ρ := ℚ) b).size = b.size := by
  simp [zeroLike]

theorem reset_fastIn {s : AState ℚ ℚ} (k : s.kind = .fastIn) :
    s.reset = { s with buf := zeroLike s.buf, mask := List.replicate s.nch true,
                       lastIndex := -(RNum.ofNat (s.L / 2) : ℚ), ratio := s.orig,
                       target := s.orig } := by
  unfold AState.reset
  cases s
  simp only at k
  subst k
  rfl

theorem reset_sincIn {s : AState ℚ ℚ} (k : s.kind = .sincIn) :
    s.reset = { s with buf := zeroLike s.buf, mask := List.replicate s.nch true,
                       lastIndex := -(RNum.ofNat (s.L / 2) : ℚ), ratio := s.orig,
                       target := s.orig, chunk := s.maxChunk, fill := s.maxChunk } := by
  unfold AState.reset
  cases s
  simp only at k
  subst k
  rfl

theorem goodIn_reset {s : AState ℚ ℚ} (h : GoodIn s) : GoodIn s.reset := by
  have hinv : Inv s.L ⌈1 / s.orig⌉ (-(RNum.ofNat (s.L / 2) : ℚ)) := inv_init s.L h.T_nonneg
  have hnb : (zeroLike (ρ := ℚ) s.buf).size = s.nch := by rw [zeroLike_size]; exact h.nbuf
  have hsz := zeroLike_allSize h.sizes
  have hml : (List.replicate s.nch true).length = s.nch := by simp
  rcases h.kind with k | k
  · rw [reset_fastIn k]
    exact ⟨h.kind, h.orig_pos, h.maxRel_ge, rfl, rfl, h.chunk_le, h.chunk_fast, h.needed, hinv,
      hnb, hsz, h.fill_le, h.fill_fast, hml, h.L_fast, h.sinc, h.machine⟩
  · rw [reset_sincIn k]
    exact ⟨h.kind, h.orig_pos, h.maxRel_ge, rfl, rfl, le_rfl,
      fun _ => rfl, h.needed, hinv, hnb, hsz, le_rfl, fun _ => rfl, hml, h.L_fast, h.sinc,
      h.machine⟩

theorem reset_lastIndex {s : AState ℚ ℚ} (h : GoodIn s) :
    s.reset.lastIndex = -((s.L / 2 : ℕ) : ℚ) ∧ s.reset.L = s.L ∧ s.reset.orig = s.orig := by
  rcases h.kind with k | k
  · rw [reset_fastIn k]; exact ⟨congrArg Neg.neg (ofNat_eq _), rfl, rfl⟩
  · rw [reset_sincIn k]; exact ⟨congrArg Neg.neg (ofNat_eq _), rfl, rfl⟩

/-! ## G. Constant-ratio histories -/

/-- the operations of a constant-ratio life: everything in the public API that changes the resampler
except `set_resample_ratio(_relative)` -/
inductive OpC where
  | process (a : CallArgs ℚ)
  | setChunk (n : ℕ)
  | reset

def OpC.apply (s : AState ℚ ℚ) : OpC → AState ℚ ℚ
  | .process a => (s.process a).1
  | .setChunk n => (s.setChunk n).1
  | .reset => s.reset

theorem goodIn_apply {s : AState ℚ ℚ} (h : GoodIn s) (op : OpC) : GoodIn (op.apply s) := by
  cases op with
  | process a => exact process_any_keeps_good h a
  | setChunk n => exact goodIn_setChunk h n
  | reset => exact goodIn_reset h

/-- any history, of any length, with any arguments (valid or not) keeps the invariant -/
theorem goodIn_foldl {s : AState ℚ ℚ} (h : GoodIn s) (ops : List OpC) :
    GoodIn (ops.foldl OpC.apply s) := by
  induction ops generalizing s with
  | nil => exact h
  | cons op ops ih => exact ih (goodIn_apply h op)

/-- **Headline.**  A `FastFixedIn` / `SincFixedIn` accepted by its constructor (for `SincFixedIn`:
sinc length ≥ 3, oversampling factor ≥ 1, and ≥ 2 with cubic or quadratic interpolation — finding
D12 —; sizes below the model's idle fuel), whose ratio is never changed: after ANY sequence of
`process` calls (valid or not), `set_chunk_size` (valid or not) and `reset`, every call that meets
the advertised sizes returns `Ok`, consumes exactly `input_frames_next()` frames, writes at most
`output_frames_next()` ≤ `output_frames_max()` frames and reads only supplied data. -/
theorem fixedIn_constant_ratio_safe {kind : AKind} (hk : kind = .fastIn ∨ kind = .sincIn)
    {ratio maxRel : ℚ} {deg : Degree} {sint : SincInterp} {ip : Interp ℚ} {chunk nch : ℕ}
    {s0 : AState ℚ ℚ}
    (hL3 : kind = .sincIn → 3 ≤ ip.len)
    (hn : kind = .sincIn → 1 ≤ ip.nbr)
    (hn2 : kind = .sincIn → sint = .cubic ∨ sint = .quadratic → 2 ≤ ip.nbr)
    (hmach : outNextIn chunk ratio ratio ≤ idleFuel)
    (h0 : AState.init kind ratio maxRel deg sint ip chunk nch = .ok s0)
    (ops : List OpC) (a : CallArgs ℚ) :
    let s := ops.foldl OpC.apply s0
    (ValidCall s a →
      ∃ out, (s.process a).2 = .ok out ∧ out.nIn = s.inputFramesNext ∧
        out.nOut ≤ s.outputFramesNext ∧ s.outputFramesNext ≤ s.outputFramesMax ∧
        out.stale = false ∧ GoodIn (s.process a).1) ∧
    (¬ ValidCall s a → ∃ e, (s.process a).2 = .err e) := by
  intro s
  have hg : GoodIn s := goodIn_foldl (goodIn_init hk hL3 hn hn2 hmach h0) ops
  have e1 : s.inputFramesNext = s.chunk := by simp [AState.inputFramesNext, hg.isFixedIn]
  have e2 : s.outputFramesNext = outNextIn s.chunk s.orig s.orig := by
    simp [AState.outputFramesNext, hg.isFixedIn, hg.ratio_eq, hg.target_eq]
  have e3 : s.outputFramesMax = outMaxIn s.maxChunk s.orig s.maxRel := by
    simp [AState.outputFramesMax, hg.isFixedIn]
  constructor
  · intro hv
    obtain ⟨out, ho, r1, r2, r3, r4, r5, _⟩ := process_valid_ok hg hv
    refine ⟨out, ho, by rw [e1]; exact r1, by rw [e2]; exact r2, ?_, r4, r5⟩
    rw [e2, e3]
    have hm0 : 0 < s.maxRel := lt_of_lt_of_le one_pos hg.maxRel_ge
    apply outNextIn_le_outMaxIn_const hg.chunk_le hg.orig_pos hg.maxRel_ge
    · rw [div_le_iff₀ hm0]; nlinarith [hg.orig_pos, hg.maxRel_ge]
    · nlinarith [hg.orig_pos, hg.maxRel_ge]
  · intro hnv
    rcases (process_any hg a).2 with ⟨hv, _⟩ | ⟨_, e, _, he, _⟩
    · exact absurd hv hnv
    · exact ⟨e, he⟩


/-! ## H. Accounting at the level of `process`: no drift -/

/-- a resampler together with the running totals of frames consumed / produced -/
structure Tot where
  s : AState ℚ ℚ
  tin : ℕ
  tout : ℕ

/-- one API call; the totals are the sums of the `nIn` / `nOut` that `process` RETURNS (a call that
ends in an error returns nothing and counts 0); `reset` restarts the count -/
def Tot.step (t : Tot) : OpC → Tot
  | .process a =>
    match (t.s.process a).2 with
    | .ok out => ⟨(t.s.process a).1, t.tin + out.nIn, t.tout + out.nOut⟩
    | _ => ⟨(t.s.process a).1, t.tin, t.tout⟩
  | .setChunk n => ⟨(t.s.setChunk n).1, t.tin, t.tout⟩
  | .reset => ⟨t.s.reset, 0, 0⟩

def totals (s : AState ℚ ℚ) (ops : List OpC) : Tot := ops.foldl Tot.step ⟨s, 0, 0⟩

/-- frames consumed / produced by a history (since its last `reset`) -/
def totalIn (s : AState ℚ ℚ) (ops : List OpC) : ℕ := (totals s ops).tin
def totalOut (s : AState ℚ ℚ) (ops : List OpC) : ℕ := (totals s ops).tout

theorem Tot.step_s (t : Tot) (op : OpC) : (t.step op).s = op.apply t.s := by
  cases op with
  | process a =>
    simp only [Tot.step, OpC.apply]
    split <;> rfl
  | setChunk n => rfl
  | reset => rfl

theorem foldl_step_s (ops : List OpC) (t : Tot) :
    (ops.foldl Tot.step t).s = ops.foldl OpC.apply t.s := by
  induction ops generalizing t with
  | nil => rfl
  | cons op ops ih => simp only [List.foldl_cons]; rw [ih, Tot.step_s]

/-- the state component of `totals` is the state after the history -/
theorem totals_s (s : AState ℚ ℚ) (ops : List OpC) : (totals s ops).s = ops.foldl OpC.apply s :=
  foldl_step_s ops ⟨s, 0, 0⟩

/-- the conserved quantity: `r·totalIn − totalOut = r·(−(L/2) − lastIndex)` -/
structure Bal (L : ℕ) (r : ℚ) (t : Tot) : Prop where
  good : GoodIn t.s
  eL : t.s.L = L
  er : t.s.orig = r
  bal : r * t.tin - t.tout = r * (-((L / 2 : ℕ) : ℚ) - t.s.lastIndex)

theorem bal_step {L : ℕ} {r : ℚ} {t : Tot} (h : Bal L r t) (op : OpC) : Bal L r (t.step op) := by
  obtain ⟨hg, eL, er, hb⟩ := h
  have hr : 0 < r := by rw [← er]; exact hg.orig_pos
  cases op with
  | process a =>
    have hfr := process_frame t.s a
    rcases (process_any hg a).2 with ⟨hv, _⟩ | ⟨_, e, m, he, hs⟩
    · obtain ⟨out, ho, r1, _, _, _, hg', _, hid⟩ := process_valid_ok hg hv
      simp only [Tot.step, ho]
      refine ⟨hg', by rw [hfr.L]; exact eL, by rw [hfr.orig]; exact er, ?_⟩
      show r * ((t.tin + out.nIn : ℕ) : ℚ) - ((t.tout + out.nOut : ℕ) : ℚ) = _
      rw [er] at hid
      rw [r1]
      have e1 : r * ((out.nOut : ℚ) * (1 / r)) = out.nOut := by field_simp
      have e2 : r * ((t.s.process a).1.lastIndex + (t.s.chunk : ℚ)) =
          r * t.s.lastIndex + out.nOut := by rw [hid, mul_add, e1]
      push_cast
      linarith
    · simp only [Tot.step, he]
      refine ⟨process_any_keeps_good hg a, by rw [hfr.L]; exact eL, by rw [hfr.orig]; exact er, ?_⟩
      show r * (t.tin : ℚ) - (t.tout : ℚ) = r * (-((L / 2 : ℕ) : ℚ) - (t.s.process a).1.lastIndex)
      rw [hs]; exact hb
  | setChunk n =>
    obtain ⟨c1, c2, c3⟩ := setChunk_lastIndex hg n
    refine ⟨goodIn_setChunk hg n, c2.trans eL, c3.trans er, ?_⟩
    show r * (t.tin : ℚ) - (t.tout : ℚ) = r * (-((L / 2 : ℕ) : ℚ) - (t.s.setChunk n).1.lastIndex)
    rw [c1]; exact hb
  | reset =>
    obtain ⟨c1, c2, c3⟩ := reset_lastIndex hg
    refine ⟨goodIn_reset hg, c2.trans eL, c3.trans er, ?_⟩
    show r * ((0 : ℕ) : ℚ) - ((0 : ℕ) : ℚ) = r * (-((L / 2 : ℕ) : ℚ) - t.s.reset.lastIndex)
    rw [c1, eL]; simp

theorem bal_foldl {L : ℕ} {r : ℚ} {t : Tot} (h : Bal L r t) (ops : List OpC) :
    Bal L r (ops.foldl Tot.step t) := by
  induction ops generalizing t with
  | nil => exact h
  | cons op ops ih => exact ih (bal_step h op)

/-- **No drift.**  Start from a fresh `GoodIn` resampler (`lastIndex = −(L/2)`, as after the
constructor or `reset`) and run ANY history of `process` calls (any chunk-size schedule through
`set_chunk_size`, any arguments — the valid calls return `Ok` and are counted with the `nIn`,
`nOut` they report, the others return an error and count nothing), of any length.  With
`r = orig` the ratio: `0 ≤ r·totalIn − totalOut ≤ r·(L − L/2 + 1 + ⌈1/r⌉) ≤ r·(L + 1/r + 3) + 3`. -/
theorem no_drift {s : AState ℚ ℚ} (h : GoodIn s) (hfresh : s.lastIndex = -((s.L / 2 : ℕ) : ℚ))
    (ops : List OpC) :
    let r := s.orig
    let d := r * (totalIn s ops : ℚ) - (totalOut s ops : ℚ)
    d = r * (-((s.L / 2 : ℕ) : ℚ) - (ops.foldl OpC.apply s).lastIndex) ∧
    0 ≤ d ∧
    d ≤ r * ((s.L : ℚ) - ((s.L / 2 : ℕ) : ℚ) + 1 + (⌈1 / r⌉ : ℤ)) ∧
    d ≤ r * ((s.L : ℚ) + 1 / r + 3) + 3 := by
  intro r d
  have h0 : Bal s.L s.orig ⟨s, 0, 0⟩ := ⟨h, rfl, rfl, by
    show s.orig * ((0 : ℕ) : ℚ) - ((0 : ℕ) : ℚ) = _
    rw [hfresh]; simp⟩
  obtain ⟨hg, eL, er, hb⟩ := (bal_foldl h0 ops : Bal s.L s.orig (totals s ops))
  have hr : 0 < r := h.orig_pos
  have hinv := hg.inv
  rw [eL, er] at hinv
  obtain ⟨hlo, hhi⟩ := hinv
  have key : d = r * (-((s.L / 2 : ℕ) : ℚ) - (ops.foldl OpC.apply s).lastIndex) := by
    rw [← totals_s]; exact hb
  have hT := T_lt_t_add_one r
  have hL := half_le s.L
  have hL0 : (0 : ℚ) ≤ ((s.L / 2 : ℕ) : ℚ) := Nat.cast_nonneg _
  have hlast : (ops.foldl Tot.step ⟨s, 0, 0⟩).s.lastIndex = (ops.foldl OpC.apply s).lastIndex := by
    rw [foldl_step_s]
  rw [hlast] at hlo hhi
  have e1 : r * (1 / r) = 1 := by field_simp
  refine ⟨key, ?_, ?_, ?_⟩
  · rw [key]; apply mul_nonneg hr.le; linarith
  · rw [key]; apply mul_le_mul_of_nonneg_left _ hr.le; linarith
  · rw [key]
    have : r * (-((s.L / 2 : ℕ) : ℚ) - (ops.foldl OpC.apply s).lastIndex) ≤
        r * ((s.L : ℚ) + 1 / r + 3) := by
      apply mul_le_mul_of_nonneg_left _ hr.le; linarith
    linarith

/-- `no_drift` from the constructor -/
theorem no_drift_init {kind : AKind} (hk : kind = .fastIn ∨ kind = .sincIn)
    {ratio maxRel : ℚ} {deg : Degree} {sint : SincInterp} {ip : Interp ℚ} {chunk nch : ℕ}
    {s0 : AState ℚ ℚ}
    (hL3 : kind = .sincIn → 3 ≤ ip.len)
    (hn : kind = .sincIn → 1 ≤ ip.nbr)
    (hn2 : kind = .sincIn → sint = .cubic ∨ sint = .quadratic → 2 ≤ ip.nbr)
    (hmach : outNextIn chunk ratio ratio ≤ idleFuel)
    (h0 : AState.init kind ratio maxRel deg sint ip chunk nch = .ok s0) (ops : List OpC) :
    let d := ratio * (totalIn s0 ops : ℚ) - (totalOut s0 ops : ℚ)
    0 ≤ d ∧ d ≤ ratio * ((s0.L : ℚ) - ((s0.L / 2 : ℕ) : ℚ) + 1 + (⌈1 / ratio⌉ : ℤ)) ∧
      d ≤ ratio * ((s0.L : ℚ) + 1 / ratio + 3) + 3 := by
  have hg := goodIn_init hk hL3 hn hn2 hmach h0
  have hfi : kind.isFixedIn = true := by rcases hk with k | k <;> simp [k, AKind.isFixedIn]
  have ho : s0.orig = ratio ∧ s0.lastIndex = -((s0.L / 2 : ℕ) : ℚ) := by
    unfold AState.init at h0
    split at h0
    · simp at h0
    · simp only [hfi, if_true, Except.ok.injEq] at h0
      subst h0
      exact ⟨rfl, congrArg Neg.neg (ofNat_eq _)⟩
  obtain ⟨_, a, b, c⟩ := no_drift hg ho.2 ops
  rw [ho.1] at a b c
  exact ⟨a, b, c⟩


/-! ### histories of valid calls -/

/-- a history (without `reset`) in which every `process` call meets the advertised sizes -/
def ValidHist : AState ℚ ℚ → List OpC → Prop
  | _, [] => True
  | s, .process a :: ops => ValidCall s a ∧ ValidHist (s.process a).1 ops
  | s, .setChunk n :: ops => ValidHist (s.setChunk n).1 ops
  | _, .reset :: _ => False

/-- the chunk sizes in force at the `process` calls of a history -/
def chunksOf : AState ℚ ℚ → List OpC → List ℕ
  | _, [] => []
  | s, .process a :: ops => s.chunk :: chunksOf (s.process a).1 ops
  | s, .setChunk n :: ops => chunksOf (s.setChunk n).1 ops
  | s, .reset :: ops => chunksOf s.reset ops

theorem foldl_tin_valid (ops : List OpC) (t : Tot) (hg : GoodIn t.s) (hv : ValidHist t.s ops) :
    (ops.foldl Tot.step t).tin = t.tin + (chunksOf t.s ops).sum := by
  induction ops generalizing t with
  | nil => simp [chunksOf]
  | cons op ops ih =>
    cases op with
    | process a =>
      obtain ⟨hva, hrest⟩ := hv
      obtain ⟨out, ho, r1, _, _, _, hg', _⟩ := process_valid_ok hg hva
      have hstep : t.step (.process a) = ⟨(t.s.process a).1, t.tin + out.nIn, t.tout + out.nOut⟩ := by
        simp only [Tot.step, ho]
      rw [List.foldl_cons, hstep, ih _ hg' hrest]
      simp only [chunksOf, List.sum_cons, r1]
      omega
    | setChunk n =>
      rw [List.foldl_cons]
      exact ih ⟨(t.s.setChunk n).1, t.tin, t.tout⟩ (goodIn_setChunk hg n) hv
    | reset => exact absurd hv (by simp [ValidHist])

/-- in a history of valid calls every call succeeds, so the frames consumed are the sum of the chunk
sizes in force; together with `no_drift` this pins `totalOut` to within a constant of
`r · Σ chunks`. -/
theorem totalIn_valid {s : AState ℚ ℚ} (h : GoodIn s) {ops : List OpC} (hv : ValidHist s ops) :
    totalIn s ops = (chunksOf s ops).sum := by
  have := foldl_tin_valid ops ⟨s, 0, 0⟩ h hv
  simpa [totalIn, totals] using this

theorem no_drift_valid {s : AState ℚ ℚ} (h : GoodIn s)
    (hfresh : s.lastIndex = -((s.L / 2 : ℕ) : ℚ)) {ops : List OpC} (hv : ValidHist s ops) :
    let d := s.orig * ((chunksOf s ops).sum : ℚ) - (totalOut s ops : ℚ)
    0 ≤ d ∧ d ≤ s.orig * ((s.L : ℚ) - ((s.L / 2 : ℕ) : ℚ) + 1 + (⌈1 / s.orig⌉ : ℤ)) ∧
      d ≤ s.orig * ((s.L : ℚ) + 1 / s.orig + 3) + 3 := by
  obtain ⟨_, a, b, c⟩ := no_drift h hfresh ops
  rw [totalIn_valid h hv] at a b c
  exact ⟨a, b, c⟩

/-! ## I. Non-vacuity -/

/-- `FastFixedIn::new(441/480, 2.0, Septic, 64, 2)` -/
def exFast : AState ℚ ℚ :=
  { kind := .fastIn, nch := 2, chunk := 64, maxChunk := 64, needed := 0, fill := 64,
    lastIndex := -4, ratio := 441/480, orig := 441/480, target := 441/480, maxRel := 2, L := 8,
    deg := .septic, sint := .nearest, ip := ⟨0, 0, fun _ _ _ => 0⟩, buf := zeroBuf 2 80,
    mask := [true, true] }

theorem exFast_is_init :
    AState.init .fastIn (441/480 : ℚ) 2 .septic .nearest ⟨0, 0, fun _ _ _ => 0⟩ 64 2 = .ok exFast := by
  simp [AState.init, validateRatios, exFast, AKind.isSinc, AKind.isFixedIn, Fast.polyLen]
  norm_num

theorem exFast_next : outNextIn 64 (441/480 : ℚ) (441/480) = 68 := by decide +kernel

theorem exFast_good : GoodIn exFast :=
  goodIn_init (Or.inl rfl) nofun nofun nofun (by rw [exFast_next]; decide) exFast_is_init

/-- two channels, 64 frames each, 68 and 70 frames of room, no mask -/
def exArgs : CallArgs ℚ :=
  { input := [Array.replicate 64 1, Array.replicate 64 (1/2)], outLens := [68, 70], mask := none }

theorem exArgs_valid : ValidCall exFast exArgs := by
  refine ⟨nofun, rfl, rfl, ?_, ?_⟩
  · intro c inp _ h2
    match c with
    | 0 => simp only [exArgs, List.getElem?_cons_zero, Option.some.injEq] at h2; subst h2; simp [exFast]
    | 1 =>
      simp only [exArgs, List.getElem?_cons_succ, List.getElem?_cons_zero, Option.some.injEq] at h2
      subst h2; simp [exFast]
    | c + 2 => simp [exArgs] at h2
  · intro c l _ h2
    show outNextIn 64 (441/480 : ℚ) (441/480) ≤ l
    rw [exFast_next]
    match c with
    | 0 => simp only [exArgs, List.getElem?_cons_zero, Option.some.injEq] at h2; omega
    | 1 =>
      simp only [exArgs, List.getElem?_cons_succ, List.getElem?_cons_zero, Option.some.injEq] at h2
      omega
    | c + 2 => simp [exArgs] at h2

/-- `process_valid_ok` applies -/
example : ∃ out, (exFast.process exArgs).2 = .ok out ∧ out.nIn = 64 ∧ out.nOut ≤ 68 ∧
    out.stale = false ∧ GoodIn (exFast.process exArgs).1 := by
  obtain ⟨out, ho, r1, r2, _, r4, r5, _⟩ := process_valid_ok exFast_good exArgs_valid
  refine ⟨out, ho, r1, ?_, r4, r5⟩
  have : outNextIn exFast.chunk exFast.orig exFast.orig = 68 := exFast_next
  omega

/-- the same call evaluated by the kernel: 64 frames in, 53 frames out, nothing stale -/
example : (match (exFast.process exArgs).2 with
    | .ok out => (out.nIn, out.nOut, out.stale)
    | _ => (0, 0, true)) = (64, 53, false) := by decide +kernel

/-- an invalid call (second output buffer one frame short) is an error, not a panic -/
example : (match (exFast.process { exArgs with outLens := [68, 67] }).2 with
    | .err e => some e
    | _ => none) = some (.insufOut 1 68 67) := by decide +kernel

/-- the headline theorem and the accounting bound apply to this resampler: after ANY history … -/
example (ops : List OpC) (a : CallArgs ℚ) (hv : ValidCall (ops.foldl OpC.apply exFast) a) :
    ∃ out, ((ops.foldl OpC.apply exFast).process a).2 = .ok out ∧ out.stale = false := by
  obtain ⟨out, ho, _, _, _, hs, _⟩ := (fixedIn_constant_ratio_safe (Or.inl rfl) nofun nofun nofun
    (by rw [exFast_next]; decide) exFast_is_init ops a).1 hv
  exact ⟨out, ho, hs⟩

example (ops : List OpC) :
    let d := (441/480 : ℚ) * (totalIn exFast ops : ℚ) - (totalOut exFast ops : ℚ)
    0 ≤ d ∧ d ≤ (441/480 : ℚ) * ((8 : ℚ) - 4 + 1 + 2) := by
  intro d
  obtain ⟨a, b, _⟩ := no_drift_init (Or.inl rfl) nofun nofun nofun
    (by rw [exFast_next]; decide) exFast_is_init ops
  have hT : ⌈1 / (441/480 : ℚ)⌉ = 2 := by decide +kernel
  have hL : exFast.L = 8 := rfl
  rw [hT, hL] at b
  refine ⟨a, le_trans b (le_of_eq ?_)⟩
  norm_num

/-- a concrete history: three calls and the totals, evaluated -/
example : (totalIn exFast [.process exArgs, .process exArgs, .process exArgs],
    totalOut exFast [.process exArgs, .process exArgs, .process exArgs]) = (192, 170) := by
  decide +kernel

/-- `SincFixedIn` with sinc length 8, oversampling factor 4, cubic interpolation, chunk 64,
one channel, ratio 3/2: `GoodIn` after construction, and after `set_chunk_size(10)` -/
def exSincInit : Except CErr (AState ℚ ℚ) :=
  AState.init .sincIn (3/2 : ℚ) 2 .septic .cubic ⟨8, 4, fun _ _ _ => 0⟩ 64 1

example : ∃ s, exSincInit = .ok s ∧ GoodIn s ∧ GoodIn (s.setChunk 10).1 ∧
    (s.setChunk 10).1.chunk = 10 := by
  have hv : validateRatios (3 / 2 : ℚ) 2 = .ok () := by
    simp only [validateRatios, le_eq, zero_eq, lt_eq, one_eq]; norm_num
  have he : ∃ s, exSincInit = .ok s ∧ s.kind = .sincIn ∧ s.maxChunk = 64 := by
    simp only [exSincInit, AState.init, hv, AKind.isFixedIn]
    exact ⟨_, rfl, rfl, rfl⟩
  obtain ⟨s, hs, hk, hmc⟩ := he
  have hg : GoodIn s := goodIn_init (Or.inr rfl) (fun _ => by norm_num) (fun _ => by norm_num)
    (fun _ _ => by norm_num) (by decide +kernel) hs
  refine ⟨s, hs, hg, goodIn_setChunk hg 10, ?_⟩
  rw [setChunk_sincIn hk, hmc]
  rfl


/-- finding D12 at the level of `process`: `SincFixedIn` with oversampling factor 1 and cubic
interpolation is accepted by the constructor, and its first (valid) call panics in
`get_sinc_interpolated` — this is why `GoodIn` asks for `nbr ≥ 2` with cubic / quadratic -/
example : (match AState.init .sincIn (1 : ℚ) 2 .septic .cubic ⟨8, 1, fun _ _ _ => (0 : ℚ)⟩ 32 1 with
    | .ok s =>
      (match (s.process { input := [Array.replicate 32 0], outLens := [42], mask := none }).2 with
       | .panic _ => true
       | _ => false)
    | .error _ => false) = true := by decide +kernel

end Rubato.FixedInHistory
