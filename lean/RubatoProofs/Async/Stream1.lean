/-
Streaming refinement of the asynchronous resamplers, part 1 (data plane, buffers):

A  array facts about `copyWithin` / `loadAt`
B  the zero-extended stream `Xz`, the buffer invariant `BufOK`
C  a single-channel `process` call, decomposed (`process1_ok`)
D  `BufOK` holds for a fresh resampler and is preserved by a successful call, by `set_chunk_size`
   and by `set_resample_ratio` (all four kinds)
-/
import RubatoProofs.Async.FixedIn
import RubatoProofs.Async.FixedOut
import RubatoProofs.Lemmas.Shape

namespace Rubato.Stream
open Rubato Rubato.Bridge Rubato.Gen

/-! ## A. arrays -/

theorem copyWithin_getD (b : Array ℚ) (src n k : ℕ) (h : src + n ≤ b.size) (hk : k < n) :
    (copyWithin b src n).getD k 0 = b.getD (src + k) 0 := by
  simp only [copyWithin, Array.getD_eq_getD_getElem?, Array.getElem?_append, Array.size_extract,
    Array.getElem?_extract]
  rw [if_pos (by omega), if_pos (by omega)]

theorem loadAt_getD_lt (b d : Array ℚ) (pos k : ℕ) (hp : pos ≤ b.size) (hk : k < pos) :
    (loadAt b pos d).getD k 0 = b.getD k 0 := by
  simp only [loadAt, Array.getD_eq_getD_getElem?, Array.getElem?_append, Array.size_extract,
    Array.getElem?_extract, Array.size_append]
  rw [if_pos (by omega), if_pos (by omega), if_pos (by omega)]
  simp

theorem loadAt_getD_mid (b d : Array ℚ) (pos k : ℕ) (hp : pos ≤ b.size) (hk : pos ≤ k)
    (hk2 : k < pos + d.size) :
    (loadAt b pos d).getD k 0 = d.getD (k - pos) 0 := by
  simp only [loadAt, Array.getD_eq_getD_getElem?, Array.getElem?_append, Array.size_extract,
    Array.getElem?_extract, Array.size_append]
  rw [if_pos (by omega), if_neg (by omega)]
  congr 2
  omega

theorem extract_getD (a : Array ℚ) (n k : ℕ) (hn : n ≤ a.size) (hk : k < n) :
    (a.extract 0 n).getD k 0 = a.getD k 0 := by
  simp only [Array.getD_eq_getD_getElem?, Array.getElem?_extract]
  rw [if_pos (by omega)]
  simp

theorem take_getD (a : Array ℚ) (n k : ℕ) (hk : k < n) :
    (a.toList.take n).getD k 0 = a.getD k 0 := by
  simp only [List.getD_eq_getElem?_getD, Array.getD_eq_getD_getElem?, List.getElem?_take,
    Array.getElem?_toList]
  rw [if_pos hk]

/-! ## B. the stream and the buffer invariant -/

/-- the input stream `X`, extended by zeros to the left (the zero pre-roll of a fresh resampler)
and to the right (never read) -/
def Xz (X : List ℚ) (k : ℤ) : ℚ := if k < 0 then 0 else X.getD k.toNat 0

@[simp] theorem Xz_nil (k : ℤ) : Xz [] k = 0 := by
  unfold Xz; split <;> simp

theorem Xz_neg (X : List ℚ) {k : ℤ} (h : k < 0) : Xz X k = 0 := by
  unfold Xz; rw [if_pos h]

/-- extending the stream does not change the frames already there -/
theorem Xz_append_lt (X Y : List ℚ) {k : ℤ} (h : k < X.length) : Xz (X ++ Y) k = Xz X k := by
  unfold Xz
  split
  · rfl
  · have : k.toNat < X.length := by omega
    simp only [List.getD_eq_getElem?_getD, List.getElem?_append_left this]

theorem Xz_append_ge (X Y : List ℚ) (k : ℕ) : Xz (X ++ Y) ((X.length : ℤ) + k) = Y.getD k 0 := by
  unfold Xz
  rw [if_neg (by omega)]
  have : ((X.length : ℤ) + k).toNat = X.length + k := by omega
  rw [this]
  simp only [List.getD_eq_getElem?_getD]
  rw [List.getElem?_append_right (by omega)]
  congr 2
  omega

/-- the first `m` cells of `b` hold the stream `xz` from global index `base` on -/
def Holds (b : Array ℚ) (m : ℕ) (xz : ℤ → ℚ) (base : ℤ) : Prop :=
  ∀ k : ℕ, k < m → b.getD k 0 = xz (base + k)

/-- **Buffer invariant** (single channel).  `X` = all frames consumed so far; the channel buffer
holds, in its first `2L + fill` cells, exactly the last `2L + fill` frames of the zero-extended
stream: `buf[k] = Xz (|X| − fill − 2L + k)`. -/
structure BufOK (s : AState ℚ ℚ) (X : List ℚ) : Prop where
  size1 : s.buf.size = 1
  len : 2 * s.L + s.fill ≤ (s.buf.getD 0 #[]).size
  val : Holds (s.buf.getD 0 #[]) (2 * s.L + s.fill) (Xz X)
    ((X.length : ℤ) - s.fill - 2 * s.L)
  /-- `FastFixedIn` has no `current_buffer_fill`; the model keeps `fill = chunk` there -/
  fastIn_fill : s.kind = .fastIn → s.fill = s.chunk

/-- the invariant read against ANY extension of the stream -/
theorem BufOK.val_ext {s : AState ℚ ℚ} {X : List ℚ} (h : BufOK s X) (Y : List ℚ) :
    Holds (s.buf.getD 0 #[]) (2 * s.L + s.fill) (Xz (X ++ Y))
      ((X.length : ℤ) - s.fill - 2 * s.L) := by
  intro k hk
  rw [h.val k hk, Xz_append_lt]
  omega

/-- the history shift followed by the load, on one channel buffer -/
theorem holds_refill {b inp : Array ℚ} {w n n' : ℕ} {X : List ℚ}
    (hlen : w + n ≤ b.size) (_hlen' : w + n' ≤ b.size) (hinp : n' ≤ inp.size)
    (H : Holds b (w + n) (Xz X) ((X.length : ℤ) - n - w)) :
    Holds (loadAt (copyWithin b n w) w (inp.extract 0 n')) (w + n')
      (Xz (X ++ inp.toList.take n'))
      (((X ++ inp.toList.take n').length : ℤ) - n' - w) := by
  intro k hk
  have hcs : (copyWithin b n w).size = b.size := copyWithin_size b n w (by omega)
  have hlen2 : (X ++ inp.toList.take n').length = X.length + n' := by
    have : (inp.toList.take n').length = n' := by
      rw [List.length_take, Array.length_toList]; omega
    rw [List.length_append, this]
  rw [hlen2]
  by_cases hkw : k < w
  · rw [loadAt_getD_lt _ _ _ _ (by omega) hkw, copyWithin_getD _ _ _ _ (by omega) hkw,
      H (n + k) (by omega), Xz_append_lt _ _ (by push_cast; omega)]
    congr 1
    push_cast
    omega
  · have hes : (inp.extract 0 n').size = n' := by rw [Array.size_extract]; omega
    rw [loadAt_getD_mid _ _ _ _ (by omega) (by omega) (by omega),
      extract_getD _ _ _ hinp (by omega)]
    have : ((X.length + n' : ℕ) : ℤ) - n' - w + k = (X.length : ℤ) + ((k - w : ℕ) : ℤ) := by
      push_cast; omega
    rw [this, Xz_append_ge, take_getD _ _ _ (by omega)]

/-! ## C. one single-channel call, decomposed -/

/-- single-channel call: input `inp`, an output buffer of `outLen` frames, no mask -/
def args1 (inp : Array ℚ) (outLen : ℕ) : CallArgs ℚ := ⟨[inp], [outLen], none⟩

theorem refill1 (s : AState ℚ ℚ) (b inp : Array ℚ) (sf n : ℕ) (hb : s.buf = #[b]) :
    refill s [true] [inp] sf n =
      if sf + 2 * s.L ≤ b.size ∧ 2 * s.L + n ≤ b.size ∧ n ≤ inp.size then
        some #[loadAt (copyWithin b sf (2 * s.L)) (2 * s.L) (inp.extract 0 n)]
      else none := by
  unfold refill
  simp only [hb]
  by_cases h1 : sf + 2 * s.L ≤ b.size
  · have hsz : (copyWithin b sf (2 * s.L)).size = b.size := copyWithin_size b sf (2 * s.L) h1
    simp [refill.go, h1, hsz]
    rw [if_neg (by omega)]
    split_ifs <;> first | rfl | omega
  · simp [h1]

theorem buf_eq_singleton {s : AState ℚ ℚ} (h : s.buf.size = 1) : s.buf = #[s.buf.getD 0 #[]] := by
  apply Array.ext
  · simp [h]
  · intro i h1 h2
    have : i = 0 := by omega
    subst this
    simp [Array.getD, h]

/-- the refilled channel buffer of a call that consumes the first `s.minIn` frames of `inp` -/
def newBuf (s : AState ℚ ℚ) (inp : Array ℚ) : Array ℚ :=
  loadAt (copyWithin (s.buf.getD 0 #[]) s.shiftFrom (2 * s.L)) (2 * s.L) (inp.extract 0 s.minIn)

/-- the state handed to `finishIn` / `finishOut` -/
def midState (s : AState ℚ ℚ) (inp : Array ℚ) : AState ℚ ℚ :=
  { s with mask := [true], buf := #[newBuf s inp], fill := s.minIn }

/-- a successful single-channel call is: range checks of the refill, then `finishIn`/`finishOut`
on `midState` -/
theorem process1_ok {s s' : AState ℚ ℚ} {inp : Array ℚ} {outLen : ℕ} {out : CallOut ℚ}
    (hn : s.nch = 1) (hb : s.buf.size = 1)
    (h : s.process (args1 inp outLen) = (s', .ok out)) :
    s.shiftFrom + 2 * s.L ≤ (s.buf.getD 0 #[]).size ∧
    2 * s.L + s.minIn ≤ (s.buf.getD 0 #[]).size ∧ s.minIn ≤ inp.size ∧
    (if s.kind.isFixedIn then (midState s inp).finishIn [true] outLen
      else (midState s inp).finishOut [true]) = (s', .ok out) := by
  unfold AState.process at h
  have hm : updateMask s.nch (args1 inp outLen).mask = .ok [true] := by rw [hn]; rfl
  simp only [hm] at h
  split at h
  · exact absurd (congrArg Prod.snd h) (by simp)
  · have hb' : ({ s with mask := [true] } : AState ℚ ℚ).buf = #[s.buf.getD 0 #[]] :=
      buf_eq_singleton hb
    have hr := refill1 ({ s with mask := [true] } : AState ℚ ℚ) (s.buf.getD 0 #[]) inp
      s.shiftFrom s.minIn hb'
    simp only [args1] at h
    have e1 : ({ s with mask := [true] } : AState ℚ ℚ).shiftFrom = s.shiftFrom := rfl
    have e2 : ({ s with mask := [true] } : AState ℚ ℚ).minIn = s.minIn := rfl
    have hmin : minActiveLen [outLen] [true] = some outLen := by
      simp [minActiveLen]
    split at hr
    · rename_i hc
      rw [e1, e2, hr] at h
      simp only [hmin] at h
      exact ⟨hc.1, hc.2.1, hc.2.2, h⟩
    · rw [e1, e2, hr] at h
      exact absurd (congrArg Prod.snd h) (by simp)

/-- frames written to the (only) channel by a successful call -/
def chanOut (out : CallOut ℚ) : List ℚ :=
  match out.out with
  | [some a] => a.toList
  | _ => []

theorem evalChannels1 {s : AState ℚ ℚ} {b : Array ℚ} {ps : List ℚ}
    {outs : List (Option (Array ℚ))} (h : evalChannels s #[b] [true] ps = .ok outs) :
    outs = [some (ps.toArray.map (posValue s b))] ∧ ∀ p ∈ ps, posFault s b.size p = none := by
  unfold evalChannels at h
  simp only [evalChannels.go, if_true] at h
  split at h
  · simp at h
  · rename_i hnone
    simp only [List.reverse_cons, List.reverse_nil, List.nil_append, Except.ok.injEq] at h
    refine ⟨h.symm, ?_⟩
    intro p hp
    have := List.findSome?_eq_none_iff.1 hnone p hp
    simpa using this

/-- what a successful `finishIn` evaluated -/
theorem finishIn_ok_eval {s s' : AState ℚ ℚ} {mask : List Bool} {fuel : ℕ} {out : CallOut ℚ}
    (h : s.finishIn mask fuel = (s', .ok out)) :
    (FixedIn.callIn s.chunk s.L s.ratio s.target fuel s.lastIndex).2.2 = false ∧
    s' = { s with lastIndex := FixedIn.nextLast s.chunk s.L s.ratio s.target fuel s.lastIndex,
                  ratio := s.target } ∧
    out.nIn = s.chunk ∧
    evalChannels s s.buf mask (FixedIn.callIn s.chunk s.L s.ratio s.target fuel s.lastIndex).1
      = .ok out.out := by
  have h2 : (s.finishIn mask fuel).2 = .ok out := by rw [h]
  obtain ⟨a1, a2, a3, _⟩ := FixedIn.finishIn_ok s mask fuel h2
  refine ⟨a1, by rw [← a2, h], a3, ?_⟩
  rw [FixedIn.finishIn_eq] at h2
  unfold FixedIn.finishInOf at h2
  rw [a1] at h2
  simp only [Bool.false_eq_true, if_false] at h2
  split at h2
  · exact absurd h2 (FixedOut.faultOutcome_ne_ok _ _)
  · rename_i outs he
    simp only [Outcome.ok.injEq] at h2
    rw [he, ← h2]

/-- **One successful single-channel call**: what it checked, what it left in the buffer, and the
frames it wrote, as values of `posValue` on the refilled buffer at the positions `ps`. -/
structure CallFacts (s s' : AState ℚ ℚ) (inp : Array ℚ) (out : CallOut ℚ) (ps : List ℚ) : Prop where
  rng1 : s.shiftFrom + 2 * s.L ≤ (s.buf.getD 0 #[]).size
  rng2 : 2 * s.L + s.minIn ≤ (s.buf.getD 0 #[]).size
  rng3 : s.minIn ≤ inp.size
  buf : s'.buf = #[newBuf s inp]
  fill : s'.fill = s.minIn
  nIn : out.nIn = s.minIn
  outv : chanOut out = ps.map (posValue (midState s inp) (newBuf s inp))
  nofault : ∀ p ∈ ps, posFault (midState s inp) (newBuf s inp).size p = none

/-- fixed-input kinds -/
theorem call1_in {s s' : AState ℚ ℚ} {inp : Array ℚ} {outLen : ℕ} {out : CallOut ℚ}
    (hn : s.nch = 1) (hb : s.buf.size = 1) (hk : s.kind.isFixedIn = true)
    (h : s.process (args1 inp outLen) = (s', .ok out)) :
    CallFacts s s' inp out
      (FixedIn.callIn s.chunk s.L s.ratio s.target outLen s.lastIndex).1 ∧
    (FixedIn.callIn s.chunk s.L s.ratio s.target outLen s.lastIndex).2.2 = false ∧
    s'.lastIndex = FixedIn.nextLast s.chunk s.L s.ratio s.target outLen s.lastIndex ∧
    s'.ratio = s.target ∧ s'.target = s.target := by
  obtain ⟨r1, r2, r3, hf⟩ := process1_ok hn hb h
  rw [if_pos hk] at hf
  obtain ⟨a1, a2, a3, a4⟩ := finishIn_ok_eval hf
  have hc : (midState s inp).chunk = s.chunk := rfl
  have hmin : s.minIn = s.chunk := by simp [AState.minIn, hk]
  obtain ⟨e1, e2⟩ := evalChannels1 (s := midState s inp) (b := newBuf s inp) a4
  refine ⟨⟨r1, r2, r3, by rw [a2]; rfl, by rw [a2]; rfl, by rw [a3, hmin]; rfl, ?_, e2⟩,
    a1, by rw [a2]; rfl, by rw [a2]; rfl, by rw [a2]; rfl⟩
  unfold chanOut
  rw [e1]
  simp only [Array.toList_map]
  rfl

/-- fixed-output kinds -/
theorem call1_out {s s' : AState ℚ ℚ} {inp : Array ℚ} {outLen : ℕ} {out : CallOut ℚ}
    (hn : s.nch = 1) (hb : s.buf.size = 1) (hk : s.kind.isFixedIn = false)
    (h : s.process (args1 inp outLen) = (s', .ok out)) :
    CallFacts s s' inp out
      (stepsOut ((1 / s.target - 1 / s.ratio) / s.chunk) s.chunk (1 / s.ratio) s.lastIndex) := by
  obtain ⟨r1, r2, r3, hf⟩ := process1_ok hn hb h
  rw [if_neg (by simp [hk])] at hf
  have a := FixedOut.finishOut_ok hf
  obtain ⟨b1, _, b3, _⟩ := FixedOut.finishOut_ok_buf hf
  have a4 := a.2.2.2.2.2.2.2.2.2.2.2.2.2.2.2
  have a3 := a.2.2.2.2.2.2.2.2.2.2.2.2.2.1
  obtain ⟨e1, e2⟩ := evalChannels1 (s := midState s inp) (b := newBuf s inp) a4
  refine ⟨r1, r2, r3, b1, b3, a3, ?_, e2⟩
  unfold chanOut
  rw [e1]
  simp only [Array.toList_map]
  rfl

/-! ## D. the buffer invariant: fresh state, one call, setters -/

theorem shiftFrom_eq_fill {s : AState ℚ ℚ} {X : List ℚ} (H : BufOK s X) : s.shiftFrom = s.fill := by
  unfold AState.shiftFrom
  split
  · rename_i hk; exact (H.fastIn_fill hk).symm
  · rfl

theorem newBuf_size {s : AState ℚ ℚ} {inp : Array ℚ}
    (r1 : s.shiftFrom + 2 * s.L ≤ (s.buf.getD 0 #[]).size)
    (r2 : 2 * s.L + s.minIn ≤ (s.buf.getD 0 #[]).size) (r3 : s.minIn ≤ inp.size) :
    (newBuf s inp).size = (s.buf.getD 0 #[]).size := by
  unfold newBuf
  rw [loadAt_size, copyWithin_size _ _ _ r1]
  rw [copyWithin_size _ _ _ r1, Array.size_extract]
  omega

/-- **1(b)** one successful call appends the consumed frames to the stream the buffer holds -/
theorem bufOK_process {s s' : AState ℚ ℚ} {inp : Array ℚ} {outLen : ℕ} {out : CallOut ℚ}
    {X : List ℚ} (hn : s.nch = 1) (H : BufOK s X)
    (h : s.process (args1 inp outLen) = (s', .ok out)) :
    BufOK s' (X ++ inp.toList.take out.nIn) := by
  have hfr : ProcFrame s (s.process (args1 inp outLen)).1 := process_frame s _
  rw [h] at hfr
  have hsf := shiftFrom_eq_fill H
  have hcf : ∃ ps, CallFacts s s' inp out ps := by
    by_cases hk : s.kind.isFixedIn = true
    · exact ⟨_, (call1_in hn H.size1 hk h).1⟩
    · exact ⟨_, call1_out hn H.size1 (by simpa using hk) h⟩
  obtain ⟨ps, cf⟩ := hcf
  have hsz := newBuf_size cf.rng1 cf.rng2 cf.rng3
  have hg : s'.buf.getD 0 #[] = newBuf s inp := by rw [cf.buf]; rfl
  refine ⟨by rw [cf.buf]; rfl, ?_, ?_, ?_⟩
  · rw [hg, hsz, cf.fill, hfr.L]; exact cf.rng2
  · rw [hg, cf.fill, hfr.L, cf.nIn]
    have := holds_refill (b := s.buf.getD 0 #[]) (inp := inp) (w := 2 * s.L) (n := s.fill)
      (n' := s.minIn) (X := X) H.len cf.rng2 cf.rng3 (by
        have := H.val
        push_cast at this ⊢
        exact this)
    unfold newBuf
    rw [hsf]
    push_cast at this ⊢
    exact this
  · intro hk
    rw [hfr.kind] at hk
    rw [cf.fill, hfr.chunk]
    simp [AState.minIn, hk, AKind.isFixedIn]

theorem BufOK.of_eq {s s' : AState ℚ ℚ} {X : List ℚ} (H : BufOK s X) (hb : s'.buf = s.buf)
    (hL : s'.L = s.L) (hf : s'.fill = s.fill) (hc : s'.kind = .fastIn → s'.fill = s'.chunk) :
    BufOK s' X :=
  ⟨by rw [hb]; exact H.size1, by rw [hb, hL, hf]; exact H.len, by rw [hb, hL, hf]; exact H.val, hc⟩

theorem setChunk_fields' (s : AState ℚ ℚ) (n : ℕ) :
    (s.setChunk n).1.buf = s.buf ∧ (s.setChunk n).1.L = s.L ∧ (s.setChunk n).1.fill = s.fill ∧
    (s.setChunk n).1.kind = s.kind ∧ (s.kind = .fastIn → (s.setChunk n).1.chunk = s.chunk) := by
  unfold AState.setChunk
  cases hk : s.kind <;> simp only [hk] <;> (try split) <;> simp [hk]

theorem setRatio_fields' (s : AState ℚ ℚ) (new : ℚ) (ramp : Bool) :
    (s.setRatio new ramp).1.buf = s.buf ∧ (s.setRatio new ramp).1.L = s.L ∧
    (s.setRatio new ramp).1.fill = s.fill ∧ (s.setRatio new ramp).1.kind = s.kind ∧
    (s.setRatio new ramp).1.chunk = s.chunk := by
  unfold AState.setRatio
  split
  · cases hk : s.kind <;> simp
  · simp

/-- `set_chunk_size` (accepted or not) does not touch the buffer or `fill` -/
theorem bufOK_setChunk {s : AState ℚ ℚ} {X : List ℚ} (H : BufOK s X) (n : ℕ) :
    BufOK (s.setChunk n).1 X := by
  obtain ⟨a, b, c, d, e⟩ := setChunk_fields' s n
  refine H.of_eq a b c (fun hk => ?_)
  rw [d] at hk
  rw [c, e hk]; exact H.fastIn_fill hk

/-- `set_resample_ratio` (accepted or not) does not touch the buffer, `fill` or `chunk` -/
theorem bufOK_setRatio {s : AState ℚ ℚ} {X : List ℚ} (H : BufOK s X) (new : ℚ) (ramp : Bool) :
    BufOK (s.setRatio new ramp).1 X := by
  obtain ⟨a, b, c, d, e⟩ := setRatio_fields' s new ramp
  refine H.of_eq a b c (fun hk => ?_)
  rw [d] at hk
  rw [c, e]; exact H.fastIn_fill hk

theorem replicate_getD_zero (n k : ℕ) : (Array.replicate n (0 : ℚ)).getD k 0 = 0 := by
  rw [Array.getD_eq_getD_getElem?, Array.getElem?_replicate]
  split <;> rfl

theorem zeroBuf_getD (len : ℕ) :
    (zeroBuf (ρ := ℚ) (σ := ℚ) 1 len).getD 0 #[] = Array.replicate len (0 : ℚ) := by
  simp [zeroBuf]

/-- **1(a)** a fresh single-channel resampler holds the empty stream (all zeros) -/
theorem bufOK_init {kind : AKind} {ratio maxRel : ℚ} {deg : Degree} {sint : SincInterp}
    {ip : Interp ℚ} {chunk : ℕ} {s : AState ℚ ℚ}
    (h : AState.init kind ratio maxRel deg sint ip chunk 1 = .ok s) : BufOK s [] := by
  unfold AState.init validateRatios at h
  simp only [le_eq, zero_eq, lt_eq, one_eq, decide_eq_true_eq] at h
  split at h
  · simp at h
  · rename_i hv
    split at hv
    · simp at hv
    · split at hv
      · simp at hv
      · rename_i hm
        have hm' : 1 ≤ maxRel := not_lt.1 hm
        split at h
        · simp only [Except.ok.injEq] at h
          subst h
          refine ⟨by simp [zeroBuf], ?_, ?_, fun _ => rfl⟩
          · simp only [zeroBuf_getD, Array.size_replicate]; omega
          · intro k _
            simp only [zeroBuf_getD, replicate_getD_zero, Xz_nil]
        · simp only [Except.ok.injEq] at h
          subst h
          refine ⟨by simp [zeroBuf], ?_, ?_, fun hk => ?_⟩
          · simp only [zeroBuf_getD, Array.size_replicate, bufLenOut, one_eq, ofNat_eq]
            generalize neededInit chunk ratio (if kind.isSinc = true then ip.len else Fast.polyLen) = N
            have hN : (0 : ℚ) ≤ N := Nat.cast_nonneg N
            have hx : (N : ℚ) ≤ (maxRel + 1) * N := by nlinarith
            rw [toNat_of_nonneg (le_trans hN hx)]
            have : (N : ℤ) ≤ ⌊(maxRel + 1) * (N : ℚ)⌋ := by
              rw [Int.le_floor]; exact_mod_cast hx
            omega
          · intro k _
            simp only [zeroBuf_getD, replicate_getD_zero, Xz_nil]
          · rename_i hfi
            simp only at hk
            subst hk
            simp [AKind.isFixedIn] at hfi

end Rubato.Stream
