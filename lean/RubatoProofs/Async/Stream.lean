/-
Streaming refinement of the asynchronous resamplers (property C05, asynchronous half), ρ = σ = ℚ,
single channel:  the concatenated output is a function of the concatenated input, the parameters
and the (constant) ratio only.

Stream1  buffer invariant `BufOK` (fresh state, one call, setters), one call decomposed
Stream2  specifications `fastSpec` / `sincSpec`, value on the buffer = specification
here:
H  one call: a position that passed the range test and reads nothing beyond the loaded frames
   (`UpperOK`) evaluates to the specification at the global instant `consumed + p`
I  `UpperOK` for the four kinds at constant ratio; `.sincOut` for EVERY admissible oversampling
   factor (`value_sincOut`: the over-reaching point of finding D14 has weight exactly 0)
J  positions of the two stepping loops at constant ratio
K  `Track` (buffer + clock `lastIndex + consumed = −(L/2) + produced/r` + output = spec), kept by a
   successful call (`track_process`) and by `set_chunk_size`; runs: `stream_spec`,
   `chunking_independent`; `call_positions`, `call_output_eq_spec`; `scalarDot_local`
L  non-vacuity (fast and sinc kinds, fixed-in vs fixed-out, chunk changes, D14)
-/
import RubatoProofs.Async.Stream2
import RubatoModel.SincTable

namespace Rubato.Stream
open Rubato Rubato.Bridge Rubato.Gen

/-! ## H. value of one emitted frame -/

/-- the algorithm of a resampler: kernel family and its parameters -/
def specOf (sinc : Bool) (deg : Degree) (sint : SincInterp) (ip : Interp ℚ) (xz : ℤ → ℚ)
    (τ : ℚ) : ℚ :=
  if sinc then sincSpec sint ip xz τ else fastSpec deg xz τ

/-- position `p` reads nothing beyond the `n` frames loaded by the current call (buffer cells
`< 2L + n`): the "not stale" condition, per tap -/
def UpperOK (m : AState ℚ ℚ) (n : ℕ) (p : ℚ) : Prop :=
  if m.kind.isSinc then
    ∀ q ∈ nearestTimes m.sint p m.ip.nbr,
      q.1 + 2 * (m.L : ℤ) + m.ip.len ≤ 2 * (m.L : ℤ) + n
  else fastStart m.deg p + fastWidth m.deg ≤ 16 + (n : ℤ)

/-- the lower half comes for free from the range test the call passed -/
theorem lower_of_nofault_fast {m : AState ℚ ℚ} {len : ℕ} {p : ℚ} (hk : m.kind.isSinc = false)
    (h : posFault m len p = none) : 0 ≤ fastStart m.deg p := by
  unfold posFault at h
  simp only [hk, Bool.false_eq_true, if_false] at h
  split at h
  · rename_i hc; exact hc.1
  · simp at h

theorem lower_of_nofault_sinc {m : AState ℚ ℚ} {len : ℕ} {p : ℚ} (hk : m.kind.isSinc = true)
    (h : posFault m len p = none) :
    ∀ q ∈ nearestTimes m.sint p m.ip.nbr, 0 ≤ q.1 + 2 * (m.L : ℤ) := by
  unfold posFault at h
  simp only [hk, if_true] at h
  split at h
  · rename_i hc
    intro q hq
    have := List.all_eq_true.1 hc q hq
    simp only [sincPointOk, Bool.and_eq_true, decide_eq_true_eq] at this
    exact this.1.1.1
  · simp at h

/-- **2.** A position that passed the range test and reads nothing beyond the loaded frames
evaluates to the specification at the global instant `base + 2L + p`, on any stream `xz` the
first `2L + n` buffer cells agree with. -/
theorem posValue_eq_spec {m : AState ℚ ℚ} {b : Array ℚ} {n : ℕ} {xz : ℤ → ℚ} {base : ℤ} (p : ℚ)
    (H : Holds b (2 * m.L + n) xz base)
    (hfL : m.kind.isSinc = false → m.L = 8) (hloc : m.kind.isSinc = true → Local m.ip)
    (hnf : posFault m b.size p = none) (hup : UpperOK m n p) :
    posValue m b p =
      specOf m.kind.isSinc m.deg m.sint m.ip xz (((base + 2 * (m.L : ℤ) : ℤ) : ℚ) + p) := by
  unfold posValue specOf
  unfold UpperOK at hup
  by_cases hk : m.kind.isSinc = true
  · rw [if_pos hk] at hup ⊢
    rw [if_pos hk]
    have hlow := lower_of_nofault_sinc hk hnf
    apply sincValue_eq_spec m.sint (hloc hk) m.L p H
    intro q hq
    refine ⟨hlow q hq, ?_⟩
    have := hup q hq
    push_cast
    omega
  · have hk' : m.kind.isSinc = false := by simpa using hk
    rw [if_neg hk] at hup ⊢
    rw [if_neg hk]
    have hL := hfL hk'
    have hlow := lower_of_nofault_fast hk' hnf
    rw [hL] at H ⊢
    exact fastValue_eq_spec m.deg p H hlow (by push_cast; omega)

/-! ## I. nothing beyond the loaded frames is read (the four kinds, constant ratio) -/

theorem upper_fastIn {s : AState ℚ ℚ} {r : ℚ} (hr : 0 < r) (hk : s.kind = .fastIn) (hL : s.L = 8)
    (hratio : s.ratio = r) (htarget : s.target = r) {fuel : ℕ} {p : ℚ}
    (hp : p ∈ (FixedIn.callIn s.chunk s.L s.ratio s.target fuel s.lastIndex).1) :
    UpperOK s s.chunk p := by
  rw [hL, hratio, htarget] at hp
  have := FixedIn.fast_upper_safe_any hr hp s.deg
  unfold UpperOK
  simp only [hk, AKind.isSinc, Bool.false_eq_true, if_false]
  omega

theorem upper_sincIn {s : AState ℚ ℚ} {r : ℚ} (hr : 0 < r) (hk : s.kind = .sincIn)
    (hlen : s.ip.len = s.L) (hratio : s.ratio = r) (htarget : s.target = r) {fuel : ℕ} {p : ℚ}
    (hp : p ∈ (FixedIn.callIn s.chunk s.L s.ratio s.target fuel s.lastIndex).1) :
    UpperOK s s.chunk p := by
  rw [hratio, htarget] at hp
  obtain ⟨_, h2⟩ := FixedIn.pos_bounds_any hr hp
  have a2 : ⌊p⌋ < (s.chunk : ℤ) - (s.L : ℤ) - 1 := by rw [Int.floor_lt]; push_cast; linarith
  unfold UpperOK
  simp only [hk, AKind.isSinc, if_true]
  intro q hq
  have h3 := FixedIn.nearestTimes_index s.sint p s.ip.nbr hq
  rw [hlen]
  omega

theorem upper_fastOut {s : AState ℚ ℚ} (h : FixedOut.Inv s) (hk : s.kind = .fastOut) {p : ℚ}
    (hp : p ∈ stepsOut ((1 / s.target - 1 / s.ratio) / s.chunk) s.chunk (1 / s.ratio) s.lastIndex) :
    UpperOK s s.needed p := by
  have hL : s.L = 8 := h.fast_L hk
  have hl : -9 < s.lastIndex := by have := h.last_gt; rw [hL] at this; push_cast at this; linarith
  obtain ⟨_, b⟩ := FixedOut.fast_window_in_fill h.chunk_pos h.ratio_pos h.target_pos hl hp s.deg
  rw [← hL, ← h.needed_eq] at b
  unfold UpperOK
  simp only [hk, AKind.isSinc, Bool.false_eq_true, if_false]
  omega

theorem upper_sincOut {s : AState ℚ ℚ} (h : FixedOut.Inv s) (hk : s.kind = .sincOut)
    (hLip : s.ip.len = s.L) (hf : FixedOut.factorNoOvershoot s.sint s.ip.nbr) {p : ℚ}
    (hp : p ∈ stepsOut ((1 / s.target - 1 / s.ratio) / s.chunk) s.chunk (1 / s.ratio) s.lastIndex) :
    UpperOK s s.needed p := by
  have h0 : 0 < 1 / s.ratio := by have := h.ratio_pos; positivity
  have h1 : 0 < 1 / s.target := by have := h.target_pos; positivity
  obtain ⟨_, pu⟩ := FixedOut.pos_bounds h.chunk_pos h0 h1 hp
  have hadv := FixedOut.advance_pos h.chunk_pos h0 h1
  have hlast := h.last_gt
  have hx : -1 < s.lastIndex + FixedOut.advance s.chunk (1 / s.ratio) (1 / s.target) + (s.L : ℚ) := by
    linarith
  have hn : (s.needed : ℤ) =
      ⌈s.lastIndex + FixedOut.advance s.chunk (1 / s.ratio) (1 / s.target)⌉ + s.L := by
    rw [h.needed_eq]; exact FixedOut.neededSinc_cast hx
  unfold UpperOK
  simp only [hk, AKind.isSinc, if_true]
  intro q hq
  have := FixedOut.nearestTimes_fst_le_ceil_strong s.sint pu hf q hq
  rw [hLip]; omega

/-! ### `.sincOut` without `factorNoOvershoot` (finding D14 is harmless at exact arithmetic)

With a small oversampling factor (cubic/quadratic: 2, linear: 1) the LAST position of a
fixed-output sinc call, when it is an integer, asks for a point one frame beyond the loaded data
(`upper_sincOut` fails).  At an integer position the blend gives that point weight exactly 0:
the value is the single point `(⌊p⌋, 0)`, which lies inside the loaded frames. -/

theorem nearestTimes_ne_nil (sint : SincInterp) (p : ℚ) (f : ℕ) : nearestTimes sint p f ≠ [] := by
  cases sint <;> simp only [nearestTimes] <;> (try split_ifs) <;> simp

theorem nbr_ok_of_nofault {m : AState ℚ ℚ} {len : ℕ} {p : ℚ} (hk : m.kind.isSinc = true)
    (h : posFault m len p = none) :
    1 ≤ m.ip.nbr ∧ (m.sint = .cubic ∨ m.sint = .quadratic → 2 ≤ m.ip.nbr) := by
  have h1 : 1 ≤ m.ip.nbr := by
    obtain ⟨q, hq⟩ := List.exists_mem_of_ne_nil _ (nearestTimes_ne_nil m.sint p m.ip.nbr)
    unfold posFault at h
    simp only [hk, if_true] at h
    split at h
    · rename_i hc
      have := List.all_eq_true.1 hc q hq
      simp only [sincPointOk, Bool.and_eq_true, decide_eq_true_eq] at this
      omega
    · simp at h
  refine ⟨h1, fun hs => ?_⟩
  by_contra hlt
  have hn : m.ip.nbr = 1 := by omega
  rw [FixedOut.sinc_factor_one_faults hk hn hs len p] at h
  simp at h

/-- at an integer position the blend returns the single point `(⌊p⌋, 0)` (weight 1), whatever
the other points are -/
theorem sincKernel_int (sint : SincInterp) {p : ℚ} (hp : p = ((⌊p⌋ : ℤ) : ℚ)) {f : ℕ} (hf : 1 ≤ f)
    (hf2 : sint = .cubic ∨ sint = .quadratic → 2 ≤ f) (g : ℤ × ℤ → ℚ) :
    sincKernel sint (sincFrac p f) (fun k => ((nearestTimes sint p f).map g).getD k 0)
      = g (⌊p⌋, 0) ∧ (⌊p⌋, 0) ∈ nearestTimes sint p f := by
  have u : p - ((⌊p⌋ : ℤ) : ℚ) = 0 := by linarith
  have e1 : ⌊(p - ((⌊p⌋ : ℤ) : ℚ)) * (f : ℚ)⌋ = 0 := by rw [u]; simp
  have e2 : ⌊(p - ((⌊p⌋ : ℤ) : ℚ)) * (f : ℚ) + 1 / 2⌋ = 0 := by rw [u]; norm_num
  have e0 : sincFrac p f = 0 := by
    simp only [sincFrac, ofNat_eq, floor_eq]
    have : p * (f : ℚ) = ((⌊p⌋ * (f : ℤ) : ℤ) : ℚ) := by rw [hp]; push_cast; simp
    rw [this, Int.floor_intCast]; simp
  have hfz : (1 : ℤ) ≤ f := by exact_mod_cast hf
  rw [e0]
  cases sint with
  | nearest =>
    simp only [nearestTimes, floor_eq, toInt_intCast, ofNat_eq, FixedOut.round_eq, e2, sincKernel]
    rw [if_neg (by omega)]
    simp
  | linear =>
    simp only [nearestTimes, floor_eq, toInt_intCast, ofNat_eq, e1, sincKernel, Sinc.interp_lin]
    simp
  | quadratic =>
    have h2 : (2 : ℤ) ≤ f := by exact_mod_cast hf2 (Or.inr rfl)
    have w0 : wrapSub ⌊p⌋ 0 f = (⌊p⌋, 0) := by
      unfold wrapSub; rw [if_neg (by omega), if_neg (by omega)]
    simp only [nearestTimes, floor_eq, toInt_intCast, ofNat_eq, e1, sincKernel, Sinc.interp_quad,
      Sinc.nearestFirstOffset, zero_add, w0]
    simp
  | cubic =>
    have h2 : (2 : ℤ) ≤ f := by exact_mod_cast hf2 (Or.inl rfl)
    have w0 : wrapSub ⌊p⌋ 0 f = (⌊p⌋, 0) := by
      unfold wrapSub; rw [if_neg (by omega), if_neg (by omega)]
    simp only [nearestTimes, floor_eq, toInt_intCast, ofNat_eq, e1, sincKernel, Sinc.interp_cubic,
      Sinc.nearestFirstOffset, zero_add]
    simp [w0]

/-- the value of every position of a `.sincOut` call is the specification, for every admissible
oversampling factor (the factor conditions follow from the call having passed its asserts) -/
theorem value_sincOut {s : AState ℚ ℚ} (h : FixedOut.Inv s) (hk : s.kind = .sincOut)
    (hLip : s.ip.len = s.L) (hloc : Local s.ip) {p : ℚ}
    (hp : p ∈ stepsOut ((1 / s.target - 1 / s.ratio) / s.chunk) s.chunk (1 / s.ratio) s.lastIndex)
    {b : Array ℚ} {xz : ℤ → ℚ} {base : ℤ} (H : Holds b (2 * s.L + s.needed) xz base)
    (hnf : posFault s b.size p = none) :
    posValue s b p =
      specOf s.kind.isSinc s.deg s.sint s.ip xz (((base + 2 * (s.L : ℤ) : ℤ) : ℚ) + p) := by
  have hs : s.kind.isSinc = true := by simp [hk, AKind.isSinc]
  have h0 : 0 < 1 / s.ratio := by have := h.ratio_pos; positivity
  have h1 : 0 < 1 / s.target := by have := h.target_pos; positivity
  obtain ⟨_, pu⟩ := FixedOut.pos_bounds h.chunk_pos h0 h1 hp
  have hadv := FixedOut.advance_pos h.chunk_pos h0 h1
  have hlast := h.last_gt
  have hx : -1 < s.lastIndex + FixedOut.advance s.chunk (1 / s.ratio) (1 / s.target) + (s.L : ℚ) := by
    linarith
  have hn : (s.needed : ℤ) =
      ⌈s.lastIndex + FixedOut.advance s.chunk (1 / s.ratio) (1 / s.target)⌉ + s.L := by
    rw [h.needed_eq]; exact FixedOut.neededSinc_cast hx
  have hfc : ⌊p⌋ ≤ ⌈s.lastIndex + FixedOut.advance s.chunk (1 / s.ratio) (1 / s.target)⌉ := by
    have a := Int.floor_le p
    have c := Int.le_ceil (s.lastIndex + FixedOut.advance s.chunk (1 / s.ratio) (1 / s.target))
    have : (⌊p⌋ : ℚ) ≤ (⌈s.lastIndex + FixedOut.advance s.chunk (1 / s.ratio) (1 / s.target)⌉ : ℚ) := by
      linarith
    exact_mod_cast this
  by_cases hint : p = ((⌊p⌋ : ℤ) : ℚ)
  · -- integer position: the blend is the single point `(⌊p⌋, 0)`
    obtain ⟨f1, f2⟩ := nbr_ok_of_nofault hs hnf
    set z : ℤ := base + 2 * (s.L : ℤ) with hz
    have hτ : (z : ℚ) + p = ((⌊(z : ℚ) + p⌋ : ℤ) : ℚ) := by
      rw [Int.floor_intCast_add]; push_cast; rw [← hint]
    obtain ⟨v1, m1⟩ := sincKernel_int s.sint hint f1 f2
      (fun q => s.ip.dot b (q.1 + 2 * (s.L : ℤ)).toNat q.2.toNat)
    obtain ⟨v2, _⟩ := sincKernel_int s.sint hτ f1 f2 (sincPointSpec s.ip xz)
    unfold posValue specOf
    rw [if_pos hs, if_pos hs, sincValue_eq_kernel, sincSpec, v1, v2, Int.floor_intCast_add]
    have hlow := lower_of_nofault_sinc hs hnf _ m1
    have := sincPoint_eq_spec hloc s.L H (⌊p⌋, 0) hlow (by simp only; rw [hLip]; omega)
    simp only at this
    rw [this, add_comm]
  · -- otherwise `⌊p⌋ + 1 ≤ ⌈last + advance⌉` and no point overshoots
    have hlt : ⌊p⌋ < ⌈s.lastIndex + FixedOut.advance s.chunk (1 / s.ratio) (1 / s.target)⌉ := by
      have a : ((⌊p⌋ : ℤ) : ℚ) < p := lt_of_le_of_ne (Int.floor_le p) (fun e => hint e.symm)
      have c := Int.le_ceil (s.lastIndex + FixedOut.advance s.chunk (1 / s.ratio) (1 / s.target))
      have : (⌊p⌋ : ℚ) < (⌈s.lastIndex + FixedOut.advance s.chunk (1 / s.ratio) (1 / s.target)⌉ : ℚ) := by
        linarith
      exact_mod_cast this
    apply posValue_eq_spec p H (fun hc => by rw [hs] at hc; cases hc) (fun _ => hloc) hnf
    unfold UpperOK
    rw [if_pos hs]
    intro q hq
    have h3 := FixedIn.nearestTimes_index s.sint p s.ip.nbr hq
    rw [hLip]; omega

/-! ## J. evaluation instants -/

/-- fixed-input call at constant ratio that did not run out of room: positions
`last + (k+1)/r`, and `lastIndex + consumed` advances by `(frames emitted)/r` -/
theorem positions_in {r : ℚ} (hr : 0 < r) (c L fuel : ℕ) (last : ℚ)
    (hrun : (FixedIn.callIn c L r r fuel last).2.2 = false) :
    (∀ (k : ℕ) (hk : k < (FixedIn.callIn c L r r fuel last).1.length),
      (FixedIn.callIn c L r r fuel last).1[k] = last + ((k : ℚ) + 1) * (1 / r)) ∧
    FixedIn.nextLast c L r r fuel last + (c : ℚ) =
      last + ((FixedIn.callIn c L r r fuel last).1.length : ℚ) * (1 / r) := by
  have ht : (0 : ℚ) < 1 / r := by positivity
  have hf : FixedIn.nC c L r last ≤ fuel := by
    rw [FixedIn.callIn_const, FixedIn.stepsIn_ranOut ht] at hrun
    exact Nat.le_of_not_lt (of_decide_eq_false hrun)
  constructor
  · intro k hk
    have e := FixedIn.stepsIn_positions (e := FixedIn.eC c L r) ht hf
    simp only [FixedIn.callIn_const] at hk ⊢
    simp only [e, List.getElem_map, List.getElem_range]
  · have := FixedIn.potential_step hr c L hf 0
    linarith

/-- fixed-output call at constant ratio: positions `last + (k+1)·t`, end `last + c·t` -/
theorem positions_out (c : ℕ) (t last : ℚ) :
    (∀ (k : ℕ) (hk : k < (stepsOut ((t - t) / c) c t last).length),
      (stepsOut ((t - t) / c) c t last)[k] = last + ((k : ℚ) + 1) * t) ∧
    stepsOutLast ((t - t) / c) c t last = last + (c : ℚ) * t := by
  constructor
  · intro k hk
    simp only [FixedOut.stepsOut_eq_map, List.getElem_map, List.getElem_range, FixedOut.pos]
    push_cast
    ring
  · rw [FixedOut.stepsOutLast_closed]; ring

/-! ## K. runs -/

/-- everything the streaming argument carries from call to call.  `X` = input consumed so far,
`O` = output produced so far, `r` = the (constant) ratio. -/
structure Track (r : ℚ) (s : AState ℚ ℚ) (X O : List ℚ) : Prop where
  nch : s.nch = 1
  ratio : s.ratio = r
  target : s.target = r
  buf : BufOK s X
  fastL : s.kind.isSinc = false → s.L = 8
  sincL : s.kind.isSinc = true → s.ip.len = s.L
  loc : s.kind.isSinc = true → Local s.ip
  outInv : s.kind.isFixedIn = false → FixedOut.Inv s
  /-- **3.** the clock: `lastIndex + consumed = −(L/2) + produced / r` -/
  clock : s.lastIndex + (X.length : ℚ) = -((s.L / 2 : ℕ) : ℚ) + (O.length : ℚ) / r
  /-- **4.** every frame produced so far is the specification at `τ_j = −(L/2) + (j+1)/r`, on the
  stream consumed so far and on any extension of it -/
  spec : ∀ (Y : List ℚ) (j : ℕ), j < O.length →
    O.getD j 0 = specOf s.kind.isSinc s.deg s.sint s.ip (Xz (X ++ Y))
      (-((s.L / 2 : ℕ) : ℚ) + ((j : ℚ) + 1) / r)

theorem getD_append_map {O ps : List ℚ} (f : ℚ → ℚ) (k : ℕ) (hk : k < ps.length) :
    (O ++ ps.map f).getD (O.length + k) 0 = f ps[k] := by
  rw [List.getD_eq_getElem?_getD, List.getElem?_append_right (by omega)]
  simp [hk]

/-- the common part of one successful call -/
theorem track_step {r : ℚ} (hr : 0 < r) {s s' : AState ℚ ℚ} {X O : List ℚ} {inp : Array ℚ}
    {out : CallOut ℚ} {ps : List ℚ} {n : ℕ} (T : Track r s X O) (hfr : ProcFrame s s')
    (cf : CallFacts s s' inp out ps) (hn : s.minIn = n)
    (hval : ∀ p ∈ ps, ∀ (xz : ℤ → ℚ) (base : ℤ), Holds (newBuf s inp) (2 * s.L + n) xz base →
      posValue (midState s inp) (newBuf s inp) p =
        specOf s.kind.isSinc s.deg s.sint s.ip xz (((base + 2 * (s.L : ℤ) : ℤ) : ℚ) + p))
    (hpos : ∀ (k : ℕ) (hk : k < ps.length), ps[k] = s.lastIndex + ((k : ℚ) + 1) * (1 / r))
    (hlast : s'.lastIndex + (n : ℚ) = s.lastIndex + (ps.length : ℚ) * (1 / r))
    (hratio : s'.ratio = r) (htarget : s'.target = r)
    (hinv' : s'.kind.isFixedIn = false → FixedOut.Inv s')
    (hB : BufOK s' (X ++ inp.toList.take out.nIn)) :
    Track r s' (X ++ inp.toList.take out.nIn) (O ++ chanOut out) := by
  have hrne : r ≠ 0 := hr.ne'
  have hlenX : (X ++ inp.toList.take out.nIn).length = X.length + n := by
    have h3 := cf.rng3
    rw [hn] at h3
    have : (inp.toList.take n).length = n := by
      rw [List.length_take, Array.length_toList]; omega
    rw [cf.nIn, hn, List.length_append, this]
  have hlenO : (O ++ chanOut out).length = O.length + ps.length := by
    rw [cf.outv, List.length_append, List.length_map]
  refine ⟨by rw [hfr.nch]; exact T.nch, hratio, htarget, hB, ?_, ?_, ?_, hinv', ?_, ?_⟩
  · rw [hfr.kind, hfr.L]; exact T.fastL
  · rw [hfr.kind, hfr.L, hfr.ip]; exact T.sincL
  · rw [hfr.kind, hfr.ip]; exact T.loc
  · rw [hlenX, hlenO, hfr.L]
    have := T.clock
    push_cast
    field_simp
    field_simp at this hlast
    linarith
  · intro Y j hj
    rw [hfr.kind, hfr.deg, hfr.sint, hfr.ip, hfr.L]
    by_cases hjO : j < O.length
    · have := T.spec (inp.toList.take out.nIn ++ Y) j hjO
      rw [List.append_assoc, ← this]
      simp only [List.getD_eq_getElem?_getD, List.getElem?_append_left hjO]
    · obtain ⟨k, rfl⟩ : ∃ k, j = O.length + k := ⟨j - O.length, by omega⟩
      have hk : k < ps.length := by omega
      rw [cf.outv, getD_append_map _ k hk]
      have hmem : ps[k] ∈ ps := List.getElem_mem hk
      have hg : s'.buf.getD 0 #[] = newBuf s inp := by rw [cf.buf]; rfl
      have hH := hB.val_ext Y
      rw [hg, cf.fill, hfr.L, hn] at hH
      have hv := hval _ hmem _ _ hH
      rw [hv]
      congr 1
      rw [hpos k hk, hlenX]
      have hc := T.clock
      show ((((X.length + n : ℕ) : ℤ) - (n : ℤ) - 2 * (s.L : ℤ) + 2 * (s.L : ℤ) : ℤ) : ℚ) + _ = _
      push_cast
      field_simp
      field_simp at hc
      linarith

/-- **one successful call keeps the invariant** (all four kinds, constant ratio) -/
theorem track_process {r : ℚ} (hr : 0 < r) {s s' : AState ℚ ℚ} {X O : List ℚ} {inp : Array ℚ}
    {outLen : ℕ} {out : CallOut ℚ} (T : Track r s X O)
    (h : s.process (args1 inp outLen) = (s', .ok out)) :
    Track r s' (X ++ inp.toList.take out.nIn) (O ++ chanOut out) := by
  have hfr : ProcFrame s (s.process (args1 inp outLen)).1 := process_frame s _
  rw [h] at hfr
  have hB := bufOK_process T.nch T.buf h
  by_cases hk : s.kind.isFixedIn = true
  · obtain ⟨cf, hrun, hlast, hra, hta⟩ := call1_in T.nch T.buf.size1 hk h
    have hmin : s.minIn = s.chunk := by simp [AState.minIn, hk]
    have hup : ∀ p ∈ (FixedIn.callIn s.chunk s.L s.ratio s.target outLen s.lastIndex).1,
        UpperOK (midState s inp) s.chunk p := by
      intro p hp
      show UpperOK s s.chunk p
      cases hkk : s.kind
      · exact upper_fastIn hr hkk (T.fastL (by simp [hkk, AKind.isSinc])) T.ratio T.target hp
      · simp [hkk, AKind.isFixedIn] at hk
      · exact upper_sincIn hr hkk (T.sincL (by simp [hkk, AKind.isSinc])) T.ratio T.target hp
      · simp [hkk, AKind.isFixedIn] at hk
    rw [T.ratio, T.target] at cf hrun hlast hup
    obtain ⟨hpos, hnl⟩ := positions_in hr s.chunk s.L outLen s.lastIndex hrun
    have hval := fun p hp xz base (H : Holds (newBuf s inp) (2 * s.L + s.chunk) xz base) =>
      posValue_eq_spec (m := midState s inp) p H T.fastL T.loc (cf.nofault p hp) (hup p hp)
    refine track_step hr T hfr cf hmin hval hpos (by rw [hlast]; exact hnl) (by rw [hra, T.target])
      (by rw [hta, T.target]) (fun hk' => ?_) hB
    rw [hfr.kind, hk] at hk'
    cases hk'
  · have hk' : s.kind.isFixedIn = false := by simpa using hk
    have cf := call1_out T.nch T.buf.size1 hk' h
    have inv := T.outInv hk'
    obtain ⟨a1, a2, a3, _⟩ := FixedOut.process_ok_state hk' h
    have inv' := (FixedOut.inv_process inv h).1
    have hmin : s.minIn = s.needed := by simp [AState.minIn, hk']
    have hval : ∀ p ∈ stepsOut ((1 / s.target - 1 / s.ratio) / s.chunk) s.chunk (1 / s.ratio)
        s.lastIndex, ∀ (xz : ℤ → ℚ) (base : ℤ),
        Holds (newBuf s inp) (2 * s.L + s.needed) xz base →
        posValue (midState s inp) (newBuf s inp) p =
          specOf s.kind.isSinc s.deg s.sint s.ip xz (((base + 2 * (s.L : ℤ) : ℤ) : ℚ) + p) := by
      intro p hp xz base H
      cases hkk : s.kind
      · simp [hkk, AKind.isFixedIn] at hk'
      · have hu : UpperOK (midState s inp) s.needed p := upper_fastOut inv hkk hp
        rw [← hkk]
        exact posValue_eq_spec (m := midState s inp) p H T.fastL T.loc (cf.nofault p hp) hu
      · simp [hkk, AKind.isFixedIn] at hk'
      · have hsk : s.kind.isSinc = true := by simp [hkk, AKind.isSinc]
        rw [← hkk]
        exact value_sincOut inv hkk (T.sincL hsk) (T.loc hsk) hp H (cf.nofault p hp)
    rw [T.ratio, T.target] at cf a1 hval
    obtain ⟨hpos, hnl⟩ := positions_out s.chunk (1 / r) s.lastIndex
    have hlen : (stepsOut ((1 / r - 1 / r) / s.chunk) s.chunk (1 / r) s.lastIndex).length
        = s.chunk := FixedOut.stepsOut_length _ _ _ _
    refine track_step hr T hfr cf hmin hval hpos ?_ (by rw [a2, T.target]) (by rw [a3, T.target])
      (fun _ => inv') hB
    rw [a1, hnl, hlen]; ring

/-- **3. Instants.**  The positions evaluated by a successful call at constant ratio `r` are
`p_k = lastIndex + (k+1)/r` — for the fixed-input loop (`stepsIn`, any chunk size) and the
fixed-output loop (`stepsOut`) alike — and their global instants `consumed + p_k` are
`−(L/2) + (produced + k + 1)/r`: they depend on the number of frames produced so far only. -/
theorem call_positions {r : ℚ} (hr : 0 < r) {s s' : AState ℚ ℚ} {X O : List ℚ} {inp : Array ℚ}
    {outLen : ℕ} {out : CallOut ℚ} (T : Track r s X O)
    (h : s.process (args1 inp outLen) = (s', .ok out)) :
    ∃ ps : List ℚ, CallFacts s s' inp out ps ∧
      ps = (if s.kind.isFixedIn then (FixedIn.callIn s.chunk s.L r r outLen s.lastIndex).1
            else stepsOut ((1 / r - 1 / r) / s.chunk) s.chunk (1 / r) s.lastIndex) ∧
      ∀ (k : ℕ) (hk : k < ps.length), ps[k] = s.lastIndex + ((k : ℚ) + 1) / r ∧
        (X.length : ℚ) + ps[k] = -((s.L / 2 : ℕ) : ℚ) + ((O.length : ℚ) + (k : ℚ) + 1) / r := by
  have hrne : r ≠ 0 := hr.ne'
  have hclk : ∀ k : ℕ, (X.length : ℚ) + (s.lastIndex + ((k : ℚ) + 1) / r) =
      -((s.L / 2 : ℕ) : ℚ) + ((O.length : ℚ) + (k : ℚ) + 1) / r := by
    intro k
    have hc := T.clock
    field_simp
    field_simp at hc
    linarith
  by_cases hk : s.kind.isFixedIn = true
  · obtain ⟨cf, hrun, _⟩ := call1_in T.nch T.buf.size1 hk h
    rw [T.ratio, T.target] at cf hrun
    obtain ⟨hpos, _⟩ := positions_in hr s.chunk s.L outLen s.lastIndex hrun
    refine ⟨_, cf, by rw [if_pos hk], fun k hk' => ?_⟩
    have e : (FixedIn.callIn s.chunk s.L r r outLen s.lastIndex).1[k]
        = s.lastIndex + ((k : ℚ) + 1) / r := by rw [hpos k hk']; ring
    exact ⟨e, by rw [e]; exact hclk k⟩
  · have hk' : s.kind.isFixedIn = false := by simpa using hk
    have cf := call1_out T.nch T.buf.size1 hk' h
    rw [T.ratio, T.target] at cf
    obtain ⟨hpos, _⟩ := positions_out s.chunk (1 / r) s.lastIndex
    refine ⟨_, cf, by rw [if_neg hk], fun k hk'' => ?_⟩
    have e : (stepsOut ((1 / r - 1 / r) / s.chunk) s.chunk (1 / r) s.lastIndex)[k]
        = s.lastIndex + ((k : ℚ) + 1) / r := by rw [hpos k hk'']; ring
    exact ⟨e, by rw [e]; exact hclk k⟩

/-- control fields `set_chunk_size` leaves alone -/
theorem setChunk_ctl (s : AState ℚ ℚ) (n : ℕ) :
    (s.setChunk n).1.nch = s.nch ∧ (s.setChunk n).1.ratio = s.ratio ∧
    (s.setChunk n).1.target = s.target ∧ (s.setChunk n).1.lastIndex = s.lastIndex ∧
    (s.setChunk n).1.kind = s.kind ∧ (s.setChunk n).1.L = s.L ∧ (s.setChunk n).1.deg = s.deg ∧
    (s.setChunk n).1.sint = s.sint ∧ (s.setChunk n).1.ip = s.ip := by
  unfold AState.setChunk
  cases hk : s.kind <;> simp only [hk] <;> (try split) <;> simp [hk]

/-- `set_chunk_size` between calls (accepted or rejected) keeps the invariant -/
theorem track_setChunk {r : ℚ} {s : AState ℚ ℚ} {X O : List ℚ} (T : Track r s X O) (n : ℕ) :
    Track r (s.setChunk n).1 X O := by
  obtain ⟨e1, e2, e3, e4, e5, e6, e7, e8, e9⟩ := setChunk_ctl s n
  refine ⟨by rw [e1]; exact T.nch, by rw [e2]; exact T.ratio, by rw [e3]; exact T.target,
    bufOK_setChunk T.buf n, ?_, ?_, ?_, ?_, ?_, ?_⟩
  · rw [e5, e6]; exact T.fastL
  · rw [e5, e6, e9]; exact T.sincL
  · rw [e5, e9]; exact T.loc
  · intro hk; rw [e5] at hk; exact FixedOut.inv_setChunk (T.outInv hk) n
  · rw [e4, e6]; exact T.clock
  · rw [e5, e6, e7, e8, e9]; exact T.spec

/-- `L` of a fresh resampler -/
def Lof (kind : AKind) (ip : Interp ℚ) : ℕ := if kind.isSinc then ip.len else Fast.polyLen

theorem init_fields {kind : AKind} {ratio maxRel : ℚ} {deg : Degree} {sint : SincInterp}
    {ip : Interp ℚ} {chunk nch : ℕ} {s : AState ℚ ℚ}
    (h : AState.init kind ratio maxRel deg sint ip chunk nch = .ok s) :
    0 < ratio ∧ s.kind = kind ∧ s.nch = nch ∧ s.ratio = ratio ∧ s.target = ratio ∧
    s.L = Lof kind ip ∧ s.deg = deg ∧ s.sint = sint ∧ s.ip = ip ∧
    s.lastIndex = -((Lof kind ip / 2 : ℕ) : ℚ) := by
  unfold AState.init validateRatios at h
  simp only [le_eq, zero_eq, lt_eq, one_eq, decide_eq_true_eq] at h
  split at h
  · simp at h
  · rename_i hv
    split at hv
    · simp at hv
    · rename_i hr
      have hr' : 0 < ratio := not_le.1 hr
      split at h <;> simp only [Except.ok.injEq] at h <;> subst h <;>
        exact ⟨hr', rfl, rfl, rfl, rfl, rfl, rfl, rfl, rfl, by simp [Lof]⟩

/-- a fresh single-channel resampler satisfies the invariant, with nothing consumed or produced.
Side conditions: `chunk > 0` and `L` even for the fixed-output kinds (as `FixedOut.inv_init`),
and a `Local` interpolator for the sinc kinds. -/
theorem track_init {kind : AKind} {r maxRel : ℚ} {deg : Degree} {sint : SincInterp}
    {ip : Interp ℚ} {chunk : ℕ} {s : AState ℚ ℚ}
    (h : AState.init kind r maxRel deg sint ip chunk 1 = .ok s)
    (hc : kind.isFixedIn = false → 0 < chunk) (hev : kind = .sincOut → 2 ∣ ip.len)
    (hloc : kind.isSinc = true → Local ip) :
    Track r s [] [] := by
  obtain ⟨_, f1, f2, f3, f4, f5, f6, f7, f8, f9⟩ := init_fields h
  refine ⟨f2, f3, f4, bufOK_init h, ?_, ?_, ?_, ?_, ?_, ?_⟩
  · intro hk; rw [f1] at hk; rw [f5, Lof, hk]; rfl
  · intro hk; rw [f1] at hk; rw [f5, f8, Lof, hk]; rfl
  · intro hk; rw [f1] at hk; rw [f8]; exact hloc hk
  · intro hk; rw [f1] at hk
    have hko : kind = .fastOut ∨ kind = .sincOut := by
      cases kind <;> simp [AKind.isFixedIn] at hk ⊢
    exact FixedOut.inv_init hko (hc hk) hev h
  · rw [f9, f5]; simp
  · intro Y j hj; simp at hj

/-- a run: successful single-channel calls, interleaved with `set_chunk_size` requests, from `s0`.
`X` = concatenation of the consumed input frames, `O` = concatenation of the produced frames. -/
inductive Run (s0 : AState ℚ ℚ) : AState ℚ ℚ → List ℚ → List ℚ → Prop
  | start : Run s0 s0 [] []
  | call {s s' : AState ℚ ℚ} {X O : List ℚ} {inp : Array ℚ} {outLen : ℕ} {out : CallOut ℚ} :
      Run s0 s X O → s.process (args1 inp outLen) = (s', .ok out) →
      Run s0 s' (X ++ inp.toList.take out.nIn) (O ++ chanOut out)
  | setChunk {s : AState ℚ ℚ} {X O : List ℚ} (n : ℕ) :
      Run s0 s X O → Run s0 (s.setChunk n).1 X O

theorem track_run {r : ℚ} (hr : 0 < r) {s0 s : AState ℚ ℚ} {X O : List ℚ}
    (T0 : Track r s0 [] []) (hrun : Run s0 s X O) : Track r s X O := by
  induction hrun with
  | start => exact T0
  | call _ h ih => exact track_process hr ih h
  | setChunk n _ ih => exact track_setChunk ih n

theorem run_static {s0 s : AState ℚ ℚ} {X O : List ℚ} (hrun : Run s0 s X O) :
    s.kind = s0.kind ∧ s.L = s0.L ∧ s.deg = s0.deg ∧ s.sint = s0.sint ∧ s.ip = s0.ip := by
  induction hrun with
  | start => exact ⟨rfl, rfl, rfl, rfl, rfl⟩
  | @call s s' X O inp outLen out _ h ih =>
    have hfr : ProcFrame s (s.process (args1 inp outLen)).1 := process_frame s _
    rw [h] at hfr
    obtain ⟨a, b, c, d, e⟩ := ih
    exact ⟨hfr.kind.trans a, hfr.L.trans b, hfr.deg.trans c, hfr.sint.trans d, hfr.ip.trans e⟩
  | @setChunk s X O n _ ih =>
    obtain ⟨_, _, _, _, e5, e6, e7, e8, e9⟩ := setChunk_ctl s n
    obtain ⟨a, b, c, d, e⟩ := ih
    exact ⟨e5.trans a, e6.trans b, e7.trans c, e8.trans d, e9.trans e⟩

/-- **4. Stream theorem.**  From a fresh single-channel resampler of any of the four kinds, at
constant ratio `r`, after any run of successful calls (any chunk sizes / `set_chunk_size`
schedule): the `j`-th produced frame (0-based) is the specification of the algorithm evaluated on
the zero-extended consumed stream — or any extension `X ++ Y` of it — at the instant
`τ = −(L/2) + (j+1)/r`. -/
theorem stream_spec_ext {kind : AKind} {r maxRel : ℚ} {deg : Degree} {sint : SincInterp}
    {ip : Interp ℚ} {chunk : ℕ} {s0 s : AState ℚ ℚ} {X O : List ℚ}
    (hinit : AState.init kind r maxRel deg sint ip chunk 1 = .ok s0)
    (hc : kind.isFixedIn = false → 0 < chunk) (hev : kind = .sincOut → 2 ∣ ip.len)
    (hloc : kind.isSinc = true → Local ip)
    (hrun : Run s0 s X O) (Y : List ℚ) (j : ℕ) (hj : j < O.length) :
    O.getD j 0 = specOf kind.isSinc deg sint ip (Xz (X ++ Y))
      (-((Lof kind ip / 2 : ℕ) : ℚ) + ((j : ℚ) + 1) / r) := by
  obtain ⟨hr, f1, _, _, _, f5, f6, f7, f8, _⟩ := init_fields hinit
  have T := track_run hr (track_init hinit hc hev hloc) hrun
  obtain ⟨a, b, c, d, e⟩ := run_static hrun
  have := T.spec Y j hj
  rw [a, b, c, d, e, f1, f5, f6, f7, f8] at this
  exact this

theorem stream_spec {kind : AKind} {r maxRel : ℚ} {deg : Degree} {sint : SincInterp}
    {ip : Interp ℚ} {chunk : ℕ} {s0 s : AState ℚ ℚ} {X O : List ℚ}
    (hinit : AState.init kind r maxRel deg sint ip chunk 1 = .ok s0)
    (hc : kind.isFixedIn = false → 0 < chunk) (hev : kind = .sincOut → 2 ∣ ip.len)
    (hloc : kind.isSinc = true → Local ip)
    (hrun : Run s0 s X O) (j : ℕ) (hj : j < O.length) :
    O.getD j 0 = specOf kind.isSinc deg sint ip (Xz X)
      (-((Lof kind ip / 2 : ℕ) : ℚ) + ((j : ℚ) + 1) / r) := by
  have := stream_spec_ext hinit hc hev hloc hrun [] j hj
  rwa [List.append_nil] at this

/-- the number of frames produced and consumed so far determines the state of the clock -/
theorem stream_clock {kind : AKind} {r maxRel : ℚ} {deg : Degree} {sint : SincInterp}
    {ip : Interp ℚ} {chunk : ℕ} {s0 s : AState ℚ ℚ} {X O : List ℚ}
    (hinit : AState.init kind r maxRel deg sint ip chunk 1 = .ok s0)
    (hc : kind.isFixedIn = false → 0 < chunk) (hev : kind = .sincOut → 2 ∣ ip.len)
    (hloc : kind.isSinc = true → Local ip)
    (hrun : Run s0 s X O) :
    s.lastIndex + (X.length : ℚ) = -((Lof kind ip / 2 : ℕ) : ℚ) + (O.length : ℚ) / r ∧
      BufOK s X := by
  obtain ⟨hr, _, _, _, _, f5, _⟩ := init_fields hinit
  have T := track_run hr (track_init hinit hc hev hloc) hrun
  obtain ⟨_, b, _⟩ := run_static hrun
  have := T.clock
  rw [b, f5] at this
  exact ⟨this, T.buf⟩

/-- **Corollary (chunking independence).**  Two runs of the same algorithm (`isSinc`, `deg`,
`sint`, `ip`) at the same ratio — different kinds (fixed-input / fixed-output), different chunk
sizes, different `set_chunk_size` schedules, different `max_resample_ratio_relative` — whose
consumed inputs are prefixes of one common stream `S` produce the same output frames, as far as
both have produced. -/
theorem chunking_independent {kind1 kind2 : AKind} (hsame : kind1.isSinc = kind2.isSinc)
    {r maxRel1 maxRel2 : ℚ} {deg : Degree} {sint : SincInterp} {ip : Interp ℚ}
    {chunk1 chunk2 : ℕ} {s1 s2 t1 t2 : AState ℚ ℚ} {X1 X2 O1 O2 S : List ℚ}
    (hinit1 : AState.init kind1 r maxRel1 deg sint ip chunk1 1 = .ok s1)
    (hinit2 : AState.init kind2 r maxRel2 deg sint ip chunk2 1 = .ok s2)
    (hc1 : kind1.isFixedIn = false → 0 < chunk1) (hc2 : kind2.isFixedIn = false → 0 < chunk2)
    (hev : kind1 = .sincOut ∨ kind2 = .sincOut → 2 ∣ ip.len)
    (hloc : kind1.isSinc = true → Local ip)
    (hrun1 : Run s1 t1 X1 O1) (hrun2 : Run s2 t2 X2 O2)
    (hp1 : X1 <+: S) (hp2 : X2 <+: S) (j : ℕ) (hj1 : j < O1.length) (hj2 : j < O2.length) :
    O1.getD j 0 = O2.getD j 0 := by
  obtain ⟨Y1, rfl⟩ := hp1
  obtain ⟨Y2, hY2⟩ := hp2
  have e1 := stream_spec_ext hinit1 hc1 (fun h => hev (Or.inl h)) hloc hrun1 Y1 j hj1
  have e2 := stream_spec_ext hinit2 hc2 (fun h => hev (Or.inr h)) (by rw [← hsame]; exact hloc)
    hrun2 Y2 j hj2
  have hL : Lof kind1 ip = Lof kind2 ip := by simp only [Lof, hsame]
  rw [e1, e2, hY2, hsame, hL]

/-- **One-call composition** (1 + 2 + 3): in a successful call that starts with `X` consumed and
`O` produced, the `k`-th frame it writes is the specification on the extended stream at the
global instant `|X| + p_k`, `p_k = lastIndex + (k+1)/r`, which is `−(L/2) + (|O| + k + 1)/r`. -/
theorem call_output_eq_spec {r : ℚ} (hr : 0 < r) {s s' : AState ℚ ℚ} {X O : List ℚ}
    {inp : Array ℚ} {outLen : ℕ} {out : CallOut ℚ} (T : Track r s X O)
    (h : s.process (args1 inp outLen) = (s', .ok out)) (Y : List ℚ) (k : ℕ)
    (hk : k < (chanOut out).length) :
    (chanOut out).getD k 0 =
      specOf s.kind.isSinc s.deg s.sint s.ip (Xz (X ++ inp.toList.take out.nIn ++ Y))
        ((X.length : ℚ) + (s.lastIndex + ((k : ℚ) + 1) / r)) := by
  have hfr : ProcFrame s (s.process (args1 inp outLen)).1 := process_frame s _
  rw [h] at hfr
  have T' := track_process hr T h
  have := T'.spec Y (O.length + k) (by rw [List.length_append]; omega)
  rw [hfr.kind, hfr.deg, hfr.sint, hfr.ip, hfr.L] at this
  have e : (O ++ chanOut out).getD (O.length + k) 0 = (chanOut out).getD k 0 := by
    simp only [List.getD_eq_getElem?_getD]
    rw [List.getElem?_append_right (by omega)]
    congr 2
    omega
  rw [e] at this
  rw [this]
  congr 1
  have hc := T.clock
  have hrne : r ≠ 0 := hr.ne'
  push_cast
  field_simp
  field_simp at hc
  linarith

/-! ### `Local` is satisfiable by the crate's own scalar kernel -/

theorem foldl_congr_mem {α β : Type} (f g : α → β → α) (l : List β) (a : α)
    (h : ∀ a, ∀ x ∈ l, f a x = g a x) : l.foldl f a = l.foldl g a := by
  induction l generalizing a with
  | nil => rfl
  | cons x xs ih =>
    simp only [List.foldl_cons]
    rw [h a x (by simp)]
    exact ih _ (fun a y hy => h a y (by simp [hy]))

/-- the scalar kernel of the crate (`ScalarInterpolator::get_sinc_interpolated`, as modelled in
`RubatoModel/SincTable.lean`) on ANY table whose rows are at most `len` long is `Local` -/
theorem scalarDot_local (sincs : Array (Array ℚ)) (len nbr : ℕ)
    (hsz : ∀ sub : ℕ, (sincs.getD sub #[]).size ≤ len) :
    Local ⟨len, nbr, scalarDot sincs⟩ := by
  intro w w' i i' sub h
  simp only [scalarDot]
  have hs := hsz sub
  have : ∀ (a : Array ℚ) (blk : ℕ), blk ∈ List.range ((sincs.getD sub #[]).size / 8) →
      (Array.range 8).map (fun j => a.getD j SNum.zero + w.getD (i + 8 * blk + j) SNum.zero *
        (sincs.getD sub #[]).getD (8 * blk + j) SNum.zero) =
      (Array.range 8).map (fun j => a.getD j SNum.zero + w'.getD (i' + 8 * blk + j) SNum.zero *
        (sincs.getD sub #[]).getD (8 * blk + j) SNum.zero) := by
    intro a blk hb
    have hb' := List.mem_range.1 hb
    apply Array.map_congr_left
    intro j hj
    have hj' : j < 8 := by simpa using hj
    have := h (8 * blk + j) (by simp only; omega)
    simp only [szero_eq, Nat.add_assoc] at this ⊢
    rw [this]
  rw [foldl_congr_mem _ _ _ _ this]

/-! ## L. non-vacuity -/

deriving instance DecidableEq for CallOut
deriving instance DecidableEq for Outcome

/-- the `call` constructor in the form convenient for evaluation -/
theorem Run.call' {s0 s : AState ℚ ℚ} {X O : List ℚ} (inp : Array ℚ) (outLen : ℕ) {out : CallOut ℚ}
    (hrun : Run s0 s X O) (h : (s.process (args1 inp outLen)).2 = .ok out) :
    Run s0 (s.process (args1 inp outLen)).1 (X ++ inp.toList.take out.nIn) (O ++ chanOut out) :=
  Run.call hrun (Prod.ext rfl h)

def dummyState : AState ℚ ℚ :=
  ⟨.fastIn, 0, 0, 0, 0, 0, 0, 0, 0, 0, 0, 0, .linear, .nearest, default, #[], []⟩

def unwrap (e : Except CErr (AState ℚ ℚ)) : AState ℚ ℚ :=
  match e with
  | .ok s => s
  | .error _ => dummyState

def isOkE (e : Except CErr (AState ℚ ℚ)) : Bool :=
  match e with
  | .ok _ => true
  | .error _ => false

theorem unwrap_ok {e : Except CErr (AState ℚ ℚ)} (h : isOkE e = true) : e = .ok (unwrap e) := by
  cases e with
  | ok s => rfl
  | error _ => simp [isOkE] at h

/-- `FastFixedOut`, linear, ratio 1/2, chunk 4 -/
def exOut : Except CErr (AState ℚ ℚ) := AState.init .fastOut (1 / 2) 2 .linear .nearest default 4 1
/-- `FastFixedIn`, linear, ratio 1/2, chunk 10 -/
def exIn : Except CErr (AState ℚ ℚ) := AState.init .fastIn (1 / 2) 3 .linear .nearest default 10 1

def exStream : Array ℚ := #[1, 2, 3, 4, 5, 6, 7, 8, 9, 10, 11, 12, 13, 14, 15, 16, 17, 18, 19, 20]

theorem exOut_ok : exOut = .ok (unwrap exOut) := unwrap_ok (by decide +kernel)
theorem exIn_ok : exIn = .ok (unwrap exIn) := unwrap_ok (by decide +kernel)

set_option maxRecDepth 10000 in
theorem exOut_call1 : ((unwrap exOut).process (args1 (exStream.extract 0 12) 4)).2 =
    .ok ⟨12, 4, [some #[0, 1, 3, 5]], false⟩ := by decide +kernel

/-- state after the first call of the fixed-output resampler -/
def exOut1 : AState ℚ ℚ := ((unwrap exOut).process (args1 (exStream.extract 0 12) 4)).1

theorem exOut_call2 : (exOut1.process (args1 (exStream.extract 12 20) 4)).2 =
    .ok ⟨8, 4, [some #[7, 9, 11, 13]], false⟩ := by decide +kernel

/-- the fixed-output run: 2 calls, 20 frames in (12 + 8), 8 frames out -/
theorem exOut_run : ∃ t, Run (unwrap exOut) t exStream.toList [0, 1, 3, 5, 7, 9, 11, 13] := by
  have r1 := Run.call' (exStream.extract 0 12) 4 Run.start exOut_call1
  have r2 := Run.call' (exStream.extract 12 20) 4 r1 exOut_call2
  exact ⟨_, r2⟩

def exIn1 : AState ℚ ℚ := ((unwrap exIn).process (args1 (exStream.extract 0 10) 15)).1

theorem exIn_call1 : ((unwrap exIn).process (args1 (exStream.extract 0 10) 15)).2 =
    .ok ⟨10, 2, [some #[0, 1]], false⟩ := by decide +kernel

theorem exIn_call2 : (exIn1.process (args1 (exStream.extract 10 20) 15)).2 =
    .ok ⟨10, 5, [some #[3, 5, 7, 9, 11]], false⟩ := by decide +kernel

/-- the fixed-input run: 2 calls of 10 frames, 2 + 5 frames out -/
theorem exIn_run : ∃ t, Run (unwrap exIn) t exStream.toList [0, 1, 3, 5, 7, 9, 11] := by
  have r1 := Run.call' (exStream.extract 0 10) 15 Run.start exIn_call1
  have r2 := Run.call' (exStream.extract 10 20) 15 r1 exIn_call2
  exact ⟨_, r2⟩

/-- the stream theorem applies to the fixed-output run: each frame is the linear interpolation of
the zero-extended stream at `τ_j = −4 + 2(j+1)` … -/
example (j : ℕ) (hj : j < 8) :
    ([0, 1, 3, 5, 7, 9, 11, 13] : List ℚ).getD j 0 =
      fastSpec .linear (Xz exStream.toList) (-((Lof .fastOut default / 2 : ℕ) : ℚ) + ((j : ℚ) + 1) / (1 / 2)) := by
  obtain ⟨t, hrun⟩ := exOut_run
  exact stream_spec exOut_ok (fun _ => by norm_num) nofun nofun hrun j hj

/-- … which indeed evaluates to these numbers -/
example : (List.range 8).map (fun j : ℕ => fastSpec .linear (Xz exStream.toList)
    (-((Lof .fastOut default / 2 : ℕ) : ℚ) + ((j : ℚ) + 1) / (1 / 2))) = [0, 1, 3, 5, 7, 9, 11, 13] := by
  decide +kernel

/-- `chunking_independent` applies to the pair (FastFixedOut chunk 4, FastFixedIn chunk 10) -/
example (j : ℕ) (hj : j < 7) :
    ([0, 1, 3, 5, 7, 9, 11, 13] : List ℚ).getD j 0 = ([0, 1, 3, 5, 7, 9, 11] : List ℚ).getD j 0 := by
  obtain ⟨t1, hrun1⟩ := exOut_run
  obtain ⟨t2, hrun2⟩ := exIn_run
  exact chunking_independent (kind1 := .fastOut) (kind2 := .fastIn) rfl exOut_ok exIn_ok
    (fun _ => by norm_num) (fun h => by simp [AKind.isFixedIn] at h) (by simp) nofun
    hrun1 hrun2 (List.prefix_refl _) (List.prefix_refl _) j (by simp; omega) (by simpa using hj)


/-! ### sinc kinds, with `set_chunk_size` in mid-stream -/

/-- a tiny interpolator: 8 taps, 4 sub-positions, linear between taps 3 and 4 -/
def ipB : Interp ℚ :=
  ⟨8, 4, fun w i sub => (w.getD (i + 3) 0 * (4 - (sub : ℚ)) + w.getD (i + 4) 0 * (sub : ℚ)) / 4⟩

theorem ipB_local : Local ipB := by
  intro w w' i i' sub h
  simp only [ipB]
  rw [h 3 (by norm_num [ipB]), h 4 (by norm_num [ipB])]

/-- `SincFixedOut`, cubic, ratio 3/2, chunk 6 (later 3) -/
def exSOut : Except CErr (AState ℚ ℚ) := AState.init .sincOut (3 / 2) 2 .linear .cubic ipB 6 1
/-- `SincFixedIn`, cubic, ratio 3/2, chunk 8 (later 5, then 7) -/
def exSIn : Except CErr (AState ℚ ℚ) := AState.init .sincIn (3 / 2) 2 .linear .cubic ipB 8 1

def exSq : Array ℚ := #[1, 4, 9, 16, 25, 36, 49, 64, 81, 100, 121, 144, 169, 196, 225, 256, 289,
  324, 361, 400, 441, 484, 529, 576]

theorem exSOut_ok : exSOut = .ok (unwrap exSOut) := unwrap_ok (by decide +kernel)
theorem exSIn_ok : exSIn = .ok (unwrap exSIn) := unwrap_ok (by decide +kernel)

def exSOut1 : AState ℚ ℚ := (((unwrap exSOut).process (args1 (exSq.extract 0 8) 6)).1.setChunk 3).1
def exSOut2 : AState ℚ ℚ := (exSOut1.process (args1 (exSq.extract 8 24) 3)).1

theorem exSOut_call1 : ((unwrap exSOut).process (args1 (exSq.extract 0 8) 6)).2 =
    .ok ⟨8, 6, [some #[2 / 3, 2, 4, 22 / 3, 34 / 3, 16]], false⟩ := by decide +kernel
theorem exSOut_call2 : (exSOut1.process (args1 (exSq.extract 8 24) 3)).2 =
    .ok ⟨2, 3, [some #[22, 86 / 3, 36]], false⟩ := by decide +kernel
theorem exSOut_call3 : (exSOut2.process (args1 (exSq.extract 10 24) 3)).2 =
    .ok ⟨2, 3, [some #[134 / 3, 54, 64]], false⟩ := by decide +kernel

/-- fixed-output sinc run: call (8 in, 6 out), `set_chunk_size(3)`, two calls (2 in, 3 out) each;
the second and third call are offered more input than they consume -/
theorem exSOut_run : ∃ t, Run (unwrap exSOut) t (exSq.toList.take 12)
    [2 / 3, 2, 4, 22 / 3, 34 / 3, 16, 22, 86 / 3, 36, 134 / 3, 54, 64] := by
  have r1 := Run.call' (exSq.extract 0 8) 6 Run.start exSOut_call1
  have r2 := Run.call' (exSq.extract 8 24) 3 (Run.setChunk 3 r1) exSOut_call2
  have r3 := Run.call' (exSq.extract 10 24) 3 r2 exSOut_call3
  exact ⟨_, r3⟩

def exSIn1 : AState ℚ ℚ := (((unwrap exSIn).process (args1 (exSq.extract 0 8) 22)).1.setChunk 5).1
def exSIn2 : AState ℚ ℚ := ((exSIn1.process (args1 (exSq.extract 8 13) 22)).1.setChunk 7).1

theorem exSIn_call1 : ((unwrap exSIn).process (args1 (exSq.extract 0 8) 22)).2 =
    .ok ⟨8, 3, [some #[2 / 3, 2, 4]], false⟩ := by decide +kernel
theorem exSIn_call2 : (exSIn1.process (args1 (exSq.extract 8 13) 22)).2 =
    .ok ⟨5, 8, [some #[22 / 3, 34 / 3, 16, 22, 86 / 3, 36, 134 / 3, 54]], false⟩ := by
  decide +kernel
theorem exSIn_call3 : (exSIn2.process (args1 (exSq.extract 13 20) 22)).2 =
    .ok ⟨7, 10, [some #[64, 226 / 3, 262 / 3, 100, 114, 386 / 3, 144, 482 / 3, 178, 196]], false⟩ := by
  decide +kernel

/-- fixed-input sinc run with two chunk-size changes (8, then 5, then 7 frames): the history shift
after a change uses the OLD fill (the `fix:` of `SincFixedIn`) -/
theorem exSIn_run : ∃ t, Run (unwrap exSIn) t (exSq.toList.take 20)
    [2 / 3, 2, 4, 22 / 3, 34 / 3, 16, 22, 86 / 3, 36, 134 / 3, 54, 64, 226 / 3, 262 / 3, 100, 114,
      386 / 3, 144, 482 / 3, 178, 196] := by
  have r1 := Run.call' (exSq.extract 0 8) 22 Run.start exSIn_call1
  have r2 := Run.call' (exSq.extract 8 13) 22 (Run.setChunk 5 r1) exSIn_call2
  have r3 := Run.call' (exSq.extract 13 20) 22 (Run.setChunk 7 r2) exSIn_call3
  exact ⟨_, r3⟩

/-- `chunking_independent` applies to the pair (SincFixedOut, SincFixedIn) with different chunk
schedules; the common stream is `exSq` -/
example (j : ℕ) (hj : j < 12) :
    ([2 / 3, 2, 4, 22 / 3, 34 / 3, 16, 22, 86 / 3, 36, 134 / 3, 54, 64] : List ℚ).getD j 0 =
    ([2 / 3, 2, 4, 22 / 3, 34 / 3, 16, 22, 86 / 3, 36, 134 / 3, 54, 64, 226 / 3, 262 / 3, 100, 114,
      386 / 3, 144, 482 / 3, 178, 196] : List ℚ).getD j 0 := by
  obtain ⟨t1, hrun1⟩ := exSOut_run
  obtain ⟨t2, hrun2⟩ := exSIn_run
  exact chunking_independent (kind1 := .sincOut) (kind2 := .sincIn) rfl exSOut_ok exSIn_ok
    (fun _ => by norm_num) (fun h => by simp [AKind.isFixedIn] at h) (fun _ => ⟨4, rfl⟩)
    (fun _ => ipB_local)
    hrun1 hrun2 (List.take_prefix _ _) (List.take_prefix _ _) j (by simpa using hj) (by simp; omega)

/-! ### finding D14 in action, and harmless: `SincFixedOut`, cubic, oversampling factor 2

The last position of each call is an integer; its fourth cubic point lies one frame beyond the
frames loaded by the call, the model reports `stale = true` (in the second call the stale cell
holds a frame of the first call, and the interpolator gives its last tap weight 1) — and the
output still is the specification, because the blend gives that point weight 0. -/

def ipC : Interp ℚ :=
  ⟨8, 2, fun w i sub => (w.getD (i + 3) 0 * (2 - (sub : ℚ)) + w.getD (i + 4) 0 * (sub : ℚ)) / 2
    + w.getD (i + 7) 0⟩

theorem ipC_local : Local ipC := by
  intro w w' i i' sub h
  simp only [ipC]
  rw [h 3 (by norm_num [ipC]), h 4 (by norm_num [ipC]), h 7 (by norm_num [ipC])]

def exD14 : Except CErr (AState ℚ ℚ) := AState.init .sincOut 1 2 .linear .cubic ipC 4 1
theorem exD14_ok : exD14 = .ok (unwrap exD14) := unwrap_ok (by decide +kernel)
def exD14s1 : AState ℚ ℚ := ((unwrap exD14).process (args1 (exSq.extract 0 8) 4)).1

theorem exD14_call1 : ((unwrap exD14).process (args1 (exSq.extract 0 8) 4)).2 =
    .ok ⟨8, 4, [some #[26, 40, 58, 80]], true⟩ := by decide +kernel
theorem exD14_call2 : (exD14s1.process (args1 (exSq.extract 8 24) 4)).2 =
    .ok ⟨4, 4, [some #[106, 136, 170, 208]], true⟩ := by decide +kernel

theorem exD14_run : ∃ t, Run (unwrap exD14) t (exSq.toList.take 12)
    [26, 40, 58, 80, 106, 136, 170, 208] := by
  have r1 := Run.call' (exSq.extract 0 8) 4 Run.start exD14_call1
  have r2 := Run.call' (exSq.extract 8 24) 4 r1 exD14_call2
  exact ⟨_, r2⟩

example (j : ℕ) (hj : j < 8) :
    ([26, 40, 58, 80, 106, 136, 170, 208] : List ℚ).getD j 0 =
      sincSpec .cubic ipC (Xz (exSq.toList.take 12))
        (-((Lof .sincOut ipC / 2 : ℕ) : ℚ) + ((j : ℚ) + 1) / 1) := by
  obtain ⟨t, hrun⟩ := exD14_run
  exact stream_spec exD14_ok (fun _ => by norm_num) (fun _ => ⟨4, rfl⟩) (fun _ => ipC_local) hrun j hj

end Rubato.Stream
