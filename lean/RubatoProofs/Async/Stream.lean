/-
Streaming refinement of the asynchronous resamplers (property C05, asynchronous half), ρ = σ = ℚ,
single channel:  the concatenated output is a function of the concatenated input, the parameters
and the (constant) ratio only.

Stream1  buffer invariant `BufOK` (fresh state, one call, setters), one call decomposed
Stream2  specifications `fastSpec` / `sincSpec`, value on the buffer = specification
here:
H  one call: every emitted frame is the specification at the global instant `consumed + p`
I  no emitted position reads beyond the frames loaded by its call (`UpperOK`), four kinds
J  the evaluation instants are chunking-independent: `τ_j = −(L/2) + j/r` (`Clock`)
K  runs of successful calls (+ `set_chunk_size`): `stream_spec`, `chunking_independent`
L  non-vacuity
-/
import RubatoProofs.Async.Stream2

namespace Rubato.Stream
open Rubato Rubato.Bridge Rubato.Gen

/-! ## H. value of one emitted frame -/

/-- the algorithm of a resampler: kernel family and its parameters -/
def specOf (sinc : Bool) (deg : Degree) (sint : SincInterp) (ip : Interp ℚ) (xz : ℤ → ℚ)
    (τ : ℚ) : ℚ :=
  if sinc then sincSpec sint ip xz τ else fastSpec deg xz τ

/-- position `p` reads nothing beyond the `n` frames loaded by the current call (buffer cells
`< 2L + n`): the "not stale" condition, per tap -/
def UpperOK (m : AState ℚ ℚ) (n : ℕ) (p : ℚ) : Prop :=
  if m.kind.isSinc then
    ∀ q ∈ nearestTimes m.sint p m.ip.nbr,
      q.1 + 2 * (m.L : ℤ) + m.ip.len ≤ 2 * (m.L : ℤ) + n
  else fastStart m.deg p + fastWidth m.deg ≤ 16 + (n : ℤ)

/-- the lower half comes for free from the range test the call passed -/
theorem lower_of_nofault_fast {m : AState ℚ ℚ} {len : ℕ} {p : ℚ} (hk : m.kind.isSinc = false)
    (h : posFault m len p = none) : 0 ≤ fastStart m.deg p := by
  unfold posFault at h
  simp only [hk, Bool.false_eq_true, if_false] at h
  split at h
  · rename_i hc; exact hc.1
  · simp at h

theorem lower_of_nofault_sinc {m : AState ℚ ℚ} {len : ℕ} {p : ℚ} (hk : m.kind.isSinc = true)
    (h : posFault m len p = none) :
    ∀ q ∈ nearestTimes m.sint p m.ip.nbr, 0 ≤ q.1 + 2 * (m.L : ℤ) := by
  unfold posFault at h
  simp only [hk, if_true] at h
  split at h
  · rename_i hc
    intro q hq
    have := List.all_eq_true.1 hc q hq
    simp only [sincPointOk, Bool.and_eq_true, decide_eq_true_eq] at this
    exact this.1.1.1
  · simp at h

/-- **2.** A position that passed the range test and reads nothing beyond the loaded frames
evaluates to the specification at the global instant `base + 2L + p`, on any stream `xz` the
first `2L + n` buffer cells agree with. -/
theorem posValue_eq_spec {m : AState ℚ ℚ} {b : Array ℚ} {n : ℕ} {xz : ℤ → ℚ} {base : ℤ} (p : ℚ)
    (H : Holds b (2 * m.L + n) xz base)
    (hfL : m.kind.isSinc = false → m.L = 8) (hloc : m.kind.isSinc = true → Local m.ip)
    (hnf : posFault m b.size p = none) (hup : UpperOK m n p) :
    posValue m b p =
      specOf m.kind.isSinc m.deg m.sint m.ip xz (((base + 2 * (m.L : ℤ) : ℤ) : ℚ) + p) := by
  unfold posValue specOf
  unfold UpperOK at hup
  by_cases hk : m.kind.isSinc = true
  · rw [if_pos hk] at hup ⊢
    rw [if_pos hk]
    have hlow := lower_of_nofault_sinc hk hnf
    apply sincValue_eq_spec m.sint (hloc hk) m.L p H
    intro q hq
    refine ⟨hlow q hq, ?_⟩
    have := hup q hq
    push_cast
    omega
  · have hk' : m.kind.isSinc = false := by simpa using hk
    rw [if_neg hk] at hup ⊢
    rw [if_neg hk]
    have hL := hfL hk'
    have hlow := lower_of_nofault_fast hk' hnf
    rw [hL] at H ⊢
    exact fastValue_eq_spec m.deg p H hlow (by push_cast; omega)

/-! ## I. nothing beyond the loaded frames is read (the four kinds, constant ratio) -/

theorem upper_fastIn {s : AState ℚ ℚ} {r : ℚ} (hr : 0 < r) (hk : s.kind = .fastIn) (hL : s.L = 8)
    (hratio : s.ratio = r) (htarget : s.target = r) {fuel : ℕ} {p : ℚ}
    (hp : p ∈ (FixedIn.callIn s.chunk s.L s.ratio s.target fuel s.lastIndex).1) :
    UpperOK s s.chunk p := by
  rw [hL, hratio, htarget] at hp
  have := FixedIn.fast_upper_safe_any hr hp s.deg
  unfold UpperOK
  simp only [hk, AKind.isSinc, Bool.false_eq_true, if_false]
  omega

theorem upper_sincIn {s : AState ℚ ℚ} {r : ℚ} (hr : 0 < r) (hk : s.kind = .sincIn)
    (hlen : s.ip.len = s.L) (hratio : s.ratio = r) (htarget : s.target = r) {fuel : ℕ} {p : ℚ}
    (hp : p ∈ (FixedIn.callIn s.chunk s.L s.ratio s.target fuel s.lastIndex).1) :
    UpperOK s s.chunk p := by
  rw [hratio, htarget] at hp
  obtain ⟨_, h2⟩ := FixedIn.pos_bounds_any hr hp
  have a2 : ⌊p⌋ < (s.chunk : ℤ) - (s.L : ℤ) - 1 := by rw [Int.floor_lt]; push_cast; linarith
  unfold UpperOK
  simp only [hk, AKind.isSinc, if_true]
  intro q hq
  have h3 := FixedIn.nearestTimes_index s.sint p s.ip.nbr hq
  rw [hlen]
  omega

theorem upper_fastOut {s : AState ℚ ℚ} (h : FixedOut.Inv s) (hk : s.kind = .fastOut) {p : ℚ}
    (hp : p ∈ stepsOut ((1 / s.target - 1 / s.ratio) / s.chunk) s.chunk (1 / s.ratio) s.lastIndex) :
    UpperOK s s.needed p := by
  have hL : s.L = 8 := h.fast_L hk
  have hl : -9 < s.lastIndex := by have := h.last_gt; rw [hL] at this; push_cast at this; linarith
  obtain ⟨_, b⟩ := FixedOut.fast_window_in_fill h.chunk_pos h.ratio_pos h.target_pos hl hp s.deg
  rw [← hL, ← h.needed_eq] at b
  unfold UpperOK
  simp only [hk, AKind.isSinc, Bool.false_eq_true, if_false]
  omega

theorem upper_sincOut {s : AState ℚ ℚ} (h : FixedOut.Inv s) (hk : s.kind = .sincOut)
    (hLip : s.ip.len = s.L) (hf : FixedOut.factorNoOvershoot s.sint s.ip.nbr) {p : ℚ}
    (hp : p ∈ stepsOut ((1 / s.target - 1 / s.ratio) / s.chunk) s.chunk (1 / s.ratio) s.lastIndex) :
    UpperOK s s.needed p := by
  have h0 : 0 < 1 / s.ratio := by have := h.ratio_pos; positivity
  have h1 : 0 < 1 / s.target := by have := h.target_pos; positivity
  obtain ⟨_, pu⟩ := FixedOut.pos_bounds h.chunk_pos h0 h1 hp
  have hadv := FixedOut.advance_pos h.chunk_pos h0 h1
  have hlast := h.last_gt
  have hx : -1 < s.lastIndex + FixedOut.advance s.chunk (1 / s.ratio) (1 / s.target) + (s.L : ℚ) := by
    linarith
  have hn : (s.needed : ℤ) =
      ⌈s.lastIndex + FixedOut.advance s.chunk (1 / s.ratio) (1 / s.target)⌉ + s.L := by
    rw [h.needed_eq]; exact FixedOut.neededSinc_cast hx
  unfold UpperOK
  simp only [hk, AKind.isSinc, if_true]
  intro q hq
  have := FixedOut.nearestTimes_fst_le_ceil_strong s.sint pu hf q hq
  rw [hLip]; omega

/-! ## J. evaluation instants -/

/-- fixed-input call at constant ratio that did not run out of room: positions
`last + (k+1)/r`, and `lastIndex + consumed` advances by `(frames emitted)/r` -/
theorem positions_in {r : ℚ} (hr : 0 < r) (c L fuel : ℕ) (last : ℚ)
    (hrun : (FixedIn.callIn c L r r fuel last).2.2 = false) :
    (∀ (k : ℕ) (hk : k < (FixedIn.callIn c L r r fuel last).1.length),
      (FixedIn.callIn c L r r fuel last).1[k] = last + ((k : ℚ) + 1) * (1 / r)) ∧
    FixedIn.nextLast c L r r fuel last + (c : ℚ) =
      last + ((FixedIn.callIn c L r r fuel last).1.length : ℚ) * (1 / r) := by
  have ht : (0 : ℚ) < 1 / r := by positivity
  have hf : FixedIn.nC c L r last ≤ fuel := by
    rw [FixedIn.callIn_const, FixedIn.stepsIn_ranOut ht] at hrun
    exact Nat.le_of_not_lt (of_decide_eq_false hrun)
  constructor
  · intro k hk
    have e := FixedIn.stepsIn_positions (e := FixedIn.eC c L r) ht hf
    simp only [FixedIn.callIn_const] at hk ⊢
    simp only [e, List.getElem_map, List.getElem_range]
  · have := FixedIn.potential_step hr c L hf 0
    linarith

/-- fixed-output call at constant ratio: positions `last + (k+1)·t`, end `last + c·t` -/
theorem positions_out (c : ℕ) (t last : ℚ) :
    (∀ (k : ℕ) (hk : k < (stepsOut ((t - t) / c) c t last).length),
      (stepsOut ((t - t) / c) c t last)[k] = last + ((k : ℚ) + 1) * t) ∧
    stepsOutLast ((t - t) / c) c t last = last + (c : ℚ) * t := by
  constructor
  · intro k hk
    simp only [FixedOut.stepsOut_eq_map, List.getElem_map, List.getElem_range, FixedOut.pos]
    push_cast
    ring
  · rw [FixedOut.stepsOutLast_closed]; ring

/-! ## K. runs -/

/-- everything the streaming argument carries from call to call.  `X` = input consumed so far,
`O` = output produced so far, `r` = the (constant) ratio. -/
structure Track (r : ℚ) (s : AState ℚ ℚ) (X O : List ℚ) : Prop where
  nch : s.nch = 1
  ratio : s.ratio = r
  target : s.target = r
  buf : BufOK s X
  fastL : s.kind.isSinc = false → s.L = 8
  sincL : s.kind.isSinc = true → s.ip.len = s.L
  loc : s.kind.isSinc = true → Local s.ip
  noOver : s.kind = .sincOut → FixedOut.factorNoOvershoot s.sint s.ip.nbr
  outInv : s.kind.isFixedIn = false → FixedOut.Inv s
  /-- **3.** the clock: `lastIndex + consumed = −(L/2) + produced / r` -/
  clock : s.lastIndex + (X.length : ℚ) = -((s.L / 2 : ℕ) : ℚ) + (O.length : ℚ) / r
  /-- **4.** every frame produced so far is the specification at `τ_j = −(L/2) + (j+1)/r`, on the
  stream consumed so far and on any extension of it -/
  spec : ∀ (Y : List ℚ) (j : ℕ), j < O.length →
    O.getD j 0 = specOf s.kind.isSinc s.deg s.sint s.ip (Xz (X ++ Y))
      (-((s.L / 2 : ℕ) : ℚ) + ((j : ℚ) + 1) / r)

theorem getD_append_map {O ps : List ℚ} (f : ℚ → ℚ) (k : ℕ) (hk : k < ps.length) :
    (O ++ ps.map f).getD (O.length + k) 0 = f ps[k] := by
  rw [List.getD_eq_getElem?_getD, List.getElem?_append_right (by omega)]
  simp [hk]

/-- the common part of one successful call -/
theorem track_step {r : ℚ} (hr : 0 < r) {s s' : AState ℚ ℚ} {X O : List ℚ} {inp : Array ℚ}
    {out : CallOut ℚ} {ps : List ℚ} {n : ℕ} (T : Track r s X O) (hfr : ProcFrame s s')
    (cf : CallFacts s s' inp out ps) (hn : s.minIn = n)
    (hup : ∀ p ∈ ps, UpperOK s n p)
    (hpos : ∀ (k : ℕ) (hk : k < ps.length), ps[k] = s.lastIndex + ((k : ℚ) + 1) * (1 / r))
    (hlast : s'.lastIndex + (n : ℚ) = s.lastIndex + (ps.length : ℚ) * (1 / r))
    (hratio : s'.ratio = r) (htarget : s'.target = r)
    (hinv' : s'.kind.isFixedIn = false → FixedOut.Inv s')
    (hB : BufOK s' (X ++ inp.toList.take out.nIn)) :
    Track r s' (X ++ inp.toList.take out.nIn) (O ++ chanOut out) := by
  have hrne : r ≠ 0 := hr.ne'
  have hlenX : (X ++ inp.toList.take out.nIn).length = X.length + n := by
    have h3 := cf.rng3
    rw [hn] at h3
    have : (inp.toList.take n).length = n := by
      rw [List.length_take, Array.length_toList]; omega
    rw [cf.nIn, hn, List.length_append, this]
  have hlenO : (O ++ chanOut out).length = O.length + ps.length := by
    rw [cf.outv, List.length_append, List.length_map]
  refine ⟨by rw [hfr.nch]; exact T.nch, hratio, htarget, hB, ?_, ?_, ?_, ?_, hinv', ?_, ?_⟩
  · rw [hfr.kind, hfr.L]; exact T.fastL
  · rw [hfr.kind, hfr.L, hfr.ip]; exact T.sincL
  · rw [hfr.kind, hfr.ip]; exact T.loc
  · rw [hfr.kind, hfr.ip, hfr.sint]; exact T.noOver
  · rw [hlenX, hlenO, hfr.L]
    have := T.clock
    push_cast
    field_simp
    field_simp at this hlast
    linarith
  · intro Y j hj
    rw [hfr.kind, hfr.deg, hfr.sint, hfr.ip, hfr.L]
    by_cases hjO : j < O.length
    · have := T.spec (inp.toList.take out.nIn ++ Y) j hjO
      rw [List.append_assoc, ← this]
      simp only [List.getD_eq_getElem?_getD, List.getElem?_append_left hjO]
    · obtain ⟨k, rfl⟩ : ∃ k, j = O.length + k := ⟨j - O.length, by omega⟩
      have hk : k < ps.length := by omega
      rw [cf.outv, getD_append_map _ k hk]
      have hmem : ps[k] ∈ ps := List.getElem_mem hk
      have hg : s'.buf.getD 0 #[] = newBuf s inp := by rw [cf.buf]; rfl
      have hH := hB.val_ext Y
      rw [hg, cf.fill, hfr.L, hn] at hH
      have hv := posValue_eq_spec (m := midState s inp) (n := n) ps[k] hH T.fastL T.loc
        (cf.nofault _ hmem) (hup _ hmem)
      rw [hv]
      congr 1
      rw [hpos k hk, hlenX]
      have hc := T.clock
      show ((((X.length + n : ℕ) : ℤ) - (n : ℤ) - 2 * (s.L : ℤ) + 2 * (s.L : ℤ) : ℤ) : ℚ) + _ = _
      push_cast
      field_simp
      field_simp at hc
      linarith

end Rubato.Stream
