/-
Finding D17, proved on the model: when the step of a fixed-input stepping loop has turned non-positive while the ramp
increment is non-positive too (a ramp whose increment overshoots the target: `chunk·mean(ratio, target) < 1`), the read
position never reaches `end_idx`: the loop consumes ANY amount of fuel.  With an active channel that is the out-of-range
write of D3/D4; with no active channel nothing stops the real loop.
-/
import RubatoProofs.Async.FixedIn

namespace Rubato.Diverge
open Rubato Rubato.Bridge

/-- [exact] the stepping loop runs out of every fuel once `t + inc ≤ 0`, `inc ≤ 0` and `idx < end_idx` -/
theorem stepsIn_diverges (inc endIdx : ℚ) (hinc : inc ≤ 0) :
    ∀ (fuel : ℕ) (t idx : ℚ), t + inc ≤ 0 → idx < endIdx → (stepsIn inc endIdx fuel t idx).2.2 = true
  | 0, t, idx, _, hi => by
    simp [stepsIn, hi]
  | fuel + 1, t, idx, ht, hi => by
    have hlt : RNum.lt idx endIdx = true := by simp [hi]
    have hrec := stepsIn_diverges inc endIdx hinc fuel (t + inc) (idx + (t + inc)) (by linarith) (by linarith)
    unfold stepsIn
    rw [if_pos hlt]
    exact hrec

/-- … and it emits exactly `fuel` positions on the way (one output frame per unit of fuel: with an active channel the
write index reaches the end of the output buffer) -/
theorem stepsIn_diverges_length (inc endIdx : ℚ) (hinc : inc ≤ 0) :
    ∀ (fuel : ℕ) (t idx : ℚ), t + inc ≤ 0 → idx < endIdx → (stepsIn inc endIdx fuel t idx).1.length = fuel
  | 0, t, idx, _, hi => by
    simp [stepsIn]
  | fuel + 1, t, idx, ht, hi => by
    have hlt : RNum.lt idx endIdx = true := by simp [hi]
    have hrec := stepsIn_diverges_length inc endIdx hinc fuel (t + inc) (idx + (t + inc)) (by linarith) (by linarith)
    unfold stepsIn
    rw [if_pos hlt]
    simp [hrec]

/-- the configuration of the replayed history: chunk 2, ratio 0.197 → target 0.403 (a ramp of 0.6 output frames): the
increment is −4.3 per frame, after ONE step the step is already negative -/
example :
    let t0 : ℚ := 1 / (197 / 1000)
    let t1 : ℚ := 1 / (403 / 1000)
    let inc : ℚ := (t1 - t0) / (2 * ((1 / 2) * (197 / 1000) + (1 / 2) * (403 / 1000)))
    inc ≤ 0 ∧ (t0 + inc) + inc ≤ 0 := by
  norm_num

end Rubato.Diverge
