/-
Fixed-OUTPUT asynchronous resamplers (`.fastOut`, `.sincOut`) at exact arithmetic (ρ = σ = ℚ).

A  closed form of the stepping loop (`stepsOut`, `stepsOutLast`)
B  spacing of the positions: a continuous, forward-only time warp
C  the request for input (`needed`), the carry of `lastIndex`, the invariant `Inv` and its
   preservation by `init`, `setRatio`, `setChunk`, `reset`, `finishOut`, `process`
D  window safety of the polynomial kernels (`fast_window_in_fill`, `fastOut_no_fault`)
E  `needed < input_frames_max()` (`needed_le_inMaxOut`)
F  index bounds of the sinc point lists (`nearestTimes_bounds`, `sincOut_no_fault`,
   `sincOut_not_stale`), the allocated buffer length suffices (`bufLen_sufficient`);
   findings D12 (`sinc_factor_one_faults`) and D14 (example in G)
G  non-vacuity examples
H  a call whose buffers are long enough succeeds (`fastOut_finish_ok`, `sincOut_finish_ok`)
I  `refill` succeeds and keeps the buffer lengths; `process_no_panic`
J  `Good` = all invariants; kept by every API call in any order (`good_foldl`,
   `process_after_any_history`)

See REPORT_FixedOut.md for the list of statements and the extra hypotheses.
-/
import RubatoProofs.Lemmas.RatBridge
import Mathlib.Tactic.FieldSimp

namespace Rubato.FixedOut
open Rubato Rubato.Bridge Rubato.Gen

/-! ## A. Closed forms of the stepping loop -/

/-- the `k`-th position (1-based; `k = 0` is the start) of the loop `t += inc; idx += t` -/
def pos (inc t idx : ℚ) (k : ℕ) : ℚ := idx + k * t + inc * k * (k + 1) / 2

/-- the `j`-th step (1-based) of the loop: the value of `t` after `j` increments -/
def step (inc t : ℚ) (j : ℕ) : ℚ := t + j * inc

@[simp] theorem pos_zero (inc t idx : ℚ) : pos inc t idx 0 = idx := by simp [pos]

/-- consecutive positions differ by the step -/
theorem pos_succ (inc t idx : ℚ) (j : ℕ) :
    pos inc t idx (j + 1) = pos inc t idx j + step inc t (j + 1) := by
  simp only [pos, step]; push_cast; ring

theorem pos_succ_sub (inc t idx : ℚ) (j : ℕ) :
    pos inc t idx (j + 1) - pos inc t idx j = t + ((j : ℚ) + 1) * inc := by
  rw [pos_succ]; simp only [step]; push_cast; ring

theorem stepsOutLast_closed (inc : ℚ) (n : ℕ) (t idx : ℚ) :
    stepsOutLast inc n t idx = idx + n * t + inc * n * (n + 1) / 2 := by
  induction n generalizing t idx with
  | zero => simp [stepsOutLast]
  | succ n ih =>
    rw [stepsOutLast, ih]; push_cast; ring

theorem stepsOutLast_eq_pos (inc : ℚ) (n : ℕ) (t idx : ℚ) :
    stepsOutLast inc n t idx = pos inc t idx n := stepsOutLast_closed inc n t idx

/-- the list of positions is `[pos 1, …, pos n]` -/
theorem stepsOut_eq_map (inc : ℚ) (n : ℕ) (t idx : ℚ) :
    stepsOut inc n t idx = (List.range n).map (fun k => pos inc t idx (k + 1)) := by
  induction n generalizing t idx with
  | zero => simp [stepsOut]
  | succ n ih =>
    rw [stepsOut, ih, List.range_succ_eq_map, List.map_cons, List.map_map]
    congr 1
    · simp only [pos]; push_cast; ring
    · apply List.map_congr_left
      intro k _
      simp only [pos, Function.comp]; push_cast; ring

@[simp] theorem stepsOut_length (inc : ℚ) (n : ℕ) (t idx : ℚ) :
    (stepsOut inc n t idx).length = n := by
  rw [stepsOut_eq_map]; simp

/-- the `k`-th element (0-based `k`, i.e. the `(k+1)`-th position) -/
theorem stepsOut_getElem? (inc : ℚ) (n : ℕ) (t idx : ℚ) (k : ℕ) (hk : k < n) :
    (stepsOut inc n t idx)[k]? = some (idx + ((k : ℚ) + 1) * t + inc * ((k : ℚ) + 1) * ((k : ℚ) + 2) / 2) := by
  rw [stepsOut_eq_map, List.getElem?_map, List.getElem?_range hk]
  simp only [Option.map_some, pos]; push_cast; congr 1; ring

theorem mem_stepsOut {inc : ℚ} {n : ℕ} {t idx p : ℚ} :
    p ∈ stepsOut inc n t idx ↔ ∃ k : ℕ, 1 ≤ k ∧ k ≤ n ∧ p = pos inc t idx k := by
  rw [stepsOut_eq_map, List.mem_map]
  constructor
  · rintro ⟨k, hk, rfl⟩
    exact ⟨k + 1, by omega, by have := List.mem_range.1 hk; omega, rfl⟩
  · rintro ⟨k, h1, h2, rfl⟩
    exact ⟨k - 1, List.mem_range.2 (by omega), by rw [Nat.sub_add_cancel h1]⟩

/-- the last position of the list is what `stepsOutLast` returns -/
theorem stepsOut_getLast? (inc : ℚ) (n : ℕ) (t idx : ℚ) (hn : 0 < n) :
    (stepsOut inc n t idx).getLast? = some (stepsOutLast inc n t idx) := by
  rw [List.getLast?_eq_getElem?, stepsOut_length, stepsOutLast_eq_pos, stepsOut_eq_map,
    List.getElem?_map, List.getElem?_range (by omega)]
  simp only [Option.map_some]; rw [Nat.sub_add_cancel hn]

/-! ## B. Spacing: a continuous, forward-only time warp -/

section Spacing
variable {t0 t1 : ℚ} {c : ℕ}

/-- the step is the convex combination `(1 − j/c)·t0 + (j/c)·t1` -/
theorem step_convex (hc : 0 < c) (j : ℕ) :
    step ((t1 - t0) / c) t0 j = (1 - (j : ℚ) / c) * t0 + ((j : ℚ) / c) * t1 := by
  have : (c : ℚ) ≠ 0 := by positivity
  simp only [step]; field_simp; ring

theorem step_at_zero (inc t : ℚ) : step inc t 0 = t := by simp [step]

/-- the last step of the chunk is exactly `t1 = 1/target` -/
theorem step_at_chunk (hc : 0 < c) : step ((t1 - t0) / c) t0 c = t1 := by
  have : (c : ℚ) ≠ 0 := by positivity
  simp only [step]; field_simp; ring

theorem step_ge_min (hc : 0 < c) {j : ℕ} (hj : j ≤ c) :
    min t0 t1 ≤ step ((t1 - t0) / c) t0 j := by
  rw [step_convex hc]
  have hc' : (0 : ℚ) < c := by positivity
  have h0 : (0 : ℚ) ≤ (j : ℚ) / c := by positivity
  have h1 : (j : ℚ) / c ≤ 1 := by
    rw [div_le_one hc']; exact_mod_cast hj
  have ha := min_le_left t0 t1
  have hb := min_le_right t0 t1
  nlinarith [mul_le_mul_of_nonneg_left ha (sub_nonneg.2 h1), mul_le_mul_of_nonneg_left hb h0]

theorem step_le_max (hc : 0 < c) {j : ℕ} (hj : j ≤ c) :
    step ((t1 - t0) / c) t0 j ≤ max t0 t1 := by
  rw [step_convex hc]
  have hc' : (0 : ℚ) < c := by positivity
  have h0 : (0 : ℚ) ≤ (j : ℚ) / c := by positivity
  have h1 : (j : ℚ) / c ≤ 1 := by
    rw [div_le_one hc']; exact_mod_cast hj
  have ha := le_max_left t0 t1
  have hb := le_max_right t0 t1
  nlinarith [mul_le_mul_of_nonneg_left ha (sub_nonneg.2 h1), mul_le_mul_of_nonneg_left hb h0]

/-- every step of the chunk lies between the old and the new step length -/
theorem step_mem_Icc (hc : 0 < c) {j : ℕ} (hj : j ≤ c) :
    min t0 t1 ≤ step ((t1 - t0) / c) t0 j ∧ step ((t1 - t0) / c) t0 j ≤ max t0 t1 :=
  ⟨step_ge_min hc hj, step_le_max hc hj⟩

/-- forward only: every step is positive -/
theorem step_pos (hc : 0 < c) (h0 : 0 < t0) (h1 : 0 < t1) {j : ℕ} (hj : j ≤ c) :
    0 < step ((t1 - t0) / c) t0 j :=
  lt_of_lt_of_le (lt_min h0 h1) (step_ge_min hc hj)

/-- monotone towards `t1` (rising ramp) -/
theorem step_mono_of_le (hc : 0 < c) (h : t0 ≤ t1) {j k : ℕ} (hjk : j ≤ k) :
    step ((t1 - t0) / c) t0 j ≤ step ((t1 - t0) / c) t0 k := by
  simp only [step]
  have hinc : 0 ≤ (t1 - t0) / c := div_nonneg (sub_nonneg.2 h) (by positivity)
  have : (j : ℚ) ≤ k := by exact_mod_cast hjk
  nlinarith

/-- monotone towards `t1` (falling ramp) -/
theorem step_anti_of_ge (hc : 0 < c) (h : t1 ≤ t0) {j k : ℕ} (hjk : j ≤ k) :
    step ((t1 - t0) / c) t0 k ≤ step ((t1 - t0) / c) t0 j := by
  simp only [step]
  have hinc : (t1 - t0) / c ≤ 0 := div_nonpos_of_nonpos_of_nonneg (sub_nonpos.2 h) (by positivity)
  have : (j : ℚ) ≤ k := by exact_mod_cast hjk
  nlinarith

/-- the distance of the step to the target step shrinks linearly: `t1 − step j = (1 − j/c)(t1 − t0)` -/
theorem step_dist (hc : 0 < c) (j : ℕ) :
    t1 - step ((t1 - t0) / c) t0 j = (1 - (j : ℚ) / c) * (t1 - t0) := by
  rw [step_convex hc]; ring

/-- monotone towards `t1`, direction-free formulation -/
theorem step_towards (hc : 0 < c) {j k : ℕ} (hjk : j ≤ k) (hk : k ≤ c) :
    |t1 - step ((t1 - t0) / c) t0 k| ≤ |t1 - step ((t1 - t0) / c) t0 j| := by
  rw [step_dist hc, step_dist hc, abs_mul, abs_mul]
  apply mul_le_mul_of_nonneg_right _ (abs_nonneg _)
  have hc' : (0 : ℚ) < c := by positivity
  have hk1 : (k : ℚ) / c ≤ 1 := by rw [div_le_one hc']; exact_mod_cast hk
  have hjk' : (j : ℚ) / c ≤ (k : ℚ) / c := by
    apply div_le_div_of_nonneg_right _ hc'.le; exact_mod_cast hjk
  rw [abs_of_nonneg (by linarith), abs_of_nonneg (by linarith)]
  linarith

/-- no ramp: every step is `t0` -/
theorem step_const (t : ℚ) (c j : ℕ) : step ((t - t) / c) t j = t := by
  simp [step]

/-- one step forward -/
theorem pos_lt_succ (hc : 0 < c) (h0 : 0 < t0) (h1 : 0 < t1) (idx : ℚ) {j : ℕ} (hj : j + 1 ≤ c) :
    pos ((t1 - t0) / c) t0 idx j < pos ((t1 - t0) / c) t0 idx (j + 1) := by
  rw [pos_succ]; linarith [step_pos hc h0 h1 hj]

/-- the positions are strictly increasing -/
theorem pos_strictMono (hc : 0 < c) (h0 : 0 < t0) (h1 : 0 < t1) (idx : ℚ) {j k : ℕ}
    (hjk : j < k) (hk : k ≤ c) :
    pos ((t1 - t0) / c) t0 idx j < pos ((t1 - t0) / c) t0 idx k := by
  induction k with
  | zero => omega
  | succ k ih =>
    rcases Nat.lt_succ_iff_lt_or_eq.1 hjk with h | h
    · exact lt_trans (ih h (by omega)) (pos_lt_succ hc h0 h1 idx hk)
    · subst h; exact pos_lt_succ hc h0 h1 idx hk

theorem pos_mono (hc : 0 < c) (h0 : 0 < t0) (h1 : 0 < t1) (idx : ℚ) {j k : ℕ}
    (hjk : j ≤ k) (hk : k ≤ c) :
    pos ((t1 - t0) / c) t0 idx j ≤ pos ((t1 - t0) / c) t0 idx k := by
  rcases Nat.lt_or_eq_of_le hjk with h | h
  · exact (pos_strictMono hc h0 h1 idx h hk).le
  · subst h; exact le_rfl

/-- the list of positions is strictly increasing (`Pairwise (· < ·)`) -/
theorem stepsOut_pairwise_lt (hc : 0 < c) (h0 : 0 < t0) (h1 : 0 < t1) (idx : ℚ) :
    (stepsOut ((t1 - t0) / c) c t0 idx).Pairwise (· < ·) := by
  rw [stepsOut_eq_map, List.pairwise_map]
  have hr : (List.range c).Pairwise (· < ·) := List.pairwise_lt_range
  refine (List.Pairwise.and_mem.1 hr).imp ?_
  rintro a b ⟨_, hb, hab⟩
  exact pos_strictMono hc h0 h1 idx (by omega) (by have := List.mem_range.1 hb; omega)

/-- Stated with the ratios: `r0, r1 > 0`, steps `1/r0 → 1/r1`. -/
theorem spacing (r0 r1 : ℚ) (hr0 : 0 < r0) (hr1 : 0 < r1) (hc : 0 < c) {j : ℕ} (_h1 : 1 ≤ j)
    (hj : j ≤ c) :
    let inc := (1 / r1 - 1 / r0) / c
    min (1 / r0) (1 / r1) ≤ step inc (1 / r0) j ∧ step inc (1 / r0) j ≤ max (1 / r0) (1 / r1) ∧
      0 < step inc (1 / r0) j ∧ step inc (1 / r0) c = 1 / r1 := by
  have h0 : 0 < 1 / r0 := by positivity
  have h1 : 0 < 1 / r1 := by positivity
  exact ⟨step_ge_min hc hj, step_le_max hc hj, step_pos hc h0 h1 hj, step_at_chunk hc⟩

end Spacing

/-! ## C. The request for input (`needed`) and the carry of `lastIndex` -/

/-- input time covered by one call: `c` steps ramping from `t0` to `t1`, `= Σ_{j=1..c} step j` -/
def advance (c : ℕ) (t0 t1 : ℚ) : ℚ := c * t0 + (1 / 2) * ((c : ℚ) + 1) * (t1 - t0)

/-- the closed form of the loop is the `advance` the needed-size formula uses -/
theorem advance_eq {c : ℕ} (hc : 0 < c) (t0 t1 : ℚ) :
    (c : ℚ) * t0 + (t1 - t0) / c * c * ((c : ℚ) + 1) / 2 = advance c t0 t1 := by
  have : (c : ℚ) ≠ 0 := by positivity
  simp only [advance]; field_simp

theorem advance_same (c : ℕ) (t : ℚ) : advance c t t = c * t := by simp [advance]

/-- the argument of `⌈·⌉` in `neededSinc`, in the two forms of the task statement -/
theorem needed_arg_eq {c : ℕ} (hc : 0 < c) (last r0 r1 : ℚ) (L : ℕ) :
    last + c * (1 / r0) + (1 / r1 - 1 / r0) / c * c * ((c : ℚ) + 1) / 2 + L
      = last + c / r0 + (1 / 2) * ((c : ℚ) + 1) * (1 / r1 - 1 / r0) + L := by
  have : (c : ℚ) ≠ 0 := by positivity
  field_simp

/-- after the loop: `idx = last + advance` -/
theorem stepsOutLast_eq_advance {c : ℕ} (hc : 0 < c) (t0 t1 last : ℚ) :
    stepsOutLast ((t1 - t0) / c) c t0 last = last + advance c t0 t1 := by
  rw [stepsOutLast_closed, ← advance_eq hc]; ring

theorem pos_chunk_eq_advance {c : ℕ} (hc : 0 < c) (t0 t1 last : ℚ) :
    pos ((t1 - t0) / c) t0 last c = last + advance c t0 t1 := by
  rw [← stepsOutLast_eq_pos, stepsOutLast_eq_advance hc]

/-- `x as usize` of an integer-valued control number -/
theorem toNat_intCast (i : ℤ) : RNum.toNat (i : ℚ) = i.toNat := by
  rw [toNat_eq]
  split
  · simp
  · rename_i h
    have : i < 0 := by
      by_contra h'
      exact h (by exact_mod_cast (not_lt.1 h'))
    omega

/-- `neededSinc` at exact arithmetic -/
theorem neededSinc_eq (last : ℚ) (c : ℕ) (r tg : ℚ) (L : ℕ) :
    neededSinc last c r tg L = ⌈last + advance c (1 / r) (1 / tg) + L⌉.toNat := by
  simp only [neededSinc, advanceBase32, advanceRamp32, half32, n32_eq, ofNat32_eq, add32_eq,
    sub32_eq, mul32_eq, div32_eq, ceil_eq, half_eq, one_eq, toNat_intCast, advance]
  congr 2
  push_cast; ring

/-- the three formulas of the Rust code agree (exact arithmetic) -/
theorem neededFastSet_eq (last : ℚ) (c : ℕ) (r tg : ℚ) (L : ℕ) :
    neededFastSet last c r tg L = neededSinc last c r tg L := rfl

theorem neededFastAfter_eq (last : ℚ) (c : ℕ) (r : ℚ) (L : ℕ) :
    neededFastAfter last c r L = neededSinc last c r r L := by
  rw [neededSinc_eq, advance_same]
  simp only [neededFastAfter, n32_eq, ofNat32_eq, add32_eq, div32_eq, ceil_eq, toNat_intCast]
  congr 2
  ring

/-- the constructor's formula agrees with the general one when `L` is even -/
theorem neededInit_eq {c : ℕ} {r : ℚ} (hr : 0 < r) {L : ℕ} (hL : 2 ∣ L) :
    neededInit c r L = neededSinc (-((L / 2 : ℕ) : ℚ)) c r r L := by
  obtain ⟨m, rfl⟩ := hL
  rw [neededSinc_eq, advance_same]
  simp only [neededInit, ofNat_eq, ceil_eq, toNat_intCast]
  have h2 : 2 * m / 2 = m := by omega
  rw [h2]
  have : -(m : ℚ) + (c : ℚ) * (1 / r) + ((2 * m : ℕ) : ℚ) = (c : ℚ) / r + ((m : ℤ) : ℚ) := by
    push_cast; ring
  rw [this, Int.ceil_add_intCast]
  have hnn : 0 ≤ ⌈(c : ℚ) / r⌉ := Int.ceil_nonneg (by positivity)
  omega

/-- for odd `L` the constructor asks for one frame less than the general formula -/
theorem neededInit_odd {c : ℕ} {r : ℚ} (hr : 0 < r) {L : ℕ} (hL : ¬ 2 ∣ L) :
    neededInit c r L + 1 = neededSinc (-((L / 2 : ℕ) : ℚ)) c r r L := by
  obtain ⟨m, rfl⟩ : ∃ m, L = 2 * m + 1 := ⟨L / 2, by omega⟩
  rw [neededSinc_eq, advance_same]
  simp only [neededInit, ofNat_eq, ceil_eq, toNat_intCast]
  have h2 : (2 * m + 1) / 2 = m := by omega
  rw [h2]
  have : -(m : ℚ) + (c : ℚ) * (1 / r) + ((2 * m + 1 : ℕ) : ℚ) = (c : ℚ) / r + ((m + 1 : ℤ) : ℚ) := by
    push_cast; ring
  rw [this, Int.ceil_add_intCast]
  have hnn : 0 ≤ ⌈(c : ℚ) / r⌉ := Int.ceil_nonneg (by positivity)
  omega

/-- `advance` is a sum of `c` positive steps, so it is positive -/
theorem advance_pos {c : ℕ} (hc : 0 < c) {t0 t1 : ℚ} (h0 : 0 < t0) (h1 : 0 < t1) :
    0 < advance c t0 t1 := by
  have h := pos_strictMono hc h0 h1 0 (j := 0) (k := c) hc le_rfl
  rw [pos_zero, pos_chunk_eq_advance hc] at h
  linarith

/-- **Uniform carry lemma.**  Whatever `last` is: if `needed = ⌈last + adv + L⌉` (no saturation:
`−1 < last + adv + L`) then the new `lastIndex = (last + adv) − needed` lies in `(−L−1, −L]`. -/
theorem carry_uniform (last adv : ℚ) (L : ℕ) (hx : -1 < last + adv + L) :
    0 ≤ ⌈last + adv + L⌉ ∧
    -((L : ℚ) + 1) < last + adv - ((⌈last + adv + L⌉.toNat : ℕ) : ℚ) ∧
      last + adv - ((⌈last + adv + L⌉.toNat : ℕ) : ℚ) ≤ -(L : ℚ) := by
  have h0 : 0 ≤ ⌈last + adv + L⌉ := by
    have : (-1 : ℤ) < ⌈last + adv + L⌉ := by
      rw [Int.lt_ceil]; exact_mod_cast hx
    omega
  have hcast : ((⌈last + adv + L⌉.toNat : ℕ) : ℚ) = (⌈last + adv + L⌉ : ℚ) := by
    have : ((⌈last + adv + L⌉.toNat : ℕ) : ℤ) = ⌈last + adv + L⌉ := Int.toNat_of_nonneg h0
    exact_mod_cast this
  rw [hcast]
  have h1 := Int.le_ceil (last + adv + L)
  have h2 := Int.ceil_lt_add_one (last + adv + L)
  exact ⟨h0, by linarith, by linarith⟩

/-- If the request saturates (`last + adv + L ≤ −1`) nothing is loaded and the carry leaves the
interval: the hypothesis of `carry_uniform` is necessary. -/
theorem carry_saturated (last adv : ℚ) (L : ℕ) (hx : last + adv + L ≤ -1) :
    ⌈last + adv + L⌉.toNat = 0 ∧
      last + adv - ((⌈last + adv + L⌉.toNat : ℕ) : ℚ) ≤ -((L : ℚ) + 1) := by
  have h0 : ⌈last + adv + L⌉ ≤ -1 := by
    rw [Int.ceil_le]; exact_mod_cast hx
  have : ⌈last + adv + L⌉.toNat = 0 := by omega
  rw [this]; constructor
  · rfl
  · simp only [Nat.cast_zero, sub_zero]; linarith

/-- The carry of one call of a fixed-output resampler.  `x = last + advance + L` is the argument
of `⌈·⌉` in `neededSinc`.  Two admissible starting points: the steady state
`−(L+1) < last ≤ −L` and the state after construction / `reset`, `last = −(L/2)`. -/
theorem carry_invariant {c : ℕ} (hc : 0 < c) {r0 r1 : ℚ} (hr0 : 0 < r0) (hr1 : 0 < r1)
    (last : ℚ) (L : ℕ)
    (hlast : (-((L : ℚ) + 1) < last ∧ last ≤ -(L : ℚ)) ∨ last = -((L / 2 : ℕ) : ℚ)) :
    let inc := (1 / r1 - 1 / r0) / c
    let x := last + c * (1 / r0) + inc * c * ((c : ℚ) + 1) / 2 + L
    let needed := neededSinc last c r0 r1 L
    let last' := stepsOutLast inc c (1 / r0) last - (needed : ℚ)
    (-1 : ℚ) < x ∧ 0 ≤ ⌈x⌉ ∧ needed = ⌈x⌉.toNat ∧ -((L : ℚ) + 1) < last' ∧ last' ≤ -(L : ℚ) := by
  intro inc x needed last'
  have h0 : 0 < 1 / r0 := by positivity
  have h1 : 0 < 1 / r1 := by positivity
  have hadv := advance_pos hc h0 h1
  have hxe : x = last + advance c (1 / r0) (1 / r1) + L := by
    simp only [x, inc]; rw [← advance_eq hc]; ring
  have hx : -1 < last + advance c (1 / r0) (1 / r1) + L := by
    rcases hlast with ⟨h, _⟩ | h
    · linarith
    · have : ((L / 2 : ℕ) : ℚ) ≤ L := by exact_mod_cast Nat.div_le_self L 2
      rw [h]; linarith
  have hn : needed = ⌈x⌉.toNat := by rw [hxe]; exact neededSinc_eq ..
  obtain ⟨c0, c1, c2⟩ := carry_uniform last (advance c (1 / r0) (1 / r1)) L hx
  have hl : last' = last + advance c (1 / r0) (1 / r1)
      - ((⌈last + advance c (1 / r0) (1 / r1) + L⌉.toNat : ℕ) : ℚ) := by
    simp only [last', inc]; rw [stepsOutLast_eq_advance hc, hn, hxe]
  rw [hl, hxe]
  exact ⟨hx, c0, by rw [← hxe]; exact hn, c1, c2⟩

/-! ### The invariant of a fixed-output resampler -/

/-- `new/orig ∈ [1/maxRel, maxRel]`, the test of `set_resample_ratio`, as bounds on `new` -/
structure InRange (orig maxRel r : ℚ) : Prop where
  lo : orig / maxRel ≤ r
  hi : r ≤ orig * maxRel

theorem InRange.pos {orig maxRel r : ℚ} (h : InRange orig maxRel r) (ho : 0 < orig)
    (hm : 1 ≤ maxRel) : 0 < r :=
  lt_of_lt_of_le (div_pos ho (by linarith)) h.lo

theorem ratioInRange_iff {new orig maxRel : ℚ} (ho : 0 < orig) (hm : 1 ≤ maxRel) :
    ratioInRange new orig maxRel = true ↔ InRange orig maxRel new := by
  have hm0 : 0 < maxRel := by linarith
  simp only [ratioInRange, ge_eq, le_eq, one_eq, Bool.and_eq_true, decide_eq_true_eq]
  rw [le_div_iff₀ ho, div_le_iff₀ ho]
  constructor
  · rintro ⟨h1, h2⟩
    refine ⟨?_, by linarith [mul_comm maxRel orig]⟩
    rw [div_le_iff₀ hm0]
    have := mul_le_mul_of_nonneg_right h1 hm0.le
    rw [show 1 / maxRel * orig * maxRel = orig by field_simp] at this
    exact this
  · rintro ⟨h1, h2⟩
    refine ⟨?_, by linarith [mul_comm maxRel orig]⟩
    rw [div_le_iff₀ hm0] at h1
    rw [show 1 / maxRel * orig = orig / maxRel by ring, div_le_iff₀ hm0]
    exact h1

/-- Invariant of the states of kind `.fastOut` / `.sincOut`. -/
structure Inv (s : AState ℚ ℚ) : Prop where
  kind_out : s.kind = .fastOut ∨ s.kind = .sincOut
  fast_L : s.kind = .fastOut → s.L = Fast.polyLen
  orig_pos : 0 < s.orig
  maxRel_ge : 1 ≤ s.maxRel
  ratio_rng : InRange s.orig s.maxRel s.ratio
  target_rng : InRange s.orig s.maxRel s.target
  chunk_pos : 0 < s.chunk
  chunk_le : s.chunk ≤ s.maxChunk
  /-- the request for input is the ramped formula (no other value ever gets stored) -/
  needed_eq : s.needed = neededSinc s.lastIndex s.chunk s.ratio s.target s.L
  /-- steady state, or the state after construction / `reset` -/
  last_rng : (-((s.L : ℚ) + 1) < s.lastIndex ∧ s.lastIndex ≤ -(s.L : ℚ)) ∨
    s.lastIndex = -((s.L / 2 : ℕ) : ℚ)

namespace Inv
variable {s : AState ℚ ℚ}

theorem ratio_pos (h : Inv s) : 0 < s.ratio := h.ratio_rng.pos h.orig_pos h.maxRel_ge
theorem target_pos (h : Inv s) : 0 < s.target := h.target_rng.pos h.orig_pos h.maxRel_ge

theorem not_fixedIn (h : Inv s) : s.kind.isFixedIn = false := by
  rcases h.kind_out with k | k <;> simp [k, AKind.isFixedIn]

/-- in every invariant state: `−(L+1) < lastIndex ≤ −⌊L/2⌋` -/
theorem last_gt (h : Inv s) : -((s.L : ℚ) + 1) < s.lastIndex := by
  rcases h.last_rng with ⟨h1, _⟩ | h1
  · exact h1
  · have : ((s.L / 2 : ℕ) : ℚ) ≤ s.L := by exact_mod_cast Nat.div_le_self s.L 2
    rw [h1]; linarith

end Inv

theorem inRange_self {orig maxRel : ℚ} (ho : 0 < orig) (hm : 1 ≤ maxRel) : InRange orig maxRel orig := by
  constructor
  · rw [div_le_iff₀ (by linarith)]; nlinarith
  · nlinarith

/-- the constructor establishes the invariant (`L` even; for `.fastOut` `L = 8`) -/
theorem inv_init {kind : AKind} (hk : kind = .fastOut ∨ kind = .sincOut) {ratio maxRel : ℚ}
    {deg : Degree} {sint : SincInterp} {ip : Interp ℚ} {chunk nch : ℕ} {s : AState ℚ ℚ}
    (hc : 0 < chunk) (hL : kind = .sincOut → 2 ∣ ip.len)
    (h : AState.init kind ratio maxRel deg sint ip chunk nch = .ok s) : Inv s := by
  unfold AState.init validateRatios at h
  simp only [le_eq, zero_eq, lt_eq, one_eq, decide_eq_true_eq] at h
  split at h
  · simp at h
  · rename_i hv
    split at hv
    · simp at hv
    · rename_i hr
      split at hv
      · simp at hv
      · rename_i hm
        have hr' : 0 < ratio := not_le.1 hr
        have hm' : 1 ≤ maxRel := not_lt.1 hm
        have hfi : kind.isFixedIn = false := by rcases hk with k | k <;> simp [k, AKind.isFixedIn]
        simp only [hfi, Bool.false_eq_true, if_false, Except.ok.injEq] at h
        subst h
        have hLe : 2 ∣ (if kind.isSinc = true then ip.len else Fast.polyLen) := by
          rcases hk with k | k
          · simp [k, AKind.isSinc, Fast.polyLen]
          · simpa [k, AKind.isSinc] using hL k
        refine ⟨hk, ?_, hr', hm', inRange_self hr' hm', inRange_self hr' hm', hc, le_rfl, ?_, Or.inr ?_⟩
        · intro k
          have k' : kind = .fastOut := k
          subst k'; rfl
        · simp only [ofNat_eq]; exact neededInit_eq hr' hLe
        · simp only [ofNat_eq]

/-- `set_resample_ratio` (accepted or rejected, ramped or not) preserves the invariant -/
theorem inv_setRatio {s : AState ℚ ℚ} (h : Inv s) (new : ℚ) (ramp : Bool) :
    Inv (s.setRatio new ramp).1 := by
  unfold AState.setRatio
  split
  · rename_i hin
    have hnew := (ratioInRange_iff h.orig_pos h.maxRel_ge).1 hin
    have hr : InRange s.orig s.maxRel (if ramp = true then s.ratio else new) := by
      split
      · exact h.ratio_rng
      · exact hnew
    rcases h.kind_out with k | k
    · simp only [k]
      exact ⟨Or.inl rfl, fun _ => h.fast_L k, h.orig_pos, h.maxRel_ge, hr, hnew, h.chunk_pos, h.chunk_le, rfl,
        h.last_rng⟩
    · simp only [k]
      exact ⟨Or.inr rfl, nofun, h.orig_pos, h.maxRel_ge, hr, hnew, h.chunk_pos, h.chunk_le, rfl,
        h.last_rng⟩
  · exact h

/-- `set_chunk_size` (accepted or rejected) preserves the invariant -/
theorem inv_setChunk {s : AState ℚ ℚ} (h : Inv s) (n : ℕ) : Inv (s.setChunk n).1 := by
  unfold AState.setChunk
  rcases h.kind_out with k | k
  · simp only [k]; exact h
  · simp only [k]
    split
    · exact h
    · rename_i hn
      simp only [Bool.or_eq_true, decide_eq_true_eq, beq_iff_eq, not_or, not_lt] at hn
      exact ⟨Or.inr rfl, nofun, h.orig_pos, h.maxRel_ge, h.ratio_rng, h.target_rng,
        Nat.pos_of_ne_zero hn.2, hn.1, rfl, h.last_rng⟩


/-! ### A successful call -/

theorem faultOutcome_ne_ok {α : Type} (f : Outcome Unit) (a : α) : faultOutcome f ≠ Outcome.ok a := by
  unfold faultOutcome; split <;> simp

/-- what a successful second half of a fixed-output call returns -/
theorem finishOut_ok {s s' : AState ℚ ℚ} {mask : List Bool} {out : CallOut ℚ}
    (h : s.finishOut mask = (s', .ok out)) :
    s'.lastIndex = stepsOutLast ((1 / s.target - 1 / s.ratio) / s.chunk) s.chunk (1 / s.ratio) s.lastIndex
        - (s.fill : ℚ) ∧
    s'.ratio = s.target ∧ s'.target = s.target ∧ s'.chunk = s.chunk ∧
    s'.needed = neededSinc s'.lastIndex s.chunk s.target s.target s.L ∧
    s'.L = s.L ∧ s'.kind = s.kind ∧ s'.orig = s.orig ∧ s'.maxRel = s.maxRel ∧
    s'.maxChunk = s.maxChunk ∧ s'.deg = s.deg ∧ s'.sint = s.sint ∧ s'.ip = s.ip ∧
    out.nIn = s.fill ∧ out.nOut = s.chunk ∧
    evalChannels s s.buf mask
      (stepsOut ((1 / s.target - 1 / s.ratio) / s.chunk) s.chunk (1 / s.ratio) s.lastIndex) = .ok out.out := by
  unfold AState.finishOut at h
  simp only [one_eq, ofNat_eq] at h
  split at h
  · simp only [Prod.mk.injEq] at h
    exact absurd h.2 (faultOutcome_ne_ok _ _)
  · rename_i outs heq
    simp only [Prod.mk.injEq, Outcome.ok.injEq] at h
    obtain ⟨rfl, rfl⟩ := h
    simp only [true_and, heq, and_true]
    split
    · rw [neededFastAfter_eq]
    · rfl

theorem process_ok_state {s s' : AState ℚ ℚ} {a : CallArgs ℚ} {out : CallOut ℚ}
    (hk : s.kind.isFixedIn = false) (h : s.process a = (s', .ok out)) :
    s'.lastIndex = stepsOutLast ((1 / s.target - 1 / s.ratio) / s.chunk) s.chunk (1 / s.ratio) s.lastIndex
        - (s.needed : ℚ) ∧
    s'.ratio = s.target ∧ s'.target = s.target ∧ s'.chunk = s.chunk ∧
    s'.needed = neededSinc s'.lastIndex s.chunk s.target s.target s.L ∧
    s'.L = s.L ∧ s'.kind = s.kind ∧ s'.orig = s.orig ∧ s'.maxRel = s.maxRel ∧
    s'.maxChunk = s.maxChunk ∧ s'.deg = s.deg ∧ s'.sint = s.sint ∧ s'.ip = s.ip ∧
    out.nIn = s.needed ∧ out.nOut = s.chunk := by
  unfold AState.process at h
  simp only [hk, Bool.false_eq_true, if_false] at h
  split at h
  · simp at h
  · split at h
    · simp at h
    · split at h
      · simp at h
      · have := finishOut_ok h
        simp only [AState.minIn, hk, Bool.false_eq_true, if_false] at this
        tauto

/-- the invariant only looks at the control fields -/
theorem Inv.of_eq {s s' : AState ℚ ℚ} (h : Inv s) (hk : s'.kind = s.kind) (hL : s'.L = s.L)
    (ho : s'.orig = s.orig) (hm : s'.maxRel = s.maxRel) (hr : s'.ratio = s.ratio)
    (ht : s'.target = s.target) (hc : s'.chunk = s.chunk) (hmc : s'.maxChunk = s.maxChunk)
    (hn : s'.needed = s.needed) (hl : s'.lastIndex = s.lastIndex) : Inv s' := by
  refine ⟨?_, ?_, ?_, ?_, ?_, ?_, ?_, ?_, ?_, ?_⟩
  · rw [hk]; exact h.kind_out
  · rw [hk, hL]; exact h.fast_L
  · rw [ho]; exact h.orig_pos
  · rw [hm]; exact h.maxRel_ge
  · rw [ho, hm, hr]; exact h.ratio_rng
  · rw [ho, hm, ht]; exact h.target_rng
  · rw [hc]; exact h.chunk_pos
  · rw [hc, hmc]; exact h.chunk_le
  · rw [hn, hl, hc, hr, ht, hL]; exact h.needed_eq
  · rw [hL, hl]; exact h.last_rng

/-- steady state: `−(L+1) < lastIndex ≤ −L` -/
def Steady (s : AState ℚ ℚ) : Prop := -((s.L : ℚ) + 1) < s.lastIndex ∧ s.lastIndex ≤ -(s.L : ℚ)

/-- one successful call, abstractly: the control fields of `s'` in terms of those of `s` -/
theorem inv_of_step {s s' : AState ℚ ℚ} (h : Inv s)
    (hl : s'.lastIndex = stepsOutLast ((1 / s.target - 1 / s.ratio) / s.chunk) s.chunk (1 / s.ratio)
      s.lastIndex - (s.needed : ℚ))
    (hr : s'.ratio = s.target) (ht : s'.target = s.target) (hc : s'.chunk = s.chunk)
    (hn : s'.needed = neededSinc s'.lastIndex s.chunk s.target s.target s.L)
    (hL : s'.L = s.L) (hk : s'.kind = s.kind) (ho : s'.orig = s.orig) (hm : s'.maxRel = s.maxRel)
    (hmc : s'.maxChunk = s.maxChunk) : Inv s' ∧ Steady s' := by
  have hci := carry_invariant h.chunk_pos h.ratio_pos h.target_pos s.lastIndex s.L h.last_rng
  simp only at hci
  obtain ⟨_, _, _, c1, c2⟩ := hci
  rw [← h.needed_eq, ← hl] at c1 c2
  have hst : Steady s' := by unfold Steady; rw [hL]; exact ⟨c1, c2⟩
  refine ⟨⟨?_, ?_, ?_, ?_, ?_, ?_, ?_, ?_, ?_, Or.inl hst⟩, hst⟩
  · rw [hk]; exact h.kind_out
  · rw [hk, hL]; exact h.fast_L
  · rw [ho]; exact h.orig_pos
  · rw [hm]; exact h.maxRel_ge
  · rw [ho, hm, hr]; exact h.target_rng
  · rw [ho, hm, ht]; exact h.target_rng
  · rw [hc]; exact h.chunk_pos
  · rw [hc, hmc]; exact h.chunk_le
  · rw [hn, hc, hr, ht, hL]

/-- a successful `finishOut` (the second half of `process`) re-establishes the invariant, in its
steady-state form; `s.fill` must be the number of frames that was requested -/
theorem inv_finishOut {s s' : AState ℚ ℚ} {mask : List Bool} {out : CallOut ℚ} (h : Inv s)
    (hf : s.fill = s.needed) (hfin : s.finishOut mask = (s', .ok out)) : Inv s' ∧ Steady s' := by
  obtain ⟨a1, a2, a3, a4, a5, a6, a7, a8, a9, a10, _⟩ := finishOut_ok hfin
  rw [hf] at a1
  exact inv_of_step h a1 a2 a3 a4 a5 a6 a7 a8 a9 a10

/-- a successful `process` re-establishes the invariant, in its steady-state form -/
theorem inv_process {s s' : AState ℚ ℚ} {a : CallArgs ℚ} {out : CallOut ℚ} (h : Inv s)
    (hp : s.process a = (s', .ok out)) : Inv s' ∧ Steady s' := by
  obtain ⟨a1, a2, a3, a4, a5, a6, a7, a8, a9, a10, _⟩ := process_ok_state h.not_fixedIn hp
  exact inv_of_step h a1 a2 a3 a4 a5 a6 a7 a8 a9 a10

/-- `finishOut`, whatever its outcome -/
theorem inv_finishOut_any {s : AState ℚ ℚ} (mask : List Bool) (h : Inv s) (hf : s.fill = s.needed) :
    Inv (s.finishOut mask).1 := by
  rcases hres : s.finishOut mask with ⟨s', o⟩
  cases o with
  | ok out => exact (inv_finishOut h hf hres).1
  | _ =>
    unfold AState.finishOut at hres
    simp only at hres
    split at hres
    · simp only [Prod.mk.injEq] at hres; rw [← hres.1]; exact h
    · simp at hres

/-- `process`, whatever its outcome (error, panic, abort or success) -/
theorem inv_process_any {s : AState ℚ ℚ} (a : CallArgs ℚ) (h : Inv s) : Inv (s.process a).1 := by
  have hk := h.not_fixedIn
  unfold AState.process
  simp only [hk, Bool.false_eq_true, if_false]
  split
  · exact h.of_eq rfl rfl rfl rfl rfl rfl rfl rfl rfl rfl
  · split
    · exact h.of_eq rfl rfl rfl rfl rfl rfl rfl rfl rfl rfl
    · split
      · exact h.of_eq rfl rfl rfl rfl rfl rfl rfl rfl rfl rfl
      · apply inv_finishOut_any
        · exact h.of_eq rfl rfl rfl rfl rfl rfl rfl rfl rfl rfl
        · simp [AState.minIn, hk]

/-- `reset` re-establishes the invariant (initial form) when `L` is even -/
theorem inv_reset {s : AState ℚ ℚ} (h : Inv s) (hL : 2 ∣ s.L) : Inv s.reset := by
  have ho := inRange_self h.orig_pos h.maxRel_ge
  have hmc : 0 < s.maxChunk := lt_of_lt_of_le h.chunk_pos h.chunk_le
  unfold AState.reset
  rcases h.kind_out with k | k
  · simp only [k, ofNat_eq]
    exact ⟨Or.inl rfl, fun _ => h.fast_L k, h.orig_pos, h.maxRel_ge, ho, ho, h.chunk_pos, h.chunk_le,
      neededInit_eq h.orig_pos hL, Or.inr rfl⟩
  · simp only [k, ofNat_eq]
    exact ⟨Or.inr rfl, nofun, h.orig_pos, h.maxRel_ge, ho, ho, hmc, le_rfl,
      neededInit_eq h.orig_pos hL, Or.inr rfl⟩


/-! ## D. Window safety of the polynomial fixed-output resampler -/

/-- every position of a call lies in `(last, last + advance]` -/
theorem pos_bounds {c : ℕ} (hc : 0 < c) {t0 t1 : ℚ} (h0 : 0 < t0) (h1 : 0 < t1) {last p : ℚ}
    (hp : p ∈ stepsOut ((t1 - t0) / c) c t0 last) :
    last < p ∧ p ≤ last + advance c t0 t1 := by
  obtain ⟨k, hk1, hkc, rfl⟩ := mem_stepsOut.1 hp
  constructor
  · have := pos_strictMono hc h0 h1 last (j := 0) (k := k) (by omega) hkc
    simpa using this
  · rw [← pos_chunk_eq_advance hc]
    exact pos_mono hc h0 h1 last hkc le_rfl

theorem fastStart_eq (deg : Degree) (p : ℚ) :
    fastStart deg p = ⌊p⌋ - ((Fast.fastWindow deg).1 : ℤ) + 16 := by
  simp [fastStart, Fast.polyLen]

/-- offset ≤ 3 and `width − offset ≤ 5` for all five degrees -/
theorem fastWindow_bounds (deg : Degree) :
    (Fast.fastWindow deg).1 ≤ 3 ∧ fastWidth deg ≤ (Fast.fastWindow deg).1 + 5 ∧ 1 ≤ fastWidth deg := by
  cases deg <;> simp [Fast.fastWindow, fastWidth]

/-- `needed` as an integer when the request does not saturate -/
theorem neededSinc_cast {last : ℚ} {c : ℕ} {r tg : ℚ} {L : ℕ}
    (hx : -1 < last + advance c (1 / r) (1 / tg) + L) :
    ((neededSinc last c r tg L : ℕ) : ℤ) = ⌈last + advance c (1 / r) (1 / tg)⌉ + L := by
  rw [neededSinc_eq]
  have h0 := (carry_uniform last _ L hx).1
  rw [Int.toNat_of_nonneg h0]
  have : last + advance c (1 / r) (1 / tg) + (L : ℚ) = last + advance c (1 / r) (1 / tg) + ((L : ℤ) : ℚ) := by
    push_cast; ring
  rw [this, Int.ceil_add_intCast]

/-- **Window safety, polynomial kernels.**  With `−9 < last` (invariant) every window of the call
starts at buffer index ≥ 4 and ends at least 3 frames before the end of the frames loaded by this
call (`2·8 + needed`): no stale storage is read, and a fortiori nothing outside the buffer. -/
theorem fast_window_in_fill_strong {c : ℕ} (hc : 0 < c) {r0 r1 : ℚ} (hr0 : 0 < r0) (hr1 : 0 < r1)
    {last : ℚ} (hlast : -9 < last) {p : ℚ}
    (hp : p ∈ stepsOut ((1 / r1 - 1 / r0) / c) c (1 / r0) last) (deg : Degree) :
    4 ≤ fastStart deg p ∧
      fastStart deg p + fastWidth deg + 3 ≤ 2 * 8 + (neededSinc last c r0 r1 8 : ℤ) := by
  have h0 : 0 < 1 / r0 := by positivity
  have h1 : 0 < 1 / r1 := by positivity
  obtain ⟨pl, pu⟩ := pos_bounds hc h0 h1 hp
  have hadv := advance_pos hc h0 h1
  obtain ⟨w1, w2, _⟩ := fastWindow_bounds deg
  have hx : -1 < last + advance c (1 / r0) (1 / r1) + ((8 : ℕ) : ℚ) := by push_cast; linarith
  rw [neededSinc_cast hx, fastStart_eq]
  have hfl : (-9 : ℤ) ≤ ⌊p⌋ := by
    rw [Int.le_floor]; push_cast; linarith
  have hfc : ⌊p⌋ ≤ ⌈last + advance c (1 / r0) (1 / r1)⌉ := by
    have a := Int.floor_le p
    have b := Int.le_ceil (last + advance c (1 / r0) (1 / r1))
    have : (⌊p⌋ : ℚ) ≤ (⌈last + advance c (1 / r0) (1 / r1)⌉ : ℚ) := by linarith
    exact_mod_cast this
  push_cast
  omega

theorem fast_window_in_fill {c : ℕ} (hc : 0 < c) {r0 r1 : ℚ} (hr0 : 0 < r0) (hr1 : 0 < r1)
    {last : ℚ} (hlast : -9 < last) {p : ℚ}
    (hp : p ∈ stepsOut ((1 / r1 - 1 / r0) / c) c (1 / r0) last) (deg : Degree) :
    0 ≤ fastStart deg p ∧
      fastStart deg p + fastWidth deg ≤ 2 * 8 + (neededSinc last c r0 r1 8 : ℤ) := by
  obtain ⟨a, b⟩ := fast_window_in_fill_strong hc hr0 hr1 hlast hp deg
  omega

/-- The margin 3 on the upper side is attained by no degree but is sharp up to rounding:
the lower bound `−9 < last` cannot be dropped, a window starting below 0 appears otherwise. -/
example : fastStart .septic (((-14 : ℤ) : ℚ)) = -1 := by
  rw [fastStart_eq, Int.floor_intCast]; simp [Fast.fastWindow]

/-- Model-level statement: in an invariant `.fastOut` state the positions of the next call pass the
range test of the model against any buffer that holds the pre-roll and the requested frames, and
read nothing beyond the frames loaded by the call (`stale = false`). -/
theorem fastOut_no_fault {s : AState ℚ ℚ} (h : Inv s) (hk : s.kind = .fastOut) {bufLen : ℕ}
    (hb : 2 * s.L + s.needed ≤ bufLen) {p : ℚ}
    (hp : p ∈ stepsOut ((1 / s.target - 1 / s.ratio) / s.chunk) s.chunk (1 / s.ratio) s.lastIndex) :
    posFault s bufLen p = none ∧ 0 ≤ readStart s p ∧
      readEnd s p ≤ 2 * (s.L : ℤ) + s.needed := by
  have hL : s.L = 8 := h.fast_L hk
  have hl : -9 < s.lastIndex := by have := h.last_gt; rw [hL] at this; push_cast at this; linarith
  obtain ⟨a, b⟩ := fast_window_in_fill h.chunk_pos h.ratio_pos h.target_pos hl hp s.deg
  rw [← hL, ← h.needed_eq] at b
  have hs : s.kind.isSinc = false := by simp [hk, AKind.isSinc]
  simp only [posFault, readStart, readEnd, hs, Bool.false_eq_true, if_false]
  refine ⟨?_, a, ?_⟩
  · rw [if_pos]
    refine ⟨a, ?_⟩
    have : ((2 * s.L + s.needed : ℕ) : ℤ) ≤ bufLen := by exact_mod_cast hb
    push_cast at this
    have b' : fastStart s.deg p + ↑(fastWidth s.deg) ≤ 2 * (s.L : ℤ) + s.needed := by
      rw [hL]; exact_mod_cast b
    linarith
  · rw [hL]; exact_mod_cast b


/-! ## E. The request never exceeds the advertised maximum -/

/-- `advance = ((c−1)/2)·t0 + ((c+1)/2)·t1 ≤ c · max t0 t1` -/
theorem advance_le {c : ℕ} (hc : 0 < c) {t0 t1 m : ℚ} (h0 : t0 ≤ m) (h1 : t1 ≤ m) :
    advance c t0 t1 ≤ c * m := by
  have hc1 : (1 : ℚ) ≤ c := by exact_mod_cast hc
  have e : advance c t0 t1 = ((c : ℚ) - 1) / 2 * t0 + ((c : ℚ) + 1) / 2 * t1 := by
    simp only [advance]; ring
  have a := mul_le_mul_of_nonneg_left h0 (show 0 ≤ ((c : ℚ) - 1) / 2 by linarith)
  have b := mul_le_mul_of_nonneg_left h1 (show 0 ≤ ((c : ℚ) + 1) / 2 by linarith)
  rw [e]; linarith

theorem advance_ge {c : ℕ} (hc : 0 < c) {t0 t1 m : ℚ} (h0 : m ≤ t0) (h1 : m ≤ t1) :
    c * m ≤ advance c t0 t1 := by
  have hc1 : (1 : ℚ) ≤ c := by exact_mod_cast hc
  have e : advance c t0 t1 = ((c : ℚ) - 1) / 2 * t0 + ((c : ℚ) + 1) / 2 * t1 := by
    simp only [advance]; ring
  have a := mul_le_mul_of_nonneg_left h0 (show 0 ≤ ((c : ℚ) - 1) / 2 by linarith)
  have b := mul_le_mul_of_nonneg_left h1 (show 0 ≤ ((c : ℚ) + 1) / 2 by linarith)
  rw [e]; linarith

/-- a ratio in the accepted range has step `1/r ≤ maxRel/orig` -/
theorem InRange.inv_le {orig maxRel r : ℚ} (h : InRange orig maxRel r) (ho : 0 < orig)
    (hm : 1 ≤ maxRel) : 1 / r ≤ maxRel / orig := by
  have hm0 : 0 < maxRel := by linarith
  have hr := h.pos ho hm
  rw [div_le_div_iff₀ hr ho]
  have := h.lo
  rw [div_le_iff₀ hm0] at this
  linarith [mul_comm maxRel r]

theorem inMaxOut_eq (maxChunk : ℕ) (orig maxRel : ℚ) (L : ℕ) :
    inMaxOut maxChunk orig maxRel L = ⌈(maxChunk : ℚ) / orig * maxRel⌉.toNat + 2 + L / 2 := by
  simp only [inMaxOut, ofNat_eq, ceil_eq, toNat_intCast]

/-- advance of a call is at most `maxChunk / orig · maxRel` -/
theorem advance_le_max {orig maxRel r0 r1 : ℚ} {c maxChunk : ℕ} (ho : 0 < orig) (hm : 1 ≤ maxRel)
    (h0 : InRange orig maxRel r0) (h1 : InRange orig maxRel r1) (hc : 0 < c) (hcm : c ≤ maxChunk) :
    advance c (1 / r0) (1 / r1) ≤ (maxChunk : ℚ) / orig * maxRel := by
  have a := advance_le hc (h0.inv_le ho hm) (h1.inv_le ho hm)
  have hq : (0 : ℚ) ≤ maxRel / orig := by have : 0 < maxRel := by linarith
                                          positivity
  have hcm' : (c : ℚ) ≤ maxChunk := by exact_mod_cast hcm
  have := mul_le_mul_of_nonneg_right hcm' hq
  calc advance c (1 / r0) (1 / r1) ≤ c * (maxRel / orig) := a
    _ ≤ maxChunk * (maxRel / orig) := this
    _ = (maxChunk : ℚ) / orig * maxRel := by ring

/-- steady state: the request is at most `⌈maxChunk/orig·maxRel⌉` — the `+ 2 + L/2` of
`input_frames_max` is not needed -/
theorem needed_le_ceil_steady {orig maxRel r0 r1 last : ℚ} {c maxChunk L : ℕ} (ho : 0 < orig)
    (hm : 1 ≤ maxRel) (h0 : InRange orig maxRel r0) (h1 : InRange orig maxRel r1) (hc : 0 < c)
    (hcm : c ≤ maxChunk) (hlast : last ≤ -(L : ℚ)) :
    neededSinc last c r0 r1 L ≤ ⌈(maxChunk : ℚ) / orig * maxRel⌉.toNat := by
  rw [neededSinc_eq]
  apply Int.toNat_le_toNat
  apply Int.ceil_mono
  have := advance_le_max ho hm h0 h1 hc hcm
  linarith

/-- **E.** the request is at most `input_frames_max()`; `last ≤ −⌊L/2⌋` covers the steady state
(`last ≤ −L`) and the initial state (`last = −⌊L/2⌋`), for even and odd `L` -/
theorem needed_le_inMaxOut {orig maxRel r0 r1 last : ℚ} {c maxChunk L : ℕ} (ho : 0 < orig)
    (hm : 1 ≤ maxRel) (h0 : InRange orig maxRel r0) (h1 : InRange orig maxRel r1) (hc : 0 < c)
    (hcm : c ≤ maxChunk) (hlast : last ≤ -((L / 2 : ℕ) : ℚ)) :
    neededSinc last c r0 r1 L + 1 ≤ inMaxOut maxChunk orig maxRel L := by
  rw [neededSinc_eq, inMaxOut_eq]
  have hadv := advance_le_max ho hm h0 h1 hc hcm
  have hle : ⌈last + advance c (1 / r0) (1 / r1) + (L : ℚ)⌉
      ≤ ⌈(maxChunk : ℚ) / orig * maxRel⌉ + ((L - L / 2 : ℕ) : ℤ) := by
    rw [← Int.ceil_add_intCast]
    apply Int.ceil_mono
    have : ((L - L / 2 : ℕ) : ℚ) = (L : ℚ) - ((L / 2 : ℕ) : ℚ) := by
      rw [Nat.cast_sub (Nat.div_le_self L 2)]
    push_cast [this]
    linarith
  have : L - L / 2 ≤ L / 2 + 1 := by omega
  omega

/-- in an invariant state `input_frames_next() < input_frames_max()` -/
theorem Inv.needed_lt_max {s : AState ℚ ℚ} (h : Inv s) : s.inputFramesNext < s.inputFramesMax := by
  simp only [AState.inputFramesNext, AState.inputFramesMax, h.not_fixedIn, Bool.false_eq_true, if_false]
  rw [h.needed_eq]
  have hl : s.lastIndex ≤ -((s.L / 2 : ℕ) : ℚ) := by
    rcases h.last_rng with ⟨_, h2⟩ | h2
    · have : ((s.L / 2 : ℕ) : ℚ) ≤ s.L := by exact_mod_cast Nat.div_le_self s.L 2
      linarith
    · exact h2.le
  exact needed_le_inMaxOut h.orig_pos h.maxRel_ge h.ratio_rng h.target_rng h.chunk_pos h.chunk_le hl


/-! ## F. Index bounds of the sinc fixed-output resampler -/

theorem round_eq (x : ℚ) : (RNum.round x : ℚ) = (⌊x + 1 / 2⌋ : ℚ) := rfl

/-- `⌊(p − ⌊p⌋)·f⌋ ∈ [0, f−1]` -/
theorem fracIdx_bounds (p : ℚ) {f : ℕ} (hf : 1 ≤ f) :
    0 ≤ ⌊(p - ⌊p⌋) * f⌋ ∧ ⌊(p - ⌊p⌋) * f⌋ ≤ (f : ℤ) - 1 := by
  have hf' : (0 : ℚ) < f := by exact_mod_cast hf
  have u0 : 0 ≤ p - ⌊p⌋ := by linarith [Int.floor_le p]
  have u1 : p - ⌊p⌋ < 1 := by linarith [Int.lt_floor_add_one p]
  constructor
  · exact Int.floor_nonneg.2 (by positivity)
  · have : ⌊(p - ⌊p⌋) * f⌋ < (f : ℤ) := by
      rw [Int.floor_lt]; push_cast; nlinarith
    omega

/-- `⌊(p − ⌊p⌋)·f + 1/2⌋ ∈ [0, f]` -/
theorem roundIdx_bounds (p : ℚ) {f : ℕ} (hf : 1 ≤ f) :
    0 ≤ ⌊(p - ⌊p⌋) * f + 1 / 2⌋ ∧ ⌊(p - ⌊p⌋) * f + 1 / 2⌋ ≤ (f : ℤ) := by
  have hf' : (0 : ℚ) < f := by exact_mod_cast hf
  have u0 : 0 ≤ p - ⌊p⌋ := by linarith [Int.floor_le p]
  have u1 : p - ⌊p⌋ < 1 := by linarith [Int.lt_floor_add_one p]
  constructor
  · exact Int.floor_nonneg.2 (by positivity)
  · have : ⌊(p - ⌊p⌋) * f + 1 / 2⌋ < (f : ℤ) + 1 := by
      rw [Int.floor_lt]; push_cast; nlinarith
    omega

/-- the one-step wrap of `interpolation.rs` lands in range iff `−f ≤ sub < 2f` -/
theorem wrapSub_bounds {i sub f : ℤ} (h1 : -f ≤ sub) (h2 : sub < 2 * f) :
    i - 1 ≤ (wrapSub i sub f).1 ∧ (wrapSub i sub f).1 ≤ i + 1 ∧
      0 ≤ (wrapSub i sub f).2 ∧ (wrapSub i sub f).2 < f := by
  unfold wrapSub
  split_ifs <;> simp only <;> omega

theorem wrapSub_fst_ge {i sub f : ℤ} (h1 : 0 ≤ sub) : i ≤ (wrapSub i sub f).1 := by
  unfold wrapSub
  split_ifs <;> simp only <;> omega

/-- **F1.** the `(index, subindex)` pairs of a position: `index − ⌊p⌋ ∈ {−1, 0, 1}` and
`0 ≤ subindex < factor`.  Needs `factor ≥ 1`, and `factor ≥ 2` for `.cubic` and `.quadratic`. -/
theorem nearestTimes_bounds (sint : SincInterp) (p : ℚ) {f : ℕ} (hf : 1 ≤ f)
    (hf2 : sint = .cubic ∨ sint = .quadratic → 2 ≤ f) :
    ∀ q ∈ nearestTimes sint p f, ⌊p⌋ - 1 ≤ q.1 ∧ q.1 ≤ ⌊p⌋ + 1 ∧ 0 ≤ q.2 ∧ q.2 < (f : ℤ) := by
  obtain ⟨a0, a1⟩ := fracIdx_bounds p hf
  obtain ⟨b0, b1⟩ := roundIdx_bounds p hf
  intro q hq
  cases sint with
  | nearest =>
    simp only [nearestTimes, floor_eq, toInt_intCast, ofNat_eq, round_eq] at hq
    split at hq <;> simp only [List.mem_singleton] at hq <;> subst hq <;> simp only <;> omega
  | linear =>
    simp only [nearestTimes, floor_eq, toInt_intCast, ofNat_eq] at hq
    simp only [List.mem_cons, List.not_mem_nil, or_false] at hq
    rcases hq with rfl | hq
    · simp only; omega
    · split at hq <;> subst hq <;> simp only <;> omega
  | quadratic =>
    have h2 := hf2 (Or.inr rfl)
    simp only [nearestTimes, floor_eq, toInt_intCast, ofNat_eq, Sinc.nearestFirstOffset] at hq
    simp only [List.mem_cons, List.not_mem_nil, or_false] at hq
    rcases hq with rfl | rfl | rfl <;> apply wrapSub_bounds <;> omega
  | cubic =>
    have h2 := hf2 (Or.inl rfl)
    simp only [nearestTimes, floor_eq, toInt_intCast, ofNat_eq, Sinc.nearestFirstOffset] at hq
    simp only [List.mem_cons, List.not_mem_nil, or_false] at hq
    rcases hq with rfl | rfl | rfl | rfl <;> apply wrapSub_bounds <;> omega

/-- only `.cubic` reaches below `⌊p⌋` -/
theorem nearestTimes_fst_ge (sint : SincInterp) (hs : sint ≠ .cubic) (p : ℚ) {f : ℕ} (hf : 1 ≤ f) :
    ∀ q ∈ nearestTimes sint p f, ⌊p⌋ ≤ q.1 := by
  obtain ⟨a0, a1⟩ := fracIdx_bounds p hf
  obtain ⟨b0, b1⟩ := roundIdx_bounds p hf
  intro q hq
  cases sint with
  | nearest =>
    simp only [nearestTimes, floor_eq, toInt_intCast, ofNat_eq, round_eq] at hq
    split at hq <;> simp only [List.mem_singleton] at hq <;> subst hq <;> simp only <;> omega
  | linear =>
    simp only [nearestTimes, floor_eq, toInt_intCast, ofNat_eq] at hq
    simp only [List.mem_cons, List.not_mem_nil, or_false] at hq
    rcases hq with rfl | hq
    · simp only; omega
    · split at hq <;> subst hq <;> simp only <;> omega
  | quadratic =>
    simp only [nearestTimes, floor_eq, toInt_intCast, ofNat_eq, Sinc.nearestFirstOffset] at hq
    simp only [List.mem_cons, List.not_mem_nil, or_false] at hq
    rcases hq with rfl | rfl | rfl <;> apply wrapSub_fst_ge <;> omega
  | cubic => exact absurd rfl hs

/-- **Finding.** with `factor = 1` (oversampling factor 1) the `.cubic` point list of EVERY position
contains the pair `(⌊p⌋+1, 1)`, whose subindex is out of range (`1 ≮ 1`) -/
theorem nearestTimes_cubic_factor_one (p : ℚ) : (⌊p⌋ + 1, 1) ∈ nearestTimes .cubic p 1 := by
  obtain ⟨a0, a1⟩ := fracIdx_bounds p (f := 1) le_rfl
  have : ⌊(p - ⌊p⌋) * ((1 : ℕ) : ℚ)⌋ = 0 := by omega
  simp only [nearestTimes, floor_eq, toInt_intCast, ofNat_eq, Sinc.nearestFirstOffset, this]
  simp [wrapSub]

theorem nearestTimes_quadratic_factor_one (p : ℚ) : (⌊p⌋ + 1, 1) ∈ nearestTimes .quadratic p 1 := by
  obtain ⟨a0, a1⟩ := fracIdx_bounds p (f := 1) le_rfl
  have : ⌊(p - ⌊p⌋) * ((1 : ℕ) : ℚ)⌋ = 0 := by omega
  simp only [nearestTimes, floor_eq, toInt_intCast, ofNat_eq, Sinc.nearestFirstOffset, this]
  simp [wrapSub]

/-- hence, in the model, a sinc resampler with one sinc (`nbr = 1`) and cubic or quadratic
interpolation faults (`assert!(subindex < nbr_sincs)`) at every position -/
theorem sinc_factor_one_faults {s : AState ℚ ℚ} (hk : s.kind.isSinc = true) (hn : s.ip.nbr = 1)
    (hs : s.sint = .cubic ∨ s.sint = .quadratic) (bufLen : ℕ) (p : ℚ) :
    posFault s bufLen p = some (.panic "get_sinc_interpolated") := by
  have hmem : (⌊p⌋ + 1, 1) ∈ nearestTimes s.sint p s.ip.nbr := by
    rw [hn]; rcases hs with h | h <;> rw [h]
    · exact nearestTimes_cubic_factor_one p
    · exact nearestTimes_quadratic_factor_one p
  simp only [posFault, hk, if_true]
  rw [if_neg]
  intro hall
  have := List.all_eq_true.1 hall _ hmem
  simp [sincPointOk, hn] at this


/-- at an integer position no pair reaches `⌊p⌋ + 1`, provided the oversampling factor is at least
3 (cubic, quadratic), 2 (linear), 1 (nearest) -/
def factorNoOvershoot (sint : SincInterp) (f : ℕ) : Prop :=
  match sint with
  | .cubic | .quadratic => 3 ≤ f
  | .linear => 2 ≤ f
  | .nearest => 1 ≤ f

theorem nearestTimes_fst_le_of_int (sint : SincInterp) (p : ℚ) (hp : p = ⌊p⌋) {f : ℕ}
    (hf : factorNoOvershoot sint f) : ∀ q ∈ nearestTimes sint p f, q.1 ≤ ⌊p⌋ := by
  have u : p - ⌊p⌋ = 0 := by linarith
  have e1 : ⌊(p - ⌊p⌋) * (f : ℚ)⌋ = 0 := by rw [u]; simp
  have e2 : ⌊(p - ⌊p⌋) * (f : ℚ) + 1 / 2⌋ = 0 := by rw [u]; norm_num
  intro q hq
  cases sint with
  | nearest =>
    simp only [factorNoOvershoot] at hf
    simp only [nearestTimes, floor_eq, toInt_intCast, ofNat_eq, round_eq, e2] at hq
    split at hq <;> simp only [List.mem_singleton] at hq <;> subst hq <;> simp only <;> omega
  | linear =>
    simp only [factorNoOvershoot] at hf
    simp only [nearestTimes, floor_eq, toInt_intCast, ofNat_eq, e1] at hq
    simp only [List.mem_cons, List.not_mem_nil, or_false] at hq
    rcases hq with rfl | hq
    · simp only; omega
    · split at hq <;> subst hq <;> simp only <;> omega
  | quadratic =>
    simp only [factorNoOvershoot] at hf
    simp only [nearestTimes, floor_eq, toInt_intCast, ofNat_eq, Sinc.nearestFirstOffset, e1] at hq
    simp only [List.mem_cons, List.not_mem_nil, or_false] at hq
    rcases hq with rfl | rfl | rfl <;> (unfold wrapSub; split_ifs <;> simp only <;> omega)
  | cubic =>
    simp only [factorNoOvershoot] at hf
    simp only [nearestTimes, floor_eq, toInt_intCast, ofNat_eq, Sinc.nearestFirstOffset, e1] at hq
    simp only [List.mem_cons, List.not_mem_nil, or_false] at hq
    rcases hq with rfl | rfl | rfl | rfl <;> (unfold wrapSub; split_ifs <;> simp only <;> omega)

theorem factorNoOvershoot.base {sint : SincInterp} {f : ℕ} (h : factorNoOvershoot sint f) :
    1 ≤ f ∧ (sint = .cubic ∨ sint = .quadratic → 2 ≤ f) := by
  cases sint <;> simp only [factorNoOvershoot] at h <;> simp <;> omega

/-- for a position `p ≤ y`: every index is `≤ ⌈y⌉ + 1`, and `≤ ⌈y⌉` under `factorNoOvershoot` -/
theorem nearestTimes_fst_le_ceil (sint : SincInterp) {p y : ℚ} (hpy : p ≤ y) {f : ℕ} (hf : 1 ≤ f)
    (hf2 : sint = .cubic ∨ sint = .quadratic → 2 ≤ f) :
    ∀ q ∈ nearestTimes sint p f, q.1 ≤ ⌈y⌉ + 1 := by
  intro q hq
  have := (nearestTimes_bounds sint p hf hf2 q hq).2.1
  have h : ⌊p⌋ ≤ ⌈y⌉ := by
    have : (⌊p⌋ : ℚ) ≤ (⌈y⌉ : ℚ) := by linarith [Int.floor_le p, Int.le_ceil y]
    exact_mod_cast this
  omega

theorem nearestTimes_fst_le_ceil_strong (sint : SincInterp) {p y : ℚ} (hpy : p ≤ y) {f : ℕ}
    (hf : factorNoOvershoot sint f) : ∀ q ∈ nearestTimes sint p f, q.1 ≤ ⌈y⌉ := by
  intro q hq
  obtain ⟨g1, g2⟩ := hf.base
  have hb := (nearestTimes_bounds sint p g1 g2 q hq).2.1
  have h : (⌊p⌋ : ℚ) ≤ (⌈y⌉ : ℚ) := by linarith [Int.floor_le p, Int.le_ceil y]
  have h' : ⌊p⌋ ≤ ⌈y⌉ := by exact_mod_cast h
  rcases lt_or_eq_of_le h' with hlt | heq
  · omega
  · -- then `p = y` is an integer
    have hp : p = ⌊p⌋ := by
      have a := Int.floor_le p
      have b := Int.le_ceil y
      have : (⌊p⌋ : ℚ) = (⌈y⌉ : ℚ) := by exact_mod_cast heq
      linarith
    have := nearestTimes_fst_le_of_int sint p hp hf q hq
    omega

theorem foldl_max_le {l : List ℤ} {a B : ℤ} (ha : a ≤ B) (h : ∀ x ∈ l, x ≤ B) : l.foldl max a ≤ B := by
  induction l generalizing a with
  | nil => simpa
  | cons x xs ih =>
    simp only [List.foldl_cons]
    exact ih (max_le ha (h x (by simp))) (fun z hz => h z (by simp [hz]))

theorem le_foldl_min {l : List ℤ} {a B : ℤ} (ha : B ≤ a) (h : ∀ x ∈ l, B ≤ x) : B ≤ l.foldl min a := by
  induction l generalizing a with
  | nil => simpa
  | cons x xs ih =>
    simp only [List.foldl_cons]
    exact ih (le_min ha (h x (by simp))) (fun z hz => h z (by simp [hz]))

/-- **F2.** Model-level index safety of `.sincOut`.  In an invariant state with `L = ip.len ≥ 2` and an
admissible oversampling factor, every position of the next call passes the asserts of
`get_sinc_interpolated` against any buffer with `2L + needed + 2 ≤ len`; the highest index
requested (`index + len`) exceeds the frames loaded by this call by at most ONE frame. -/
theorem sincOut_no_fault {s : AState ℚ ℚ} (h : Inv s) (hk : s.kind = .sincOut) (hLip : s.ip.len = s.L)
    (hL2 : 2 ≤ s.L) (hf : 1 ≤ s.ip.nbr) (hf2 : s.sint = .cubic ∨ s.sint = .quadratic → 2 ≤ s.ip.nbr)
    {bufLen : ℕ} (hb : 2 * s.L + s.needed + 2 ≤ bufLen) {p : ℚ}
    (hp : p ∈ stepsOut ((1 / s.target - 1 / s.ratio) / s.chunk) s.chunk (1 / s.ratio) s.lastIndex) :
    posFault s bufLen p = none ∧ 0 ≤ readStart s p ∧
      readEnd s p ≤ 2 * (s.L : ℤ) + s.needed + 1 := by
  have h0 : 0 < 1 / s.ratio := by have := h.ratio_pos; positivity
  have h1 : 0 < 1 / s.target := by have := h.target_pos; positivity
  obtain ⟨pl, pu⟩ := pos_bounds h.chunk_pos h0 h1 hp
  have hadv := advance_pos h.chunk_pos h0 h1
  have hlast := h.last_gt
  have hx : -1 < s.lastIndex + advance s.chunk (1 / s.ratio) (1 / s.target) + (s.L : ℚ) := by linarith
  have hn : (s.needed : ℤ) = ⌈s.lastIndex + advance s.chunk (1 / s.ratio) (1 / s.target)⌉ + s.L := by
    rw [h.needed_eq]; exact neededSinc_cast hx
  have hfl : -((s.L : ℤ) + 1) ≤ ⌊p⌋ := by
    rw [Int.le_floor]; push_cast; linarith
  have hs : s.kind.isSinc = true := by simp [hk, AKind.isSinc]
  have key : ∀ q ∈ nearestTimes s.sint p s.ip.nbr,
      (s.L : ℤ) - 2 ≤ q.1 + 2 * (s.L : ℤ) ∧ q.1 + 2 * (s.L : ℤ) + s.ip.len ≤ 2 * (s.L : ℤ) + s.needed + 1 ∧
        0 ≤ q.2 ∧ q.2 < (s.ip.nbr : ℤ) := by
    intro q hq
    obtain ⟨b1, _, b3, b4⟩ := nearestTimes_bounds s.sint p hf hf2 q hq
    have b2 := nearestTimes_fst_le_ceil s.sint pu hf hf2 q hq
    rw [hLip]
    refine ⟨by omega, by omega, b3, b4⟩
  refine ⟨?_, ?_, ?_⟩
  · simp only [posFault, hs, if_true]
    rw [if_pos]
    rw [List.all_eq_true]
    intro q hq
    obtain ⟨k1, k2, k3, k4⟩ := key q hq
    have hbz : (2 * (s.L : ℤ) + s.needed + 2) ≤ bufLen := by exact_mod_cast hb
    simp only [sincPointOk, Bool.and_eq_true, decide_eq_true_eq]
    refine ⟨⟨⟨by omega, by omega⟩, k3⟩, by omega⟩
  · simp only [readStart, hs, if_true]
    generalize hl : List.map (fun q : ℤ × ℤ => q.1 + 2 * (s.L : ℤ)) (nearestTimes s.sint p s.ip.nbr) = l
    have hall : ∀ x ∈ l, (0 : ℤ) ≤ x := by
      intro x hx
      rw [← hl, List.mem_map] at hx
      obtain ⟨q, hq, rfl⟩ := hx
      have := (key q hq).1; omega
    cases l with
    | nil => simp
    | cons a as =>
      exact le_foldl_min (hall a (by simp)) (fun z hz => hall z (by simp [hz]))
  · simp only [readEnd, hs, if_true]
    apply foldl_max_le (by omega)
    intro x hx
    rw [List.mem_map] at hx
    obtain ⟨q, hq, rfl⟩ := hx
    exact (key q hq).2.1

/-- with `factorNoOvershoot` nothing beyond the frames loaded by this call is read (`stale = false`);
the defect D14 (cubic, oversampling 2, integer position) is exactly the excluded case -/
theorem sincOut_not_stale {s : AState ℚ ℚ} (h : Inv s) (hk : s.kind = .sincOut) (hLip : s.ip.len = s.L)
    (hf : factorNoOvershoot s.sint s.ip.nbr) {p : ℚ}
    (hp : p ∈ stepsOut ((1 / s.target - 1 / s.ratio) / s.chunk) s.chunk (1 / s.ratio) s.lastIndex) :
    readEnd s p ≤ 2 * (s.L : ℤ) + s.needed := by
  have h0 : 0 < 1 / s.ratio := by have := h.ratio_pos; positivity
  have h1 : 0 < 1 / s.target := by have := h.target_pos; positivity
  obtain ⟨pl, pu⟩ := pos_bounds h.chunk_pos h0 h1 hp
  have hadv := advance_pos h.chunk_pos h0 h1
  have hlast := h.last_gt
  have hx : -1 < s.lastIndex + advance s.chunk (1 / s.ratio) (1 / s.target) + (s.L : ℚ) := by linarith
  have hn : (s.needed : ℤ) = ⌈s.lastIndex + advance s.chunk (1 / s.ratio) (1 / s.target)⌉ + s.L := by
    rw [h.needed_eq]; exact neededSinc_cast hx
  have hs : s.kind.isSinc = true := by simp [hk, AKind.isSinc]
  simp only [readEnd, hs, if_true]
  apply foldl_max_le (by omega)
  intro x hx
  rw [List.mem_map] at hx
  obtain ⟨q, hq, rfl⟩ := hx
  have := nearestTimes_fst_le_ceil_strong s.sint pu hf q hq
  rw [hLip]; omega


/-- general bound behind E, as integers -/
theorem needed_le_ceil_general {orig maxRel r0 r1 last : ℚ} {c maxChunk L : ℕ} (ho : 0 < orig)
    (hm : 1 ≤ maxRel) (h0 : InRange orig maxRel r0) (h1 : InRange orig maxRel r1) (hc : 0 < c)
    (hcm : c ≤ maxChunk) (hlast : last ≤ -((L / 2 : ℕ) : ℚ)) :
    (neededSinc last c r0 r1 L : ℤ) ≤ ⌈(maxChunk : ℚ) / orig * maxRel⌉ + ((L - L / 2 : ℕ) : ℤ) := by
  rw [neededSinc_eq]
  have hadv := advance_le_max ho hm h0 h1 hc hcm
  have hM : 0 ≤ ⌈(maxChunk : ℚ) / orig * maxRel⌉ := by
    apply Int.ceil_nonneg
    have : 0 < maxRel := by linarith
    positivity
  have hle : ⌈last + advance c (1 / r0) (1 / r1) + (L : ℚ)⌉
      ≤ ⌈(maxChunk : ℚ) / orig * maxRel⌉ + ((L - L / 2 : ℕ) : ℤ) := by
    rw [← Int.ceil_add_intCast]
    apply Int.ceil_mono
    have : ((L - L / 2 : ℕ) : ℚ) = (L : ℚ) - ((L / 2 : ℕ) : ℚ) := by
      rw [Nat.cast_sub (Nat.div_le_self L 2)]
    push_cast [this]
    linarith
  omega

/-- **Buffer length.**  The channel buffers are allocated once, with length
`bufLenOut maxRel (neededInit maxChunk orig L) L`.  For `L ≥ 8` that is at least
`2L + needed + 2` in every invariant state, which is what `sincOut_no_fault` (and a fortiori
`fastOut_no_fault`) asks of the buffer. -/
theorem bufLen_sufficient {s : AState ℚ ℚ} (h : Inv s) (hL : 8 ≤ s.L) :
    2 * s.L + s.needed + 2 ≤ bufLenOut s.maxRel (neededInit s.maxChunk s.orig s.L) s.L := by
  have ho := h.orig_pos
  have hm := h.maxRel_ge
  have hm0 : 0 < s.maxRel := by linarith
  have hl : s.lastIndex ≤ -((s.L / 2 : ℕ) : ℚ) := by
    rcases h.last_rng with ⟨_, h2⟩ | h2
    · have : ((s.L / 2 : ℕ) : ℚ) ≤ s.L := by exact_mod_cast Nat.div_le_self s.L 2
      linarith
    · exact h2.le
  have hn := needed_le_ceil_general ho hm h.ratio_rng h.target_rng h.chunk_pos h.chunk_le hl
  rw [← h.needed_eq] at hn
  set M : ℚ := (s.maxChunk : ℚ) / s.orig * s.maxRel with hM
  set K : ℚ := (s.maxChunk : ℚ) / s.orig with hK
  have hK0 : 0 ≤ K := by positivity
  have hcK : 0 ≤ ⌈K⌉ := Int.ceil_nonneg hK0
  -- the allocated length
  have hN0 : ((neededInit s.maxChunk s.orig s.L : ℕ) : ℚ) = (⌈K⌉ : ℚ) + ((s.L / 2 : ℕ) : ℚ) := by
    simp only [neededInit, ofNat_eq, ceil_eq, toNat_intCast]
    push_cast
    have : ((⌈K⌉.toNat : ℕ) : ℤ) = ⌈K⌉ := Int.toNat_of_nonneg hcK
    have : ((⌈K⌉.toNat : ℕ) : ℚ) = (⌈K⌉ : ℚ) := by exact_mod_cast this
    rw [this]
  have hKc : K ≤ (⌈K⌉ : ℚ) := Int.le_ceil K
  have hh0 : (0 : ℚ) ≤ ((s.L / 2 : ℕ) : ℚ) := by positivity
  have hprod : M + 2 * ((s.L / 2 : ℕ) : ℚ)
      ≤ (s.maxRel + 1) * ((neededInit s.maxChunk s.orig s.L : ℕ) : ℚ) := by
    rw [hN0]
    have e : M = s.maxRel * K := by simp only [hM, hK]; ring
    rw [e]
    nlinarith [mul_le_mul_of_nonneg_left hKc hm0.le, mul_le_mul_of_nonneg_right hm hh0]
  have hnn : (0 : ℚ) ≤ (s.maxRel + 1) * ((neededInit s.maxChunk s.orig s.L : ℕ) : ℚ) := by positivity
  simp only [bufLenOut, one_eq, ofNat_eq]
  rw [toNat_of_nonneg hnn]
  have hfl : ⌊M⌋ + 2 * ((s.L / 2 : ℕ) : ℤ) ≤ ⌊(s.maxRel + 1) * ((neededInit s.maxChunk s.orig s.L : ℕ) : ℚ)⌋ := by
    have : ⌊M⌋ + 2 * ((s.L / 2 : ℕ) : ℤ) = ⌊M + ((2 * ((s.L / 2 : ℕ) : ℤ) : ℤ) : ℚ)⌋ := by
      rw [Int.floor_add_intCast]
    rw [this]
    apply Int.floor_mono
    push_cast; exact hprod
  have hcf : ⌈M⌉ ≤ ⌊M⌋ + 1 := Int.ceil_le_floor_add_one M
  omega


/-! ## G. Non-vacuity -/

/-- a concrete `.fastOut` resampler: ratio 1/2, max relative ratio 2, chunk 16, one channel -/
def exFast : Except CErr (AState ℚ ℚ) :=
  AState.init .fastOut (1 / 2) 2 .cubic .nearest ⟨0, 0, fun _ _ _ => 0⟩ 16 1

/-- the constructor accepts it, and the state it returns satisfies the invariant -/
example : ∃ s, exFast = .ok s ∧ Inv s ∧ s.needed = 36 ∧ s.lastIndex = -4 ∧ s.L = 8 := by
  have hv : validateRatios (1 / 2 : ℚ) 2 = .ok () := by
    simp only [validateRatios, le_eq, zero_eq, lt_eq, one_eq]; norm_num
  have he : ∃ s, exFast = .ok s := by
    simp only [exFast, AState.init, hv, AKind.isFixedIn]
    exact ⟨_, rfl⟩
  obtain ⟨s, hs⟩ := he
  refine ⟨s, hs, inv_init (Or.inl rfl) (by norm_num) nofun hs, ?_⟩
  simp only [exFast, AState.init, hv, AKind.isFixedIn, AKind.isSinc, Bool.false_eq_true, if_false,
    Except.ok.injEq] at hs
  subst hs
  refine ⟨?_, ?_, rfl⟩
  · simp only [neededInit, ofNat_eq, ceil_eq, toNat_intCast, Fast.polyLen]
    norm_num
    rfl
  · simp [Fast.polyLen]

/-- the first call of that resampler: 16 steps of length 2 from −4, 36 frames loaded:
the carry is `−4 + 32 − 36 = −8 ∈ (−9, −8]` and the next request is `⌈−8 + 32 + 8⌉ = 32` frames -/
example : stepsOutLast ((1 / (1 / 2 : ℚ) - 1 / (1 / 2)) / (16 : ℕ)) 16 (1 / (1 / 2)) (-4) - ((36 : ℕ) : ℚ) = -8 := by
  rw [stepsOutLast_closed]; norm_num

example : neededSinc (-8 : ℚ) 16 (1 / 2) (1 / 2) 8 = 32 := by
  rw [neededSinc_eq, advance_same]; norm_num
  rfl

/-- a ramp from ratio 1/2 to ratio 1 over a chunk of 16: the steps go from `2 − 1/16` down to `1`,
the call advances by `16·2 − 17/2 = 47/2` input frames -/
example : advance 16 (1 / (1 / 2 : ℚ)) (1 / 1) = 47 / 2 := by
  simp only [advance]; norm_num

example : neededSinc (-8 : ℚ) 16 (1 / 2) 1 8 = 24 := by
  rw [neededSinc_eq]; simp only [advance]; norm_num
  rfl

/-- D14 in miniature: cubic interpolation, oversampling 2, integer position 5: the fourth point is
`(6, 0)`, one frame above `⌊p⌋` although the fractional part is 0 -/
example : nearestTimes .cubic (((5 : ℤ) : ℚ)) 2 = [(4, 1), (5, 0), (5, 1), (6, 0)] := by
  simp only [nearestTimes, floor_eq, toInt_intCast, ofNat_eq, Sinc.nearestFirstOffset, Int.floor_intCast]
  simp [wrapSub]


/-- a concrete `.sincOut` resampler: ratio 1, chunk 32, `L = 64`, oversampling 2, cubic -/
def exSinc : Except CErr (AState ℚ ℚ) :=
  AState.init .sincOut 1 2 .cubic .cubic ⟨64, 2, fun _ _ _ => 0⟩ 32 1

/-- **D14 reproduced in the model.**  The state is invariant, its first call loads 64 frames
(buffer indices `128 … 191`), its last position is the integer `0`, and the cubic point list of
that position requests `index + len = 193 = 2L + needed + 1`: one frame past the loaded data.
So the bound of `sincOut_no_fault` is attained and `factorNoOvershoot` cannot be weakened. -/
example : ∃ s, exSinc = .ok s ∧ Inv s ∧ s.needed = 64 ∧
    stepsOutLast ((1 / s.target - 1 / s.ratio) / s.chunk) s.chunk (1 / s.ratio) s.lastIndex = 0 ∧
    readEnd s 0 = 2 * (s.L : ℤ) + s.needed + 1 := by
  have hv : validateRatios (1 : ℚ) 2 = .ok () := by
    simp only [validateRatios, le_eq, zero_eq, lt_eq, one_eq]; norm_num
  have he : ∃ s, exSinc = .ok s := by
    simp only [exSinc, AState.init, hv, AKind.isFixedIn]
    exact ⟨_, rfl⟩
  obtain ⟨s, hs⟩ := he
  refine ⟨s, hs, inv_init (Or.inr rfl) (by norm_num) (fun _ => by norm_num) hs, ?_⟩
  simp only [exSinc, AState.init, hv, AKind.isFixedIn, AKind.isSinc, Bool.false_eq_true, if_false,
    if_true, Except.ok.injEq] at hs
  subst hs
  have hn : neededInit 32 (1 : ℚ) 64 = 64 := by
    simp only [neededInit, ofNat_eq, ceil_eq, toNat_intCast]
    norm_num
    rfl
  refine ⟨hn, ?_, ?_⟩
  · rw [stepsOutLast_closed]; norm_num
  · simp only [readEnd, AKind.isSinc, if_true, hn]
    have : ⌊(0 : ℚ)⌋ = 0 := Int.floor_zero
    simp only [nearestTimes, floor_eq, toInt_intCast, ofNat_eq, Sinc.nearestFirstOffset, this]
    simp [wrapSub]


/-! ## H. No panic, no abort: a call whose buffers are long enough succeeds -/

theorem evalChannels_go_ok (s : AState ℚ ℚ) (buf : Array (Array ℚ)) (ps : List ℚ) (minLen : ℕ)
    (hpos : ∀ (b : ℕ) (p : ℚ), p ∈ ps → minLen ≤ b → posFault s b p = none)
    (ms : List Bool) (i : ℕ) (acc : List (Option (Array ℚ)))
    (hbuf : ∀ j, ms[j]? = some true → minLen ≤ (buf.getD (i + j) #[]).size) :
    ∃ outs, evalChannels.go s buf ps i ms acc = .ok outs := by
  induction ms generalizing i acc with
  | nil => exact ⟨_, rfl⟩
  | cons m ms ih =>
    have hrest : ∀ j, ms[j]? = some true → minLen ≤ (buf.getD (i + 1 + j) #[]).size := by
      intro j hj
      have := hbuf (j + 1) (by simpa using hj)
      rwa [show i + (j + 1) = i + 1 + j by omega] at this
    unfold evalChannels.go
    cases m with
    | false => simpa using ih (i + 1) _ hrest
    | true =>
      have h0 := hbuf 0 (by simp)
      have hnone : ps.findSome? (posFault s (buf.getD i #[]).size) = none := by
        rw [List.findSome?_eq_none_iff]
        intro p hp
        exact hpos _ p hp (by simpa using h0)
      simp only [if_true, hnone]
      exact ih (i + 1) _ hrest

theorem evalChannels_ok (s : AState ℚ ℚ) (buf : Array (Array ℚ)) (ps : List ℚ) (minLen : ℕ)
    (hpos : ∀ (b : ℕ) (p : ℚ), p ∈ ps → minLen ≤ b → posFault s b p = none)
    (mask : List Bool)
    (hbuf : ∀ j, mask[j]? = some true → minLen ≤ (buf.getD j #[]).size) :
    ∃ outs, evalChannels s buf mask ps = .ok outs := by
  unfold evalChannels
  exact evalChannels_go_ok s buf ps minLen hpos mask 0 [] (by simpa using hbuf)

/-- `finishOut` succeeds as soon as the evaluation of the channels does -/
theorem finishOut_ok_of_eval {s : AState ℚ ℚ} {mask : List Bool} {outs : List (Option (Array ℚ))}
    (he : evalChannels s s.buf mask
      (stepsOut ((1 / s.target - 1 / s.ratio) / s.chunk) s.chunk (1 / s.ratio) s.lastIndex) = .ok outs) :
    ∃ s' out, s.finishOut mask = (s', .ok out) ∧ out.out = outs ∧
      out.stale = (stepsOut ((1 / s.target - 1 / s.ratio) / s.chunk) s.chunk (1 / s.ratio) s.lastIndex).any
        (fun p => decide (readEnd s p > 2 * (s.L : ℤ) + s.fill)) := by
  unfold AState.finishOut
  simp only [one_eq, ofNat_eq, he]
  exact ⟨_, _, rfl, rfl, rfl⟩

/-- **No abort (`.fastOut`).**  Invariant state, `fill = needed` frames loaded, every active channel
buffer at least `2·8 + needed` long: the second half of the call succeeds, re-establishes the
invariant, and reads no stale frame. -/
theorem fastOut_finish_ok {s : AState ℚ ℚ} (h : Inv s) (hk : s.kind = .fastOut) (hf : s.fill = s.needed)
    (mask : List Bool)
    (hbuf : ∀ j, mask[j]? = some true → 2 * s.L + s.needed ≤ (s.buf.getD j #[]).size) :
    ∃ s' out, s.finishOut mask = (s', .ok out) ∧ Inv s' ∧ Steady s' ∧ out.stale = false ∧
      out.nIn = s.needed ∧ out.nOut = s.chunk := by
  obtain ⟨outs, he⟩ := evalChannels_ok s s.buf _ (2 * s.L + s.needed)
    (fun b p hp hb => (fastOut_no_fault h hk hb hp).1) mask hbuf
  obtain ⟨s', out, hfin, _, hst⟩ := finishOut_ok_of_eval he
  obtain ⟨hi, hs⟩ := inv_finishOut h hf hfin
  have hok := finishOut_ok hfin
  refine ⟨s', out, hfin, hi, hs, ?_, by rw [hok.2.2.2.2.2.2.2.2.2.2.2.2.2.1, hf], hok.2.2.2.2.2.2.2.2.2.2.2.2.2.2.1⟩
  rw [hst, List.any_eq_false]
  intro p hp
  have := (fastOut_no_fault h hk le_rfl hp).2.2
  rw [hf]; simpa using this

/-- **No panic (`.sincOut`).**  Same for the sinc resampler with `L = ip.len ≥ 2`, an admissible
oversampling factor, and active channel buffers at least `2L + needed + 2` long
(`bufLen_sufficient`: true of the allocated length when `L ≥ 8`). -/
theorem sincOut_finish_ok {s : AState ℚ ℚ} (h : Inv s) (hk : s.kind = .sincOut) (hf : s.fill = s.needed)
    (hLip : s.ip.len = s.L) (hL2 : 2 ≤ s.L) (hn : 1 ≤ s.ip.nbr)
    (hn2 : s.sint = .cubic ∨ s.sint = .quadratic → 2 ≤ s.ip.nbr) (mask : List Bool)
    (hbuf : ∀ j, mask[j]? = some true → 2 * s.L + s.needed + 2 ≤ (s.buf.getD j #[]).size) :
    ∃ s' out, s.finishOut mask = (s', .ok out) ∧ Inv s' ∧ Steady s' ∧
      out.nIn = s.needed ∧ out.nOut = s.chunk ∧
      (factorNoOvershoot s.sint s.ip.nbr → out.stale = false) := by
  obtain ⟨outs, he⟩ := evalChannels_ok s s.buf _ (2 * s.L + s.needed + 2)
    (fun b p hp hb => (sincOut_no_fault h hk hLip hL2 hn hn2 hb hp).1) mask hbuf
  obtain ⟨s', out, hfin, _, hst⟩ := finishOut_ok_of_eval he
  obtain ⟨hi, hs⟩ := inv_finishOut h hf hfin
  have hok := finishOut_ok hfin
  refine ⟨s', out, hfin, hi, hs, by rw [hok.2.2.2.2.2.2.2.2.2.2.2.2.2.1, hf],
    hok.2.2.2.2.2.2.2.2.2.2.2.2.2.2.1, ?_⟩
  intro hno
  rw [hst, List.any_eq_false]
  intro p hp
  have := sincOut_not_stale h hk hLip hno hp
  rw [hf]; simpa using this


/-! ## I. Buffers: `refill` succeeds and keeps the lengths; the whole call cannot panic -/

/-- every channel buffer has length `B` -/
def AllSize (a : Array (Array ℚ)) (B : ℕ) : Prop := ∀ j (h : j < a.size), a[j].size = B

theorem copyWithin_size (b : Array ℚ) (src n : ℕ) (h : src + n ≤ b.size) :
    (copyWithin b src n).size = b.size := by
  simp only [copyWithin, Array.size_append, Array.size_extract]; omega

theorem loadAt_size (b : Array ℚ) (pos : ℕ) (data : Array ℚ) (h : pos + data.size ≤ b.size) :
    (loadAt b pos data).size = b.size := by
  simp only [loadAt, Array.size_append, Array.size_extract]; omega

theorem getD_size_of_allSize {a : Array (Array ℚ)} {B : ℕ} (h : AllSize a B) {j : ℕ} (hj : j < a.size) :
    (a.getD j #[]).size = B := by
  rw [Array.getD_eq_getD_getElem?, Array.getElem?_eq_getElem hj]; exact h j hj

theorem refill_go_some (loadN twoL B : ℕ) (hB : twoL + loadN ≤ B) (ms : List Bool)
    (ins : List (Array ℚ)) (i : ℕ) (acc : Array (Array ℚ)) (hacc : AllSize acc B)
    (hi : i + ms.length ≤ acc.size)
    (hin : ∀ (j : ℕ) (inp : Array ℚ), ms[j]? = some true → ins[j]? = some inp → loadN ≤ inp.size) :
    ∃ buf, refill.go loadN twoL i ms ins acc = some buf ∧ AllSize buf B ∧ buf.size = acc.size := by
  induction ms generalizing ins i acc with
  | nil => unfold refill.go; exact ⟨acc, rfl, hacc, rfl⟩
  | cons m ms ih =>
    cases ins with
    | nil => unfold refill.go; exact ⟨acc, rfl, hacc, rfl⟩
    | cons inp ins =>
      have hin' : ∀ (j : ℕ) (inp' : Array ℚ), ms[j]? = some true → ins[j]? = some inp' → loadN ≤ inp'.size := by
        intro j inp' h1 h2
        exact hin (j + 1) inp' (by simpa using h1) (by simpa using h2)
      simp only [List.length_cons] at hi
      unfold refill.go
      cases m with
      | false =>
        simp only [Bool.false_eq_true, if_false]
        exact ih ins (i + 1) acc hacc (by omega) hin'
      | true =>
        have hlt : i < acc.size := by omega
        have hsz := getD_size_of_allSize hacc hlt
        have hinp : loadN ≤ inp.size := hin 0 inp (by simp) (by simp)
        simp only [if_true, hsz]
        rw [if_neg (by simp only [Bool.or_eq_true, decide_eq_true_eq]; omega)]
        have hload : (loadAt (acc.getD i #[]) twoL (inp.extract 0 loadN)).size = B := by
          rw [loadAt_size, hsz]
          rw [hsz, Array.size_extract]; omega
        have hacc' : AllSize (acc.setIfInBounds i (loadAt (acc.getD i #[]) twoL (inp.extract 0 loadN))) B := by
          intro j hj
          rw [Array.size_setIfInBounds] at hj
          rw [Array.getElem_setIfInBounds hj]
          by_cases hij : i = j
          · rw [if_pos hij]; exact hload
          · rw [if_neg hij]; exact hacc j hj
        obtain ⟨buf, h1, h2, h3⟩ := ih ins (i + 1) _ hacc' (by rw [Array.size_setIfInBounds]; omega) hin'
        exact ⟨buf, h1, h2, by rw [h3, Array.size_setIfInBounds]⟩

/-- `refill` cannot fail when all buffers have length `B ≥ fill + 2L, 2L + loadN` and the active
inputs hold `loadN` frames; it keeps the number and the lengths of the buffers -/
theorem refill_some {s : AState ℚ ℚ} {B : ℕ} (hsz : AllSize s.buf B) (mask : List Bool)
    (input : List (Array ℚ)) (shiftFrom loadN : ℕ) (h1 : shiftFrom + 2 * s.L ≤ B)
    (h2 : 2 * s.L + loadN ≤ B) (hm : mask.length ≤ s.buf.size)
    (hin : ∀ (j : ℕ) (inp : Array ℚ), mask[j]? = some true → input[j]? = some inp → loadN ≤ inp.size) :
    ∃ buf, refill s mask input shiftFrom loadN = some buf ∧ AllSize buf B ∧ buf.size = s.buf.size := by
  unfold refill
  simp only
  rw [if_neg]
  · have hshift : AllSize (Array.map (fun b => copyWithin b shiftFrom (2 * s.L)) s.buf) B := by
      intro j hj
      rw [Array.getElem_map]
      rw [Array.size_map] at hj
      rw [copyWithin_size _ _ _ (by rw [hsz j hj]; exact h1)]
      exact hsz j hj
    obtain ⟨buf, e, a, b⟩ := refill_go_some loadN (2 * s.L) B h2 mask input 0 _ hshift
      (by rw [Array.size_map]; omega) hin
    exact ⟨buf, e, a, by rw [b, Array.size_map]⟩
  · rw [Bool.not_eq_true, Array.any_eq_false]
    intro j hj
    rw [hsz j hj]; simp only [gt_iff_lt, decide_eq_true_eq, not_lt]; exact h1

theorem firstShort_go_none (need : ℕ) (lens : List ℕ) (mask : List Bool) (i : ℕ)
    (h : firstShort.go need lens mask i = none) :
    ∀ (j l : ℕ), mask[j]? = some true → lens[j]? = some l → need ≤ l := by
  induction lens generalizing mask i with
  | nil => intro j l _ h2; simp at h2
  | cons l0 ls ih =>
    cases mask with
    | nil => intro j l h1; simp at h1
    | cons m ms =>
      unfold firstShort.go at h
      split at h
      · simp at h
      · rename_i hc
        intro j l h1 h2
        cases j with
        | zero =>
          simp only [List.getElem?_cons_zero, Option.some.injEq] at h1 h2
          subst h1 h2
          simp only [Bool.true_and, decide_eq_true_eq, not_lt] at hc
          exact hc
        | succ j =>
          exact ih ms (i + 1) h j l (by simpa using h1) (by simpa using h2)


/-- the length every channel buffer is allocated with by the constructor -/
def allocLen (s : AState ℚ ℚ) : ℕ := bufLenOut s.maxRel (neededInit s.maxChunk s.orig s.L) s.L

/-- buffer part of the invariant -/
structure BufInv (s : AState ℚ ℚ) : Prop where
  nbuf : s.buf.size = s.nch
  sizes : AllSize s.buf (allocLen s)
  fill_le : s.fill + 2 * s.L ≤ allocLen s

/-- the stages of `process` for a fixed-output resampler -/
theorem process_stage_mask_err {s : AState ℚ ℚ} {a : CallArgs ℚ} {e : RErr}
    (hm : updateMask s.nch a.mask = .error e) : s.process a = (s, .err e) := by
  unfold AState.process; simp only [hm]

theorem process_stage_validate_err {s : AState ℚ ℚ} {a : CallArgs ℚ} {mask : List Bool} {e : RErr}
    (hk : s.kind = .fastOut ∨ s.kind = .sincOut)
    (hm : updateMask s.nch a.mask = .ok mask)
    (hv : validateBuffers (a.input.map Array.size) a.outLens mask s.nch s.needed s.chunk = .error e) :
    s.process a = ({ s with mask := mask }, .err e) := by
  unfold AState.process
  rcases hk with k | k <;>
    simp only [hm, AState.minIn, AState.minOut, k, AKind.isFixedIn, Bool.false_eq_true, if_false, hv]

theorem process_stage_finish {s : AState ℚ ℚ} {a : CallArgs ℚ} {mask : List Bool}
    {buf : Array (Array ℚ)} (hk : s.kind = .fastOut ∨ s.kind = .sincOut)
    (hm : updateMask s.nch a.mask = .ok mask)
    (hv : validateBuffers (a.input.map Array.size) a.outLens mask s.nch s.needed s.chunk = .ok ())
    (hr : refill ({ s with mask := mask } : AState ℚ ℚ) mask a.input s.fill s.needed = some buf) :
    s.process a = ({ s with mask := mask, buf := buf, fill := s.needed } : AState ℚ ℚ).finishOut mask := by
  unfold AState.process
  rcases hk with k | k <;> simp only [k] at hr <;>
    simp only [hm, AState.minIn, AState.minOut, AState.shiftFrom, k, AKind.isFixedIn,
      Bool.false_eq_true, if_false, hv, hr]

theorem updateMask_length {nch : ℕ} {user : Option (List Bool)} {mask : List Bool}
    (h : updateMask nch user = .ok mask) : mask.length = nch := by
  unfold updateMask at h
  split at h
  · simp only [Except.ok.injEq] at h; subst h; simp
  · split at h
    · simp at h
    · rename_i hl; simp only [Except.ok.injEq] at h; subst h
      simpa using hl

theorem validateBuffers_inputs {inLens outLens : List ℕ} {mask : List Bool} {ch minIn minOut : ℕ}
    (h : validateBuffers inLens outLens mask ch minIn minOut = .ok ()) :
    ∀ (j l : ℕ), mask[j]? = some true → inLens[j]? = some l → minIn ≤ l := by
  unfold validateBuffers at h
  split at h
  · simp at h
  · split at h
    · simp at h
    · split at h
      · simp at h
      · rename_i hfs
        exact firstShort_go_none minIn inLens mask 0 hfs


/-- side conditions on the sinc interpolator (vacuous for `.fastOut`) -/
structure SincOk (s : AState ℚ ℚ) : Prop where
  len_eq : s.kind = .sincOut → s.ip.len = s.L
  nbr_pos : s.kind = .sincOut → 1 ≤ s.ip.nbr
  nbr_two : s.kind = .sincOut → s.sint = .cubic ∨ s.sint = .quadratic → 2 ≤ s.ip.nbr

/-- `BufInv` only looks at `buf`, `nch`, `fill` and the allocation parameters -/
theorem BufInv.of_eq {s s' : AState ℚ ℚ} (h : BufInv s) (hb : s'.buf = s.buf) (hn : s'.nch = s.nch)
    (hf : s'.fill = s.fill) (hL : s'.L = s.L) (ho : s'.orig = s.orig) (hm : s'.maxRel = s.maxRel)
    (hmc : s'.maxChunk = s.maxChunk) : BufInv s' := by
  have ha : allocLen s' = allocLen s := by simp only [allocLen, hL, ho, hm, hmc]
  exact ⟨by rw [hb, hn]; exact h.nbuf, by rw [hb, ha]; exact h.sizes, by rw [hf, hL, ha]; exact h.fill_le⟩

theorem finishOut_ok_buf {s s' : AState ℚ ℚ} {mask : List Bool} {out : CallOut ℚ}
    (h : s.finishOut mask = (s', .ok out)) :
    s'.buf = s.buf ∧ s'.nch = s.nch ∧ s'.fill = s.fill ∧ s'.mask = s.mask := by
  unfold AState.finishOut at h
  simp only at h
  split at h
  · simp only [Prod.mk.injEq] at h
    exact absurd h.2 (faultOutcome_ne_ok _ _)
  · simp only [Prod.mk.injEq, Outcome.ok.injEq] at h
    obtain ⟨rfl, rfl⟩ := h
    exact ⟨rfl, rfl, rfl, rfl⟩

/-- **No panic, no abort.**  In a state satisfying `Inv`, `BufInv` and (for `.sincOut`) `SincOk`,
with `L ≥ 8`, a call of `process` either returns one of the errors of `validate_buffers` / the
mask check and leaves the control state alone, or succeeds — consuming exactly `needed` frames,
producing exactly `chunk` frames, and re-establishing all invariants. -/
theorem process_no_panic {s : AState ℚ ℚ} (a : CallArgs ℚ) (h : Inv s) (hb : BufInv s) (hL : 8 ≤ s.L)
    (hs : SincOk s) :
    (∃ e, (s.process a).2 = .err e ∧ Inv (s.process a).1 ∧ BufInv (s.process a).1) ∨
    (∃ out, (s.process a).2 = .ok out ∧ Inv (s.process a).1 ∧ Steady (s.process a).1 ∧
      BufInv (s.process a).1 ∧ out.nIn = s.needed ∧ out.nOut = s.chunk ∧
      ((s.kind = .fastOut ∨ factorNoOvershoot s.sint s.ip.nbr) → out.stale = false)) := by
  have hsuff := bufLen_sufficient h hL
  cases hm : updateMask s.nch a.mask with
  | error e =>
    rw [process_stage_mask_err hm]
    exact Or.inl ⟨e, rfl, h, hb⟩
  | ok mask =>
    have hml := updateMask_length hm
    cases hv : validateBuffers (a.input.map Array.size) a.outLens mask s.nch s.needed s.chunk with
    | error e =>
      rw [process_stage_validate_err h.kind_out hm hv]
      exact Or.inl ⟨e, rfl, h.of_eq rfl rfl rfl rfl rfl rfl rfl rfl rfl rfl,
        hb.of_eq rfl rfl rfl rfl rfl rfl rfl⟩
    | ok u =>
      cases u
      have hin := validateBuffers_inputs hv
      -- the refill succeeds
      obtain ⟨buf, hr, hbs, hbn⟩ := refill_some (s := ({ s with mask := mask } : AState ℚ ℚ))
        (B := allocLen s) hb.sizes mask a.input s.fill s.needed hb.fill_le
        (by show 2 * s.L + s.needed ≤ allocLen s; unfold allocLen; omega)
        (by show mask.length ≤ s.buf.size; rw [hb.nbuf, hml])
        (by
          intro j inp h1 h2
          exact hin j inp.size h1 (by rw [List.getElem?_map, h2]; rfl))
      rw [process_stage_finish h.kind_out hm hv hr]
      set s2 : AState ℚ ℚ := { s with mask := mask, buf := buf, fill := s.needed } with hs2
      have hi2 : Inv s2 := h.of_eq rfl rfl rfl rfl rfl rfl rfl rfl rfl rfl
      have hbuf2 : ∀ j, mask[j]? = some true → 2 * s2.L + s2.needed + 2 ≤ (s2.buf.getD j #[]).size := by
        intro j hj
        have hjl : j < mask.length := by
          by_contra hc
          rw [List.getElem?_eq_none (by omega)] at hj; cases hj
        have hjb : j < buf.size := by
          rw [hbn]; show j < s.buf.size; rw [hb.nbuf, ← hml]; exact hjl
        show 2 * s.L + s.needed + 2 ≤ (buf.getD j #[]).size
        rw [getD_size_of_allSize hbs hjb]; exact hsuff
      have hf2 : s2.fill = s2.needed := rfl
      have hbi2 : BufInv s2 :=
        ⟨by show buf.size = s.nch; rw [hbn]; exact hb.nbuf, hbs,
          by show s.needed + 2 * s.L ≤ allocLen s; unfold allocLen; omega⟩
      have hfinB : ∀ {s' : AState ℚ ℚ} {out : CallOut ℚ}, s2.finishOut mask = (s', .ok out) → BufInv s' := by
        intro s' out hfo
        obtain ⟨_, _, _, _, _, e6, _, e8, e9, e10, _⟩ := finishOut_ok hfo
        obtain ⟨b1, b2, b3, _⟩ := finishOut_ok_buf hfo
        exact hbi2.of_eq b1 b2 b3 e6 e8 e9 e10
      rcases h.kind_out with k | k
      · obtain ⟨s', out, hfo, i', st', hstale, hnin, hnout⟩ := fastOut_finish_ok hi2 k hf2 mask
          (fun j hj => by have := hbuf2 j hj; omega)
        rw [hfo]
        exact Or.inr ⟨out, rfl, i', st', hfinB hfo, hnin, hnout, fun _ => hstale⟩
      · obtain ⟨s', out, hfo, i', st', hnin, hnout, hstale⟩ := sincOut_finish_ok hi2 k hf2
          (hs.len_eq k) (by show 2 ≤ s.L; omega) (hs.nbr_pos k) (hs.nbr_two k) mask hbuf2
        rw [hfo]
        refine Or.inr ⟨out, rfl, i', st', hfinB hfo, hnin, hnout, ?_⟩
        rintro (hk' | hno)
        · rw [k] at hk'; cases hk'
        · exact hstale hno


/-! ## J. Everything together: the invariant of a fixed-output resampler over its whole life -/

/-- all the invariants; `L` is a multiple of 8 in the Rust crate (`8` for the polynomial
resamplers, `sinc_len` rounded up to a multiple of 8 by `make_interpolator`), we only need
`L` even and `L ≥ 8` -/
structure Good (s : AState ℚ ℚ) : Prop where
  inv : Inv s
  buf : BufInv s
  sinc : SincOk s
  L8 : 8 ≤ s.L
  even : 2 ∣ s.L

theorem SincOk.of_eq {s s' : AState ℚ ℚ} (h : SincOk s) (hk : s'.kind = s.kind) (hL : s'.L = s.L)
    (hip : s'.ip = s.ip) (hs : s'.sint = s.sint) : SincOk s' := by
  constructor
  · rw [hk, hip, hL]; exact h.len_eq
  · rw [hk, hip]; exact h.nbr_pos
  · rw [hk, hip, hs]; exact h.nbr_two

theorem zeroBuf_allSize (nch len : ℕ) : AllSize (zeroBuf (ρ := ℚ) (σ := ℚ) nch len) len := by
  intro j hj
  simp [zeroBuf]

/-- the constructor establishes `Good` -/
theorem good_init {kind : AKind} (hk : kind = .fastOut ∨ kind = .sincOut) {ratio maxRel : ℚ}
    {deg : Degree} {sint : SincInterp} {ip : Interp ℚ} {chunk nch : ℕ} {s : AState ℚ ℚ}
    (hc : 0 < chunk)
    (hLe : kind = .sincOut → 2 ∣ ip.len) (hL8 : kind = .sincOut → 8 ≤ ip.len)
    (hn : kind = .sincOut → 1 ≤ ip.nbr)
    (hn2 : kind = .sincOut → sint = .cubic ∨ sint = .quadratic → 2 ≤ ip.nbr)
    (h : AState.init kind ratio maxRel deg sint ip chunk nch = .ok s) : Good s := by
  have hinv := inv_init hk hc hLe h
  unfold AState.init at h
  split at h
  · simp at h
  · have hfi : kind.isFixedIn = false := by rcases hk with k | k <;> simp [k, AKind.isFixedIn]
    simp only [hfi, Bool.false_eq_true, if_false, Except.ok.injEq] at h
    have e_kind : s.kind = kind := by rw [← h]
    have e_L : s.L = if kind.isSinc then ip.len else Fast.polyLen := by rw [← h]
    have e_ip : s.ip = ip := by rw [← h]
    have e_sint : s.sint = sint := by rw [← h]
    have hL8' : 8 ≤ s.L := by
      rw [e_L]; rcases hk with k | k
      · simp [k, AKind.isSinc, Fast.polyLen]
      · simpa [k, AKind.isSinc] using hL8 k
    have hev : 2 ∣ s.L := by
      rw [e_L]; rcases hk with k | k
      · simp [k, AKind.isSinc, Fast.polyLen]
      · simpa [k, AKind.isSinc] using hLe k
    have hsuff := bufLen_sufficient hinv hL8'
    refine ⟨hinv, ?_, ?_, hL8', hev⟩
    · have e_alloc : allocLen s = bufLenOut maxRel (neededInit chunk ratio s.L) s.L := by
        unfold allocLen; rw [← h]
      have e_buf : s.buf = zeroBuf nch (bufLenOut maxRel (neededInit chunk ratio s.L) s.L) := by
        rw [← h]
      have e_nch : s.nch = nch := by rw [← h]
      have e_fill : s.fill = s.needed := by rw [← h]
      refine ⟨?_, ?_, ?_⟩
      · rw [e_buf, e_nch]; simp [zeroBuf]
      · rw [e_alloc, e_buf]; exact zeroBuf_allSize _ _
      · rw [e_fill]; unfold allocLen at *; omega
    · constructor
      · intro k; rw [e_kind] at k; rw [e_ip, e_L]; simp [k, AKind.isSinc]
      · intro k; rw [e_kind] at k; rw [e_ip]; exact hn k
      · intro k; rw [e_kind] at k; rw [e_ip, e_sint]; exact hn2 k

theorem setRatio_fields (s : AState ℚ ℚ) (new : ℚ) (ramp : Bool) :
    let s' := (s.setRatio new ramp).1
    s'.kind = s.kind ∧ s'.L = s.L ∧ s'.ip = s.ip ∧ s'.sint = s.sint ∧ s'.buf = s.buf ∧
      s'.nch = s.nch ∧ s'.fill = s.fill ∧ s'.orig = s.orig ∧ s'.maxRel = s.maxRel ∧
      s'.maxChunk = s.maxChunk := by
  unfold AState.setRatio
  split
  · cases hk : s.kind <;> simp
  · simp

theorem setChunk_fields (s : AState ℚ ℚ) (n : ℕ) :
    let s' := (s.setChunk n).1
    s'.kind = s.kind ∧ s'.L = s.L ∧ s'.ip = s.ip ∧ s'.sint = s.sint ∧ s'.buf = s.buf ∧
      s'.nch = s.nch ∧ s'.fill = s.fill ∧ s'.orig = s.orig ∧ s'.maxRel = s.maxRel ∧
      s'.maxChunk = s.maxChunk := by
  unfold AState.setChunk
  cases hk : s.kind <;> simp only [hk] <;> (try split) <;> simp [hk]

theorem good_setRatio {s : AState ℚ ℚ} (h : Good s) (new : ℚ) (ramp : Bool) :
    Good (s.setRatio new ramp).1 := by
  obtain ⟨e1, e2, e3, e4, e5, e6, e7, e8, e9, e10⟩ := setRatio_fields s new ramp
  exact ⟨inv_setRatio h.inv new ramp, h.buf.of_eq e5 e6 e7 e2 e8 e9 e10, h.sinc.of_eq e1 e2 e3 e4,
    by rw [e2]; exact h.L8, by rw [e2]; exact h.even⟩

theorem good_setChunk {s : AState ℚ ℚ} (h : Good s) (n : ℕ) : Good (s.setChunk n).1 := by
  obtain ⟨e1, e2, e3, e4, e5, e6, e7, e8, e9, e10⟩ := setChunk_fields s n
  exact ⟨inv_setChunk h.inv n, h.buf.of_eq e5 e6 e7 e2 e8 e9 e10, h.sinc.of_eq e1 e2 e3 e4,
    by rw [e2]; exact h.L8, by rw [e2]; exact h.even⟩


theorem finishOut_fields (s : AState ℚ ℚ) (mask : List Bool) :
    (s.finishOut mask).1.kind = s.kind ∧ (s.finishOut mask).1.L = s.L ∧
      (s.finishOut mask).1.ip = s.ip ∧ (s.finishOut mask).1.sint = s.sint := by
  unfold AState.finishOut
  simp only
  split <;> simp

theorem process_fields {s : AState ℚ ℚ} (hk : s.kind.isFixedIn = false) (a : CallArgs ℚ) :
    (s.process a).1.kind = s.kind ∧ (s.process a).1.L = s.L ∧
      (s.process a).1.ip = s.ip ∧ (s.process a).1.sint = s.sint := by
  unfold AState.process
  simp only [hk, Bool.false_eq_true, if_false]
  split
  · simp
  · split
    · simp
    · split
      · simp
      · exact finishOut_fields _ _

/-- `process`, whatever it returns, keeps `Good`; and it never panics or aborts -/
theorem good_process {s : AState ℚ ℚ} (h : Good s) (a : CallArgs ℚ) :
    Good (s.process a).1 ∧
      ((∃ e, (s.process a).2 = .err e) ∨
       (∃ out, (s.process a).2 = .ok out ∧ Steady (s.process a).1 ∧ out.nIn = s.needed ∧
          out.nOut = s.chunk ∧
          ((s.kind = .fastOut ∨ factorNoOvershoot s.sint s.ip.nbr) → out.stale = false))) := by
  obtain ⟨e1, e2, e3, e4⟩ := process_fields h.inv.not_fixedIn a
  have hs : SincOk (s.process a).1 := h.sinc.of_eq e1 e2 e3 e4
  have h8 : 8 ≤ (s.process a).1.L := by rw [e2]; exact h.L8
  have hev : 2 ∣ (s.process a).1.L := by rw [e2]; exact h.even
  rcases process_no_panic a h.inv h.buf h.L8 h.sinc with ⟨e, he, hi, hb⟩ | ⟨out, ho, hi, hst, hb, r1, r2, r3⟩
  · exact ⟨⟨hi, hb, hs, h8, hev⟩, Or.inl ⟨e, he⟩⟩
  · exact ⟨⟨hi, hb, hs, h8, hev⟩, Or.inr ⟨out, ho, hst, r1, r2, r3⟩⟩

theorem zeroLike_allSize {b : Array (Array ℚ)} {B : ℕ} (h : AllSize b B) :
    AllSize (zeroLike (ρ := ℚ) b) B := by
  intro j hj
  simp only [zeroLike, Array.size_map] at hj
  simp only [zeroLike, Array.getElem_map, Array.size_replicate]
  exact h j hj

theorem reset_fields (s : AState ℚ ℚ) :
    s.reset.kind = s.kind ∧ s.reset.L = s.L ∧ s.reset.ip = s.ip ∧ s.reset.sint = s.sint ∧
      s.reset.buf = zeroLike s.buf ∧ s.reset.nch = s.nch ∧ s.reset.orig = s.orig ∧
      s.reset.maxRel = s.maxRel ∧ s.reset.maxChunk = s.maxChunk ∧
      (s.kind.isFixedIn = false → s.reset.fill = s.reset.needed) := by
  unfold AState.reset
  cases hk : s.kind <;> simp [AKind.isFixedIn]

theorem good_reset {s : AState ℚ ℚ} (h : Good s) : Good s.reset := by
  obtain ⟨e1, e2, e3, e4, e5, e6, e7, e8, e9, e10⟩ := reset_fields s
  have hi := inv_reset h.inv h.even
  have h8 : 8 ≤ s.reset.L := by rw [e2]; exact h.L8
  have hsuff := bufLen_sufficient hi h8
  have ha : allocLen s.reset = allocLen s := by simp only [allocLen, e2, e7, e8, e9]
  refine ⟨hi, ⟨?_, ?_, ?_⟩, h.sinc.of_eq e1 e2 e3 e4, h8, by rw [e2]; exact h.even⟩
  · rw [e5, e6]; simp only [zeroLike, Array.size_map]; exact h.buf.nbuf
  · rw [e5, ha]; exact zeroLike_allSize h.buf.sizes
  · rw [e10 h.inv.not_fixedIn]; unfold allocLen at *; omega

/-! ### Reachable states -/

/-- the operations of the public API that change a fixed-output resampler -/
inductive Op where
  | setRatio (new : ℚ) (ramp : Bool)
  | setRatioRelative (rel : ℚ) (ramp : Bool)
  | setChunk (n : ℕ)
  | reset
  | process (a : CallArgs ℚ)

def Op.apply (s : AState ℚ ℚ) : Op → AState ℚ ℚ
  | .setRatio new ramp => (s.setRatio new ramp).1
  | .setRatioRelative rel ramp => (s.setRatioRelative rel ramp).1
  | .setChunk n => (s.setChunk n).1
  | .reset => s.reset
  | .process a => (s.process a).1

theorem good_apply {s : AState ℚ ℚ} (h : Good s) (op : Op) : Good (op.apply s) := by
  cases op with
  | setRatio new ramp => exact good_setRatio h new ramp
  | setRatioRelative rel ramp => exact good_setRatio h _ ramp
  | setChunk n => exact good_setChunk h n
  | reset => exact good_reset h
  | process a => exact (good_process h a).1

/-- **Main theorem of this file.**  Start from a constructed fixed-output resampler and apply ANY
sequence of API calls (in any order, with any arguments, successful or not): the state stays
`Good`, so every `process` call in the sequence ends in `Ok` or in a `ResampleError` — never in a
panic or an out-of-bounds access. -/
theorem good_foldl {s : AState ℚ ℚ} (h : Good s) (ops : List Op) : Good (ops.foldl Op.apply s) := by
  induction ops generalizing s with
  | nil => exact h
  | cons op ops ih => exact ih (good_apply h op)

theorem process_after_any_history {s : AState ℚ ℚ} (h : Good s) (ops : List Op) (a : CallArgs ℚ) :
    let s' := ops.foldl Op.apply s
    (∃ e, (s'.process a).2 = .err e) ∨ (∃ out, (s'.process a).2 = .ok out ∧ out.nIn = s'.needed ∧
      out.nOut = s'.chunk) := by
  intro s'
  rcases (good_process (good_foldl h ops) a).2 with ⟨e, he⟩ | ⟨out, ho, _, r1, r2, _⟩
  · exact Or.inl ⟨e, he⟩
  · exact Or.inr ⟨out, ho, r1, r2⟩


/-- `Good` is not vacuous: the two concrete resamplers of section G are `Good` after construction,
hence (by `good_foldl`) after any history -/
example : ∃ s, exFast = .ok s ∧ Good s := by
  have hv : validateRatios (1 / 2 : ℚ) 2 = .ok () := by
    simp only [validateRatios, le_eq, zero_eq, lt_eq, one_eq]; norm_num
  have he : ∃ s, exFast = .ok s := by
    simp only [exFast, AState.init, hv, AKind.isFixedIn]
    exact ⟨_, rfl⟩
  obtain ⟨s, hs⟩ := he
  exact ⟨s, hs, good_init (Or.inl rfl) (by norm_num) nofun nofun nofun nofun hs⟩

example : ∃ s, exSinc = .ok s ∧ Good s := by
  have hv : validateRatios (1 : ℚ) 2 = .ok () := by
    simp only [validateRatios, le_eq, zero_eq, lt_eq, one_eq]; norm_num
  have he : ∃ s, exSinc = .ok s := by
    simp only [exSinc, AState.init, hv, AKind.isFixedIn]
    exact ⟨_, rfl⟩
  obtain ⟨s, hs⟩ := he
  exact ⟨s, hs, good_init (Or.inr rfl) (by norm_num) (fun _ => by norm_num) (fun _ => by norm_num)
    (fun _ => by norm_num) (fun _ _ => by norm_num) hs⟩


end Rubato.FixedOut
