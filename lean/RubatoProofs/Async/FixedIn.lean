import RubatoProofs.Lemmas.RatBridge
import Mathlib.Tactic.FieldSimp

namespace Rubato.FixedIn
open Rubato Rubato.Bridge Rubato.Gen

/-- `inc` of the fixed-input loop, exactly as written in `AState.process` -/
def incIn (c : ℕ) (ratio target : ℚ) : ℚ :=
  (RNum.one / target - RNum.one / ratio) / (RNum.ofNat c * meanRatio ratio target)

theorem incIn_const (c : ℕ) (r : ℚ) : incIn c r r = 0 := by
  simp [incIn]

/-! ## A. the loop with `inc = 0` -/

/-- number of steps the loop wants to make: the least `k` with `idx + k t ≥ e` -/
def cnt (e t idx : ℚ) : ℕ := ⌈(e - idx) / t⌉.toNat

theorem lt_cnt_iff {e t idx : ℚ} (ht : 0 < t) (k : ℕ) : k < cnt e t idx ↔ idx + k * t < e := by
  unfold cnt
  rw [Int.lt_toNat, Int.lt_ceil, lt_div_iff₀ ht]
  push_cast
  constructor <;> intro h <;> linarith

theorem cnt_eq_zero {e t idx : ℚ} (ht : 0 < t) (h : e ≤ idx) : cnt e t idx = 0 := by
  by_contra hne
  have := (lt_cnt_iff (e := e) (idx := idx) ht 0).1 (Nat.pos_of_ne_zero hne)
  simp at this; linarith

theorem cnt_pos {e t idx : ℚ} (ht : 0 < t) (h : idx < e) : 0 < cnt e t idx := by
  rw [lt_cnt_iff ht]; simpa using h

theorem cnt_succ {e t idx : ℚ} (ht : 0 < t) (h : idx < e) :
    cnt e t idx = cnt e t (idx + t) + 1 := by
  apply le_antisymm
  · by_contra hlt
    replace hlt := not_le.1 hlt
    have h1 : cnt e t (idx + t) < cnt e t (idx + t) := by
      rw [lt_cnt_iff ht]
      have := (lt_cnt_iff (e := e) (idx := idx) ht (cnt e t (idx + t) + 1)).1 hlt
      push_cast at this; linarith
    exact lt_irrefl _ h1
  · rcases Nat.eq_zero_or_pos (cnt e t (idx + t)) with h0 | hp
    · rw [h0]; exact cnt_pos ht h
    · have h1 : cnt e t (idx + t) - 1 < cnt e t (idx + t) := Nat.sub_lt hp Nat.one_pos
      rw [lt_cnt_iff ht] at h1
      have h2 : cnt e t (idx + t) < cnt e t idx := by
        rw [lt_cnt_iff ht]
        have e1 : ((cnt e t (idx + t) - 1 : ℕ) : ℚ) = (cnt e t (idx + t) : ℚ) - 1 := by
          rw [Nat.cast_sub hp]; simp
        rw [e1] at h1; linarith
      exact h2

/-- closed form of the loop for `inc = 0`, any fuel -/
theorem stepsIn_const {e t : ℚ} (ht : 0 < t) : ∀ (fuel : ℕ) (idx : ℚ),
    stepsIn 0 e fuel t idx =
      ((List.range (min fuel (cnt e t idx))).map (fun k : ℕ => idx + ((k : ℚ) + 1) * t),
       idx + (min fuel (cnt e t idx) : ℕ) * t,
       decide (fuel < cnt e t idx)) := by
  intro fuel
  induction fuel with
  | zero =>
    intro idx
    by_cases h : idx < e
    · have := cnt_pos ht h
      simp [stepsIn, h, this]
    · have := cnt_eq_zero ht (not_lt.1 h)
      simp [stepsIn, h, this]
  | succ n ih =>
    intro idx
    by_cases h : idx < e
    · have hs := cnt_succ ht h
      rw [stepsIn]
      simp only [lt_eq, h, decide_true, if_true, add_zero]
      rw [ih, hs, Nat.add_min_add_right, List.range_succ_eq_map]
      simp only [List.map_cons, List.map_map, Prod.mk.injEq]
      refine ⟨?_, ?_, ?_⟩
      · congr 1
        · simp
        · apply List.map_congr_left
          intro k _
          simp only [Function.comp, Nat.cast_succ]; ring
      · push_cast; ring
      · simp
    · have := cnt_eq_zero ht (not_lt.1 h)
      simp [stepsIn, h, this]


variable {e t : ℚ}

theorem stepsIn_length (ht : 0 < t) (fuel : ℕ) (idx : ℚ) :
    (stepsIn 0 e fuel t idx).1.length = min fuel (cnt e t idx) := by
  rw [stepsIn_const ht]; simp

theorem stepsIn_ranOut (ht : 0 < t) (fuel : ℕ) (idx : ℚ) :
    (stepsIn 0 e fuel t idx).2.2 = decide (fuel < cnt e t idx) := by
  rw [stepsIn_const ht]

/-- enough fuel: the loop ends by itself -/
theorem stepsIn_ranOut_false (ht : 0 < t) {fuel : ℕ} {idx : ℚ} (hf : cnt e t idx ≤ fuel) :
    (stepsIn 0 e fuel t idx).2.2 = false := by
  rw [stepsIn_ranOut ht]; simpa using hf

theorem stepsIn_length_of_fuel (ht : 0 < t) {fuel : ℕ} {idx : ℚ} (hf : cnt e t idx ≤ fuel) :
    (stepsIn 0 e fuel t idx).1.length = cnt e t idx := by
  rw [stepsIn_length ht, Nat.min_eq_right hf]

theorem stepsIn_final (ht : 0 < t) {fuel : ℕ} {idx : ℚ} (hf : cnt e t idx ≤ fuel) :
    (stepsIn 0 e fuel t idx).2.1 = idx + (cnt e t idx : ℚ) * t := by
  rw [stepsIn_const ht, Nat.min_eq_right hf]

/-- the positions are `idx + t, idx + 2t, …, idx + n t` -/
theorem stepsIn_positions (ht : 0 < t) {fuel : ℕ} {idx : ℚ} (hf : cnt e t idx ≤ fuel) :
    (stepsIn 0 e fuel t idx).1 =
      (List.range (cnt e t idx)).map (fun k : ℕ => idx + ((k : ℚ) + 1) * t) := by
  rw [stepsIn_const ht, Nat.min_eq_right hf]

/-- `idx ≥ end`: nothing is emitted, whatever the fuel -/
theorem stepsIn_of_ge (ht : 0 < t) (fuel : ℕ) {idx : ℚ} (h : e ≤ idx) :
    stepsIn 0 e fuel t idx = ([], idx, false) := by
  rw [stepsIn_const ht, cnt_eq_zero ht h]; simp

theorem final_ge (ht : 0 < t) (idx : ℚ) : e ≤ idx + (cnt e t idx : ℚ) * t := by
  have := (lt_cnt_iff (e := e) (idx := idx) ht (cnt e t idx)).not.1 (lt_irrefl _)
  exact not_lt.1 this

theorem final_lt (ht : 0 < t) {idx : ℚ} (h : idx < e) : idx + (cnt e t idx : ℚ) * t < e + t := by
  have hp := cnt_pos ht h
  have h1 : cnt e t idx - 1 < cnt e t idx := Nat.sub_lt hp Nat.one_pos
  rw [lt_cnt_iff ht, Nat.cast_sub hp] at h1
  simp only [Nat.cast_one] at h1
  linarith

/-- `cnt` is the least `k` with `idx + k t ≥ end` -/
theorem cnt_least (ht : 0 < t) (idx : ℚ) (k : ℕ) : cnt e t idx ≤ k ↔ e ≤ idx + k * t := by
  rw [← not_lt, lt_cnt_iff ht, not_lt]

/-- explicit count in the vocabulary of the model: `⌈(end − idx)/t⌉ as usize` -/
theorem cnt_eq_model {idx : ℚ} :
    cnt e t idx = RNum.toNat (RNum.ceil ((e - idx) / t)) := by
  rw [ceil_eq, toNat_eq]
  unfold cnt
  split
  · simp
  · rename_i h
    have : ⌈(e - idx) / t⌉ < 0 := by
      have := not_le.1 h
      exact_mod_cast this
    omega

/-- every emitted position lies in `[idx + t, end + t)` (any fuel) -/
theorem mem_positions (ht : 0 < t) {fuel : ℕ} {idx p : ℚ}
    (hp : p ∈ (stepsIn 0 e fuel t idx).1) : idx + t ≤ p ∧ p < e + t ∧ idx < e := by
  rw [stepsIn_const ht] at hp
  simp only [List.mem_map, List.mem_range] at hp
  obtain ⟨k, hk, rfl⟩ := hp
  have hk' : k < cnt e t idx := lt_of_lt_of_le hk (Nat.min_le_right _ _)
  have h1 := (lt_cnt_iff ht k).1 hk'
  have h0 : (0 : ℚ) ≤ k := Nat.cast_nonneg k
  have h2 : 0 ≤ (k : ℚ) * t := mul_nonneg h0 ht.le
  refine ⟨?_, ?_, ?_⟩ <;> nlinarith

theorem mem_positions_gt (ht : 0 < t) {fuel : ℕ} {idx p : ℚ}
    (hp : p ∈ (stepsIn 0 e fuel t idx).1) : idx < p := by
  have := (mem_positions ht hp).1; linarith

/-- A, packaged: with `inc = 0`, `t > 0` and enough fuel (`n := cnt e t idx ≤ fuel`) -/
theorem stepsIn_spec (ht : 0 < t) {fuel : ℕ} {idx : ℚ} (hf : cnt e t idx ≤ fuel) :
    stepsIn 0 e fuel t idx =
      ((List.range (cnt e t idx)).map (fun k : ℕ => idx + ((k : ℚ) + 1) * t),
        idx + (cnt e t idx : ℚ) * t, false) ∧
    (e ≤ idx → cnt e t idx = 0) ∧
    (idx < e → 1 ≤ cnt e t idx ∧ e ≤ idx + (cnt e t idx : ℚ) * t ∧
      idx + (cnt e t idx : ℚ) * t < e + t) ∧
    (∀ k : ℕ, cnt e t idx ≤ k ↔ e ≤ idx + k * t) := by
  refine ⟨?_, cnt_eq_zero ht, fun h => ⟨cnt_pos ht h, final_ge ht idx, final_lt ht h⟩,
    cnt_least ht idx⟩
  rw [stepsIn_const ht, Nat.min_eq_right hf]
  simp only [Prod.mk.injEq, true_and]
  simpa using hf

/-! ## B. the invariant on `lastIndex` -/

/-- `end_idx` exactly as computed in `AState.process` -/
def endIdx (c L : ℕ) (target : ℚ) : ℤ :=
  (c : ℤ) - ((L : ℤ) + 1) - RNum.toInt (RNum.ceil (RNum.one / target))

/-- the control plane of one fixed-input call, exactly as in `AState.process` -/
def callIn (c L : ℕ) (ratio target : ℚ) (fuel : ℕ) (last : ℚ) : List ℚ × ℚ × Bool :=
  stepsIn (incIn c ratio target) (RNum.ofInt (endIdx c L target)) fuel (RNum.one / ratio) last

/-- `lastIndex` after the call -/
def nextLast (c L : ℕ) (ratio target : ℚ) (fuel : ℕ) (last : ℚ) : ℚ :=
  (callIn c L ratio target fuel last).2.1 - RNum.ofNat c

/-- `end_idx` as a rational, constant ratio `r` -/
def eC (c L : ℕ) (r : ℚ) : ℚ := (c : ℚ) - ((L : ℚ) + 1) - (⌈1 / r⌉ : ℤ)

/-- number of frames a constant-ratio call emits -/
def nC (c L : ℕ) (r last : ℚ) : ℕ := cnt (eC c L r) (1 / r) last

theorem endIdx_cast (c L : ℕ) (r : ℚ) : ((endIdx c L r : ℤ) : ℚ) = eC c L r := by
  simp [endIdx, eC]

theorem callIn_const (c L : ℕ) (r : ℚ) (fuel : ℕ) (last : ℚ) :
    callIn c L r r fuel last = stepsIn 0 (eC c L r) fuel (1 / r) last := by
  unfold callIn
  rw [incIn_const, ofInt_eq, endIdx_cast, one_eq]

theorem one_le_T {r : ℚ} (hr : 0 < r) : 1 ≤ ⌈1 / r⌉ := by
  rw [Int.one_le_ceil_iff]; positivity

theorem t_le_T (r : ℚ) : 1 / r ≤ (⌈1 / r⌉ : ℤ) := Int.le_ceil _

theorem T_lt_t_add_one (r : ℚ) : ((⌈1 / r⌉ : ℤ) : ℚ) < 1 / r + 1 := Int.ceil_lt_add_one _

/-- the invariant: `−(L+1) − T ≤ lastIndex ≤ −(L/2)` -/
def Inv (L : ℕ) (T : ℤ) (last : ℚ) : Prop :=
  -((L : ℚ) + 1) - (T : ℚ) ≤ last ∧ last ≤ -((L / 2 : ℕ) : ℚ)

theorem inv_init (L : ℕ) {T : ℤ} (hT : 0 ≤ T) : Inv L T (-(RNum.ofNat (L / 2) : ℚ)) := by
  have h1 : ((L / 2 : ℕ) : ℚ) ≤ (L : ℚ) := by exact_mod_cast Nat.div_le_self L 2
  have h2 : (0 : ℚ) ≤ T := by exact_mod_cast hT
  constructor
  · rw [ofNat_eq]; linarith
  · rw [ofNat_eq]

theorem half_le (L : ℕ) : ((L / 2 : ℕ) : ℚ) ≤ (L : ℚ) := by
  exact_mod_cast Nat.div_le_self L 2

/-- one constant-ratio call with enough fuel preserves the invariant, for every chunk size -/
theorem inv_preserved {r : ℚ} (hr : 0 < r) (c L : ℕ) {fuel : ℕ} {last : ℚ}
    (hinv : Inv L ⌈1 / r⌉ last) (hf : nC c L r last ≤ fuel) :
    Inv L ⌈1 / r⌉ (nextLast c L r r fuel last) := by
  have ht : (0 : ℚ) < 1 / r := by positivity
  unfold nextLast
  rw [callIn_const, stepsIn_final ht hf, ofNat_eq]
  obtain ⟨hlo, hhi⟩ := hinv
  have hge := final_ge (e := eC c L r) ht last
  have hL := half_le L
  have hc : (0 : ℚ) ≤ c := Nat.cast_nonneg c
  by_cases h : last < eC c L r
  · have hlt := final_lt ht h
    have := t_le_T r
    unfold eC at hge hlt ⊢
    constructor <;> linarith
  · have h0 : cnt (eC c L r) (1 / r) last = 0 := cnt_eq_zero ht (not_lt.1 h)
    have h' := not_lt.1 h
    rw [h0]
    unfold eC at h'
    constructor
    · simp only [Nat.cast_zero, zero_mul, add_zero]; linarith
    · simp only [Nat.cast_zero, zero_mul, add_zero]; linarith

/-- sharper: when the loop ran, the new `lastIndex` lies in `[−(L+1) − T, −(L+1) − T + t)` -/
theorem nextLast_range {r : ℚ} (hr : 0 < r) (c L : ℕ) {fuel : ℕ} {last : ℚ}
    (hf : nC c L r last ≤ fuel) (h : last < eC c L r) :
    -((L : ℚ) + 1) - (⌈1 / r⌉ : ℤ) ≤ nextLast c L r r fuel last ∧
      nextLast c L r r fuel last < -((L : ℚ) + 1) - (⌈1 / r⌉ : ℤ) + 1 / r := by
  have ht : (0 : ℚ) < 1 / r := by positivity
  unfold nextLast
  rw [callIn_const, stepsIn_final ht hf, ofNat_eq]
  have hge := final_ge (e := eC c L r) ht last
  have hlt := final_lt ht h
  unfold eC at hge hlt ⊢
  constructor <;> linarith

/-! ## position bounds under the invariant -/

/-- every position emitted by a constant-ratio call lies in `(−(L+2), c − (L+1))` -/
theorem pos_bounds {r : ℚ} (hr : 0 < r) {c L fuel : ℕ} {last p : ℚ}
    (hinv : Inv L ⌈1 / r⌉ last) (hp : p ∈ (callIn c L r r fuel last).1) :
    -((L : ℚ) + 2) < p ∧ p < (c : ℚ) - ((L : ℚ) + 1) := by
  have ht : (0 : ℚ) < 1 / r := by positivity
  rw [callIn_const] at hp
  obtain ⟨h1, h2, _⟩ := mem_positions ht hp
  have := t_le_T r
  have := T_lt_t_add_one r
  obtain ⟨hlo, _⟩ := hinv
  unfold eC at h2
  constructor <;> linarith

theorem floor_bounds {r : ℚ} (hr : 0 < r) {c L fuel : ℕ} {last p : ℚ}
    (hinv : Inv L ⌈1 / r⌉ last) (hp : p ∈ (callIn c L r r fuel last).1) :
    -((L : ℤ) + 2) ≤ ⌊p⌋ ∧ ⌊p⌋ ≤ (c : ℤ) - (L : ℤ) - 2 := by
  obtain ⟨h1, h2⟩ := pos_bounds hr hinv hp
  constructor
  · rw [Int.le_floor]; push_cast; linarith
  · have : ⌊p⌋ < (c : ℤ) - (L : ℤ) - 1 := by
      rw [Int.floor_lt]; push_cast; linarith
    omega

/-! ## C. read safety of `FastFixedIn` -/

theorem fastStart_eq (deg : Degree) (p : ℚ) :
    fastStart deg p = ⌊p⌋ - ((Fast.fastWindow deg).1 : ℤ) + 16 := by
  simp [fastStart, Fast.polyLen]

/-- all reads of a constant-ratio `FastFixedIn` call stay inside `[3, c + 11) ⊆ [0, 16 + c)`:
inside the buffer, and inside the frames loaded so far -/
theorem fast_read_safe_strong {r : ℚ} (hr : 0 < r) {c fuel : ℕ} {last p : ℚ}
    (hinv : Inv 8 ⌈1 / r⌉ last) (hp : p ∈ (callIn c 8 r r fuel last).1) (deg : Degree) :
    3 ≤ fastStart deg p ∧ fastStart deg p + fastWidth deg ≤ (c : ℤ) + 11 := by
  obtain ⟨h1, h2⟩ := floor_bounds hr hinv hp
  rw [fastStart_eq]
  cases deg <;> simp only [Fast.fastWindow, fastWidth] <;> constructor <;> push_cast <;> omega

theorem fast_read_safe {r : ℚ} (hr : 0 < r) {c fuel : ℕ} {last p : ℚ}
    (hinv : Inv 8 ⌈1 / r⌉ last) (hp : p ∈ (callIn c 8 r r fuel last).1) (deg : Degree) :
    0 ≤ fastStart deg p ∧ fastStart deg p + fastWidth deg ≤ 16 + (c : ℤ) := by
  obtain ⟨h1, h2⟩ := fast_read_safe_strong hr hinv hp deg
  constructor <;> omega


/-! ## D. the number of frames emitted fits the validated output room -/

theorem outNextIn_eq (c : ℕ) (ratio target : ℚ) :
    outNextIn c ratio target = RNum.toNat ((c : ℚ) * (ratio / 2 + target / 2) + 10) := by
  simp only [outNextIn, meanRatio, ofNat_eq, half_eq, ten_eq]
  congr 1; ring

theorem outNextIn_const {r : ℚ} (hr : 0 ≤ r) (c : ℕ) :
    outNextIn c r r = ⌊(c : ℚ) * r + 10⌋.toNat := by
  rw [outNextIn_eq, toNat_of_nonneg]
  · congr 2; ring
  · have : (0 : ℚ) ≤ c := Nat.cast_nonneg c
    have := mul_nonneg this hr
    have e1 : r / 2 + r / 2 = r := by ring
    rw [e1]; linarith

/-- `n ≤ ⌈c·r⌉` under the invariant -/
theorem count_le_ceil {r : ℚ} (hr : 0 < r) (c L : ℕ) {last : ℚ} (hinv : Inv L ⌈1 / r⌉ last) :
    nC c L r last ≤ ⌈(c : ℚ) * r⌉.toNat := by
  unfold nC cnt
  apply Int.toNat_le_toNat
  apply Int.ceil_mono
  obtain ⟨hlo, _⟩ := hinv
  have h1 : eC c L r - last ≤ c := by unfold eC; linarith
  rw [div_div_eq_mul_div, div_one]
  exact mul_le_mul_of_nonneg_right h1 hr.le

/-- D: `n ≤ output_frames_next()` -/
theorem count_le {r : ℚ} (hr : 0 < r) (c L : ℕ) {last : ℚ} (hinv : Inv L ⌈1 / r⌉ last) :
    nC c L r last ≤ outNextIn c r r := by
  refine le_trans (count_le_ceil hr c L hinv) ?_
  rw [outNextIn_const hr.le]
  apply Int.toNat_le_toNat
  rw [Int.ceil_le]
  have := Int.lt_floor_add_one ((c : ℚ) * r + 10)
  linarith

/-- the loop never runs out of room when the caller offers `output_frames_next()` frames -/
theorem no_overrun {r : ℚ} (hr : 0 < r) (c L : ℕ) {fuel : ℕ} {last : ℚ}
    (hinv : Inv L ⌈1 / r⌉ last) (hf : outNextIn c r r ≤ fuel) :
    (callIn c L r r fuel last).2.2 = false := by
  have ht : (0 : ℚ) < 1 / r := by positivity
  rw [callIn_const]
  exact stepsIn_ranOut_false ht (le_trans (count_le hr c L hinv) hf)

theorem inv_preserved' {r : ℚ} (hr : 0 < r) (c L : ℕ) {fuel : ℕ} {last : ℚ}
    (hinv : Inv L ⌈1 / r⌉ last) (hf : outNextIn c r r ≤ fuel) :
    Inv L ⌈1 / r⌉ (nextLast c L r r fuel last) :=
  inv_preserved hr c L hinv (le_trans (count_le hr c L hinv) hf)

/-- `output_frames_next() ≤ output_frames_max()`, any ratio/target within the allowed range -/
theorem outNextIn_le_outMaxIn {c maxChunk : ℕ} {ratio target orig maxRel : ℚ}
    (hc : c ≤ maxChunk) (h0 : 0 ≤ ratio) (h0' : 0 ≤ target)
    (h1 : ratio ≤ orig * maxRel) (h2 : target ≤ orig * maxRel) :
    outNextIn c ratio target ≤ outMaxIn maxChunk orig maxRel := by
  have hcq : (c : ℚ) ≤ maxChunk := by exact_mod_cast hc
  have hc0 : (0 : ℚ) ≤ c := Nat.cast_nonneg c
  have hm : 0 ≤ ratio / 2 + target / 2 := by linarith
  have hle : ratio / 2 + target / 2 ≤ orig * maxRel := by linarith
  have hmul : (c : ℚ) * (ratio / 2 + target / 2) ≤ (maxChunk : ℚ) * (orig * maxRel) :=
    mul_le_mul hcq hle hm (le_trans hc0 hcq)
  have hnn : 0 ≤ (c : ℚ) * (ratio / 2 + target / 2) := mul_nonneg hc0 hm
  rw [outNextIn_eq]
  simp only [outMaxIn, ofNat_eq, ten_eq]
  rw [toNat_of_nonneg (by linarith), toNat_of_nonneg (by nlinarith)]
  apply Int.toNat_le_toNat
  apply Int.floor_mono
  nlinarith

theorem outNextIn_le_outMaxIn_const {c maxChunk : ℕ} {r orig maxRel : ℚ}
    (hc : c ≤ maxChunk) (horig : 0 < orig) (hrel : 1 ≤ maxRel)
    (hlo : orig / maxRel ≤ r) (hhi : r ≤ orig * maxRel) :
    outNextIn c r r ≤ outMaxIn maxChunk orig maxRel := by
  have hpos : 0 < orig / maxRel := div_pos horig (lt_of_lt_of_le one_pos hrel)
  have hr : 0 ≤ r := le_trans hpos.le hlo
  exact outNextIn_le_outMaxIn hc hr hr hhi hhi

/-! ## E. accounting: no drift -/

/-- one call changes `consumed + lastIndex` by exactly `n·t` -/
theorem potential_step {r : ℚ} (hr : 0 < r) (c L : ℕ) {fuel : ℕ} {last : ℚ}
    (hf : nC c L r last ≤ fuel) (consumed : ℚ) :
    (consumed + c) + nextLast c L r r fuel last =
      consumed + last + ((callIn c L r r fuel last).1.length : ℚ) * (1 / r) := by
  have ht : (0 : ℚ) < 1 / r := by positivity
  unfold nextLast
  rw [callIn_const, stepsIn_final ht hf, stepsIn_length_of_fuel ht hf, ofNat_eq]
  ring

/-- a history of constant-ratio calls with chunk sizes `cs`, each offered exactly
`output_frames_next()` frames of room; the state is `(lastIndex, frames in, frames out)` -/
def runIn (L : ℕ) (r : ℚ) : List ℕ → ℚ × ℕ × ℕ → ℚ × ℕ × ℕ
  | [], s => s
  | c :: cs, s =>
    let fuel := outNextIn c r r
    runIn L r cs (nextLast c L r r fuel s.1, s.2.1 + c, s.2.2 + (callIn c L r r fuel s.1).1.length)

theorem runIn_spec {r : ℚ} (hr : 0 < r) (L : ℕ) : ∀ (cs : List ℕ) (s : ℚ × ℕ × ℕ),
    Inv L ⌈1 / r⌉ s.1 →
    Inv L ⌈1 / r⌉ (runIn L r cs s).1 ∧
    ((runIn L r cs s).2.1 : ℚ) + (runIn L r cs s).1 - ((s.2.1 : ℚ) + s.1) =
      (((runIn L r cs s).2.2 : ℚ) - (s.2.2 : ℚ)) * (1 / r) ∧
    (runIn L r cs s).2.1 = s.2.1 + cs.sum ∧ s.2.2 ≤ (runIn L r cs s).2.2 := by
  intro cs
  induction cs with
  | nil =>
    intro s h
    simp only [runIn]
    exact ⟨h, by ring, by simp, le_refl _⟩
  | cons c cs ih =>
    intro s h
    have hf := count_le hr c L h
    have hinv' := inv_preserved hr c L h hf
    have hstep := potential_step hr c L hf (s.2.1 : ℚ)
    obtain ⟨i1, i2, i3, i4⟩ := ih (nextLast c L r r (outNextIn c r r) s.1, s.2.1 + c,
      s.2.2 + (callIn c L r r (outNextIn c r r) s.1).1.length) hinv'
    simp only [runIn]
    dsimp only at i2 i3 i4
    refine ⟨i1, ?_, ?_, ?_⟩
    · simp only [Nat.cast_add] at i2
      linarith
    · rw [i3, List.sum_cons]; omega
    · omega

/-- E: after any number of calls with arbitrary chunk sizes, starting from a fresh resampler:
`r·totalIn − totalOut = r·(last₀ − last)`, which lies in `[0, r·(L − L/2 + 1 + T)]` -/
theorem accounting_bound {r : ℚ} (hr : 0 < r) (L : ℕ) (cs : List ℕ) :
    let s := runIn L r cs (-(RNum.ofNat (L / 2) : ℚ), 0, 0)
    r * s.2.1 - s.2.2 = r * (-((L / 2 : ℕ) : ℚ) - s.1) ∧
    0 ≤ r * s.2.1 - s.2.2 ∧
    r * s.2.1 - s.2.2 ≤ r * ((L : ℚ) - ((L / 2 : ℕ) : ℚ) + 1 + (⌈1 / r⌉ : ℤ)) ∧
    s.2.1 = cs.sum := by
  intro s
  have hT : (0 : ℤ) ≤ ⌈1 / r⌉ := le_trans (by norm_num) (one_le_T hr)
  obtain ⟨⟨hlo, hhi⟩, hacc, hin, _⟩ := runIn_spec hr L cs (-(RNum.ofNat (L / 2) : ℚ), 0, 0)
    (inv_init L hT)
  change _ ≤ s.1 at hlo
  change s.1 ≤ _ at hhi
  change (s.2.1 : ℚ) + s.1 - _ = ((s.2.2 : ℚ) - _) * _ at hacc
  change s.2.1 = _ at hin
  simp only [ofNat_eq, Nat.cast_zero, zero_add, sub_zero] at hacc hin
  have hrne : r ≠ 0 := hr.ne'
  have key : r * s.2.1 - s.2.2 = r * (-((L / 2 : ℕ) : ℚ) - s.1) := by
    have : (s.2.2 : ℚ) = r * ((s.2.2 : ℚ) * (1 / r)) := by field_simp
    rw [this, ← hacc]; ring
  refine ⟨key, ?_, ?_, hin⟩
  · rw [key]; apply mul_nonneg hr.le; linarith
  · rw [key]; apply mul_le_mul_of_nonneg_left _ hr.le; linarith

/-- for even `L` (always the case: `L = 8`, sinc lengths are multiples of 8) -/
theorem accounting_bound_even {r : ℚ} (hr : 0 < r) (h : ℕ) (cs : List ℕ) :
    let s := runIn (2 * h) r cs (-(RNum.ofNat (2 * h / 2) : ℚ), 0, 0)
    0 ≤ r * s.2.1 - s.2.2 ∧ r * s.2.1 - s.2.2 ≤ r * ((h : ℚ) + 1 + (⌈1 / r⌉ : ℤ)) := by
  intro s
  obtain ⟨_, h0, h1, _⟩ := accounting_bound hr (2 * h) cs
  refine ⟨h0, le_trans h1 (le_of_eq ?_)⟩
  have : (2 * h / 2 : ℕ) = h := by omega
  rw [this]; push_cast; ring


/-! ## F. read safety of `SincFixedIn` -/

theorem wrapSub_fst (i sub f : ℤ) :
    (wrapSub i sub f).1 = i - 1 ∨ (wrapSub i sub f).1 = i ∨ (wrapSub i sub f).1 = i + 1 := by
  unfold wrapSub
  split_ifs <;> simp

/-- one wrapping step suffices when `−f ≤ sub < 2f` -/
theorem wrapSub_snd {i sub f : ℤ} (h1 : -f ≤ sub) (h2 : sub < 2 * f) :
    0 ≤ (wrapSub i sub f).2 ∧ (wrapSub i sub f).2 < f := by
  unfold wrapSub
  split_ifs <;> constructor <;> simp only <;> omega

theorem round_eq (x : ℚ) : (RNum.round x : ℚ) = (⌊x + 1 / 2⌋ : ℚ) := rfl

/-- the indices requested from the interpolator are `⌊p⌋ − 1`, `⌊p⌋` or `⌊p⌋ + 1` (no hypothesis) -/
theorem nearestTimes_index (sint : SincInterp) (p : ℚ) (factor : ℕ) {q : ℤ × ℤ}
    (hq : q ∈ nearestTimes sint p factor) :
    q.1 = ⌊p⌋ - 1 ∨ q.1 = ⌊p⌋ ∨ q.1 = ⌊p⌋ + 1 := by
  cases sint <;> simp only [nearestTimes, floor_eq, toInt_intCast] at hq
  · -- cubic
    simp only [List.mem_cons, List.not_mem_nil, or_false] at hq
    rcases hq with rfl | rfl | rfl | rfl <;> exact wrapSub_fst _ _ _
  · simp only [List.mem_cons, List.not_mem_nil, or_false] at hq
    rcases hq with rfl | rfl | rfl <;> exact wrapSub_fst _ _ _
  · simp only [List.mem_cons, List.not_mem_nil, or_false] at hq
    rcases hq with rfl | rfl
    · simp
    · split_ifs <;> simp
  · split_ifs at hq <;> simp only [List.mem_cons, List.not_mem_nil, or_false] at hq <;> subst hq <;> simp

theorem frac_bounds (p : ℚ) {factor : ℕ} :
    0 ≤ ⌊(p - ⌊p⌋) * (factor : ℚ)⌋ ∧ (1 ≤ factor → ⌊(p - ⌊p⌋) * (factor : ℚ)⌋ < factor) := by
  have h0 : 0 ≤ p - ⌊p⌋ := by have := Int.floor_le p; linarith
  have h1 : p - ⌊p⌋ < 1 := by have := Int.lt_floor_add_one p; linarith
  have hf : (0 : ℚ) ≤ factor := Nat.cast_nonneg factor
  constructor
  · exact Int.floor_nonneg.2 (mul_nonneg h0 hf)
  · intro hpos
    have hf' : (0 : ℚ) < factor := by exact_mod_cast hpos
    rw [Int.floor_lt]
    push_cast
    nlinarith

/-- sub-indices are in `[0, factor)` provided `factor ≥ 2` (for `.nearest`/`.linear`, `factor ≥ 1`
is enough, see `nearestTimes_sub_lin`); FALSE for `.cubic`/`.quadratic` with `factor = 1`. -/
theorem nearestTimes_sub (sint : SincInterp) (p : ℚ) {factor : ℕ} (hf : 2 ≤ factor) {q : ℤ × ℤ}
    (hq : q ∈ nearestTimes sint p factor) : 0 ≤ q.2 ∧ q.2 < factor := by
  obtain ⟨f0, f1⟩ := frac_bounds p (factor := factor)
  have f1 := f1 (by omega)
  have hfz : (2 : ℤ) ≤ factor := by exact_mod_cast hf
  cases sint <;> simp only [nearestTimes, floor_eq, toInt_intCast, ofNat_eq, round_eq] at hq
  · simp only [List.mem_cons, List.not_mem_nil, or_false, Sinc.nearestFirstOffset] at hq
    rcases hq with rfl | rfl | rfl | rfl <;> apply wrapSub_snd <;> omega
  · simp only [List.mem_cons, List.not_mem_nil, or_false, Sinc.nearestFirstOffset] at hq
    rcases hq with rfl | rfl | rfl <;> apply wrapSub_snd <;> omega
  · simp only [List.mem_cons, List.not_mem_nil, or_false] at hq
    rcases hq with rfl | rfl
    · exact ⟨f0, f1⟩
    · split_ifs <;> constructor <;> simp only <;> omega
  · have h0 : 0 ≤ p - ⌊p⌋ := by have := Int.floor_le p; linarith
    have h1 : p - ⌊p⌋ < 1 := by have := Int.lt_floor_add_one p; linarith
    have hfq : (0 : ℚ) < factor := by exact_mod_cast (show 0 < factor by omega)
    have r0 : 0 ≤ ⌊(p - ⌊p⌋) * (factor : ℚ) + 1 / 2⌋ := by
      apply Int.floor_nonneg.2
      have := mul_nonneg h0 hfq.le
      linarith
    have r1 : ⌊(p - ⌊p⌋) * (factor : ℚ) + 1 / 2⌋ < (factor : ℤ) + 1 := by
      rw [Int.floor_lt]; push_cast; nlinarith
    split_ifs at hq <;> simp only [List.mem_cons, List.not_mem_nil, or_false] at hq <;> subst hq <;>
      constructor <;> simp only <;> omega

/-- the index part of `sincPointOk`, for a constant-ratio call on a buffer of `maxChunk + 2L` frames:
`0 ≤ i + 2L` and `i + 2L + L < c + 2L ≤ buffer length`; the second also says that no tap lies
beyond the frames loaded by this call (`fillEnd = 2L + c`). Needs `L ≥ 3`. -/
theorem sinc_index_safe {r : ℚ} (hr : 0 < r) {c L fuel : ℕ} (hL : 3 ≤ L) {last p : ℚ}
    (hinv : Inv L ⌈1 / r⌉ last) (hp : p ∈ (callIn c L r r fuel last).1)
    (sint : SincInterp) (factor : ℕ) {q : ℤ × ℤ} (hq : q ∈ nearestTimes sint p factor) :
    0 ≤ q.1 + 2 * (L : ℤ) ∧ ((q.1 + 2 * (L : ℤ)).toNat + L < c + 2 * L) ∧
      q.1 + 2 * (L : ℤ) + L < 2 * (L : ℤ) + c := by
  obtain ⟨h1, h2⟩ := floor_bounds hr hinv hp
  have h3 := nearestTimes_index sint p factor hq
  refine ⟨by omega, by omega, by omega⟩

/-- all four asserts of `get_sinc_interpolated` hold (`factor ≥ 2`, `L ≥ 3`, wave at least
`c + 2L` long, e.g. `maxChunk + 2L` with `c ≤ maxChunk`) -/
theorem sinc_point_ok {r : ℚ} (hr : 0 < r) {c waveLen L fuel : ℕ} (hL : 3 ≤ L)
    (hw : c + 2 * L ≤ waveLen)
    {last p : ℚ} (hinv : Inv L ⌈1 / r⌉ last) (hp : p ∈ (callIn c L r r fuel last).1)
    (sint : SincInterp) (ip : Interp ℚ) (hlen : ip.len = L) (hnbr : 2 ≤ ip.nbr) {q : ℤ × ℤ}
    (hq : q ∈ nearestTimes sint p ip.nbr) :
    sincPointOk ip waveLen L q = true := by
  obtain ⟨a1, a2, _⟩ := sinc_index_safe hr hL hinv hp sint ip.nbr hq
  obtain ⟨b1, b2⟩ := nearestTimes_sub sint p hnbr hq
  simp only [sincPointOk, Bool.and_eq_true, decide_eq_true_eq, hlen]
  refine ⟨⟨⟨a1, by omega⟩, b1⟩, by omega⟩

/-! ## I. whole calls: `AState.finishIn` -/

/-- no position faults on the channels the mask ranges over ⇒ `evalChannels` succeeds -/
theorem evalChannels_go_ok (s : AState ℚ ℚ) (buf : Array (Array ℚ)) (ps : List ℚ) (n : ℕ)
    (h : ∀ (i : ℕ) (p : ℚ), i < n → p ∈ ps → posFault s (buf.getD i #[]).size p = none) :
    ∀ (ms : List Bool) (i : ℕ) (acc : List (Option (Array ℚ))), i + ms.length ≤ n →
      ∃ outs, evalChannels.go s buf ps i ms acc = .ok outs := by
  intro ms
  induction ms with
  | nil => intro i acc _; exact ⟨acc.reverse, by simp [evalChannels.go]⟩
  | cons m ms ih =>
    intro i acc hn
    simp only [List.length_cons] at hn
    cases m with
    | false => simpa [evalChannels.go] using ih (i + 1) (none :: acc) (by omega)
    | true =>
      have hn' : ps.findSome? (posFault s (buf.getD i #[]).size) = none :=
        List.findSome?_eq_none_iff.2 (fun p hp => h i p (by omega) hp)
      simp only [evalChannels.go, if_true, hn']
      exact ih _ _ (by omega)

theorem evalChannels_ok (s : AState ℚ ℚ) (buf : Array (Array ℚ)) (mask : List Bool) (ps : List ℚ)
    (h : ∀ (i : ℕ) (p : ℚ), i < mask.length → p ∈ ps →
      posFault s (buf.getD i #[]).size p = none) :
    ∃ outs, evalChannels s buf mask ps = .ok outs :=
  evalChannels_go_ok s buf ps mask.length h mask 0 [] (by omega)

/-- `finishIn` in terms of `callIn` (checked by `rfl` against the model) -/
def finishInOf (s : AState ℚ ℚ) (mask : List Bool) (cl : List ℚ × ℚ × Bool) :
    AState ℚ ℚ × Outcome (CallOut ℚ) :=
  if cl.2.2 then
    (s, (if mask.any id then (if s.kind.isSinc then .panic "wave_out[n]" else .abort "get_unchecked_mut(n)")
         else .panic "position diverges"))
  else
    match evalChannels s s.buf mask cl.1 with
    | .error f => (s, faultOutcome f)
    | .ok outs =>
      ({ s with lastIndex := cl.2.1 - RNum.ofNat s.chunk, ratio := s.target },
        .ok { nIn := s.chunk, nOut := cl.1.length, out := outs,
              stale := cl.1.any fun p => decide (readEnd s p > 2 * (s.L : ℤ) + s.chunk) })

theorem finishIn_steps (s : AState ℚ ℚ) (fuel : ℕ) :
    stepsIn ((RNum.one / s.target - RNum.one / s.ratio) / (RNum.ofNat s.chunk * meanRatio s.ratio s.target))
      (RNum.ofInt ((s.chunk : ℤ) - ((s.L : ℤ) + 1) - RNum.toInt (RNum.ceil (RNum.one / s.target))))
      fuel (RNum.one / s.ratio) s.lastIndex
    = callIn s.chunk s.L s.ratio s.target fuel s.lastIndex := rfl

theorem finishIn_eq (s : AState ℚ ℚ) (mask : List Bool) (fuel : ℕ) :
    s.finishIn mask fuel =
      finishInOf s mask (callIn s.chunk s.L s.ratio s.target fuel s.lastIndex) := by
  unfold AState.finishIn finishInOf
  dsimp only
  rw [finishIn_steps]
  generalize callIn s.chunk s.L s.ratio s.target fuel s.lastIndex = cl
  cases evalChannels s s.buf mask cl.1 <;> rfl

theorem finishInOf_ok (s : AState ℚ ℚ) (mask : List Bool) (cl : List ℚ × ℚ × Bool)
    {out : CallOut ℚ} (h : (finishInOf s mask cl).2 = .ok out) :
    cl.2.2 = false ∧
    (finishInOf s mask cl).1 = { s with lastIndex := cl.2.1 - RNum.ofNat s.chunk, ratio := s.target } ∧
    out.nIn = s.chunk ∧ out.nOut = cl.1.length := by
  unfold finishInOf at h ⊢
  by_cases hr : cl.2.2 = true
  · rw [if_pos hr] at h
    dsimp only at h
    split at h <;> (try split at h) <;> simp at h
  · rw [if_neg hr] at h ⊢
    cases he : evalChannels s s.buf mask cl.1 with
    | error f =>
      rw [he] at h
      dsimp only [faultOutcome] at h
      split at h <;> simp at h
    | ok outs =>
      rw [he] at h
      dsimp only at h
      simp only [Outcome.ok.injEq] at h
      subst h
      simp only [Bool.not_eq_true] at hr
      simp [hr]

/-- what a successful `finishIn` reports and leaves behind -/
theorem finishIn_ok (s : AState ℚ ℚ) (mask : List Bool) (fuel : ℕ) {out : CallOut ℚ}
    (h : (s.finishIn mask fuel).2 = .ok out) :
    (callIn s.chunk s.L s.ratio s.target fuel s.lastIndex).2.2 = false ∧
    (s.finishIn mask fuel).1 =
      { s with lastIndex := nextLast s.chunk s.L s.ratio s.target fuel s.lastIndex,
               ratio := s.target } ∧
    out.nIn = s.chunk ∧
    out.nOut = (callIn s.chunk s.L s.ratio s.target fuel s.lastIndex).1.length := by
  rw [finishIn_eq] at h ⊢
  exact finishInOf_ok s mask _ h

/-- the only ways `finishIn` fails: no room left in the output, or a position fault -/
theorem finishIn_succeeds (s : AState ℚ ℚ) (mask : List Bool) (fuel : ℕ)
    (hfuel : (callIn s.chunk s.L s.ratio s.target fuel s.lastIndex).2.2 = false)
    (hpos : ∀ (i : ℕ) (p : ℚ), i < mask.length →
      p ∈ (callIn s.chunk s.L s.ratio s.target fuel s.lastIndex).1 →
      posFault s (s.buf.getD i #[]).size p = none) :
    ∃ outs, (s.finishIn mask fuel).2 = .ok
      { nIn := s.chunk,
        nOut := (callIn s.chunk s.L s.ratio s.target fuel s.lastIndex).1.length,
        out := outs,
        stale := (callIn s.chunk s.L s.ratio s.target fuel s.lastIndex).1.any
          fun p => decide (readEnd s p > 2 * (s.L : ℤ) + s.chunk) } := by
  obtain ⟨outs, he⟩ := evalChannels_ok s s.buf mask _ hpos
  refine ⟨outs, ?_⟩
  rw [finishIn_eq]
  unfold finishInOf
  rw [hfuel, he]
  simp

/-- `finishIn` only ever changes `lastIndex` and `ratio` -/
theorem finishIn_frame (s : AState ℚ ℚ) (mask : List Bool) (fuel : ℕ) :
    ∃ last ratio, (s.finishIn mask fuel).1 = { s with lastIndex := last, ratio := ratio } := by
  rw [finishIn_eq]
  unfold finishInOf
  generalize callIn s.chunk s.L s.ratio s.target fuel s.lastIndex = cl
  by_cases h : cl.2.2 = true
  · rw [if_pos h]; exact ⟨s.lastIndex, s.ratio, rfl⟩
  · rw [if_neg h]
    cases evalChannels s s.buf mask cl.1 with
    | error f => exact ⟨s.lastIndex, s.ratio, rfl⟩
    | ok outs => exact ⟨_, _, rfl⟩

/-- **FastFixedIn, constant ratio**: a call in a state satisfying the invariant, offered at least
`output_frames_next()` frames of room, on buffers of `chunk + 16` frames (or more), succeeds,
reads nothing stale, emits `nC` frames and re-establishes the invariant. -/
theorem fastIn_call {r : ℚ} (hr : 0 < r) (s : AState ℚ ℚ) (mask : List Bool) (fuel : ℕ)
    (hk : s.kind = .fastIn) (hL : s.L = 8) (hratio : s.ratio = r) (htarget : s.target = r)
    (hbuf : ∀ i : ℕ, i < mask.length → s.chunk + 16 ≤ (s.buf.getD i #[]).size)
    (hinv : Inv 8 ⌈1 / r⌉ s.lastIndex) (hf : outNextIn s.chunk r r ≤ fuel) :
    ∃ outs, (s.finishIn mask fuel).2 = .ok
        { nIn := s.chunk, nOut := nC s.chunk 8 r s.lastIndex, out := outs, stale := false } ∧
      Inv 8 ⌈1 / r⌉ (s.finishIn mask fuel).1.lastIndex ∧
      (s.finishIn mask fuel).1.ratio = r ∧ (s.finishIn mask fuel).1.target = r := by
  have ht : (0 : ℚ) < 1 / r := by positivity
  have hcnt := count_le hr s.chunk 8 hinv
  have hfuel := no_overrun hr s.chunk 8 hinv hf
  have hpos : ∀ (i : ℕ) (p : ℚ), i < mask.length →
      p ∈ (callIn s.chunk s.L s.ratio s.target fuel s.lastIndex).1 →
      posFault s (s.buf.getD i #[]).size p = none := by
    intro i p hi hp
    rw [hL, hratio, htarget] at hp
    obtain ⟨a, b⟩ := fast_read_safe_strong hr hinv hp s.deg
    have := hbuf i hi
    unfold posFault
    rw [hk]
    simp only [AKind.isSinc, Bool.false_eq_true, if_false]
    rw [if_pos]
    constructor <;> omega
  have hstale : ((callIn s.chunk s.L s.ratio s.target fuel s.lastIndex).1.any
      fun p => decide (readEnd s p > 2 * (s.L : ℤ) + s.chunk)) = false := by
    rw [List.any_eq_false]
    intro p hp
    rw [hL, hratio, htarget] at hp
    obtain ⟨a, b⟩ := fast_read_safe_strong hr hinv hp s.deg
    simp only [readEnd, hk, AKind.isSinc, hL]
    simp only [Bool.false_eq_true, if_false, decide_eq_true_eq, not_lt, gt_iff_lt]
    omega
  obtain ⟨outs, hok⟩ := finishIn_succeeds s mask fuel (by rw [hL, hratio, htarget]; exact hfuel) hpos
  obtain ⟨_, hst, _, _⟩ := finishIn_ok s mask fuel hok
  refine ⟨outs, ?_, ?_, ?_, ?_⟩
  · rw [hok, hstale]
    congr 2
    rw [hL, hratio, htarget, callIn_const, stepsIn_length_of_fuel ht (le_trans hcnt hf)]
    rfl
  · rw [hst]
    simp only [hL, hratio, htarget]
    exact inv_preserved' hr s.chunk 8 hinv hf
  · rw [hst]; exact htarget
  · rw [hst]; exact htarget


theorem foldl_max_le (l : List ℤ) (a B : ℤ) (ha : a ≤ B) (h : ∀ x ∈ l, x ≤ B) :
    l.foldl max a ≤ B := by
  induction l generalizing a with
  | nil => simpa using ha
  | cons x xs ih =>
    simp only [List.foldl_cons]
    apply ih
    · exact max_le ha (h x (by simp))
    · intro y hy; exact h y (by simp [hy])

/-- **SincFixedIn, constant ratio**: a call with any chunk size `s.chunk` (buffers at least
`chunk + 2L` long), in a state satisfying the invariant, offered at least `output_frames_next()`
frames of room, succeeds, reads nothing stale, emits `nC` frames and re-establishes the invariant.
Needs `oversampling_factor ≥ 2` and `L ≥ 3`. -/
theorem sincIn_call {r : ℚ} (hr : 0 < r) (s : AState ℚ ℚ) (mask : List Bool) (fuel : ℕ)
    (hk : s.kind = .sincIn) (hL : 3 ≤ s.L) (hlen : s.ip.len = s.L) (hnbr : 2 ≤ s.ip.nbr)
    (hratio : s.ratio = r) (htarget : s.target = r)
    (hbuf : ∀ i : ℕ, i < mask.length → s.chunk + 2 * s.L ≤ (s.buf.getD i #[]).size)
    (hinv : Inv s.L ⌈1 / r⌉ s.lastIndex) (hf : outNextIn s.chunk r r ≤ fuel) :
    ∃ outs, (s.finishIn mask fuel).2 = .ok
        { nIn := s.chunk, nOut := nC s.chunk s.L r s.lastIndex, out := outs, stale := false } ∧
      Inv s.L ⌈1 / r⌉ (s.finishIn mask fuel).1.lastIndex ∧
      (s.finishIn mask fuel).1.ratio = r ∧ (s.finishIn mask fuel).1.target = r := by
  have ht : (0 : ℚ) < 1 / r := by positivity
  have hcnt := count_le hr s.chunk s.L hinv
  have hfuel := no_overrun hr s.chunk s.L hinv hf
  have hpos : ∀ (i : ℕ) (p : ℚ), i < mask.length →
      p ∈ (callIn s.chunk s.L s.ratio s.target fuel s.lastIndex).1 →
      posFault s (s.buf.getD i #[]).size p = none := by
    intro i p hi hp
    rw [hratio, htarget] at hp
    unfold posFault
    rw [hk]
    simp only [AKind.isSinc, if_true]
    rw [if_pos]
    rw [List.all_eq_true]
    intro q hq
    exact sinc_point_ok hr hL (hbuf i hi) hinv hp s.sint s.ip hlen hnbr hq
  have hstale : ((callIn s.chunk s.L s.ratio s.target fuel s.lastIndex).1.any
      fun p => decide (readEnd s p > 2 * (s.L : ℤ) + s.chunk)) = false := by
    rw [List.any_eq_false]
    intro p hp
    rw [hratio, htarget] at hp
    unfold readEnd
    rw [hk]
    simp only [AKind.isSinc, if_true, decide_eq_true_eq, not_lt, gt_iff_lt]
    apply foldl_max_le
    · omega
    · intro x hx
      simp only [List.mem_map] at hx
      obtain ⟨q, hq, rfl⟩ := hx
      obtain ⟨_, _, a3⟩ := sinc_index_safe hr hL hinv hp s.sint s.ip.nbr hq
      rw [hlen]; omega
  obtain ⟨outs, hok⟩ := finishIn_succeeds s mask fuel (by rw [hratio, htarget]; exact hfuel) hpos
  obtain ⟨_, hst, _, _⟩ := finishIn_ok s mask fuel hok
  refine ⟨outs, ?_, ?_, ?_, ?_⟩
  · rw [hok, hstale]
    congr 2
    rw [hratio, htarget, callIn_const, stepsIn_length_of_fuel ht (le_trans hcnt hf)]
    rfl
  · rw [hst]
    simp only [hratio, htarget]
    exact inv_preserved' hr s.chunk s.L hinv hf
  · rw [hst]; exact htarget
  · rw [hst]; exact htarget


/-! ## G. non-ramped ratio changes between calls

Before the call `ratio := target := r'` (what `set_resample_ratio(r', false)` does); the state was
left by calls at ratio `r`, so it satisfies `Inv L ⌈1/r⌉`. -/

/-- the invariant only gets weaker when `T` grows: slowing down (`⌈1/r⌉ ≤ ⌈1/r'⌉`, in particular
`r' ≤ r`) keeps every result of B, C, D, F -/
theorem inv_mono {L : ℕ} {T T' : ℤ} (h : T ≤ T') {last : ℚ} (hinv : Inv L T last) :
    Inv L T' last := by
  have : (T : ℚ) ≤ T' := by exact_mod_cast h
  exact ⟨by linarith [hinv.1], hinv.2⟩

theorem inv_of_ratio_le {L : ℕ} {r r' : ℚ} (hr' : 0 < r') (h : r' ≤ r) {last : ℚ}
    (hinv : Inv L ⌈1 / r⌉ last) : Inv L ⌈1 / r'⌉ last := by
  apply inv_mono _ hinv
  apply Int.ceil_mono
  exact one_div_le_one_div_of_le hr' h

/-- positions of a constant-ratio call started from ANY `lastIndex`: the upper bound never depends
on the state -/
theorem pos_bounds_any {r' : ℚ} (hr' : 0 < r') {c L fuel : ℕ} {last p : ℚ}
    (hp : p ∈ (callIn c L r' r' fuel last).1) :
    last + 1 / r' ≤ p ∧ p < (c : ℚ) - ((L : ℚ) + 1) := by
  have ht : (0 : ℚ) < 1 / r' := by positivity
  rw [callIn_const] at hp
  obtain ⟨h1, h2, _⟩ := mem_positions ht hp
  have := t_le_T r'
  unfold eC at h2
  constructor <;> linarith

/-- upper read safety of `FastFixedIn` holds from any state -/
theorem fast_upper_safe_any {r' : ℚ} (hr' : 0 < r') {c fuel : ℕ} {last p : ℚ}
    (hp : p ∈ (callIn c 8 r' r' fuel last).1) (deg : Degree) :
    fastStart deg p + fastWidth deg ≤ (c : ℤ) + 11 := by
  obtain ⟨_, h2⟩ := pos_bounds_any hr' hp
  have : ⌊p⌋ < (c : ℤ) - 9 := by
    rw [Int.floor_lt]; push_cast; push_cast at h2; linarith
  rw [fastStart_eq]
  cases deg <;> simp only [Fast.fastWindow, fastWidth] <;> push_cast <;> omega

/-- lower read safety of `FastFixedIn`: exactly `⌊p⌋ ≥ offset − 16`; `p ≥ −13` suffices for all degrees -/
theorem fast_lower_safe_of {p : ℚ} (h : -13 ≤ p) (deg : Degree) : 0 ≤ fastStart deg p := by
  have : (-13 : ℤ) ≤ ⌊p⌋ := by rw [Int.le_floor]; push_cast; linarith
  rw [fastStart_eq]
  cases deg <;> simp only [Fast.fastWindow] <;> push_cast <;> omega

/-- G (fast): after a jump `r → r'` all reads of the next call are safe if `⌈1/r⌉ ≤ 1/r' + 4` -/
theorem fast_jump_safe {r r' : ℚ} (hr' : 0 < r') {c fuel : ℕ} {last p : ℚ}
    (hinv : Inv 8 ⌈1 / r⌉ last) (hT : ((⌈1 / r⌉ : ℤ) : ℚ) ≤ 1 / r' + 4)
    (hp : p ∈ (callIn c 8 r' r' fuel last).1) (deg : Degree) :
    0 ≤ fastStart deg p ∧ fastStart deg p + fastWidth deg ≤ 16 + (c : ℤ) := by
  obtain ⟨h1, _⟩ := pos_bounds_any hr' hp
  have hlo := hinv.1
  push_cast at hlo
  refine ⟨fast_lower_safe_of (by linarith) deg, ?_⟩
  have := fast_upper_safe_any hr' hp deg
  omega

/-- in terms of the two ceilings: `⌈1/r⌉ ≤ ⌈1/r'⌉ + 3` is enough -/
theorem fast_jump_safe' {r r' : ℚ} (hr' : 0 < r') {c fuel : ℕ} {last p : ℚ}
    (hinv : Inv 8 ⌈1 / r⌉ last) (hT : ⌈1 / r⌉ ≤ ⌈1 / r'⌉ + 3)
    (hp : p ∈ (callIn c 8 r' r' fuel last).1) (deg : Degree) :
    0 ≤ fastStart deg p ∧ fastStart deg p + fastWidth deg ≤ 16 + (c : ℤ) := by
  apply fast_jump_safe hr' hinv _ hp deg
  have h1 := T_lt_t_add_one r'
  have h2 : ((⌈1 / r⌉ : ℤ) : ℚ) ≤ (⌈1 / r'⌉ : ℤ) + 3 := by exact_mod_cast hT
  linarith

/-- G (sinc): index asserts after a jump, sufficient condition `⌈1/r⌉ ≤ 1/r' + L − 2` -/
theorem sinc_jump_safe {r r' : ℚ} (hr' : 0 < r') {c L fuel : ℕ} {last p : ℚ}
    (hinv : Inv L ⌈1 / r⌉ last) (hT : ((⌈1 / r⌉ : ℤ) : ℚ) ≤ 1 / r' + (L : ℚ) - 2)
    (hp : p ∈ (callIn c L r' r' fuel last).1)
    (sint : SincInterp) (factor : ℕ) {q : ℤ × ℤ} (hq : q ∈ nearestTimes sint p factor) :
    0 ≤ q.1 + 2 * (L : ℤ) ∧ q.1 + 2 * (L : ℤ) + L < 2 * (L : ℤ) + c := by
  obtain ⟨h1, h2⟩ := pos_bounds_any hr' hp
  have hlo := hinv.1
  have a1 : (1 : ℤ) - 2 * (L : ℤ) ≤ ⌊p⌋ := by rw [Int.le_floor]; push_cast; linarith
  have a2 : ⌊p⌋ < (c : ℤ) - (L : ℤ) - 1 := by rw [Int.floor_lt]; push_cast; linarith
  have h3 := nearestTimes_index sint p factor hq
  constructor <;> omega

/-- one call at the new ratio with enough room re-establishes the invariant for the new ratio,
whatever the lower bound on `lastIndex` was -/
theorem inv_reestablished {r' : ℚ} (hr' : 0 < r') (c L : ℕ) {fuel : ℕ} {last : ℚ}
    (hhi : last ≤ -((L / 2 : ℕ) : ℚ)) (hf : nC c L r' last ≤ fuel) :
    Inv L ⌈1 / r'⌉ (nextLast c L r' r' fuel last) := by
  have ht : (0 : ℚ) < 1 / r' := by positivity
  have hL := half_le L
  by_cases h : last < eC c L r'
  · obtain ⟨a, b⟩ := nextLast_range hr' c L hf h
    have := t_le_T r'
    exact ⟨a, by linarith⟩
  · have h' := not_lt.1 h
    have h0 : cnt (eC c L r') (1 / r') last = 0 := cnt_eq_zero ht h'
    have hc : (0 : ℚ) ≤ c := Nat.cast_nonneg c
    unfold nextLast
    rw [callIn_const, stepsIn_final ht hf, ofNat_eq, h0]
    unfold eC at h'
    simp only [Nat.cast_zero, zero_mul, add_zero]
    exact ⟨by linarith, by linarith⟩

/-- D from a weaker lower bound: `lastIndex ≥ −(L+1) − ⌈1/r'⌉ − 9/r'` -/
theorem count_le_of {r' : ℚ} (hr' : 0 < r') (c L : ℕ) {last : ℚ}
    (h : -((L : ℚ) + 1) - (⌈1 / r'⌉ : ℤ) - 9 / r' ≤ last) :
    nC c L r' last ≤ outNextIn c r' r' := by
  rw [outNextIn_const hr'.le]
  unfold nC cnt
  apply Int.toNat_le_toNat
  rw [Int.ceil_le]
  have hfl := Int.lt_floor_add_one ((c : ℚ) * r' + 10)
  have h1 : eC c L r' - last ≤ c + 9 / r' := by unfold eC; linarith
  have h2 : (eC c L r' - last) / (1 / r') ≤ (c : ℚ) * r' + 9 := by
    rw [div_div_eq_mul_div, div_one]
    have := mul_le_mul_of_nonneg_right h1 hr'.le
    have e : ((c : ℚ) + 9 / r') * r' = c * r' + 9 := by field_simp
    linarith
  linarith

/-- G (count): after a jump `r → r'` the next call still fits `output_frames_next()` if
`⌈1/r⌉ ≤ ⌈1/r'⌉ + 9/r'` -/
theorem jump_count_le {r r' : ℚ} (hr' : 0 < r') (c L : ℕ) {last : ℚ}
    (hinv : Inv L ⌈1 / r⌉ last) (hT : ((⌈1 / r⌉ : ℤ) : ℚ) ≤ (⌈1 / r'⌉ : ℤ) + 9 / r') :
    nC c L r' last ≤ outNextIn c r' r' := by
  apply count_le_of hr'
  linarith [hinv.1]

theorem jump_no_overrun {r r' : ℚ} (hr' : 0 < r') (c L : ℕ) {fuel : ℕ} {last : ℚ}
    (hinv : Inv L ⌈1 / r⌉ last) (hT : ((⌈1 / r⌉ : ℤ) : ℚ) ≤ (⌈1 / r'⌉ : ℤ) + 9 / r')
    (hf : outNextIn c r' r' ≤ fuel) :
    (callIn c L r' r' fuel last).2.2 = false := by
  have ht : (0 : ℚ) < 1 / r' := by positivity
  rw [callIn_const]
  exact stepsIn_ranOut_false ht (le_trans (jump_count_le hr' c L hinv hT) hf)

/-! ### counterexample: a large upward jump reads below the buffer

`FastFixedIn`, one channel, chunk 64, created with ratio 1/10 and `max_resample_ratio_relative = 10`.
One call at 1/10 (fine), then `set_resample_ratio(1.0, ramp = false)` (accepted: 1/(1/10) = 10 ≤ 10),
then a second call: its first position is −17, the septic window starts at buffer index −4. -/

def isAbort {α : Type} : Outcome α → Bool
  | .abort _ => true
  | _ => false

def isOk {α : Type} : Outcome α → Bool
  | .ok _ => true
  | _ => false

def cexState : AState ℚ ℚ :=
  { kind := .fastIn, nch := 1, chunk := 64, maxChunk := 64, needed := 0, fill := 64,
    lastIndex := -4, ratio := 1/10, orig := 1/10, target := 1/10, maxRel := 10, L := 8,
    deg := .septic, sint := .cubic, ip := default, buf := zeroBuf 1 80, mask := [true] }

/-- `cexState` is what the constructor returns -/
theorem cexState_is_init :
    AState.init .fastIn (1/10 : ℚ) 10 .septic .cubic default 64 1 = .ok cexState := by
  simp [AState.init, validateRatios, cexState, AKind.isSinc, AKind.isFixedIn, Fast.polyLen]
  norm_num

/-- state after the first call and the (accepted) non-ramped ratio change to 1 -/
def cexState2 : AState ℚ ℚ := ((cexState.finishIn [true] 100).1.setRatio 1 false).1

theorem cex_first_call_ok : isOk (cexState.finishIn [true] 100).2 = true := by decide +kernel

theorem cex_first_call_last : (cexState.finishIn [true] 100).1.lastIndex = -18 := by decide +kernel

theorem cex_setRatio_accepted :
    ((cexState.finishIn [true] 100).1.setRatio 1 false).2 = .ok () := by decide +kernel

theorem cex_inv : Inv 8 ⌈1 / (1/10 : ℚ)⌉ cexState2.lastIndex := by
  have h : cexState2.lastIndex = -18 := by decide +kernel
  have hT : ⌈1 / (1/10 : ℚ)⌉ = 10 := by decide +kernel
  rw [h, hT]; unfold Inv; norm_num

theorem cex_first_position : (callIn 64 8 1 1 100 (-18)).1.head? = some (-17) := by decide +kernel

theorem cex_window_start : fastStart .septic (-17 : ℚ) = -4 := by decide +kernel

/-- every degree starts its window below index 0 at position −17 -/
theorem cex_all_degrees (deg : Degree) : fastStart deg (-17 : ℚ) < 0 := by
  cases deg <;> decide +kernel

/-- the second call is an out-of-bounds `get_unchecked` -/
theorem cex_second_call_aborts : isAbort (cexState2.finishIn [true] 100).2 = true := by
  decide +kernel

/-- the count bound D also fails for a big jump: `lastIndex = −108` is reached after 11 calls at
ratio 1/100 with chunk 64; from there a call at ratio 1 wants 162 frames while
`output_frames_next() = 74`, so the loop runs out of room (unchecked write in `FastFixedIn`) -/
theorem cex_count :
    (runIn 8 (1/100) (List.replicate 11 64) (-4, 0, 0)).1 = -108 ∧
    Inv 8 ⌈1 / (1/100 : ℚ)⌉ (-108) ∧ nC 64 8 1 (-108) = 162 ∧
    outNextIn 64 (1 : ℚ) 1 = 74 ∧ (callIn 64 8 1 1 74 (-108)).2.2 = true := by
  have hT : ⌈1 / (1/100 : ℚ)⌉ = 100 := by decide +kernel
  refine ⟨by decide +kernel, ?_, by decide +kernel, by decide +kernel, by decide +kernel⟩
  rw [hT]; unfold Inv; norm_num

/-! ## H. non-vacuity -/

example : Inv 8 ⌈1 / (441/480 : ℚ)⌉ (-(RNum.ofNat (8 / 2) : ℚ)) :=
  inv_init 8 (le_trans (by norm_num) (one_le_T (by norm_num)))

example : nC 1024 8 (441/480) (-4) = 935 := by decide +kernel
example : outNextIn 1024 (441/480 : ℚ) (441/480) = 950 := by decide +kernel
example : callIn 64 8 (1/10) (1/10) 100 (-4) = ([6, 16, 26, 36, 46], 46, false) := by
  decide +kernel
example : runIn 8 (441/480) [1024, 1024, 17, 0, 5, 300] (-4, 0, 0) = (-486/49, 2370, 2172) := by
  decide +kernel
example : runIn 8 (1/10) [64, 3, 0, 64] (-4, 0, 0) = (-15, 131, 12) := by decide +kernel

/-- `fastIn_call` applies to a freshly constructed resampler -/
example : ∃ outs, (cexState.finishIn [true] 100).2 = .ok
    { nIn := 64, nOut := nC 64 8 (1/10) (-4), out := outs, stale := false } := by
  have hbuf : ∀ i : ℕ, i < [true].length → cexState.chunk + 16 ≤ (cexState.buf.getD i #[]).size := by
    intro i hi
    have : i = 0 := by simpa using hi
    subst this
    decide +kernel
  have hinv : Inv 8 ⌈1 / (1/10 : ℚ)⌉ cexState.lastIndex :=
    inv_init 8 (le_trans (by norm_num) (one_le_T (by norm_num)))
  obtain ⟨outs, h, _⟩ := fastIn_call (r := 1/10) (by norm_num) cexState [true] 100 rfl rfl rfl rfl
    hbuf hinv (by decide +kernel)
  exact ⟨outs, h⟩


/-- `sincIn_call` applies: `SincFixedIn` with `L = 8`, oversampling 4, `max chunk = 64`, current
chunk 10 (after `set_chunk_size(10)`), ratio 3/2 -/
def sincState : AState ℚ ℚ :=
  { kind := .sincIn, nch := 1, chunk := 10, maxChunk := 64, needed := 0, fill := 64,
    lastIndex := -4, ratio := 3/2, orig := 3/2, target := 3/2, maxRel := 2, L := 8,
    deg := .septic, sint := .cubic, ip := ⟨8, 4, fun _ _ _ => 0⟩, buf := zeroBuf 1 80,
    mask := [true] }

example : ∃ outs, (sincState.finishIn [true] 25).2 = .ok
    { nIn := 10, nOut := nC 10 8 (3/2) (-4), out := outs, stale := false } ∧
    nC 10 8 (3/2) (-4) = 6 ∧ outNextIn 10 (3/2 : ℚ) (3/2) = 25 := by
  have hbuf : ∀ i : ℕ, i < [true].length →
      sincState.chunk + 2 * sincState.L ≤ (sincState.buf.getD i #[]).size := by
    intro i hi
    have : i = 0 := by simpa using hi
    subst this
    decide +kernel
  have hinv : Inv sincState.L ⌈1 / (3/2 : ℚ)⌉ sincState.lastIndex :=
    inv_init 8 (le_trans (by norm_num) (one_le_T (by norm_num)))
  obtain ⟨outs, h, _⟩ := sincIn_call (r := 3/2) (by norm_num) sincState [true] 25 rfl
    (by decide) rfl (by decide) rfl rfl hbuf hinv (by decide +kernel)
  exact ⟨outs, h, by decide +kernel, by decide +kernel⟩

/-! ### known finding D12 in the model: `oversampling_factor = 1` with cubic interpolation asks
for sub-index 1 -/
theorem cex_factor_one : (1, 1) ∈ nearestTimes .cubic (0 : ℚ) 1 ∧
    (1, 1) ∈ nearestTimes .quadratic (0 : ℚ) 1 := by
  constructor <;> decide +kernel

/-! ### a ramped change reads past the END of the buffer (`FastFixedIn`)

The end margin `⌈1/target⌉` is computed from the target ratio only, but during a ramp towards a
larger ratio the steps are still (almost) `1/ratio`.  Fresh `FastFixedIn` (septic, 1 channel,
chunk 16, ratio 1/10, `max_resample_ratio_relative = 10`); `set_resample_ratio(1.0, ramp = true)`;
first call: positions `219/44 ≈ 4.98`, `569/44 ≈ 12.93`; the window of the second one is
`[25, 33)` in a buffer of 32 frames. -/

def rampState0 : AState ℚ ℚ :=
  { kind := .fastIn, nch := 1, chunk := 16, maxChunk := 16, needed := 0, fill := 16,
    lastIndex := -4, ratio := 1/10, orig := 1/10, target := 1/10, maxRel := 10, L := 8,
    deg := .septic, sint := .cubic, ip := default, buf := zeroBuf 1 32, mask := [true] }

theorem rampState0_is_init :
    AState.init .fastIn (1/10 : ℚ) 10 .septic .cubic default 16 1 = .ok rampState0 := by
  simp [AState.init, validateRatios, rampState0, AKind.isSinc, AKind.isFixedIn, Fast.polyLen]
  norm_num

def rampState : AState ℚ ℚ := (rampState0.setRatio 1 true).1

theorem cex_ramp_accepted : (rampState0.setRatio 1 true).2 = .ok () := by decide +kernel

theorem cex_ramp_positions :
    (callIn 16 8 (1/10) 1 18 (-4)).1 = [219/44, 569/44] ∧
    outNextIn 16 (1/10 : ℚ) 1 = 18 := by
  constructor <;> decide +kernel

theorem cex_ramp_window :
    fastStart .septic (569/44 : ℚ) + fastWidth .septic = 33 := by decide +kernel

theorem cex_ramp_call_aborts : isAbort (rampState.finishIn [true] 18).2 = true := by
  decide +kernel

end Rubato.FixedIn
