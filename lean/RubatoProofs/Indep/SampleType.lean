/-
C17 — the sample type does not influence any control decision.

Two instantiations of the asynchronous model over the SAME control arithmetic `ρ` but two sample
types `σ₁ σ₂` (think `f32` / `f64`) that start from related states (`CtlEq`: every non-sample field
equal, interpolators of equal `len`/`nbr`, buffers of equal shape) and are driven by histories of the
same shape (`ArgsEq`, `OpEq`) stay related for ever, fail identically, and report the same frame
counts, the same `stale` flag and output channels of the same sizes.

[law-free]: everything here is proved for every instance of `RNum ρ`, `SNum ρ σ₁`, `SNum ρ σ₂`
(no algebraic law is used), so it is literally true of the IEEE instantiation.
-/
import RubatoProofs.Lemmas.Shape
import RubatoModel.Fft

set_option linter.unusedSectionVars false
set_option linter.unusedVariables false
set_option linter.unusedSimpArgs false

namespace Rubato.Indep
open Rubato

variable {ρ σ₁ σ₂ : Type} [RNum ρ] [SNum ρ σ₁] [SNum ρ σ₂]

/-! ### The relations -/

/-- same control state: all non-sample fields equal, interpolators of the same dimensions,
channel buffers of the same sizes -/
structure CtlEq (s₁ : AState ρ σ₁) (s₂ : AState ρ σ₂) : Prop where
  kind : s₁.kind = s₂.kind
  nch : s₁.nch = s₂.nch
  chunk : s₁.chunk = s₂.chunk
  maxChunk : s₁.maxChunk = s₂.maxChunk
  needed : s₁.needed = s₂.needed
  fill : s₁.fill = s₂.fill
  lastIndex : s₁.lastIndex = s₂.lastIndex
  ratio : s₁.ratio = s₂.ratio
  orig : s₁.orig = s₂.orig
  target : s₁.target = s₂.target
  maxRel : s₁.maxRel = s₂.maxRel
  L : s₁.L = s₂.L
  deg : s₁.deg = s₂.deg
  sint : s₁.sint = s₂.sint
  mask : s₁.mask = s₂.mask
  ipLen : s₁.ip.len = s₂.ip.len
  ipNbr : s₁.ip.nbr = s₂.ip.nbr
  shape : bufShape s₁.buf = bufShape s₂.buf

/-- same shape of arguments -/
def ArgsEq (a₁ : CallArgs σ₁) (a₂ : CallArgs σ₂) : Prop :=
  a₁.input.map Array.size = a₂.input.map Array.size ∧ a₁.outLens = a₂.outLens ∧ a₁.mask = a₂.mask

/-- per-channel pattern of an output: `none` (not written) or the number of frames written -/
def outSizes {σ : Type} (o : List (Option (Array σ))) : List (Option Nat) := o.map (Option.map Array.size)

/-- same shape of outcomes (the panic/abort sites are required equal too) -/
def OutEq : Outcome (CallOut σ₁) → Outcome (CallOut σ₂) → Prop
  | .ok o₁, .ok o₂ =>
    o₁.nIn = o₂.nIn ∧ o₁.nOut = o₂.nOut ∧ o₁.stale = o₂.stale ∧ outSizes o₁.out = outSizes o₂.out
  | .err e₁, .err e₂ => e₁ = e₂
  | .panic m₁, .panic m₂ => m₁ = m₂
  | .abort m₁, .abort m₂ => m₁ = m₂
  | _, _ => False

/-! ### Small shape facts -/

theorem getD_size_of_shape {b₁ : Array (Array σ₁)} {b₂ : Array (Array σ₂)}
    (h : bufShape b₁ = bufShape b₂) (i : Nat) : (b₁.getD i #[]).size = (b₂.getD i #[]).size := by
  unfold bufShape at h
  have hl : b₁.size = b₂.size := by simpa using congrArg List.length h
  by_cases hi : i < b₁.size
  · have hi2 : i < b₂.size := hl ▸ hi
    have := congrArg (fun l => l[i]?) h
    simp only [List.getElem?_map, Array.getElem?_toList] at this
    simp only [Array.getD, hi, hi2, dite_true]
    simpa [hi, hi2] using this
  · have hi2 : ¬ i < b₂.size := hl ▸ hi
    simp [Array.getD, hi, hi2]

theorem size_eq_of_shape {b₁ : Array (Array σ₁)} {b₂ : Array (Array σ₂)}
    (h : bufShape b₁ = bufShape b₂) : b₁.size = b₂.size := by
  unfold bufShape at h
  simpa using congrArg List.length h

theorem any_shape {σ : Type} (b : Array (Array σ)) (p : Nat → Bool) :
    b.any (fun x => p x.size) = (bufShape b).any p := by
  unfold bufShape
  rw [List.any_map, Array.any_toList]
  rfl

/-- size of `copyWithin` as a function of the size -/
def cwSize (sz src n : Nat) : Nat := (min (src + n) sz - src) + (sz - n)

theorem copyWithin_size_fn {σ : Type} (b : Array σ) (src n : Nat) :
    (copyWithin b src n).size = cwSize b.size src n := by
  simp [copyWithin, cwSize]

theorem bufShape_map_copyWithin {σ : Type} (b : Array (Array σ)) (src n : Nat) :
    bufShape (b.map fun x => copyWithin x src n) = (bufShape b).map fun sz => cwSize sz src n := by
  unfold bufShape
  simp [copyWithin_size_fn, Function.comp_def]

/-! ### Range tests never look at a sample -/

theorem sincPointOk_ctl (ip₁ : Interp σ₁) (ip₂ : Interp σ₂) (hl : ip₁.len = ip₂.len)
    (hn : ip₁.nbr = ip₂.nbr) (n L : Nat) : sincPointOk ip₁ n L = sincPointOk ip₂ n L := by
  funext p
  simp [sincPointOk, hl, hn]

theorem posFault_ctl {s₁ : AState ρ σ₁} {s₂ : AState ρ σ₂} (h : CtlEq s₁ s₂) (n : Nat) (p : ρ) :
    posFault s₁ n p = posFault s₂ n p := by
  unfold posFault
  rw [h.kind, h.sint, h.ipNbr, h.L, h.deg, sincPointOk_ctl s₁.ip s₂.ip h.ipLen h.ipNbr]

theorem readEnd_ctl {s₁ : AState ρ σ₁} {s₂ : AState ρ σ₂} (h : CtlEq s₁ s₂) (p : ρ) :
    readEnd s₁ p = readEnd s₂ p := by
  unfold readEnd
  rw [h.kind, h.sint, h.ipNbr, h.L, h.deg, h.ipLen]

/-! ### `evalChannels`: same fault, or outputs of the same shape -/

/-- shape of the result of `evalChannels` -/
def evalShape {σ : Type} (r : Except (Outcome Unit) (List (Option (Array σ)))) :
    Except (Outcome Unit) (List (Option Nat)) :=
  match r with
  | .ok o => .ok (outSizes o)
  | .error f => .error f

theorem evalChannels_go_ctl {s₁ : AState ρ σ₁} {s₂ : AState ρ σ₂} (h : CtlEq s₁ s₂)
    (b₁ : Array (Array σ₁)) (b₂ : Array (Array σ₂)) (hb : bufShape b₁ = bufShape b₂) (ps : List ρ) :
    ∀ (ms : List Bool) (i : Nat) (acc₁ : List (Option (Array σ₁))) (acc₂ : List (Option (Array σ₂))),
      outSizes acc₁ = outSizes acc₂ →
      evalShape (evalChannels.go s₁ b₁ ps i ms acc₁) = evalShape (evalChannels.go s₂ b₂ ps i ms acc₂) := by
  intro ms
  induction ms with
  | nil =>
    intro i acc₁ acc₂ hacc
    simp only [evalChannels.go, evalShape, outSizes, List.map_reverse]
    unfold outSizes at hacc
    rw [hacc]
  | cons m ms ih =>
    intro i acc₁ acc₂ hacc
    cases m with
    | false =>
      simp only [evalChannels.go, Bool.false_eq_true, if_false]
      apply ih
      simp only [outSizes, List.map_cons, Option.map_none] at hacc ⊢
      rw [hacc]
    | true =>
      simp only [evalChannels.go, if_true]
      have hsz := getD_size_of_shape hb i
      have hf : posFault s₁ (b₁.getD i #[]).size = posFault s₂ (b₂.getD i #[]).size := by
        funext p; rw [hsz]; exact posFault_ctl h _ p
      rw [hf]
      cases hfs : List.findSome? (posFault s₂ (b₂.getD i #[]).size) ps with
      | some f => rfl
      | none =>
        simp only []
        apply ih
        simp only [outSizes, List.map_cons, Option.map_some, Array.size_map, List.size_toArray] at hacc ⊢
        rw [hacc]

theorem evalChannels_ctl {s₁ : AState ρ σ₁} {s₂ : AState ρ σ₂} (h : CtlEq s₁ s₂)
    (b₁ : Array (Array σ₁)) (b₂ : Array (Array σ₂)) (hb : bufShape b₁ = bufShape b₂) (mask : List Bool)
    (ps : List ρ) :
    evalShape (evalChannels s₁ b₁ mask ps) = evalShape (evalChannels s₂ b₂ mask ps) := by
  unfold evalChannels
  exact evalChannels_go_ctl h b₁ b₂ hb ps mask 0 [] [] rfl

/-! ### `refill`: succeeds for one iff for the other, shapes stay equal -/

theorem refill_go_ctl (loadN twoL : Nat) :
    ∀ (ms : List Bool) (ins₁ : List (Array σ₁)) (ins₂ : List (Array σ₂)) (i : Nat)
      (acc₁ : Array (Array σ₁)) (acc₂ : Array (Array σ₂)),
      ins₁.map Array.size = ins₂.map Array.size → bufShape acc₁ = bufShape acc₂ →
      (refill.go loadN twoL i ms ins₁ acc₁).map bufShape = (refill.go loadN twoL i ms ins₂ acc₂).map bufShape := by
  intro ms
  induction ms with
  | nil => intro ins₁ ins₂ i acc₁ acc₂ hin hacc; simp [refill.go, hacc]
  | cons m ms ih =>
    intro ins₁ ins₂ i acc₁ acc₂ hin hacc
    cases ins₁ with
    | nil =>
      cases ins₂ with
      | nil => simp [refill.go, hacc]
      | cons _ _ => simp at hin
    | cons inp₁ ins₁' =>
      cases ins₂ with
      | nil => simp at hin
      | cons inp₂ ins₂' =>
        simp only [List.map_cons, List.cons.injEq] at hin
        obtain ⟨hinp, hin'⟩ := hin
        cases m with
        | false =>
          simp only [refill.go, Bool.false_eq_true, if_false]
          exact ih ins₁' ins₂' (i + 1) acc₁ acc₂ hin' hacc
        | true =>
          simp only [refill.go, if_true]
          have hsz := getD_size_of_shape hacc i
          rw [hsz, hinp]
          by_cases hc : (decide (twoL + loadN > (acc₂.getD i #[]).size) || decide (loadN > inp₂.size)) = true
          · simp only [hc, if_true, Option.map_none]
          · simp only [hc]
            simp only [Bool.or_eq_true, decide_eq_true_eq, not_or, Nat.not_lt] at hc
            apply ih ins₁' ins₂' (i + 1) _ _ hin'
            rw [bufShape_setIfInBounds, bufShape_setIfInBounds, hacc]
            · apply loadAt_size; simp only [Array.size_extract]; omega
            · apply loadAt_size; simp only [Array.size_extract]; omega

theorem refill_ctl {s₁ : AState ρ σ₁} {s₂ : AState ρ σ₂} (hL : s₁.L = s₂.L)
    (hs : bufShape s₁.buf = bufShape s₂.buf) (mask : List Bool)
    (in₁ : List (Array σ₁)) (in₂ : List (Array σ₂)) (hin : in₁.map Array.size = in₂.map Array.size)
    (shiftFrom loadN : Nat) :
    (refill s₁ mask in₁ shiftFrom loadN).map bufShape = (refill s₂ mask in₂ shiftFrom loadN).map bufShape := by
  unfold refill
  simp only []
  rw [any_shape s₁.buf (fun n => decide (shiftFrom + 2 * s₁.L > n)),
    any_shape s₂.buf (fun n => decide (shiftFrom + 2 * s₂.L > n)), hL, hs]
  split
  · rfl
  · apply refill_go_ctl _ _ mask in₁ in₂ 0 _ _ hin
    rw [bufShape_map_copyWithin, bufShape_map_copyWithin, hs]

/-! ### The two halves of a call -/

/-- close a `CtlEq` goal between two structure literals: every field is `rfl` or a field of `h` -/
local macro "ctl_fields " h:ident : tactic =>
  `(tactic| (constructor <;> first
    | rfl | exact (CtlEq.kind $h :) | exact (CtlEq.nch $h :) | exact (CtlEq.chunk $h :)
    | exact (CtlEq.maxChunk $h :) | exact (CtlEq.needed $h :) | exact (CtlEq.fill $h :)
    | exact (CtlEq.lastIndex $h :) | exact (CtlEq.ratio $h :) | exact (CtlEq.orig $h :)
    | exact (CtlEq.target $h :) | exact (CtlEq.maxRel $h :) | exact (CtlEq.L $h :)
    | exact (CtlEq.deg $h :) | exact (CtlEq.sint $h :) | exact (CtlEq.mask $h :)
    | exact (CtlEq.ipLen $h :) | exact (CtlEq.ipNbr $h :) | exact (CtlEq.shape $h :)))

theorem faultOutcome_ctl (f : Outcome Unit) :
    OutEq (faultOutcome f : Outcome (CallOut σ₁)) (faultOutcome f : Outcome (CallOut σ₂)) := by
  unfold faultOutcome
  cases f <;> simp [OutEq]

theorem stale_ctl {s₁ : AState ρ σ₁} {s₂ : AState ρ σ₂} (h : CtlEq s₁ s₂) (ps : List ρ) (e : Int) :
    (ps.any fun p => decide (readEnd s₁ p > e)) = (ps.any fun p => decide (readEnd s₂ p > e)) := by
  congr 1
  funext p
  rw [readEnd_ctl h p]

theorem finishIn_ctl {s₁ : AState ρ σ₁} {s₂ : AState ρ σ₂} (h : CtlEq s₁ s₂) (mask : List Bool) (fuel : Nat) :
    CtlEq (s₁.finishIn mask fuel).1 (s₂.finishIn mask fuel).1 ∧
    OutEq (s₁.finishIn mask fuel).2 (s₂.finishIn mask fuel).2 := by
  unfold AState.finishIn
  simp only []
  rw [h.ratio, h.target, h.chunk, h.L, h.lastIndex, h.kind]
  generalize stepsIn ((RNum.one / s₂.target - RNum.one / s₂.ratio) /
      (RNum.ofNat s₂.chunk * meanRatio s₂.ratio s₂.target))
    (RNum.ofInt ((s₂.chunk : Int) - ((s₂.L : Int) + 1) - RNum.toInt (RNum.ceil (RNum.one / s₂.target))))
    fuel (RNum.one / s₂.ratio) s₂.lastIndex = r
  cases hr : r.2.2 with
  | true =>
    simp only [if_true]
    refine ⟨h, ?_⟩
    cases s₂.kind.isSinc <;> cases mask.any id <;> simp [OutEq]
  | false =>
    simp only [Bool.false_eq_true, if_false]
    have he := evalChannels_ctl h s₁.buf s₂.buf h.shape mask r.1
    cases h1 : evalChannels s₁ s₁.buf mask r.1 with
    | error f₁ =>
      cases h2 : evalChannels s₂ s₂.buf mask r.1 with
      | error f₂ =>
        rw [h1, h2] at he
        simp only [evalShape, Except.error.injEq] at he
        subst he
        exact ⟨h, faultOutcome_ctl f₁⟩
      | ok o₂ => rw [h1, h2] at he; simp [evalShape] at he
    | ok o₁ =>
      cases h2 : evalChannels s₂ s₂.buf mask r.1 with
      | error f₂ => rw [h1, h2] at he; simp [evalShape] at he
      | ok o₂ =>
        rw [h1, h2] at he
        simp only [evalShape, Except.ok.injEq] at he
        simp only []
        refine ⟨by ctl_fields h, ?_⟩
        simp only [OutEq, true_and]
        exact ⟨stale_ctl h _ _, he⟩

theorem finishOut_ctl {s₁ : AState ρ σ₁} {s₂ : AState ρ σ₂} (h : CtlEq s₁ s₂) (mask : List Bool) :
    CtlEq (s₁.finishOut mask).1 (s₂.finishOut mask).1 ∧
    OutEq (s₁.finishOut mask).2 (s₂.finishOut mask).2 := by
  unfold AState.finishOut
  simp only []
  rw [h.ratio, h.target, h.chunk, h.L, h.lastIndex, h.kind, h.fill]
  generalize stepsOut ((RNum.one / s₂.target - RNum.one / s₂.ratio) / RNum.ofNat s₂.chunk) s₂.chunk
    (RNum.one / s₂.ratio) s₂.lastIndex = ps
  have he := evalChannels_ctl h s₁.buf s₂.buf h.shape mask ps
  cases h1 : evalChannels s₁ s₁.buf mask ps with
  | error f₁ =>
    cases h2 : evalChannels s₂ s₂.buf mask ps with
    | error f₂ =>
      rw [h1, h2] at he
      simp only [evalShape, Except.error.injEq] at he
      subst he
      exact ⟨h, faultOutcome_ctl f₁⟩
    | ok o₂ => rw [h1, h2] at he; simp [evalShape] at he
  | ok o₁ =>
    cases h2 : evalChannels s₂ s₂.buf mask ps with
    | error f₂ => rw [h1, h2] at he; simp [evalShape] at he
    | ok o₂ =>
      rw [h1, h2] at he
      simp only [evalShape, Except.ok.injEq] at he
      simp only []
      refine ⟨by ctl_fields h, ?_⟩
      simp only [OutEq, true_and]
      exact ⟨stale_ctl h _ _, he⟩

/-! ### `process_into_buffer` -/

theorem minIn_ctl {s₁ : AState ρ σ₁} {s₂ : AState ρ σ₂} (h : CtlEq s₁ s₂) : s₁.minIn = s₂.minIn := by
  unfold AState.minIn; rw [h.kind, h.chunk, h.needed]

theorem minOut_ctl {s₁ : AState ρ σ₁} {s₂ : AState ρ σ₂} (h : CtlEq s₁ s₂) : s₁.minOut = s₂.minOut := by
  unfold AState.minOut; rw [h.kind, h.chunk, h.ratio, h.target]

theorem shiftFrom_ctl {s₁ : AState ρ σ₁} {s₂ : AState ρ σ₂} (h : CtlEq s₁ s₂) :
    s₁.shiftFrom = s₂.shiftFrom := by
  unfold AState.shiftFrom; rw [h.kind, h.chunk, h.fill]

theorem CtlEq.withMask {s₁ : AState ρ σ₁} {s₂ : AState ρ σ₂} (h : CtlEq s₁ s₂) (m : List Bool) :
    CtlEq { s₁ with mask := m } { s₂ with mask := m } :=
  ⟨h.kind, h.nch, h.chunk, h.maxChunk, h.needed, h.fill, h.lastIndex, h.ratio, h.orig, h.target, h.maxRel,
    h.L, h.deg, h.sint, rfl, h.ipLen, h.ipNbr, h.shape⟩

theorem CtlEq.withBuf {s₁ : AState ρ σ₁} {s₂ : AState ρ σ₂} (h : CtlEq s₁ s₂)
    (b₁ : Array (Array σ₁)) (b₂ : Array (Array σ₂)) (hb : bufShape b₁ = bufShape b₂) (f₁ f₂ : Nat)
    (hf : f₁ = f₂) :
    CtlEq { s₁ with buf := b₁, fill := f₁ } { s₂ with buf := b₂, fill := f₂ } :=
  ⟨h.kind, h.nch, h.chunk, h.maxChunk, h.needed, hf, h.lastIndex, h.ratio, h.orig, h.target, h.maxRel,
    h.L, h.deg, h.sint, h.mask, h.ipLen, h.ipNbr, hb⟩

/-- **C17, one call**: related states and arguments of the same shape give related states and
outcomes of the same shape (same error / same panic site / same counts, `stale`, channel pattern). -/
theorem process_ctlEq {s₁ : AState ρ σ₁} {s₂ : AState ρ σ₂} {a₁ : CallArgs σ₁} {a₂ : CallArgs σ₂}
    (h : CtlEq s₁ s₂) (ha : ArgsEq a₁ a₂) :
    CtlEq (s₁.process a₁).1 (s₂.process a₂).1 ∧ OutEq (s₁.process a₁).2 (s₂.process a₂).2 := by
  obtain ⟨hin, hout, hmask⟩ := ha
  have e1 : updateMask s₁.nch a₁.mask = updateMask s₂.nch a₂.mask := by rw [h.nch, hmask]
  cases hm : updateMask s₂.nch a₂.mask with
  | error e =>
    rw [hm] at e1
    simp only [AState.process, hm, e1]
    exact ⟨h, rfl⟩
  | ok mask =>
    rw [hm] at e1
    have hM := h.withMask mask
    have e2 : validateBuffers (a₁.input.map Array.size) a₁.outLens mask s₁.nch
          (AState.minIn { s₁ with mask := mask }) (AState.minOut { s₁ with mask := mask }) =
        validateBuffers (a₂.input.map Array.size) a₂.outLens mask s₂.nch
          (AState.minIn { s₂ with mask := mask }) (AState.minOut { s₂ with mask := mask }) := by
      rw [hin, hout, minIn_ctl hM, minOut_ctl hM, h.nch]
    cases hv : validateBuffers (a₂.input.map Array.size) a₂.outLens mask s₂.nch
        (AState.minIn { s₂ with mask := mask }) (AState.minOut { s₂ with mask := mask }) with
    | error e =>
      rw [hv] at e2
      simp only [AState.process, hm, e1, hv, e2]
      exact ⟨hM, rfl⟩
    | ok u =>
      rw [hv] at e2
      have hr : (refill { s₁ with mask := mask } mask a₁.input (AState.shiftFrom { s₁ with mask := mask })
            (AState.minIn { s₁ with mask := mask })).map bufShape =
          (refill { s₂ with mask := mask } mask a₂.input (AState.shiftFrom { s₂ with mask := mask })
            (AState.minIn { s₂ with mask := mask })).map bufShape := by
        rw [shiftFrom_ctl hM, minIn_ctl hM]
        exact refill_ctl (s₁ := { s₁ with mask := mask }) (s₂ := { s₂ with mask := mask }) h.L h.shape mask
          a₁.input a₂.input hin _ _
      cases h1 : refill { s₁ with mask := mask } mask a₁.input (AState.shiftFrom { s₁ with mask := mask })
          (AState.minIn { s₁ with mask := mask }) with
      | none =>
        cases h2 : refill { s₂ with mask := mask } mask a₂.input (AState.shiftFrom { s₂ with mask := mask })
            (AState.minIn { s₂ with mask := mask }) with
        | none =>
          simp only [AState.process, hm, e1, hv, e2, h1, h2]
          exact ⟨hM, rfl⟩
        | some b₂ => rw [h1, h2] at hr; simp at hr
      | some b₁ =>
        cases h2 : refill { s₂ with mask := mask } mask a₂.input (AState.shiftFrom { s₂ with mask := mask })
            (AState.minIn { s₂ with mask := mask }) with
        | none => rw [h1, h2] at hr; simp at hr
        | some b₂ =>
          rw [h1, h2] at hr
          simp only [Option.map_some, Option.some.injEq] at hr
          have hB := hM.withBuf b₁ b₂ hr _ _ (minIn_ctl hM)
          simp only [AState.process, hm, e1, hv, e2, h1, h2]
          have hk : s₁.kind.isFixedIn = s₂.kind.isFixedIn := by rw [h.kind]
          rw [hk, hout]
          cases hk2 : s₂.kind.isFixedIn with
          | true => simp only [if_true]; exact finishIn_ctl hB mask _
          | false => simp only [Bool.false_eq_true, if_false]; exact finishOut_ctl hB mask

/-! ### Constructors, getters, setters, reset -/

theorem bufShape_zeroBuf {σ : Type} [SNum ρ σ] (nch len : Nat) :
    bufShape (zeroBuf (ρ := ρ) (σ := σ) nch len) = List.replicate nch len := by
  simp [bufShape, zeroBuf]

theorem bufShape_zeroLike {σ : Type} [SNum ρ σ] (b : Array (Array σ)) :
    bufShape (zeroLike (ρ := ρ) b) = bufShape b := by
  simp [bufShape, zeroLike, Function.comp_def]

/-- result of a constructor up to the sample type -/
def InitEq : Except CErr (AState ρ σ₁) → Except CErr (AState ρ σ₂) → Prop
  | .ok s₁, .ok s₂ => CtlEq s₁ s₂
  | .error e₁, .error e₂ => e₁ = e₂
  | _, _ => False

/-- constructors with the same parameters and interpolators of the same dimensions give related
states, or fail with the same error -/
theorem init_ctlEq (kind : AKind) (ratio maxRel : ρ) (deg : Degree) (sint : SincInterp)
    (ip₁ : Interp σ₁) (ip₂ : Interp σ₂) (hl : ip₁.len = ip₂.len) (hn : ip₁.nbr = ip₂.nbr) (chunk nch : Nat) :
    InitEq (AState.init kind ratio maxRel deg sint ip₁ chunk nch)
           (AState.init kind ratio maxRel deg sint ip₂ chunk nch) := by
  unfold AState.init
  cases validateRatios ratio maxRel with
  | error e => exact rfl
  | ok u =>
    simp only [hl]
    cases kind.isFixedIn with
    | true =>
      simp only [if_true, InitEq]
      constructor <;> first | rfl | exact hl | exact hn | (simp only [bufShape_zeroBuf])
    | false =>
      simp only [Bool.false_eq_true, if_false, InitEq]
      constructor <;> first | rfl | exact hl | exact hn | (simp only [bufShape_zeroBuf])

/-- all five getters agree on related states -/
theorem getters_ctlEq {s₁ : AState ρ σ₁} {s₂ : AState ρ σ₂} (h : CtlEq s₁ s₂) :
    s₁.inputFramesNext = s₂.inputFramesNext ∧ s₁.inputFramesMax = s₂.inputFramesMax ∧
    s₁.outputFramesNext = s₂.outputFramesNext ∧ s₁.outputFramesMax = s₂.outputFramesMax ∧
    s₁.outputDelay = s₂.outputDelay := by
  unfold AState.inputFramesNext AState.inputFramesMax AState.outputFramesNext AState.outputFramesMax
    AState.outputDelay
  rw [h.kind, h.chunk, h.needed, h.maxChunk, h.orig, h.maxRel, h.L, h.ratio, h.target]
  exact ⟨rfl, rfl, rfl, rfl, rfl⟩

theorem setRatio_ctlEq {s₁ : AState ρ σ₁} {s₂ : AState ρ σ₂} (h : CtlEq s₁ s₂) (new : ρ) (ramp : Bool) :
    CtlEq (s₁.setRatio new ramp).1 (s₂.setRatio new ramp).1 ∧
    (s₁.setRatio new ramp).2 = (s₂.setRatio new ramp).2 := by
  unfold AState.setRatio
  rw [h.orig, h.maxRel]
  cases ratioInRange new s₂.orig s₂.maxRel with
  | false => exact ⟨h, rfl⟩
  | true =>
    simp only [if_true]
    rw [h.kind, h.ratio, h.lastIndex, h.chunk, h.L]
    cases s₂.kind <;> exact ⟨by ctl_fields h, rfl⟩

theorem setRatioRelative_ctlEq {s₁ : AState ρ σ₁} {s₂ : AState ρ σ₂} (h : CtlEq s₁ s₂) (rel : ρ) (ramp : Bool) :
    CtlEq (s₁.setRatioRelative rel ramp).1 (s₂.setRatioRelative rel ramp).1 ∧
    (s₁.setRatioRelative rel ramp).2 = (s₂.setRatioRelative rel ramp).2 := by
  unfold AState.setRatioRelative
  rw [h.orig]
  exact setRatio_ctlEq h _ ramp

theorem setChunk_ctlEq {s₁ : AState ρ σ₁} {s₂ : AState ρ σ₂} (h : CtlEq s₁ s₂) (n : Nat) :
    CtlEq (s₁.setChunk n).1 (s₂.setChunk n).1 ∧ (s₁.setChunk n).2 = (s₂.setChunk n).2 := by
  unfold AState.setChunk
  rw [h.kind, h.maxChunk, h.lastIndex, h.ratio, h.target, h.L]
  cases s₂.kind with
  | fastIn => exact ⟨h, rfl⟩
  | fastOut => exact ⟨h, rfl⟩
  | sincIn =>
    simp only []
    cases (decide (n > s₂.maxChunk) || n == 0) with
    | true => exact ⟨h, rfl⟩
    | false => exact ⟨by ctl_fields h, rfl⟩
  | sincOut =>
    simp only []
    cases (decide (n > s₂.maxChunk) || n == 0) with
    | true => exact ⟨h, rfl⟩
    | false => exact ⟨by ctl_fields h, rfl⟩

theorem reset_ctlEq {s₁ : AState ρ σ₁} {s₂ : AState ρ σ₂} (h : CtlEq s₁ s₂) : CtlEq s₁.reset s₂.reset := by
  unfold AState.reset
  simp only []
  rw [h.kind, h.L, h.orig, h.nch, h.maxChunk, h.chunk]
  cases s₂.kind <;>
    (constructor <;> first
      | rfl | exact h.kind | exact h.nch | exact h.chunk | exact h.maxChunk | exact h.needed | exact h.fill
      | exact h.orig | exact h.maxRel | exact h.L | exact h.deg | exact h.sint | exact h.ipLen | exact h.ipNbr
      | (simp only [bufShape_zeroLike]; exact h.shape))

/-! ### Histories of any length -/

/-- two operations of the same shape: same kind of operation, equal control arguments,
`ArgsEq` for processing calls -/
def OpEq : AOp ρ σ₁ → AOp ρ σ₂ → Prop
  | .proc a₁, .proc a₂ => ArgsEq a₁ a₂
  | .ratio r₁ b₁, .ratio r₂ b₂ => r₁ = r₂ ∧ b₁ = b₂
  | .rel r₁ b₁, .rel r₂ b₂ => r₁ = r₂ ∧ b₁ = b₂
  | .chunk n₁, .chunk n₂ => n₁ = n₂
  | .reset, .reset => True
  | _, _ => False

/-- histories related pointwise -/
inductive OpsEq : List (AOp ρ σ₁) → List (AOp ρ σ₂) → Prop
  | nil : OpsEq [] []
  | cons {o₁ o₂ l₁ l₂} : OpEq o₁ o₂ → OpsEq l₁ l₂ → OpsEq (o₁ :: l₁) (o₂ :: l₂)

theorem step_ctlEq {s₁ : AState ρ σ₁} {s₂ : AState ρ σ₂} (h : CtlEq s₁ s₂) {o₁ : AOp ρ σ₁} {o₂ : AOp ρ σ₂}
    (ho : OpEq o₁ o₂) : CtlEq (s₁.step o₁) (s₂.step o₂) := by
  cases o₁ <;> cases o₂ <;> simp only [OpEq] at ho
  · exact (process_ctlEq h ho).1
  · obtain ⟨rfl, rfl⟩ := ho; exact (setRatio_ctlEq h _ _).1
  · obtain ⟨rfl, rfl⟩ := ho; exact (setRatioRelative_ctlEq h _ _).1
  · subst ho; exact (setChunk_ctlEq h _).1
  · exact reset_ctlEq h

/-- **C17, histories**: related states driven by histories of the same shape stay related
(no bound on the length). -/
theorem run_ctlEq {ops₁ : List (AOp ρ σ₁)} {ops₂ : List (AOp ρ σ₂)} (ho : OpsEq ops₁ ops₂) :
    ∀ {s₁ : AState ρ σ₁} {s₂ : AState ρ σ₂}, CtlEq s₁ s₂ → CtlEq (s₁.run ops₁) (s₂.run ops₂) := by
  induction ho with
  | nil => intro s₁ s₂ h; exact h
  | cons h1 _ ih =>
    intro s₁ s₂ h
    simp only [AState.run, List.foldl_cons]
    exact ih (step_ctlEq h h1)

/-! ### What a caller observes along a history -/

/-- sample-free shape of a successful call -/
structure OutSh where
  nIn : Nat
  nOut : Nat
  stale : Bool
  sizes : List (Option Nat)

/-- sample-free shape of an outcome -/
def outShape {σ : Type} : Outcome (CallOut σ) → Outcome OutSh
  | .ok o => .ok ⟨o.nIn, o.nOut, o.stale, outSizes o.out⟩
  | .err e => .err e
  | .panic m => .panic m
  | .abort m => .abort m

theorem outEq_iff (o₁ : Outcome (CallOut σ₁)) (o₂ : Outcome (CallOut σ₂)) :
    OutEq o₁ o₂ ↔ outShape o₁ = outShape o₂ := by
  cases o₁ <;> cases o₂ <;> simp [OutEq, outShape]

/-- what the caller sees of one operation: its result (shape only for a processing call), and the
two `*_frames_next` getters afterwards -/
structure Obs where
  res : Outcome OutSh ⊕ Except RErr Unit
  inNext : Nat
  outNext : Nat

def stepRes {σ : Type} [SNum ρ σ] (s : AState ρ σ) : AOp ρ σ → Outcome OutSh ⊕ Except RErr Unit
  | .proc a => .inl (outShape (s.process a).2)
  | .ratio r ramp => .inr (s.setRatio r ramp).2
  | .rel r ramp => .inr (s.setRatioRelative r ramp).2
  | .chunk n => .inr (s.setChunk n).2
  | .reset => .inr (.ok ())

/-- the observations along a history -/
def obsTrace {σ : Type} [SNum ρ σ] (s : AState ρ σ) : List (AOp ρ σ) → List Obs
  | [] => []
  | op :: ops =>
    ⟨stepRes s op, (s.step op).inputFramesNext, (s.step op).outputFramesNext⟩ :: obsTrace (s.step op) ops

theorem stepRes_ctlEq {s₁ : AState ρ σ₁} {s₂ : AState ρ σ₂} (h : CtlEq s₁ s₂) {o₁ : AOp ρ σ₁} {o₂ : AOp ρ σ₂}
    (ho : OpEq o₁ o₂) : stepRes s₁ o₁ = stepRes s₂ o₂ := by
  cases o₁ <;> cases o₂ <;> simp only [OpEq] at ho
  · simp only [stepRes]; rw [(outEq_iff _ _).1 (process_ctlEq h ho).2]
  · obtain ⟨rfl, rfl⟩ := ho; simp only [stepRes]; rw [(setRatio_ctlEq h _ _).2]
  · obtain ⟨rfl, rfl⟩ := ho; simp only [stepRes]; rw [(setRatioRelative_ctlEq h _ _).2]
  · subst ho; simp only [stepRes]; rw [(setChunk_ctlEq h _).2]
  · rfl

/-- **C17 as the caller sees it**: identical sequences of results (errors, panics, frame counts,
`stale`, sizes written per channel) and of `input_frames_next` / `output_frames_next`. -/
theorem trace_eq {ops₁ : List (AOp ρ σ₁)} {ops₂ : List (AOp ρ σ₂)} (ho : OpsEq ops₁ ops₂) :
    ∀ {s₁ : AState ρ σ₁} {s₂ : AState ρ σ₂}, CtlEq s₁ s₂ → obsTrace s₁ ops₁ = obsTrace s₂ ops₂ := by
  induction ho with
  | nil => intro s₁ s₂ h; rfl
  | cons h1 _ ih =>
    intro s₁ s₂ h
    have hs := step_ctlEq h h1
    have hg := getters_ctlEq hs
    simp only [obsTrace]
    rw [stepRes_ctlEq h h1, hg.1, hg.2.2.1, ih hs]

/-- the same, from construction: two resamplers built with the same parameters -/
theorem trace_eq_from_init (kind : AKind) (ratio maxRel : ρ) (deg : Degree) (sint : SincInterp)
    (ip₁ : Interp σ₁) (ip₂ : Interp σ₂) (hl : ip₁.len = ip₂.len) (hn : ip₁.nbr = ip₂.nbr) (chunk nch : Nat)
    (s₁ : AState ρ σ₁) (s₂ : AState ρ σ₂)
    (h₁ : AState.init kind ratio maxRel deg sint ip₁ chunk nch = .ok s₁)
    (h₂ : AState.init kind ratio maxRel deg sint ip₂ chunk nch = .ok s₂)
    {ops₁ : List (AOp ρ σ₁)} {ops₂ : List (AOp ρ σ₂)} (ho : OpsEq ops₁ ops₂) :
    obsTrace s₁ ops₁ = obsTrace s₂ ops₂ ∧ CtlEq (s₁.run ops₁) (s₂.run ops₂) := by
  have h := init_ctlEq kind ratio maxRel deg sint ip₁ ip₂ hl hn chunk nch
  rw [h₁, h₂] at h
  exact ⟨trace_eq ho h, run_ctlEq ho h⟩

/-! ### The FFT adapters: control does not depend on the sample type either -/
section Fft
variable {σ₁ σ₂ υ₁ υ₂ : Type}

/-- same control state of two synchronous resamplers over different sample / overlap types -/
structure FCtlEq (s₁ : FState σ₁ υ₁) (s₂ : FState σ₂ υ₂) : Prop where
  kind : s₁.kind = s₂.kind
  nch : s₁.nch = s₂.nch
  chunkIn : s₁.chunkIn = s₂.chunkIn
  chunkOut : s₁.chunkOut = s₂.chunkOut
  fftIn : s₁.fftIn = s₂.fftIn
  fftOut : s₁.fftOut = s₂.fftOut
  saved : s₁.saved = s₂.saved
  framesNeeded : s₁.framesNeeded = s₂.framesNeeded
  mask : s₁.mask = s₂.mask
  ovLen : s₁.ov.length = s₂.ov.length
  storeShape : s₁.store.map List.length = s₂.store.map List.length

def FOutEq : Outcome (FCallOut σ₁) → Outcome (FCallOut σ₂) → Prop
  | .ok o₁, .ok o₂ =>
    o₁.nIn = o₂.nIn ∧ o₁.nOut = o₂.nOut ∧
    o₁.out.map (Option.map List.length) = o₂.out.map (Option.map List.length)
  | .err e₁, .err e₂ => e₁ = e₂
  | .panic m₁, .panic m₂ => m₁ = m₂
  | .abort m₁, .abort m₂ => m₁ = m₂
  | _, _ => False

/-- the two per-block resamplers produce blocks of the same length from blocks of the same length
(true of `resample_unit`: always `fft_size_out` frames) -/
def UnitLenEq (u₁ : FftUnit σ₁ υ₁) (u₂ : FftUnit σ₂ υ₂) : Prop :=
  ∀ st₁ st₂ b₁ b₂, b₁.length = b₂.length → (u₁.run st₁ b₁).1.length = (u₂.run st₂ b₂).1.length

theorem runBlocks_shape {u₁ : FftUnit σ₁ υ₁} {u₂ : FftUnit σ₂ υ₂} (hu : UnitLenEq u₁ u₂) (n : Nat) :
    ∀ (bl₁ : List (List σ₁)) (bl₂ : List (List σ₂)) (st₁ : υ₁) (st₂ : υ₂),
      bl₁.map List.length = bl₂.map List.length →
      (runBlocks u₁ n st₁ bl₁).map (fun r => r.1.map List.length) =
      (runBlocks u₂ n st₂ bl₂).map (fun r => r.1.map List.length) := by
  intro bl₁
  induction bl₁ with
  | nil =>
    intro bl₂ st₁ st₂ h
    cases bl₂ with
    | nil => rfl
    | cons _ _ => simp at h
  | cons b₁ bs₁ ih =>
    intro bl₂ st₁ st₂ h
    cases bl₂ with
    | nil => simp at h
    | cons b₂ bs₂ =>
      simp only [List.map_cons, List.cons.injEq] at h
      obtain ⟨hb, hbs⟩ := h
      simp only [runBlocks, hb]
      by_cases hn : b₂.length = n
      · simp only [hn, ne_eq, not_true_eq_false, if_false]
        have := ih bs₂ (u₁.run st₁ b₁).2 (u₂.run st₂ b₂).2 hbs
        have hl := hu st₁ st₂ b₁ b₂ hb
        cases h1 : runBlocks u₁ n (u₁.run st₁ b₁).2 bs₁ with
        | none =>
          cases h2 : runBlocks u₂ n (u₂.run st₂ b₂).2 bs₂ with
          | none => rfl
          | some r₂ => rw [h1, h2] at this; simp at this
        | some r₁ =>
          cases h2 : runBlocks u₂ n (u₂.run st₂ b₂).2 bs₂ with
          | none => rw [h1, h2] at this; simp at this
          | some r₂ =>
            rw [h1, h2] at this
            simp only [Option.map_some, Option.some.injEq] at this
            simp only [Option.map_some, List.map_cons, hl, this]
      · simp only [ne_eq, hn, not_false_eq_true, if_true, Option.map_none]

theorem chunksOf_go_shape (n : Nat) :
    ∀ (fuel : Nat) (l₁ : List σ₁) (l₂ : List σ₂), l₁.length = l₂.length →
      (chunksOf.go n fuel l₁).map List.length = (chunksOf.go n fuel l₂).map List.length := by
  intro fuel
  induction fuel with
  | zero => intro l₁ l₂ _; rfl
  | succ fuel ih =>
    intro l₁ l₂ h
    have he : l₁.isEmpty = l₂.isEmpty := by
      cases l₁ <;> cases l₂ <;> simp at h ⊢
    simp only [chunksOf.go, he]
    cases l₂.isEmpty with
    | true => rfl
    | false =>
      simp only [Bool.false_eq_true, if_false, List.map_cons, List.length_take, h]
      rw [ih (l₁.drop n) (l₂.drop n) (by simp [h])]

theorem chunksOf_shape (n : Nat) (l₁ : List σ₁) (l₂ : List σ₂) (h : l₁.length = l₂.length) :
    (chunksOf n l₁).map List.length = (chunksOf n l₂).map List.length := by
  have he : l₁.isEmpty = l₂.isEmpty := by
    cases l₁ <;> cases l₂ <;> simp at h ⊢
  unfold chunksOf
  rw [he, h]
  split
  · rfl
  · split
    · rfl
    · exact chunksOf_go_shape n _ l₁ l₂ h

/-- length of `overlay` as a function of the lengths -/
def ovLen (b p d : Nat) : Nat := min p b + min d (b - p) + (b - (p + d))

theorem overlay_len {σ : Type} (buf : List σ) (pos : Nat) (data : List σ) :
    (overlay buf pos data).length = ovLen buf.length pos data.length := by
  simp only [overlay, ovLen, List.length_append, List.length_take, List.length_drop]
  omega

/-- `mapActive` on inputs of the same shape: fails for both or gives results of the same shape -/
theorem mapActive_go_shape {α₁ α₂ β₁ β₂ γ δ : Type} (sh₁ : α₁ → γ) (sh₂ : α₂ → γ) (t₁ : β₁ → δ) (t₂ : β₂ → δ)
    (f₁ : Nat → α₁ → Option β₁) (f₂ : Nat → α₂ → Option β₂) (k₁ : α₁ → β₁) (k₂ : α₂ → β₂)
    (hf : ∀ i x₁ x₂, sh₁ x₁ = sh₂ x₂ → (f₁ i x₁).map t₁ = (f₂ i x₂).map t₂)
    (hk : ∀ x₁ x₂, sh₁ x₁ = sh₂ x₂ → t₁ (k₁ x₁) = t₂ (k₂ x₂)) :
    ∀ (mask : List Bool) (i : Nat) (xs₁ : List α₁) (xs₂ : List α₂), xs₁.map sh₁ = xs₂.map sh₂ →
      (mapActive.go f₁ k₁ i mask xs₁).map (List.map t₁) = (mapActive.go f₂ k₂ i mask xs₂).map (List.map t₂) := by
  intro mask
  induction mask with
  | nil => intro i xs₁ xs₂ _; simp [mapActive.go]
  | cons m ms ih =>
    intro i xs₁ xs₂ h
    cases xs₁ with
    | nil =>
      cases xs₂ with
      | nil => simp [mapActive.go]
      | cons _ _ => simp at h
    | cons x₁ xs₁' =>
      cases xs₂ with
      | nil => simp at h
      | cons x₂ xs₂' =>
        simp only [List.map_cons, List.cons.injEq] at h
        obtain ⟨hx, hxs⟩ := h
        have ih' := ih (i + 1) xs₁' xs₂' hxs
        have hhead : (if m = true then f₁ i x₁ else some (k₁ x₁)).map t₁ =
            (if m = true then f₂ i x₂ else some (k₂ x₂)).map t₂ := by
          cases m with
          | true => simpa using hf i x₁ x₂ hx
          | false => simpa using hk x₁ x₂ hx
        simp only [mapActive.go]
        cases h1 : (if m = true then f₁ i x₁ else some (k₁ x₁)) with
        | none =>
          cases h2 : (if m = true then f₂ i x₂ else some (k₂ x₂)) with
          | none => rfl
          | some y₂ => rw [h1, h2] at hhead; simp at hhead
        | some y₁ =>
          cases h2 : (if m = true then f₂ i x₂ else some (k₂ x₂)) with
          | none => rw [h1, h2] at hhead; simp at hhead
          | some y₂ =>
            rw [h1, h2] at hhead
            simp only [Option.map_some, Option.some.injEq] at hhead
            simp only []
            cases h3 : mapActive.go f₁ k₁ (i + 1) ms xs₁' with
            | none =>
              cases h4 : mapActive.go f₂ k₂ (i + 1) ms xs₂' with
              | none => rfl
              | some ys₂ => rw [h3, h4] at ih'; simp at ih'
            | some ys₁ =>
              cases h4 : mapActive.go f₂ k₂ (i + 1) ms xs₂' with
              | none => rw [h3, h4] at ih'; simp at ih'
              | some ys₂ =>
                rw [h3, h4] at ih'
                simp only [Option.map_some, Option.some.injEq] at ih'
                simp only [Option.map_some, List.map_cons, hhead, ih']

theorem map_zip_congr {α₁ α₂ β₁ β₂ γ δ : Type} (fa₁ : α₁ → γ) (fa₂ : α₂ → γ) (fb₁ : β₁ → δ) (fb₂ : β₂ → δ) :
    ∀ (a₁ : List α₁) (a₂ : List α₂) (b₁ : List β₁) (b₂ : List β₂),
      a₁.map fa₁ = a₂.map fa₂ → b₁.map fb₁ = b₂.map fb₂ →
      (List.zip a₁ b₁).map (fun p => (fa₁ p.1, fb₁ p.2)) = (List.zip a₂ b₂).map (fun p => (fa₂ p.1, fb₂ p.2)) := by
  intro a₁
  induction a₁ with
  | nil =>
    intro a₂ b₁ b₂ ha _
    cases a₂ with
    | nil => simp
    | cons _ _ => simp at ha
  | cons x xs ih =>
    intro a₂ b₁ b₂ ha hb
    cases a₂ with
    | nil => simp at ha
    | cons y ys =>
      cases b₁ with
      | nil =>
        cases b₂ with
        | nil => simp
        | cons _ _ => simp at hb
      | cons z zs =>
        cases b₂ with
        | nil => simp at hb
        | cons w ws =>
          simp only [List.map_cons, List.cons.injEq] at ha hb
          simp only [List.zip_cons_cons, List.map_cons, ha.1, hb.1, ih ys zs ws ha.2 hb.2]

theorem map_unit_of_length {α₁ α₂ : Type} (a₁ : List α₁) (a₂ : List α₂) (h : a₁.length = a₂.length) :
    a₁.map (fun _ => ()) = a₂.map (fun _ => ()) := by
  rw [List.map_const', List.map_const', h]

/-- the per-channel step of `FftFixedInOut` -/
def fIo {σ υ : Type} (u : FftUnit σ υ) (fftIn chunkIn chunkOut : Nat) :
    Nat → υ × List σ → Option (υ × Option (List σ)) :=
  fun _ p => match runBlocks u fftIn p.1 [p.2.take chunkIn] with
    | some ([o], st) => some (st, some (o.take chunkOut))
    | _ => none

theorem fIo_shape {u₁ : FftUnit σ₁ υ₁} {u₂ : FftUnit σ₂ υ₂} (hu : UnitLenEq u₁ u₂) (fi ci co i : Nat)
    (p₁ : υ₁ × List σ₁) (p₂ : υ₂ × List σ₂) (h : ((), p₁.2.length) = ((), p₂.2.length)) :
    (fIo u₁ fi ci co i p₁).map (fun r => r.2.map List.length) =
    (fIo u₂ fi ci co i p₂).map (fun r => r.2.map List.length) := by
  have h : p₁.2.length = p₂.2.length := by simpa using h
  have hl : (p₁.2.take ci).length = (p₂.2.take ci).length := by simp [h]
  have ho := hu p₁.1 p₂.1 _ _ hl
  simp only [fIo, runBlocks, hl]
  by_cases hn : (p₂.2.take ci).length = fi
  · simp only [hn, ne_eq, not_true_eq_false, if_false, Option.map_some, List.length_take, ho]
  · simp only [ne_eq, hn, not_false_eq_true, if_true, Option.map_none]

/-- the per-channel step of `FftFixedIn` -/
def fIn {σ υ : Type} (u : FftUnit σ υ) (fftIn fftOut chunkIn saved nextSaved nReady neededLen used : Nat) :
    Nat → (υ × List σ) × (List σ × Nat) → Option (υ × List σ × Option (List σ)) :=
  fun _ p =>
    let ov := p.1.1
    let store := overlay p.1.2 saved (p.2.1.take chunkIn)
    let nOutChunks := if fftOut = 0 then 0 else (p.2.2 + fftOut - 1) / fftOut
    let blocks := ((chunksOf fftIn store).take nReady).take nOutChunks
    match runBlocks u fftIn ov blocks with
    | none => none
    | some (os, ov') =>
      let outFrames := (os.flatten).take p.2.2
      let store' := if nextSaved > used then overlay store 0 ((store.drop used).take (nextSaved - used)) else store
      some (ov', store', some (outFrames.take neededLen))

/-- shape of a per-channel result -/
def rShape {σ υ : Type} (r : υ × List σ × Option (List σ)) : Nat × Option Nat := (r.2.1.length, r.2.2.map List.length)

theorem fIn_shape {u₁ : FftUnit σ₁ υ₁} {u₂ : FftUnit σ₂ υ₂} (hu : UnitLenEq u₁ u₂)
    (fi fo ci sv ns nr nl us i : Nat)
    (p₁ : (υ₁ × List σ₁) × (List σ₁ × Nat)) (p₂ : (υ₂ × List σ₂) × (List σ₂ × Nat))
    (h : (((), p₁.1.2.length), (p₁.2.1.length, p₁.2.2)) = (((), p₂.1.2.length), (p₂.2.1.length, p₂.2.2))) :
    (fIn u₁ fi fo ci sv ns nr nl us i p₁).map rShape = (fIn u₂ fi fo ci sv ns nr nl us i p₂).map rShape := by
  simp only [Prod.mk.injEq, true_and] at h
  obtain ⟨h1, h2, h3⟩ := h
  have hst : (overlay p₁.1.2 sv (p₁.2.1.take ci)).length = (overlay p₂.1.2 sv (p₂.2.1.take ci)).length := by
    simp only [overlay_len, List.length_take, h1, h2]
  have hbl := runBlocks_shape hu fi
    (((chunksOf fi (overlay p₁.1.2 sv (p₁.2.1.take ci))).take nr).take (if fo = 0 then 0 else (p₁.2.2 + fo - 1) / fo))
    (((chunksOf fi (overlay p₂.1.2 sv (p₂.2.1.take ci))).take nr).take (if fo = 0 then 0 else (p₂.2.2 + fo - 1) / fo))
    p₁.1.1 p₂.1.1 (by simp only [List.map_take, chunksOf_shape fi _ _ hst, h3])
  simp only [fIn]
  cases e1 : runBlocks u₁ fi p₁.1.1 (((chunksOf fi (overlay p₁.1.2 sv (p₁.2.1.take ci))).take nr).take
      (if fo = 0 then 0 else (p₁.2.2 + fo - 1) / fo)) with
  | none =>
    cases e2 : runBlocks u₂ fi p₂.1.1 (((chunksOf fi (overlay p₂.1.2 sv (p₂.2.1.take ci))).take nr).take
        (if fo = 0 then 0 else (p₂.2.2 + fo - 1) / fo)) with
    | none => rfl
    | some r₂ => rw [e1, e2] at hbl; simp at hbl
  | some r₁ =>
    cases e2 : runBlocks u₂ fi p₂.1.1 (((chunksOf fi (overlay p₂.1.2 sv (p₂.2.1.take ci))).take nr).take
        (if fo = 0 then 0 else (p₂.2.2 + fo - 1) / fo)) with
    | none => rw [e1, e2] at hbl; simp at hbl
    | some r₂ =>
      rw [e1, e2] at hbl
      simp only [Option.map_some, Option.some.injEq] at hbl
      simp only [Option.map_some, Option.some.injEq, rShape, Prod.mk.injEq, List.length_take,
        List.length_flatten, hbl, h3, and_true]
      split
      · simp only [overlay_len, List.length_take, List.length_drop, hst]
      · exact hst

/-- the per-channel step of `FftFixedOut` -/
def fOut {σ υ : Type} (u : FftUnit σ υ) (fftIn fftOut chunkOut saved framesNeeded saved' : Nat) (copyOut : Bool) :
    Nat → (υ × List σ) × List σ → Option (υ × List σ × Option (List σ)) :=
  fun _ p =>
    let ov := p.1.1
    let store := p.1.2
    let room := store.length - saved
    let nOutChunks := if fftOut = 0 then 0 else (room + fftOut - 1) / fftOut
    let blocks := (chunksOf fftIn (p.2.take framesNeeded)).take nOutChunks
    match runBlocks u fftIn ov blocks with
    | none => none
    | some (os, ov') =>
      let store1 := overlay store saved os.flatten
      if copyOut then
        let out := store1.take chunkOut
        let store2 := overlay store1 0 ((store1.drop chunkOut).take saved')
        some (ov', store2, some out)
      else some (ov', store1, some [])

theorem fOut_shape {u₁ : FftUnit σ₁ υ₁} {u₂ : FftUnit σ₂ υ₂} (hu : UnitLenEq u₁ u₂)
    (fi fo co sv fn sv' : Nat) (cp : Bool) (i : Nat)
    (p₁ : (υ₁ × List σ₁) × List σ₁) (p₂ : (υ₂ × List σ₂) × List σ₂)
    (h : (((), p₁.1.2.length), p₁.2.length) = (((), p₂.1.2.length), p₂.2.length)) :
    (fOut u₁ fi fo co sv fn sv' cp i p₁).map rShape = (fOut u₂ fi fo co sv fn sv' cp i p₂).map rShape := by
  simp only [Prod.mk.injEq, true_and] at h
  obtain ⟨h1, h2⟩ := h
  have hbl := runBlocks_shape hu fi
    ((chunksOf fi (p₁.2.take fn)).take (if fo = 0 then 0 else (p₁.1.2.length - sv + fo - 1) / fo))
    ((chunksOf fi (p₂.2.take fn)).take (if fo = 0 then 0 else (p₂.1.2.length - sv + fo - 1) / fo))
    p₁.1.1 p₂.1.1 (by simp only [List.map_take, chunksOf_shape fi _ _ (by simp [h2] : (p₁.2.take fn).length = (p₂.2.take fn).length), h1])
  simp only [fOut]
  cases e1 : runBlocks u₁ fi p₁.1.1 ((chunksOf fi (p₁.2.take fn)).take
      (if fo = 0 then 0 else (p₁.1.2.length - sv + fo - 1) / fo)) with
  | none =>
    cases e2 : runBlocks u₂ fi p₂.1.1 ((chunksOf fi (p₂.2.take fn)).take
        (if fo = 0 then 0 else (p₂.1.2.length - sv + fo - 1) / fo)) with
    | none => rfl
    | some r₂ => rw [e1, e2] at hbl; simp at hbl
  | some r₁ =>
    cases e2 : runBlocks u₂ fi p₂.1.1 ((chunksOf fi (p₂.2.take fn)).take
        (if fo = 0 then 0 else (p₂.1.2.length - sv + fo - 1) / fo)) with
    | none => rw [e1, e2] at hbl; simp at hbl
    | some r₂ =>
      rw [e1, e2] at hbl
      simp only [Option.map_some, Option.some.injEq] at hbl
      cases cp with
      | true =>
        simp only [if_true, Option.map_some, Option.some.injEq, rShape, Prod.mk.injEq, overlay_len,
          List.length_take, List.length_drop, List.length_flatten, hbl, h1, and_self]
      | false =>
        simp only [Bool.false_eq_true, if_false, Option.map_some, Option.some.injEq, rShape, Prod.mk.injEq,
          overlay_len, List.length_flatten, hbl, h1, List.length_nil, and_self]

theorem mapActive_shape {α₁ α₂ β₁ β₂ γ δ : Type} (sh₁ : α₁ → γ) (sh₂ : α₂ → γ) (t₁ : β₁ → δ) (t₂ : β₂ → δ)
    (f₁ : Nat → α₁ → Option β₁) (f₂ : Nat → α₂ → Option β₂) (k₁ : α₁ → β₁) (k₂ : α₂ → β₂)
    (hf : ∀ i x₁ x₂, sh₁ x₁ = sh₂ x₂ → (f₁ i x₁).map t₁ = (f₂ i x₂).map t₂)
    (hk : ∀ x₁ x₂, sh₁ x₁ = sh₂ x₂ → t₁ (k₁ x₁) = t₂ (k₂ x₂))
    (mask : List Bool) (xs₁ : List α₁) (xs₂ : List α₂) (hxs : xs₁.map sh₁ = xs₂.map sh₂) :
    (mapActive mask xs₁ f₁ k₁).map (List.map t₁) = (mapActive mask xs₂ f₂ k₂).map (List.map t₂) :=
  mapActive_go_shape sh₁ sh₂ t₁ t₂ f₁ f₂ k₁ k₂ hf hk mask 0 xs₁ xs₂ hxs

theorem any_length {σ : Type} (l : List (List σ)) (p : Nat → Bool) :
    l.any (fun b => p b.length) = (l.map List.length).any p := by
  rw [List.any_map]; rfl

/-- both fail, or both succeed with results related by `Q` -/
def OptRel {α β : Type} (Q : α → β → Prop) : Option α → Option β → Prop
  | none, none => True
  | some a, some b => Q a b
  | _, _ => False

theorem optRel_of_map {α β δ : Type} {t₁ : α → δ} {t₂ : β → δ} {a : Option (List α)} {b : Option (List β)}
    (h : a.map (List.map t₁) = b.map (List.map t₂)) :
    OptRel (fun x y => x.map t₁ = y.map t₂) a b := by
  cases a <;> cases b <;> simp [OptRel] at h ⊢
  exact h

theorem optRel_cases {A₁ A₂ : Type} {Q : A₁ → A₂ → Prop} {r₁ : Option A₁} {r₂ : Option A₂}
    (h : OptRel Q r₁ r₂) : (r₁ = none ∧ r₂ = none) ∨ ∃ a b, r₁ = some a ∧ r₂ = some b ∧ Q a b := by
  cases r₁ <;> cases r₂ <;> simp only [OptRel] at h
  · exact Or.inl ⟨rfl, rfl⟩
  · exact Or.inr ⟨_, _, rfl, rfl, h⟩

/-- the four combinations of the two `mapActive` results -/
theorem optRel_split {A₁ A₂ : Type} {Q : A₁ → A₂ → Prop} {r₁ : Option A₁} {r₂ : Option A₂}
    (h : OptRel Q r₁ r₂) :
    (∀ b, r₁ = none → r₂ = some b → False) ∧ (∀ a, r₁ = some a → r₂ = none → False) ∧
    (∀ a b, r₁ = some a → r₂ = some b → Q a b) := by
  cases r₁ <;> cases r₂ <;> simp only [OptRel] at h
  · exact ⟨fun _ _ h => by simp at h, fun _ h => by simp at h, fun _ _ h => by simp at h⟩
  · refine ⟨fun _ h => by simp at h, fun _ _ h => by simp at h, fun a b h1 h2 => ?_⟩
    simp only [Option.some.injEq] at h1 h2
    subst h1 h2
    exact h

/-- what `fft_process_ctlEq` concludes, as a relation on results -/
def FResEq (r₁ : FState σ₁ υ₁ × Outcome (FCallOut σ₁)) (r₂ : FState σ₂ υ₂ × Outcome (FCallOut σ₂)) : Prop :=
  FCtlEq r₁.1 r₂.1 ∧ FOutEq r₁.2 r₂.2

/-- **C17 for the FFT adapters, one call**: two synchronous resamplers over different sample types
whose per-block units return blocks of equal length, in related states, given inputs of the same
shape: same error / same panic / same counts, per-channel outputs of the same lengths, related
states afterwards. -/
theorem fft_process_ctlEq (da : DivArith) {u₁ : FftUnit σ₁ υ₁} {u₂ : FftUnit σ₂ υ₂} (hu : UnitLenEq u₁ u₂)
    {s₁ : FState σ₁ υ₁} {s₂ : FState σ₂ υ₂} (h : FCtlEq s₁ s₂)
    {in₁ : List (List σ₁)} {in₂ : List (List σ₂)} (hin : in₁.map List.length = in₂.map List.length)
    (outLens : List Nat) (um : Option (List Bool)) :
    FCtlEq (FState.process da u₁ s₁ in₁ outLens um).1 (FState.process da u₂ s₂ in₂ outLens um).1 ∧
    FOutEq (FState.process da u₁ s₁ in₁ outLens um).2 (FState.process da u₂ s₂ in₂ outLens um).2 := by
  show FResEq _ _
  obtain ⟨k₁, nch₁, ci₁, co₁, fi₁, fo₁, sv₁, fn₁, ov₁, st₁, m₁⟩ := s₁
  obtain ⟨k₂, nch₂, ci₂, co₂, fi₂, fo₂, sv₂, fn₂, ov₂, st₂, m₂⟩ := s₂
  obtain ⟨e1, e2, e3, e4, e5, e6, e7, e8, e9, hov, hst⟩ := h
  dsimp only at e1 e2 e3 e4 e5 e6 e7 e8 e9 hov hst
  subst e1 e2 e3 e4 e5 e6 e7 e8 e9
  have hunit := map_unit_of_length ov₁ ov₂ hov
  unfold FState.process
  dsimp only
  cases updateMask nch₁ um with
  | error e => exact ⟨⟨rfl, rfl, rfl, rfl, rfl, rfl, rfl, rfl, rfl, hov, hst⟩, rfl⟩
  | ok mask =>
    dsimp only
    rw [hin]
    cases k₁ with
    | fftIo =>
      dsimp only
      cases validateBuffers (in₂.map List.length) outLens mask nch₁ ci₁ co₁ with
      | error e => exact ⟨⟨rfl, rfl, rfl, rfl, rfl, rfl, rfl, rfl, rfl, hov, hst⟩, rfl⟩
      | ok u =>
        dsimp only
        have hrel := optRel_of_map (mapActive_shape (fun p => ((), p.2.length)) (fun p => ((), p.2.length))
          (fun r => r.2.map List.length) (fun r => r.2.map List.length)
          (fIo u₁ fi₁ ci₁ co₁) (fIo u₂ fi₁ ci₁ co₁) (fun p => (p.1, none)) (fun p => (p.1, none))
          (fIo_shape hu fi₁ ci₁ co₁) (fun _ _ _ => rfl) mask (List.zip ov₁ in₁) (List.zip ov₂ in₂)
          (map_zip_congr _ _ _ _ _ _ _ _ hunit hin))
        obtain ⟨c1, c2, c3⟩ := optRel_split hrel
        split
        · next _ h1 =>
          split
          · exact ⟨⟨rfl, rfl, rfl, rfl, rfl, rfl, rfl, rfl, rfl, hov, hst⟩, rfl⟩
          · next _ rs₂ h2 => exact (c1 rs₂ h1 h2).elim
        next _ rs₁ h1 =>
        split
        · next _ h2 => exact (c2 rs₁ h1 h2).elim
        next _ rs₂ h2 =>
        have hq := c3 rs₁ rs₂ h1 h2
        have hlen : rs₁.length = rs₂.length := by simpa using congrArg List.length hq
        refine ⟨⟨rfl, rfl, rfl, rfl, rfl, rfl, rfl, rfl, rfl, by simp [hlen], hst⟩, ?_⟩
        simp only [FOutEq, List.map_map, true_and]
        exact hq
    | fftIn =>
      dsimp only
      cases validateBuffers (in₂.map List.length) outLens mask nch₁ ci₁ (da.fdiv (sv₁ + ci₁) fi₁ * fo₁) with
      | error e => exact ⟨⟨rfl, rfl, rfl, rfl, rfl, rfl, rfl, rfl, rfl, hov, hst⟩, rfl⟩
      | ok u =>
        dsimp only
        split
        · exact ⟨⟨rfl, rfl, rfl, rfl, rfl, rfl, rfl, rfl, rfl, hov, hst⟩, rfl⟩
        · have hrel := optRel_of_map (mapActive_shape
            (fun p => (((), p.1.2.length), (p.2.1.length, p.2.2))) (fun p => (((), p.1.2.length), (p.2.1.length, p.2.2)))
            rShape rShape
            (fIn u₁ fi₁ fo₁ ci₁ sv₁ (sv₁ + ci₁) (da.fdiv (sv₁ + ci₁) fi₁) (da.fdiv (sv₁ + ci₁) fi₁ * fo₁)
              (da.fdiv (sv₁ + ci₁) fi₁ * fi₁))
            (fIn u₂ fi₁ fo₁ ci₁ sv₁ (sv₁ + ci₁) (da.fdiv (sv₁ + ci₁) fi₁) (da.fdiv (sv₁ + ci₁) fi₁ * fo₁)
              (da.fdiv (sv₁ + ci₁) fi₁ * fi₁))
            (fun p => (p.1.1, p.1.2, none)) (fun p => (p.1.1, p.1.2, none))
            (fIn_shape hu _ _ _ _ _ _ _ _)
            (fun x₁ x₂ hx => by
              simp only [Prod.mk.injEq, true_and] at hx
              simp only [rShape, hx.1, Option.map_none])
            mask (List.zip (List.zip ov₁ st₁) (List.zip in₁ outLens)) (List.zip (List.zip ov₂ st₂) (List.zip in₂ outLens))
            (map_zip_congr _ _ _ _ _ _ _ _ (map_zip_congr _ _ _ _ _ _ _ _ hunit hst)
              (map_zip_congr (fun (l : List σ₁) => l.length) (fun (l : List σ₂) => l.length) (fun (n : Nat) => n) (fun (n : Nat) => n) _ _ _ _ hin rfl)))
          obtain ⟨c1, c2, c3⟩ := optRel_split hrel
          split
          · next _ h1 =>
            split
            · exact ⟨⟨rfl, rfl, rfl, rfl, rfl, rfl, rfl, rfl, rfl, hov, hst⟩, rfl⟩
            · next _ rs₂ h2 => exact (c1 rs₂ h1 h2).elim
          next _ rs₁ h1 =>
          split
          · next _ h2 => exact (c2 rs₁ h1 h2).elim
          next _ rs₂ h2 =>
          have hq := c3 rs₁ rs₂ h1 h2
          have hlen : rs₁.length = rs₂.length := by simpa using congrArg List.length hq
          have h1 := congrArg (List.map Prod.fst) hq
          have h2 := congrArg (List.map Prod.snd) hq
          simp only [List.map_map, Function.comp_def, rShape] at h1 h2
          refine ⟨⟨rfl, rfl, rfl, rfl, rfl, rfl, rfl, rfl, rfl, by simp [hlen], ?_⟩, ?_⟩
          · simp only [List.map_map, Function.comp_def]; exact h1
          · simp only [FOutEq, List.map_map, Function.comp_def, true_and]; exact h2
    | fftOut =>
      dsimp only
      cases validateBuffers (in₂.map List.length) outLens mask nch₁ fn₁ co₁ with
      | error e => exact ⟨⟨rfl, rfl, rfl, rfl, rfl, rfl, rfl, rfl, rfl, hov, hst⟩, rfl⟩
      | ok u =>
        dsimp only
        generalize hcp : decide (sv₁ + fo₁ * (fn₁ / fi₁) ≥ co₁) = cp
        generalize hsv' : (if cp = true then sv₁ + fo₁ * (fn₁ / fi₁) - co₁ else sv₁ + fo₁ * (fn₁ / fi₁)) = sv'
        generalize (if co₁ > sv' then co₁ - sv' else 0) = no
        rw [any_length st₁ (fun n => decide (sv₁ > n)), any_length st₂ (fun n => decide (sv₁ > n)),
          any_length st₁ (fun n => decide (co₁ + sv' > n)), any_length st₂ (fun n => decide (co₁ + sv' > n)), hst]
        by_cases hA : ((List.map List.length st₂).any fun n => decide (sv₁ > n)) = true
        · rw [if_pos hA, if_pos hA]
          exact ⟨⟨rfl, rfl, rfl, rfl, rfl, rfl, rfl, rfl, rfl, hov, hst⟩, rfl⟩
        · rw [if_neg hA, if_neg hA]
          by_cases hB : (cp && (List.map List.length st₂).any fun n => decide (co₁ + sv' > n)) = true
          · rw [if_pos hB, if_pos hB]
            exact ⟨⟨rfl, rfl, rfl, rfl, rfl, rfl, rfl, rfl, rfl, hov, hst⟩, rfl⟩
          · rw [if_neg hB, if_neg hB]
            have hrel := optRel_of_map (mapActive_shape
              (fun p => (((), p.1.2.length), p.2.length)) (fun p => (((), p.1.2.length), p.2.length))
              rShape rShape
              (fOut u₁ fi₁ fo₁ co₁ sv₁ fn₁ sv' cp) (fOut u₂ fi₁ fo₁ co₁ sv₁ fn₁ sv' cp)
              (fun p => (p.1.1, p.1.2, none)) (fun p => (p.1.1, p.1.2, none))
              (fOut_shape hu _ _ _ _ _ _ _)
              (fun x₁ x₂ hx => by
                simp only [Prod.mk.injEq, true_and] at hx
                simp only [rShape, hx.1, Option.map_none])
              mask (List.zip (List.zip ov₁ st₁) in₁) (List.zip (List.zip ov₂ st₂) in₂)
              (map_zip_congr _ _ (fun (l : List σ₁) => l.length) (fun (l : List σ₂) => l.length) _ _ _ _
                (map_zip_congr _ _ _ _ _ _ _ _ hunit hst) hin))
            obtain ⟨c1, c2, c3⟩ := optRel_split hrel
            split
            · next _ h1 =>
              split
              · exact ⟨⟨rfl, rfl, rfl, rfl, rfl, rfl, rfl, rfl, rfl, hov, hst⟩, rfl⟩
              · next _ rs₂ h2 => exact (c1 rs₂ h1 h2).elim
            next _ rs₁ h1 =>
            split
            · next _ h2 => exact (c2 rs₁ h1 h2).elim
            next _ rs₂ h2 =>
            have hq := c3 rs₁ rs₂ h1 h2
            have hlen : rs₁.length = rs₂.length := by simpa using congrArg List.length hq
            have h1 := congrArg (List.map Prod.fst) hq
            have h2 := congrArg (List.map Prod.snd) hq
            simp only [List.map_map, Function.comp_def, rShape] at h1 h2
            refine ⟨⟨rfl, rfl, rfl, rfl, rfl, rfl, rfl, rfl, rfl, by simp [hlen], ?_⟩, ?_⟩
            · simp only [List.map_map, Function.comp_def]; exact h1
            · simp only [FOutEq, List.map_map, Function.comp_def, true_and]; exact h2

end Fft
section Fft2
variable {σ₁ σ₂ υ₁ υ₂ : Type}

theorem fft_getters_ctlEq (da : DivArith) {s₁ : FState σ₁ υ₁} {s₂ : FState σ₂ υ₂} (h : FCtlEq s₁ s₂) :
    s₁.inputFramesNext = s₂.inputFramesNext ∧ FState.inputFramesMax da s₁ = FState.inputFramesMax da s₂ ∧
    FState.outputFramesNext da s₁ = FState.outputFramesNext da s₂ ∧
    s₁.outputFramesMax = s₂.outputFramesMax ∧ s₁.outputDelay = s₂.outputDelay := by
  unfold FState.inputFramesNext FState.inputFramesMax FState.outputFramesNext FState.outputFramesMax
    FState.outputDelay
  rw [h.kind, h.chunkIn, h.chunkOut, h.fftIn, h.fftOut, h.saved, h.framesNeeded]
  exact ⟨rfl, rfl, rfl, rfl, rfl⟩

theorem map_length_replicate_length {σ : Type} (l : List (List σ)) (z : σ) :
    (l.map fun b => List.replicate b.length z).map List.length = l.map List.length := by
  simp [Function.comp_def]

theorem fft_reset_ctlEq (da : DivArith) (u₁ : FftUnit σ₁ υ₁) (u₂ : FftUnit σ₂ υ₂) (z₁ : σ₁) (z₂ : σ₂)
    {s₁ : FState σ₁ υ₁} {s₂ : FState σ₂ υ₂} (h : FCtlEq s₁ s₂) :
    FCtlEq (FState.reset da u₁ z₁ s₁) (FState.reset da u₂ z₂ s₂) := by
  obtain ⟨k₁, nch₁, ci₁, co₁, fi₁, fo₁, sv₁, fn₁, ov₁, st₁, m₁⟩ := s₁
  obtain ⟨k₂, nch₂, ci₂, co₂, fi₂, fo₂, sv₂, fn₂, ov₂, st₂, m₂⟩ := s₂
  obtain ⟨e1, e2, e3, e4, e5, e6, e7, e8, e9, hov, hst⟩ := h
  dsimp only at e1 e2 e3 e4 e5 e6 e7 e8 e9 hov hst
  subst e1 e2 e3 e4 e5 e6 e7 e8 e9
  unfold FState.reset
  cases k₁ <;> dsimp only <;>
    exact ⟨rfl, rfl, rfl, rfl, rfl, rfl, rfl, rfl, rfl, by simp,
      by first | exact hst | (rw [map_length_replicate_length, map_length_replicate_length]; exact hst)⟩

/-- result of a constructor up to the sample type -/
def FInitEq : Except CErr (FState σ₁ υ₁) → Except CErr (FState σ₂ υ₂) → Prop
  | .ok s₁, .ok s₂ => FCtlEq s₁ s₂
  | .error e₁, .error e₂ => e₁ = e₂
  | _, _ => False

theorem fft_init_ctlEq (da : DivArith) (u₁ : FftUnit σ₁ υ₁) (u₂ : FftUnit σ₂ υ₂) (z₁ : σ₁) (z₂ : σ₂)
    (kind : FKind) (ri ro chunk sub nch : Nat) :
    FInitEq (FState.init da u₁ z₁ kind ri ro chunk sub nch) (FState.init da u₂ z₂ kind ri ro chunk sub nch) := by
  unfold FState.init
  by_cases h0 : ri = 0 ∨ ro = 0
  · simp only [h0, if_true, FInitEq]
  · simp only [h0, if_false]
    cases kind <;> dsimp only <;> simp only [FInitEq] <;>
      exact ⟨rfl, rfl, rfl, rfl, rfl, rfl, rfl, rfl, rfl, by simp, by simp⟩

/-- operations of a synchronous resampler (the setters always fail and change nothing) -/
inductive FOp (σ : Type) where
  | proc (input : List (List σ)) (outLens : List Nat) (mask : Option (List Bool))
  | reset

def FOpEq : FOp σ₁ → FOp σ₂ → Prop
  | .proc i₁ o₁ m₁, .proc i₂ o₂ m₂ => i₁.map List.length = i₂.map List.length ∧ o₁ = o₂ ∧ m₁ = m₂
  | .reset, .reset => True
  | _, _ => False

inductive FOpsEq : List (FOp σ₁) → List (FOp σ₂) → Prop
  | nil : FOpsEq [] []
  | cons {o₁ o₂ l₁ l₂} : FOpEq o₁ o₂ → FOpsEq l₁ l₂ → FOpsEq (o₁ :: l₁) (o₂ :: l₂)

def fftStepOp {σ υ : Type} (da : DivArith) (u : FftUnit σ υ) (z : σ) (s : FState σ υ) : FOp σ → FState σ υ
  | .proc i o m => (FState.process da u s i o m).1
  | .reset => FState.reset da u z s

def fftRun {σ υ : Type} (da : DivArith) (u : FftUnit σ υ) (z : σ) (s : FState σ υ) (ops : List (FOp σ)) :
    FState σ υ := ops.foldl (fftStepOp da u z) s

/-- **C17 for the FFT adapters, histories of any length** -/
theorem fft_run_ctlEq (da : DivArith) {u₁ : FftUnit σ₁ υ₁} {u₂ : FftUnit σ₂ υ₂} (hu : UnitLenEq u₁ u₂)
    (z₁ : σ₁) (z₂ : σ₂) {ops₁ : List (FOp σ₁)} {ops₂ : List (FOp σ₂)} (ho : FOpsEq ops₁ ops₂) :
    ∀ {s₁ : FState σ₁ υ₁} {s₂ : FState σ₂ υ₂}, FCtlEq s₁ s₂ →
      FCtlEq (fftRun da u₁ z₁ s₁ ops₁) (fftRun da u₂ z₂ s₂ ops₂) := by
  induction ho with
  | nil => intro s₁ s₂ h; exact h
  | @cons o₁ o₂ l₁ l₂ h1 _ ih =>
    intro s₁ s₂ h
    simp only [fftRun, List.foldl_cons]
    apply ih
    cases o₁ <;> cases o₂ <;> simp only [FOpEq] at h1
    · obtain ⟨hi, rfl, rfl⟩ := h1
      exact (fft_process_ctlEq da hu h hi _ _).1
    · exact fft_reset_ctlEq da u₁ u₂ z₁ z₂ h

end Fft2

/-! ### The IEEE instantiation (the theorems above at `ρ = f64`, `σ₁ = f32`, `σ₂ = f64`) -/

/-- `f32` and `f64` resamplers: one call -/
theorem process_ctlEq_f32_f64 {s₁ : AState Float Float32} {s₂ : AState Float Float}
    {a₁ : CallArgs Float32} {a₂ : CallArgs Float} (h : CtlEq s₁ s₂) (ha : ArgsEq a₁ a₂) :
    CtlEq (s₁.process a₁).1 (s₂.process a₂).1 ∧ OutEq (s₁.process a₁).2 (s₂.process a₂).2 :=
  process_ctlEq h ha

/-- `f32` and `f64` resamplers built with the same parameters: whole histories -/
theorem trace_eq_f32_f64 (kind : AKind) (ratio maxRel : Float) (deg : Degree) (sint : SincInterp)
    (ip₁ : Interp Float32) (ip₂ : Interp Float) (hl : ip₁.len = ip₂.len) (hn : ip₁.nbr = ip₂.nbr) (chunk nch : Nat)
    (s₁ : AState Float Float32) (s₂ : AState Float Float)
    (h₁ : AState.init kind ratio maxRel deg sint ip₁ chunk nch = .ok s₁)
    (h₂ : AState.init kind ratio maxRel deg sint ip₂ chunk nch = .ok s₂)
    {ops₁ : List (AOp Float Float32)} {ops₂ : List (AOp Float Float)} (ho : OpsEq ops₁ ops₂) :
    obsTrace s₁ ops₁ = obsTrace s₂ ops₂ :=
  (trace_eq_from_init kind ratio maxRel deg sint ip₁ ip₂ hl hn chunk nch s₁ s₂ h₁ h₂ ho).1

end Rubato.Indep
