/-
C17 — the sample type does not influence any control decision.

Two instantiations of the asynchronous model over the SAME control arithmetic `ρ` but two sample
types `σ₁ σ₂` (think `f32` / `f64`) that start from related states (`CtlEq`: every non-sample field
equal, interpolators of equal `len`/`nbr`, buffers of equal shape) and are driven by histories of the
same shape (`ArgsEq`, `OpEq`) stay related for ever, fail identically, and report the same frame
counts, the same `stale` flag and output channels of the same sizes.

[law-free]: everything here is proved for every instance of `RNum ρ`, `SNum ρ σ₁`, `SNum ρ σ₂`
(no algebraic law is used), so it is literally true of the IEEE instantiation.
-/
import RubatoProofs.Lemmas.Shape
import RubatoModel.Fft

set_option linter.unusedSectionVars false
set_option linter.unusedVariables false

namespace Rubato.Indep
open Rubato

variable {ρ σ₁ σ₂ : Type} [RNum ρ] [SNum ρ σ₁] [SNum ρ σ₂]

/-! ### The relations -/

/-- same control state: all non-sample fields equal, interpolators of the same dimensions,
channel buffers of the same sizes -/
structure CtlEq (s₁ : AState ρ σ₁) (s₂ : AState ρ σ₂) : Prop where
  kind : s₁.kind = s₂.kind
  nch : s₁.nch = s₂.nch
  chunk : s₁.chunk = s₂.chunk
  maxChunk : s₁.maxChunk = s₂.maxChunk
  needed : s₁.needed = s₂.needed
  fill : s₁.fill = s₂.fill
  lastIndex : s₁.lastIndex = s₂.lastIndex
  ratio : s₁.ratio = s₂.ratio
  orig : s₁.orig = s₂.orig
  target : s₁.target = s₂.target
  maxRel : s₁.maxRel = s₂.maxRel
  L : s₁.L = s₂.L
  deg : s₁.deg = s₂.deg
  sint : s₁.sint = s₂.sint
  mask : s₁.mask = s₂.mask
  ipLen : s₁.ip.len = s₂.ip.len
  ipNbr : s₁.ip.nbr = s₂.ip.nbr
  shape : bufShape s₁.buf = bufShape s₂.buf

/-- same shape of arguments -/
def ArgsEq (a₁ : CallArgs σ₁) (a₂ : CallArgs σ₂) : Prop :=
  a₁.input.map Array.size = a₂.input.map Array.size ∧ a₁.outLens = a₂.outLens ∧ a₁.mask = a₂.mask

/-- per-channel pattern of an output: `none` (not written) or the number of frames written -/
def outSizes {σ : Type} (o : List (Option (Array σ))) : List (Option Nat) := o.map (Option.map Array.size)

/-- same shape of outcomes (the panic/abort sites are required equal too) -/
def OutEq : Outcome (CallOut σ₁) → Outcome (CallOut σ₂) → Prop
  | .ok o₁, .ok o₂ =>
    o₁.nIn = o₂.nIn ∧ o₁.nOut = o₂.nOut ∧ o₁.stale = o₂.stale ∧ outSizes o₁.out = outSizes o₂.out
  | .err e₁, .err e₂ => e₁ = e₂
  | .panic m₁, .panic m₂ => m₁ = m₂
  | .abort m₁, .abort m₂ => m₁ = m₂
  | _, _ => False

/-! ### Small shape facts -/

theorem getD_size_of_shape {b₁ : Array (Array σ₁)} {b₂ : Array (Array σ₂)}
    (h : bufShape b₁ = bufShape b₂) (i : Nat) : (b₁.getD i #[]).size = (b₂.getD i #[]).size := by
  unfold bufShape at h
  have hl : b₁.size = b₂.size := by simpa using congrArg List.length h
  by_cases hi : i < b₁.size
  · have hi2 : i < b₂.size := hl ▸ hi
    have := congrArg (fun l => l[i]?) h
    simp only [List.getElem?_map, Array.getElem?_toList] at this
    simp only [Array.getD, hi, hi2, dite_true]
    simpa [hi, hi2] using this
  · have hi2 : ¬ i < b₂.size := hl ▸ hi
    simp [Array.getD, hi, hi2]

theorem size_eq_of_shape {b₁ : Array (Array σ₁)} {b₂ : Array (Array σ₂)}
    (h : bufShape b₁ = bufShape b₂) : b₁.size = b₂.size := by
  unfold bufShape at h
  simpa using congrArg List.length h

theorem any_shape {σ : Type} (b : Array (Array σ)) (p : Nat → Bool) :
    b.any (fun x => p x.size) = (bufShape b).any p := by
  unfold bufShape
  rw [List.any_map, Array.any_toList]
  rfl

/-- size of `copyWithin` as a function of the size -/
def cwSize (sz src n : Nat) : Nat := (min (src + n) sz - src) + (sz - n)

theorem copyWithin_size_fn {σ : Type} (b : Array σ) (src n : Nat) :
    (copyWithin b src n).size = cwSize b.size src n := by
  simp [copyWithin, cwSize]

theorem bufShape_map_copyWithin {σ : Type} (b : Array (Array σ)) (src n : Nat) :
    bufShape (b.map fun x => copyWithin x src n) = (bufShape b).map fun sz => cwSize sz src n := by
  unfold bufShape
  simp [copyWithin_size_fn, Function.comp_def]

/-! ### Range tests never look at a sample -/

theorem sincPointOk_ctl (ip₁ : Interp σ₁) (ip₂ : Interp σ₂) (hl : ip₁.len = ip₂.len)
    (hn : ip₁.nbr = ip₂.nbr) (n L : Nat) : sincPointOk ip₁ n L = sincPointOk ip₂ n L := by
  funext p
  simp [sincPointOk, hl, hn]

theorem posFault_ctl {s₁ : AState ρ σ₁} {s₂ : AState ρ σ₂} (h : CtlEq s₁ s₂) (n : Nat) (p : ρ) :
    posFault s₁ n p = posFault s₂ n p := by
  unfold posFault
  rw [h.kind, h.sint, h.ipNbr, h.L, h.deg, sincPointOk_ctl s₁.ip s₂.ip h.ipLen h.ipNbr]

theorem readEnd_ctl {s₁ : AState ρ σ₁} {s₂ : AState ρ σ₂} (h : CtlEq s₁ s₂) (p : ρ) :
    readEnd s₁ p = readEnd s₂ p := by
  unfold readEnd
  rw [h.kind, h.sint, h.ipNbr, h.L, h.deg, h.ipLen]

/-! ### `evalChannels`: same fault, or outputs of the same shape -/

/-- shape of the result of `evalChannels` -/
def evalShape {σ : Type} (r : Except (Outcome Unit) (List (Option (Array σ)))) :
    Except (Outcome Unit) (List (Option Nat)) :=
  match r with
  | .ok o => .ok (outSizes o)
  | .error f => .error f

theorem evalChannels_go_ctl {s₁ : AState ρ σ₁} {s₂ : AState ρ σ₂} (h : CtlEq s₁ s₂)
    (b₁ : Array (Array σ₁)) (b₂ : Array (Array σ₂)) (hb : bufShape b₁ = bufShape b₂) (ps : List ρ) :
    ∀ (ms : List Bool) (i : Nat) (acc₁ : List (Option (Array σ₁))) (acc₂ : List (Option (Array σ₂))),
      outSizes acc₁ = outSizes acc₂ →
      evalShape (evalChannels.go s₁ b₁ ps i ms acc₁) = evalShape (evalChannels.go s₂ b₂ ps i ms acc₂) := by
  intro ms
  induction ms with
  | nil =>
    intro i acc₁ acc₂ hacc
    simp only [evalChannels.go, evalShape, outSizes, List.map_reverse]
    unfold outSizes at hacc
    rw [hacc]
  | cons m ms ih =>
    intro i acc₁ acc₂ hacc
    cases m with
    | false =>
      simp only [evalChannels.go, Bool.false_eq_true, if_false]
      apply ih
      simp only [outSizes, List.map_cons, Option.map_none] at hacc ⊢
      rw [hacc]
    | true =>
      simp only [evalChannels.go, if_true]
      have hsz := getD_size_of_shape hb i
      have hf : posFault s₁ (b₁.getD i #[]).size = posFault s₂ (b₂.getD i #[]).size := by
        funext p; rw [hsz]; exact posFault_ctl h _ p
      rw [hf]
      cases hfs : List.findSome? (posFault s₂ (b₂.getD i #[]).size) ps with
      | some f => rfl
      | none =>
        simp only []
        apply ih
        simp only [outSizes, List.map_cons, Option.map_some, Array.size_map, List.size_toArray] at hacc ⊢
        rw [hacc]

theorem evalChannels_ctl {s₁ : AState ρ σ₁} {s₂ : AState ρ σ₂} (h : CtlEq s₁ s₂)
    (b₁ : Array (Array σ₁)) (b₂ : Array (Array σ₂)) (hb : bufShape b₁ = bufShape b₂) (mask : List Bool)
    (ps : List ρ) :
    evalShape (evalChannels s₁ b₁ mask ps) = evalShape (evalChannels s₂ b₂ mask ps) := by
  unfold evalChannels
  exact evalChannels_go_ctl h b₁ b₂ hb ps mask 0 [] [] rfl

/-! ### `refill`: succeeds for one iff for the other, shapes stay equal -/

theorem refill_go_ctl (loadN twoL : Nat) :
    ∀ (ms : List Bool) (ins₁ : List (Array σ₁)) (ins₂ : List (Array σ₂)) (i : Nat)
      (acc₁ : Array (Array σ₁)) (acc₂ : Array (Array σ₂)),
      ins₁.map Array.size = ins₂.map Array.size → bufShape acc₁ = bufShape acc₂ →
      (refill.go loadN twoL i ms ins₁ acc₁).map bufShape = (refill.go loadN twoL i ms ins₂ acc₂).map bufShape := by
  intro ms
  induction ms with
  | nil => intro ins₁ ins₂ i acc₁ acc₂ hin hacc; simp [refill.go, hacc]
  | cons m ms ih =>
    intro ins₁ ins₂ i acc₁ acc₂ hin hacc
    cases ins₁ with
    | nil =>
      cases ins₂ with
      | nil => simp [refill.go, hacc]
      | cons _ _ => simp at hin
    | cons inp₁ ins₁' =>
      cases ins₂ with
      | nil => simp at hin
      | cons inp₂ ins₂' =>
        simp only [List.map_cons, List.cons.injEq] at hin
        obtain ⟨hinp, hin'⟩ := hin
        cases m with
        | false =>
          simp only [refill.go, Bool.false_eq_true, if_false]
          exact ih ins₁' ins₂' (i + 1) acc₁ acc₂ hin' hacc
        | true =>
          simp only [refill.go, if_true]
          have hsz := getD_size_of_shape hacc i
          rw [hsz, hinp]
          by_cases hc : (decide (twoL + loadN > (acc₂.getD i #[]).size) || decide (loadN > inp₂.size)) = true
          · simp only [hc, if_true, Option.map_none]
          · simp only [hc]
            simp only [Bool.or_eq_true, decide_eq_true_eq, not_or, Nat.not_lt] at hc
            apply ih ins₁' ins₂' (i + 1) _ _ hin'
            rw [bufShape_setIfInBounds, bufShape_setIfInBounds, hacc]
            · apply loadAt_size; simp only [Array.size_extract]; omega
            · apply loadAt_size; simp only [Array.size_extract]; omega

theorem refill_ctl {s₁ : AState ρ σ₁} {s₂ : AState ρ σ₂} (hL : s₁.L = s₂.L)
    (hs : bufShape s₁.buf = bufShape s₂.buf) (mask : List Bool)
    (in₁ : List (Array σ₁)) (in₂ : List (Array σ₂)) (hin : in₁.map Array.size = in₂.map Array.size)
    (shiftFrom loadN : Nat) :
    (refill s₁ mask in₁ shiftFrom loadN).map bufShape = (refill s₂ mask in₂ shiftFrom loadN).map bufShape := by
  unfold refill
  simp only []
  rw [any_shape s₁.buf (fun n => decide (shiftFrom + 2 * s₁.L > n)),
    any_shape s₂.buf (fun n => decide (shiftFrom + 2 * s₂.L > n)), hL, hs]
  split
  · rfl
  · apply refill_go_ctl _ _ mask in₁ in₂ 0 _ _ hin
    rw [bufShape_map_copyWithin, bufShape_map_copyWithin, hs]

/-! ### The two halves of a call -/

/-- close a `CtlEq` goal between two structure literals: every field is `rfl` or a field of `h` -/
local macro "ctl_fields " h:ident : tactic =>
  `(tactic| (constructor <;> first
    | rfl | exact (CtlEq.kind $h :) | exact (CtlEq.nch $h :) | exact (CtlEq.chunk $h :)
    | exact (CtlEq.maxChunk $h :) | exact (CtlEq.needed $h :) | exact (CtlEq.fill $h :)
    | exact (CtlEq.lastIndex $h :) | exact (CtlEq.ratio $h :) | exact (CtlEq.orig $h :)
    | exact (CtlEq.target $h :) | exact (CtlEq.maxRel $h :) | exact (CtlEq.L $h :)
    | exact (CtlEq.deg $h :) | exact (CtlEq.sint $h :) | exact (CtlEq.mask $h :)
    | exact (CtlEq.ipLen $h :) | exact (CtlEq.ipNbr $h :) | exact (CtlEq.shape $h :)))

theorem faultOutcome_ctl (f : Outcome Unit) :
    OutEq (faultOutcome f : Outcome (CallOut σ₁)) (faultOutcome f : Outcome (CallOut σ₂)) := by
  unfold faultOutcome
  cases f <;> simp [OutEq]

theorem stale_ctl {s₁ : AState ρ σ₁} {s₂ : AState ρ σ₂} (h : CtlEq s₁ s₂) (ps : List ρ) (e : Int) :
    (ps.any fun p => decide (readEnd s₁ p > e)) = (ps.any fun p => decide (readEnd s₂ p > e)) := by
  congr 1
  funext p
  rw [readEnd_ctl h p]

theorem finishIn_ctl {s₁ : AState ρ σ₁} {s₂ : AState ρ σ₂} (h : CtlEq s₁ s₂) (mask : List Bool) (fuel : Nat) :
    CtlEq (s₁.finishIn mask fuel).1 (s₂.finishIn mask fuel).1 ∧
    OutEq (s₁.finishIn mask fuel).2 (s₂.finishIn mask fuel).2 := by
  unfold AState.finishIn
  simp only []
  rw [h.ratio, h.target, h.chunk, h.L, h.lastIndex, h.kind]
  generalize stepsIn ((RNum.one / s₂.target - RNum.one / s₂.ratio) /
      (RNum.ofNat s₂.chunk * meanRatio s₂.ratio s₂.target))
    (RNum.ofInt ((s₂.chunk : Int) - ((s₂.L : Int) + 1) - RNum.toInt (RNum.ceil (RNum.one / s₂.target))))
    fuel (RNum.one / s₂.ratio) s₂.lastIndex = r
  cases hr : r.2.2 with
  | true =>
    simp only [if_true]
    refine ⟨h, ?_⟩
    cases s₂.kind.isSinc <;> simp [OutEq]
  | false =>
    simp only [Bool.false_eq_true, if_false]
    have he := evalChannels_ctl h s₁.buf s₂.buf h.shape mask r.1
    cases h1 : evalChannels s₁ s₁.buf mask r.1 with
    | error f₁ =>
      cases h2 : evalChannels s₂ s₂.buf mask r.1 with
      | error f₂ =>
        rw [h1, h2] at he
        simp only [evalShape, Except.error.injEq] at he
        subst he
        exact ⟨h, faultOutcome_ctl f₁⟩
      | ok o₂ => rw [h1, h2] at he; simp [evalShape] at he
    | ok o₁ =>
      cases h2 : evalChannels s₂ s₂.buf mask r.1 with
      | error f₂ => rw [h1, h2] at he; simp [evalShape] at he
      | ok o₂ =>
        rw [h1, h2] at he
        simp only [evalShape, Except.ok.injEq] at he
        simp only []
        refine ⟨by ctl_fields h, ?_⟩
        simp only [OutEq, true_and]
        exact ⟨stale_ctl h _ _, he⟩

theorem finishOut_ctl {s₁ : AState ρ σ₁} {s₂ : AState ρ σ₂} (h : CtlEq s₁ s₂) (mask : List Bool) :
    CtlEq (s₁.finishOut mask).1 (s₂.finishOut mask).1 ∧
    OutEq (s₁.finishOut mask).2 (s₂.finishOut mask).2 := by
  unfold AState.finishOut
  simp only []
  rw [h.ratio, h.target, h.chunk, h.L, h.lastIndex, h.kind, h.fill]
  generalize stepsOut ((RNum.one / s₂.target - RNum.one / s₂.ratio) / RNum.ofNat s₂.chunk) s₂.chunk
    (RNum.one / s₂.ratio) s₂.lastIndex = ps
  have he := evalChannels_ctl h s₁.buf s₂.buf h.shape mask ps
  cases h1 : evalChannels s₁ s₁.buf mask ps with
  | error f₁ =>
    cases h2 : evalChannels s₂ s₂.buf mask ps with
    | error f₂ =>
      rw [h1, h2] at he
      simp only [evalShape, Except.error.injEq] at he
      subst he
      exact ⟨h, faultOutcome_ctl f₁⟩
    | ok o₂ => rw [h1, h2] at he; simp [evalShape] at he
  | ok o₁ =>
    cases h2 : evalChannels s₂ s₂.buf mask ps with
    | error f₂ => rw [h1, h2] at he; simp [evalShape] at he
    | ok o₂ =>
      rw [h1, h2] at he
      simp only [evalShape, Except.ok.injEq] at he
      simp only []
      refine ⟨by ctl_fields h, ?_⟩
      simp only [OutEq, true_and]
      exact ⟨stale_ctl h _ _, he⟩

/-! ### `process_into_buffer` -/

theorem minIn_ctl {s₁ : AState ρ σ₁} {s₂ : AState ρ σ₂} (h : CtlEq s₁ s₂) : s₁.minIn = s₂.minIn := by
  unfold AState.minIn; rw [h.kind, h.chunk, h.needed]

theorem minOut_ctl {s₁ : AState ρ σ₁} {s₂ : AState ρ σ₂} (h : CtlEq s₁ s₂) : s₁.minOut = s₂.minOut := by
  unfold AState.minOut; rw [h.kind, h.chunk, h.ratio, h.target]

theorem shiftFrom_ctl {s₁ : AState ρ σ₁} {s₂ : AState ρ σ₂} (h : CtlEq s₁ s₂) :
    s₁.shiftFrom = s₂.shiftFrom := by
  unfold AState.shiftFrom; rw [h.kind, h.chunk, h.fill]

theorem CtlEq.withMask {s₁ : AState ρ σ₁} {s₂ : AState ρ σ₂} (h : CtlEq s₁ s₂) (m : List Bool) :
    CtlEq { s₁ with mask := m } { s₂ with mask := m } :=
  ⟨h.kind, h.nch, h.chunk, h.maxChunk, h.needed, h.fill, h.lastIndex, h.ratio, h.orig, h.target, h.maxRel,
    h.L, h.deg, h.sint, rfl, h.ipLen, h.ipNbr, h.shape⟩

theorem CtlEq.withBuf {s₁ : AState ρ σ₁} {s₂ : AState ρ σ₂} (h : CtlEq s₁ s₂)
    (b₁ : Array (Array σ₁)) (b₂ : Array (Array σ₂)) (hb : bufShape b₁ = bufShape b₂) (f₁ f₂ : Nat)
    (hf : f₁ = f₂) :
    CtlEq { s₁ with buf := b₁, fill := f₁ } { s₂ with buf := b₂, fill := f₂ } :=
  ⟨h.kind, h.nch, h.chunk, h.maxChunk, h.needed, hf, h.lastIndex, h.ratio, h.orig, h.target, h.maxRel,
    h.L, h.deg, h.sint, h.mask, h.ipLen, h.ipNbr, hb⟩

/-- **C17, one call**: related states and arguments of the same shape give related states and
outcomes of the same shape (same error / same panic site / same counts, `stale`, channel pattern). -/
theorem process_ctlEq {s₁ : AState ρ σ₁} {s₂ : AState ρ σ₂} {a₁ : CallArgs σ₁} {a₂ : CallArgs σ₂}
    (h : CtlEq s₁ s₂) (ha : ArgsEq a₁ a₂) :
    CtlEq (s₁.process a₁).1 (s₂.process a₂).1 ∧ OutEq (s₁.process a₁).2 (s₂.process a₂).2 := by
  obtain ⟨hin, hout, hmask⟩ := ha
  have e1 : updateMask s₁.nch a₁.mask = updateMask s₂.nch a₂.mask := by rw [h.nch, hmask]
  cases hm : updateMask s₂.nch a₂.mask with
  | error e =>
    rw [hm] at e1
    simp only [AState.process, hm, e1]
    exact ⟨h, rfl⟩
  | ok mask =>
    rw [hm] at e1
    have hM := h.withMask mask
    have e2 : validateBuffers (a₁.input.map Array.size) a₁.outLens mask s₁.nch
          (AState.minIn { s₁ with mask := mask }) (AState.minOut { s₁ with mask := mask }) =
        validateBuffers (a₂.input.map Array.size) a₂.outLens mask s₂.nch
          (AState.minIn { s₂ with mask := mask }) (AState.minOut { s₂ with mask := mask }) := by
      rw [hin, hout, minIn_ctl hM, minOut_ctl hM, h.nch]
    cases hv : validateBuffers (a₂.input.map Array.size) a₂.outLens mask s₂.nch
        (AState.minIn { s₂ with mask := mask }) (AState.minOut { s₂ with mask := mask }) with
    | error e =>
      rw [hv] at e2
      simp only [AState.process, hm, e1, hv, e2]
      exact ⟨hM, rfl⟩
    | ok u =>
      rw [hv] at e2
      have hr : (refill { s₁ with mask := mask } mask a₁.input (AState.shiftFrom { s₁ with mask := mask })
            (AState.minIn { s₁ with mask := mask })).map bufShape =
          (refill { s₂ with mask := mask } mask a₂.input (AState.shiftFrom { s₂ with mask := mask })
            (AState.minIn { s₂ with mask := mask })).map bufShape := by
        rw [shiftFrom_ctl hM, minIn_ctl hM]
        exact refill_ctl (s₁ := { s₁ with mask := mask }) (s₂ := { s₂ with mask := mask }) h.L h.shape mask
          a₁.input a₂.input hin _ _
      cases h1 : refill { s₁ with mask := mask } mask a₁.input (AState.shiftFrom { s₁ with mask := mask })
          (AState.minIn { s₁ with mask := mask }) with
      | none =>
        cases h2 : refill { s₂ with mask := mask } mask a₂.input (AState.shiftFrom { s₂ with mask := mask })
            (AState.minIn { s₂ with mask := mask }) with
        | none =>
          simp only [AState.process, hm, e1, hv, e2, h1, h2]
          exact ⟨hM, rfl⟩
        | some b₂ => rw [h1, h2] at hr; simp at hr
      | some b₁ =>
        cases h2 : refill { s₂ with mask := mask } mask a₂.input (AState.shiftFrom { s₂ with mask := mask })
            (AState.minIn { s₂ with mask := mask }) with
        | none => rw [h1, h2] at hr; simp at hr
        | some b₂ =>
          rw [h1, h2] at hr
          simp only [Option.map_some, Option.some.injEq] at hr
          have hB := hM.withBuf b₁ b₂ hr _ _ (minIn_ctl hM)
          simp only [AState.process, hm, e1, hv, e2, h1, h2]
          have hk : s₁.kind.isFixedIn = s₂.kind.isFixedIn := by rw [h.kind]
          rw [hk, hout]
          cases hk2 : s₂.kind.isFixedIn with
          | true => simp only [if_true]; exact finishIn_ctl hB mask _
          | false => simp only [Bool.false_eq_true, if_false]; exact finishOut_ctl hB mask

/-! ### Constructors, getters, setters, reset -/

theorem bufShape_zeroBuf {σ : Type} [SNum ρ σ] (nch len : Nat) :
    bufShape (zeroBuf (ρ := ρ) (σ := σ) nch len) = List.replicate nch len := by
  simp [bufShape, zeroBuf]

theorem bufShape_zeroLike {σ : Type} [SNum ρ σ] (b : Array (Array σ)) :
    bufShape (zeroLike (ρ := ρ) b) = bufShape b := by
  simp [bufShape, zeroLike, Function.comp_def]

/-- result of a constructor up to the sample type -/
def InitEq : Except CErr (AState ρ σ₁) → Except CErr (AState ρ σ₂) → Prop
  | .ok s₁, .ok s₂ => CtlEq s₁ s₂
  | .error e₁, .error e₂ => e₁ = e₂
  | _, _ => False

/-- constructors with the same parameters and interpolators of the same dimensions give related
states, or fail with the same error -/
theorem init_ctlEq (kind : AKind) (ratio maxRel : ρ) (deg : Degree) (sint : SincInterp)
    (ip₁ : Interp σ₁) (ip₂ : Interp σ₂) (hl : ip₁.len = ip₂.len) (hn : ip₁.nbr = ip₂.nbr) (chunk nch : Nat) :
    InitEq (AState.init kind ratio maxRel deg sint ip₁ chunk nch)
           (AState.init kind ratio maxRel deg sint ip₂ chunk nch) := by
  unfold AState.init
  cases validateRatios ratio maxRel with
  | error e => exact rfl
  | ok u =>
    simp only [hl]
    cases kind.isFixedIn with
    | true =>
      simp only [if_true, InitEq]
      constructor <;> first | rfl | exact hl | exact hn | (simp only [bufShape_zeroBuf])
    | false =>
      simp only [Bool.false_eq_true, if_false, InitEq]
      constructor <;> first | rfl | exact hl | exact hn | (simp only [bufShape_zeroBuf])

/-- all five getters agree on related states -/
theorem getters_ctlEq {s₁ : AState ρ σ₁} {s₂ : AState ρ σ₂} (h : CtlEq s₁ s₂) :
    s₁.inputFramesNext = s₂.inputFramesNext ∧ s₁.inputFramesMax = s₂.inputFramesMax ∧
    s₁.outputFramesNext = s₂.outputFramesNext ∧ s₁.outputFramesMax = s₂.outputFramesMax ∧
    s₁.outputDelay = s₂.outputDelay := by
  unfold AState.inputFramesNext AState.inputFramesMax AState.outputFramesNext AState.outputFramesMax
    AState.outputDelay
  rw [h.kind, h.chunk, h.needed, h.maxChunk, h.orig, h.maxRel, h.L, h.ratio, h.target]
  exact ⟨rfl, rfl, rfl, rfl, rfl⟩

theorem setRatio_ctlEq {s₁ : AState ρ σ₁} {s₂ : AState ρ σ₂} (h : CtlEq s₁ s₂) (new : ρ) (ramp : Bool) :
    CtlEq (s₁.setRatio new ramp).1 (s₂.setRatio new ramp).1 ∧
    (s₁.setRatio new ramp).2 = (s₂.setRatio new ramp).2 := by
  unfold AState.setRatio
  rw [h.orig, h.maxRel]
  cases ratioInRange new s₂.orig s₂.maxRel with
  | false => exact ⟨h, rfl⟩
  | true =>
    simp only [if_true]
    rw [h.kind, h.ratio, h.lastIndex, h.chunk, h.L]
    cases s₂.kind <;> exact ⟨by ctl_fields h, rfl⟩

theorem setRatioRelative_ctlEq {s₁ : AState ρ σ₁} {s₂ : AState ρ σ₂} (h : CtlEq s₁ s₂) (rel : ρ) (ramp : Bool) :
    CtlEq (s₁.setRatioRelative rel ramp).1 (s₂.setRatioRelative rel ramp).1 ∧
    (s₁.setRatioRelative rel ramp).2 = (s₂.setRatioRelative rel ramp).2 := by
  unfold AState.setRatioRelative
  rw [h.orig]
  exact setRatio_ctlEq h _ ramp

theorem setChunk_ctlEq {s₁ : AState ρ σ₁} {s₂ : AState ρ σ₂} (h : CtlEq s₁ s₂) (n : Nat) :
    CtlEq (s₁.setChunk n).1 (s₂.setChunk n).1 ∧ (s₁.setChunk n).2 = (s₂.setChunk n).2 := by
  unfold AState.setChunk
  rw [h.kind, h.maxChunk, h.lastIndex, h.ratio, h.target, h.L]
  cases s₂.kind with
  | fastIn => exact ⟨h, rfl⟩
  | fastOut => exact ⟨h, rfl⟩
  | sincIn =>
    simp only []
    cases (decide (n > s₂.maxChunk) || n == 0) with
    | true => exact ⟨h, rfl⟩
    | false => exact ⟨by ctl_fields h, rfl⟩
  | sincOut =>
    simp only []
    cases (decide (n > s₂.maxChunk) || n == 0) with
    | true => exact ⟨h, rfl⟩
    | false => exact ⟨by ctl_fields h, rfl⟩

theorem reset_ctlEq {s₁ : AState ρ σ₁} {s₂ : AState ρ σ₂} (h : CtlEq s₁ s₂) : CtlEq s₁.reset s₂.reset := by
  unfold AState.reset
  simp only []
  rw [h.kind, h.L, h.orig, h.nch, h.maxChunk, h.chunk]
  cases s₂.kind <;>
    (constructor <;> first
      | rfl | exact h.kind | exact h.nch | exact h.chunk | exact h.maxChunk | exact h.needed | exact h.fill
      | exact h.orig | exact h.maxRel | exact h.L | exact h.deg | exact h.sint | exact h.ipLen | exact h.ipNbr
      | (simp only [bufShape_zeroLike]; exact h.shape))

/-! ### Histories of any length -/

/-- two operations of the same shape: same kind of operation, equal control arguments,
`ArgsEq` for processing calls -/
def OpEq : AOp ρ σ₁ → AOp ρ σ₂ → Prop
  | .proc a₁, .proc a₂ => ArgsEq a₁ a₂
  | .ratio r₁ b₁, .ratio r₂ b₂ => r₁ = r₂ ∧ b₁ = b₂
  | .rel r₁ b₁, .rel r₂ b₂ => r₁ = r₂ ∧ b₁ = b₂
  | .chunk n₁, .chunk n₂ => n₁ = n₂
  | .reset, .reset => True
  | _, _ => False

/-- histories related pointwise -/
inductive OpsEq : List (AOp ρ σ₁) → List (AOp ρ σ₂) → Prop
  | nil : OpsEq [] []
  | cons {o₁ o₂ l₁ l₂} : OpEq o₁ o₂ → OpsEq l₁ l₂ → OpsEq (o₁ :: l₁) (o₂ :: l₂)

theorem step_ctlEq {s₁ : AState ρ σ₁} {s₂ : AState ρ σ₂} (h : CtlEq s₁ s₂) {o₁ : AOp ρ σ₁} {o₂ : AOp ρ σ₂}
    (ho : OpEq o₁ o₂) : CtlEq (s₁.step o₁) (s₂.step o₂) := by
  cases o₁ <;> cases o₂ <;> simp only [OpEq] at ho
  · exact (process_ctlEq h ho).1
  · obtain ⟨rfl, rfl⟩ := ho; exact (setRatio_ctlEq h _ _).1
  · obtain ⟨rfl, rfl⟩ := ho; exact (setRatioRelative_ctlEq h _ _).1
  · subst ho; exact (setChunk_ctlEq h _).1
  · exact reset_ctlEq h

/-- **C17, histories**: related states driven by histories of the same shape stay related
(no bound on the length). -/
theorem run_ctlEq {ops₁ : List (AOp ρ σ₁)} {ops₂ : List (AOp ρ σ₂)} (ho : OpsEq ops₁ ops₂) :
    ∀ {s₁ : AState ρ σ₁} {s₂ : AState ρ σ₂}, CtlEq s₁ s₂ → CtlEq (s₁.run ops₁) (s₂.run ops₂) := by
  induction ho with
  | nil => intro s₁ s₂ h; exact h
  | cons h1 _ ih =>
    intro s₁ s₂ h
    simp only [AState.run, List.foldl_cons]
    exact ih (step_ctlEq h h1)

/-! ### What a caller observes along a history -/

/-- sample-free shape of a successful call -/
structure OutSh where
  nIn : Nat
  nOut : Nat
  stale : Bool
  sizes : List (Option Nat)

/-- sample-free shape of an outcome -/
def outShape {σ : Type} : Outcome (CallOut σ) → Outcome OutSh
  | .ok o => .ok ⟨o.nIn, o.nOut, o.stale, outSizes o.out⟩
  | .err e => .err e
  | .panic m => .panic m
  | .abort m => .abort m

theorem outEq_iff (o₁ : Outcome (CallOut σ₁)) (o₂ : Outcome (CallOut σ₂)) :
    OutEq o₁ o₂ ↔ outShape o₁ = outShape o₂ := by
  cases o₁ <;> cases o₂ <;> simp [OutEq, outShape]

/-- what the caller sees of one operation: its result (shape only for a processing call), and the
two `*_frames_next` getters afterwards -/
structure Obs where
  res : Outcome OutSh ⊕ Except RErr Unit
  inNext : Nat
  outNext : Nat

def stepRes {σ : Type} [SNum ρ σ] (s : AState ρ σ) : AOp ρ σ → Outcome OutSh ⊕ Except RErr Unit
  | .proc a => .inl (outShape (s.process a).2)
  | .ratio r ramp => .inr (s.setRatio r ramp).2
  | .rel r ramp => .inr (s.setRatioRelative r ramp).2
  | .chunk n => .inr (s.setChunk n).2
  | .reset => .inr (.ok ())

/-- the observations along a history -/
def obsTrace {σ : Type} [SNum ρ σ] (s : AState ρ σ) : List (AOp ρ σ) → List Obs
  | [] => []
  | op :: ops =>
    ⟨stepRes s op, (s.step op).inputFramesNext, (s.step op).outputFramesNext⟩ :: obsTrace (s.step op) ops

theorem stepRes_ctlEq {s₁ : AState ρ σ₁} {s₂ : AState ρ σ₂} (h : CtlEq s₁ s₂) {o₁ : AOp ρ σ₁} {o₂ : AOp ρ σ₂}
    (ho : OpEq o₁ o₂) : stepRes s₁ o₁ = stepRes s₂ o₂ := by
  cases o₁ <;> cases o₂ <;> simp only [OpEq] at ho
  · simp only [stepRes]; rw [(outEq_iff _ _).1 (process_ctlEq h ho).2]
  · obtain ⟨rfl, rfl⟩ := ho; simp only [stepRes]; rw [(setRatio_ctlEq h _ _).2]
  · obtain ⟨rfl, rfl⟩ := ho; simp only [stepRes]; rw [(setRatioRelative_ctlEq h _ _).2]
  · subst ho; simp only [stepRes]; rw [(setChunk_ctlEq h _).2]
  · rfl

/-- **C17 as the caller sees it**: identical sequences of results (errors, panics, frame counts,
`stale`, sizes written per channel) and of `input_frames_next` / `output_frames_next`. -/
theorem trace_eq {ops₁ : List (AOp ρ σ₁)} {ops₂ : List (AOp ρ σ₂)} (ho : OpsEq ops₁ ops₂) :
    ∀ {s₁ : AState ρ σ₁} {s₂ : AState ρ σ₂}, CtlEq s₁ s₂ → obsTrace s₁ ops₁ = obsTrace s₂ ops₂ := by
  induction ho with
  | nil => intro s₁ s₂ h; rfl
  | cons h1 _ ih =>
    intro s₁ s₂ h
    have hs := step_ctlEq h h1
    have hg := getters_ctlEq hs
    simp only [obsTrace]
    rw [stepRes_ctlEq h h1, hg.1, hg.2.2.1, ih hs]

/-- the same, from construction: two resamplers built with the same parameters -/
theorem trace_eq_from_init (kind : AKind) (ratio maxRel : ρ) (deg : Degree) (sint : SincInterp)
    (ip₁ : Interp σ₁) (ip₂ : Interp σ₂) (hl : ip₁.len = ip₂.len) (hn : ip₁.nbr = ip₂.nbr) (chunk nch : Nat)
    (s₁ : AState ρ σ₁) (s₂ : AState ρ σ₂)
    (h₁ : AState.init kind ratio maxRel deg sint ip₁ chunk nch = .ok s₁)
    (h₂ : AState.init kind ratio maxRel deg sint ip₂ chunk nch = .ok s₂)
    {ops₁ : List (AOp ρ σ₁)} {ops₂ : List (AOp ρ σ₂)} (ho : OpsEq ops₁ ops₂) :
    obsTrace s₁ ops₁ = obsTrace s₂ ops₂ ∧ CtlEq (s₁.run ops₁) (s₂.run ops₂) := by
  have h := init_ctlEq kind ratio maxRel deg sint ip₁ ip₂ hl hn chunk nch
  rw [h₁, h₂] at h
  exact ⟨trace_eq ho h, run_ctlEq ho h⟩

end Rubato.Indep
