/-
C11 — channels are independent.

Each channel's output (and new history buffer) of an n-channel asynchronous resampler is a function of
the shared control state, that channel's buffer and that channel's input only: it is what a
single-channel resampler with the same parameters produces (`process_channel`).  With an
active-channel mask, inactive channels are not written, their input is never looked at
(`inactive_untouched`), and the active channels' outputs, the returned counts and the control state
are what they are without a mask (`mask_does_not_change_active_outputs`).

[law-free]: proved for every instance of `RNum ρ` / `SNum ρ σ`, hence true of IEEE arithmetic.
-/
import RubatoProofs.Lemmas.Shape
import RubatoProofs.Props.C13
import RubatoModel.Fft
import RubatoProofs.Indep.SampleType

set_option linter.unusedSectionVars false
set_option linter.unusedVariables false

namespace Rubato.Indep
open Rubato

variable {ρ σ : Type} [RNum ρ] [SNum ρ σ]

/-! ### Projections on one channel -/

/-- the single-channel resampler that holds channel `i` of `s` -/
def chan (i : Nat) (s : AState ρ σ) : AState ρ σ :=
  { s with nch := 1, buf := #[s.buf.getD i #[]], mask := [s.mask.getD i true] }

/-- channel `i` of the arguments of a call -/
def chanArgs (i : Nat) (a : CallArgs σ) : CallArgs σ :=
  { input := [a.input.getD i #[]], outLens := [a.outLens.getD i 0],
    mask := a.mask.map fun m => [m.getD i true] }

/-! ### Array helpers -/

theorem getD_setIfInBounds (acc : Array (Array σ)) (k j : Nat) (v : Array σ) :
    (acc.setIfInBounds k v).getD j #[] = if j = k ∧ k < acc.size then v else acc.getD j #[] := by
  simp only [Array.getD_eq_getD_getElem?, Array.getElem?_setIfInBounds]
  by_cases h : k = j
  · subst h; by_cases h2 : k < acc.size <;> simp [h2]
  · have : ¬ j = k := fun e => h e.symm
    simp [h, this]

theorem getD_map_of_lt (b : Array (Array σ)) (f : Array σ → Array σ) (j : Nat) (hj : j < b.size) :
    (b.map f).getD j #[] = f (b.getD j #[]) := by
  simp [Array.getD, hj]

/-! ### `refill` acts channel by channel -/

/-- what `refill` does to ONE (already shifted) channel buffer `b` with input `inp` -/
def refillChan (twoL loadN : Nat) (m : Bool) (b inp : Array σ) : Option (Array σ) :=
  if m then
    if twoL + loadN > b.size || loadN > inp.size then none
    else some (loadAt b twoL (inp.extract 0 loadN))
  else some b

theorem refill_go_spec (loadN twoL : Nat) :
    ∀ (ms : List Bool) (ins : List (Array σ)) (k : Nat) (acc r : Array (Array σ)),
      refill.go loadN twoL k ms ins acc = some r →
      r.size = acc.size ∧
      (∀ j, j < k → r.getD j #[] = acc.getD j #[]) ∧
      (∀ j m inp, ms[j]? = some m → ins[j]? = some inp → k + j < acc.size →
        refillChan twoL loadN m (acc.getD (k + j) #[]) inp = some (r.getD (k + j) #[])) := by
  intro ms
  induction ms with
  | nil =>
    intro ins k acc r h
    simp only [refill.go, Option.some.injEq] at h
    subst h
    exact ⟨rfl, fun _ _ => rfl, fun j m inp h1 => by simp at h1⟩
  | cons m ms ih =>
    intro ins k acc r h
    cases ins with
    | nil =>
      simp only [refill.go, Option.some.injEq] at h
      subst h
      exact ⟨rfl, fun _ _ => rfl, fun j m inp _ h2 => by simp at h2⟩
    | cons inp ins' =>
      cases m with
      | false =>
        simp only [refill.go, Bool.false_eq_true, if_false] at h
        obtain ⟨h1, h2, h3⟩ := ih ins' (k + 1) acc r h
        refine ⟨h1, fun j hj => h2 j (by omega), ?_⟩
        intro j m' inp' hm hi hlt
        cases j with
        | zero =>
          simp only [List.getElem?_cons_zero, Option.some.injEq] at hm hi
          subst hm hi
          simp only [refillChan, Bool.false_eq_true, if_false, Nat.add_zero, Option.some.injEq]
          exact (h2 k (by omega)).symm
        | succ j =>
          have := h3 j m' inp' (by simpa using hm) (by simpa using hi) (by omega)
          have e : k + (j + 1) = k + 1 + j := by omega
          rw [e]; exact this
      | true =>
        simp only [refill.go, if_true] at h
        split at h
        · simp at h
        · next hc =>
          obtain ⟨h1, h2, h3⟩ := ih ins' (k + 1) _ r h
          refine ⟨by rw [h1]; simp, ?_, ?_⟩
          · intro j hj
            rw [h2 j (by omega), getD_setIfInBounds]
            have : ¬ (j = k ∧ k < acc.size) := by omega
            simp only [this, if_false]
          · intro j m' inp' hm hi hlt
            cases j with
            | zero =>
              simp only [List.getElem?_cons_zero, Option.some.injEq] at hm hi
              subst hm hi
              simp only [Nat.add_zero] at hlt ⊢
              rw [h2 k (by omega), getD_setIfInBounds]
              simp only [refillChan, if_true, hc, hlt, and_self, Bool.false_eq_true, if_false]
            | succ j =>
              have := h3 j m' inp' (by simpa using hm) (by simpa using hi) (by simpa using (by omega : k + 1 + j < acc.size))
              have e : k + (j + 1) = k + 1 + j := by omega
              rw [e, ← this, getD_setIfInBounds]
              have : ¬ (k + 1 + j = k ∧ k < acc.size) := by omega
              simp only [this, if_false]

/-- **`refill`, channel-wise**: channel `j` of the result is `copyWithin` (the history shift) of
channel `j`, followed — only if the channel is active — by loading `input[j][0..n]` at offset `2·L`. -/
theorem refill_spec {s : AState ρ σ} {mask : List Bool} {input : List (Array σ)} {shiftFrom loadN : Nat}
    {r : Array (Array σ)} (h : refill s mask input shiftFrom loadN = some r) :
    r.size = s.buf.size ∧
    (∀ j, j < s.buf.size → shiftFrom + 2 * s.L ≤ (s.buf.getD j #[]).size) ∧
    (∀ j m inp, mask[j]? = some m → input[j]? = some inp → j < s.buf.size →
      refillChan (2 * s.L) loadN m (copyWithin (s.buf.getD j #[]) shiftFrom (2 * s.L)) inp
        = some (r.getD j #[])) := by
  unfold refill at h
  simp only [] at h
  split at h
  · simp at h
  · next hc =>
    obtain ⟨h1, _, h3⟩ := refill_go_spec loadN (2 * s.L) mask input 0 _ r h
    simp only [Array.size_map] at h1 h3
    refine ⟨h1, ?_, ?_⟩
    · intro j hj
      simp only [Array.any_eq_true, decide_eq_true_eq, not_exists, Nat.not_lt] at hc
      have := hc j hj
      simpa [Array.getD, hj] using this
    · intro j m inp hm hi hj
      have := h3 j m inp hm hi (by simpa using hj)
      simp only [Nat.zero_add] at this
      rw [getD_map_of_lt _ _ _ hj] at this
      exact this

/-- inputs of inactive channels are never indexed by `refill` -/
theorem refill_go_congr (loadN twoL : Nat) :
    ∀ (ms : List Bool) (ins ins' : List (Array σ)) (k : Nat) (acc : Array (Array σ)),
      ins.length = ins'.length → (∀ j : Nat, ms[j]? = some true → ins[j]? = ins'[j]?) →
      refill.go loadN twoL k ms ins acc = refill.go loadN twoL k ms ins' acc := by
  intro ms
  induction ms with
  | nil => intro ins ins' k acc _ _; simp [refill.go]
  | cons m ms ih =>
    intro ins ins' k acc hl h
    cases ins with
    | nil =>
      cases ins' with
      | nil => rfl
      | cons _ _ => simp at hl
    | cons inp ins1 =>
      cases ins' with
      | nil => simp at hl
      | cons inp' ins1' =>
        have hl' : ins1.length = ins1'.length := by simpa using hl
        have h' : ∀ j : Nat, ms[j]? = some true → ins1[j]? = ins1'[j]? := fun j hj => by
          have := h (j + 1) (by simpa using hj)
          simpa using this
        cases m with
        | false =>
          simp only [refill.go, Bool.false_eq_true, if_false]
          exact ih ins1 ins1' (k + 1) acc hl' h'
        | true =>
          have e : inp = inp' := by
            have := h 0 (by simp)
            simpa using this
          subst e
          simp only [refill.go, if_true]
          split
          · rfl
          · exact ih ins1 ins1' (k + 1) _ hl' h'

theorem refill_congr (s : AState ρ σ) (mask : List Bool) (ins ins' : List (Array σ)) (shiftFrom loadN : Nat)
    (hl : ins.length = ins'.length) (h : ∀ j : Nat, mask[j]? = some true → ins[j]? = ins'[j]?) :
    refill s mask ins shiftFrom loadN = refill s mask ins' shiftFrom loadN := by
  unfold refill
  simp only []
  split
  · rfl
  · exact refill_go_congr loadN _ mask ins ins' 0 _ hl h

/-! ### `evalChannels` acts channel by channel -/

/-- the output of ONE channel: evaluated from its own buffer only, or not written -/
def chanOut (s : AState ρ σ) (b : Array σ) (ps : List ρ) (m : Bool) : Option (Array σ) :=
  if m then some (ps.toArray.map (posValue s b)) else none

theorem evalChannels_go_spec (s : AState ρ σ) (buf : Array (Array σ)) (ps : List ρ) :
    ∀ (ms : List Bool) (k : Nat) (acc r : List (Option (Array σ))),
      evalChannels.go s buf ps k ms acc = .ok r →
      ∃ tail, r = acc.reverse ++ tail ∧ tail.length = ms.length ∧
        ∀ j m, ms[j]? = some m →
          tail[j]? = some (chanOut s (buf.getD (k + j) #[]) ps m) ∧
          (m = true → ps.findSome? (posFault s (buf.getD (k + j) #[]).size) = none) := by
  intro ms
  induction ms with
  | nil =>
    intro k acc r h
    simp only [evalChannels.go, Except.ok.injEq] at h
    exact ⟨[], by simp [h], rfl, fun j m hm => by simp at hm⟩
  | cons m ms ih =>
    intro k acc r h
    cases m with
    | false =>
      simp only [evalChannels.go, Bool.false_eq_true, if_false] at h
      obtain ⟨tail, h1, h2, h3⟩ := ih (k + 1) _ r h
      refine ⟨none :: tail, by simp [h1], by simp [h2], ?_⟩
      intro j m' hm
      cases j with
      | zero =>
        simp only [List.getElem?_cons_zero, Option.some.injEq] at hm
        subst hm
        simp [chanOut]
      | succ j =>
        have := h3 j m' (by simpa using hm)
        have e : k + (j + 1) = k + 1 + j := by omega
        rw [e]; simpa using this
    | true =>
      simp only [evalChannels.go, if_true] at h
      split at h
      · simp at h
      · next hf =>
        obtain ⟨tail, h1, h2, h3⟩ := ih (k + 1) _ r h
        refine ⟨some (ps.toArray.map (posValue s (buf.getD k #[]))) :: tail, by simp [h1], by simp [h2], ?_⟩
        intro j m' hm
        cases j with
        | zero =>
          simp only [List.getElem?_cons_zero, Option.some.injEq] at hm
          subst hm
          simp only [Nat.add_zero, List.getElem?_cons_zero, chanOut, if_true, true_and]
          intro _; exact hf
        | succ j =>
          have := h3 j m' (by simpa using hm)
          have e : k + (j + 1) = k + 1 + j := by omega
          rw [e]; simpa using this

/-- **`evalChannels`, channel-wise**: on success channel `j` of the output is `some` of the positions
evaluated on buffer `j` alone if the channel is active, `none` otherwise; the range test of channel `j`
depends only on the LENGTH of buffer `j`. -/
theorem evalChannels_spec {s : AState ρ σ} {buf : Array (Array σ)} {mask : List Bool} {ps : List ρ}
    {r : List (Option (Array σ))} (h : evalChannels s buf mask ps = .ok r) :
    r.length = mask.length ∧
    ∀ j m, mask[j]? = some m →
      r[j]? = some (chanOut s (buf.getD j #[]) ps m) ∧
      (m = true → ps.findSome? (posFault s (buf.getD j #[]).size) = none) := by
  unfold evalChannels at h
  obtain ⟨tail, h1, h2, h3⟩ := evalChannels_go_spec s buf ps mask 0 [] r h
  simp only [List.reverse_nil, List.nil_append] at h1
  subst h1
  refine ⟨h2, fun j m hm => ?_⟩
  have := h3 j m hm
  simpa using this

/-- a single active channel, computed -/
theorem evalChannels_single (s : AState ρ σ) (b : Array σ) (ps : List ρ) :
    evalChannels s #[b] [true] ps =
      match ps.findSome? (posFault s b.size) with
      | some f => .error f
      | none => .ok [some (ps.toArray.map (posValue s b))] := by
  simp only [evalChannels, evalChannels.go, if_true]
  have : (#[b] : Array (Array σ)).getD 0 #[] = b := by simp
  rw [this]
  cases ps.findSome? (posFault s b.size) <;> rfl

/-- `evalChannels` depends on the state only through the two per-position functions -/
theorem evalChannels_go_congr {s t : AState ρ σ} (hF : posFault s = posFault t) (hV : posValue s = posValue t)
    (buf : Array (Array σ)) (ps : List ρ) :
    ∀ (ms : List Bool) (k : Nat) (acc : List (Option (Array σ))),
      evalChannels.go s buf ps k ms acc = evalChannels.go t buf ps k ms acc := by
  intro ms
  induction ms with
  | nil => intro k acc; rfl
  | cons m ms ih =>
    intro k acc
    cases m with
    | false => simp only [evalChannels.go, Bool.false_eq_true, if_false]; exact ih _ _
    | true =>
      simp only [evalChannels.go, if_true, hF, hV]
      split
      · rfl
      · exact ih _ _

theorem evalChannels_congr {s t : AState ρ σ} (hF : posFault s = posFault t) (hV : posValue s = posValue t)
    (buf : Array (Array σ)) (mask : List Bool) (ps : List ρ) :
    evalChannels s buf mask ps = evalChannels t buf mask ps :=
  evalChannels_go_congr hF hV buf ps mask 0 []

/-! ### The stepping loop and the room in the output buffers -/

/-- once the fixed-input loop has ended by itself, more room changes nothing -/
theorem stepsIn_fuel_mono (inc e : ρ) :
    ∀ (n m : Nat) (t idx : ρ), (stepsIn inc e n t idx).2.2 = false → n ≤ m →
      stepsIn inc e m t idx = stepsIn inc e n t idx := by
  intro n
  induction n with
  | zero =>
    intro m t idx h _
    simp only [stepsIn] at h
    cases m with
    | zero => rfl
    | succ m => simp only [stepsIn, h, Bool.false_eq_true, if_false]
  | succ n ih =>
    intro m t idx h hle
    cases m with
    | zero => omega
    | succ m =>
      simp only [stepsIn] at h ⊢
      cases hlt : RNum.lt idx e with
      | false => simp only [Bool.false_eq_true, if_false]
      | true =>
        simp only [hlt, if_true] at h ⊢
        rw [ih m _ _ h (by omega)]

/-- two amounts of room under which the loop ends by itself give the same positions -/
theorem stepsIn_fuel_irrel (inc e : ρ) (n m : Nat) (t idx : ρ)
    (hn : (stepsIn inc e n t idx).2.2 = false) (hm : (stepsIn inc e m t idx).2.2 = false) :
    stepsIn inc e n t idx = stepsIn inc e m t idx := by
  by_cases h : n ≤ m
  · exact (stepsIn_fuel_mono inc e n m t idx hn h).symm
  · exact stepsIn_fuel_mono inc e m n t idx hm (by omega)

def minStep (acc : Option Nat) (p : Nat × Bool) : Option Nat :=
  if p.2 then (match acc with | none => some p.1 | some a => some (min a p.1)) else acc

theorem minActiveLen_eq (outLens : List Nat) (mask : List Bool) :
    minActiveLen outLens mask = (List.zip outLens mask).foldl minStep none := rfl

theorem foldl_minStep_some (l : List (Nat × Bool)) :
    ∀ (a : Nat), ∃ n, l.foldl minStep (some a) = some n ∧ n ≤ a ∧
      ∀ p, p ∈ l → p.2 = true → n ≤ p.1 := by
  induction l with
  | nil => intro a; exact ⟨a, rfl, Nat.le_refl _, fun p hp => by simp at hp⟩
  | cons q l ih =>
    intro a
    simp only [List.foldl_cons]
    cases hq : q.2 with
    | false =>
      simp only [minStep, hq, Bool.false_eq_true, if_false]
      obtain ⟨n, h1, h2, h3⟩ := ih a
      refine ⟨n, h1, h2, fun p hp hp2 => ?_⟩
      rcases List.mem_cons.1 hp with rfl | hp
      · rw [hq] at hp2; simp at hp2
      · exact h3 p hp hp2
    | true =>
      simp only [minStep, hq, if_true]
      obtain ⟨n, h1, h2, h3⟩ := ih (min a q.1)
      refine ⟨n, h1, by omega, fun p hp hp2 => ?_⟩
      rcases List.mem_cons.1 hp with rfl | hp
      · omega
      · exact h3 p hp hp2

theorem foldl_minStep_none (l : List (Nat × Bool)) (p : Nat × Bool) (hp : p ∈ l) (hp2 : p.2 = true) :
    ∃ n, l.foldl minStep none = some n ∧ n ≤ p.1 := by
  induction l with
  | nil => simp at hp
  | cons q l ih =>
    simp only [List.foldl_cons]
    cases hq : q.2 with
    | false =>
      simp only [minStep, hq, Bool.false_eq_true, if_false]
      rcases List.mem_cons.1 hp with rfl | hp
      · rw [hq] at hp2; simp at hp2
      · exact ih hp
    | true =>
      simp only [minStep, hq, if_true]
      obtain ⟨n, h1, h2, h3⟩ := foldl_minStep_some l q.1
      refine ⟨n, h1, ?_⟩
      rcases List.mem_cons.1 hp with rfl | hp
      · exact h2
      · exact h3 p hp hp2

/-- the room of the call is at most the room of any active channel -/
theorem minActiveLen_le {outLens : List Nat} {mask : List Bool} {i l : Nat}
    (hl : outLens[i]? = some l) (hm : mask[i]? = some true) :
    ∃ n, minActiveLen outLens mask = some n ∧ n ≤ l := by
  rw [minActiveLen_eq]
  apply foldl_minStep_none _ (l, true) _ rfl
  rw [List.mem_iff_getElem?]
  exact ⟨i, by simp [List.getElem?_zip_eq_some, hl, hm]⟩

/-! ### `process_into_buffer` cut into its stages -/

/-- the mask a call works with -/
def effMask (nch : Nat) (um : Option (List Bool)) : List Bool :=
  match um with
  | none => List.replicate nch true
  | some m => m

theorem updateMask_ok {nch : Nat} {um : Option (List Bool)} {mask : List Bool}
    (h : updateMask nch um = .ok mask) : mask = effMask nch um ∧ mask.length = nch := by
  cases um with
  | none =>
    simp only [updateMask, Except.ok.injEq] at h
    subst h; simp [effMask]
  | some m =>
    simp only [updateMask] at h
    split at h
    · simp at h
    · next hl =>
      simp only [Except.ok.injEq] at h
      subst h
      exact ⟨rfl, by simpa using hl⟩

/-- room in the output buffers of a fixed-input call -/
def fuelOf (outLens : List Nat) (mask : List Bool) : Nat :=
  match minActiveLen outLens mask with
  | some n => n
  | none => idleFuel

/-- the state handed to the second half of a call -/
def refilledState (s : AState ρ σ) (mask : List Bool) (buf : Array (Array σ)) : AState ρ σ :=
  { s with mask := mask, buf := buf, fill := s.minIn }

/-- the second half of a call -/
def finishCall (s : AState ρ σ) (mask : List Bool) (outLens : List Nat) : AState ρ σ × Outcome (CallOut σ) :=
  if s.kind.isFixedIn then s.finishIn mask (fuelOf outLens mask) else s.finishOut mask

theorem process_of_stages {s : AState ρ σ} {a : CallArgs σ} {mask : List Bool} {buf : Array (Array σ)}
    (hm : updateMask s.nch a.mask = .ok mask)
    (hv : validateBuffers (a.input.map Array.size) a.outLens mask s.nch s.minIn s.minOut = .ok ())
    (hr : refill { s with mask := mask } mask a.input s.shiftFrom s.minIn = some buf) :
    s.process a = finishCall (refilledState s mask buf) mask a.outLens := by
  have hv' : validateBuffers (a.input.map Array.size) a.outLens mask s.nch
      (AState.minIn { s with mask := mask }) (AState.minOut { s with mask := mask }) = .ok () := hv
  have hr' : refill { s with mask := mask } mask a.input (AState.shiftFrom { s with mask := mask })
      (AState.minIn { s with mask := mask }) = some buf := hr
  simp only [AState.process, hm, hv', hr']
  rfl

theorem faultOutcome_ne_ok {α : Type} (f : Outcome Unit) (x : α) : (faultOutcome f : Outcome α) ≠ .ok x := by
  unfold faultOutcome; split <;> simp

theorem process_ok_stages {s s' : AState ρ σ} {a : CallArgs σ} {out : CallOut σ}
    (h : s.process a = (s', .ok out)) :
    ∃ mask buf, updateMask s.nch a.mask = .ok mask ∧
      validateBuffers (a.input.map Array.size) a.outLens mask s.nch s.minIn s.minOut = .ok () ∧
      refill { s with mask := mask } mask a.input s.shiftFrom s.minIn = some buf ∧
      finishCall (refilledState s mask buf) mask a.outLens = (s', .ok out) := by
  cases h1 : updateMask s.nch a.mask with
  | error e => simp [AState.process, h1] at h
  | ok mask =>
    cases h2 : validateBuffers (a.input.map Array.size) a.outLens mask s.nch
        (AState.minIn { s with mask := mask }) (AState.minOut { s with mask := mask }) with
    | error e => simp [AState.process, h1, h2] at h
    | ok u =>
      cases h3 : refill { s with mask := mask } mask a.input (AState.shiftFrom { s with mask := mask })
          (AState.minIn { s with mask := mask }) with
      | none => simp [AState.process, h1, h2, h3] at h
      | some buf =>
        refine ⟨mask, buf, rfl, h2, h3, ?_⟩
        rw [← process_of_stages h1 h2 h3]
        exact h

/-! ### The second half of a call, in one shape for the four types -/

/-- evaluate, then commit the control update `upd` -/
def finishWith (s : AState ρ σ) (mask : List Bool) (ps : List ρ) (fillEnd : Int) (upd : AState ρ σ)
    (nIn nOut : Nat) : AState ρ σ × Outcome (CallOut σ) :=
  match evalChannels s s.buf mask ps with
  | .error f => (s, faultOutcome f)
  | .ok outs => (upd, .ok { nIn, nOut, out := outs, stale := ps.any fun p => decide (readEnd s p > fillEnd) })

/-- the stepping loop of a fixed-input call -/
def inSteps (s : AState ρ σ) (fuel : Nat) : List ρ × ρ × Bool :=
  stepsIn ((RNum.one / s.target - RNum.one / s.ratio) / (RNum.ofNat s.chunk * meanRatio s.ratio s.target))
    (RNum.ofInt ((s.chunk : Int) - ((s.L : Int) + 1) - RNum.toInt (RNum.ceil (RNum.one / s.target))))
    fuel (RNum.one / s.ratio) s.lastIndex

def overrun (s : AState ρ σ) (mask : List Bool) : Outcome (CallOut σ) :=
  if mask.any id then (if s.kind.isSinc then .panic "wave_out[n]" else .abort "get_unchecked_mut(n)")
  else .panic "position diverges"

theorem finishIn_eq (s : AState ρ σ) (mask : List Bool) (fuel : Nat) :
    s.finishIn mask fuel =
      if (inSteps s fuel).2.2 then (s, overrun s mask)
      else finishWith s mask (inSteps s fuel).1 (2 * (s.L : Int) + s.chunk)
        { s with lastIndex := (inSteps s fuel).2.1 - RNum.ofNat s.chunk, ratio := s.target }
        s.chunk (inSteps s fuel).1.length := rfl

/-- the control update of a fixed-output call -/
def outUpdate (s : AState ρ σ) : AState ρ σ :=
  let t0 : ρ := RNum.one / s.ratio
  let t1 : ρ := RNum.one / s.target
  let inc : ρ := (t1 - t0) / RNum.ofNat s.chunk
  let last := stepsOutLast inc s.chunk t0 s.lastIndex - RNum.ofNat s.fill
  { s with lastIndex := last, ratio := s.target,
           needed := match s.kind with
             | .fastOut => neededFastAfter last s.chunk s.target s.L
             | _ => neededSinc last s.chunk s.target s.target s.L }

def outSteps (s : AState ρ σ) : List ρ :=
  stepsOut ((RNum.one / s.target - RNum.one / s.ratio) / RNum.ofNat s.chunk) s.chunk (RNum.one / s.ratio) s.lastIndex

theorem finishOut_eq (s : AState ρ σ) (mask : List Bool) :
    s.finishOut mask =
      finishWith s mask (outSteps s) (2 * (s.L : Int) + s.fill) (outUpdate s) s.fill s.chunk := rfl

/-! ### One channel of the second half -/

theorem chan_posFault (i : Nat) (s : AState ρ σ) : posFault (chan i s) = posFault s := rfl
theorem chan_posValue (i : Nat) (s : AState ρ σ) : posValue (chan i s) = posValue s := rfl
theorem chan_readEnd (i : Nat) (s : AState ρ σ) : readEnd (chan i s) = readEnd s := rfl

theorem finishWith_ok {s s' upd : AState ρ σ} {mask : List Bool} {ps : List ρ} {fe : Int} {nIn nOut : Nat}
    {out : CallOut σ} (h : finishWith s mask ps fe upd nIn nOut = (s', .ok out)) :
    s' = upd ∧ evalChannels s s.buf mask ps = .ok out.out ∧ out.nIn = nIn ∧ out.nOut = nOut ∧
    out.stale = (ps.any fun p => decide (readEnd s p > fe)) := by
  unfold finishWith at h
  cases he : evalChannels s s.buf mask ps with
  | error f =>
    rw [he] at h
    simp only [Prod.mk.injEq] at h
    exact absurd h.2 (faultOutcome_ne_ok f out)
  | ok outs =>
    rw [he] at h
    simp only [Prod.mk.injEq, Outcome.ok.injEq] at h
    obtain ⟨h1, h2⟩ := h
    subst h2
    exact ⟨h1.symm, rfl, rfl, rfl, rfl⟩

/-- channel `i` of a successful evaluation is the single-channel evaluation -/
theorem finishWith_chan {s s' upd : AState ρ σ} {mask : List Bool} {ps : List ρ} {fe : Int} {nIn nOut : Nat}
    {out : CallOut σ} {i : Nat} (h : finishWith s mask ps fe upd nIn nOut = (s', .ok out))
    (hact : mask[i]? = some true) :
    finishWith (chan i s) [true] ps fe (chan i upd) nIn nOut =
      (chan i s', .ok { nIn := out.nIn, nOut := out.nOut, out := [out.out.getD i none], stale := out.stale }) ∧
    out.out[i]? = some (some (ps.toArray.map (posValue s (s.buf.getD i #[])))) := by
  obtain ⟨h1, h2, h3, h4, h5⟩ := finishWith_ok h
  obtain ⟨_, hsp⟩ := evalChannels_spec h2
  obtain ⟨ho, hf⟩ := hsp i true hact
  have hf := hf rfl
  simp only [chanOut, if_true] at ho
  refine ⟨?_, ho⟩
  unfold finishWith
  have e : evalChannels (chan i s) (chan i s).buf [true] ps =
      .ok [some (ps.toArray.map (posValue s (s.buf.getD i #[])))] := by
    rw [evalChannels_congr (chan_posFault i s) (chan_posValue i s)]
    show evalChannels s #[s.buf.getD i #[]] [true] ps = _
    rw [evalChannels_single, hf]
  rw [e]
  simp only [chan_readEnd]
  rw [h1, h3, h4, h5]
  simp only [List.getD_eq_getElem?_getD, ho, Option.getD_some]
  rfl

theorem chan_inSteps (i : Nat) (s : AState ρ σ) (fuel : Nat) : inSteps (chan i s) fuel = inSteps s fuel := rfl
theorem chan_outSteps (i : Nat) (s : AState ρ σ) : outSteps (chan i s) = outSteps s := rfl
theorem chan_outUpdate (i : Nat) (s : AState ρ σ) : outUpdate (chan i s) = chan i (outUpdate s) := rfl

/-- the second half of a call, channel `i` -/
theorem finishCall_chan {s s' : AState ρ σ} {mask : List Bool} {outLens : List Nat} {out : CallOut σ} {i l : Nat}
    (h : finishCall s mask outLens = (s', .ok out)) (hact : mask[i]? = some true)
    (hl : outLens[i]? = some l) :
    finishCall (chan i s) [true] [l] =
      (chan i s', .ok { nIn := out.nIn, nOut := out.nOut, out := [out.out.getD i none], stale := out.stale }) ∧
    ∃ ps : List ρ, out.out[i]? = some (some (ps.toArray.map (posValue s (s.buf.getD i #[])))) := by
  unfold finishCall at h ⊢
  show (if s.kind.isFixedIn = true then _ else _) = _ ∧ _
  cases hk : s.kind.isFixedIn with
  | true =>
    simp only [hk, if_true] at h ⊢
    rw [finishIn_eq] at h
    cases hr : (inSteps s (fuelOf outLens mask)).2.2 with
    | true =>
      simp only [hr, if_true, Prod.mk.injEq] at h
      exfalso
      have := h.2
      unfold overrun at this
      split at this <;> (try split at this) <;> simp at this
    | false =>
      simp only [hr, Bool.false_eq_true, if_false] at h
      have hfuel : fuelOf outLens mask ≤ fuelOf [l] [true] := by
        obtain ⟨n, hn1, hn2⟩ := minActiveLen_le hl hact
        simp only [fuelOf, hn1]
        simpa [minActiveLen] using hn2
      have hst : inSteps s (fuelOf [l] [true]) = inSteps s (fuelOf outLens mask) :=
        stepsIn_fuel_mono _ _ _ _ _ _ hr hfuel
      rw [finishIn_eq, chan_inSteps, hst]
      simp only [hr, Bool.false_eq_true, if_false]
      obtain ⟨h1, h2⟩ := finishWith_chan h hact
      exact ⟨h1, _, h2⟩
  | false =>
    simp only [hk, Bool.false_eq_true, if_false] at h ⊢
    rw [finishOut_eq] at h
    rw [finishOut_eq, chan_outSteps, chan_outUpdate]
    obtain ⟨h1, h2⟩ := finishWith_chan h hact
    exact ⟨h1, _, h2⟩

/-! ### One channel of a whole call -/

theorem refill_single (s : AState ρ σ) (b inp : Array σ) (shiftFrom n : Nat) (hb : s.buf = #[b]) :
    refill s [true] [inp] shiftFrom n =
      if shiftFrom + 2 * s.L > b.size then none
      else (refillChan (2 * s.L) n true (copyWithin b shiftFrom (2 * s.L)) inp).map fun x => #[x] := by
  unfold refill
  simp only [hb]
  have e1 : (#[b].any fun b => decide (shiftFrom + 2 * s.L > b.size)) = decide (shiftFrom + 2 * s.L > b.size) := by
    simp
  rw [e1]
  by_cases h : shiftFrom + 2 * s.L > b.size
  · simp [h]
  · simp only [h, decide_false, Bool.false_eq_true, if_false]
    have e2 : (#[b].map fun b => copyWithin b shiftFrom (2 * s.L)) = #[copyWithin b shiftFrom (2 * s.L)] := by simp
    rw [e2]
    simp only [refill.go, if_true, refillChan]
    have e3 : (#[copyWithin b shiftFrom (2 * s.L)] : Array (Array σ)).getD 0 #[] = copyWithin b shiftFrom (2 * s.L) := by simp
    rw [e3]
    split
    · rfl
    · simp

/-- what a valid call guarantees about an active channel -/
theorem valid_active {inLens outLens : List Nat} {mask : List Bool} {nch minIn minOut i : Nat}
    (hv : validateBuffers inLens outLens mask nch minIn minOut = .ok ()) (hact : mask[i]? = some true) :
    ∃ li lo, inLens[i]? = some li ∧ outLens[i]? = some lo ∧ minIn ≤ li ∧ minOut ≤ lo := by
  obtain ⟨h1, h2, h3, h4, h5⟩ := (C13.validate_ok_iff _ _ _ _ _ _).1 hv
  have hi : i < mask.length := by
    rcases List.getElem?_eq_some_iff.1 hact with ⟨hi, _⟩; exact hi
  have hi1 : i < inLens.length := by omega
  have hi2 : i < outLens.length := by omega
  refine ⟨inLens[i], outLens[i], List.getElem?_eq_getElem hi1, List.getElem?_eq_getElem hi2, ?_, ?_⟩
  · exact C13.firstShort_go_none inLens mask minIn 0 (by omega) h3 i _ (List.getElem?_eq_getElem hi1) hact
  · exact C13.firstShort_go_none outLens mask minOut 0 (by omega) h5 i _ (List.getElem?_eq_getElem hi2) hact

theorem validate_single {li lo minIn minOut : Nat} (h1 : minIn ≤ li) (h2 : minOut ≤ lo) :
    validateBuffers [li] [lo] [true] 1 minIn minOut = .ok () := by
  have e1 : ¬ li < minIn := by omega
  have e2 : ¬ lo < minOut := by omega
  simp [validateBuffers, firstShort, firstShort.go, e1, e2]

theorem updateMask_chan {nch : Nat} {um : Option (List Bool)} {mask : List Bool} {i : Nat}
    (h : updateMask nch um = .ok mask) (hact : mask[i]? = some true) :
    updateMask 1 (um.map fun m => [m.getD i true]) = .ok [true] := by
  cases um with
  | none => rfl
  | some m =>
    obtain ⟨h1, _⟩ := updateMask_ok h
    simp only [effMask] at h1
    subst h1
    simp [updateMask, List.getD_eq_getElem?_getD, hact]

/-- **C11, one call**: channel `i` of a successful n-channel call is the single-channel call on
(channel `i` of the state, channel `i` of the arguments). -/
theorem process_channel {s s' : AState ρ σ} {a : CallArgs σ} {out : CallOut σ} {i : Nat}
    (h : s.process a = (s', .ok out)) (hsz : s.buf.size = s.nch)
    (hact : (effMask s.nch a.mask)[i]? = some true) :
    (chan i s).process (chanArgs i a) =
      (chan i s', .ok { nIn := out.nIn, nOut := out.nOut, out := [out.out.getD i none], stale := out.stale }) ∧
    ∃ o, out.out[i]? = some (some o) := by
  obtain ⟨mask, buf, hm, hv, hr, hf⟩ := process_ok_stages h
  obtain ⟨hme, hml⟩ := updateMask_ok hm
  rw [← hme] at hact
  have hi : i < s.nch := by
    rcases List.getElem?_eq_some_iff.1 hact with ⟨hi, _⟩; omega
  obtain ⟨li, lo, hli, hlo, hmin, hmout⟩ := valid_active hv hact
  -- the input of channel `i`
  have hil : i < a.input.length := by
    rcases List.getElem?_eq_some_iff.1 hli with ⟨hi', _⟩; simpa using hi'
  have hinp : a.input[i]? = some a.input[i] := List.getElem?_eq_getElem hil
  have hgi : a.input.getD i #[] = a.input[i] := by simp [List.getD_eq_getElem?_getD, hinp]
  have hli' : li = a.input[i].size := by
    simp only [List.getElem?_map, hinp, Option.map_some, Option.some.injEq] at hli; exact hli.symm
  have hgo : a.outLens.getD i 0 = lo := by simp [List.getD_eq_getElem?_getD, hlo]
  -- stage 1: the mask
  have hm1 : updateMask (chan i s).nch (chanArgs i a).mask = .ok [true] := updateMask_chan hm hact
  -- stage 2: validation
  have hv1 : validateBuffers ((chanArgs i a).input.map Array.size) (chanArgs i a).outLens [true] (chan i s).nch
      (chan i s).minIn (chan i s).minOut = .ok () := by
    show validateBuffers ([a.input.getD i #[]].map Array.size) [a.outLens.getD i 0] [true] 1 s.minIn s.minOut = _
    rw [hgi, hgo]
    exact validate_single (by omega) hmout
  -- stage 3: refill
  obtain ⟨r1, r2, r3⟩ := refill_spec hr
  have r2 : ∀ j, j < s.buf.size → s.shiftFrom + 2 * s.L ≤ (s.buf.getD j #[]).size := r2
  have r3 : ∀ j m inp, mask[j]? = some m → a.input[j]? = some inp → j < s.buf.size →
      refillChan (2 * s.L) s.minIn m (copyWithin (s.buf.getD j #[]) s.shiftFrom (2 * s.L)) inp
        = some (buf.getD j #[]) := r3
  have hib : i < s.buf.size := by omega
  have hr3 := r3 i true a.input[i] hact hinp hib
  have hr2 := r2 i hib
  have hr1 : refill { chan i s with mask := [true] } [true] (chanArgs i a).input (chan i s).shiftFrom (chan i s).minIn
      = some #[buf.getD i #[]] := by
    show refill { chan i s with mask := [true] } [true] [a.input.getD i #[]] s.shiftFrom s.minIn = _
    rw [hgi, refill_single _ (s.buf.getD i #[]) _ _ _ rfl]
    show (if s.shiftFrom + 2 * s.L > (s.buf.getD i #[]).size then none else _) = _
    have : ¬ s.shiftFrom + 2 * s.L > (s.buf.getD i #[]).size := by omega
    simp only [this, if_false]
    show Option.map _ (refillChan (2 * s.L) s.minIn true (copyWithin (s.buf.getD i #[]) s.shiftFrom (2 * s.L)) a.input[i]) = _
    rw [hr3]; rfl
  have hp := process_of_stages hm1 hv1 hr1
  have hst : refilledState (chan i s) [true] #[buf.getD i #[]] = chan i (refilledState s mask buf) := by
    have : mask.getD i true = true := by simp [List.getD_eq_getElem?_getD, hact]
    simp only [refilledState, chan, this]
    rfl
  rw [hp, hst]
  show finishCall _ [true] [a.outLens.getD i 0] = _ ∧ _
  rw [hgo]
  obtain ⟨h1, ps, h2⟩ := finishCall_chan hf hact hlo
  exact ⟨h1, _, h2⟩

/-! ### Inactive channels -/

theorem firstShort_go_congr (need : Nat) :
    ∀ (mask : List Bool) (lens lens' : List Nat) (k : Nat), lens.length = lens'.length →
      (∀ j : Nat, mask[j]? = some true → lens[j]? = lens'[j]?) →
      firstShort.go need lens mask k = firstShort.go need lens' mask k := by
  intro mask
  induction mask with
  | nil =>
    intro lens lens' k _ _
    cases lens <;> cases lens' <;> simp [firstShort.go]
  | cons m ms ih =>
    intro lens lens' k hl h
    cases lens with
    | nil =>
      cases lens' with
      | nil => rfl
      | cons _ _ => simp at hl
    | cons l ls =>
      cases lens' with
      | nil => simp at hl
      | cons l' ls' =>
        have hl' : ls.length = ls'.length := by simpa using hl
        have h' : ∀ j : Nat, ms[j]? = some true → ls[j]? = ls'[j]? := fun j hj => by
          have := h (j + 1) (by simpa using hj)
          simpa using this
        cases m with
        | false =>
          simp only [firstShort.go, Bool.false_and, Bool.false_eq_true, if_false]
          exact ih ls ls' (k + 1) hl' h'
        | true =>
          have e : l = l' := by
            have := h 0 (by simp)
            simpa using this
          subst e
          simp only [firstShort.go]
          rw [ih ls ls' (k + 1) hl' h']

/-- the sizes of inactive channels' buffers are never looked at by `validate_buffers` -/
theorem validateBuffers_congr {lens lens' outLens : List Nat} {mask : List Bool} (c mi mo : Nat)
    (hl : lens.length = lens'.length) (h : ∀ j : Nat, mask[j]? = some true → lens[j]? = lens'[j]?) :
    validateBuffers lens outLens mask c mi mo = validateBuffers lens' outLens mask c mi mo := by
  unfold validateBuffers firstShort
  rw [hl, firstShort_go_congr mi mask lens lens' 0 hl h]

/-- **the input of an inactive channel is never indexed**: replacing it by any other array (even an
empty one) leaves the whole result of the call — new state and outcome — unchanged. -/
theorem inactive_input_irrelevant (s : AState ρ σ) (a : CallArgs σ) (i : Nat) (x : Array σ)
    (hina : (effMask s.nch a.mask)[i]? ≠ some true) :
    s.process { a with input := a.input.set i x } = s.process a := by
  cases hm : updateMask s.nch a.mask with
  | error e =>
    have hm' : updateMask s.nch ({ a with input := a.input.set i x } : CallArgs σ).mask = .error e := hm
    simp only [AState.process, hm]
  | ok mask =>
    have hm' : updateMask s.nch ({ a with input := a.input.set i x } : CallArgs σ).mask = .ok mask := hm
    obtain ⟨hme, _⟩ := updateMask_ok hm
    rw [← hme] at hina
    have hcong : ∀ j : Nat, mask[j]? = some true → (a.input.set i x)[j]? = a.input[j]? := by
      intro j hj
      rw [List.getElem?_set]
      by_cases hij : i = j
      · subst hij; exact absurd hj hina
      · simp [hij]
    have hv : validateBuffers ((a.input.set i x).map Array.size) a.outLens mask s.nch
          (AState.minIn { s with mask := mask }) (AState.minOut { s with mask := mask }) =
        validateBuffers (a.input.map Array.size) a.outLens mask s.nch
          (AState.minIn { s with mask := mask }) (AState.minOut { s with mask := mask }) := by
      apply validateBuffers_congr
      · simp
      · intro j hj
        simp only [List.getElem?_map, hcong j hj]
    have hr : refill { s with mask := mask } mask (a.input.set i x) (AState.shiftFrom { s with mask := mask })
          (AState.minIn { s with mask := mask }) =
        refill { s with mask := mask } mask a.input (AState.shiftFrom { s with mask := mask })
          (AState.minIn { s with mask := mask }) :=
      refill_congr _ mask _ _ _ _ (by simp) hcong
    simp only [AState.process, hm, hv, hr]

theorem finishCall_ok {s s' : AState ρ σ} {mask : List Bool} {outLens : List Nat} {out : CallOut σ}
    (h : finishCall s mask outLens = (s', .ok out)) :
    ∃ ps, evalChannels s s.buf mask ps = .ok out.out ∧ s'.buf = s.buf ∧ s'.mask = s.mask := by
  unfold finishCall at h
  cases hk : s.kind.isFixedIn with
  | true =>
    simp only [hk, if_true] at h
    rw [finishIn_eq] at h
    cases hr : (inSteps s (fuelOf outLens mask)).2.2 with
    | true =>
      simp only [hr, if_true, Prod.mk.injEq] at h
      exfalso
      have := h.2
      unfold overrun at this
      split at this <;> (try split at this) <;> simp at this
    | false =>
      simp only [hr, Bool.false_eq_true, if_false] at h
      obtain ⟨h1, h2, _⟩ := finishWith_ok h
      exact ⟨_, h2, by rw [h1], by rw [h1]⟩
  | false =>
    simp only [hk, Bool.false_eq_true, if_false] at h
    rw [finishOut_eq] at h
    obtain ⟨h1, h2, _⟩ := finishWith_ok h
    exact ⟨_, h2, by rw [h1]; rfl, by rw [h1]; rfl⟩

/-- **inactive channels are not written**: the output slot of an inactive channel is `none`, and its
history buffer only undergoes the shift (`copy_within`) that every channel undergoes. -/
theorem inactive_untouched {s s' : AState ρ σ} {a : CallArgs σ} {out : CallOut σ} {i : Nat}
    (h : s.process a = (s', .ok out)) (hsz : s.buf.size = s.nch)
    (hina : (effMask s.nch a.mask)[i]? = some false) :
    out.out[i]? = some none ∧
    s'.buf.getD i #[] = copyWithin (s.buf.getD i #[]) s.shiftFrom (2 * s.L) ∧
    ∀ x, s.process { a with input := a.input.set i x } = (s', .ok out) := by
  refine ⟨?_, ?_, fun x => ?_⟩
  · obtain ⟨mask, buf, hm, hv, hr, hf⟩ := process_ok_stages h
    obtain ⟨hme, _⟩ := updateMask_ok hm
    rw [← hme] at hina
    obtain ⟨ps, he, _, _⟩ := finishCall_ok hf
    obtain ⟨_, hsp⟩ := evalChannels_spec he
    have := (hsp i false hina).1
    simpa [chanOut] using this
  · obtain ⟨mask, buf, hm, hv, hr, hf⟩ := process_ok_stages h
    obtain ⟨hme, hml⟩ := updateMask_ok hm
    rw [← hme] at hina
    obtain ⟨ps, _, hb, _⟩ := finishCall_ok hf
    have hb : s'.buf = buf := hb
    obtain ⟨h1, h2, h3, h4, h5⟩ := (C13.validate_ok_iff _ _ _ _ _ _).1 hv
    have hi : i < mask.length := by
      rcases List.getElem?_eq_some_iff.1 hina with ⟨hi, _⟩; exact hi
    have hil : i < a.input.length := by simp at h1; omega
    obtain ⟨_, _, r3⟩ := refill_spec hr
    have r3 : ∀ j m inp, mask[j]? = some m → a.input[j]? = some inp → j < s.buf.size →
        refillChan (2 * s.L) s.minIn m (copyWithin (s.buf.getD j #[]) s.shiftFrom (2 * s.L)) inp
          = some (buf.getD j #[]) := r3
    have := r3 i false a.input[i] hina (List.getElem?_eq_getElem hil) (by omega)
    simp only [refillChan, Bool.false_eq_true, if_false, Option.some.injEq] at this
    rw [hb, ← this]
  · rw [inactive_input_irrelevant s a i x (by rw [hina]; simp), h]

/-! ### The mask does not change what the active channels get -/

theorem finishWith_two {S s₁ s₂ u₁ : AState ρ σ} {b : Array (Array σ)} {mm m₁ m₂ : List Bool} {ps : List ρ}
    {fe : Int} {nIn nOut : Nat} {o₁ o₂ : CallOut σ}
    (h₁ : finishWith S m₁ ps fe u₁ nIn nOut = (s₁, .ok o₁))
    (h₂ : finishWith { S with buf := b, mask := mm } m₂ ps fe { u₁ with buf := b, mask := mm } nIn nOut
      = (s₂, .ok o₂)) :
    o₁.nIn = o₂.nIn ∧ o₁.nOut = o₂.nOut ∧ o₁.stale = o₂.stale ∧ s₂ = { s₁ with buf := b, mask := mm } ∧
    ∀ i, m₁[i]? = some true → m₂[i]? = some true → b.getD i #[] = S.buf.getD i #[] → o₁.out[i]? = o₂.out[i]? := by
  obtain ⟨a1, a2, a3, a4, a5⟩ := finishWith_ok h₁
  obtain ⟨b1, b2, b3, b4, b5⟩ := finishWith_ok h₂
  refine ⟨by rw [a3, b3], by rw [a4, b4], by rw [a5, b5]; rfl, by rw [b1, a1], ?_⟩
  intro i hi1 hi2 hb
  have e1 := ((evalChannels_spec a2).2 i true hi1).1
  have e2 := ((evalChannels_spec b2).2 i true hi2).1
  rw [e1, e2]
  show _ = some (chanOut { S with buf := b, mask := mm } (b.getD i #[]) ps true)
  rw [hb]
  rfl

theorem finishCall_two {S s₁ s₂ : AState ρ σ} {b : Array (Array σ)} {mm m₁ m₂ : List Bool} {outLens : List Nat}
    {o₁ o₂ : CallOut σ}
    (h₁ : finishCall S m₁ outLens = (s₁, .ok o₁))
    (h₂ : finishCall { S with buf := b, mask := mm } m₂ outLens = (s₂, .ok o₂)) :
    o₁.nIn = o₂.nIn ∧ o₁.nOut = o₂.nOut ∧ o₁.stale = o₂.stale ∧ s₂ = { s₁ with buf := b, mask := mm } ∧
    ∀ i, m₁[i]? = some true → m₂[i]? = some true → b.getD i #[] = S.buf.getD i #[] → o₁.out[i]? = o₂.out[i]? := by
  unfold finishCall at h₁ h₂
  have h₂ : (if S.kind.isFixedIn = true then
      AState.finishIn { S with buf := b, mask := mm } m₂ (fuelOf outLens m₂)
      else AState.finishOut { S with buf := b, mask := mm } m₂) = (s₂, .ok o₂) := h₂
  cases hk : S.kind.isFixedIn with
  | true =>
    simp only [hk, if_true] at h₁ h₂
    rw [finishIn_eq] at h₁ h₂
    have e : inSteps { S with buf := b, mask := mm } (fuelOf outLens m₂) = inSteps S (fuelOf outLens m₂) := rfl
    rw [e] at h₂
    cases hr1 : (inSteps S (fuelOf outLens m₁)).2.2 with
    | true =>
      simp only [hr1, if_true, Prod.mk.injEq] at h₁
      exfalso
      have := h₁.2
      unfold overrun at this
      split at this <;> (try split at this) <;> simp at this
    | false =>
      cases hr2 : (inSteps S (fuelOf outLens m₂)).2.2 with
      | true =>
        simp only [hr2, if_true, Prod.mk.injEq] at h₂
        exfalso
        have := h₂.2
        unfold overrun at this
        split at this <;> (try split at this) <;> simp at this
      | false =>
        have hst : inSteps S (fuelOf outLens m₂) = inSteps S (fuelOf outLens m₁) :=
          stepsIn_fuel_irrel _ _ _ _ _ _ hr2 hr1
        rw [hst] at h₂
        simp only [hr1, Bool.false_eq_true, if_false] at h₁ h₂
        exact finishWith_two h₁ h₂
  | false =>
    simp only [hk, Bool.false_eq_true, if_false] at h₁ h₂
    rw [finishOut_eq] at h₁ h₂
    exact finishWith_two h₁ h₂

/-- **C11, masks**: a call with mask `m` and the same call without a mask (all channels active), when
both succeed, return the same counts and `stale` flag, leave the same control state (the states differ
at most in the channel buffers and the stored mask), and write the same frames to every channel that
is active under `m`; the history buffers of those channels are equal afterwards. -/
theorem mask_does_not_change_active_outputs {s s₁ s₂ : AState ρ σ} {a : CallArgs σ} {m : List Bool}
    {o₁ o₂ : CallOut σ} (hsz : s.buf.size = s.nch)
    (h₁ : s.process { a with mask := some m } = (s₁, .ok o₁))
    (h₂ : s.process { a with mask := none } = (s₂, .ok o₂)) :
    o₁.nIn = o₂.nIn ∧ o₁.nOut = o₂.nOut ∧ o₁.stale = o₂.stale ∧
    (∃ b mm, s₂ = { s₁ with buf := b, mask := mm }) ∧
    ∀ i, m[i]? = some true →
      o₁.out[i]? = o₂.out[i]? ∧ s₁.buf.getD i #[] = s₂.buf.getD i #[] := by
  obtain ⟨mask1, buf1, hm1, hv1, hr1, hf1⟩ := process_ok_stages h₁
  obtain ⟨mask2, buf2, hm2, hv2, hr2, hf2⟩ := process_ok_stages h₂
  obtain ⟨hme1, hml1⟩ := updateMask_ok hm1
  obtain ⟨hme2, hml2⟩ := updateMask_ok hm2
  have hme1 : mask1 = m := hme1
  have hme2 : mask2 = List.replicate s.nch true := hme2
  subst hme1
  have hf2' : finishCall { refilledState s mask1 buf1 with buf := buf2, mask := mask2 } mask2 a.outLens
      = (s₂, .ok o₂) := hf2
  have hf1' : finishCall (refilledState s mask1 buf1) mask1 a.outLens = (s₁, .ok o₁) := hf1
  obtain ⟨c1, c2, c3, c4, c5⟩ := finishCall_two hf1' hf2'
  obtain ⟨_, _, hb1, _⟩ := finishCall_ok hf1'
  have hb1 : s₁.buf = buf1 := hb1
  have hb2 : s₂.buf = buf2 := by rw [c4]
  -- the refilled buffers agree on the channels active under `m`
  obtain ⟨_, _, r1⟩ := refill_spec hr1
  obtain ⟨_, _, r2⟩ := refill_spec hr2
  have r1 : ∀ j mj inp, mask1[j]? = some mj → a.input[j]? = some inp → j < s.buf.size →
      refillChan (2 * s.L) s.minIn mj (copyWithin (s.buf.getD j #[]) s.shiftFrom (2 * s.L)) inp
        = some (buf1.getD j #[]) := r1
  have r2 : ∀ j mj inp, mask2[j]? = some mj → a.input[j]? = some inp → j < s.buf.size →
      refillChan (2 * s.L) s.minIn mj (copyWithin (s.buf.getD j #[]) s.shiftFrom (2 * s.L)) inp
        = some (buf2.getD j #[]) := r2
  obtain ⟨v1, _, _, _, _⟩ := (C13.validate_ok_iff _ _ _ _ _ _).1 hv1
  refine ⟨c1, c2, c3, ⟨_, _, c4⟩, ?_⟩
  intro i hi
  have hil : i < mask1.length := by
    rcases List.getElem?_eq_some_iff.1 hi with ⟨hi', _⟩; exact hi'
  have hi2 : mask2[i]? = some true := by
    rw [hme2, List.getElem?_replicate]; simp; omega
  have hin : i < a.input.length := by
    have : (List.map Array.size a.input).length = s.nch := v1
    simp at this; omega
  have e1 := r1 i true a.input[i] hi (List.getElem?_eq_getElem hin) (by omega)
  have e2 := r2 i true a.input[i] hi2 (List.getElem?_eq_getElem hin) (by omega)
  have hbe : buf2.getD i #[] = buf1.getD i #[] := by
    rw [e1] at e2
    exact (Option.some.inj e2).symm
  exact ⟨c5 i hi hi2 hbe, by rw [hb1, hb2, hbe]⟩

/-! ### Whole histories: n channels = n single-channel resamplers -/

/-- one buffer per channel (true after every constructor, kept by every operation) -/
def BufOk (s : AState ρ σ) : Prop := s.buf.size = s.nch

theorem bufOk_init {kind : AKind} {ratio maxRel : ρ} {deg : Degree} {sint : SincInterp} {ip : Interp σ}
    {chunk nch : Nat} {s : AState ρ σ} (h : AState.init kind ratio maxRel deg sint ip chunk nch = .ok s) :
    BufOk s := by
  unfold AState.init at h
  split at h
  · simp at h
  · simp only [] at h
    split at h <;>
      (simp only [Except.ok.injEq] at h; subst h; simp [BufOk, zeroBuf])

theorem setRatio_buf (s : AState ρ σ) (r : ρ) (ramp : Bool) :
    (s.setRatio r ramp).1.buf = s.buf ∧ (s.setRatio r ramp).1.nch = s.nch := by
  unfold AState.setRatio
  split
  · cases s.kind <;> exact ⟨rfl, rfl⟩
  · exact ⟨rfl, rfl⟩

theorem setChunk_buf (s : AState ρ σ) (n : Nat) :
    (s.setChunk n).1.buf = s.buf ∧ (s.setChunk n).1.nch = s.nch := by
  unfold AState.setChunk
  cases s.kind with
  | fastIn => exact ⟨rfl, rfl⟩
  | fastOut => exact ⟨rfl, rfl⟩
  | sincIn => dsimp only; split <;> exact ⟨rfl, rfl⟩
  | sincOut => dsimp only; split <;> exact ⟨rfl, rfl⟩

theorem reset_buf (s : AState ρ σ) : s.reset.buf = zeroLike (ρ := ρ) s.buf ∧ s.reset.nch = s.nch := by
  unfold AState.reset
  cases s.kind <;> exact ⟨rfl, rfl⟩

theorem bufOk_step {s : AState ρ σ} (h : BufOk s) (op : AOp ρ σ) : BufOk (s.step op) := by
  unfold BufOk at h ⊢
  cases op with
  | proc a =>
    have hf := process_frame s a
    have := congrArg List.length hf.shape
    simp only [bufShape, List.length_map, Array.length_toList] at this
    show (s.process a).1.buf.size = (s.process a).1.nch
    rw [this, hf.nch, h]
  | ratio r ramp =>
    show (s.setRatio r ramp).1.buf.size = (s.setRatio r ramp).1.nch
    rw [(setRatio_buf s r ramp).1, (setRatio_buf s r ramp).2, h]
  | rel r ramp =>
    show (s.setRatio _ ramp).1.buf.size = (s.setRatio _ ramp).1.nch
    rw [(setRatio_buf s _ ramp).1, (setRatio_buf s _ ramp).2, h]
  | chunk n =>
    show (s.setChunk n).1.buf.size = (s.setChunk n).1.nch
    rw [(setChunk_buf s n).1, (setChunk_buf s n).2, h]
  | reset =>
    show s.reset.buf.size = s.reset.nch
    rw [(reset_buf s).1, (reset_buf s).2]
    simpa [zeroLike] using h

/-- channel `i` of an operation -/
def chanOp (i : Nat) : AOp ρ σ → AOp ρ σ
  | .proc a => .proc (chanArgs i a)
  | .ratio r b => .ratio r b
  | .rel r b => .rel r b
  | .chunk n => .chunk n
  | .reset => .reset

theorem chan_setRatio (i : Nat) (s : AState ρ σ) (r : ρ) (ramp : Bool) :
    chan i (s.setRatio r ramp).1 = ((chan i s).setRatio r ramp).1 ∧
    (s.setRatio r ramp).2 = ((chan i s).setRatio r ramp).2 := by
  unfold chan AState.setRatio
  dsimp only
  by_cases h : ratioInRange r s.orig s.maxRel = true
  · simp only [h, if_true]
    cases s.kind <;> exact ⟨rfl, rfl⟩
  · simp only [h]
    exact ⟨rfl, rfl⟩

theorem chan_setChunk (i : Nat) (s : AState ρ σ) (n : Nat) :
    chan i (s.setChunk n).1 = ((chan i s).setChunk n).1 ∧
    (s.setChunk n).2 = ((chan i s).setChunk n).2 := by
  obtain ⟨kind, nch, chunk, maxChunk, needed, fill, lastIndex, ratio, orig, target, maxRel, L, deg, sint, ip,
    buf, mask⟩ := s
  unfold chan AState.setChunk
  cases kind with
  | fastIn => exact ⟨rfl, rfl⟩
  | fastOut => exact ⟨rfl, rfl⟩
  | sincIn =>
    dsimp only
    by_cases h : (decide (n > maxChunk) || n == 0) = true
    · simp only [h, if_true]; refine ⟨?_, ?_⟩ <;> first | rfl | trivial
    · simp only [h]; refine ⟨?_, ?_⟩ <;> first | rfl | trivial
  | sincOut =>
    dsimp only
    by_cases h : (decide (n > maxChunk) || n == 0) = true
    · simp only [h, if_true]; refine ⟨?_, ?_⟩ <;> first | rfl | trivial
    · simp only [h]; refine ⟨?_, ?_⟩ <;> first | rfl | trivial

theorem zeroLike_getD (b : Array (Array σ)) (i : Nat) :
    zeroLike (ρ := ρ) #[b.getD i #[]] = #[(zeroLike (ρ := ρ) b).getD i #[]] := by
  unfold zeroLike
  by_cases hi : i < b.size
  · simp [Array.getD, hi]
  · simp [Array.getD, hi]

theorem chan_reset (i : Nat) (s : AState ρ σ) : chan i s.reset = (chan i s).reset := by
  obtain ⟨kind, nch, chunk, maxChunk, needed, fill, lastIndex, ratio, orig, target, maxRel, L, deg, sint, ip,
    buf, mask⟩ := s
  have hb := zeroLike_getD (ρ := ρ) buf i
  have hm : [(List.replicate nch true).getD i true] = List.replicate 1 true := by
    simp only [List.getD_eq_getElem?_getD, List.getElem?_replicate]
    split <;> rfl
  unfold chan AState.reset
  cases kind <;> (dsimp only; rw [hb, hm])

theorem chan_init {kind : AKind} {ratio maxRel : ρ} {deg : Degree} {sint : SincInterp} {ip : Interp σ}
    {chunk nch i : Nat} {s : AState ρ σ} (h : AState.init kind ratio maxRel deg sint ip chunk nch = .ok s)
    (hi : i < nch) : AState.init kind ratio maxRel deg sint ip chunk 1 = .ok (chan i s) := by
  have hb : ∀ len, #[(zeroBuf (ρ := ρ) (σ := σ) nch len).getD i #[]] = zeroBuf (ρ := ρ) 1 len := by
    intro len; simp [zeroBuf, Array.getD, hi]
  have hm : [(List.replicate nch true).getD i true] = List.replicate 1 true := by
    simp [List.getD_eq_getElem?_getD, hi]
  unfold AState.init at h ⊢
  cases hv : validateRatios ratio maxRel with
  | error e => rw [hv] at h; simp at h
  | ok u =>
    rw [hv] at h
    dsimp only at h ⊢
    cases hk : kind.isFixedIn with
    | true =>
      simp only [hk, if_true, Except.ok.injEq] at h ⊢
      subst h
      unfold chan
      dsimp only
      rw [hb, hm]
    | false =>
      simp only [hk, Bool.false_eq_true, if_false, Except.ok.injEq] at h ⊢
      subst h
      unfold chan
      dsimp only
      rw [hb, hm]

/-- every processing call of the history succeeds and has channel `i` active -/
def GoodHist (i : Nat) : AState ρ σ → List (AOp ρ σ) → Prop
  | _, [] => True
  | s, op :: ops =>
    (match op with
      | .proc a => (∃ out, (s.process a).2 = .ok out) ∧ (effMask s.nch a.mask)[i]? = some true
      | _ => True) ∧ GoodHist i (s.step op) ops

/-- what a processing call returns for channel `i`: the counts, `stale`, and the frames written -/
def chanObs (i : Nat) (s : AState ρ σ) : AOp ρ σ → Option (Nat × Nat × Bool × Option (Array σ))
  | .proc a =>
    match (s.process a).2 with
    | .ok out => some (out.nIn, out.nOut, out.stale, out.out.getD i none)
    | _ => none
  | _ => none

def chanTrace (i : Nat) : AState ρ σ → List (AOp ρ σ) → List (Option (Nat × Nat × Bool × Option (Array σ)))
  | _, [] => []
  | s, op :: ops => chanObs i s op :: chanTrace i (s.step op) ops

theorem step_channel {s : AState ρ σ} {i : Nat} (hb : BufOk s) (op : AOp ρ σ)
    (hg : match op with
      | .proc a => (∃ out, (s.process a).2 = .ok out) ∧ (effMask s.nch a.mask)[i]? = some true
      | _ => True) :
    chan i (s.step op) = (chan i s).step (chanOp i op) ∧ chanObs i s op = chanObs 0 (chan i s) (chanOp i op) := by
  cases op with
  | proc a =>
    obtain ⟨⟨out, ho⟩, hact⟩ := hg
    have h : s.process a = ((s.process a).1, .ok out) := Prod.ext rfl ho
    obtain ⟨h1, _⟩ := process_channel h hb hact
    simp only [AState.step, chanOp, chanObs, h1, ho]
    exact ⟨trivial, rfl⟩
  | ratio r ramp => exact ⟨(chan_setRatio i s r ramp).1, rfl⟩
  | rel r ramp => exact ⟨(chan_setRatio i s _ ramp).1, rfl⟩
  | chunk n => exact ⟨(chan_setChunk i s n).1, rfl⟩
  | reset => exact ⟨chan_reset i s, rfl⟩

/-- **C11, histories**: along any history whose processing calls succeed with channel `i` active,
channel `i` of the n-channel resampler IS the single-channel resampler fed with channel `i` of
every call: same state after the history, same counts and same frames written by every call. -/
theorem run_channel {i : Nat} (ops : List (AOp ρ σ)) :
    ∀ {s : AState ρ σ}, BufOk s → GoodHist i s ops →
      chan i (s.run ops) = (chan i s).run (ops.map (chanOp i)) ∧
      chanTrace i s ops = chanTrace 0 (chan i s) (ops.map (chanOp i)) := by
  induction ops with
  | nil => intro s _ _; exact ⟨rfl, rfl⟩
  | cons op ops ih =>
    intro s hb hg
    obtain ⟨hg1, hg2⟩ := hg
    obtain ⟨h1, h2⟩ := step_channel hb op hg1
    obtain ⟨i1, i2⟩ := ih (bufOk_step hb op) hg2
    simp only [AState.run, List.map_cons, List.foldl_cons, chanTrace]
    rw [← h1, ← h2]
    exact ⟨i1, by rw [i2]⟩

/-! ### The FFT adapters: channels are independent too -/
section FftChannels
variable {σ υ : Type}

/-- `mapActive` acts position by position -/
theorem mapActive_go_chan {α β : Type} (f : Nat → α → Option β) (skip : α → β) :
    ∀ (mask : List Bool) (k : Nat) (xs : List α) (ys : List β),
      mapActive.go f skip k mask xs = some ys →
      ∀ (j : Nat) (m : Bool) (x : α), mask[j]? = some m → xs[j]? = some x →
        ∃ y, ys[j]? = some y ∧ (if m then f (k + j) x = some y else y = skip x) := by
  intro mask
  induction mask with
  | nil => intro k xs ys _ j m x hm; simp at hm
  | cons m0 ms ih =>
    intro k xs ys h j m x hm hx
    cases xs with
    | nil => simp at hx
    | cons x0 xs' =>
      simp only [mapActive.go] at h
      cases h1 : (if m0 = true then f k x0 else some (skip x0)) with
      | none => rw [h1] at h; simp at h
      | some y0 =>
        rw [h1] at h
        simp only [] at h
        cases h2 : mapActive.go f skip (k + 1) ms xs' with
        | none => rw [h2] at h; simp at h
        | some ys' =>
          rw [h2] at h
          simp only [Option.some.injEq] at h
          subst h
          cases j with
          | zero =>
            simp only [List.getElem?_cons_zero, Option.some.injEq] at hm hx
            subst hm hx
            refine ⟨y0, by simp, ?_⟩
            cases m0 with
            | true => simpa using h1
            | false => simpa using h1.symm
          | succ j =>
            obtain ⟨y, hy1, hy2⟩ := ih (k + 1) xs' ys' h2 j m x (by simpa using hm) (by simpa using hx)
            refine ⟨y, by simpa using hy1, ?_⟩
            have e : k + (j + 1) = k + 1 + j := by omega
            rw [e]; exact hy2

theorem mapActive_chan {α β : Type} {f : Nat → α → Option β} {skip : α → β} {mask : List Bool} {xs : List α}
    {ys : List β} (h : mapActive mask xs f skip = some ys) {j : Nat} {m : Bool} {x : α}
    (hm : mask[j]? = some m) (hx : xs[j]? = some x) :
    ∃ y, ys[j]? = some y ∧ (if m then f j x = some y else y = skip x) := by
  have := mapActive_go_chan f skip mask 0 xs ys h j m x hm hx
  simpa using this

/-- what one call does to ONE channel of a synchronous resampler: a function of the shared scalars
(`kind`, block sizes, chunk sizes, `saved`, `frames_needed`) and of that channel's overlap, store,
input and output-buffer length — nothing else. -/
def fftStep (da : DivArith) (u : FftUnit σ υ) (kind : FKind)
    (fftIn fftOut chunkIn chunkOut saved framesNeeded : Nat)
    (ov : υ) (store inp : List σ) (outLen : Nat) : Option (υ × List σ × Option (List σ)) :=
  match kind with
  | .fftIo => (fIo u fftIn chunkIn chunkOut 0 (ov, inp)).map fun r => (r.1, store, r.2)
  | .fftIn =>
    fIn u fftIn fftOut chunkIn saved (saved + chunkIn) (da.fdiv (saved + chunkIn) fftIn)
      (da.fdiv (saved + chunkIn) fftIn * fftOut) (da.fdiv (saved + chunkIn) fftIn * fftIn) 0
      ((ov, store), (inp, outLen))
  | .fftOut =>
    fOut u fftIn fftOut chunkOut saved framesNeeded
      (if decide (saved + fftOut * (framesNeeded / fftIn) ≥ chunkOut) then
        saved + fftOut * (framesNeeded / fftIn) - chunkOut else saved + fftOut * (framesNeeded / fftIn))
      (decide (saved + fftOut * (framesNeeded / fftIn) ≥ chunkOut)) 0 ((ov, store), inp)

/-- **C11 for the FFT adapters**: after a successful call, channel `j`'s new overlap, new store and
output are `fftStep` of its own old overlap, store, input and output length if it is active;
if it is inactive nothing of it changes and nothing is written. -/
theorem fft_process_channel (da : DivArith) (u : FftUnit σ υ) {s s' : FState σ υ} {input : List (List σ)}
    {outLens : List Nat} {um : Option (List Bool)} {out : FCallOut σ}
    (h : FState.process da u s input outLens um = (s', .ok out))
    {j : Nat} {m : Bool} {o : υ} {st inp : List σ} {ol : Nat}
    (hm : (effMask s.nch um)[j]? = some m) (ho : s.ov[j]? = some o) (hst : s.store[j]? = some st)
    (hi : input[j]? = some inp) (hol : outLens[j]? = some ol) :
    if m then
      ∃ o' st' y, fftStep da u s.kind s.fftIn s.fftOut s.chunkIn s.chunkOut s.saved s.framesNeeded o st inp ol
          = some (o', st', y) ∧
        s'.ov[j]? = some o' ∧ s'.store[j]? = some st' ∧ out.out[j]? = some y
    else s'.ov[j]? = some o ∧ s'.store[j]? = some st ∧ out.out[j]? = some none := by
  obtain ⟨kind, nch, ci, co, fi, fo, sv, fn, ov, store, mask0⟩ := s
  dsimp only at hm ho hst ⊢
  unfold FState.process at h
  dsimp only at h
  cases hmk : updateMask nch um with
  | error e => rw [hmk] at h; simp at h
  | ok mask =>
    rw [hmk] at h
    dsimp only at h
    obtain ⟨hme, _⟩ := updateMask_ok hmk
    rw [← hme] at hm
    cases kind with
    | fftIo =>
      dsimp only at h
      split at h
      · simp at h
      · split at h
        · simp at h
        · next rs hrs =>
          simp only [Prod.mk.injEq, Outcome.ok.injEq] at h
          obtain ⟨h1, h2⟩ := h
          subst h1 h2
          obtain ⟨y, hy1, hy2⟩ := mapActive_chan hrs hm
            (show (List.zip ov input)[j]? = some (o, inp) by
              simp [List.getElem?_zip_eq_some, ho, hi])
          cases m with
          | true =>
            simp only [if_true] at hy2 ⊢
            have hy2 : fIo u fi ci co j (o, inp) = some y := hy2
            refine ⟨y.1, st, y.2, ?_, by simp [hy1], hst, by simp [hy1]⟩
            have : fIo u fi ci co 0 (o, inp) = some y := hy2
            simp only [fftStep, this, Option.map_some]
          | false =>
            simp only [Bool.false_eq_true, if_false] at hy2 ⊢
            subst hy2
            exact ⟨by simp [hy1], hst, by simp [hy1]⟩
    | fftIn =>
      dsimp only at h
      split at h
      · simp at h
      · split at h
        · simp at h
        · split at h
          · simp at h
          · next rs hrs =>
            simp only [Prod.mk.injEq, Outcome.ok.injEq] at h
            obtain ⟨h1, h2⟩ := h
            subst h1 h2
            obtain ⟨y, hy1, hy2⟩ := mapActive_chan hrs hm
              (show (List.zip (List.zip ov store) (List.zip input outLens))[j]? = some ((o, st), (inp, ol)) by
                simp [List.getElem?_zip_eq_some, ho, hi, hst, hol])
            cases m with
            | true =>
              simp only [if_true] at hy2 ⊢
              refine ⟨y.1, y.2.1, y.2.2, ?_, by simp [hy1], by simp [hy1], by simp [hy1]⟩
              exact hy2
            | false =>
              simp only [Bool.false_eq_true, if_false] at hy2 ⊢
              subst hy2
              exact ⟨by simp [hy1], by simp [hy1], by simp [hy1]⟩
    | fftOut =>
      dsimp only at h
      simp only [fftStep]
      generalize hcp : decide (sv + fo * (fn / fi) ≥ co) = cp at h ⊢
      generalize hsv' : (if cp = true then sv + fo * (fn / fi) - co else sv + fo * (fn / fi)) = sv' at h ⊢
      generalize (if co > sv' then co - sv' else 0) = no at h
      split at h
      · simp at h
      · split at h
        · simp at h
        · split at h
          · simp at h
          · split at h
            · simp at h
            · next rs hrs =>
              simp only [Prod.mk.injEq, Outcome.ok.injEq] at h
              obtain ⟨h1, h2⟩ := h
              subst h1 h2
              obtain ⟨y, hy1, hy2⟩ := mapActive_chan hrs hm
                (show (List.zip (List.zip ov store) input)[j]? = some ((o, st), inp) by
                  simp [List.getElem?_zip_eq_some, ho, hi, hst])
              cases m with
              | true =>
                simp only [if_true] at hy2 ⊢
                refine ⟨y.1, y.2.1, y.2.2, ?_, by simp [hy1], by simp [hy1], by simp [hy1]⟩
                exact hy2
              | false =>
                simp only [Bool.false_eq_true, if_false] at hy2 ⊢
                subst hy2
                exact ⟨by simp [hy1], by simp [hy1], by simp [hy1]⟩

end FftChannels
/-! ### An inactive channel is the single-channel resampler called with mask `[false]` -/

/-- once the loop has ended by itself after `k` steps, any room `≥ k` gives the same result -/
theorem stepsIn_fuel_len (inc e : ρ) :
    ∀ (n m : Nat) (t idx : ρ), (stepsIn inc e n t idx).2.2 = false →
      (stepsIn inc e n t idx).1.length ≤ m → stepsIn inc e m t idx = stepsIn inc e n t idx := by
  intro n
  induction n with
  | zero =>
    intro m t idx h _
    simp only [stepsIn] at h
    cases m with
    | zero => rfl
    | succ m => simp only [stepsIn, h, Bool.false_eq_true, if_false]
  | succ n ih =>
    intro m t idx h hle
    simp only [stepsIn] at h hle ⊢
    cases hlt : RNum.lt idx e with
    | false =>
      simp only [Bool.false_eq_true, if_false]
      cases m with
      | zero => simp only [stepsIn, hlt]
      | succ m => simp only [stepsIn, hlt, Bool.false_eq_true, if_false]
    | true =>
      simp only [hlt, if_true] at h hle ⊢
      cases m with
      | zero => simp at hle
      | succ m =>
        simp only [stepsIn, hlt, if_true]
        rw [ih m _ _ h (by simpa using hle)]

theorem evalChannels_single_off (s : AState ρ σ) (b : Array σ) (ps : List ρ) :
    evalChannels s #[b] [false] ps = .ok [none] := by
  simp [evalChannels, evalChannels.go]

theorem finishWith_chan_off {s s' upd : AState ρ σ} {mask : List Bool} {ps : List ρ} {fe : Int} {nIn nOut : Nat}
    {out : CallOut σ} {i : Nat} (h : finishWith s mask ps fe upd nIn nOut = (s', .ok out)) :
    finishWith (chan i s) [false] ps fe (chan i upd) nIn nOut =
      (chan i s', .ok { nIn := out.nIn, nOut := out.nOut, out := [none], stale := out.stale }) := by
  obtain ⟨h1, h2, h3, h4, h5⟩ := finishWith_ok h
  unfold finishWith
  have e : evalChannels (chan i s) (chan i s).buf [false] ps = .ok [none] := by
    rw [evalChannels_congr (chan_posFault i s) (chan_posValue i s)]
    exact evalChannels_single_off s _ ps
  rw [e]
  simp only [chan_readEnd]
  rw [h1, h3, h4, h5]
  rfl

theorem finishCall_chan_off {s s' : AState ρ σ} {mask : List Bool} {outLens : List Nat} {out : CallOut σ} {i l : Nat}
    (h : finishCall s mask outLens = (s', .ok out)) (hn : out.nOut ≤ idleFuel) :
    finishCall (chan i s) [false] [l] =
      (chan i s', .ok { nIn := out.nIn, nOut := out.nOut, out := [none], stale := out.stale }) := by
  unfold finishCall at h ⊢
  show (if s.kind.isFixedIn = true then _ else _) = _
  cases hk : s.kind.isFixedIn with
  | true =>
    simp only [hk, if_true] at h ⊢
    rw [finishIn_eq] at h
    cases hr : (inSteps s (fuelOf outLens mask)).2.2 with
    | true =>
      simp only [hr, if_true, Prod.mk.injEq] at h
      exfalso
      have := h.2
      unfold overrun at this
      split at this <;> (try split at this) <;> simp at this
    | false =>
      simp only [hr, Bool.false_eq_true, if_false] at h
      obtain ⟨_, _, _, h4, _⟩ := finishWith_ok h
      have hf : fuelOf [l] [false] = idleFuel := by simp [fuelOf, minActiveLen]
      have hst : inSteps s (fuelOf [l] [false]) = inSteps s (fuelOf outLens mask) := by
        rw [hf]
        have hlen : (inSteps s (fuelOf outLens mask)).1.length ≤ idleFuel := by rw [← h4]; exact hn
        exact stepsIn_fuel_len _ _ _ _ _ _ hr hlen
      rw [finishIn_eq, chan_inSteps, hst]
      simp only [hr, Bool.false_eq_true, if_false]
      exact finishWith_chan_off h
  | false =>
    simp only [hk, Bool.false_eq_true, if_false] at h ⊢
    rw [finishOut_eq] at h
    rw [finishOut_eq, chan_outSteps, chan_outUpdate]
    exact finishWith_chan_off h

theorem validate_single_off (li lo minIn minOut : Nat) :
    validateBuffers [li] [lo] [false] 1 minIn minOut = .ok () := by
  simp [validateBuffers, firstShort, firstShort.go]

theorem refill_single_off (s : AState ρ σ) (b inp : Array σ) (shiftFrom n : Nat) (hb : s.buf = #[b])
    (h : shiftFrom + 2 * s.L ≤ b.size) :
    refill s [false] [inp] shiftFrom n = some #[copyWithin b shiftFrom (2 * s.L)] := by
  unfold refill
  simp only [hb]
  have e1 : (#[b].any fun b => decide (shiftFrom + 2 * s.L > b.size)) = decide (shiftFrom + 2 * s.L > b.size) := by
    simp
  have h' : ¬ shiftFrom + 2 * s.L > b.size := by omega
  rw [e1]
  simp [h', refill.go]

/-- **C11, one call, inactive channel**: channel `i` of a successful n-channel call in which `i` is
masked off is the single-channel call with mask `[false]` (provided fewer than `idleFuel` = 10⁶
frames were produced: the model bounds the idle loop of a resampler without active channel). -/
theorem process_channel_inactive {s s' : AState ρ σ} {a : CallArgs σ} {out : CallOut σ} {i : Nat}
    (h : s.process a = (s', .ok out)) (hsz : s.buf.size = s.nch)
    (hina : (effMask s.nch a.mask)[i]? = some false) (hn : out.nOut ≤ idleFuel) :
    (chan i s).process (chanArgs i a) =
      (chan i s', .ok { nIn := out.nIn, nOut := out.nOut, out := [none], stale := out.stale }) := by
  obtain ⟨mask, buf, hm, hv, hr, hf⟩ := process_ok_stages h
  obtain ⟨hme, hml⟩ := updateMask_ok hm
  rw [← hme] at hina
  have hi : i < s.nch := by
    rcases List.getElem?_eq_some_iff.1 hina with ⟨hi, _⟩; omega
  obtain ⟨v1, _, _, v4, _⟩ := (C13.validate_ok_iff _ _ _ _ _ _).1 hv
  have hil : i < a.input.length := by simp at v1; omega
  have hinp : a.input[i]? = some a.input[i] := List.getElem?_eq_getElem hil
  -- stage 1
  have hm1 : updateMask (chan i s).nch (chanArgs i a).mask = .ok [false] := by
    cases hum : a.mask with
    | none =>
      rw [hum] at hme
      simp only [effMask] at hme
      rw [hme, List.getElem?_replicate] at hina
      split at hina <;> simp at hina
    | some m =>
      rw [hum] at hme
      simp only [effMask] at hme
      subst hme
      simp [chanArgs, chan, hum, updateMask, List.getD_eq_getElem?_getD, hina]
  -- stage 2
  have hv1 : validateBuffers ((chanArgs i a).input.map Array.size) (chanArgs i a).outLens [false] (chan i s).nch
      (chan i s).minIn (chan i s).minOut = .ok () := validate_single_off _ _ _ _
  -- stage 3
  obtain ⟨r1, r2, r3⟩ := refill_spec hr
  have r2 : ∀ j, j < s.buf.size → s.shiftFrom + 2 * s.L ≤ (s.buf.getD j #[]).size := r2
  have r3 : ∀ j m inp, mask[j]? = some m → a.input[j]? = some inp → j < s.buf.size →
      refillChan (2 * s.L) s.minIn m (copyWithin (s.buf.getD j #[]) s.shiftFrom (2 * s.L)) inp
        = some (buf.getD j #[]) := r3
  have hib : i < s.buf.size := by omega
  have hr3 := r3 i false a.input[i] hina hinp hib
  simp only [refillChan, Bool.false_eq_true, if_false, Option.some.injEq] at hr3
  have hr1 : refill { chan i s with mask := [false] } [false] (chanArgs i a).input (chan i s).shiftFrom (chan i s).minIn
      = some #[buf.getD i #[]] := by
    show refill { chan i s with mask := [false] } [false] [a.input.getD i #[]] s.shiftFrom s.minIn = _
    have key := refill_single_off ({ chan i s with mask := [false] } : AState ρ σ) (s.buf.getD i #[])
      (a.input.getD i #[]) s.shiftFrom s.minIn rfl (r2 i hib)
    exact key.trans (by rw [← hr3]; rfl)
  have hp := process_of_stages hm1 hv1 hr1
  have hst : refilledState (chan i s) [false] #[buf.getD i #[]] = chan i (refilledState s mask buf) := by
    have : mask.getD i true = false := by simp [List.getD_eq_getElem?_getD, hina]
    simp only [refilledState, chan, this]
    rfl
  rw [hp, hst]
  exact finishCall_chan_off hf hn

/-- every processing call of the history succeeds; channel `i` is either active, or masked off in a
call that produced at most `idleFuel` frames -/
def GoodHistMasked (i : Nat) : AState ρ σ → List (AOp ρ σ) → Prop
  | _, [] => True
  | s, op :: ops =>
    (match op with
      | .proc a => ∃ out, (s.process a).2 = .ok out ∧
          ((effMask s.nch a.mask)[i]? = some true ∨
           ((effMask s.nch a.mask)[i]? = some false ∧ out.nOut ≤ idleFuel))
      | _ => True) ∧ GoodHistMasked i (s.step op) ops

theorem step_channel_masked {s : AState ρ σ} {i : Nat} (hb : BufOk s) (op : AOp ρ σ)
    (hg : match op with
      | .proc a => ∃ out, (s.process a).2 = .ok out ∧
          ((effMask s.nch a.mask)[i]? = some true ∨
           ((effMask s.nch a.mask)[i]? = some false ∧ out.nOut ≤ idleFuel))
      | _ => True) :
    chan i (s.step op) = (chan i s).step (chanOp i op) ∧ chanObs i s op = chanObs 0 (chan i s) (chanOp i op) := by
  cases op with
  | proc a =>
    obtain ⟨out, ho, hact | ⟨hina, hn⟩⟩ := hg
    · exact step_channel hb (.proc a) ⟨⟨out, ho⟩, hact⟩
    · have h : s.process a = ((s.process a).1, .ok out) := Prod.ext rfl ho
      have h1 := process_channel_inactive h hb hina hn
      have h2 := (inactive_untouched h hb hina).1
      simp only [AState.step, chanOp, chanObs, h1, ho, List.getD_eq_getElem?_getD, h2]
      exact ⟨trivial, rfl⟩
  | ratio r ramp => exact step_channel hb (.ratio r ramp) trivial
  | rel r ramp => exact step_channel hb (.rel r ramp) trivial
  | chunk n => exact step_channel hb (.chunk n) trivial
  | reset => exact step_channel hb .reset trivial

/-- **C11, histories with masks**: as `run_channel`, but channel `i` may be masked off in some calls
(the single-channel resampler is then called with mask `[false]`). -/
theorem run_channel_masked {i : Nat} (ops : List (AOp ρ σ)) :
    ∀ {s : AState ρ σ}, BufOk s → GoodHistMasked i s ops →
      chan i (s.run ops) = (chan i s).run (ops.map (chanOp i)) ∧
      chanTrace i s ops = chanTrace 0 (chan i s) (ops.map (chanOp i)) := by
  induction ops with
  | nil => intro s _ _; exact ⟨rfl, rfl⟩
  | cons op ops ih =>
    intro s hb hg
    obtain ⟨hg1, hg2⟩ := hg
    obtain ⟨h1, h2⟩ := step_channel_masked hb op hg1
    obtain ⟨i1, i2⟩ := ih (bufOk_step hb op) hg2
    simp only [AState.run, List.map_cons, List.foldl_cons, chanTrace]
    rw [← h1, ← h2]
    exact ⟨i1, by rw [i2]⟩

end Rubato.Indep
