/-
C11 — channels are independent.

Each channel's output (and new history buffer) of an n-channel asynchronous resampler is a function of
the shared control state, that channel's buffer and that channel's input only: it is what a
single-channel resampler with the same parameters produces (`process_channel`).  With an
active-channel mask, inactive channels are not written, their input is never looked at
(`inactive_untouched`), and the active channels' outputs, the returned counts and the control state
are what they are without a mask (`mask_does_not_change_active_outputs`).

[law-free]: proved for every instance of `RNum ρ` / `SNum ρ σ`, hence true of IEEE arithmetic.
-/
import RubatoProofs.Lemmas.Shape
import RubatoProofs.Props.C13
import RubatoModel.Fft

set_option linter.unusedSectionVars false
set_option linter.unusedVariables false

namespace Rubato.Indep
open Rubato

variable {ρ σ : Type} [RNum ρ] [SNum ρ σ]

/-! ### Projections on one channel -/

/-- the single-channel resampler that holds channel `i` of `s` -/
def chan (i : Nat) (s : AState ρ σ) : AState ρ σ :=
  { s with nch := 1, buf := #[s.buf.getD i #[]], mask := [s.mask.getD i true] }

/-- channel `i` of the arguments of a call -/
def chanArgs (i : Nat) (a : CallArgs σ) : CallArgs σ :=
  { input := [a.input.getD i #[]], outLens := [a.outLens.getD i 0],
    mask := a.mask.map fun m => [m.getD i true] }

/-! ### Array helpers -/

theorem getD_setIfInBounds (acc : Array (Array σ)) (k j : Nat) (v : Array σ) :
    (acc.setIfInBounds k v).getD j #[] = if j = k ∧ k < acc.size then v else acc.getD j #[] := by
  simp only [Array.getD_eq_getD_getElem?, Array.getElem?_setIfInBounds]
  by_cases h : k = j
  · subst h; by_cases h2 : k < acc.size <;> simp [h2]
  · have : ¬ j = k := fun e => h e.symm
    simp [h, this]

theorem getD_map_of_lt (b : Array (Array σ)) (f : Array σ → Array σ) (j : Nat) (hj : j < b.size) :
    (b.map f).getD j #[] = f (b.getD j #[]) := by
  simp [Array.getD, hj]

/-! ### `refill` acts channel by channel -/

/-- what `refill` does to ONE (already shifted) channel buffer `b` with input `inp` -/
def refillChan (twoL loadN : Nat) (m : Bool) (b inp : Array σ) : Option (Array σ) :=
  if m then
    if twoL + loadN > b.size || loadN > inp.size then none
    else some (loadAt b twoL (inp.extract 0 loadN))
  else some b

theorem refill_go_spec (loadN twoL : Nat) :
    ∀ (ms : List Bool) (ins : List (Array σ)) (k : Nat) (acc r : Array (Array σ)),
      refill.go loadN twoL k ms ins acc = some r →
      r.size = acc.size ∧
      (∀ j, j < k → r.getD j #[] = acc.getD j #[]) ∧
      (∀ j m inp, ms[j]? = some m → ins[j]? = some inp → k + j < acc.size →
        refillChan twoL loadN m (acc.getD (k + j) #[]) inp = some (r.getD (k + j) #[])) := by
  intro ms
  induction ms with
  | nil =>
    intro ins k acc r h
    simp only [refill.go, Option.some.injEq] at h
    subst h
    exact ⟨rfl, fun _ _ => rfl, fun j m inp h1 => by simp at h1⟩
  | cons m ms ih =>
    intro ins k acc r h
    cases ins with
    | nil =>
      simp only [refill.go, Option.some.injEq] at h
      subst h
      exact ⟨rfl, fun _ _ => rfl, fun j m inp _ h2 => by simp at h2⟩
    | cons inp ins' =>
      cases m with
      | false =>
        simp only [refill.go, Bool.false_eq_true, if_false] at h
        obtain ⟨h1, h2, h3⟩ := ih ins' (k + 1) acc r h
        refine ⟨h1, fun j hj => h2 j (by omega), ?_⟩
        intro j m' inp' hm hi hlt
        cases j with
        | zero =>
          simp only [List.getElem?_cons_zero, Option.some.injEq] at hm hi
          subst hm hi
          simp only [refillChan, Bool.false_eq_true, if_false, Nat.add_zero, Option.some.injEq]
          exact (h2 k (by omega)).symm
        | succ j =>
          have := h3 j m' inp' (by simpa using hm) (by simpa using hi) (by omega)
          have e : k + (j + 1) = k + 1 + j := by omega
          rw [e]; exact this
      | true =>
        simp only [refill.go, if_true] at h
        split at h
        · simp at h
        · next hc =>
          obtain ⟨h1, h2, h3⟩ := ih ins' (k + 1) _ r h
          refine ⟨by rw [h1]; simp, ?_, ?_⟩
          · intro j hj
            rw [h2 j (by omega), getD_setIfInBounds]
            have : ¬ (j = k ∧ k < acc.size) := by omega
            simp only [this, if_false]
          · intro j m' inp' hm hi hlt
            cases j with
            | zero =>
              simp only [List.getElem?_cons_zero, Option.some.injEq] at hm hi
              subst hm hi
              simp only [Nat.add_zero] at hlt ⊢
              rw [h2 k (by omega), getD_setIfInBounds]
              simp only [refillChan, if_true, hc, hlt, and_self, Bool.false_eq_true, if_false]
            | succ j =>
              have := h3 j m' inp' (by simpa using hm) (by simpa using hi) (by simpa using (by omega : k + 1 + j < acc.size))
              have e : k + (j + 1) = k + 1 + j := by omega
              rw [e, ← this, getD_setIfInBounds]
              have : ¬ (k + 1 + j = k ∧ k < acc.size) := by omega
              simp only [this, if_false]

/-- **`refill`, channel-wise**: channel `j` of the result is `copyWithin` (the history shift) of
channel `j`, followed — only if the channel is active — by loading `input[j][0..n]` at offset `2·L`. -/
theorem refill_spec {s : AState ρ σ} {mask : List Bool} {input : List (Array σ)} {shiftFrom loadN : Nat}
    {r : Array (Array σ)} (h : refill s mask input shiftFrom loadN = some r) :
    r.size = s.buf.size ∧
    (∀ j, j < s.buf.size → shiftFrom + 2 * s.L ≤ (s.buf.getD j #[]).size) ∧
    (∀ j m inp, mask[j]? = some m → input[j]? = some inp → j < s.buf.size →
      refillChan (2 * s.L) loadN m (copyWithin (s.buf.getD j #[]) shiftFrom (2 * s.L)) inp
        = some (r.getD j #[])) := by
  unfold refill at h
  simp only [] at h
  split at h
  · simp at h
  · next hc =>
    obtain ⟨h1, _, h3⟩ := refill_go_spec loadN (2 * s.L) mask input 0 _ r h
    simp only [Array.size_map] at h1 h3
    refine ⟨h1, ?_, ?_⟩
    · intro j hj
      simp only [Array.any_eq_true, decide_eq_true_eq, not_exists, Nat.not_lt] at hc
      have := hc j hj
      simpa [Array.getD, hj] using this
    · intro j m inp hm hi hj
      have := h3 j m inp hm hi (by simpa using hj)
      simp only [Nat.zero_add] at this
      rw [getD_map_of_lt _ _ _ hj] at this
      exact this

/-- inputs of inactive channels are never indexed by `refill` -/
theorem refill_go_congr (loadN twoL : Nat) :
    ∀ (ms : List Bool) (ins ins' : List (Array σ)) (k : Nat) (acc : Array (Array σ)),
      ins.length = ins'.length → (∀ j : Nat, ms[j]? = some true → ins[j]? = ins'[j]?) →
      refill.go loadN twoL k ms ins acc = refill.go loadN twoL k ms ins' acc := by
  intro ms
  induction ms with
  | nil => intro ins ins' k acc _ _; simp [refill.go]
  | cons m ms ih =>
    intro ins ins' k acc hl h
    cases ins with
    | nil =>
      cases ins' with
      | nil => rfl
      | cons _ _ => simp at hl
    | cons inp ins1 =>
      cases ins' with
      | nil => simp at hl
      | cons inp' ins1' =>
        have hl' : ins1.length = ins1'.length := by simpa using hl
        have h' : ∀ j : Nat, ms[j]? = some true → ins1[j]? = ins1'[j]? := fun j hj => by
          have := h (j + 1) (by simpa using hj)
          simpa using this
        cases m with
        | false =>
          simp only [refill.go, Bool.false_eq_true, if_false]
          exact ih ins1 ins1' (k + 1) acc hl' h'
        | true =>
          have e : inp = inp' := by
            have := h 0 (by simp)
            simpa using this
          subst e
          simp only [refill.go, if_true]
          split
          · rfl
          · exact ih ins1 ins1' (k + 1) _ hl' h'

theorem refill_congr (s : AState ρ σ) (mask : List Bool) (ins ins' : List (Array σ)) (shiftFrom loadN : Nat)
    (hl : ins.length = ins'.length) (h : ∀ j : Nat, mask[j]? = some true → ins[j]? = ins'[j]?) :
    refill s mask ins shiftFrom loadN = refill s mask ins' shiftFrom loadN := by
  unfold refill
  simp only []
  split
  · rfl
  · exact refill_go_congr loadN _ mask ins ins' 0 _ hl h

/-! ### `evalChannels` acts channel by channel -/

/-- the output of ONE channel: evaluated from its own buffer only, or not written -/
def chanOut (s : AState ρ σ) (b : Array σ) (ps : List ρ) (m : Bool) : Option (Array σ) :=
  if m then some (ps.toArray.map (posValue s b)) else none

theorem evalChannels_go_spec (s : AState ρ σ) (buf : Array (Array σ)) (ps : List ρ) :
    ∀ (ms : List Bool) (k : Nat) (acc r : List (Option (Array σ))),
      evalChannels.go s buf ps k ms acc = .ok r →
      ∃ tail, r = acc.reverse ++ tail ∧ tail.length = ms.length ∧
        ∀ j m, ms[j]? = some m →
          tail[j]? = some (chanOut s (buf.getD (k + j) #[]) ps m) ∧
          (m = true → ps.findSome? (posFault s (buf.getD (k + j) #[]).size) = none) := by
  intro ms
  induction ms with
  | nil =>
    intro k acc r h
    simp only [evalChannels.go, Except.ok.injEq] at h
    exact ⟨[], by simp [h], rfl, fun j m hm => by simp at hm⟩
  | cons m ms ih =>
    intro k acc r h
    cases m with
    | false =>
      simp only [evalChannels.go, Bool.false_eq_true, if_false] at h
      obtain ⟨tail, h1, h2, h3⟩ := ih (k + 1) _ r h
      refine ⟨none :: tail, by simp [h1], by simp [h2], ?_⟩
      intro j m' hm
      cases j with
      | zero =>
        simp only [List.getElem?_cons_zero, Option.some.injEq] at hm
        subst hm
        simp [chanOut]
      | succ j =>
        have := h3 j m' (by simpa using hm)
        have e : k + (j + 1) = k + 1 + j := by omega
        rw [e]; simpa using this
    | true =>
      simp only [evalChannels.go, if_true] at h
      split at h
      · simp at h
      · next hf =>
        obtain ⟨tail, h1, h2, h3⟩ := ih (k + 1) _ r h
        refine ⟨some (ps.toArray.map (posValue s (buf.getD k #[]))) :: tail, by simp [h1], by simp [h2], ?_⟩
        intro j m' hm
        cases j with
        | zero =>
          simp only [List.getElem?_cons_zero, Option.some.injEq] at hm
          subst hm
          simp only [Nat.add_zero, List.getElem?_cons_zero, chanOut, if_true, true_and]
          intro _; exact hf
        | succ j =>
          have := h3 j m' (by simpa using hm)
          have e : k + (j + 1) = k + 1 + j := by omega
          rw [e]; simpa using this

/-- **`evalChannels`, channel-wise**: on success channel `j` of the output is `some` of the positions
evaluated on buffer `j` alone if the channel is active, `none` otherwise; the range test of channel `j`
depends only on the LENGTH of buffer `j`. -/
theorem evalChannels_spec {s : AState ρ σ} {buf : Array (Array σ)} {mask : List Bool} {ps : List ρ}
    {r : List (Option (Array σ))} (h : evalChannels s buf mask ps = .ok r) :
    r.length = mask.length ∧
    ∀ j m, mask[j]? = some m →
      r[j]? = some (chanOut s (buf.getD j #[]) ps m) ∧
      (m = true → ps.findSome? (posFault s (buf.getD j #[]).size) = none) := by
  unfold evalChannels at h
  obtain ⟨tail, h1, h2, h3⟩ := evalChannels_go_spec s buf ps mask 0 [] r h
  simp only [List.reverse_nil, List.nil_append] at h1
  subst h1
  refine ⟨h2, fun j m hm => ?_⟩
  have := h3 j m hm
  simpa using this

/-- a single active channel, computed -/
theorem evalChannels_single (s : AState ρ σ) (b : Array σ) (ps : List ρ) :
    evalChannels s #[b] [true] ps =
      match ps.findSome? (posFault s b.size) with
      | some f => .error f
      | none => .ok [some (ps.toArray.map (posValue s b))] := by
  simp only [evalChannels, evalChannels.go, if_true]
  have : (#[b] : Array (Array σ)).getD 0 #[] = b := by simp
  rw [this]
  cases ps.findSome? (posFault s b.size) <;> rfl

/-- `evalChannels` depends on the state only through the two per-position functions -/
theorem evalChannels_go_congr {s t : AState ρ σ} (hF : posFault s = posFault t) (hV : posValue s = posValue t)
    (buf : Array (Array σ)) (ps : List ρ) :
    ∀ (ms : List Bool) (k : Nat) (acc : List (Option (Array σ))),
      evalChannels.go s buf ps k ms acc = evalChannels.go t buf ps k ms acc := by
  intro ms
  induction ms with
  | nil => intro k acc; rfl
  | cons m ms ih =>
    intro k acc
    cases m with
    | false => simp only [evalChannels.go, Bool.false_eq_true, if_false]; exact ih _ _
    | true =>
      simp only [evalChannels.go, if_true, hF, hV]
      split
      · rfl
      · exact ih _ _

theorem evalChannels_congr {s t : AState ρ σ} (hF : posFault s = posFault t) (hV : posValue s = posValue t)
    (buf : Array (Array σ)) (mask : List Bool) (ps : List ρ) :
    evalChannels s buf mask ps = evalChannels t buf mask ps :=
  evalChannels_go_congr hF hV buf ps mask 0 []

/-! ### The stepping loop and the room in the output buffers -/

/-- once the fixed-input loop has ended by itself, more room changes nothing -/
theorem stepsIn_fuel_mono (inc e : ρ) :
    ∀ (n m : Nat) (t idx : ρ), (stepsIn inc e n t idx).2.2 = false → n ≤ m →
      stepsIn inc e m t idx = stepsIn inc e n t idx := by
  intro n
  induction n with
  | zero =>
    intro m t idx h _
    simp only [stepsIn] at h
    cases m with
    | zero => rfl
    | succ m => simp only [stepsIn, h, Bool.false_eq_true, if_false]
  | succ n ih =>
    intro m t idx h hle
    cases m with
    | zero => omega
    | succ m =>
      simp only [stepsIn] at h ⊢
      cases hlt : RNum.lt idx e with
      | false => simp only [Bool.false_eq_true, if_false]
      | true =>
        simp only [hlt, if_true] at h ⊢
        rw [ih m _ _ h (by omega)]

/-- two amounts of room under which the loop ends by itself give the same positions -/
theorem stepsIn_fuel_irrel (inc e : ρ) (n m : Nat) (t idx : ρ)
    (hn : (stepsIn inc e n t idx).2.2 = false) (hm : (stepsIn inc e m t idx).2.2 = false) :
    stepsIn inc e n t idx = stepsIn inc e m t idx := by
  by_cases h : n ≤ m
  · exact (stepsIn_fuel_mono inc e n m t idx hn h).symm
  · exact stepsIn_fuel_mono inc e m n t idx hm (by omega)

def minStep (acc : Option Nat) (p : Nat × Bool) : Option Nat :=
  if p.2 then (match acc with | none => some p.1 | some a => some (min a p.1)) else acc

theorem minActiveLen_eq (outLens : List Nat) (mask : List Bool) :
    minActiveLen outLens mask = (List.zip outLens mask).foldl minStep none := rfl

theorem foldl_minStep_some (l : List (Nat × Bool)) :
    ∀ (a : Nat), ∃ n, l.foldl minStep (some a) = some n ∧ n ≤ a ∧
      ∀ p, p ∈ l → p.2 = true → n ≤ p.1 := by
  induction l with
  | nil => intro a; exact ⟨a, rfl, Nat.le_refl _, fun p hp => by simp at hp⟩
  | cons q l ih =>
    intro a
    simp only [List.foldl_cons]
    cases hq : q.2 with
    | false =>
      simp only [minStep, hq, Bool.false_eq_true, if_false]
      obtain ⟨n, h1, h2, h3⟩ := ih a
      refine ⟨n, h1, h2, fun p hp hp2 => ?_⟩
      rcases List.mem_cons.1 hp with rfl | hp
      · rw [hq] at hp2; simp at hp2
      · exact h3 p hp hp2
    | true =>
      simp only [minStep, hq, if_true]
      obtain ⟨n, h1, h2, h3⟩ := ih (min a q.1)
      refine ⟨n, h1, by omega, fun p hp hp2 => ?_⟩
      rcases List.mem_cons.1 hp with rfl | hp
      · omega
      · exact h3 p hp hp2

theorem foldl_minStep_none (l : List (Nat × Bool)) (p : Nat × Bool) (hp : p ∈ l) (hp2 : p.2 = true) :
    ∃ n, l.foldl minStep none = some n ∧ n ≤ p.1 := by
  induction l with
  | nil => simp at hp
  | cons q l ih =>
    simp only [List.foldl_cons]
    cases hq : q.2 with
    | false =>
      simp only [minStep, hq, Bool.false_eq_true, if_false]
      rcases List.mem_cons.1 hp with rfl | hp
      · rw [hq] at hp2; simp at hp2
      · exact ih hp
    | true =>
      simp only [minStep, hq, if_true]
      obtain ⟨n, h1, h2, h3⟩ := foldl_minStep_some l q.1
      refine ⟨n, h1, ?_⟩
      rcases List.mem_cons.1 hp with rfl | hp
      · exact h2
      · exact h3 p hp hp2

/-- the room of the call is at most the room of any active channel -/
theorem minActiveLen_le {outLens : List Nat} {mask : List Bool} {i l : Nat}
    (hl : outLens[i]? = some l) (hm : mask[i]? = some true) :
    ∃ n, minActiveLen outLens mask = some n ∧ n ≤ l := by
  rw [minActiveLen_eq]
  apply foldl_minStep_none _ (l, true) _ rfl
  rw [List.mem_iff_getElem?]
  exact ⟨i, by simp [List.getElem?_zip_eq_some, hl, hm]⟩

/-! ### `process_into_buffer` cut into its stages -/

/-- the mask a call works with -/
def effMask (nch : Nat) (um : Option (List Bool)) : List Bool :=
  match um with
  | none => List.replicate nch true
  | some m => m

theorem updateMask_ok {nch : Nat} {um : Option (List Bool)} {mask : List Bool}
    (h : updateMask nch um = .ok mask) : mask = effMask nch um ∧ mask.length = nch := by
  cases um with
  | none =>
    simp only [updateMask, Except.ok.injEq] at h
    subst h; simp [effMask]
  | some m =>
    simp only [updateMask] at h
    split at h
    · simp at h
    · next hl =>
      simp only [Except.ok.injEq] at h
      subst h
      exact ⟨rfl, by simpa using hl⟩

/-- room in the output buffers of a fixed-input call -/
def fuelOf (outLens : List Nat) (mask : List Bool) : Nat :=
  match minActiveLen outLens mask with
  | some n => n
  | none => idleFuel

/-- the state handed to the second half of a call -/
def refilledState (s : AState ρ σ) (mask : List Bool) (buf : Array (Array σ)) : AState ρ σ :=
  { s with mask := mask, buf := buf, fill := s.minIn }

/-- the second half of a call -/
def finishCall (s : AState ρ σ) (mask : List Bool) (outLens : List Nat) : AState ρ σ × Outcome (CallOut σ) :=
  if s.kind.isFixedIn then s.finishIn mask (fuelOf outLens mask) else s.finishOut mask

theorem process_of_stages {s : AState ρ σ} {a : CallArgs σ} {mask : List Bool} {buf : Array (Array σ)}
    (hm : updateMask s.nch a.mask = .ok mask)
    (hv : validateBuffers (a.input.map Array.size) a.outLens mask s.nch s.minIn s.minOut = .ok ())
    (hr : refill { s with mask := mask } mask a.input s.shiftFrom s.minIn = some buf) :
    s.process a = finishCall (refilledState s mask buf) mask a.outLens := by
  have hv' : validateBuffers (a.input.map Array.size) a.outLens mask s.nch
      (AState.minIn { s with mask := mask }) (AState.minOut { s with mask := mask }) = .ok () := hv
  have hr' : refill { s with mask := mask } mask a.input (AState.shiftFrom { s with mask := mask })
      (AState.minIn { s with mask := mask }) = some buf := hr
  simp only [AState.process, hm, hv', hr']
  rfl

theorem faultOutcome_ne_ok {α : Type} (f : Outcome Unit) (x : α) : (faultOutcome f : Outcome α) ≠ .ok x := by
  unfold faultOutcome; split <;> simp

theorem process_ok_stages {s s' : AState ρ σ} {a : CallArgs σ} {out : CallOut σ}
    (h : s.process a = (s', .ok out)) :
    ∃ mask buf, updateMask s.nch a.mask = .ok mask ∧
      validateBuffers (a.input.map Array.size) a.outLens mask s.nch s.minIn s.minOut = .ok () ∧
      refill { s with mask := mask } mask a.input s.shiftFrom s.minIn = some buf ∧
      finishCall (refilledState s mask buf) mask a.outLens = (s', .ok out) := by
  cases h1 : updateMask s.nch a.mask with
  | error e => simp [AState.process, h1] at h
  | ok mask =>
    cases h2 : validateBuffers (a.input.map Array.size) a.outLens mask s.nch
        (AState.minIn { s with mask := mask }) (AState.minOut { s with mask := mask }) with
    | error e => simp [AState.process, h1, h2] at h
    | ok u =>
      cases h3 : refill { s with mask := mask } mask a.input (AState.shiftFrom { s with mask := mask })
          (AState.minIn { s with mask := mask }) with
      | none => simp [AState.process, h1, h2, h3] at h
      | some buf =>
        refine ⟨mask, buf, rfl, h2, h3, ?_⟩
        rw [← process_of_stages h1 h2 h3]
        exact h

/-! ### The second half of a call, in one shape for the four types -/

/-- evaluate, then commit the control update `upd` -/
def finishWith (s : AState ρ σ) (mask : List Bool) (ps : List ρ) (fillEnd : Int) (upd : AState ρ σ)
    (nIn nOut : Nat) : AState ρ σ × Outcome (CallOut σ) :=
  match evalChannels s s.buf mask ps with
  | .error f => (s, faultOutcome f)
  | .ok outs => (upd, .ok { nIn, nOut, out := outs, stale := ps.any fun p => decide (readEnd s p > fillEnd) })

/-- the stepping loop of a fixed-input call -/
def inSteps (s : AState ρ σ) (fuel : Nat) : List ρ × ρ × Bool :=
  stepsIn ((RNum.one / s.target - RNum.one / s.ratio) / (RNum.ofNat s.chunk * meanRatio s.ratio s.target))
    (RNum.ofInt ((s.chunk : Int) - ((s.L : Int) + 1) - RNum.toInt (RNum.ceil (RNum.one / s.target))))
    fuel (RNum.one / s.ratio) s.lastIndex

def overrun (s : AState ρ σ) : Outcome (CallOut σ) :=
  if s.kind.isSinc then .panic "wave_out[n]" else .abort "get_unchecked_mut(n)"

theorem finishIn_eq (s : AState ρ σ) (mask : List Bool) (fuel : Nat) :
    s.finishIn mask fuel =
      if (inSteps s fuel).2.2 then (s, overrun s)
      else finishWith s mask (inSteps s fuel).1 (2 * (s.L : Int) + s.chunk)
        { s with lastIndex := (inSteps s fuel).2.1 - RNum.ofNat s.chunk, ratio := s.target }
        s.chunk (inSteps s fuel).1.length := rfl

/-- the control update of a fixed-output call -/
def outUpdate (s : AState ρ σ) : AState ρ σ :=
  let t0 : ρ := RNum.one / s.ratio
  let t1 : ρ := RNum.one / s.target
  let inc : ρ := (t1 - t0) / RNum.ofNat s.chunk
  let last := stepsOutLast inc s.chunk t0 s.lastIndex - RNum.ofNat s.fill
  { s with lastIndex := last, ratio := s.target,
           needed := match s.kind with
             | .fastOut => neededFastAfter last s.chunk s.target s.L
             | _ => neededSinc last s.chunk s.target s.target s.L }

def outSteps (s : AState ρ σ) : List ρ :=
  stepsOut ((RNum.one / s.target - RNum.one / s.ratio) / RNum.ofNat s.chunk) s.chunk (RNum.one / s.ratio) s.lastIndex

theorem finishOut_eq (s : AState ρ σ) (mask : List Bool) :
    s.finishOut mask =
      finishWith s mask (outSteps s) (2 * (s.L : Int) + s.fill) (outUpdate s) s.fill s.chunk := rfl

end Rubato.Indep
