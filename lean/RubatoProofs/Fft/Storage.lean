/-
Storage of the three synchronous (FFT) resamplers (`RubatoModel/Fft.lean`): no operation of the
model ever changes the LENGTH of an internal buffer (`store` = `input_buffers` / `output_buffers`,
one per channel; `ov` = one overlap per channel).

Everything here is [law-free]: for every `da : DivArith`, every unit `u : FftUnit σ υ`, every
argument list and every outcome of the call (ok / err / panic / abort).
-/
import RubatoModel.Fft
import RubatoProofs.Fft.Control

namespace Rubato.FftProofs
open Rubato

variable {σ υ : Type}

/-! ## 1. `overlay`

`overlay_length (buf : List σ) (pos : Nat) (data : List σ) : (overlay buf pos data).length = buf.length`
is already proved in `RubatoProofs/Fft/Control.lean` (same namespace); it is restated here so that
this file shows the exact statement it relies on. -/

example (buf : List σ) (pos : Nat) (data : List σ) : (overlay buf pos data).length = buf.length :=
  overlay_length buf pos data

/-! ## 2. Helpers: `zip`, `mapActive`, the argument checks -/

section Helpers
variable {α β γ : Type}

theorem zip_map_fst_take : ∀ (l1 : List α) (l2 : List β),
    (List.zip l1 l2).map Prod.fst = l1.take l2.length
  | [], _ => by simp
  | _ :: _, [] => by simp
  | a :: l1, b :: l2 => by simp [zip_map_fst_take l1 l2]

theorem zip_map_snd_take : ∀ (l1 : List α) (l2 : List β),
    (List.zip l1 l2).map Prod.snd = l2.take l1.length
  | [], _ => by simp
  | _ :: _, [] => by simp
  | a :: l1, b :: l2 => by simp [zip_map_snd_take l1 l2]

/-- the store lengths seen by the per-channel function of `process` -/
theorem chans_store_lengths (ov : List υ) (store : List (List σ)) (z : List γ) :
    (List.zip (List.zip ov store) z).map (fun p => p.1.2.length) =
      (((store.map List.length).take ov.length).take z.length) := by
  have h1 : (List.zip (List.zip ov store) z).map (fun p => p.1.2.length) =
      ((((List.zip (List.zip ov store) z).map Prod.fst).map Prod.snd).map List.length) := by
    simp only [List.map_map]; rfl
  rw [h1, zip_map_fst_take, List.map_take, zip_map_snd_take, List.map_take, List.map_take]

theorem take3_eq {L : List Nat} {a b c : Nat} (ha : L.length ≤ a) (hb : L.length ≤ b)
    (hc : L.length ≤ c) : ((L.take a).take b).take c = L := by
  rw [List.take_of_length_le ha, List.take_of_length_le hb, List.take_of_length_le hc]

theorem take3_prefix (L : List Nat) (a b c : Nat) : ((L.take a).take b).take c <+: L :=
  (List.take_prefix _ _).trans ((List.take_prefix _ _).trans (List.take_prefix _ _))

/-- what `mapActive` does to a per-channel measure that neither the per-channel function nor the
skip function changes: it is kept, channel by channel (only as many channels as the mask has) -/
theorem mapActive_go_lengths {f : Nat → α → Option β} {skip : α → β} (g : β → Nat) (h : α → Nat)
    (hf : ∀ i x y, f i x = some y → g y = h x) (hs : ∀ x, g (skip x) = h x) :
    ∀ (mask : List Bool) (xs : List α) (i : Nat) (ys : List β),
      mapActive.go f skip i mask xs = some ys → ys.map g = (xs.map h).take mask.length
  | [], _, _, ys, hm => by
    simp only [mapActive.go, Option.some.injEq] at hm; subst hm; simp
  | _ :: _, [], _, ys, hm => by
    simp only [mapActive.go, Option.some.injEq] at hm; subst hm; simp
  | m :: ms, x :: xs, i, ys, hm => by
    simp only [mapActive.go] at hm
    split at hm
    · exact absurd hm (by simp)
    · rename_i y hy
      split at hm
      · exact absurd hm (by simp)
      · rename_i ys' hys'
        simp only [Option.some.injEq] at hm; subst hm
        have ih := mapActive_go_lengths g h hf hs ms xs (i + 1) ys' hys'
        have hy' : g y = h x := by
          cases m
          · simp only [Bool.false_eq_true, if_false, Option.some.injEq] at hy
            subst hy; exact hs x
          · simp only [if_true] at hy
            exact hf i x y hy
        simp [ih, hy']

theorem mapActive_lengths {mask : List Bool} {xs : List α} {f : Nat → α → Option β} {skip : α → β}
    {ys : List β} (g : β → Nat) (h : α → Nat)
    (hf : ∀ i x y, f i x = some y → g y = h x) (hs : ∀ x, g (skip x) = h x)
    (hm : mapActive mask xs f skip = some ys) :
    ys.map g = (xs.map h).take mask.length ∧ ys.length = min mask.length xs.length := by
  have h1 := mapActive_go_lengths g h hf hs mask xs 0 ys hm
  refine ⟨h1, ?_⟩
  have h2 := congrArg List.length h1
  simpa using h2

theorem updateMask_ok_length {nch : Nat} {um : Option (List Bool)} {m : List Bool}
    (h : updateMask nch um = .ok m) : m.length = nch := by
  unfold updateMask at h
  cases um with
  | none => simp only [Except.ok.injEq] at h; subst h; simp
  | some m' =>
    simp only at h
    split at h
    · cases h
    · rename_i hne
      simp only [Except.ok.injEq] at h; subst h
      exact Decidable.not_not.mp hne

theorem validateBuffers_ok_lengths {inLens outLens : List Nat} {mask : List Bool} {nch a b : Nat}
    (h : validateBuffers inLens outLens mask nch a b = .ok ()) :
    inLens.length = nch ∧ mask.length = nch ∧ outLens.length = nch := by
  unfold validateBuffers at h
  split at h
  · cases h
  · rename_i h1
    split at h
    · cases h
    · rename_i h2
      split at h
      · cases h
      · split at h
        · cases h
        · rename_i h3
          exact ⟨Decidable.not_not.mp h1, Decidable.not_not.mp h2, Decidable.not_not.mp h3⟩

end Helpers

/-! ## 3. One call of `process` -/

/-- The hypothesis under which `process` keeps the NUMBER of buffers: one overlap per store, and
not more of them than channels.  It is needed: `process` walks `zip (zip ov store) input` under the
mask, so a state with more stores than overlaps (or more than `nch` of either) comes back with the
surplus cut off; see `process_storage_needs_hyp` below for a concrete instance.  The constructor
never builds such a state (`init_storeWF`). -/
def StoreHyp (s : FState σ υ) : Prop := s.ov.length = s.store.length ∧ s.store.length ≤ s.nch

/-- The invariant: one overlap and one store per channel. -/
def StoreWF (s : FState σ υ) : Prop := s.ov.length = s.nch ∧ s.store.length = s.nch

theorem StoreWF.hyp {s : FState σ υ} (h : StoreWF s) : StoreHyp s :=
  ⟨h.1.trans h.2.symm, Nat.le_of_eq h.2⟩

/-- what one step does to the storage: with no hypothesis at all no buffer changes its length and
none is added (the lists of lengths can only be cut at the end); under `StoreHyp` nothing is cut -/
def StorageStep (s s' : FState σ υ) : Prop :=
  (s'.store.map List.length <+: s.store.map List.length ∧ s'.ov.length ≤ s.ov.length) ∧
  (StoreHyp s → s'.store.map List.length = s.store.map List.length ∧ s'.ov.length = s.ov.length)

theorem StorageStep.of_eq {s s' : FState σ υ} (h1 : s'.store = s.store) (h2 : s'.ov = s.ov) :
    StorageStep s s' := by
  unfold StorageStep
  rw [h1, h2]
  exact ⟨⟨List.prefix_refl _, Nat.le_refl _⟩, fun _ => ⟨rfl, rfl⟩⟩

theorem process_storageStep (da : DivArith) (u : FftUnit σ υ) (s : FState σ υ) (input : List (List σ))
    (outLens : List Nat) (um : Option (List Bool)) :
    StorageStep s (s.process da u input outLens um).1 := by
  unfold FState.process
  split
  · exact StorageStep.of_eq rfl rfl
  · rename_i mask hmask
    have hml := updateMask_ok_length hmask
    simp only
    split
    · -- FftFixedInOut
      split
      · exact StorageStep.of_eq rfl rfl
      · rename_i hval
        obtain ⟨hil, -, hol⟩ := validateBuffers_ok_lengths hval
        simp only [List.length_map] at hil
        split
        · exact StorageStep.of_eq rfl rfl
        · rename_i rs hrs
          have hl := (mapActive_lengths (fun _ => 0) (fun _ => 0) (fun _ _ _ _ => rfl)
            (fun _ => rfl) hrs).2
          simp only [List.length_zip] at hl
          refine ⟨⟨List.prefix_refl _, ?_⟩, fun hh => ⟨rfl, ?_⟩⟩
          · simp only [List.length_map]; omega
          · obtain ⟨hh1, hh2⟩ := hh
            simp only [List.length_map]; omega
    · -- FftFixedIn
      split
      · exact StorageStep.of_eq rfl rfl
      · rename_i hval
        obtain ⟨hil, -, hol⟩ := validateBuffers_ok_lengths hval
        simp only [List.length_map] at hil
        split
        · exact StorageStep.of_eq rfl rfl
        · split
          · exact StorageStep.of_eq rfl rfl
          · rename_i rs hrs
            obtain ⟨hm, hl⟩ := mapActive_lengths (fun y => y.2.1.length) (fun x => x.1.2.length)
              (by
                intro i x y hy
                split at hy
                · cases hy
                · simp only [Option.some.injEq] at hy
                  subst hy
                  simp only
                  split <;> simp only [overlay_length])
              (fun _ => rfl) hrs
            rw [chans_store_lengths] at hm
            simp only [List.length_zip] at hl
            have hst : List.map List.length (List.map (fun x => x.2.1) rs) =
                List.map (fun y => y.2.1.length) rs := by
              simp only [List.map_map]; rfl
            refine ⟨⟨?_, ?_⟩, fun hh => ?_⟩
            · simp only [hst, hm]
              exact take3_prefix _ _ _ _
            · simp only [List.length_map]; omega
            · obtain ⟨hh1, hh2⟩ := hh
              refine ⟨?_, ?_⟩
              · simp only [hst, hm]
                exact take3_eq (by simp only [List.length_map]; omega)
                  (by simp only [List.length_map, List.length_zip]; omega)
                  (by simp only [List.length_map]; omega)
              · simp only [List.length_map]; omega
    · -- FftFixedOut
      split
      · exact StorageStep.of_eq rfl rfl
      · rename_i hval
        obtain ⟨hil, -, hol⟩ := validateBuffers_ok_lengths hval
        simp only [List.length_map] at hil
        split
        · exact StorageStep.of_eq rfl rfl
        · split
          all_goals
            split
            · exact StorageStep.of_eq rfl rfl
            · split
              · exact StorageStep.of_eq rfl rfl
              · rename_i rs hrs
                obtain ⟨hm, hl⟩ := mapActive_lengths (fun y => y.2.1.length) (fun x => x.1.2.length)
                  (by
                    intro i x y hy
                    split at hy
                    · cases hy
                    · simp only [Option.some.injEq] at hy
                      subst hy
                      simp only [overlay_length])
                  (fun _ => rfl) hrs
                rw [chans_store_lengths] at hm
                simp only [List.length_zip] at hl
                have hst : List.map List.length (List.map (fun x => x.2.1) rs) =
                    List.map (fun y => y.2.1.length) rs := by
                  simp only [List.map_map]; rfl
                refine ⟨⟨?_, ?_⟩, fun hh => ?_⟩
                · simp only [hst, hm]
                  exact take3_prefix _ _ _ _
                · simp only [List.length_map]; omega
                · obtain ⟨hh1, hh2⟩ := hh
                  refine ⟨?_, ?_⟩
                  · simp only [hst, hm]
                    exact take3_eq (by simp only [List.length_map]; omega)
                      (by simp only [List.length_map]; omega)
                      (by simp only [List.length_map]; omega)
                  · simp only [List.length_map]; omega

/-- [law-free] `process` never changes the length of a buffer, and never adds one, whatever the
state, the arguments, the arithmetic, the unit and the outcome of the call: NO hypothesis.
(The lists can only lose entries at the end, and only in states the constructor never builds.) -/
theorem process_storage_prefix (da : DivArith) (u : FftUnit σ υ) (s : FState σ υ)
    (input : List (List σ)) (outLens : List Nat) (um : Option (List Bool)) :
    let s' := (s.process da u input outLens um).1
    s'.store.map List.length <+: s.store.map List.length ∧ s'.ov.length ≤ s.ov.length :=
  (process_storageStep da u s input outLens um).1

/-- [law-free] `process` keeps the length of every buffer and the number of buffers, whatever the
arguments, the arithmetic, the unit and the outcome (ok, err, panic, abort).
The hypothesis `StoreHyp s` (`s.ov.length = s.store.length ∧ s.store.length ≤ s.nch`) cannot be
dropped: see `process_storage_needs_hyp`. -/
theorem process_storage (da : DivArith) (u : FftUnit σ υ) (s : FState σ υ)
    (input : List (List σ)) (outLens : List Nat) (um : Option (List Bool)) (h : StoreHyp s) :
    let s' := (s.process da u input outLens um).1
    s'.store.map List.length = s.store.map List.length ∧ s'.ov.length = s.ov.length :=
  (process_storageStep da u s input outLens um).2 h

/-- the same under the invariant `StoreWF` -/
theorem process_storage_wf (da : DivArith) (u : FftUnit σ υ) (s : FState σ υ)
    (input : List (List σ)) (outLens : List Nat) (um : Option (List Bool)) (h : StoreWF s) :
    let s' := (s.process da u input outLens um).1
    s'.store.map List.length = s.store.map List.length ∧ s'.ov.length = s.nch := by
  obtain ⟨h1, h2⟩ := process_storage da u s input outLens um h.hyp
  exact ⟨h1, h2.trans h.1⟩

/-- `process` preserves the hypothesis it needs -/
theorem process_storeHyp (da : DivArith) (u : FftUnit σ υ) (s : FState σ υ)
    (input : List (List σ)) (outLens : List Nat) (um : Option (List Bool)) (h : StoreHyp s) :
    StoreHyp (s.process da u input outLens um).1 := by
  obtain ⟨h1, h2⟩ := process_storage da u s input outLens um h
  have h3 := congrArg List.length h1
  simp only [List.length_map] at h3
  have hn := (process_shape da u s input outLens um).2.1
  unfold StoreHyp at h ⊢
  omega

/-- `process` preserves the invariant -/
theorem process_storeWF (da : DivArith) (u : FftUnit σ υ) (s : FState σ υ)
    (input : List (List σ)) (outLens : List Nat) (um : Option (List Bool)) (h : StoreWF s) :
    StoreWF (s.process da u input outLens um).1 := by
  obtain ⟨h1, h2⟩ := process_storage da u s input outLens um h.hyp
  have h3 := congrArg List.length h1
  simp only [List.length_map] at h3
  have hn := (process_shape da u s input outLens um).2.1
  unfold StoreWF at h ⊢
  omega

/-! ## 4. `reset`, the setters, the constructor -/

/-- [law-free] `reset` keeps the length of every store (it refills them with `zero`) and sets up one
overlap per channel; no hypothesis -/
theorem reset_storage (da : DivArith) (u : FftUnit σ υ) (zero : σ) (s : FState σ υ) :
    (s.reset da u zero).store.map List.length = s.store.map List.length ∧
      (s.reset da u zero).ov.length = s.nch := by
  unfold FState.reset
  cases s.kind <;> simp only [List.length_replicate, List.map_map, and_true]
  all_goals
    apply List.map_congr_left
    intro b _
    simp only [Function.comp_apply, List.length_replicate]

theorem reset_nch (da : DivArith) (u : FftUnit σ υ) (zero : σ) (s : FState σ υ) :
    (s.reset da u zero).nch = s.nch := (reset_shape da u zero s).2.1

/-- `reset` preserves the invariant (it re-establishes the `ov` half from nothing) -/
theorem reset_storeWF (da : DivArith) (u : FftUnit σ υ) (zero : σ) (s : FState σ υ)
    (h : s.store.length = s.nch) : StoreWF (s.reset da u zero) := by
  obtain ⟨h1, h2⟩ := reset_storage da u zero s
  have h3 := congrArg List.length h1
  simp only [List.length_map] at h3
  rw [StoreWF, reset_nch]
  exact ⟨h2, h3.trans h⟩

/-- `set_resample_ratio(_relative)` and `set_chunk_size` return the state unchanged -/
theorem setters_storage (s : FState σ υ) (n : Nat) : s.setRatio.1 = s ∧ (s.setChunk n).1 = s :=
  ⟨rfl, rfl⟩

/-- the store lengths the constructor sets up -/
def initLens (da : DivArith) (kind : FKind) (rateIn rateOut chunk sub nch : Nat) : List Nat :=
  match kind with
  | .fftIn => List.replicate nch (chunk + (fftSizes da rateIn rateOut (chunk / sub) false).1)
  | .fftOut => List.replicate nch (chunk + (fftSizes da rateIn rateOut (chunk / sub) true).2)
  | .fftIo => List.replicate nch 0

/-- [law-free] an accepted constructor call establishes the invariant; the stores are
`chunk + fft_size_in` (FftFixedIn) resp. `chunk + fft_size_out` (FftFixedOut) long, one per channel,
and FftFixedInOut has one EMPTY store per channel (it has no such buffer) -/
theorem init_storage {da : DivArith} {u : FftUnit σ υ} {zero : σ} {kind : FKind}
    {rateIn rateOut chunk sub nch : Nat} {s : FState σ υ}
    (h : FState.init da u zero kind rateIn rateOut chunk sub nch = .ok s) :
    StoreWF s ∧ s.nch = nch ∧ s.store.map List.length = initLens da kind rateIn rateOut chunk sub nch := by
  unfold FState.init at h
  split at h
  · cases h
  · cases kind <;> simp only [Except.ok.injEq] at h <;> subst h <;>
      simp [StoreWF, initLens]

theorem init_storeWF {da : DivArith} {u : FftUnit σ υ} {zero : σ} {kind : FKind}
    {rateIn rateOut chunk sub nch : Nat} {s : FState σ υ}
    (h : FState.init da u zero kind rateIn rateOut chunk sub nch = .ok s) : StoreWF s :=
  (init_storage h).1

/-! ## 5. Whole histories -/

/-- one operation on a resampler, with arbitrary arguments -/
inductive Op (σ : Type) where
  | process (input : List (List σ)) (outLens : List Nat) (mask : Option (List Bool))
  | reset (zero : σ)
  | setRatio
  | setChunk (n : Nat)

/-- the state after one operation (whatever its outcome) -/
def applyOp (da : DivArith) (u : FftUnit σ υ) (s : FState σ υ) : Op σ → FState σ υ
  | .process input outLens mask => (s.process da u input outLens mask).1
  | .reset zero => s.reset da u zero
  | .setRatio => s.setRatio.1
  | .setChunk n => (s.setChunk n).1

/-- the state after a history of operations -/
def runOps (da : DivArith) (u : FftUnit σ υ) (s : FState σ υ) (ops : List (Op σ)) : FState σ υ :=
  ops.foldl (applyOp da u) s

theorem applyOp_storage (da : DivArith) (u : FftUnit σ υ) (s : FState σ υ) (op : Op σ) (h : StoreWF s) :
    StoreWF (applyOp da u s op) ∧ (applyOp da u s op).nch = s.nch ∧
      (applyOp da u s op).store.map List.length = s.store.map List.length := by
  cases op with
  | process input outLens mask =>
    exact ⟨process_storeWF da u s input outLens mask h, (process_shape da u s input outLens mask).2.1,
      (process_storage da u s input outLens mask h.hyp).1⟩
  | reset zero =>
    exact ⟨reset_storeWF da u zero s h.2, reset_nch da u zero s, (reset_storage da u zero s).1⟩
  | setRatio => exact ⟨h, rfl, rfl⟩
  | setChunk n => exact ⟨h, rfl, rfl⟩

/-- [law-free] over any history from a state satisfying the invariant, no store changes length -/
theorem runOps_storage (da : DivArith) (u : FftUnit σ υ) :
    ∀ (ops : List (Op σ)) (s : FState σ υ), StoreWF s →
      StoreWF (runOps da u s ops) ∧ (runOps da u s ops).nch = s.nch ∧
        (runOps da u s ops).store.map List.length = s.store.map List.length
  | [], _, h => ⟨h, rfl, rfl⟩
  | op :: ops, s, h => by
    obtain ⟨h1, h2, h3⟩ := applyOp_storage da u s op h
    obtain ⟨k1, k2, k3⟩ := runOps_storage da u ops (applyOp da u s op) h1
    exact ⟨k1, k2.trans h2, k3.trans h3⟩

/-- [law-free] Corollary: after ANY history of operations (process with arbitrary arguments and any
outcome, reset, set_resample_ratio, set_chunk_size) from an accepted constructor call, the stores
have exactly the lengths the constructor gave them: `chunk + fft_size_in` per channel for FftFixedIn,
`chunk + fft_size_out` per channel for FftFixedOut, an empty store per channel for FftFixedInOut;
and there is one overlap per channel. -/
theorem history_storage {da : DivArith} {u : FftUnit σ υ} {zero : σ} {kind : FKind}
    {rateIn rateOut chunk sub nch : Nat} {s0 : FState σ υ}
    (h : FState.init da u zero kind rateIn rateOut chunk sub nch = .ok s0) (ops : List (Op σ)) :
    (runOps da u s0 ops).store.map List.length = initLens da kind rateIn rateOut chunk sub nch ∧
      (runOps da u s0 ops).ov.length = nch := by
  obtain ⟨hwf, hn, hl⟩ := init_storage h
  obtain ⟨k1, k2, k3⟩ := runOps_storage da u ops s0 hwf
  exact ⟨k3.trans hl, k1.1.trans (k2.trans hn)⟩

/-! ## 6. Non-vacuity and the need for the hypothesis -/

section Examples

/-- a unit that returns three frames whatever it gets -/
def exUnit3 : FftUnit Nat Unit := ⟨(), fun _ _ => (List.replicate 3 (0 : Nat), ())⟩

/-- a concrete FftFixedIn: rates 2 → 3, chunk 4, two channels; blocks 4 → 6, stores of 8 frames -/
def exStore : FState Nat Unit :=
  { kind := .fftIn, nch := 2, chunkIn := 4, chunkOut := 0, fftIn := 4, fftOut := 6, saved := 0,
    framesNeeded := 0, ov := [(), ()], store := [[0, 0, 0, 0, 0, 0, 0, 0], [0, 0, 0, 0, 0, 0, 0, 0]],
    mask := [true, true] }

example : FState.init DivArith.exact exUnit3 0 .fftIn 2 3 4 1 2 = .ok exStore := rfl

/-- the hypotheses used above hold of it -/
example : StoreWF exStore := ⟨rfl, rfl⟩
example : StoreHyp exStore := ⟨rfl, by decide⟩
example : initLens DivArith.exact .fftIn 2 3 4 1 2 = [8, 8] := by decide

/-- a successful call on it (the unit returns blocks of the wrong length; irrelevant here) -/
example : (exStore.process DivArith.exact exUnit3 [[1, 2, 3, 4], [5, 6, 7, 8]] [6, 6] none).1.store.map
    List.length = [8, 8] := by decide

/-- a state with one overlap but two stores (never built by the constructor) -/
def exBad : FState Nat Unit := { exStore with ov := [()] }

/-- without `StoreHyp` the equality of `process_storage` fails: the second store is dropped
(the first keeps its length, as `process_storage_prefix` says) -/
theorem process_storage_needs_hyp :
    (exBad.process DivArith.exact exUnit3 [[1, 2, 3, 4], [5, 6, 7, 8]] [6, 6] none).1.store.map List.length
      = [8] ∧ exBad.store.map List.length = [8, 8] := by decide

end Examples

end Rubato.FftProofs
