/-
Data plane of the synchronous (FFT) resamplers, single channel: which frames go into the unit
`FftResampler::resample_unit` (abstract: `u : FftUnit σ υ`) and where its outputs go.

The reference is `refStream u fftIn st l`: the concatenation of `u.run` over the consecutive full
blocks of `fftIn` frames of `l`, threading the overlap state from `st`.  The only law assumed about
the unit is the length law `hu : (u.run st b).1.length = fftOut` for blocks of `fftIn` frames.
-/
import RubatoProofs.Fft.Control
namespace Rubato.FftProofs
open Rubato
variable {σ υ : Type}

/-! ## The reference stream -/

/-- run the unit over a list of blocks, threading the overlap state (total version of `runBlocks`) -/
def runAll (u : FftUnit σ υ) : υ → List (List σ) → List (List σ) × υ
  | st, [] => ([], st)
  | st, b :: bs => ((u.run st b).1 :: (runAll u (u.run st b).2 bs).1, (runAll u (u.run st b).2 bs).2)

theorem runBlocks_eq_runAll (u : FftUnit σ υ) (n : Nat) :
    ∀ (bs : List (List σ)) (st : υ), (∀ b ∈ bs, b.length = n) → runBlocks u n st bs = some (runAll u st bs)
  | [], _, _ => rfl
  | b :: bs, st, h => by
    have hb : b.length = n := h b (List.mem_cons_self ..)
    have ih := runBlocks_eq_runAll u n bs (u.run st b).2 (fun b' hb' => h b' (List.mem_cons_of_mem _ hb'))
    simp only [runBlocks, hb, ne_eq, not_true_eq_false, if_false, ih, runAll]

theorem runAll_append (u : FftUnit σ υ) :
    ∀ (a b : List (List σ)) (st : υ),
      runAll u st (a ++ b) =
        ((runAll u st a).1 ++ (runAll u (runAll u st a).2 b).1, (runAll u (runAll u st a).2 b).2)
  | [], _, _ => rfl
  | x :: a, b, st => by
    simp only [List.cons_append, runAll, runAll_append u a b (u.run st x).2]

/-- under the length law of the unit, `k` input blocks give `k * m` output frames -/
theorem runAll_flatten_length (u : FftUnit σ υ) {n m : Nat}
    (hu : ∀ st b, b.length = n → (u.run st b).1.length = m) :
    ∀ (bs : List (List σ)) (st : υ), (∀ b ∈ bs, b.length = n) →
      (runAll u st bs).1.flatten.length = bs.length * m
  | [], _, _ => by simp [runAll]
  | b :: bs, st, h => by
    have hb : b.length = n := h b (List.mem_cons_self ..)
    have ih := runAll_flatten_length u hu bs (u.run st b).2 (fun b' hb' => h b' (List.mem_cons_of_mem _ hb'))
    simp only [runAll, List.flatten_cons, List.length_append, ih, hu st b hb, List.length_cons]
    rw [Nat.add_mul, Nat.one_mul, Nat.add_comm]

theorem fullBlocks_append_prefix (n : Nat) :
    ∀ (k : Nat) (l l' : List σ), k * n ≤ l.length → fullBlocks n k (l ++ l') = fullBlocks n k l
  | 0, _, _, _ => rfl
  | k + 1, l, l', h => by
    rw [Nat.add_mul, Nat.one_mul] at h
    simp only [fullBlocks]
    rw [List.take_append_of_le_length (by omega), List.drop_append_of_le_length (by omega),
      fullBlocks_append_prefix n k _ _ (by rw [List.length_drop]; omega)]

theorem fullBlocks_add (n : Nat) :
    ∀ (k1 k2 : Nat) (l : List σ),
      fullBlocks n (k1 + k2) l = fullBlocks n k1 l ++ fullBlocks n k2 (l.drop (k1 * n))
  | 0, k2, l => by simp [fullBlocks]
  | k1 + 1, k2, l => by
    rw [show k1 + 1 + k2 = (k1 + k2) + 1 by omega]
    simp only [fullBlocks, List.cons_append]
    have e : n + k1 * n = (k1 + 1) * n := by rw [Nat.add_mul, Nat.one_mul]; omega
    rw [fullBlocks_add n k1 k2 (l.drop n), List.drop_drop, e]

/-- the consecutive full blocks of `n` frames of `l`, run through the unit from state `st` -/
def refBlocks (u : FftUnit σ υ) (n : Nat) (st : υ) (l : List σ) : List (List σ) × υ :=
  runAll u st (fullBlocks n (l.length / n) l)

/-- **the reference stream**: concatenation of the unit's outputs over the consecutive full blocks -/
def refStream (u : FftUnit σ υ) (n : Nat) (st : υ) (l : List σ) : List σ :=
  (refBlocks u n st l).1.flatten

/-- the overlap state after all full blocks of `l` -/
def refState (u : FftUnit σ υ) (n : Nat) (st : υ) (l : List σ) : υ :=
  (refBlocks u n st l).2

/-- the frames of `l` after its last full block -/
def pending (n : Nat) (l : List σ) : List σ := l.drop (l.length / n * n)

theorem pending_length {n : Nat} (l : List σ) : (pending n l).length = l.length % n := by
  unfold pending
  rw [List.length_drop]
  have := Nat.div_add_mod l.length n
  rw [Nat.mul_comm] at this
  omega

theorem div_split {n : Nat} (hn : 0 < n) (a b : Nat) : (a + b) / n = a / n + (a % n + b) / n := by
  have h := Nat.div_add_mod a n
  calc (a + b) / n = (n * (a / n) + (a % n + b)) / n := by rw [← Nat.add_assoc, h]
    _ = a / n + (a % n + b) / n := by rw [Nat.mul_add_div hn]

/-- **the reference is compositional**: feeding `l ++ x` is feeding `l`, then feeding the frames `l`
left pending followed by `x`, from the state `l` left. -/
theorem ref_append (u : FftUnit σ υ) {n : Nat} (hn : 0 < n) (st : υ) (l x : List σ) :
    refStream u n st (l ++ x) = refStream u n st l ++ refStream u n (refState u n st l) (pending n l ++ x) ∧
    refState u n st (l ++ x) = refState u n (refState u n st l) (pending n l ++ x) ∧
    pending n (l ++ x) = pending n (pending n l ++ x) := by
  have hK : l.length / n * n ≤ l.length := Nat.div_mul_le_self _ _
  have hlen : (l ++ x).length / n = l.length / n + (pending n l ++ x).length / n := by
    rw [List.length_append, List.length_append, pending_length, div_split hn]
  have hblocks : fullBlocks n ((l ++ x).length / n) (l ++ x) =
      fullBlocks n (l.length / n) l ++ fullBlocks n ((pending n l ++ x).length / n) (pending n l ++ x) := by
    rw [hlen, fullBlocks_add, fullBlocks_append_prefix n _ _ _ hK, List.drop_append_of_le_length hK]
    rfl
  refine ⟨?_, ?_, ?_⟩
  · simp only [refStream, refState, refBlocks, hblocks, runAll_append, List.flatten_append]
  · simp only [refState, refBlocks, hblocks, runAll_append]
  · unfold pending
    rw [hlen, Nat.add_mul, ← List.drop_drop, List.drop_append_of_le_length hK]
    rfl

theorem pending_eq_nil {n : Nat} (l : List σ) (h : l.length % n = 0) : pending n l = [] := by
  apply List.eq_nil_of_length_eq_zero
  rw [pending_length, h]

end Rubato.FftProofs
