/-
Data plane of the synchronous (FFT) resamplers, single channel: which frames go into the unit
`FftResampler::resample_unit` (abstract: `u : FftUnit σ υ`) and where its outputs go.

The reference is `refStream u fftIn st l`: the concatenation of `u.run` over the consecutive full
blocks of `fftIn` frames of `l`, threading the overlap state from `st`.  The only law assumed about
the unit is the length law `hu : (u.run st b).1.length = fftOut` for blocks of `fftIn` frames.
-/
import RubatoProofs.Fft.Control
namespace Rubato.FftProofs
open Rubato
variable {σ υ : Type}

/-! ## The reference stream -/

/-- run the unit over a list of blocks, threading the overlap state (total version of `runBlocks`) -/
def runAll (u : FftUnit σ υ) : υ → List (List σ) → List (List σ) × υ
  | st, [] => ([], st)
  | st, b :: bs => ((u.run st b).1 :: (runAll u (u.run st b).2 bs).1, (runAll u (u.run st b).2 bs).2)

theorem runBlocks_eq_runAll (u : FftUnit σ υ) (n : Nat) :
    ∀ (bs : List (List σ)) (st : υ), (∀ b ∈ bs, b.length = n) → runBlocks u n st bs = some (runAll u st bs)
  | [], _, _ => rfl
  | b :: bs, st, h => by
    have hb : b.length = n := h b (List.mem_cons_self ..)
    have ih := runBlocks_eq_runAll u n bs (u.run st b).2 (fun b' hb' => h b' (List.mem_cons_of_mem _ hb'))
    simp only [runBlocks, hb, ne_eq, not_true_eq_false, if_false, ih, runAll]

theorem runAll_append (u : FftUnit σ υ) :
    ∀ (a b : List (List σ)) (st : υ),
      runAll u st (a ++ b) =
        ((runAll u st a).1 ++ (runAll u (runAll u st a).2 b).1, (runAll u (runAll u st a).2 b).2)
  | [], _, _ => rfl
  | x :: a, b, st => by
    simp only [List.cons_append, runAll, runAll_append u a b (u.run st x).2]

/-- under the length law of the unit, `k` input blocks give `k * m` output frames -/
theorem runAll_flatten_length (u : FftUnit σ υ) {n m : Nat}
    (hu : ∀ st b, b.length = n → (u.run st b).1.length = m) :
    ∀ (bs : List (List σ)) (st : υ), (∀ b ∈ bs, b.length = n) →
      (runAll u st bs).1.flatten.length = bs.length * m
  | [], _, _ => by simp [runAll]
  | b :: bs, st, h => by
    have hb : b.length = n := h b (List.mem_cons_self ..)
    have ih := runAll_flatten_length u hu bs (u.run st b).2 (fun b' hb' => h b' (List.mem_cons_of_mem _ hb'))
    simp only [runAll, List.flatten_cons, List.length_append, ih, hu st b hb, List.length_cons]
    rw [Nat.add_mul, Nat.one_mul, Nat.add_comm]

theorem fullBlocks_append_prefix (n : Nat) :
    ∀ (k : Nat) (l l' : List σ), k * n ≤ l.length → fullBlocks n k (l ++ l') = fullBlocks n k l
  | 0, _, _, _ => rfl
  | k + 1, l, l', h => by
    rw [Nat.add_mul, Nat.one_mul] at h
    simp only [fullBlocks]
    rw [List.take_append_of_le_length (by omega), List.drop_append_of_le_length (by omega),
      fullBlocks_append_prefix n k _ _ (by rw [List.length_drop]; omega)]

theorem fullBlocks_add (n : Nat) :
    ∀ (k1 k2 : Nat) (l : List σ),
      fullBlocks n (k1 + k2) l = fullBlocks n k1 l ++ fullBlocks n k2 (l.drop (k1 * n))
  | 0, k2, l => by simp [fullBlocks]
  | k1 + 1, k2, l => by
    rw [show k1 + 1 + k2 = (k1 + k2) + 1 by omega]
    simp only [fullBlocks, List.cons_append]
    have e : n + k1 * n = (k1 + 1) * n := by rw [Nat.add_mul, Nat.one_mul]; omega
    rw [fullBlocks_add n k1 k2 (l.drop n), List.drop_drop, e]

/-- the consecutive full blocks of `n` frames of `l`, run through the unit from state `st` -/
def refBlocks (u : FftUnit σ υ) (n : Nat) (st : υ) (l : List σ) : List (List σ) × υ :=
  runAll u st (fullBlocks n (l.length / n) l)

/-- **the reference stream**: concatenation of the unit's outputs over the consecutive full blocks -/
def refStream (u : FftUnit σ υ) (n : Nat) (st : υ) (l : List σ) : List σ :=
  (refBlocks u n st l).1.flatten

/-- the overlap state after all full blocks of `l` -/
def refState (u : FftUnit σ υ) (n : Nat) (st : υ) (l : List σ) : υ :=
  (refBlocks u n st l).2

/-- the frames of `l` after its last full block -/
def pending (n : Nat) (l : List σ) : List σ := l.drop (l.length / n * n)

theorem pending_length {n : Nat} (l : List σ) : (pending n l).length = l.length % n := by
  unfold pending
  rw [List.length_drop]
  have := Nat.div_add_mod l.length n
  rw [Nat.mul_comm] at this
  omega

theorem div_split {n : Nat} (hn : 0 < n) (a b : Nat) : (a + b) / n = a / n + (a % n + b) / n := by
  have h := Nat.div_add_mod a n
  calc (a + b) / n = (n * (a / n) + (a % n + b)) / n := by rw [← Nat.add_assoc, h]
    _ = a / n + (a % n + b) / n := by rw [Nat.mul_add_div hn]

/-- **the reference is compositional**: feeding `l ++ x` is feeding `l`, then feeding the frames `l`
left pending followed by `x`, from the state `l` left. -/
theorem ref_append (u : FftUnit σ υ) {n : Nat} (hn : 0 < n) (st : υ) (l x : List σ) :
    refStream u n st (l ++ x) = refStream u n st l ++ refStream u n (refState u n st l) (pending n l ++ x) ∧
    refState u n st (l ++ x) = refState u n (refState u n st l) (pending n l ++ x) ∧
    pending n (l ++ x) = pending n (pending n l ++ x) := by
  have hK : l.length / n * n ≤ l.length := Nat.div_mul_le_self _ _
  have hlen : (l ++ x).length / n = l.length / n + (pending n l ++ x).length / n := by
    rw [List.length_append, List.length_append, pending_length, div_split hn]
  have hblocks : fullBlocks n ((l ++ x).length / n) (l ++ x) =
      fullBlocks n (l.length / n) l ++ fullBlocks n ((pending n l ++ x).length / n) (pending n l ++ x) := by
    rw [hlen, fullBlocks_add, fullBlocks_append_prefix n _ _ _ hK, List.drop_append_of_le_length hK]
    rfl
  refine ⟨?_, ?_, ?_⟩
  · simp only [refStream, refState, refBlocks, hblocks, runAll_append, List.flatten_append]
  · simp only [refState, refBlocks, hblocks, runAll_append]
  · unfold pending
    rw [hlen, Nat.add_mul, ← List.drop_drop, List.drop_append_of_le_length hK]
    rfl

theorem pending_eq_nil {n : Nat} (l : List σ) (h : l.length % n = 0) : pending n l = [] := by
  apply List.eq_nil_of_length_eq_zero
  rw [pending_length, h]

/-! ## One call, one channel -/

theorem overlay_eq (buf : List σ) (pos : Nat) (data : List σ) (h : pos + data.length ≤ buf.length) :
    overlay buf pos data = buf.take pos ++ data ++ buf.drop (pos + data.length) := by
  unfold overlay
  rw [List.take_of_length_le (l := data) (by omega)]

theorem overlay_zero_take (buf data : List σ) (h : data.length ≤ buf.length) :
    (overlay buf 0 data).take data.length = data := by
  rw [overlay_eq buf 0 data (by omega)]
  simp

/-- the mask of a single-channel call with the channel active -/
theorem effMask_one {um : Option (List Bool)} (hm : um = none ∨ um = some [true]) :
    effMask 1 um = [true] := by
  rcases hm with rfl | rfl <;> rfl

theorem fftIn_step (u : FftUnit σ υ) {s : FState σ υ} {x : List σ} {ol : Nat} {um : Option (List Bool)}
    (hu : ∀ st b, b.length = s.fftIn → (u.run st b).1.length = s.fftOut)
    (hk : s.kind = .fftIn) (hwf : WF s) (h1 : s.nch = 1) (hm : um = none ∨ um = some [true])
    (hv : ValidArgs s [x] [ol] um) {st : υ} {buf : List σ} (hov : s.ov = [st]) (hst : s.store = [buf]) :
    ∃ s' r buf', s.process DivArith.exact u [x] [ol] um = (s', .ok r) ∧
      r.out = [some (refStream u s.fftIn st (buf.take s.saved ++ x.take s.chunkIn))] ∧
      s'.ov = [refState u s.fftIn st (buf.take s.saved ++ x.take s.chunkIn)] ∧
      s'.store = [buf'] ∧
      buf'.take s'.saved = pending s.fftIn (buf.take s.saved ++ x.take s.chunkIn) ∧
      r.nIn ≤ x.length ∧
      (refStream u s.fftIn st (buf.take s.saved ++ x.take s.chunkIn)).length = r.nOut := by
  obtain ⟨hsv, hstl⟩ := hwf.fftIn_inv hk
  have hbl : buf.length = s.chunkIn + s.fftIn := hstl buf (by rw [hst]; exact List.mem_singleton_self _)
  have hfi := hwf.fftIn_pos
  have hfo := hwf.fftOut_pos
  have hum := hv.updateMask_eq
  have hem : effMask s.nch um = [true] := by rw [h1]; exact effMask_one hm
  have hval := hv.validate
  have hxl : s.chunkIn ≤ x.length := by
    have := hv.in_frames 0 (by simp) (by rw [hem]; simp) (by simp [hem])
    simpa [FState.inputFramesNext, hk] using this
  have hol : (s.saved + s.chunkIn) / s.fftIn * s.fftOut ≤ ol := by
    have := hv.out_frames 0 (by simp) (by rw [hem]; simp) (by simp [hem])
    simpa [FState.outputFramesNext, hk, fdiv_exact] using this
  simp only [FState.inputFramesNext, FState.outputFramesNext, hk, fdiv_exact, hem, List.map_cons, List.map_nil] at hval
  have hdm := Nat.div_mul_le_self (s.saved + s.chunkIn) s.fftIn
  have hused : ¬ ((s.saved + s.chunkIn) / s.fftIn * s.fftIn > s.saved + s.chunkIn) := by omega
  -- the frames held after the input has been appended
  have hPl : (buf.take s.saved ++ x.take s.chunkIn).length = s.saved + s.chunkIn := by
    rw [List.length_append, List.length_take, List.length_take]; omega
  have hstore1 : overlay buf s.saved (List.take s.chunkIn x) =
      (buf.take s.saved ++ x.take s.chunkIn) ++ buf.drop (s.saved + s.chunkIn) := by
    rw [overlay_eq _ _ _ (by rw [List.length_take]; omega), List.length_take, Nat.min_eq_left hxl]
  generalize hP : buf.take s.saved ++ x.take s.chunkIn = P at *
  have hblocks : List.take (if s.fftOut = 0 then 0 else (ol + s.fftOut - 1) / s.fftOut)
      (List.take ((s.saved + s.chunkIn) / s.fftIn)
        (chunksOf s.fftIn (overlay buf s.saved (List.take s.chunkIn x)))) =
      fullBlocks s.fftIn (P.length / s.fftIn) P := by
    rw [if_neg (by omega), List.take_take, Nat.min_eq_right, hstore1, hPl,
      take_chunksOf hfi _ _ (by rw [List.length_append, hPl]; omega),
      fullBlocks_append_prefix _ _ _ _ (by rw [hPl]; exact hdm)]
    rw [Nat.le_div_iff_mul_le hfo]; omega
  have hbl2 : ∀ b ∈ fullBlocks s.fftIn (P.length / s.fftIn) P, b.length = s.fftIn :=
    fullBlocks_block_length _ _ _ (Nat.div_mul_le_self _ _)
  unfold FState.process
  simp only [hum, hem, hk, hval, fdiv_exact, if_neg hused, hov, hst, List.zip_cons_cons, List.zip_nil_right,
    mapActive, mapActive.go, if_true, hblocks, runBlocks_eq_runAll u _ _ st hbl2, List.map_cons, List.map_nil]
  have hfl : (runAll u st (fullBlocks s.fftIn (P.length / s.fftIn) P)).1.flatten.length =
      (s.saved + s.chunkIn) / s.fftIn * s.fftOut := by
    rw [runAll_flatten_length u hu _ _ hbl2, fullBlocks_length, hPl]
  refine ⟨_, _, _, rfl, ?_, rfl, rfl, ?_, hxl, hfl⟩
  · simp only [refStream, refBlocks]
    rw [List.take_take, List.take_of_length_le (by rw [hfl]; omega)]
  · simp only [hstore1]
    unfold pending
    rw [hPl]
    by_cases hc : s.saved + s.chunkIn > (s.saved + s.chunkIn) / s.fftIn * s.fftIn
    · simp only [hc, if_true]
      have hD : (List.take (s.saved + s.chunkIn - (s.saved + s.chunkIn) / s.fftIn * s.fftIn)
          (List.drop ((s.saved + s.chunkIn) / s.fftIn * s.fftIn) (P ++ List.drop (s.saved + s.chunkIn) buf))) =
          List.drop ((s.saved + s.chunkIn) / s.fftIn * s.fftIn) P := by
        rw [List.drop_append_of_le_length (by omega), List.take_append_of_le_length (by rw [List.length_drop]; omega),
          List.take_of_length_le (by rw [List.length_drop]; omega)]
      rw [hD]
      have hDl : (List.drop ((s.saved + s.chunkIn) / s.fftIn * s.fftIn) P).length =
          s.saved + s.chunkIn - (s.saved + s.chunkIn) / s.fftIn * s.fftIn := by
        rw [List.length_drop, hPl]
      rw [← hDl]
      exact overlay_zero_take _ _ (by rw [hDl, List.length_append, hPl]; omega)
    · simp only [hc, if_false]
      have h0 : s.saved + s.chunkIn - (s.saved + s.chunkIn) / s.fftIn * s.fftIn = 0 := by omega
      rw [h0, List.take_zero, List.drop_of_length_le (by omega)]


theorem fftOut_step (u : FftUnit σ υ) {s : FState σ υ} {x : List σ} {ol : Nat} {um : Option (List Bool)}
    (hu : ∀ st b, b.length = s.fftIn → (u.run st b).1.length = s.fftOut)
    (hk : s.kind = .fftOut) (hwf : WF s) (h1 : s.nch = 1) (hm : um = none ∨ um = some [true])
    (hv : ValidArgs s [x] [ol] um) {st : υ} {buf : List σ} (hov : s.ov = [st]) (hst : s.store = [buf]) :
    ∃ s' r buf', s.process DivArith.exact u [x] [ol] um = (s', .ok r) ∧
      r.out = [some ((buf.take s.saved ++ refStream u s.fftIn st (x.take s.framesNeeded)).take s.chunkOut)] ∧
      s'.ov = [refState u s.fftIn st (x.take s.framesNeeded)] ∧
      s'.store = [buf'] ∧
      buf'.take s'.saved =
        (buf.take s.saved ++ refStream u s.fftIn st (x.take s.framesNeeded)).drop s.chunkOut ∧
      (x.take s.framesNeeded).length % s.fftIn = 0 ∧
      r.nIn ≤ x.length ∧
      ((buf.take s.saved ++ refStream u s.fftIn st (x.take s.framesNeeded)).take s.chunkOut).length = r.nOut := by
  obtain ⟨hsv, hfn, hstl⟩ := hwf.fftOut_inv hk
  have hbl : buf.length = s.chunkOut + s.fftOut := hstl buf (by rw [hst]; exact List.mem_singleton_self _)
  have hfi := hwf.fftIn_pos
  have hfo := hwf.fftOut_pos
  have hum := hv.updateMask_eq
  have hem : effMask s.nch um = [true] := by rw [h1]; exact effMask_one hm
  have hval := hv.validate
  have hxl : s.framesNeeded ≤ x.length := by
    have := hv.in_frames 0 (by simp) (by rw [hem]; simp) (by simp [hem])
    simpa [FState.inputFramesNext, hk] using this
  simp only [FState.inputFramesNext, FState.outputFramesNext, hk, hem, List.map_cons, List.map_nil] at hval
  have hq : s.framesNeeded / s.fftIn = (s.chunkOut - s.saved + s.fftOut - 1) / s.fftOut := by
    rw [hfn]; exact Nat.mul_div_cancel _ hfi
  have hc1 := le_cdiv_mul (a := s.chunkOut - s.saved) hfo
  have hc2 := cdiv_mul_le (s.chunkOut - s.saved) s.fftOut
  have hcopy := fftOut_copyOut hwf hk
  have hge : s.chunkOut ≤ s.saved + s.fftOut * (s.framesNeeded / s.fftIn) := of_decide_eq_true hcopy
  have hlt : s.saved + s.fftOut * (s.framesNeeded / s.fftIn) - s.chunkOut < s.fftOut := by
    rw [hq]
    rcases Nat.lt_or_ge s.saved s.chunkOut with hc | hc
    · rw [Nat.mul_comm]; omega
    · have h0 : s.chunkOut - s.saved = 0 := by omega
      rw [h0, cdiv_zero]; omega
  have hany1 : (s.store.any fun b => decide (s.saved > b.length)) = false := by
    rw [List.any_eq_false]
    intro b hb
    rw [hstl b hb]
    simp only [decide_eq_true_eq]; omega
  have hany2 : (s.store.any fun b => decide (s.chunkOut +
      (s.saved + s.fftOut * (s.framesNeeded / s.fftIn) - s.chunkOut) > b.length)) = false := by
    rw [List.any_eq_false]
    intro b hb
    rw [hstl b hb]
    simp only [decide_eq_true_eq]; omega
  rw [hst] at hany1 hany2
  -- the input consumed: exactly `framesNeeded / fftIn` full blocks
  have hXl : (x.take s.framesNeeded).length = s.framesNeeded / s.fftIn * s.fftIn := by
    rw [List.length_take, Nat.min_eq_left hxl, hq, ← hfn]
  generalize hX : x.take s.framesNeeded = X at *
  have hXd : X.length / s.fftIn = s.framesNeeded / s.fftIn := by
    rw [hXl, Nat.mul_div_cancel _ hfi]
  have hblocks : List.take (if s.fftOut = 0 then 0 else (buf.length - s.saved + s.fftOut - 1) / s.fftOut)
      (chunksOf s.fftIn X) = fullBlocks s.fftIn (X.length / s.fftIn) X := by
    rw [if_neg (by omega), chunksOf_exact hfi _ _ hXl, hXd, List.take_of_length_le]
    rw [fullBlocks_length, Nat.le_div_iff_mul_le hfo, hq, hbl]
    omega
  have hbl2 : ∀ b ∈ fullBlocks s.fftIn (X.length / s.fftIn) X, b.length = s.fftIn :=
    fullBlocks_block_length _ _ _ (Nat.div_mul_le_self _ _)
  have hRl : (refStream u s.fftIn st X).length = s.fftOut * (s.framesNeeded / s.fftIn) := by
    unfold refStream refBlocks
    rw [runAll_flatten_length u hu _ _ hbl2, fullBlocks_length, hXd, Nat.mul_comm]
  unfold FState.process
  simp only [hum, hem, hk, hval, hcopy, if_true, hany1, hany2, Bool.and_false, Bool.false_eq_true, if_false,
    hov, hst, List.zip_cons_cons, List.zip_nil_right, mapActive, mapActive.go, hblocks,
    runBlocks_eq_runAll u _ _ st hbl2, List.map_cons, List.map_nil, hX]
  have hRdef : (runAll u st (fullBlocks s.fftIn (X.length / s.fftIn) X)).1.flatten = refStream u s.fftIn st X := rfl
  rw [hRdef]
  generalize hR : refStream u s.fftIn st X = R at *
  have hstore1 : overlay buf s.saved R = (buf.take s.saved ++ R) ++ buf.drop (s.saved + R.length) :=
    overlay_eq _ _ _ (by rw [hRl, hbl]; omega)
  have hWl : (buf.take s.saved ++ R).length = s.saved + s.fftOut * (s.framesNeeded / s.fftIn) := by
    rw [List.length_append, List.length_take, hRl, hbl]; omega
  rw [hstore1]
  generalize hW : buf.take s.saved ++ R = W at *
  refine ⟨_, _, _, rfl, ?_, rfl, rfl, ?_, ?_, hxl, ?_⟩
  · simp only
    rw [List.take_append_of_le_length (by omega)]
  · simp only
    have hD : List.take (s.saved + s.fftOut * (s.framesNeeded / s.fftIn) - s.chunkOut)
        (List.drop s.chunkOut (W ++ List.drop (s.saved + R.length) buf)) = List.drop s.chunkOut W := by
      rw [List.drop_append_of_le_length (by omega), List.take_append_of_le_length (by rw [List.length_drop]; omega),
        List.take_of_length_le (by rw [List.length_drop]; omega)]
    rw [hD]
    have hDl : (List.drop s.chunkOut W).length = s.saved + s.fftOut * (s.framesNeeded / s.fftIn) - s.chunkOut := by
      rw [List.length_drop, hWl]
    rw [← hDl]
    exact overlay_zero_take _ _ (by rw [hDl, List.length_append, hWl]; omega)
  · rw [hXl]; exact Nat.mul_mod_left _ _
  · simp only
    rw [List.length_take, hWl]; omega


/-- the reference over exactly one block -/
theorem ref_one_block (u : FftUnit σ υ) {n : Nat} (hn : 0 < n) (st : υ) (X : List σ) (hX : X.length = n) :
    refStream u n st X = (u.run st X).1 ∧ refState u n st X = (u.run st X).2 := by
  have h1 : X.length / n = 1 := by rw [hX]; exact Nat.div_self hn
  have h2 : List.take n X = X := List.take_of_length_le (by omega)
  simp [refStream, refState, refBlocks, h1, fullBlocks, runAll, h2]

theorem fftIo_step (u : FftUnit σ υ) {s : FState σ υ} {x : List σ} {ol : Nat} {um : Option (List Bool)}
    (hu : ∀ st b, b.length = s.fftIn → (u.run st b).1.length = s.fftOut)
    (hk : s.kind = .fftIo) (hwf : WF s) (h1 : s.nch = 1) (hm : um = none ∨ um = some [true])
    (hv : ValidArgs s [x] [ol] um) {st : υ} (hov : s.ov = [st]) :
    ∃ s' r, s.process DivArith.exact u [x] [ol] um = (s', .ok r) ∧
      r.out = [some (refStream u s.fftIn st (x.take s.fftIn))] ∧
      s'.ov = [refState u s.fftIn st (x.take s.fftIn)] ∧
      (x.take s.fftIn).length = s.fftIn ∧
      r.nIn ≤ x.length ∧
      (refStream u s.fftIn st (x.take s.fftIn)).length = r.nOut := by
  obtain ⟨hci, hco, -⟩ := hwf.fftIo_inv hk
  have hfi := hwf.fftIn_pos
  have hum := hv.updateMask_eq
  have hem : effMask s.nch um = [true] := by rw [h1]; exact effMask_one hm
  have hval := hv.validate
  have hxl : s.fftIn ≤ x.length := by
    have := hv.in_frames 0 (by simp) (by rw [hem]; simp) (by simp [hem])
    simpa [FState.inputFramesNext, hk] using this
  simp only [FState.inputFramesNext, FState.outputFramesNext, hk, hem, hco, List.map_cons, List.map_nil] at hval
  have hXl : (x.take s.fftIn).length = s.fftIn := by rw [List.length_take]; omega
  obtain ⟨hr1, hr2⟩ := ref_one_block u hfi st _ hXl
  rw [hr1, hr2]
  generalize hX : x.take s.fftIn = X at *
  unfold FState.process
  simp only [hum, hem, hk, hci, hco, hval, hov, List.zip_cons_cons, List.zip_nil_right, mapActive, mapActive.go,
    if_true, runBlocks, hX, hXl, ne_eq, not_true_eq_false, if_false, List.map_cons, List.map_nil]
  refine ⟨_, _, rfl, ?_, rfl, trivial, hxl, hu st X hXl⟩
  simp only
  rw [List.take_of_length_le (by rw [hu st X hXl])]


/-! ## Histories, one channel -/

/-- the frames offered on channel 0 -/
def chanIn (c : Call σ) : List σ := c.input.headD []
/-- the frames returned on channel 0 -/
def chanOut (r : FCallOut σ) : List σ := (r.out.headD none).getD []

/-- run a history, collecting the frames consumed (`r.nIn` of what was offered) and the frames
returned on channel 0 -/
def runStream (u : FftUnit σ υ) : FState σ υ → List σ × List σ → List (Call σ) → FState σ υ × List σ × List σ
  | s, acc, [] => (s, acc)
  | s, acc, c :: cs =>
    match s.process DivArith.exact u c.input c.outLens c.mask with
    | (s', .ok r) => runStream u s' (acc.1 ++ (chanIn c).take r.nIn, acc.2 ++ chanOut r) cs
    | (s', _) => runStream u s' acc cs

/-- channel 0 is active in every call -/
def Active1 (cs : List (Call σ)) : Prop := ∀ c ∈ cs, c.mask = none ∨ c.mask = some [true]

/-- invariants proved call by call carry over to histories of any length; and if every call consumes
`r.nIn` and returns `r.nOut` frames on channel 0, the streams collected by `runStream` have the
lengths `runCalls` adds up -/
theorem runStream_inv (u : FftUnit σ υ) (Inv : FState σ υ → List σ → List σ → Prop)
    (step : ∀ (s : FState σ υ) (I O : List σ) (c : Call σ) (s' : FState σ υ) (r : FCallOut σ),
      WF s → Inv s I O → ValidArgs s c.input c.outLens c.mask → (c.mask = none ∨ c.mask = some [true]) →
      s.process DivArith.exact u c.input c.outLens c.mask = (s', .ok r) → CallSpec s s' r c.mask →
      Inv s' (I ++ (chanIn c).take r.nIn) (O ++ chanOut r) ∧
      ((chanIn c).take r.nIn).length = r.nIn ∧ (chanOut r).length = r.nOut) :
    ∀ (cs : List (Call σ)) (s : FState σ υ) (I O : List σ), WF s → Inv s I O → ValidHist u s cs → Active1 cs →
      WF (runStream u s (I, O) cs).1 ∧
      Inv (runStream u s (I, O) cs).1 (runStream u s (I, O) cs).2.1 (runStream u s (I, O) cs).2.2 ∧
      (runStream u s (I, O) cs).1 = (runCalls u s (I.length, O.length) cs).1 ∧
      (runStream u s (I, O) cs).2.1.length = (runCalls u s (I.length, O.length) cs).2.1 ∧
      (runStream u s (I, O) cs).2.2.length = (runCalls u s (I.length, O.length) cs).2.2
  | [], _, _, _, hwf, hI, _, _ => ⟨hwf, hI, rfl, rfl, rfl⟩
  | c :: cs, s, I, O, hwf, hI, hv, ha => by
    obtain ⟨hv1, hv2⟩ := hv
    obtain ⟨s', r, hp, hspec⟩ := process_ok u hwf hv1
    rw [hp] at hv2
    obtain ⟨hI', hl1, hl2⟩ := step s I O c s' r hwf hI hv1 (ha c (List.mem_cons_self ..)) hp hspec
    have ih := runStream_inv u Inv step cs s' _ _ hspec.wf hI' hv2
      (fun c' hc' => ha c' (List.mem_cons_of_mem _ hc'))
    simp only [runStream, runCalls, hp]
    rw [List.length_append, List.length_append, hl1, hl2] at ih
    exact ih

/-- a one-channel call has the shape `[x]`, `[ol]` -/
theorem one_channel {s : FState σ υ} {c : Call σ} (h1 : s.nch = 1)
    (hv : ValidArgs s c.input c.outLens c.mask) : ∃ x ol, c.input = [x] ∧ c.outLens = [ol] := by
  obtain ⟨x, hx⟩ := List.length_eq_one_iff.mp (hv.in_len.trans h1)
  obtain ⟨ol, hol⟩ := List.length_eq_one_iff.mp (hv.out_len.trans h1)
  exact ⟨x, ol, hx, hol⟩

theorem ref_nil (u : FftUnit σ υ) (n : Nat) (st : υ) :
    refStream u n st [] = [] ∧ refState u n st [] = st ∧ pending n ([] : List σ) = [] := by
  simp [refStream, refState, refBlocks, pending, fullBlocks, runAll]

/-! ### FftFixedIn -/

/-- the state of a one-channel FftFixedIn after consuming `I` and returning `O` -/
def StreamInvIn (u : FftUnit σ υ) (n m : Nat) (s : FState σ υ) (I O : List σ) : Prop :=
  s.kind = .fftIn ∧ s.nch = 1 ∧ s.fftIn = n ∧ s.fftOut = m ∧
  ∃ buf, s.ov = [refState u n u.init I] ∧ s.store = [buf] ∧ buf.take s.saved = pending n I ∧
    O = refStream u n u.init I

theorem fftIn_stream_inv (u : FftUnit σ υ) {n m : Nat}
    (hu : ∀ st b, b.length = n → (u.run st b).1.length = m)
    (cs : List (Call σ)) (s : FState σ υ) (I O : List σ) (hwf : WF s) (hI : StreamInvIn u n m s I O)
    (hv : ValidHist u s cs) (ha : Active1 cs) :
    WF (runStream u s (I, O) cs).1 ∧
    StreamInvIn u n m (runStream u s (I, O) cs).1 (runStream u s (I, O) cs).2.1 (runStream u s (I, O) cs).2.2 ∧
    (runStream u s (I, O) cs).1 = (runCalls u s (I.length, O.length) cs).1 ∧
    (runStream u s (I, O) cs).2.1.length = (runCalls u s (I.length, O.length) cs).2.1 ∧
    (runStream u s (I, O) cs).2.2.length = (runCalls u s (I.length, O.length) cs).2.2 := by
  refine runStream_inv u (StreamInvIn u n m) ?_ cs s I O hwf hI hv ha
  intro s I O c s' r hwf ⟨hk, h1, hn, hm, buf, hov, hst, hbuf, hO⟩ hv hmask hp hspec
  obtain ⟨x, ol, hx, hol⟩ := one_channel h1 hv
  rw [hx, hol] at hv hp
  subst hn hm
  obtain ⟨s'', r', buf', hp', ho, hov', hst', hbuf', hl1, hl2⟩ := fftIn_step u hu hk hwf h1 hmask hv hov hst
  rw [hp] at hp'
  obtain ⟨rfl, hr⟩ := Prod.mk.inj hp'
  obtain rfl : r = r' := Outcome.ok.inj hr
  obtain ⟨e1, e2, -, -, e5, e6⟩ := hspec.shape
  have hnin : r.nIn = s.chunkIn := by rw [hspec.nIn_eq]; simp only [FState.inputFramesNext, hk]
  have happ := ref_append u hwf.fftIn_pos u.init I (x.take s.chunkIn)
  rw [hbuf] at ho hov' hbuf' hl2
  refine ⟨⟨e1.trans hk, e2.trans h1, e5, e6, buf', ?_, hst', ?_, ?_⟩, ?_, ?_⟩
  rotate_left 3
  · simp only [chanIn, hx, List.headD_cons, List.length_take]; omega
  · simp only [chanOut, ho, List.headD_cons, Option.getD_some]; exact hl2
  · simp only [chanIn, hx, List.headD_cons, hnin]; rw [hov', happ.2.1]
  · simp only [chanIn, hx, List.headD_cons, hnin]; rw [hbuf', happ.2.2]
  · simp only [chanIn, chanOut, hx, List.headD_cons, hnin, ho, Option.getD_some]
    rw [hO, happ.1]

/-- **FftFixedIn, one channel, any valid history from a new resampler**: everything returned so far
is exactly the reference stream of everything consumed so far, and the `saved` frames at the front
of the input buffer are exactly the consumed frames not yet processed. -/
theorem fftIn_stream {u : FftUnit σ υ} {z : σ} {ri ro chunk sub : Nat} {s : FState σ υ}
    (h : FState.init DivArith.exact u z .fftIn ri ro chunk sub 1 = .ok s)
    (hu : ∀ st b, b.length = s.fftIn → (u.run st b).1.length = s.fftOut)
    (cs : List (Call σ)) (hv : ValidHist u s cs) (ha : Active1 cs) :
    (runStream u s ([], []) cs).2.2 = refStream u s.fftIn u.init (runStream u s ([], []) cs).2.1 ∧
    (∃ buf, (runStream u s ([], []) cs).1.store = [buf] ∧
      buf.take (runStream u s ([], []) cs).1.saved = pending s.fftIn (runStream u s ([], []) cs).2.1) ∧
      (runStream u s ([], []) cs).2.1.length = (runCalls u s (0, 0) cs).2.1 ∧
      (runStream u s ([], []) cs).2.2.length = (runCalls u s (0, 0) cs).2.2 := by
  obtain ⟨-, -, hk, hn, hsv, hov, -, -, hin, -⟩ := init_ok_fields h
  obtain ⟨-, -, -, -, -, hst⟩ := hin rfl
  obtain ⟨r1, r2, r3⟩ := ref_nil u s.fftIn u.init
  have h0 : StreamInvIn u s.fftIn s.fftOut s [] [] :=
    ⟨hk, hn, rfl, rfl, _, by rw [hov, r2]; rfl, by rw [hst]; rfl, by rw [hsv, r3]; rfl, r1.symm⟩
  obtain ⟨-, ⟨-, -, -, -, buf, -, k2, k3, k4⟩, -, l1, l2⟩ := fftIn_stream_inv u hu cs s [] [] (init_wf' h) h0 hv ha
  exact ⟨k4, ⟨buf, k2, k3⟩, l1, l2⟩

/-! ### FftFixedOut -/

/-- the state of a one-channel FftFixedOut after consuming `I` and returning `O`: the frames returned
followed by the `saved` frames at the front of the output buffer are the reference stream -/
def StreamInvOut (u : FftUnit σ υ) (n m : Nat) (s : FState σ υ) (I O : List σ) : Prop :=
  s.kind = .fftOut ∧ s.nch = 1 ∧ s.fftIn = n ∧ s.fftOut = m ∧ I.length % n = 0 ∧
  ∃ buf, s.ov = [refState u n u.init I] ∧ s.store = [buf] ∧
    O ++ buf.take s.saved = refStream u n u.init I

theorem fftOut_stream_inv (u : FftUnit σ υ) {n m : Nat}
    (hu : ∀ st b, b.length = n → (u.run st b).1.length = m)
    (cs : List (Call σ)) (s : FState σ υ) (I O : List σ) (hwf : WF s) (hI : StreamInvOut u n m s I O)
    (hv : ValidHist u s cs) (ha : Active1 cs) :
    WF (runStream u s (I, O) cs).1 ∧
    StreamInvOut u n m (runStream u s (I, O) cs).1 (runStream u s (I, O) cs).2.1 (runStream u s (I, O) cs).2.2 ∧
    (runStream u s (I, O) cs).1 = (runCalls u s (I.length, O.length) cs).1 ∧
    (runStream u s (I, O) cs).2.1.length = (runCalls u s (I.length, O.length) cs).2.1 ∧
    (runStream u s (I, O) cs).2.2.length = (runCalls u s (I.length, O.length) cs).2.2 := by
  refine runStream_inv u (StreamInvOut u n m) ?_ cs s I O hwf hI hv ha
  intro s I O c s' r hwf ⟨hk, h1, hn, hm, hIl, buf, hov, hst, hO⟩ hv hmask hp hspec
  obtain ⟨x, ol, hx, hol⟩ := one_channel h1 hv
  rw [hx, hol] at hv hp
  subst hn hm
  obtain ⟨s'', r', buf', hp', ho, hov', hst', hbuf', hXl, hl1, hl2⟩ := fftOut_step u hu hk hwf h1 hmask hv hov hst
  rw [hp] at hp'
  obtain ⟨rfl, hr⟩ := Prod.mk.inj hp'
  obtain rfl : r = r' := Outcome.ok.inj hr
  obtain ⟨e1, e2, -, -, e5, e6⟩ := hspec.shape
  have hnin : r.nIn = s.framesNeeded := by rw [hspec.nIn_eq]; simp only [FState.inputFramesNext, hk]
  have happ := ref_append u hwf.fftIn_pos u.init I (x.take s.framesNeeded)
  rw [pending_eq_nil I hIl, List.nil_append] at happ
  refine ⟨⟨e1.trans hk, e2.trans h1, e5, e6, ?_, buf', ?_, hst', ?_⟩, ?_, ?_⟩
  rotate_left 3
  · simp only [chanIn, hx, List.headD_cons, List.length_take]; omega
  · simp only [chanOut, ho, List.headD_cons, Option.getD_some]; exact hl2
  · simp only [chanIn, hx, List.headD_cons, hnin, List.length_append]
    rw [Nat.add_mod, hIl, hXl]; simp
  · simp only [chanIn, hx, List.headD_cons, hnin]; rw [hov', happ.2.1]
  · simp only [chanIn, chanOut, hx, List.headD_cons, hnin, ho, Option.getD_some]
    rw [hbuf', List.append_assoc, List.take_append_drop, happ.1, ← hO, List.append_assoc]

/-- **FftFixedOut, one channel, any valid history from a new resampler**: the frames returned so far,
followed by the `saved` frames at the front of the output buffer, are exactly the reference stream
of the frames consumed so far — so what was returned is its first `totalOut` frames, and the saved
frames are the next ones. -/
theorem fftOut_stream {u : FftUnit σ υ} {z : σ} {ri ro chunk sub : Nat} {s : FState σ υ}
    (h : FState.init DivArith.exact u z .fftOut ri ro chunk sub 1 = .ok s)
    (hu : ∀ st b, b.length = s.fftIn → (u.run st b).1.length = s.fftOut)
    (cs : List (Call σ)) (hv : ValidHist u s cs) (ha : Active1 cs) :
    (∃ buf, (runStream u s ([], []) cs).1.store = [buf] ∧
      (runStream u s ([], []) cs).2.2 ++ buf.take (runStream u s ([], []) cs).1.saved =
        refStream u s.fftIn u.init (runStream u s ([], []) cs).2.1 ∧
      (runStream u s ([], []) cs).2.2 =
        (refStream u s.fftIn u.init (runStream u s ([], []) cs).2.1).take (runStream u s ([], []) cs).2.2.length ∧
      buf.take (runStream u s ([], []) cs).1.saved =
        (refStream u s.fftIn u.init (runStream u s ([], []) cs).2.1).drop (runStream u s ([], []) cs).2.2.length) ∧
      (runStream u s ([], []) cs).2.1.length = (runCalls u s (0, 0) cs).2.1 ∧
      (runStream u s ([], []) cs).2.2.length = (runCalls u s (0, 0) cs).2.2 := by
  obtain ⟨-, -, hk, hn, hsv, hov, -, -, -, hout⟩ := init_ok_fields h
  obtain ⟨-, -, -, -, -, hst⟩ := hout rfl
  obtain ⟨r1, r2, r3⟩ := ref_nil u s.fftIn u.init
  have h0 : StreamInvOut u s.fftIn s.fftOut s [] [] :=
    ⟨hk, hn, rfl, rfl, by simp, _, by rw [hov, r2]; rfl, by rw [hst]; rfl, by rw [hsv, r1]; rfl⟩
  obtain ⟨-, ⟨-, -, -, -, -, buf, -, k2, k3⟩, -, l1, l2⟩ := fftOut_stream_inv u hu cs s [] [] (init_wf' h) h0 hv ha
  refine ⟨⟨buf, k2, k3, ?_, ?_⟩, l1, l2⟩
  · rw [← k3, List.take_left']; rfl
  · rw [← k3, List.drop_left']; rfl

/-! ### FftFixedInOut -/

def StreamInvIo (u : FftUnit σ υ) (n m : Nat) (s : FState σ υ) (I O : List σ) : Prop :=
  s.kind = .fftIo ∧ s.nch = 1 ∧ s.fftIn = n ∧ s.fftOut = m ∧ I.length % n = 0 ∧
  s.ov = [refState u n u.init I] ∧ O = refStream u n u.init I

theorem fftIo_stream_inv (u : FftUnit σ υ) {n m : Nat}
    (hu : ∀ st b, b.length = n → (u.run st b).1.length = m)
    (cs : List (Call σ)) (s : FState σ υ) (I O : List σ) (hwf : WF s) (hI : StreamInvIo u n m s I O)
    (hv : ValidHist u s cs) (ha : Active1 cs) :
    WF (runStream u s (I, O) cs).1 ∧
    StreamInvIo u n m (runStream u s (I, O) cs).1 (runStream u s (I, O) cs).2.1 (runStream u s (I, O) cs).2.2 ∧
    (runStream u s (I, O) cs).1 = (runCalls u s (I.length, O.length) cs).1 ∧
    (runStream u s (I, O) cs).2.1.length = (runCalls u s (I.length, O.length) cs).2.1 ∧
    (runStream u s (I, O) cs).2.2.length = (runCalls u s (I.length, O.length) cs).2.2 := by
  refine runStream_inv u (StreamInvIo u n m) ?_ cs s I O hwf hI hv ha
  intro s I O c s' r hwf ⟨hk, h1, hn, hm, hIl, hov, hO⟩ hv hmask hp hspec
  obtain ⟨x, ol, hx, hol⟩ := one_channel h1 hv
  rw [hx, hol] at hv hp
  subst hn hm
  obtain ⟨s'', r', hp', ho, hov', hXl, hl1, hl2⟩ := fftIo_step u hu hk hwf h1 hmask hv hov
  rw [hp] at hp'
  obtain ⟨rfl, hr⟩ := Prod.mk.inj hp'
  obtain rfl : r = r' := Outcome.ok.inj hr
  obtain ⟨e1, e2, -, -, e5, e6⟩ := hspec.shape
  have hnin : r.nIn = s.fftIn := by rw [hspec.nIn_eq]; simp only [FState.inputFramesNext, hk]
  have happ := ref_append u hwf.fftIn_pos u.init I (x.take s.fftIn)
  rw [pending_eq_nil I hIl, List.nil_append] at happ
  refine ⟨⟨e1.trans hk, e2.trans h1, e5, e6, ?_, ?_, ?_⟩, ?_, ?_⟩
  rotate_left 3
  · simp only [chanIn, hx, List.headD_cons, List.length_take]; omega
  · simp only [chanOut, ho, List.headD_cons, Option.getD_some]; exact hl2
  · simp only [chanIn, hx, List.headD_cons, hnin, List.length_append]
    rw [Nat.add_mod, hIl, hXl]; simp
  · simp only [chanIn, hx, List.headD_cons, hnin]; rw [hov', happ.2.1]
  · simp only [chanIn, chanOut, hx, List.headD_cons, hnin, ho, Option.getD_some]
    rw [hO, happ.1]

/-- **FftFixedInOut, one channel, any valid history from a new resampler**: everything returned is
the reference stream of everything consumed (block for block, nothing held back). -/
theorem fftIo_stream {u : FftUnit σ υ} {z : σ} {ri ro chunk sub : Nat} {s : FState σ υ}
    (h : FState.init DivArith.exact u z .fftIo ri ro chunk sub 1 = .ok s)
    (hu : ∀ st b, b.length = s.fftIn → (u.run st b).1.length = s.fftOut)
    (cs : List (Call σ)) (hv : ValidHist u s cs) (ha : Active1 cs) :
    (runStream u s ([], []) cs).2.2 = refStream u s.fftIn u.init (runStream u s ([], []) cs).2.1 ∧
    (runStream u s ([], []) cs).2.1.length % s.fftIn = 0 ∧
      (runStream u s ([], []) cs).2.1.length = (runCalls u s (0, 0) cs).2.1 ∧
      (runStream u s ([], []) cs).2.2.length = (runCalls u s (0, 0) cs).2.2 := by
  obtain ⟨-, -, hk, hn, hsv, hov, -, -, -, -⟩ := init_ok_fields h
  obtain ⟨r1, r2, r3⟩ := ref_nil u s.fftIn u.init
  have h0 : StreamInvIo u s.fftIn s.fftOut s [] [] :=
    ⟨hk, hn, rfl, rfl, by simp, by rw [hov, r2]; rfl, r1.symm⟩
  obtain ⟨-, ⟨-, -, -, -, k1, -, k3⟩, -, l1, l2⟩ := fftIo_stream_inv u hu cs s [] [] (init_wf' h) h0 hv ha
  exact ⟨k3, k1, l1, l2⟩

/-! ## Non-vacuity -/

section Examples

/-- the example unit of `Control.lean` obeys the length law for blocks 4 → 6 -/
theorem exUnit_len : ∀ (st : Unit) (b : List Nat), b.length = 4 → (exUnit.run st b).1.length = 6 := by
  intro st b hb
  simp [exUnit]

/-- the hypotheses of `fftIn_stream` are satisfiable: the two-call history of `Control.lean` -/
example :
    (runStream exUnit exIn ([], []) [⟨[[1, 2, 3, 4]], [6], none⟩, ⟨[[5, 6, 7, 8, 9]], [7], some [true]⟩]).2.2 =
    refStream exUnit exIn.fftIn exUnit.init
      (runStream exUnit exIn ([], []) [⟨[[1, 2, 3, 4]], [6], none⟩, ⟨[[5, 6, 7, 8, 9]], [7], some [true]⟩]).2.1 :=
  (fftIn_stream (u := exUnit) (z := 0) (ri := 2) (ro := 3) (chunk := 4) (sub := 1) (s := exIn) rfl
    exUnit_len _ exIn_hist (by intro c hc; simp at hc; rcases hc with rfl | rfl <;> simp)).1

/-- … and computed by the model: 8 frames consumed (the 9th offered frame is not), 12 returned -/
example :
    (runStream exUnit exIn ([], []) [⟨[[1, 2, 3, 4]], [6], none⟩, ⟨[[5, 6, 7, 8, 9]], [7], some [true]⟩]).2 =
    ([1, 2, 3, 4, 5, 6, 7, 8], [1, 2, 3, 4, 0, 0, 5, 6, 7, 8, 0, 0]) := by decide

/-- a FftFixedIn whose chunk (5) is not a multiple of the block (6 → 9): frames are held back.
Two calls: 10 frames consumed, one block processed, 4 frames pending at the front of the buffer. -/
def exUnit9 : FftUnit Nat Unit := ⟨(), fun _ b => ((b ++ [0, 0, 0, 0, 0, 0, 0, 0, 0]).take 9, ())⟩

example : ∃ s, FState.init DivArith.exact exUnit9 0 .fftIn 2 3 5 1 1 = .ok s ∧ s.fftIn = 6 ∧ s.fftOut = 9 ∧
    (runStream exUnit9 s ([], []) [⟨[[1, 2, 3, 4, 5]], [0], none⟩, ⟨[[6, 7, 8, 9, 10]], [9], none⟩]).2 =
      ([1, 2, 3, 4, 5, 6, 7, 8, 9, 10], [1, 2, 3, 4, 5, 6, 0, 0, 0]) ∧
    (runStream exUnit9 s ([], []) [⟨[[1, 2, 3, 4, 5]], [0], none⟩, ⟨[[6, 7, 8, 9, 10]], [9], none⟩]).1.saved = 4 ∧
    ((runStream exUnit9 s ([], []) [⟨[[1, 2, 3, 4, 5]], [0], none⟩, ⟨[[6, 7, 8, 9, 10]], [9], none⟩]).1.store.map
      (List.take 4)) = [[7, 8, 9, 10]] :=
  ⟨_, rfl, rfl, rfl, by decide, by decide, by decide⟩

end Examples


end Rubato.FftProofs
