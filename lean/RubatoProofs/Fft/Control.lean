/-
Control plane of the three synchronous (FFT) resamplers (`RubatoModel/Fft.lean`, the hand model of
`FftFixedIn` / `FftFixedOut` / `FftFixedInOut` of /repo/src/synchro.rs) at exact integer
arithmetic (`DivArith.exact`): block sizing, the well-formedness invariant (`saved < block`),
totality of `process` on valid arguments, frame accounting per call and over arbitrary histories,
`reset`.

Everything is law-free in the unit `u : FftUnit σ υ`: no hypothesis on what `u.run` returns is used
anywhere in this file (not even on the length of the block it returns).
-/
import RubatoModel.Fft
import Mathlib.Tactic.Ring
import Mathlib.Tactic.Linarith
import Mathlib.Data.Nat.GCD.Basic

namespace Rubato.FftProofs
open Rubato

variable {σ υ : Type}

/-! ## 0. Integer-division facts -/

theorem cdiv_exact (a b : Nat) : DivArith.exact.cdiv a b = (a + b - 1) / b := rfl
theorem fdiv_exact (a b : Nat) : DivArith.exact.fdiv a b = a / b := rfl

/-- `a ≤ ⌈a/b⌉ * b` -/
theorem le_cdiv_mul {a b : Nat} (hb : 0 < b) : a ≤ (a + b - 1) / b * b := by
  have h := Nat.div_add_mod (a + b - 1) b
  have h2 := Nat.mod_lt (a + b - 1) hb
  rw [Nat.mul_comm] at h
  omega

/-- `⌈a/b⌉ * b ≤ a + b - 1` -/
theorem cdiv_mul_le (a b : Nat) : (a + b - 1) / b * b ≤ a + b - 1 :=
  Nat.div_mul_le_self _ _

/-- `⌈a/b⌉` is the least `m` with `a ≤ m * b` -/
theorem cdiv_le_of_le_mul {a b m : Nat} (hb : 0 < b) (h : a ≤ m * b) : (a + b - 1) / b ≤ m := by
  have : (a + b - 1) / b < m + 1 := by
    rw [Nat.div_lt_iff_lt_mul hb, Nat.add_mul]
    omega
  omega

theorem cdiv_mono {a a' b : Nat} (h : a ≤ a') : (a + b - 1) / b ≤ (a' + b - 1) / b :=
  Nat.div_le_div_right (by omega)

theorem cdiv_zero (b : Nat) : (0 + b - 1) / b = 0 := by
  rcases Nat.eq_zero_or_pos b with rfl | hb
  · simp
  · exact Nat.div_eq_of_lt (by omega)

/-- `(q * b) / b = q` for the quotient produced by `cdiv` -/
theorem mul_div_cancel_pos {q b : Nat} (hb : 0 < b) : q * b / b = q :=
  Nat.mul_div_cancel q hb

/-! ## 2. Block sizes (`fftSizes`) -/

section Sizes

/-- the reduced rate the block size must be a multiple of -/
def minChunk (ri ro : Nat) (byOutput : Bool) : Nat :=
  (if byOutput then ro else ri) / Nat.gcd ri ro

/-- the number of minimal blocks chosen -/
def nChunks (ri ro wanted : Nat) (byOutput : Bool) : Nat :=
  max (DivArith.exact.cdiv wanted (minChunk ri ro byOutput)) 1

theorem nChunks_pos (ri ro wanted : Nat) (b : Bool) : 1 ≤ nChunks ri ro wanted b :=
  Nat.le_max_right _ _

/-- closed form of `fftSizes`: `k * (ri/g)` and `k * (ro/g)` with the same `k ≥ 1`. -/
theorem fftSizes_eq (ri ro wanted : Nat) (b : Bool) :
    fftSizes DivArith.exact ri ro wanted b =
      (nChunks ri ro wanted b * (ri / Nat.gcd ri ro), nChunks ri ro wanted b * (ro / Nat.gcd ri ro)) := by
  simp only [fftSizes, nChunks, minChunk]
  rw [Nat.mul_div_assoc _ (Nat.gcd_dvd_left ri ro), Nat.mul_div_assoc _ (Nat.gcd_dvd_right ri ro)]

theorem div_gcd_pos_left {ri ro : Nat} (hi : 0 < ri) : 0 < ri / Nat.gcd ri ro :=
  Nat.div_pos (Nat.le_of_dvd hi (Nat.gcd_dvd_left ri ro)) (Nat.gcd_pos_of_pos_left ro hi)

theorem div_gcd_pos_right {ri ro : Nat} (ho : 0 < ro) : 0 < ro / Nat.gcd ri ro :=
  Nat.div_pos (Nat.le_of_dvd ho (Nat.gcd_dvd_right ri ro)) (Nat.gcd_pos_of_pos_right ri ho)

/-- both block sizes are positive -/
theorem fftSizes_pos {ri ro : Nat} (hi : 0 < ri) (ho : 0 < ro) (wanted : Nat) (b : Bool) :
    0 < (fftSizes DivArith.exact ri ro wanted b).1 ∧ 0 < (fftSizes DivArith.exact ri ro wanted b).2 := by
  rw [fftSizes_eq]
  exact ⟨Nat.mul_pos (nChunks_pos ..) (div_gcd_pos_left hi), Nat.mul_pos (nChunks_pos ..) (div_gcd_pos_right ho)⟩

/-- the block sizes are in the exact ratio of the rates: `fft_in * rate_out = fft_out * rate_in`
(no positivity needed) -/
theorem fftSizes_ratio (ri ro wanted : Nat) (b : Bool) :
    (fftSizes DivArith.exact ri ro wanted b).1 * ro = (fftSizes DivArith.exact ri ro wanted b).2 * ri := by
  rw [fftSizes_eq]
  simp only
  obtain ⟨a, ha⟩ := Nat.gcd_dvd_left ri ro
  obtain ⟨c, hc⟩ := Nat.gcd_dvd_right ri ro
  rcases Nat.eq_zero_or_pos (Nat.gcd ri ro) with h0 | hg
  · have hri : ri = 0 := Nat.eq_zero_of_gcd_eq_zero_left h0
    have hro : ro = 0 := Nat.eq_zero_of_gcd_eq_zero_right h0
    simp [hri, hro]
  · have e1 : ri / Nat.gcd ri ro = a := by
      conv => lhs; lhs; rw [ha]
      exact Nat.mul_div_cancel_left a hg
    have e2 : ro / Nat.gcd ri ro = c := by
      conv => lhs; lhs; rw [hc]
      exact Nat.mul_div_cancel_left c hg
    rw [e1, e2]
    conv => lhs; rhs; rw [hc]
    conv => rhs; rhs; rw [ha]
    ring

/-- the shape of the result: one common multiplier `k ≥ 1` -/
theorem fftSizes_multiple (ri ro wanted : Nat) (b : Bool) :
    ∃ k, 1 ≤ k ∧ (fftSizes DivArith.exact ri ro wanted b).1 = k * (ri / Nat.gcd ri ro) ∧
      (fftSizes DivArith.exact ri ro wanted b).2 = k * (ro / Nat.gcd ri ro) :=
  ⟨nChunks ri ro wanted b, nChunks_pos .., by rw [fftSizes_eq], by rw [fftSizes_eq]⟩

/-- sizing by the input: the input block holds at least `wanted` frames -/
theorem fftSizes_wanted_le {ri ro : Nat} (hi : 0 < ri) (wanted : Nat) :
    wanted ≤ (fftSizes DivArith.exact ri ro wanted false).1 := by
  rw [fftSizes_eq]
  simp only [nChunks, minChunk, cdiv_exact, Bool.false_eq_true, if_false]
  have hp := div_gcd_pos_left (ro := ro) hi
  calc wanted ≤ (wanted + ri / Nat.gcd ri ro - 1) / (ri / Nat.gcd ri ro) * (ri / Nat.gcd ri ro) :=
        le_cdiv_mul hp
    _ ≤ _ := Nat.mul_le_mul_right _ (Nat.le_max_left _ _)

/-- sizing by the output: the output block holds at least `wanted` frames -/
theorem fftSizes_wanted_le_out {ri ro : Nat} (ho : 0 < ro) (wanted : Nat) :
    wanted ≤ (fftSizes DivArith.exact ri ro wanted true).2 := by
  rw [fftSizes_eq]
  simp only [nChunks, minChunk, cdiv_exact, if_true]
  have hp := div_gcd_pos_right (ri := ri) ho
  calc wanted ≤ (wanted + ro / Nat.gcd ri ro - 1) / (ro / Nat.gcd ri ro) * (ro / Nat.gcd ri ro) :=
        le_cdiv_mul hp
    _ ≤ _ := Nat.mul_le_mul_right _ (Nat.le_max_left _ _)

/-- minimality (sizing by the input): `fft_in` is the least positive multiple of `ri/g` that is `≥ wanted` -/
theorem fftSizes_minimal {ri ro : Nat} (hi : 0 < ri) (wanted m : Nat) (hm : 1 ≤ m)
    (hw : wanted ≤ m * (ri / Nat.gcd ri ro)) :
    (fftSizes DivArith.exact ri ro wanted false).1 ≤ m * (ri / Nat.gcd ri ro) := by
  rw [fftSizes_eq]
  simp only [nChunks, minChunk, cdiv_exact, Bool.false_eq_true, if_false]
  have hp := div_gcd_pos_left (ro := ro) hi
  exact Nat.mul_le_mul_right _ (Nat.max_le.mpr ⟨cdiv_le_of_le_mul hp hw, hm⟩)

/-- minimality (sizing by the output) -/
theorem fftSizes_minimal_out {ri ro : Nat} (ho : 0 < ro) (wanted m : Nat) (hm : 1 ≤ m)
    (hw : wanted ≤ m * (ro / Nat.gcd ri ro)) :
    (fftSizes DivArith.exact ri ro wanted true).2 ≤ m * (ro / Nat.gcd ri ro) := by
  rw [fftSizes_eq]
  simp only [nChunks, minChunk, cdiv_exact, if_true]
  have hp := div_gcd_pos_right (ri := ri) ho
  exact Nat.mul_le_mul_right _ (Nat.max_le.mpr ⟨cdiv_le_of_le_mul hp hw, hm⟩)

/-- Which input block lengths `n` allow an *integer* output length in the exact ratio:
exactly the multiples of `ri / gcd`.  (`n > 0` is not needed; `ri > 0` is.) -/
theorem exact_ratio_iff {ri ro : Nat} (hi : 0 < ri) (n : Nat) :
    (∃ o, n * ro = o * ri) ↔ (ri / Nat.gcd ri ro) ∣ n := by
  have hg : 0 < Nat.gcd ri ro := Nat.gcd_pos_of_pos_left ro hi
  have hcop := Nat.coprime_div_gcd_div_gcd hg
  have ea : Nat.gcd ri ro * (ri / Nat.gcd ri ro) = ri := Nat.mul_div_cancel' (Nat.gcd_dvd_left ri ro)
  have ec : Nat.gcd ri ro * (ro / Nat.gcd ri ro) = ro := Nat.mul_div_cancel' (Nat.gcd_dvd_right ri ro)
  generalize Nat.gcd ri ro = g at *
  generalize ri / g = a at *
  generalize ro / g = c at *
  subst ea ec
  constructor
  · rintro ⟨o, ho⟩
    have h1 : g * (n * c) = g * (o * a) := by
      calc g * (n * c) = n * (g * c) := by ring
        _ = o * (g * a) := ho
        _ = g * (o * a) := by ring
    have h2 : n * c = o * a := Nat.eq_of_mul_eq_mul_left hg h1
    exact hcop.dvd_of_dvd_mul_right ⟨o, by rw [h2, Nat.mul_comm]⟩
  · rintro ⟨d, rfl⟩
    exact ⟨d * c, by ring⟩

end Sizes

/-! ## 1. Well-formedness -/

/-- the part of the invariant that depends on the resampler kind -/
def KindInv (s : FState σ υ) : Prop :=
  match s.kind with
  | .fftIn => s.saved < s.fftIn ∧ ∀ b ∈ s.store, b.length = s.chunkIn + s.fftIn
  | .fftOut => s.saved < s.fftOut ∧
      s.framesNeeded = DivArith.exact.cdiv (s.chunkOut - s.saved) s.fftOut * s.fftIn ∧
      ∀ b ∈ s.store, b.length = s.chunkOut + s.fftOut
  | .fftIo => s.chunkIn = s.fftIn ∧ s.chunkOut = s.fftOut ∧ s.saved = 0

/-- Well-formed states.  The key invariant is `saved < block` (`fftIn` resp. `fftOut`).
(`saved = 0` for FftFixedInOut is an addition to the requested predicate: that resampler has no
`saved_frames`; the model field is never written.) -/
structure WF (s : FState σ υ) : Prop where
  fftIn_pos : 0 < s.fftIn
  fftOut_pos : 0 < s.fftOut
  ov_len : s.ov.length = s.nch
  store_len : s.store.length = s.nch
  kindInv : KindInv s

theorem WF.fftIn_inv {s : FState σ υ} (h : WF s) (hk : s.kind = .fftIn) :
    s.saved < s.fftIn ∧ ∀ b ∈ s.store, b.length = s.chunkIn + s.fftIn := by
  have := h.kindInv; unfold KindInv at this; rw [hk] at this; exact this

theorem WF.fftOut_inv {s : FState σ υ} (h : WF s) (hk : s.kind = .fftOut) :
    s.saved < s.fftOut ∧
      s.framesNeeded = (s.chunkOut - s.saved + s.fftOut - 1) / s.fftOut * s.fftIn ∧
      ∀ b ∈ s.store, b.length = s.chunkOut + s.fftOut := by
  have := h.kindInv; unfold KindInv at this; rw [hk] at this; exact this

theorem WF.fftIo_inv {s : FState σ υ} (h : WF s) (hk : s.kind = .fftIo) :
    s.chunkIn = s.fftIn ∧ s.chunkOut = s.fftOut ∧ s.saved = 0 := by
  have := h.kindInv; unfold KindInv at this; rw [hk] at this; exact this

/-! ## 3. The constructor -/

/-- the constructor fails exactly on a zero rate, and then with `InvalidSampleRate` -/
theorem init_error_iff (u : FftUnit σ υ) (z : σ) (kind : FKind) (ri ro chunk sub nch : Nat) :
    FState.init DivArith.exact u z kind ri ro chunk sub nch = .error (.invalidSampleRate ri ro) ↔
      (ri = 0 ∨ ro = 0) := by
  constructor
  · intro h
    by_cases hz : ri = 0 ∨ ro = 0
    · exact hz
    · exfalso
      unfold FState.init at h
      rw [if_neg hz] at h
      cases kind <;> simp at h
  · intro hz
    unfold FState.init
    rw [if_pos hz]

/-- any failure of the constructor is `InvalidSampleRate` with the two rates -/
theorem init_error (u : FftUnit σ υ) (z : σ) (kind : FKind) (ri ro chunk sub nch : Nat) (e : CErr)
    (h : FState.init DivArith.exact u z kind ri ro chunk sub nch = .error e) :
    e = .invalidSampleRate ri ro ∧ (ri = 0 ∨ ro = 0) := by
  by_cases hz : ri = 0 ∨ ro = 0
  · unfold FState.init at h
    rw [if_pos hz] at h
    exact ⟨(Except.error.inj h).symm, hz⟩
  · exfalso
    unfold FState.init at h
    rw [if_neg hz] at h
    cases kind <;> simp at h

/-- what the constructor builds, field by field -/
theorem init_ok_fields {u : FftUnit σ υ} {z : σ} {kind : FKind} {ri ro chunk sub nch : Nat}
    {s : FState σ υ} (h : FState.init DivArith.exact u z kind ri ro chunk sub nch = .ok s) :
    0 < ri ∧ 0 < ro ∧ s.kind = kind ∧ s.nch = nch ∧ s.saved = 0 ∧
    s.ov = List.replicate nch u.init ∧ s.mask = List.replicate nch true ∧
    (kind = .fftIo →
      s.fftIn = (fftSizes DivArith.exact ri ro chunk false).1 ∧
      s.fftOut = (fftSizes DivArith.exact ri ro chunk false).2 ∧
      s.chunkIn = s.fftIn ∧ s.chunkOut = s.fftOut ∧ s.framesNeeded = 0 ∧
      s.store = List.replicate nch []) ∧
    (kind = .fftIn →
      s.fftIn = (fftSizes DivArith.exact ri ro (chunk / sub) false).1 ∧
      s.fftOut = (fftSizes DivArith.exact ri ro (chunk / sub) false).2 ∧
      s.chunkIn = chunk ∧ s.chunkOut = 0 ∧ s.framesNeeded = 0 ∧
      s.store = List.replicate nch (List.replicate (chunk + s.fftIn) z)) ∧
    (kind = .fftOut →
      s.fftIn = (fftSizes DivArith.exact ri ro (chunk / sub) true).1 ∧
      s.fftOut = (fftSizes DivArith.exact ri ro (chunk / sub) true).2 ∧
      s.chunkIn = 0 ∧ s.chunkOut = chunk ∧
      s.framesNeeded = DivArith.exact.cdiv chunk s.fftOut * s.fftIn ∧
      s.store = List.replicate nch (List.replicate (chunk + s.fftOut) z)) := by
  by_cases hz : ri = 0 ∨ ro = 0
  · unfold FState.init at h
    rw [if_pos hz] at h
    cases h
  · unfold FState.init at h
    rw [if_neg hz] at h
    have hi : 0 < ri := by omega
    have ho : 0 < ro := by omega
    cases kind <;> simp only [Except.ok.injEq] at h <;> subst h <;> simp [hi, ho]

/-- the constructor establishes the invariant -/
theorem init_wf' {u : FftUnit σ υ} {z : σ} {kind : FKind} {ri ro chunk sub nch : Nat}
    {s : FState σ υ} (h : FState.init DivArith.exact u z kind ri ro chunk sub nch = .ok s) : WF s := by
  obtain ⟨hi, ho, hk, hn, hsv, hov, -, hio, hin, hout⟩ := init_ok_fields h
  cases kind
  · obtain ⟨h1, h2, h3, h4, h5, h6⟩ := hin rfl
    have hp := fftSizes_pos hi ho (chunk / sub) false
    refine ⟨by rw [h1]; exact hp.1, by rw [h2]; exact hp.2, by simp [hov, hn], by simp [h6, hn], ?_⟩
    unfold KindInv
    rw [hk]
    refine ⟨by rw [hsv, h1]; exact hp.1, ?_⟩
    intro b hb
    rw [h6] at hb
    rw [List.eq_of_mem_replicate hb, List.length_replicate, h3]
  · obtain ⟨h1, h2, h3, h4, h5, h6⟩ := hout rfl
    have hp := fftSizes_pos hi ho (chunk / sub) true
    refine ⟨by rw [h1]; exact hp.1, by rw [h2]; exact hp.2, by simp [hov, hn], by simp [h6, hn], ?_⟩
    unfold KindInv
    rw [hk]
    refine ⟨by rw [hsv, h2]; exact hp.2, by rw [h5, hsv, h4, Nat.sub_zero], ?_⟩
    intro b hb
    rw [h6] at hb
    rw [List.eq_of_mem_replicate hb, List.length_replicate, h4]
  · obtain ⟨h1, h2, h3, h4, h5, h6⟩ := hio rfl
    have hp := fftSizes_pos hi ho chunk false
    refine ⟨by rw [h1]; exact hp.1, by rw [h2]; exact hp.2, by simp [hov, hn], by simp [h6, hn], ?_⟩
    unfold KindInv
    rw [hk]
    exact ⟨h3, h4, hsv⟩

/-- the requested form (the hypothesis `0 < sub` is not needed: the model evaluates `chunk / 0 = 0`,
where the Rust constructor would panic on the division) -/
theorem init_wf {u : FftUnit σ υ} {z : σ} {kind : FKind} {ri ro chunk sub nch : Nat}
    {s : FState σ υ} (h : FState.init DivArith.exact u z kind ri ro chunk sub nch = .ok s)
    (_hsub : 0 < sub) : WF s := init_wf' h

/-- the constructor succeeds on positive rates -/
theorem init_ok_of_pos (u : FftUnit σ υ) (z : σ) (kind : FKind) {ri ro : Nat} (chunk sub nch : Nat)
    (hi : 0 < ri) (ho : 0 < ro) :
    ∃ s, FState.init DivArith.exact u z kind ri ro chunk sub nch = .ok s := by
  cases hinit : FState.init DivArith.exact u z kind ri ro chunk sub nch with
  | ok s => exact ⟨s, rfl⟩
  | error e => have := (init_error u z kind ri ro chunk sub nch e hinit).2; omega

/-! ## 4. Getter bounds -/

theorem inputFramesNext_le_max {s : FState σ υ} (h : WF s) :
    s.inputFramesNext ≤ s.inputFramesMax DivArith.exact := by
  unfold FState.inputFramesNext FState.inputFramesMax
  cases hk : s.kind
  · exact Nat.le_refl _
  · obtain ⟨-, hfn, -⟩ := h.fftOut_inv hk
    simp only [hfn, cdiv_exact]
    exact Nat.mul_le_mul_right _ (cdiv_mono (Nat.sub_le _ _))
  · exact Nat.le_refl _

theorem outputFramesNext_le_max {s : FState σ υ} (h : WF s) :
    s.outputFramesNext DivArith.exact ≤ s.outputFramesMax := by
  unfold FState.outputFramesNext FState.outputFramesMax
  cases hk : s.kind
  · obtain ⟨hsv, -⟩ := h.fftIn_inv hk
    simp only [fdiv_exact]
    exact Nat.mul_le_mul_right _ (Nat.div_le_div_right (by omega))
  · exact Nat.le_refl _
  · exact Nat.le_refl _

/-- FftFixedIn: the bound is attained when `saved = fftIn - 1` -/
theorem outputFramesNext_eq_max_of_saved {s : FState σ υ} (hk : s.kind = .fftIn)
    (hs : s.saved = s.fftIn - 1) : s.outputFramesNext DivArith.exact = s.outputFramesMax := by
  unfold FState.outputFramesNext FState.outputFramesMax
  rw [hk]; simp only [fdiv_exact, hs]

/-! ## Generic list lemmas about the helpers of the model -/

section Helpers

/-- `overlay` never changes the length of the buffer it writes into -/
theorem overlay_length (buf : List σ) (pos : Nat) (data : List σ) :
    (overlay buf pos data).length = buf.length := by
  simp only [overlay, List.length_append, List.length_take, List.length_drop]
  omega

theorem chunksOf_go_fuel {n : Nat} (hn : 0 < n) :
    ∀ (f1 f2 : Nat) (l : List σ), l.length ≤ f1 → l.length ≤ f2 →
      chunksOf.go n f1 l = chunksOf.go n f2 l := by
  intro f1
  induction f1 with
  | zero =>
    intro f2 l h1 _
    have : l = [] := List.length_eq_zero_iff.mp (by omega)
    subst this
    cases f2 <;> simp [chunksOf.go]
  | succ f1 ih =>
    intro f2 l h1 h2
    cases l with
    | nil => cases f2 <;> simp [chunksOf.go]
    | cons a t =>
      cases f2 with
      | zero => simp at h2
      | succ f2 =>
        simp only [chunksOf.go, List.isEmpty_cons, Bool.false_eq_true, if_false]
        congr 1
        apply ih <;> simp only [List.length_drop, List.length_cons] at * <;> omega

theorem chunksOf_nil (n : Nat) : chunksOf n ([] : List σ) = [] := by
  simp [chunksOf]

theorem chunksOf_cons_eq {n : Nat} (hn : 0 < n) (l : List σ) (hl : l ≠ []) :
    chunksOf n l = l.take n :: chunksOf n (l.drop n) := by
  cases l with
  | nil => exact absurd rfl hl
  | cons a t =>
    have hn0 : n ≠ 0 := by omega
    unfold chunksOf
    simp only [hn0, if_false, List.isEmpty_cons, Bool.false_eq_true, List.length_cons, chunksOf.go]
    congr 1
    split
    · rename_i he
      rw [List.isEmpty_iff] at he
      rw [he]
      cases t.length <;> simp [chunksOf.go]
    · apply chunksOf_go_fuel hn
      · simp only [List.length_drop, List.length_cons]; omega
      · exact Nat.le_refl _

/-- the first `k` full blocks of `n` frames -/
def fullBlocks (n : Nat) : Nat → List σ → List (List σ)
  | 0, _ => []
  | k + 1, l => l.take n :: fullBlocks n k (l.drop n)

theorem fullBlocks_length (n : Nat) : ∀ (k : Nat) (l : List σ), (fullBlocks n k l).length = k
  | 0, _ => rfl
  | k + 1, l => by simp [fullBlocks, fullBlocks_length n k]

theorem fullBlocks_block_length (n : Nat) :
    ∀ (k : Nat) (l : List σ), k * n ≤ l.length → ∀ b ∈ fullBlocks n k l, b.length = n
  | 0, _, _, b, hb => by simp [fullBlocks] at hb
  | k + 1, l, h, b, hb => by
    rw [Nat.add_mul, Nat.one_mul] at h
    simp only [fullBlocks, List.mem_cons] at hb
    rcases hb with rfl | hb
    · rw [List.length_take]; omega
    · exact fullBlocks_block_length n k (l.drop n) (by rw [List.length_drop]; omega) b hb

/-- while there are `k` full blocks, `chunks(n)` yields them -/
theorem take_chunksOf {n : Nat} (hn : 0 < n) :
    ∀ (k : Nat) (l : List σ), k * n ≤ l.length → (chunksOf n l).take k = fullBlocks n k l
  | 0, _, _ => by simp [fullBlocks]
  | k + 1, l, h => by
    rw [Nat.add_mul, Nat.one_mul] at h
    have hl : l ≠ [] := by
      intro h0; subst h0; simp at h; omega
    rw [chunksOf_cons_eq hn l hl, List.take_succ_cons, fullBlocks]
    congr 1
    exact take_chunksOf hn k (l.drop n) (by rw [List.length_drop]; omega)

/-- a buffer of exactly `k` blocks is cut into exactly these -/
theorem chunksOf_exact {n : Nat} (hn : 0 < n) :
    ∀ (k : Nat) (l : List σ), l.length = k * n → chunksOf n l = fullBlocks n k l
  | 0, l, h => by
    have : l = [] := List.length_eq_zero_iff.mp (by omega)
    subst this; simp [fullBlocks, chunksOf_nil]
  | k + 1, l, h => by
    rw [Nat.add_mul, Nat.one_mul] at h
    have hl : l ≠ [] := by
      intro h0; subst h0; simp at h; omega
    rw [chunksOf_cons_eq hn l hl, fullBlocks]
    congr 1
    exact chunksOf_exact hn k (l.drop n) (by rw [List.length_drop]; omega)

/-- `runBlocks` succeeds when every block has the FFT input length (whatever the unit returns) -/
theorem runBlocks_some (u : FftUnit σ υ) (n : Nat) :
    ∀ (bs : List (List σ)) (st : υ), (∀ b ∈ bs, b.length = n) →
      ∃ os st', runBlocks u n st bs = some (os, st') ∧ os.length = bs.length
  | [], st, _ => ⟨[], st, rfl, rfl⟩
  | b :: bs, st, h => by
    have hb : b.length = n := h b (List.mem_cons_self ..)
    obtain ⟨os, st', h1, h2⟩ := runBlocks_some u n bs (u.run st b).2
      (fun b' hb' => h b' (List.mem_cons_of_mem _ hb'))
    refine ⟨(u.run st b).1 :: os, st', ?_, by simp [h2]⟩
    simp only [runBlocks, hb, ne_eq, not_true_eq_false, if_false, h1]

theorem firstShort_go_none (need : Nat) :
    ∀ (lens : List Nat) (mask : List Bool) (i : Nat),
      (∀ j (h1 : j < lens.length) (h2 : j < mask.length), mask[j] = true → need ≤ lens[j]) →
      firstShort.go need lens mask i = none
  | [], _, _, _ => by simp [firstShort.go]
  | _ :: _, [], _, _ => by simp [firstShort.go]
  | l :: ls, m :: ms, i, h => by
    have h0 := h 0 (by simp) (by simp)
    simp only [List.getElem_cons_zero] at h0
    have hrec := firstShort_go_none need ls ms (i + 1) (by
      intro j h1 h2 hm
      have := h (j + 1) (by simp; omega) (by simp; omega)
      simp only [List.getElem_cons_succ] at this
      exact this hm)
    simp only [firstShort.go, hrec]
    cases m
    · simp
    · have := h0 rfl
      simp; omega

/-- `validate_buffers` accepts shapes that are long enough on the active channels -/
theorem validateBuffers_ok {inLens outLens : List Nat} {mask : List Bool} {nch minIn minOut : Nat}
    (h1 : inLens.length = nch) (h2 : mask.length = nch) (h3 : outLens.length = nch)
    (hin : ∀ j (h1 : j < inLens.length) (h2 : j < mask.length), mask[j] = true → minIn ≤ inLens[j])
    (hout : ∀ j (h1 : j < outLens.length) (h2 : j < mask.length), mask[j] = true → minOut ≤ outLens[j]) :
    validateBuffers inLens outLens mask nch minIn minOut = .ok () := by
  simp only [validateBuffers, firstShort, h1, h2, h3, ne_eq, not_true_eq_false, if_false,
    firstShort_go_none minIn inLens mask 0 hin, firstShort_go_none minOut outLens mask 0 hout]

variable {α β : Type}

/-- `mapActive` succeeds if the per-channel function succeeds on every active channel -/
theorem mapActive_go_total {f : Nat → α → Option β} {skip : α → β} (R : α → Prop)
    (hf : ∀ i x, R x → ∃ y, f i x = some y) :
    ∀ (mask : List Bool) (xs : List α) (i : Nat),
      (∀ j (h1 : j < mask.length) (h2 : j < xs.length), mask[j] = true → R xs[j]) →
      ∃ ys, mapActive.go f skip i mask xs = some ys
  | [], _, _, _ => ⟨[], by simp [mapActive.go]⟩
  | _ :: _, [], _, _ => ⟨[], by simp [mapActive.go]⟩
  | m :: ms, x :: xs, i, h => by
    obtain ⟨ys, hys⟩ := mapActive_go_total (skip := skip) R hf ms xs (i + 1) (by
      intro j h1 h2 hm
      have := h (j + 1) (by simp; omega) (by simp; omega)
      simp only [List.getElem_cons_succ] at this
      exact this hm)
    cases m
    · exact ⟨skip x :: ys, by simp [mapActive.go, hys]⟩
    · have h0 := h 0 (by simp) (by simp)
      simp only [List.getElem_cons_zero] at h0
      obtain ⟨y, hy⟩ := hf i x (h0 trivial)
      exact ⟨y :: ys, by simp [mapActive.go, hys, hy]⟩

/-- what `mapActive` returns: one result per channel, each either `skip x` or `f i x` -/
theorem mapActive_go_spec {f : Nat → α → Option β} {skip : α → β} (P : α → Prop) (Q : β → Prop)
    (hf : ∀ i x y, P x → f i x = some y → Q y) (hs : ∀ x, P x → Q (skip x)) :
    ∀ (mask : List Bool) (xs : List α) (i : Nat) (ys : List β),
      (∀ x ∈ xs, P x) → mapActive.go f skip i mask xs = some ys →
      (∀ y ∈ ys, Q y) ∧ ys.length = min mask.length xs.length
  | [], _, _, ys, _, h => by
    simp only [mapActive.go, Option.some.injEq] at h; subst h; simp
  | _ :: _, [], _, ys, _, h => by
    simp only [mapActive.go, Option.some.injEq] at h; subst h; simp
  | m :: ms, x :: xs, i, ys, hP, h => by
    simp only [mapActive.go] at h
    split at h
    · exact absurd h (by simp)
    · rename_i y hy
      split at h
      · exact absurd h (by simp)
      · rename_i ys' hys'
        simp only [Option.some.injEq] at h; subst h
        obtain ⟨r1, r2⟩ := mapActive_go_spec P Q hf hs ms xs (i + 1) ys'
          (fun x' hx' => hP x' (List.mem_cons_of_mem _ hx')) hys'
        have hPx := hP x (List.mem_cons_self ..)
        refine ⟨?_, by simp [r2]⟩
        intro y' hy'
        rcases List.mem_cons.mp hy' with rfl | hy'
        · cases m
          · simp only [Bool.false_eq_true, if_false, Option.some.injEq] at hy
            subst hy; exact hs x hPx
          · simp only [if_true] at hy
            exact hf i x _ hPx hy
        · exact r1 y' hy'

end Helpers

/-! ## 6. `process` on valid arguments -/

/-- the mask a call works with: the user's, or all channels active -/
def effMask (nch : Nat) (um : Option (List Bool)) : List Bool :=
  um.getD (List.replicate nch true)

/-- valid arguments of `process_into_buffer` for the state `s` -/
structure ValidArgs (s : FState σ υ) (input : List (List σ)) (outLens : List Nat)
    (um : Option (List Bool)) : Prop where
  mask_len : ∀ m, um = some m → m.length = s.nch
  in_len : input.length = s.nch
  out_len : outLens.length = s.nch
  in_frames : ∀ c (h1 : c < input.length) (h2 : c < (effMask s.nch um).length),
    (effMask s.nch um)[c] = true → s.inputFramesNext ≤ input[c].length
  out_frames : ∀ c (h1 : c < outLens.length) (h2 : c < (effMask s.nch um).length),
    (effMask s.nch um)[c] = true → s.outputFramesNext DivArith.exact ≤ outLens[c]

theorem ValidArgs.effMask_length {s : FState σ υ} {input : List (List σ)} {outLens : List Nat}
    {um : Option (List Bool)} (hv : ValidArgs s input outLens um) : (effMask s.nch um).length = s.nch := by
  cases um with
  | none => simp [effMask]
  | some m => simpa [effMask] using hv.mask_len m rfl

theorem ValidArgs.updateMask_eq {s : FState σ υ} {input : List (List σ)} {outLens : List Nat}
    {um : Option (List Bool)} (hv : ValidArgs s input outLens um) :
    updateMask s.nch um = .ok (effMask s.nch um) := by
  cases um with
  | none => simp [effMask, updateMask]
  | some m => simp [effMask, updateMask, hv.mask_len m rfl]

theorem ValidArgs.validate {s : FState σ υ} {input : List (List σ)} {outLens : List Nat}
    {um : Option (List Bool)} (hv : ValidArgs s input outLens um) :
    validateBuffers (input.map List.length) outLens (effMask s.nch um) s.nch s.inputFramesNext
      (s.outputFramesNext DivArith.exact) = .ok () := by
  refine validateBuffers_ok (by simp [hv.in_len]) hv.effMask_length hv.out_len ?_ hv.out_frames
  intro j h1 h2 hm
  simp only [List.getElem_map]
  exact hv.in_frames j (by simpa using h1) h2 hm

theorem mapActive_total' {α β : Type} {mask : List Bool} {xs : List α} (R : α → Prop)
    (hR : ∀ j (h1 : j < mask.length) (h2 : j < xs.length), mask[j] = true → R xs[j])
    (f : Nat → α → Option β) (skip : α → β) (hf : ∀ i x, R x → ∃ y, f i x = some y) :
    mapActive mask xs f skip ≠ none := by
  obtain ⟨ys, hys⟩ := mapActive_go_total (skip := skip) R hf mask xs 0 hR
  simp [mapActive, hys]

theorem runBlocks_ne_none (u : FftUnit σ υ) (n : Nat) (bs : List (List σ)) (st : υ)
    (h : ∀ b ∈ bs, b.length = n) : runBlocks u n st bs ≠ none := by
  obtain ⟨os, st', h1, -⟩ := runBlocks_some u n bs st h
  simp [h1]

theorem process_fftIn_ok (u : FftUnit σ υ) {s : FState σ υ} {input : List (List σ)} {outLens : List Nat}
    {um : Option (List Bool)} (hk : s.kind = .fftIn) (hwf : WF s) (hv : ValidArgs s input outLens um) :
    ∃ s' r, s.process DivArith.exact u input outLens um = (s', .ok r) ∧
      r.nIn = s.chunkIn ∧ r.nOut = (s.saved + s.chunkIn) / s.fftIn * s.fftOut ∧
      s'.kind = s.kind ∧ s'.nch = s.nch ∧ s'.chunkIn = s.chunkIn ∧ s'.chunkOut = s.chunkOut ∧
      s'.fftIn = s.fftIn ∧ s'.fftOut = s.fftOut ∧ s'.framesNeeded = s.framesNeeded ∧
      s'.mask = effMask s.nch um ∧
      s'.saved = (s.saved + s.chunkIn) % s.fftIn ∧
      s'.ov.length = s.nch ∧ s'.store.length = s.nch ∧
      (∀ b ∈ s'.store, b.length = s.chunkIn + s.fftIn) ∧ r.out.length = s.nch := by
  obtain ⟨hsv, hst⟩ := hwf.fftIn_inv hk
  have hfi := hwf.fftIn_pos
  have hum := hv.updateMask_eq
  have hml := hv.effMask_length
  have hval := hv.validate
  simp only [FState.inputFramesNext, FState.outputFramesNext, hk, fdiv_exact] at hval
  have hused : ¬ ((s.saved + s.chunkIn) / s.fftIn * s.fftIn > s.saved + s.chunkIn) := by
    have := Nat.div_mul_le_self (s.saved + s.chunkIn) s.fftIn
    omega
  have hmod : s.saved + s.chunkIn - (s.saved + s.chunkIn) / s.fftIn * s.fftIn = (s.saved + s.chunkIn) % s.fftIn := by
    have := Nat.div_add_mod (s.saved + s.chunkIn) s.fftIn
    rw [Nat.mul_comm] at this
    omega
  unfold FState.process
  simp only [hum, hk, hval, fdiv_exact, if_neg hused]
  split
  · rename_i heq
    exfalso
    revert heq
    apply mapActive_total' (fun x => x.1.2.length = s.chunkIn + s.fftIn ∧ s.chunkIn ≤ x.2.1.length)
    · intro j h1 h2 hm
      simp only [List.length_zip, hwf.ov_len, hwf.store_len, hv.in_len, hv.out_len, Nat.min_self] at h2
      simp only [List.getElem_zip]
      refine ⟨hst _ (List.getElem_mem _), ?_⟩
      have := hv.in_frames j (by rw [hv.in_len]; exact h2) h1 hm
      simpa [FState.inputFramesNext, hk] using this
    · intro i x ⟨hx1, hx2⟩
      split
      · rename_i heq
        refine absurd heq (runBlocks_ne_none u _ _ _ (fun b hb => ?_))
        have hb' := List.mem_of_mem_take hb
        have hle : (s.saved + s.chunkIn) / s.fftIn * s.fftIn ≤
            (overlay x.1.2 s.saved (List.take s.chunkIn x.2.1)).length := by
          rw [overlay_length, hx1]
          have := Nat.div_mul_le_self (s.saved + s.chunkIn) s.fftIn
          omega
        rw [take_chunksOf hfi _ _ hle] at hb'
        exact fullBlocks_block_length _ _ _ hle b hb'
      · exact ⟨_, rfl⟩
  · rename_i rs heq
    have hspec := mapActive_go_spec
      (fun x => x.1.2.length = s.chunkIn + s.fftIn) (fun y => y.2.1.length = s.chunkIn + s.fftIn)
      ?_ ?_ _ _ 0 rs ?_ heq
    · obtain ⟨hQ, hlen⟩ := hspec
      have hl : rs.length = s.nch := by
        rw [hlen]
        simp only [List.length_zip, hwf.ov_len, hwf.store_len, hv.in_len, hv.out_len, Nat.min_self, hml]
      refine ⟨_, _, rfl, rfl, rfl, rfl, rfl, rfl, rfl, rfl, rfl, rfl, rfl, hmod, ?_, ?_, ?_, ?_⟩
      · simp [hl]
      · simp [hl]
      · intro b hb
        simp only [List.mem_map] at hb
        obtain ⟨y, hy, rfl⟩ := hb
        exact hQ y hy
      · simp [hl]
    · intro i x y hx hy
      beta_reduce at hy
      split at hy
      · cases hy
      · simp only [Option.some.injEq] at hy
        subst hy
        by_cases hc : s.saved + s.chunkIn > (s.saved + s.chunkIn) / s.fftIn * s.fftIn <;>
          simp only [hc, if_true, if_false, overlay_length, hx]
    · intro x hx
      exact hx
    · intro x hx
      have := (List.of_mem_zip (List.of_mem_zip hx).1).2
      exact hst _ this


theorem process_fftOut_ok (u : FftUnit σ υ) {s : FState σ υ} {input : List (List σ)} {outLens : List Nat}
    {um : Option (List Bool)} (hk : s.kind = .fftOut) (hwf : WF s) (hv : ValidArgs s input outLens um) :
    ∃ s' r, s.process DivArith.exact u input outLens um = (s', .ok r) ∧
      r.nIn = s.framesNeeded ∧ r.nOut = s.chunkOut ∧
      s'.kind = s.kind ∧ s'.nch = s.nch ∧ s'.chunkIn = s.chunkIn ∧ s'.chunkOut = s.chunkOut ∧
      s'.fftIn = s.fftIn ∧ s'.fftOut = s.fftOut ∧
      s'.mask = effMask s.nch um ∧
      s'.saved + s.chunkOut = s.saved + s.framesNeeded / s.fftIn * s.fftOut ∧
      s'.saved < s.fftOut ∧
      s'.framesNeeded = (s.chunkOut - s'.saved + s.fftOut - 1) / s.fftOut * s.fftIn ∧
      s'.ov.length = s.nch ∧ s'.store.length = s.nch ∧
      (∀ b ∈ s'.store, b.length = s.chunkOut + s.fftOut) ∧ r.out.length = s.nch := by
  obtain ⟨hsv, hfn, hst⟩ := hwf.fftOut_inv hk
  have hfi := hwf.fftIn_pos
  have hfo := hwf.fftOut_pos
  have hum := hv.updateMask_eq
  have hml := hv.effMask_length
  have hval := hv.validate
  simp only [FState.inputFramesNext, FState.outputFramesNext, hk] at hval
  have hq : s.framesNeeded / s.fftIn = (s.chunkOut - s.saved + s.fftOut - 1) / s.fftOut := by
    rw [hfn]; exact Nat.mul_div_cancel _ hfi
  have h1 := le_cdiv_mul (a := s.chunkOut - s.saved) hfo
  have h2 := cdiv_mul_le (s.chunkOut - s.saved) s.fftOut
  have hge : s.chunkOut ≤ s.saved + s.fftOut * (s.framesNeeded / s.fftIn) := by
    rw [hq, Nat.mul_comm]; omega
  have hlt : s.saved + s.fftOut * (s.framesNeeded / s.fftIn) - s.chunkOut < s.fftOut := by
    rw [hq]
    rcases Nat.lt_or_ge s.saved s.chunkOut with hc | hc
    · rw [Nat.mul_comm]; omega
    · have h0 : s.chunkOut - s.saved = 0 := by omega
      rw [h0, cdiv_zero]; omega
  have hcopy : decide (s.saved + s.fftOut * (s.framesNeeded / s.fftIn) ≥ s.chunkOut) = true :=
    decide_eq_true hge
  have hany1 : (s.store.any fun b => decide (s.saved > b.length)) = false := by
    rw [List.any_eq_false]
    intro b hb
    rw [hst b hb]
    simp only [decide_eq_true_eq]; omega
  have hany2 : (s.store.any fun b => decide (s.chunkOut +
      (s.saved + s.fftOut * (s.framesNeeded / s.fftIn) - s.chunkOut) > b.length)) = false := by
    rw [List.any_eq_false]
    intro b hb
    rw [hst b hb]
    simp only [decide_eq_true_eq]; omega
  unfold FState.process
  simp only [hum, hk, hval, hcopy, if_true, hany1, hany2, Bool.and_false, Bool.false_eq_true, if_false]
  split
  · rename_i heq
    exfalso
    revert heq
    apply mapActive_total' (fun x => s.framesNeeded ≤ x.2.length)
    · intro j h1 h2 hm
      simp only [List.length_zip, hwf.ov_len, hwf.store_len, hv.in_len, Nat.min_self] at h2
      simp only [List.getElem_zip]
      have := hv.in_frames j (by rw [hv.in_len]; exact h2) h1 hm
      simpa [FState.inputFramesNext, hk] using this
    · intro i x hx
      split
      · rename_i heq
        refine absurd heq (runBlocks_ne_none u _ _ _ (fun b hb => ?_))
        have hb' := List.mem_of_mem_take hb
        have hlen : (List.take s.framesNeeded x.2).length =
            (s.chunkOut - s.saved + s.fftOut - 1) / s.fftOut * s.fftIn := by
          rw [List.length_take, ← hfn]; omega
        rw [chunksOf_exact hfi _ _ hlen] at hb'
        exact fullBlocks_block_length _ _ _ (Nat.le_of_eq hlen.symm) b hb'
      · exact ⟨_, rfl⟩
  · rename_i rs heq
    have hspec := mapActive_go_spec
      (fun x => x.1.2.length = s.chunkOut + s.fftOut) (fun y => y.2.1.length = s.chunkOut + s.fftOut)
      ?_ ?_ _ _ 0 rs ?_ heq
    · obtain ⟨hQ, hlen⟩ := hspec
      have hl : rs.length = s.nch := by
        rw [hlen]
        simp only [List.length_zip, hwf.ov_len, hwf.store_len, hv.in_len, Nat.min_self, hml]
      refine ⟨_, _, rfl, rfl, rfl, rfl, rfl, rfl, rfl, rfl, rfl, rfl, ?_, hlt, ?_, ?_, ?_, ?_, ?_⟩
      · simp only []
        rw [Nat.mul_comm (s.framesNeeded / s.fftIn)]
        omega
      · simp only [cdiv_exact]
        congr 2
        split <;> omega
      · simp [hl]
      · simp [hl]
      · intro b hb
        simp only [List.mem_map] at hb
        obtain ⟨y, hy, rfl⟩ := hb
        exact hQ y hy
      · simp [hl]
    · intro i x y hx hy
      beta_reduce at hy
      split at hy
      · cases hy
      · simp only [Option.some.injEq] at hy
        subst hy
        simp only [overlay_length, hx]
    · intro x hx
      exact hx
    · intro x hx
      have := (List.of_mem_zip (List.of_mem_zip hx).1).2
      exact hst _ this


theorem process_fftIo_ok (u : FftUnit σ υ) {s : FState σ υ} {input : List (List σ)} {outLens : List Nat}
    {um : Option (List Bool)} (hk : s.kind = .fftIo) (hwf : WF s) (hv : ValidArgs s input outLens um) :
    ∃ s' r, s.process DivArith.exact u input outLens um = (s', .ok r) ∧
      r.nIn = s.fftIn ∧ r.nOut = s.fftOut ∧
      s'.kind = s.kind ∧ s'.nch = s.nch ∧ s'.chunkIn = s.chunkIn ∧ s'.chunkOut = s.chunkOut ∧
      s'.fftIn = s.fftIn ∧ s'.fftOut = s.fftOut ∧ s'.framesNeeded = s.framesNeeded ∧
      s'.mask = effMask s.nch um ∧ s'.saved = s.saved ∧ s'.store = s.store ∧
      s'.ov.length = s.nch ∧ r.out.length = s.nch := by
  obtain ⟨hci, hco, hsv⟩ := hwf.fftIo_inv hk
  have hfi := hwf.fftIn_pos
  have hum := hv.updateMask_eq
  have hml := hv.effMask_length
  have hval := hv.validate
  simp only [FState.inputFramesNext, FState.outputFramesNext, hk, hco] at hval
  unfold FState.process
  simp only [hum, hk, hci, hco, hval]
  split
  · rename_i heq
    exfalso
    revert heq
    apply mapActive_total' (fun x => s.fftIn ≤ x.2.length)
    · intro j h1 h2 hm
      simp only [List.length_zip, hwf.ov_len, hv.in_len, Nat.min_self] at h2
      simp only [List.getElem_zip]
      have := hv.in_frames j (by rw [hv.in_len]; exact h2) h1 hm
      simpa [FState.inputFramesNext, hk] using this
    · intro i x hx
      have hb : (List.take s.fftIn x.2).length = s.fftIn := by
        rw [List.length_take]; omega
      simp only [runBlocks, hb, ne_eq, not_true_eq_false, if_false]
      exact ⟨_, rfl⟩
  · rename_i rs heq
    have hspec := mapActive_go_spec (fun _ => True) (fun _ => True)
      (fun _ _ _ _ _ => trivial) (fun _ _ => trivial) _ _ 0 rs (fun _ _ => trivial) heq
    have hl : rs.length = s.nch := by
      rw [hspec.2]
      simp only [List.length_zip, hwf.ov_len, hv.in_len, Nat.min_self, hml]
    refine ⟨_, _, rfl, rfl, rfl, rfl, rfl, rfl, rfl, rfl, rfl, rfl, rfl, rfl, rfl, ?_, ?_⟩
    · simp [hl]
    · simp [hl]


/-- the configuration of a resampler: what no call may change -/
def SameShape (s s' : FState σ υ) : Prop :=
  s'.kind = s.kind ∧ s'.nch = s.nch ∧ s'.chunkIn = s.chunkIn ∧ s'.chunkOut = s.chunkOut ∧
    s'.fftIn = s.fftIn ∧ s'.fftOut = s.fftOut

theorem SameShape.refl (s : FState σ υ) : SameShape s s := ⟨rfl, rfl, rfl, rfl, rfl, rfl⟩

theorem SameShape.trans {s s' s'' : FState σ υ} (h1 : SameShape s s') (h2 : SameShape s' s'') :
    SameShape s s'' := by
  obtain ⟨a1, a2, a3, a4, a5, a6⟩ := h1
  obtain ⟨b1, b2, b3, b4, b5, b6⟩ := h2
  exact ⟨b1.trans a1, b2.trans a2, b3.trans a3, b4.trans a4, b5.trans a5, b6.trans a6⟩

/-- `process` never changes the configuration, whatever the arguments, the arithmetic and the outcome -/
theorem process_shape (da : DivArith) (u : FftUnit σ υ) (s : FState σ υ) (input : List (List σ))
    (outLens : List Nat) (um : Option (List Bool)) :
    SameShape s (s.process da u input outLens um).1 := by
  unfold FState.process SameShape
  split
  · exact ⟨rfl, rfl, rfl, rfl, rfl, rfl⟩
  · simp only
    split
    all_goals (repeat' split)
    all_goals exact ⟨rfl, rfl, rfl, rfl, rfl, rfl⟩

/-- frame accounting of one call, per kind -/
def Accounts (s s' : FState σ υ) (nIn nOut : Nat) : Prop :=
  match s.kind with
  | .fftIn => s'.saved + nOut / s.fftOut * s.fftIn = s.saved + nIn ∧ nOut % s.fftOut = 0
  | .fftOut => s.saved + nIn / s.fftIn * s.fftOut = nOut + s'.saved ∧ nIn % s.fftIn = 0
  | .fftIo => nIn = s.fftIn ∧ nOut = s.fftOut

/-- everything a successful call guarantees -/
structure CallSpec (s s' : FState σ υ) (r : FCallOut σ) (um : Option (List Bool)) : Prop where
  nIn_eq : r.nIn = s.inputFramesNext
  nOut_eq : r.nOut = s.outputFramesNext DivArith.exact
  wf : WF s'
  shape : SameShape s s'
  mask_eq : s'.mask = effMask s.nch um
  out_len : r.out.length = s.nch
  acct : Accounts s s' r.nIn r.nOut

/-- **Totality and invariance.**  On a well-formed state and valid arguments `process` returns `ok`
(never `err`, `panic`, `abort`), consumes `input_frames_next()` frames, produces
`output_frames_next()` frames, and re-establishes the invariant. -/
theorem process_ok (u : FftUnit σ υ) {s : FState σ υ} {input : List (List σ)} {outLens : List Nat}
    {um : Option (List Bool)} (hwf : WF s) (hv : ValidArgs s input outLens um) :
    ∃ s' r, s.process DivArith.exact u input outLens um = (s', .ok r) ∧ CallSpec s s' r um := by
  cases hk : s.kind
  · obtain ⟨s', r, hp, h1, h2, k1, k2, k3, k4, k5, k6, k7, k8, k9, k10, k11, k12, k13⟩ :=
      process_fftIn_ok u hk hwf hv
    have hfo := hwf.fftOut_pos
    refine ⟨s', r, hp, ?_, ?_, ?_, ⟨k1, k2, k3, k4, k5, k6⟩, k8, k13, ?_⟩
    · simp only [FState.inputFramesNext, hk, h1]
    · simp only [FState.outputFramesNext, hk, h2, fdiv_exact]
    · refine ⟨by rw [k5]; exact hwf.fftIn_pos, by rw [k6]; exact hfo, by rw [k10, k2], by rw [k11, k2], ?_⟩
      unfold KindInv
      rw [k1, hk]
      refine ⟨by rw [k9, k5]; exact Nat.mod_lt _ hwf.fftIn_pos, ?_⟩
      rw [k3, k5]; exact k12
    · unfold Accounts
      rw [hk]
      simp only [h1, h2, k9]
      rw [Nat.mul_div_cancel _ hfo, Nat.mul_mod_left]
      exact ⟨Nat.mod_add_div' _ _, rfl⟩
  · obtain ⟨s', r, hp, h1, h2, k1, k2, k3, k4, k5, k6, k8, k9, k9', k7, k10, k11, k12, k13⟩ :=
      process_fftOut_ok u hk hwf hv
    obtain ⟨-, hfn, -⟩ := hwf.fftOut_inv hk
    refine ⟨s', r, hp, ?_, ?_, ?_, ⟨k1, k2, k3, k4, k5, k6⟩, k8, k13, ?_⟩
    · simp only [FState.inputFramesNext, hk, h1]
    · simp only [FState.outputFramesNext, hk, h2]
    · refine ⟨by rw [k5]; exact hwf.fftIn_pos, by rw [k6]; exact hwf.fftOut_pos, by rw [k10, k2],
        by rw [k11, k2], ?_⟩
      unfold KindInv
      rw [k1, hk]
      refine ⟨by rw [k6]; exact k9', ?_, ?_⟩
      · rw [k4, k5, k6, cdiv_exact]; exact k7
      · rw [k4, k6]; exact k12
    · unfold Accounts
      rw [hk]
      simp only [h1, h2]
      refine ⟨by omega, ?_⟩
      rw [hfn]; exact Nat.mul_mod_left _ _
  · obtain ⟨s', r, hp, h1, h2, k1, k2, k3, k4, k5, k6, k7, k8, k9, k9', k10, k13⟩ :=
      process_fftIo_ok u hk hwf hv
    obtain ⟨hci, hco, hsv⟩ := hwf.fftIo_inv hk
    refine ⟨s', r, hp, ?_, ?_, ?_, ⟨k1, k2, k3, k4, k5, k6⟩, k8, k13, ?_⟩
    · simp only [FState.inputFramesNext, hk, h1]
    · simp only [FState.outputFramesNext, hk, h2, hco]
    · refine ⟨by rw [k5]; exact hwf.fftIn_pos, by rw [k6]; exact hwf.fftOut_pos, by rw [k10, k2],
        by rw [k9', k2]; exact hwf.store_len, ?_⟩
      unfold KindInv
      rw [k1, hk]
      exact ⟨by rw [k3, k5]; exact hci, by rw [k4, k6]; exact hco, by rw [k9]; exact hsv⟩
    · unfold Accounts
      rw [hk]
      exact ⟨h1, h2⟩

/-- no call on valid arguments ends in an error, a panic or an abort -/
theorem process_no_failure (u : FftUnit σ υ) {s : FState σ υ} {input : List (List σ)} {outLens : List Nat}
    {um : Option (List Bool)} (hwf : WF s) (hv : ValidArgs s input outLens um) :
    (∀ e, (s.process DivArith.exact u input outLens um).2 ≠ .err e) ∧
    (∀ m, (s.process DivArith.exact u input outLens um).2 ≠ .panic m) ∧
    (∀ m, (s.process DivArith.exact u input outLens um).2 ≠ .abort m) := by
  obtain ⟨s', r, hp, -⟩ := process_ok u hwf hv
  rw [hp]
  exact ⟨fun _ h => (by cases h), fun _ h => (by cases h), fun _ h => (by cases h)⟩

/-- FftFixedOut: the branch `processed_frames < chunk_size_out` (nothing copied out, the caller
still told `chunk_size_out` frames were written) is unreachable from a well-formed state. -/
theorem fftOut_copyOut {s : FState σ υ} (hwf : WF s) (hk : s.kind = .fftOut) :
    decide (s.saved + s.fftOut * (s.framesNeeded / s.fftIn) ≥ s.chunkOut) = true := by
  obtain ⟨-, hfn, -⟩ := hwf.fftOut_inv hk
  have h1 := le_cdiv_mul (a := s.chunkOut - s.saved) hwf.fftOut_pos
  apply decide_eq_true
  rw [hfn, Nat.mul_div_cancel _ hwf.fftIn_pos, Nat.mul_comm]
  omega


/-! ## 5. The error path changes nothing but the mask -/

theorem process_err_frame (da : DivArith) (u : FftUnit σ υ) (s : FState σ υ) (input : List (List σ))
    (outLens : List Nat) (um : Option (List Bool)) (s' : FState σ υ) (e : RErr)
    (h : s.process da u input outLens um = (s', .err e)) : s' = { s with mask := s'.mask } := by
  unfold FState.process at h
  split at h
  · simp only [Prod.mk.injEq] at h
    rw [← h.1]
  · simp only at h
    split at h
    all_goals (split at h)
    all_goals (try (simp only [Prod.mk.injEq] at h; rw [← h.1]))
    all_goals (repeat' (split at h))
    all_goals (simp at h)


/-! ## 7. Accounting -/

section Accounting
variable {s s' : FState σ υ} {r : FCallOut σ} {um : Option (List Bool)}

/-- FftFixedIn, per call -/
theorem CallSpec.fftIn_acct (h : CallSpec s s' r um) (hk : s.kind = .fftIn) :
    s'.saved + r.nOut / s.fftOut * s.fftIn = s.saved + r.nIn ∧ r.nOut % s.fftOut = 0 := by
  have := h.acct; unfold Accounts at this; rw [hk] at this; exact this

/-- FftFixedIn, per call, product form -/
theorem CallSpec.fftIn_acct_mul (h : CallSpec s s' r um) (hk : s.kind = .fftIn) :
    (s.saved + r.nIn) * s.fftOut = r.nOut * s.fftIn + s'.saved * s.fftOut := by
  obtain ⟨h1, h2⟩ := h.fftIn_acct hk
  have h3 := Nat.div_add_mod r.nOut s.fftOut
  rw [h2, Nat.add_zero] at h3
  rw [← h1]
  generalize r.nOut / s.fftOut = k at *
  rw [← h3]
  ring

/-- FftFixedOut, per call -/
theorem CallSpec.fftOut_acct (h : CallSpec s s' r um) (hk : s.kind = .fftOut) :
    s.saved + r.nIn / s.fftIn * s.fftOut = r.nOut + s'.saved ∧ r.nIn % s.fftIn = 0 := by
  have := h.acct; unfold Accounts at this; rw [hk] at this; exact this

/-- FftFixedOut, per call, product form -/
theorem CallSpec.fftOut_acct_mul (h : CallSpec s s' r um) (hk : s.kind = .fftOut) :
    r.nIn * s.fftOut + s.saved * s.fftIn = (r.nOut + s'.saved) * s.fftIn := by
  obtain ⟨h1, h2⟩ := h.fftOut_acct hk
  have h3 := Nat.div_add_mod r.nIn s.fftIn
  rw [h2, Nat.add_zero] at h3
  rw [← h1]
  generalize r.nIn / s.fftIn = k at *
  rw [← h3]
  ring

/-- FftFixedInOut, per call -/
theorem CallSpec.fftIo_acct (h : CallSpec s s' r um) (hk : s.kind = .fftIo) :
    r.nIn = s.fftIn ∧ r.nOut = s.fftOut ∧ r.nIn * s.fftOut = r.nOut * s.fftIn := by
  have := h.acct; unfold Accounts at this; rw [hk] at this
  exact ⟨this.1, this.2, by rw [this.1, this.2, Nat.mul_comm]⟩

end Accounting

/-- one call of a history -/
structure Call (σ : Type) where
  input : List (List σ)
  outLens : List Nat
  mask : Option (List Bool)

/-- run a history of calls from `s`, adding the frames consumed / produced by the successful calls
to the running totals `(totalIn, totalOut)` -/
def runCalls (u : FftUnit σ υ) : FState σ υ → Nat × Nat → List (Call σ) → FState σ υ × Nat × Nat
  | s, acc, [] => (s, acc)
  | s, acc, c :: cs =>
    match s.process DivArith.exact u c.input c.outLens c.mask with
    | (s', .ok r) => runCalls u s' (acc.1 + r.nIn, acc.2 + r.nOut) cs
    | (s', _) => runCalls u s' acc cs

/-- every call of the history is valid for the state it meets -/
def ValidHist (u : FftUnit σ υ) : FState σ υ → List (Call σ) → Prop
  | _, [] => True
  | s, c :: cs => ValidArgs s c.input c.outLens c.mask ∧
      ValidHist u (s.process DivArith.exact u c.input c.outLens c.mask).1 cs

/-- the ledger: how the totals relate to the frames still held -/
def Ledger (s : FState σ υ) (tin tout : Nat) : Prop :=
  match s.kind with
  | .fftIn => tin * s.fftOut = tout * s.fftIn + s.saved * s.fftOut
  | .fftOut => tin * s.fftOut = (tout + s.saved) * s.fftIn
  | .fftIo => tin * s.fftOut = tout * s.fftIn

theorem ledger_step {s s' : FState σ υ} {r : FCallOut σ} {um : Option (List Bool)} {tin tout : Nat}
    (hL : Ledger s tin tout) (h : CallSpec s s' r um) : Ledger s' (tin + r.nIn) (tout + r.nOut) := by
  obtain ⟨e1, -, -, -, e5, e6⟩ := h.shape
  unfold Ledger at hL ⊢
  rw [e1, e5, e6]
  cases hk : s.kind <;> rw [hk] at hL <;> simp only at hL ⊢
  · have := h.fftIn_acct_mul hk
    linarith
  · have := h.fftOut_acct_mul hk
    linarith
  · obtain ⟨-, -, this⟩ := h.fftIo_acct hk
    linarith

/-- **Accounting over histories** (no bound on the length): from any well-formed state whose ledger
balances, after any valid history the state is well-formed, has the same configuration, and the
ledger balances. -/
theorem runCalls_ledger (u : FftUnit σ υ) :
    ∀ (cs : List (Call σ)) (s : FState σ υ) (tin tout : Nat), WF s → Ledger s tin tout → ValidHist u s cs →
      WF (runCalls u s (tin, tout) cs).1 ∧ SameShape s (runCalls u s (tin, tout) cs).1 ∧
      Ledger (runCalls u s (tin, tout) cs).1 (runCalls u s (tin, tout) cs).2.1 (runCalls u s (tin, tout) cs).2.2
  | [], s, tin, tout, hwf, hL, _ => ⟨hwf, SameShape.refl s, hL⟩
  | c :: cs, s, tin, tout, hwf, hL, hv => by
    obtain ⟨hv1, hv2⟩ := hv
    obtain ⟨s', r, hp, hspec⟩ := process_ok u hwf hv1
    rw [hp] at hv2
    have ih := runCalls_ledger u cs s' (tin + r.nIn) (tout + r.nOut) hspec.wf (ledger_step hL hspec) hv2
    simp only [runCalls, hp]
    exact ⟨ih.1, hspec.shape.trans ih.2.1, ih.2.2⟩

/-- a freshly constructed resampler has a balanced ledger at `(0, 0)` -/
theorem init_ledger {u : FftUnit σ υ} {z : σ} {kind : FKind} {ri ro chunk sub nch : Nat}
    {s : FState σ υ} (h : FState.init DivArith.exact u z kind ri ro chunk sub nch = .ok s) :
    Ledger s 0 0 := by
  obtain ⟨-, -, -, -, hsv, -⟩ := init_ok_fields h
  unfold Ledger
  cases s.kind <;> simp [hsv]

/-- FftFixedIn over a whole history: `totalIn * fft_out = totalOut * fft_in + saved * fft_out`, `saved < fft_in` -/
theorem runCalls_fftIn (u : FftUnit σ υ) {s : FState σ υ} (cs : List (Call σ)) (hk : s.kind = .fftIn)
    (hwf : WF s) (h0 : s.saved = 0) (hv : ValidHist u s cs) :
    let res := runCalls u s (0, 0) cs
    res.2.1 * s.fftOut = res.2.2 * s.fftIn + res.1.saved * s.fftOut ∧ res.1.saved < s.fftIn := by
  have hL : Ledger s 0 0 := by unfold Ledger; rw [hk]; simp [h0]
  obtain ⟨w, ⟨e1, -, -, -, e5, e6⟩, l⟩ := runCalls_ledger u cs s 0 0 hwf hL hv
  have hk' := e1.trans hk
  unfold Ledger at l
  rw [hk', e5, e6] at l
  exact ⟨l, by have := (w.fftIn_inv hk').1; rwa [e5] at this⟩

/-- FftFixedOut over a whole history: `totalIn * fft_out = (totalOut + saved) * fft_in`, `saved < fft_out` -/
theorem runCalls_fftOut (u : FftUnit σ υ) {s : FState σ υ} (cs : List (Call σ)) (hk : s.kind = .fftOut)
    (hwf : WF s) (h0 : s.saved = 0) (hv : ValidHist u s cs) :
    let res := runCalls u s (0, 0) cs
    res.2.1 * s.fftOut = (res.2.2 + res.1.saved) * s.fftIn ∧ res.1.saved < s.fftOut := by
  have hL : Ledger s 0 0 := by unfold Ledger; rw [hk]; simp [h0]
  obtain ⟨w, ⟨e1, -, -, -, e5, e6⟩, l⟩ := runCalls_ledger u cs s 0 0 hwf hL hv
  have hk' := e1.trans hk
  unfold Ledger at l
  rw [hk', e5, e6] at l
  exact ⟨l, by have := (w.fftOut_inv hk').1; rwa [e6] at this⟩

/-- FftFixedInOut over a whole history: `totalIn * fft_out = totalOut * fft_in` -/
theorem runCalls_fftIo (u : FftUnit σ υ) {s : FState σ υ} (cs : List (Call σ)) (hk : s.kind = .fftIo)
    (hwf : WF s) (hv : ValidHist u s cs) :
    let res := runCalls u s (0, 0) cs
    res.2.1 * s.fftOut = res.2.2 * s.fftIn := by
  have hL : Ledger s 0 0 := by unfold Ledger; rw [hk]; simp
  obtain ⟨w, ⟨e1, -, -, -, e5, e6⟩, l⟩ := runCalls_ledger u cs s 0 0 hwf hL hv
  have hk' := e1.trans hk
  unfold Ledger at l
  rw [hk', e5, e6] at l
  exact l

/-- with the sizing theorem: over any valid history of a constructed resampler the totals are in the
exact ratio of the *sample rates*, up to the frames still held -/
theorem runCalls_rates_fftIo {u : FftUnit σ υ} {z : σ} {ri ro chunk sub nch : Nat} {s : FState σ υ}
    (h : FState.init DivArith.exact u z .fftIo ri ro chunk sub nch = .ok s) (cs : List (Call σ))
    (hv : ValidHist u s cs) :
    (runCalls u s (0, 0) cs).2.1 * ro = (runCalls u s (0, 0) cs).2.2 * ri := by
  obtain ⟨hi, ho, hk, -, -, -, -, hio, -, -⟩ := init_ok_fields h
  obtain ⟨h1, h2, -⟩ := hio rfl
  have hr := fftSizes_ratio ri ro chunk false
  rw [← h1, ← h2] at hr
  have hl := runCalls_fftIo u cs hk (init_wf' h) hv
  simp only at hl
  have hfi := (init_wf' h).fftIn_pos
  have hfo := (init_wf' h).fftOut_pos
  generalize (runCalls u s (0, 0) cs).2.1 = tin at *
  generalize (runCalls u s (0, 0) cs).2.2 = tout at *
  have e : (tin * ro) * (s.fftIn * s.fftOut) = (tout * ri) * (s.fftIn * s.fftOut) := by
    calc (tin * ro) * (s.fftIn * s.fftOut) = (tin * s.fftOut) * (s.fftIn * ro) := by ring
      _ = (tout * s.fftIn) * (s.fftOut * ri) := by rw [hl, hr]
      _ = (tout * ri) * (s.fftIn * s.fftOut) := by ring
  exact Nat.eq_of_mul_eq_mul_right (Nat.mul_pos hfi hfo) e


/-! ### Totals in the ratio of the sample rates -/

theorem rates_of_blocks {fi fo ri ro a b : Nat} (hr : fi * ro = fo * ri) (hfi : 0 < fi) (hfo : 0 < fo)
    (h : a * fo = b * fi) : a * ro = b * ri := by
  have e : (a * ro) * (fi * fo) = (b * ri) * (fi * fo) := by
    calc (a * ro) * (fi * fo) = (a * fo) * (fi * ro) := by ring
      _ = (b * fi) * (fo * ri) := by rw [h, hr]
      _ = (b * ri) * (fi * fo) := by ring
  exact Nat.eq_of_mul_eq_mul_right (Nat.mul_pos hfi hfo) e

theorem rates_of_blocks_in {fi fo ri ro a b sv : Nat} (hr : fi * ro = fo * ri) (hfi : 0 < fi)
    (h : a * fo = b * fi + sv * fo) : a * ro = b * ri + sv * ro := by
  have e : fi * (a * ro) = fi * (b * ri + sv * ro) := by
    calc fi * (a * ro) = a * (fi * ro) := by ring
      _ = (a * fo) * ri := by rw [hr]; ring
      _ = (b * fi + sv * fo) * ri := by rw [h]
      _ = fi * (b * ri) + sv * (fo * ri) := by ring
      _ = fi * (b * ri) + sv * (fi * ro) := by rw [hr]
      _ = fi * (b * ri + sv * ro) := by ring
  exact Nat.eq_of_mul_eq_mul_left hfi e

/-! ## 8. `reset` -/

theorem FState.ext' {a b : FState σ υ} (h1 : a.kind = b.kind) (h2 : a.nch = b.nch)
    (h3 : a.chunkIn = b.chunkIn) (h4 : a.chunkOut = b.chunkOut) (h5 : a.fftIn = b.fftIn)
    (h6 : a.fftOut = b.fftOut) (h7 : a.saved = b.saved) (h8 : a.framesNeeded = b.framesNeeded)
    (h9 : a.ov = b.ov) (h10 : a.store = b.store) (h11 : a.mask = b.mask) : a = b := by
  obtain ⟨a1, a2, a3, a4, a5, a6, a7, a8, a9, a10, a11⟩ := a
  obtain ⟨b1, b2, b3, b4, b5, b6, b7, b8, b9, b10, b11⟩ := b
  simp only at h1 h2 h3 h4 h5 h6 h7 h8 h9 h10 h11
  subst h1 h2 h3 h4 h5 h6 h7 h8 h9 h10 h11
  rfl

theorem map_replicate_length (z : σ) (L : Nat) :
    ∀ (l : List (List σ)), (∀ b ∈ l, b.length = L) →
      l.map (fun b => List.replicate b.length z) = List.replicate l.length (List.replicate L z)
  | [], _ => rfl
  | b :: l, h => by
    simp only [List.map_cons, List.length_cons, List.replicate_succ]
    rw [h b (List.mem_cons_self ..), map_replicate_length z L l (fun b' hb' => h b' (List.mem_cons_of_mem _ hb'))]

/-- the state `reset` produces, written out: it depends only on the configuration (plus, for
FftFixedInOut / FftFixedIn, the fields these resamplers do not have and the model never writes) -/
def resetState (u : FftUnit σ υ) (z : σ) (s : FState σ υ) : FState σ υ :=
  match s.kind with
  | .fftIn => { s with ov := List.replicate s.nch u.init, mask := List.replicate s.nch true, saved := 0,
                        store := List.replicate s.nch (List.replicate (s.chunkIn + s.fftIn) z) }
  | .fftOut => { s with ov := List.replicate s.nch u.init, mask := List.replicate s.nch true, saved := 0,
                         store := List.replicate s.nch (List.replicate (s.chunkOut + s.fftOut) z),
                         framesNeeded := DivArith.exact.cdiv s.chunkOut s.fftOut * s.fftIn }
  | .fftIo => { s with ov := List.replicate s.nch u.init, mask := List.replicate s.nch true }

/-- `reset` in closed form -/
theorem reset_eq (u : FftUnit σ υ) (z : σ) {s : FState σ υ} (hwf : WF s) :
    FState.reset DivArith.exact u z s = resetState u z s := by
  unfold FState.reset resetState
  cases hk : s.kind <;> simp only
  · rw [map_replicate_length z _ s.store (hwf.fftIn_inv hk).2, hwf.store_len]
  · rw [map_replicate_length z _ s.store (hwf.fftOut_inv hk).2.2, hwf.store_len]

theorem reset_shape (da : DivArith) (u : FftUnit σ υ) (z : σ) (s : FState σ υ) :
    SameShape s (FState.reset da u z s) := by
  unfold FState.reset SameShape
  cases s.kind <;> exact ⟨rfl, rfl, rfl, rfl, rfl, rfl⟩

/-- after `reset` nothing is held back -/
theorem reset_saved (u : FftUnit σ υ) (z : σ) {s : FState σ υ} (hwf : WF s) :
    (FState.reset DivArith.exact u z s).saved = 0 := by
  unfold FState.reset
  cases hk : s.kind <;> simp only
  exact (hwf.fftIo_inv hk).2.2

/-- `reset` re-establishes the invariant -/
theorem reset_wf (u : FftUnit σ υ) (z : σ) {s : FState σ υ} (hwf : WF s) :
    WF (FState.reset DivArith.exact u z s) := by
  rw [reset_eq u z hwf]
  unfold resetState
  cases hk : s.kind <;> simp only
  · refine ⟨hwf.fftIn_pos, hwf.fftOut_pos, by simp, by simp, ?_⟩
    unfold KindInv
    simp only
    refine ⟨hwf.fftIn_pos, ?_⟩
    intro b hb
    rw [List.eq_of_mem_replicate hb, List.length_replicate]
  · refine ⟨hwf.fftIn_pos, hwf.fftOut_pos, by simp, by simp, ?_⟩
    unfold KindInv
    simp only
    refine ⟨hwf.fftOut_pos, by rw [Nat.sub_zero], ?_⟩
    intro b hb
    rw [List.eq_of_mem_replicate hb, List.length_replicate]
  · refine ⟨hwf.fftIn_pos, hwf.fftOut_pos, by simp, hwf.store_len, ?_⟩
    unfold KindInv
    simp only
    exact hwf.fftIo_inv hk

/-- `reset` of a freshly constructed resampler is the identity: `new` builds exactly the reset state -/
theorem reset_init {u : FftUnit σ υ} {z : σ} {kind : FKind} {ri ro chunk sub nch : Nat}
    {s : FState σ υ} (h : FState.init DivArith.exact u z kind ri ro chunk sub nch = .ok s) :
    FState.reset DivArith.exact u z s = s := by
  rw [reset_eq u z (init_wf' h)]
  obtain ⟨-, -, hk, hn, hsv, hov, hmk, hio, hin, hout⟩ := init_ok_fields h
  unfold resetState
  cases kind <;> simp only [hk]
  · obtain ⟨h1, h2, h3, h4, h5, h6⟩ := hin rfl
    apply FState.ext' <;> simp only [hk, hn, hov, hmk, hsv, h6, h3]
  · obtain ⟨h1, h2, h3, h4, h5, h6⟩ := hout rfl
    apply FState.ext' <;> simp only [hk, hn, hov, hmk, hsv, h6, h4, h5]
  · apply FState.ext' <;> simp only [hk, hn, hov, hmk]

/-- a valid call does not change what `reset` returns -/
theorem reset_process (u : FftUnit σ υ) (z : σ) {s : FState σ υ} {input : List (List σ)}
    {outLens : List Nat} {um : Option (List Bool)} (hwf : WF s) (hv : ValidArgs s input outLens um) :
    FState.reset DivArith.exact u z (s.process DivArith.exact u input outLens um).1 =
      FState.reset DivArith.exact u z s := by
  obtain ⟨s', r, hp, hspec⟩ := process_ok u hwf hv
  rw [hp, reset_eq u z hwf, reset_eq u z hspec.wf]
  unfold resetState
  cases hk : s.kind
  · obtain ⟨s'', r', hp', -, -, k1, k2, k3, k4, k5, k6, k7, -⟩ := process_fftIn_ok u hk hwf hv
    rw [hp] at hp'
    obtain rfl : s' = s'' := (Prod.mk.inj hp').1
    simp only [k1, hk]
    apply FState.ext' <;> simp only [k2, k3, k4, k5, k6, k7]
  · obtain ⟨s'', r', hp', -, -, k1, k2, k3, k4, k5, k6, -⟩ := process_fftOut_ok u hk hwf hv
    rw [hp] at hp'
    obtain rfl : s' = s'' := (Prod.mk.inj hp').1
    simp only [k1, hk]
    apply FState.ext' <;> simp only [k2, k3, k4, k5, k6]
  · obtain ⟨s'', r', hp', -, -, k1, k2, k3, k4, k5, k6, k7, -, k9, k10, -⟩ := process_fftIo_ok u hk hwf hv
    rw [hp] at hp'
    obtain rfl : s' = s'' := (Prod.mk.inj hp').1
    simp only [k1, hk]
    apply FState.ext' <;> simp only [k2, k3, k4, k5, k6, k7, k9, k10]

/-- `reset` after any valid history gives back the freshly constructed resampler, state for state
(hence every getter agrees with the new resampler's) -/
theorem reset_runCalls {u : FftUnit σ υ} {z : σ} :
    ∀ (cs : List (Call σ)) (s : FState σ υ) (acc : Nat × Nat), WF s → ValidHist u s cs →
      FState.reset DivArith.exact u z (runCalls u s acc cs).1 = FState.reset DivArith.exact u z s
  | [], _, _, _, _ => rfl
  | c :: cs, s, acc, hwf, hv => by
    obtain ⟨hv1, hv2⟩ := hv
    obtain ⟨s', r, hp, hspec⟩ := process_ok u hwf hv1
    have hr := reset_process u z hwf hv1
    rw [hp] at hv2 hr
    simp only [runCalls, hp]
    rw [reset_runCalls cs s' _ hspec.wf hv2, hr]

theorem reset_after_history {u : FftUnit σ υ} {z : σ} {kind : FKind} {ri ro chunk sub nch : Nat}
    {s : FState σ υ} (h : FState.init DivArith.exact u z kind ri ro chunk sub nch = .ok s)
    (cs : List (Call σ)) (hv : ValidHist u s cs) :
    FState.reset DivArith.exact u z (runCalls u s (0, 0) cs).1 = s := by
  rw [reset_runCalls cs s _ (init_wf' h) hv, reset_init h]

/-- FftFixedIn, constructed, any valid history: `totalIn * rate_out = totalOut * rate_in + saved * rate_out` -/
theorem runCalls_rates_fftIn {u : FftUnit σ υ} {z : σ} {ri ro chunk sub nch : Nat} {s : FState σ υ}
    (h : FState.init DivArith.exact u z .fftIn ri ro chunk sub nch = .ok s) (cs : List (Call σ))
    (hv : ValidHist u s cs) :
    (runCalls u s (0, 0) cs).2.1 * ro =
      (runCalls u s (0, 0) cs).2.2 * ri + (runCalls u s (0, 0) cs).1.saved * ro ∧
    (runCalls u s (0, 0) cs).1.saved < s.fftIn := by
  obtain ⟨hi, ho, hk, -, hsv, -, -, -, hin, -⟩ := init_ok_fields h
  obtain ⟨h1, h2, -⟩ := hin rfl
  have hr := fftSizes_ratio ri ro (chunk / sub) false
  rw [← h1, ← h2] at hr
  have hl := runCalls_fftIn u cs hk (init_wf' h) hsv hv
  simp only at hl
  exact ⟨rates_of_blocks_in hr (init_wf' h).fftIn_pos hl.1, hl.2⟩

/-- FftFixedOut, constructed, any valid history: `totalIn * rate_out = (totalOut + saved) * rate_in` -/
theorem runCalls_rates_fftOut {u : FftUnit σ υ} {z : σ} {ri ro chunk sub nch : Nat} {s : FState σ υ}
    (h : FState.init DivArith.exact u z .fftOut ri ro chunk sub nch = .ok s) (cs : List (Call σ))
    (hv : ValidHist u s cs) :
    (runCalls u s (0, 0) cs).2.1 * ro =
      ((runCalls u s (0, 0) cs).2.2 + (runCalls u s (0, 0) cs).1.saved) * ri ∧
    (runCalls u s (0, 0) cs).1.saved < s.fftOut := by
  obtain ⟨hi, ho, hk, -, hsv, -, -, -, -, hout⟩ := init_ok_fields h
  obtain ⟨h1, h2, -⟩ := hout rfl
  have hr := fftSizes_ratio ri ro (chunk / sub) true
  rw [← h1, ← h2] at hr
  have hl := runCalls_fftOut u cs hk (init_wf' h) hsv hv
  simp only at hl
  exact ⟨rates_of_blocks hr (init_wf' h).fftIn_pos (init_wf' h).fftOut_pos hl.1, hl.2⟩

/-! ## 9. Non-vacuity -/

section Examples

/-- a unit for the examples: pads or cuts the block to 6 frames -/
def exUnit : FftUnit Nat Unit := ⟨(), fun _ b => ((b ++ [0, 0, 0, 0, 0, 0]).take 6, ())⟩

/-- the sizes of the crate's own test configuration `new(44100, 48000, 1024, 2, 2)` -/
example : fftSizes DivArith.exact 44100 48000 (1024 / 2) false = (588, 640) := by decide
example : fftSizes DivArith.exact 44100 48000 (1024 / 2) true = (588, 640) := by decide
example : fftSizes DivArith.exact 44100 48000 1024 false = (1029, 1120) := by decide

/-- a well-formed state of each kind exists (the crate's test configuration) -/
example (kind : FKind) :
    ∃ s, FState.init DivArith.exact exUnit 0 kind 44100 48000 1024 2 2 = .ok s ∧ WF s := by
  obtain ⟨s, hs⟩ := init_ok_of_pos exUnit 0 kind 1024 2 2 (by decide : 0 < 44100) (by decide : 0 < 48000)
  exact ⟨s, hs, init_wf' hs⟩

/-- a small FftFixedIn: rates 2 → 3, chunk 4, one channel; blocks 4 → 6 -/
def exIn : FState Nat Unit :=
  { kind := .fftIn, nch := 1, chunkIn := 4, chunkOut := 0, fftIn := 4, fftOut := 6, saved := 0,
    framesNeeded := 0, ov := [()], store := [[0, 0, 0, 0, 0, 0, 0, 0]], mask := [true] }

example : FState.init DivArith.exact exUnit 0 .fftIn 2 3 4 1 1 = .ok exIn := rfl
theorem exIn_wf : WF exIn := init_wf' (u := exUnit) (z := 0) (kind := .fftIn) (ri := 2) (ro := 3)
  (chunk := 4) (sub := 1) (nch := 1) rfl

/-- a small FftFixedOut: rates 2 → 3, chunk 4 (output), one channel; blocks 4 → 6 -/
def exOut : FState Nat Unit :=
  { kind := .fftOut, nch := 1, chunkIn := 0, chunkOut := 4, fftIn := 4, fftOut := 6, saved := 0,
    framesNeeded := 4, ov := [()], store := [[0, 0, 0, 0, 0, 0, 0, 0, 0, 0]], mask := [true] }

example : FState.init DivArith.exact exUnit 0 .fftOut 2 3 4 1 1 = .ok exOut := rfl
theorem exOut_wf : WF exOut := init_wf' (u := exUnit) (z := 0) (kind := .fftOut) (ri := 2) (ro := 3)
  (chunk := 4) (sub := 1) (nch := 1) rfl

/-- a small FftFixedInOut -/
def exIo : FState Nat Unit :=
  { kind := .fftIo, nch := 1, chunkIn := 4, chunkOut := 6, fftIn := 4, fftOut := 6, saved := 0,
    framesNeeded := 0, ov := [()], store := [[]], mask := [true] }

example : FState.init DivArith.exact exUnit 0 .fftIo 2 3 4 1 1 = .ok exIo := rfl
theorem exIo_wf : WF exIo := init_wf' (u := exUnit) (z := 0) (kind := .fftIo) (ri := 2) (ro := 3)
  (chunk := 4) (sub := 1) (nch := 1) rfl

/-- a concrete valid call -/
theorem exIn_valid : ValidArgs exIn [[1, 2, 3, 4]] [6] none where
  mask_len := by intro m h; cases h
  in_len := rfl
  out_len := rfl
  in_frames := by
    intro c h1 _ _
    have : c = 0 := by simpa using h1
    subst this; simp [FState.inputFramesNext, exIn]
  out_frames := by
    intro c h1 _ _
    have : c = 0 := by simpa using h1
    subst this; simp [FState.outputFramesNext, exIn, fdiv_exact]

/-- … and what it returns, computed by the model -/
example : (exIn.process DivArith.exact exUnit [[1, 2, 3, 4]] [6] none).2 =
    .ok { nIn := 4, nOut := 6, out := [some [1, 2, 3, 4, 0, 0]] } := rfl

example : (exIn.process DivArith.exact exUnit [[1, 2, 3, 4]] [6] none).1.saved = 0 := by decide

/-- the general theorem applies to it -/
example : ∃ s' r, exIn.process DivArith.exact exUnit [[1, 2, 3, 4]] [6] none = (s', .ok r) ∧
    CallSpec exIn s' r none := process_ok exUnit exIn_wf exIn_valid

/-- a valid FftFixedOut call: 4 frames in, 4 of the 6 produced frames out, 2 saved -/
theorem exOut_valid : ValidArgs exOut [[1, 2, 3, 4]] [4] none where
  mask_len := by intro m h; cases h
  in_len := rfl
  out_len := rfl
  in_frames := by
    intro c h1 _ _
    have : c = 0 := by simpa using h1
    subst this; simp [FState.inputFramesNext, exOut]
  out_frames := by
    intro c h1 _ _
    have : c = 0 := by simpa using h1
    subst this; simp [FState.outputFramesNext, exOut]

example : (exOut.process DivArith.exact exUnit [[1, 2, 3, 4]] [4] none).1.saved = 2 := by decide
example : (exOut.process DivArith.exact exUnit [[1, 2, 3, 4]] [4] none).1.framesNeeded = 4 := by decide

/-- a two-call valid history, the second call meeting the state the first one left -/
theorem exIn_hist : ValidHist exUnit exIn [⟨[[1, 2, 3, 4]], [6], none⟩, ⟨[[5, 6, 7, 8, 9]], [7], some [true]⟩] := by
  refine ⟨exIn_valid, ⟨?_, rfl, rfl, ?_, ?_⟩, trivial⟩
  · intro m h; cases h; rfl
  · intro c h1 _ _
    have : c = 0 := by simpa using h1
    subst this
    simp only [List.getElem_cons_zero]
    decide
  · intro c h1 _ _
    have : c = 0 := by simpa using h1
    subst this
    simp only [List.getElem_cons_zero]
    decide

/-- its totals, computed by the model: 8 frames in, 12 out, nothing saved — and `8 * 6 = 12 * 4` -/
example : (runCalls exUnit exIn (0, 0) [⟨[[1, 2, 3, 4]], [6], none⟩, ⟨[[5, 6, 7, 8, 9]], [7], some [true]⟩]).2
    = (8, 12) := by decide

end Examples


end Rubato.FftProofs
