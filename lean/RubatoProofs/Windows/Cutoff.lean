/-
Windows / cutoff: facts about the *generated* `Rubato.Gen.Win.*` definitions (translated from
/repo/src/windows.rs) at exact arithmetic ρ = σ = ℚ.

* `calculate_cutoff n w = 1 / (k1/n + k2/n² + k3/n³ + 1)` with `(k1,k2,k3) = cutoffCoeffs w`,
  all coefficients positive; hence `0 < fc < 1`, `fc` strictly increasing in `n`, and the
  stop-band edge expression `1 − fc` is positive.
* `windowSquared` marks exactly the `…2` variants and `make_window_at` squares exactly the base value.
* the coefficient tables are the textbook Hann / Blackman / Blackman-Harris ones.
-/
import RubatoModel.Generated
import RubatoProofs.Lemmas.RatBridge
import Mathlib.Tactic.Ring
import Mathlib.Tactic.NormNum
import Mathlib.Tactic.Linarith
import Mathlib.Tactic.Positivity
import Mathlib.Algebra.Order.Field.Basic

namespace Rubato.WinProofs
open Rubato Rubato.Gen

/-! ### `calculate_cutoff` -/

/-- the coefficient triple at ℚ -/
def coeffs (w : Window) : ℚ × ℚ × ℚ := Win.cutoffCoeffs (ρ := ℚ) (σ := ℚ) w

/-- the correction term `k1/n + k2/n² + k3/n³` -/
def corr (w : Window) (n : ℚ) : ℚ :=
  (coeffs w).1 / n + (coeffs w).2.1 / n ^ 2 + (coeffs w).2.2 / n ^ 3

/-- the exact values of the table (decimal literals of windows.rs, as rationals) -/
theorem coeffs_table :
    coeffs .blackman = (6159598046201173 / 1000000000000000, 9463207548803439 / 500000000000000,
      816780928807371 / 1250000000000) ∧
    coeffs .blackman2 = (4753117551064699 / 500000000000000, 3956560317476871 / 50000000000000,
      600892646423557 / 400000000000) ∧
    coeffs .blackmanHarris = (2010360919429119 / 250000000000000, 559506779343387 / 10000000000000,
      8980287985384213 / 10000000000000) ∧
    coeffs .blackmanHarris2 = (13745202940783823 / 1000000000000000, 6086766293187467 / 50000000000000,
      5964163279612051 / 1000000000000) ∧
    coeffs .hann = (16740540443838583 / 5000000000000000, 5053259717437519 / 500000000000000,
      3948172624512207 / 50000000000000) ∧
    coeffs .hann2 = (269375574189367 / 50000000000000, 2969451915489501 / 100000000000000,
      18482117462266237 / 100000000000000) := by
  simp only [coeffs, Win.cutoffCoeffs, Bridge.sofCtl_eq, Bridge.lit_eq]
  norm_num

theorem coeffs_pos (w : Window) : 0 < (coeffs w).1 ∧ 0 < (coeffs w).2.1 ∧ 0 < (coeffs w).2.2 := by
  cases w <;>
    simp only [coeffs, Win.cutoffCoeffs, Bridge.sofCtl_eq, Bridge.lit_eq] <;>
    norm_num

/-- `calculate_cutoff`, unfolded. -/
theorem calculate_cutoff_eq (n : ℕ) (w : Window) :
    Win.calculate_cutoff (ρ := ℚ) (σ := ℚ) n w = 1 / (corr w n + 1) := by
  simp only [Win.calculate_cutoff, corr, coeffs, Bridge.sone_eq, Bridge.sofNat_eq, pow_succ, pow_zero,
    one_mul]

/-- the same with the three coefficients named -/
theorem calculate_cutoff_formula (n : ℕ) (w : Window) (k1 k2 k3 : ℚ)
    (hk : Win.cutoffCoeffs (ρ := ℚ) (σ := ℚ) w = (k1, k2, k3)) :
    Win.calculate_cutoff (ρ := ℚ) (σ := ℚ) n w
      = 1 / (k1 / n + k2 / (n : ℚ) ^ 2 + k3 / (n : ℚ) ^ 3 + 1) := by
  rw [calculate_cutoff_eq]
  simp only [corr, coeffs, hk]

theorem corr_pos (w : Window) {n : ℚ} (hn : 0 < n) : 0 < corr w n := by
  obtain ⟨h1, h2, h3⟩ := coeffs_pos w
  unfold corr
  positivity

/-- `corr` is strictly decreasing on the positive rationals -/
theorem corr_strictAnti (w : Window) {n m : ℚ} (hn : 0 < n) (hnm : n < m) : corr w m < corr w n := by
  obtain ⟨h1, h2, h3⟩ := coeffs_pos w
  have hm : 0 < m := lt_trans hn hnm
  have e1 : (coeffs w).1 / m < (coeffs w).1 / n := div_lt_div_of_pos_left h1 hn hnm
  have p2 : n ^ 2 < m ^ 2 := pow_lt_pow_left₀ hnm hn.le (by norm_num)
  have p3 : n ^ 3 < m ^ 3 := pow_lt_pow_left₀ hnm hn.le (by norm_num)
  have e2 : (coeffs w).2.1 / m ^ 2 < (coeffs w).2.1 / n ^ 2 :=
    div_lt_div_of_pos_left h2 (by positivity) p2
  have e3 : (coeffs w).2.2 / m ^ 3 < (coeffs w).2.2 / n ^ 3 :=
    div_lt_div_of_pos_left h3 (by positivity) p3
  unfold corr
  linarith

theorem cutoff_pos (n : ℕ) (w : Window) (hn : 1 ≤ n) :
    0 < Win.calculate_cutoff (ρ := ℚ) (σ := ℚ) n w := by
  rw [calculate_cutoff_eq]
  have hn' : (0 : ℚ) < n := by exact_mod_cast hn
  have := corr_pos w hn'
  positivity

theorem cutoff_lt_one (n : ℕ) (w : Window) (hn : 1 ≤ n) :
    Win.calculate_cutoff (ρ := ℚ) (σ := ℚ) n w < 1 := by
  rw [calculate_cutoff_eq]
  have hn' : (0 : ℚ) < n := by exact_mod_cast hn
  have := corr_pos w hn'
  rw [div_lt_one (by linarith)]
  linarith

/-- the stop-band edge expression `1 − fc` of the property statement is positive -/
theorem one_sub_cutoff_pos (n : ℕ) (w : Window) (hn : 1 ≤ n) :
    0 < 1 - Win.calculate_cutoff (ρ := ℚ) (σ := ℚ) n w := by
  have := cutoff_lt_one n w hn
  linarith

theorem cutoff_strictMono (n m : ℕ) (w : Window) (hn : 1 ≤ n) (hnm : n < m) :
    Win.calculate_cutoff (ρ := ℚ) (σ := ℚ) n w < Win.calculate_cutoff (ρ := ℚ) (σ := ℚ) m w := by
  rw [calculate_cutoff_eq, calculate_cutoff_eq]
  have hn' : (0 : ℚ) < n := by exact_mod_cast hn
  have hnm' : (n : ℚ) < m := by exact_mod_cast hnm
  have hm' : (0 : ℚ) < m := lt_trans hn' hnm'
  have h1 := corr_pos w hm'
  have h2 := corr_strictAnti w hn' hnm'
  exact one_div_lt_one_div_of_lt (by linarith) (by linarith)

/-- `fc → 1`: the distance to 1 is at most the correction term, which is `O(1/n)` -/
theorem one_sub_cutoff_lt_corr (n : ℕ) (w : Window) (hn : 1 ≤ n) :
    1 - Win.calculate_cutoff (ρ := ℚ) (σ := ℚ) n w < corr w n := by
  rw [calculate_cutoff_eq]
  have hn' : (0 : ℚ) < n := by exact_mod_cast hn
  have h := corr_pos w hn'
  have h1 : (0 : ℚ) < corr w n + 1 := by linarith
  have : 1 - 1 / (corr w n + 1) = corr w n / (corr w n + 1) := by
    field_simp
    ring
  rw [this, div_lt_iff₀ h1]
  nlinarith

/-! ### squared variants -/

theorem windowSquared_iff (w : Window) :
    Win.windowSquared w = true ↔ (w = .blackman2 ∨ w = .blackmanHarris2 ∨ w = .hann2) := by
  cases w <;> simp [Win.windowSquared]

/-- base window of a variant -/
def baseWindow : Window → Window
  | .blackman | .blackman2 => .blackman
  | .blackmanHarris | .blackmanHarris2 => .blackmanHarris
  | .hann | .hann2 => .hann

section generic
variable {ρ σ : Type} [RNum ρ] [SNum ρ σ] [STrig σ]

/-- law-free (holds for every instance, IEEE included): the unsquared variants are the point formulas -/
theorem make_window_at_base (N x : ℕ) :
    Win.make_window_at (ρ := ρ) (σ := σ) .hann N x = Win.hann_at (ρ := ρ) N x ∧
    Win.make_window_at (ρ := ρ) (σ := σ) .blackman N x = Win.blackman_at (ρ := ρ) N x ∧
    Win.make_window_at (ρ := ρ) (σ := σ) .blackmanHarris N x = Win.blackman_harris_at (ρ := ρ) N x :=
  ⟨rfl, rfl, rfl⟩

/-- law-free: the `…2` variants are the product of the base value with itself -/
theorem make_window_at_sq_mul (N x : ℕ) :
    Win.make_window_at (ρ := ρ) (σ := σ) .hann2 N x
      = Win.make_window_at (ρ := ρ) .hann N x * Win.make_window_at (ρ := ρ) .hann N x ∧
    Win.make_window_at (ρ := ρ) (σ := σ) .blackman2 N x
      = Win.make_window_at (ρ := ρ) .blackman N x * Win.make_window_at (ρ := ρ) .blackman N x ∧
    Win.make_window_at (ρ := ρ) (σ := σ) .blackmanHarris2 N x
      = Win.make_window_at (ρ := ρ) .blackmanHarris N x
        * Win.make_window_at (ρ := ρ) .blackmanHarris N x :=
  ⟨rfl, rfl, rfl⟩

/-- law-free, all six at once: value = base value, multiplied by itself iff `windowSquared` -/
theorem make_window_at_eq (w : Window) (N x : ℕ) :
    Win.make_window_at (ρ := ρ) (σ := σ) w N x =
      if Win.windowSquared w then
        Win.make_window_at (ρ := ρ) (baseWindow w) N x * Win.make_window_at (ρ := ρ) (baseWindow w) N x
      else Win.make_window_at (ρ := ρ) (baseWindow w) N x := by
  cases w <;> rfl
end generic

section atRat
variable [STrig ℚ]

theorem hann2_sq (N x : ℕ) :
    Win.make_window_at (ρ := ℚ) (σ := ℚ) .hann2 N x = (Win.make_window_at (ρ := ℚ) .hann N x) ^ 2 := by
  rw [(make_window_at_sq_mul (ρ := ℚ) (σ := ℚ) N x).1, sq]

theorem blackman2_sq (N x : ℕ) :
    Win.make_window_at (ρ := ℚ) (σ := ℚ) .blackman2 N x
      = (Win.make_window_at (ρ := ℚ) .blackman N x) ^ 2 := by
  rw [(make_window_at_sq_mul (ρ := ℚ) (σ := ℚ) N x).2.1, sq]

theorem blackmanHarris2_sq (N x : ℕ) :
    Win.make_window_at (ρ := ℚ) (σ := ℚ) .blackmanHarris2 N x
      = (Win.make_window_at (ρ := ℚ) .blackmanHarris N x) ^ 2 := by
  rw [(make_window_at_sq_mul (ρ := ℚ) (σ := ℚ) N x).2.2, sq]

/-- squared windows are non-negative whatever `cos` is -/
theorem squared_nonneg (w : Window) (h : Win.windowSquared w = true) (N x : ℕ) :
    0 ≤ Win.make_window_at (ρ := ℚ) (σ := ℚ) w N x := by
  rw [make_window_at_eq, if_pos h]
  exact mul_self_nonneg _

/-! ### coefficient tables (textbook values, as exact rationals) -/

/-- Hann: `0.5 − 0.5 cos(2πx/N)` -/
theorem hann_textbook (N x : ℕ) :
    Win.hann_at (ρ := ℚ) (σ := ℚ) N x
      = 5 / 10 - 5 / 10 * STrig.cos (2 * STrig.pi * (x : ℚ) / (N : ℚ)) := by
  simp only [Win.hann_at, Bridge.sofCtl_eq, Bridge.lit_eq, Bridge.sofNat_eq]
  norm_num

/-- Blackman: `0.42 − 0.5 cos(2πx/N) + 0.08 cos(4πx/N)` -/
theorem blackman_textbook (N x : ℕ) :
    Win.blackman_at (ρ := ℚ) (σ := ℚ) N x
      = 42 / 100 - 5 / 10 * STrig.cos (2 * STrig.pi * (x : ℚ) / (N : ℚ))
        + 8 / 100 * STrig.cos (4 * STrig.pi * (x : ℚ) / (N : ℚ)) := by
  simp only [Win.blackman_at, Bridge.sofCtl_eq, Bridge.lit_eq, Bridge.sofNat_eq]
  norm_num

/-- Blackman-Harris: `0.35875 − 0.48829 cos(2πx/N) + 0.14128 cos(4πx/N) − 0.01168 cos(6πx/N)` -/
theorem blackmanHarris_textbook (N x : ℕ) :
    Win.blackman_harris_at (ρ := ℚ) (σ := ℚ) N x
      = 35875 / 100000 - 48829 / 100000 * STrig.cos (2 * STrig.pi * (x : ℚ) / (N : ℚ))
        + 14128 / 100000 * STrig.cos (4 * STrig.pi * (x : ℚ) / (N : ℚ))
        - 1168 / 100000 * STrig.cos (6 * STrig.pi * (x : ℚ) / (N : ℚ)) := by
  simp only [Win.blackman_harris_at, Bridge.sofCtl_eq, Bridge.lit_eq, Bridge.sofNat_eq]
  norm_num

omit [STrig ℚ] in
/-- the coefficients of every base window sum to the value at the centre of the cosine's range
(`cos = −1` for odd, `+1` for even harmonics): peak value 1. -/
theorem coefficient_sums :
    (5 / 10 + 5 / 10 : ℚ) = 1 ∧ (42 / 100 + 5 / 10 + 8 / 100 : ℚ) = 1 ∧
    (35875 / 100000 + 48829 / 100000 + 14128 / 100000 + 1168 / 100000 : ℚ) = 1 := by
  norm_num

end atRat

end Rubato.WinProofs
