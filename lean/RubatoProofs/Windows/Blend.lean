/-
Blend: the polynomial blend between neighbouring sub-filters of the sinc resamplers.

* the *generated* kernels `Rubato.Gen.Sinc.interp_cubic / interp_quad / interp_lin`
  (asynchro_sinc.rs) at ρ = σ = ℚ reproduce polynomials of degree ≤ 3 / 2 / 1 sampled at the nodes
  −1,0,1,2 / 0,1,2 / 0,1 and pass through their nodes for arbitrary samples;
* the node / fraction lemma for `nearestTimes` and `sincFrac` of RubatoModel/Async.lean: with
  `q = ⌊t·factor⌋` the pairs `(i, sub)` are the fine-grid instants `i·factor + sub = q + j`,
  `j = −1,0,1,2` (cubic), `0,1,2` (quadratic), `0,1` (linear), `round(t·factor)` (nearest), and
  `sincFrac t factor = t·factor − q ∈ [0,1)`;
* `0 ≤ sub < factor` needs `factor ≥ 2` for cubic and quadratic; for `factor = 1` it fails (exhibited).
-/
import RubatoModel.Async
import RubatoProofs.Lemmas.RatBridge
import Mathlib.Tactic.Ring
import Mathlib.Tactic.NormNum
import Mathlib.Tactic.Linarith
import Mathlib.Tactic.Positivity
import Mathlib.Algebra.Order.Floor.Ring
import Mathlib.Algebra.Order.Field.Basic

namespace Rubato.BlendProofs
open Rubato Rubato.Gen

/-! ### the generated blend kernels -/

def poly3 (c : Fin 4 → ℚ) (u : ℚ) : ℚ := c 0 + c 1 * u + c 2 * u ^ 2 + c 3 * u ^ 3
def poly2 (c : Fin 3 → ℚ) (u : ℚ) : ℚ := c 0 + c 1 * u + c 2 * u ^ 2
def poly1 (c : Fin 2 → ℚ) (u : ℚ) : ℚ := c 0 + c 1 * u

/-- Cubic: nodes `−1, 0, 1, 2`. -/
theorem cubic_reproduces (c : Fin 4 → ℚ) (x : ℚ) :
    Sinc.interp_cubic x (fun k => poly3 c ((k : ℚ) - 1)) = poly3 c x := by
  simp only [Sinc.interp_cubic, SNum.ofCtl, SNum.one, RNum.lit, poly3]
  ring

/-- Quadratic: nodes `0, 1, 2`. -/
theorem quad_reproduces (c : Fin 3 → ℚ) (x : ℚ) :
    Sinc.interp_quad x (fun k => poly2 c (k : ℚ)) = poly2 c x := by
  simp only [Sinc.interp_quad, SNum.ofCtl, RNum.lit, poly2]
  ring

/-- Linear: nodes `0, 1`. -/
theorem lin_reproduces (c : Fin 2 → ℚ) (x : ℚ) :
    Sinc.interp_lin x (fun k => poly1 c (k : ℚ)) = poly1 c x := by
  simp only [Sinc.interp_lin, poly1]
  ring

/-- shifted forms: samples at `a + (k − 1)` give the polynomial at `a + x` -/
theorem cubic_reproduces_shift (c : Fin 4 → ℚ) (a x : ℚ) :
    Sinc.interp_cubic x (fun k => poly3 c (a + ((k : ℚ) - 1))) = poly3 c (a + x) := by
  simp only [Sinc.interp_cubic, SNum.ofCtl, SNum.one, RNum.lit, poly3]
  ring

theorem quad_reproduces_shift (c : Fin 3 → ℚ) (a x : ℚ) :
    Sinc.interp_quad x (fun k => poly2 c (a + (k : ℚ))) = poly2 c (a + x) := by
  simp only [Sinc.interp_quad, SNum.ofCtl, RNum.lit, poly2]
  ring

theorem lin_reproduces_shift (c : Fin 2 → ℚ) (a x : ℚ) :
    Sinc.interp_lin x (fun k => poly1 c (a + (k : ℚ))) = poly1 c (a + x) := by
  simp only [Sinc.interp_lin, poly1]
  ring

theorem cubic_nodes (y : ℕ → ℚ) :
    Sinc.interp_cubic (-1) y = y 0 ∧ Sinc.interp_cubic 0 y = y 1 ∧
    Sinc.interp_cubic 1 y = y 2 ∧ Sinc.interp_cubic 2 y = y 3 := by
  simp only [Sinc.interp_cubic, SNum.ofCtl, SNum.one, RNum.lit]
  refine ⟨?_, ?_, ?_, ?_⟩ <;> ring

theorem quad_nodes (y : ℕ → ℚ) :
    Sinc.interp_quad 0 y = y 0 ∧ Sinc.interp_quad 1 y = y 1 ∧ Sinc.interp_quad 2 y = y 2 := by
  simp only [Sinc.interp_quad, SNum.ofCtl, RNum.lit]
  refine ⟨?_, ?_, ?_⟩ <;> ring

theorem lin_nodes (y : ℕ → ℚ) :
    Sinc.interp_lin 0 y = y 0 ∧ Sinc.interp_lin 1 y = y 1 := by
  simp only [Sinc.interp_lin]
  refine ⟨?_, ?_⟩ <;> ring

/-- the sinc-resampler cubic is the same function as the polynomial-resampler cubic -/
theorem cubic_eq_fast (x : ℚ) (y : ℕ → ℚ) : Sinc.interp_cubic x y = Fast.interp_cubic x y := by
  simp only [Sinc.interp_cubic, Fast.interp_cubic, SNum.ofCtl, SNum.one, RNum.lit]
  ring

theorem nearestFirstOffset_values :
    Sinc.nearestFirstOffset 4 = -1 ∧ Sinc.nearestFirstOffset 3 = 0 ∧ Sinc.nearestFirstOffset 2 = 0 :=
  ⟨rfl, rfl, rfl⟩

/-! ### `wrapSub` -/

/-- wrapping never changes the fine-grid instant `index·factor + sub` -/
theorem wrapSub_instant (i s f : ℤ) : (wrapSub i s f).1 * f + (wrapSub i s f).2 = i * f + s := by
  unfold wrapSub
  split
  · ring
  · split <;> ring

/-- one wrap step suffices exactly when `−f ≤ s < 2f` -/
theorem wrapSub_range (i s f : ℤ) (h1 : -f ≤ s) (h2 : s < 2 * f) :
    0 ≤ (wrapSub i s f).2 ∧ (wrapSub i s f).2 < f := by
  unfold wrapSub
  split
  · constructor <;> dsimp only <;> omega
  · split
    · constructor <;> dsimp only <;> omega
    · constructor <;> dsimp only <;> omega

/-! ### the fractional sub-sample index -/

/-- `⌊(t − ⌊t⌋)·f⌋ = ⌊t·f⌋ − ⌊t⌋·f` -/
theorem floor_fract_mul (t : ℚ) (factor : ℕ) :
    ⌊(t - (⌊t⌋ : ℚ)) * (factor : ℚ)⌋ = ⌊t * (factor : ℚ)⌋ - ⌊t⌋ * (factor : ℤ) := by
  have h : (t - (⌊t⌋ : ℚ)) * (factor : ℚ) = t * (factor : ℚ) - ((⌊t⌋ * (factor : ℤ) : ℤ) : ℚ) := by
    push_cast; ring
  rw [h, Int.floor_sub_intCast]

theorem floor_fract_mul_nonneg (t : ℚ) (factor : ℕ) : 0 ≤ ⌊(t - (⌊t⌋ : ℚ)) * (factor : ℚ)⌋ := by
  apply Int.floor_nonneg.mpr
  have := Int.floor_le t
  have h2 : (0 : ℚ) ≤ factor := Nat.cast_nonneg _
  exact mul_nonneg (by linarith) h2

theorem floor_fract_mul_lt (t : ℚ) (factor : ℕ) (hf : 1 ≤ factor) :
    ⌊(t - (⌊t⌋ : ℚ)) * (factor : ℚ)⌋ < (factor : ℤ) := by
  rw [Int.floor_lt]
  have := Int.lt_floor_add_one t
  have h2 : (0 : ℚ) < factor := by exact_mod_cast hf
  push_cast
  nlinarith

/-- the model's `frac` (as computed: `toInt (floor ((t − floor t)·f))`) -/
def fracIdx (t : ℚ) (factor : ℕ) : ℤ :=
  RNum.toInt (RNum.floor ((t - RNum.floor t) * (RNum.ofNat factor : ℚ)))

theorem fracIdx_eq (t : ℚ) (factor : ℕ) :
    fracIdx t factor = ⌊t * (factor : ℚ)⌋ - ⌊t⌋ * (factor : ℤ) := by
  unfold fracIdx
  rw [Bridge.floor_eq, Bridge.floor_eq, Bridge.ofNat_eq, Bridge.toInt_intCast, floor_fract_mul]

theorem startIdx_eq (t : ℚ) : RNum.toInt (RNum.floor t : ℚ) = ⌊t⌋ := by
  rw [Bridge.floor_eq, Bridge.toInt_intCast]

theorem fracIdx_range (t : ℚ) (factor : ℕ) (hf : 1 ≤ factor) :
    0 ≤ fracIdx t factor ∧ fracIdx t factor < factor := by
  rw [fracIdx_eq, ← floor_fract_mul]
  exact ⟨floor_fract_mul_nonneg t factor, floor_fract_mul_lt t factor hf⟩

/-- `⌊t⌋·factor + frac = ⌊t·factor⌋` -/
theorem start_mul_add_frac (t : ℚ) (factor : ℕ) :
    ⌊t⌋ * (factor : ℤ) + fracIdx t factor = ⌊t * (factor : ℚ)⌋ := by
  rw [fracIdx_eq]; ring

/-- how the unfolded model expression folds back into `fracIdx` -/
theorem fracIdx_fold (t : ℚ) (factor : ℕ) :
    ⌊(t - RNum.floor t) * (RNum.ofNat factor : ℚ)⌋ = fracIdx t factor := by
  unfold fracIdx; rw [startIdx_eq]

/-! ### `nearestTimes`: which fine-grid instants are blended -/

/-- fine-grid instants `index·factor + sub` of a list of pairs -/
def instants (factor : ℕ) (l : List (ℤ × ℤ)) : List ℤ := l.map fun p => p.1 * (factor : ℤ) + p.2

theorem nearestTimes_cubic_eq (t : ℚ) (factor : ℕ) :
    nearestTimes .cubic t factor =
      [wrapSub ⌊t⌋ (fracIdx t factor - 1) factor, wrapSub ⌊t⌋ (fracIdx t factor) factor,
       wrapSub ⌊t⌋ (fracIdx t factor + 1) factor, wrapSub ⌊t⌋ (fracIdx t factor + 2) factor] := by
  simp only [nearestTimes, Sinc.nearestFirstOffset, startIdx_eq, fracIdx_fold]
  have e0 : fracIdx t factor + -1 = fracIdx t factor - 1 := by ring
  have e1 : fracIdx t factor - 1 + 1 = fracIdx t factor := by ring
  have e2 : fracIdx t factor - 1 + 2 = fracIdx t factor + 1 := by ring
  have e3 : fracIdx t factor - 1 + 3 = fracIdx t factor + 2 := by ring
  rw [e0, e1, e2, e3]

theorem nearestTimes_quadratic_eq (t : ℚ) (factor : ℕ) :
    nearestTimes .quadratic t factor =
      [wrapSub ⌊t⌋ (fracIdx t factor) factor, wrapSub ⌊t⌋ (fracIdx t factor + 1) factor,
       wrapSub ⌊t⌋ (fracIdx t factor + 2) factor] := by
  simp only [nearestTimes, Sinc.nearestFirstOffset, startIdx_eq, fracIdx_fold, add_zero]

theorem nearestTimes_linear_eq (t : ℚ) (factor : ℕ) :
    nearestTimes .linear t factor =
      [(⌊t⌋, fracIdx t factor),
       if fracIdx t factor + 1 ≥ (factor : ℤ) then (⌊t⌋ + 1, fracIdx t factor + 1 - factor)
       else (⌊t⌋, fracIdx t factor + 1)] := by
  simp only [nearestTimes, startIdx_eq, fracIdx_fold]

/-- Cubic: the four pairs are the instants `q − 1, q, q + 1, q + 2`, `q = ⌊t·factor⌋`, in order. -/
theorem cubic_instants (t : ℚ) (factor : ℕ) :
    instants factor (nearestTimes .cubic t factor) =
      [⌊t * (factor : ℚ)⌋ - 1, ⌊t * (factor : ℚ)⌋, ⌊t * (factor : ℚ)⌋ + 1, ⌊t * (factor : ℚ)⌋ + 2] := by
  rw [nearestTimes_cubic_eq]
  simp only [instants, List.map, wrapSub_instant]
  rw [← start_mul_add_frac t factor]
  simp only [add_sub_assoc, add_assoc]

/-- Quadratic: instants `q, q + 1, q + 2`. -/
theorem quadratic_instants (t : ℚ) (factor : ℕ) :
    instants factor (nearestTimes .quadratic t factor) =
      [⌊t * (factor : ℚ)⌋, ⌊t * (factor : ℚ)⌋ + 1, ⌊t * (factor : ℚ)⌋ + 2] := by
  rw [nearestTimes_quadratic_eq]
  simp only [instants, List.map, wrapSub_instant]
  rw [← start_mul_add_frac t factor]
  simp only [add_assoc]

/-- Linear: instants `q, q + 1`. -/
theorem linear_instants (t : ℚ) (factor : ℕ) :
    instants factor (nearestTimes .linear t factor) =
      [⌊t * (factor : ℚ)⌋, ⌊t * (factor : ℚ)⌋ + 1] := by
  rw [nearestTimes_linear_eq]
  rw [← start_mul_add_frac t factor]
  split
  · simp only [instants, List.map]
    congr 2
    ring
  · simp only [instants, List.map, add_assoc]

/-- Cubic: `0 ≤ sub < factor` for every pair, provided `factor ≥ 2`. -/
theorem cubic_sub_range (t : ℚ) (factor : ℕ) (hf : 2 ≤ factor) :
    ∀ p ∈ nearestTimes .cubic t factor, 0 ≤ p.2 ∧ p.2 < (factor : ℤ) := by
  obtain ⟨h0, h1⟩ := fracIdx_range t factor (by omega)
  rw [nearestTimes_cubic_eq]
  intro p hp
  simp only [List.mem_cons, List.not_mem_nil, or_false] at hp
  rcases hp with rfl | rfl | rfl | rfl <;> apply wrapSub_range <;> omega

/-- Quadratic: `0 ≤ sub < factor` for every pair, provided `factor ≥ 2`. -/
theorem quadratic_sub_range (t : ℚ) (factor : ℕ) (hf : 2 ≤ factor) :
    ∀ p ∈ nearestTimes .quadratic t factor, 0 ≤ p.2 ∧ p.2 < (factor : ℤ) := by
  obtain ⟨h0, h1⟩ := fracIdx_range t factor (by omega)
  rw [nearestTimes_quadratic_eq]
  intro p hp
  simp only [List.mem_cons, List.not_mem_nil, or_false] at hp
  rcases hp with rfl | rfl | rfl <;> apply wrapSub_range <;> omega

/-- Linear: `0 ≤ sub < factor` for every pair, for every `factor ≥ 1`. -/
theorem linear_sub_range (t : ℚ) (factor : ℕ) (hf : 1 ≤ factor) :
    ∀ p ∈ nearestTimes .linear t factor, 0 ≤ p.2 ∧ p.2 < (factor : ℤ) := by
  obtain ⟨h0, h1⟩ := fracIdx_range t factor hf
  rw [nearestTimes_linear_eq]
  intro p hp
  simp only [List.mem_cons, List.not_mem_nil, or_false] at hp
  rcases hp with rfl | rfl
  · exact ⟨h0, h1⟩
  · split <;> constructor <;> dsimp only <;> omega

/-! #### the defect "Cubic / Quadratic with `oversampling_factor = 1`"

With `factor = 1` the fractional index is always 0, the last point asks for `sub = 2`, and the single
wrap step of `interpolation.rs` leaves `sub = 1 = factor`: out of range, for *every* position `t`. -/

theorem fracIdx_one (t : ℚ) : fracIdx t 1 = 0 := by
  have := fracIdx_range t 1 le_rfl
  omega

theorem cubic_factor_one (t : ℚ) :
    nearestTimes .cubic t 1 = [(⌊t⌋ - 1, 0), (⌊t⌋, 0), (⌊t⌋ + 1, 0), (⌊t⌋ + 1, 1)] := by
  rw [nearestTimes_cubic_eq, fracIdx_one]
  simp [wrapSub]

theorem quadratic_factor_one (t : ℚ) :
    nearestTimes .quadratic t 1 = [(⌊t⌋, 0), (⌊t⌋ + 1, 0), (⌊t⌋ + 1, 1)] := by
  rw [nearestTimes_quadratic_eq, fracIdx_one]
  simp [wrapSub]

/-- so the range claim fails for `factor = 1`, at every position -/
theorem cubic_sub_range_fails_factor_one (t : ℚ) :
    ¬ ∀ p ∈ nearestTimes .cubic t 1, 0 ≤ p.2 ∧ p.2 < ((1 : ℕ) : ℤ) := by
  rw [cubic_factor_one]
  intro h
  have := (h (⌊t⌋ + 1, 1) (by simp)).2
  simp at this

theorem quadratic_sub_range_fails_factor_one (t : ℚ) :
    ¬ ∀ p ∈ nearestTimes .quadratic t 1, 0 ≤ p.2 ∧ p.2 < ((1 : ℕ) : ℤ) := by
  rw [quadratic_factor_one]
  intro h
  have := (h (⌊t⌋ + 1, 1) (by simp)).2
  simp at this

/-- … and the assertion of `get_sinc_interpolated` (`subindex < nbr_sincs`) is violated whatever the
buffer is: every cubic / quadratic call on a 1-sinc interpolator panics. -/
theorem cubic_factor_one_not_ok {σ : Type} (ip : Interp σ) (hip : ip.nbr = 1) (waveLen L : ℕ) (t : ℚ) :
    (nearestTimes .cubic t ip.nbr).all (sincPointOk ip waveLen L) = false := by
  rw [hip, cubic_factor_one]
  simp [sincPointOk, hip]

theorem quadratic_factor_one_not_ok {σ : Type} (ip : Interp σ) (hip : ip.nbr = 1) (waveLen L : ℕ)
    (t : ℚ) : (nearestTimes .quadratic t ip.nbr).all (sincPointOk ip waveLen L) = false := by
  rw [hip, quadratic_factor_one]
  simp [sincPointOk, hip]

/-! #### nearest -/

theorem round_eq (x : ℚ) : (RNum.round x : ℚ) = (⌊x + 1 / 2⌋ : ℚ) := rfl

/-- the model's rounded sub-index -/
def roundIdx (t : ℚ) (factor : ℕ) : ℤ :=
  RNum.toInt (RNum.round ((t - RNum.floor t) * (RNum.ofNat factor : ℚ)))

theorem roundIdx_eq (t : ℚ) (factor : ℕ) :
    roundIdx t factor = ⌊t * (factor : ℚ) + 1 / 2⌋ - ⌊t⌋ * (factor : ℤ) := by
  unfold roundIdx
  rw [round_eq, Bridge.floor_eq, Bridge.ofNat_eq, Bridge.toInt_intCast]
  have h : (t - (⌊t⌋ : ℚ)) * (factor : ℚ) + 1 / 2
      = t * (factor : ℚ) + 1 / 2 - ((⌊t⌋ * (factor : ℤ) : ℤ) : ℚ) := by
    push_cast; ring
  rw [h, Int.floor_sub_intCast]

theorem roundIdx_range (t : ℚ) (factor : ℕ) : 0 ≤ roundIdx t factor ∧ roundIdx t factor ≤ factor := by
  have e : roundIdx t factor = ⌊(t - (⌊t⌋ : ℚ)) * (factor : ℚ) + 1 / 2⌋ := by
    unfold roundIdx
    rw [round_eq, Bridge.floor_eq, Bridge.ofNat_eq, Bridge.toInt_intCast]
  have h1 := Int.floor_le t
  have h2 := Int.lt_floor_add_one t
  have hf : (0 : ℚ) ≤ factor := Nat.cast_nonneg _
  rw [e]
  constructor
  · apply Int.floor_nonneg.mpr
    have : 0 ≤ (t - (⌊t⌋ : ℚ)) * (factor : ℚ) := mul_nonneg (by linarith) hf
    linarith
  · have h3 : ⌊(t - (⌊t⌋ : ℚ)) * (factor : ℚ) + 1 / 2⌋ < (factor : ℤ) + 1 := by
      rw [Int.floor_lt]
      push_cast
      have : (t - (⌊t⌋ : ℚ)) * (factor : ℚ) ≤ 1 * (factor : ℚ) :=
        mul_le_mul_of_nonneg_right (by linarith) hf
      linarith
    omega

theorem nearestTimes_nearest_eq (t : ℚ) (factor : ℕ) :
    nearestTimes .nearest t factor =
      if roundIdx t factor ≥ (factor : ℤ) then [(⌊t⌋ + 1, roundIdx t factor - factor)]
      else [(⌊t⌋, roundIdx t factor)] := by
  simp only [nearestTimes, startIdx_eq, roundIdx]
  rfl

/-- Nearest: the single pair is the instant `⌊t·factor + 1/2⌋` (round half up). -/
theorem nearest_instants (t : ℚ) (factor : ℕ) :
    instants factor (nearestTimes .nearest t factor) = [⌊t * (factor : ℚ) + 1 / 2⌋] := by
  rw [nearestTimes_nearest_eq]
  split
  · simp only [instants, List.map]
    rw [roundIdx_eq]
    congr 1
    ring
  · simp only [instants, List.map]
    rw [roundIdx_eq]
    congr 1
    ring

theorem nearest_sub_range (t : ℚ) (factor : ℕ) (hf : 1 ≤ factor) :
    ∀ p ∈ nearestTimes .nearest t factor, 0 ≤ p.2 ∧ p.2 < (factor : ℤ) := by
  obtain ⟨h0, h1⟩ := roundIdx_range t factor
  rw [nearestTimes_nearest_eq]
  intro p hp
  split at hp
  · simp only [List.mem_cons, List.not_mem_nil, or_false] at hp
    subst hp
    constructor <;> dsimp only <;> omega
  · simp only [List.mem_cons, List.not_mem_nil, or_false] at hp
    subst hp
    constructor <;> dsimp only <;> omega

/-- `⌊x + 1/2⌋` is rounding half up on the fractional part -/
theorem floor_add_half (x : ℚ) :
    ⌊x + 1 / 2⌋ = if x - (⌊x⌋ : ℚ) < 1 / 2 then ⌊x⌋ else ⌊x⌋ + 1 := by
  have h1 := Int.floor_le x
  have h2 := Int.lt_floor_add_one x
  split
  · rw [Int.floor_eq_iff]
    constructor <;> linarith
  · rw [Int.floor_eq_iff]
    push_cast
    constructor <;> linarith

/-! ### `sincFrac` -/

theorem sincFrac_eq (t : ℚ) (factor : ℕ) :
    sincFrac t factor = t * (factor : ℚ) - (⌊t * (factor : ℚ)⌋ : ℚ) := by
  simp only [sincFrac, Bridge.ofNat_eq, Bridge.floor_eq]

theorem sincFrac_range (t : ℚ) (factor : ℕ) : 0 ≤ sincFrac t factor ∧ sincFrac t factor < 1 := by
  rw [sincFrac_eq]
  have h1 := Int.floor_le (t * (factor : ℚ))
  have h2 := Int.lt_floor_add_one (t * (factor : ℚ))
  constructor <;> linarith

/-- `t·factor = q + frac`: the blend variable `x = sincFrac` is the distance of the exact position from
the fine-grid node `q = ⌊t·factor⌋` (the kernels' node `0`), in units of the fine grid. -/
theorem position_decomp (t : ℚ) (factor : ℕ) :
    t * (factor : ℚ) = (⌊t * (factor : ℚ)⌋ : ℚ) + sincFrac t factor := by
  rw [sincFrac_eq]; ring

/-! ### the blended value `sincValue`

If, on the points actually used, the interpolator returns samples `P(i·factor + sub)` of a polynomial
`P` of admissible degree in the fine-grid instant, the blended value is `P(t·factor)` exactly: the blend
is polynomial interpolation on the fine grid around `q = ⌊t·factor⌋` with variable `sincFrac`. -/

theorem cubic_congr (x : ℚ) (y y' : ℕ → ℚ) (h0 : y 0 = y' 0) (h1 : y 1 = y' 1) (h2 : y 2 = y' 2)
    (h3 : y 3 = y' 3) : Sinc.interp_cubic x y = Sinc.interp_cubic x y' := by
  simp only [Sinc.interp_cubic, h0, h1, h2, h3]

theorem quad_congr (x : ℚ) (y y' : ℕ → ℚ) (h0 : y 0 = y' 0) (h1 : y 1 = y' 1) (h2 : y 2 = y' 2) :
    Sinc.interp_quad x y = Sinc.interp_quad x y' := by
  simp only [Sinc.interp_quad, h0, h1, h2]

theorem lin_congr (x : ℚ) (y y' : ℕ → ℚ) (h0 : y 0 = y' 0) (h1 : y 1 = y' 1) :
    Sinc.interp_lin x y = Sinc.interp_lin x y' := by
  simp only [Sinc.interp_lin, h0, h1]

/-- If on the four points used the interpolator returns samples of a cubic polynomial of the fine-grid instant, the blended value is that polynomial at the exact position `t·factor`. -/
theorem sincValue_cubic_reproduces (ip : Interp ℚ) (L : ℕ) (b : Array ℚ) (t : ℚ) (c : Fin 4 → ℚ)
    (h : ∀ p ∈ nearestTimes .cubic t ip.nbr,
      ip.dot b (p.1 + 2 * (L : ℤ)).toNat p.2.toNat = poly3 c ((p.1 * (ip.nbr : ℤ) + p.2 : ℤ) : ℚ)) :
    sincValue .cubic ip L b t = poly3 c (t * (ip.nbr : ℚ)) := by
  rw [nearestTimes_cubic_eq] at h
  have h0 := h _ (List.mem_cons_self)
  have h1 := h _ (List.mem_cons_of_mem _ List.mem_cons_self)
  have h2 := h _ (List.mem_cons_of_mem _ (List.mem_cons_of_mem _ List.mem_cons_self))
  have h3 := h _ (List.mem_cons_of_mem _ (List.mem_cons_of_mem _ (List.mem_cons_of_mem _ List.mem_cons_self)))
  rw [wrapSub_instant] at h0 h1 h2 h3
  rw [position_decomp t ip.nbr, ← cubic_reproduces_shift]
  unfold sincValue
  rw [nearestTimes_cubic_eq]
  apply cubic_congr
  · show ip.dot _ _ _ = _
    rw [h0, ← start_mul_add_frac t ip.nbr]; push_cast; ring_nf
  · show ip.dot _ _ _ = _
    rw [h1, ← start_mul_add_frac t ip.nbr]; push_cast; ring_nf
  · show ip.dot _ _ _ = _
    rw [h2, ← start_mul_add_frac t ip.nbr]; push_cast; ring_nf
  · show ip.dot _ _ _ = _
    rw [h3, ← start_mul_add_frac t ip.nbr]; push_cast; ring_nf

theorem sincValue_quadratic_reproduces (ip : Interp ℚ) (L : ℕ) (b : Array ℚ) (t : ℚ) (c : Fin 3 → ℚ)
    (h : ∀ p ∈ nearestTimes .quadratic t ip.nbr,
      ip.dot b (p.1 + 2 * (L : ℤ)).toNat p.2.toNat = poly2 c ((p.1 * (ip.nbr : ℤ) + p.2 : ℤ) : ℚ)) :
    sincValue .quadratic ip L b t = poly2 c (t * (ip.nbr : ℚ)) := by
  rw [nearestTimes_quadratic_eq] at h
  have h0 := h _ (List.mem_cons_self)
  have h1 := h _ (List.mem_cons_of_mem _ List.mem_cons_self)
  have h2 := h _ (List.mem_cons_of_mem _ (List.mem_cons_of_mem _ List.mem_cons_self))
  rw [wrapSub_instant] at h0 h1 h2
  rw [position_decomp t ip.nbr, ← quad_reproduces_shift]
  unfold sincValue
  rw [nearestTimes_quadratic_eq]
  apply quad_congr
  · show ip.dot _ _ _ = _
    rw [h0, ← start_mul_add_frac t ip.nbr]; push_cast; ring_nf
  · show ip.dot _ _ _ = _
    rw [h1, ← start_mul_add_frac t ip.nbr]; push_cast; ring_nf
  · show ip.dot _ _ _ = _
    rw [h2, ← start_mul_add_frac t ip.nbr]; push_cast; ring_nf

theorem sincValue_linear_reproduces (ip : Interp ℚ) (L : ℕ) (b : Array ℚ) (t : ℚ) (c : Fin 2 → ℚ)
    (h : ∀ p ∈ nearestTimes .linear t ip.nbr,
      ip.dot b (p.1 + 2 * (L : ℤ)).toNat p.2.toNat = poly1 c ((p.1 * (ip.nbr : ℤ) + p.2 : ℤ) : ℚ)) :
    sincValue .linear ip L b t = poly1 c (t * (ip.nbr : ℚ)) := by
  have hi := linear_instants t ip.nbr
  rw [nearestTimes_linear_eq] at h hi
  have h0 := h _ (List.mem_cons_self)
  have h1 := h _ (List.mem_cons_of_mem _ List.mem_cons_self)
  simp only [instants, List.map, List.cons.injEq, and_true] at hi
  rw [hi.1] at h0
  rw [hi.2] at h1
  rw [position_decomp t ip.nbr, ← lin_reproduces_shift]
  unfold sincValue
  rw [nearestTimes_linear_eq]
  apply lin_congr
  · show ip.dot _ _ _ = _
    rw [h0]; push_cast; ring_nf
  · show ip.dot _ _ _ = _
    rw [h1]; push_cast; ring_nf

/-- Nearest: the value is the interpolator's value at the rounded instant. -/
theorem sincValue_nearest (ip : Interp ℚ) (L : ℕ) (b : Array ℚ) (t : ℚ) (g : ℤ → ℚ)
    (h : ∀ p ∈ nearestTimes .nearest t ip.nbr,
      ip.dot b (p.1 + 2 * (L : ℤ)).toNat p.2.toNat = g (p.1 * (ip.nbr : ℤ) + p.2)) :
    sincValue .nearest ip L b t = g ⌊t * (ip.nbr : ℚ) + 1 / 2⌋ := by
  have hi := nearest_instants t ip.nbr
  unfold sincValue
  rw [nearestTimes_nearest_eq] at h hi ⊢
  split at hi
  · rename_i hc
    rw [if_pos hc] at h ⊢
    have h0 := h _ (List.mem_cons_self)
    simp only [instants, List.map, List.cons.injEq, and_true] at hi
    rw [hi] at h0
    exact h0
  · rename_i hc
    rw [if_neg hc] at h ⊢
    have h0 := h _ (List.mem_cons_self)
    simp only [instants, List.map, List.cons.injEq, and_true] at hi
    rw [hi] at h0
    exact h0

/-- the instants as times in input samples: `index + sub/factor = (q + j)/factor` -/
theorem pair_time (factor : ℕ) (hf : 1 ≤ factor) (p : ℤ × ℤ) (z : ℤ)
    (h : p.1 * (factor : ℤ) + p.2 = z) : (p.1 : ℚ) + (p.2 : ℚ) / (factor : ℚ) = (z : ℚ) / (factor : ℚ) := by
  have hf' : (factor : ℚ) ≠ 0 := by
    have : (0 : ℚ) < factor := by exact_mod_cast hf
    exact ne_of_gt this
  rw [← h]; push_cast; field_simp

end Rubato.BlendProofs
