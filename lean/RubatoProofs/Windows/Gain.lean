/-
Polyphase decomposition and DC gain of `makeSincs` (hand model of sinc.rs::make_sincs).

* law-free (any instance of the arithmetic interfaces, IEEE included): the table has `factor` rows of
  `npoints` entries and entry `[s][p]` is `y[factor·p + (factor − 1 − s)] / S`;
* over a field: `Σ_s Σ_p sincs[s][p] = factor` whenever `S ≠ 0` (mean DC gain of the branches is 1);
  instantiated at ℚ here and at ℝ in `Symmetry.lean`.
-/
import RubatoModel.SincTable
import RubatoProofs.Lemmas.RatBridge
import Mathlib.Algebra.BigOperators.Group.Finset.Basic
import Mathlib.Algebra.BigOperators.Intervals
import Mathlib.Algebra.BigOperators.Field
import Mathlib.Tactic.Ring
import Mathlib.Tactic.FieldSimp
import Mathlib.Tactic.Linarith

namespace Rubato.WinProofs
open Rubato Rubato.Gen

/-! ### law-free structure of the table -/
section lawfree
variable {ρ σ : Type} [RNum ρ] [SNum ρ σ] [STrig σ]

/-- `Σ y` as the code computes it (left fold from zero) -/
def protoFold (npoints factor : ℕ) (fcut : ρ) (w : Window) : σ :=
  ((Array.range (npoints * factor)).map (sincProto npoints factor fcut w)).foldl
    (fun acc v => acc + v) SNum.zero

/-- the normalisation divisor `S = Σ y / factor` -/
def protoSum (npoints factor : ℕ) (fcut : ρ) (w : Window) : σ :=
  protoFold npoints factor fcut w / SNum.ofNat (ρ := ρ) factor

/-- prototype tap used by branch `s` at position `p` -/
def tapIndex (factor s p : ℕ) : ℕ := factor * p + (factor - 1 - s)

theorem tapIndex_lt {npoints factor s p : ℕ} (hs : s < factor) (hp : p < npoints) :
    tapIndex factor s p < npoints * factor := by
  unfold tapIndex
  have h1 : factor * (p + 1) ≤ factor * npoints := Nat.mul_le_mul_left _ hp
  have h2 : factor * (p + 1) = factor * p + factor := by ring
  have h3 : npoints * factor = factor * npoints := Nat.mul_comm _ _
  omega

theorem makeSincs_size (npoints factor : ℕ) (fcut : ρ) (w : Window) :
    (makeSincs (σ := σ) npoints factor fcut w).size = factor := by
  simp [makeSincs]

theorem makeSincs_row (npoints factor : ℕ) (fcut : ρ) (w : Window) (s : ℕ) (hs : s < factor) :
    (makeSincs (σ := σ) npoints factor fcut w).getD s #[] =
      (Array.range npoints).map fun p =>
        ((Array.range (npoints * factor)).map (sincProto npoints factor fcut w)).getD
          (factor * p + (factor - 1 - s)) SNum.zero / protoSum npoints factor fcut w := by
  simp [makeSincs, Array.getD, hs, protoSum, protoFold]

theorem makeSincs_row_size (npoints factor : ℕ) (fcut : ρ) (w : Window) (s : ℕ) (hs : s < factor) :
    ((makeSincs (σ := σ) npoints factor fcut w).getD s #[]).size = npoints := by
  rw [makeSincs_row npoints factor fcut w s hs]
  simp

/-- Entry `[s][p]` of the table, for every instance of the arithmetic (IEEE included). -/
theorem makeSincs_entry (npoints factor : ℕ) (fcut : ρ) (w : Window) (s p : ℕ)
    (hs : s < factor) (hp : p < npoints) :
    ((makeSincs (σ := σ) npoints factor fcut w).getD s #[]).getD p SNum.zero =
      sincProto npoints factor fcut w (tapIndex factor s p) / protoSum npoints factor fcut w := by
  rw [makeSincs_row npoints factor fcut w s hs]
  have hlt := tapIndex_lt hs hp
  unfold tapIndex at hlt ⊢
  simp [Array.getD, hp, hlt]

/-- Moving from branch `s` to `s + 1` moves every tap one prototype sample (= `1/factor` input sample)
earlier … -/
theorem tapIndex_succ (factor s p : ℕ) (hs : s + 1 < factor) :
    tapIndex factor (s + 1) p + 1 = tapIndex factor s p := by
  unfold tapIndex; omega

/-- … and the chain continues across rows: the last branch at `p + 1` follows the first at `p`. -/
theorem tapIndex_wrap (factor p : ℕ) (hf : 0 < factor) :
    tapIndex factor (factor - 1) (p + 1) = tapIndex factor 0 p + 1 := by
  unfold tapIndex
  have : factor * (p + 1) = factor * p + factor := by ring
  omega

/-- the taps of the `factor` branches partition the prototype: `(s, p) ↦ tapIndex` is injective -/
theorem tapIndex_inj (factor s p s' p' : ℕ) (hs : s < factor) (hs' : s' < factor)
    (h : tapIndex factor s p = tapIndex factor s' p') : s = s' ∧ p = p' := by
  unfold tapIndex at h
  have h1 : (factor * p + (factor - 1 - s)) / factor = p := by
    rw [Nat.mul_add_div (by omega), Nat.div_eq_of_lt (by omega)]; rfl
  have h2 : (factor * p' + (factor - 1 - s')) / factor = p' := by
    rw [Nat.mul_add_div (by omega), Nat.div_eq_of_lt (by omega)]; rfl
  have hp : p = p' := by rw [← h1, ← h2, h]
  subst hp
  constructor
  · omega
  · rfl

end lawfree

/-! ### summation lemmas -/

/-- the polyphase re-indexing of a sum -/
theorem sum_polyphase {M : Type} [AddCommMonoid M] (g : ℕ → M) (F P : ℕ) :
    ∑ s ∈ Finset.range F, ∑ p ∈ Finset.range P, g (F * p + (F - 1 - s))
      = ∑ x ∈ Finset.range (P * F), g x := by
  rw [Finset.sum_comm]
  have h : ∀ p, ∑ s ∈ Finset.range F, g (F * p + (F - 1 - s)) = ∑ r ∈ Finset.range F, g (F * p + r) :=
    fun p => Finset.sum_range_reflect (fun r => g (F * p + r)) F
  simp only [h]
  induction P with
  | zero => simp
  | succ P ih =>
    rw [Finset.sum_range_succ, ih, Nat.succ_mul, Finset.sum_range_add, Nat.mul_comm]

/-- a left fold of `+` over `map f (range n)` is the `Finset` sum -/
theorem foldl_range_map {M : Type} [AddCommMonoid M] (f : ℕ → M) (n : ℕ) :
    ((Array.range n).map f).foldl (fun acc v => acc + v) 0 = ∑ x ∈ Finset.range n, f x := by
  rw [← Array.foldl_toList, Array.toList_map, Array.toList_range]
  induction n with
  | zero => simp
  | succ n ih =>
    rw [List.range_succ, List.map_append, List.foldl_append, ih, Finset.sum_range_succ]
    simp

/-- the algebra behind the DC gain -/
theorem gain_core {K : Type} [Field K] (y : ℕ → K) (F P : ℕ) (S : K)
    (hS : S = (∑ x ∈ Finset.range (P * F), y x) / (F : K)) (hS0 : S ≠ 0) :
    ∑ s ∈ Finset.range F, ∑ p ∈ Finset.range P, y (F * p + (F - 1 - s)) / S = (F : K) := by
  simp only [← Finset.sum_div]
  rw [sum_polyphase]
  have hT : (∑ x ∈ Finset.range (P * F), y x) ≠ 0 := by
    intro h; apply hS0; rw [hS, h, zero_div]
  have hF : (F : K) ≠ 0 := by
    intro h; apply hS0; rw [hS, h, div_zero]
  rw [hS]
  field_simp

/-! ### DC gain at ℚ (any `sin`, `cos`, `π`) -/
section atRat
variable [STrig ℚ]

theorem protoFold_rat (npoints factor : ℕ) (fcut : ℚ) (w : Window) :
    protoFold (ρ := ℚ) (σ := ℚ) npoints factor fcut w
      = ∑ x ∈ Finset.range (npoints * factor), sincProto (ρ := ℚ) (σ := ℚ) npoints factor fcut w x :=
  foldl_range_map (M := ℚ) _ _

theorem protoSum_rat (npoints factor : ℕ) (fcut : ℚ) (w : Window) :
    protoSum (ρ := ℚ) (σ := ℚ) npoints factor fcut w
      = (∑ x ∈ Finset.range (npoints * factor), sincProto (ρ := ℚ) (σ := ℚ) npoints factor fcut w x)
        / (factor : ℚ) := by
  unfold protoSum
  rw [protoFold_rat]
  rfl

/-- Mean DC gain of the `factor` branches is exactly 1: the entries of the whole table sum to `factor`. -/
theorem dc_gain_rat (npoints factor : ℕ) (fcut : ℚ) (w : Window)
    (hS : protoSum (ρ := ℚ) (σ := ℚ) npoints factor fcut w ≠ 0) :
    ∑ s ∈ Finset.range factor, ∑ p ∈ Finset.range npoints,
      ((makeSincs (ρ := ℚ) (σ := ℚ) npoints factor fcut w).getD s #[]).getD p 0 = (factor : ℚ) := by
  have h := gain_core (sincProto (ρ := ℚ) (σ := ℚ) npoints factor fcut w) factor npoints _
    (protoSum_rat npoints factor fcut w) hS
  rw [← h]
  apply Finset.sum_congr rfl
  intro s hs
  apply Finset.sum_congr rfl
  intro p hp
  exact makeSincs_entry npoints factor fcut w s p (Finset.mem_range.mp hs) (Finset.mem_range.mp hp)

end atRat

/-- position of a tap relative to the centre, in input samples (`npoints = 2h`):
`(tapIndex − tot/2)/factor = (p + 1 − h) − (s + 1)/factor`.  So branch `s` weights input sample
`index + p` by `h((p + 1 − h) − (s+1)/factor)`, i.e. (the prototype being even) it evaluates the signal at
time `index + h − 1 + (s + 1)/factor`: sub-filter `s` is `(s + 1)/factor` of a sample later than "branch −1". -/
theorem tap_time (factor s p h : ℕ) (hs : s < factor) :
    (((tapIndex factor s p : ℕ) : ℚ) - ((2 * h * factor / 2 : ℕ) : ℚ)) / (factor : ℚ)
      = ((p : ℚ) + 1 - (h : ℚ)) - ((s : ℚ) + 1) / (factor : ℚ) := by
  have hf : (factor : ℚ) ≠ 0 := by
    have : 0 < factor := by omega
    exact_mod_cast this.ne'
  have e : 2 * h * factor / 2 = h * factor := by
    rw [Nat.mul_assoc, Nat.mul_div_cancel_left _ (by norm_num)]
  have e2 : factor - 1 - s = factor - (1 + s) := by omega
  unfold tapIndex
  rw [e, e2]
  push_cast [Nat.cast_sub (show 1 + s ≤ factor by omega)]
  field_simp
  ring


end Rubato.WinProofs
