/-
Windows / symmetry: the *generated* window point formulas (`Rubato.Gen.Win.*`) and the hand model of
sinc.rs (`sincFn`, `sincProto`) instantiated at the real numbers with the real `π`, `cos`, `sin`.

* periodic-window symmetry `w[N − x] = w[x]`,
* `sinc` is even,
* hence the prototype is symmetric about its centre tap `tot/2` (linear phase),
* values at 0 and non-negativity of the base windows.

The instances `RNum ℝ`, `SNum ℝ ℝ`, `STrig ℝ` live in the namespace `Rubato.RealArith` as *scoped*
instances (`open scoped Rubato.RealArith` to use them); `Num.lean` is not touched.
-/
import RubatoModel.SincTable
import RubatoProofs.Windows.Gain
import Mathlib.Analysis.SpecialFunctions.Trigonometric.Basic
import Mathlib.Algebra.Order.Floor.Ring
import Mathlib.Tactic.Ring
import Mathlib.Tactic.NormNum
import Mathlib.Tactic.Linarith
import Mathlib.Tactic.FieldSimp
import Mathlib.Tactic.Positivity

namespace Rubato.RealArith

/-- exact real control arithmetic (`f32` operations are the exact ones) -/
noncomputable scoped instance realRNum : RNum ℝ where
  lit _ n d := (n : ℝ) / (d : ℝ)
  ofInt i := (i : ℝ)
  lt a b := decide (a < b)
  le a b := decide (a ≤ b)
  floor x := (⌊x⌋ : ℝ)
  ceil x := (⌈x⌉ : ℝ)
  round x := (⌊x + 1 / 2⌋ : ℝ)
  toInt x := if 0 ≤ x then ⌊x⌋ else ⌈x⌉
  toNat x := if 0 ≤ x then ⌊x⌋.toNat else 0
  n32 x := x
  ofNat32 n := (n : ℝ)
  add32 a b := a + b
  sub32 a b := a - b
  mul32 a b := a * b
  div32 a b := a / b
  bits _ := 0

noncomputable scoped instance realSNum : SNum ℝ ℝ where
  ofCtl x := x
  ofNat n := (n : ℝ)
  zero := 0
  one := 1
  isZero x := decide (x = 0)
  sbits _ := 0

noncomputable scoped instance realSTrig : STrig ℝ where
  pi := Real.pi
  cos := Real.cos
  sin := Real.sin

@[simp] theorem lit_eq (b : UInt64) (n d : ℕ) : (RNum.lit b n d : ℝ) = (n : ℝ) / (d : ℝ) := rfl
@[simp] theorem sofCtl_eq (x : ℝ) : (SNum.ofCtl x : ℝ) = x := rfl
@[simp] theorem sofNat_eq (n : ℕ) : (SNum.ofNat (ρ := ℝ) n : ℝ) = (n : ℝ) := rfl
@[simp] theorem szero_eq : (SNum.zero (ρ := ℝ) : ℝ) = 0 := rfl
@[simp] theorem sone_eq : (SNum.one (ρ := ℝ) : ℝ) = 1 := rfl
@[simp] theorem isZero_eq (x : ℝ) : SNum.isZero (ρ := ℝ) x = decide (x = 0) := rfl
@[simp] theorem pi_eq : (STrig.pi : ℝ) = Real.pi := rfl
@[simp] theorem cos_eq (x : ℝ) : (STrig.cos x : ℝ) = Real.cos x := rfl
@[simp] theorem sin_eq (x : ℝ) : (STrig.sin x : ℝ) = Real.sin x := rfl

end Rubato.RealArith

namespace Rubato.WinProofs
open Rubato Rubato.Gen
open scoped Rubato.RealArith
open Rubato.RealArith

/-! ### the point formulas over ℝ -/

theorem hann_real (N x : ℕ) :
    Win.hann_at (ρ := ℝ) (σ := ℝ) N x = 1 / 2 - 1 / 2 * Real.cos (2 * Real.pi * x / N) := by
  simp only [Win.hann_at, sofCtl_eq, lit_eq, sofNat_eq, pi_eq, cos_eq]
  norm_num

theorem blackman_real (N x : ℕ) :
    Win.blackman_at (ρ := ℝ) (σ := ℝ) N x
      = 21 / 50 - 1 / 2 * Real.cos (2 * Real.pi * x / N) + 2 / 25 * Real.cos (4 * Real.pi * x / N) := by
  simp only [Win.blackman_at, sofCtl_eq, lit_eq, sofNat_eq, pi_eq, cos_eq]
  norm_num

theorem blackmanHarris_real (N x : ℕ) :
    Win.blackman_harris_at (ρ := ℝ) (σ := ℝ) N x
      = 287 / 800 - 48829 / 100000 * Real.cos (2 * Real.pi * x / N)
        + 883 / 6250 * Real.cos (4 * Real.pi * x / N) - 73 / 6250 * Real.cos (6 * Real.pi * x / N) := by
  simp only [Win.blackman_harris_at, sofCtl_eq, lit_eq, sofNat_eq, pi_eq, cos_eq]
  norm_num

/-! ### periodic symmetry -/

/-- `cos (2kπ (N − x)/N) = cos (2kπ x/N)` -/
theorem cos_reflect (k : ℕ) (N x : ℝ) (hN : N ≠ 0) :
    Real.cos (2 * k * Real.pi * (N - x) / N) = Real.cos (2 * k * Real.pi * x / N) := by
  have h : 2 * k * Real.pi * (N - x) / N = (k : ℝ) * (2 * Real.pi) - 2 * k * Real.pi * x / N := by
    field_simp
  rw [h, Real.cos_nat_mul_two_pi_sub]

theorem cos_reflect1 (N x : ℝ) (hN : N ≠ 0) :
    Real.cos (2 * Real.pi * (N - x) / N) = Real.cos (2 * Real.pi * x / N) := by
  have := cos_reflect 1 N x hN
  simpa using this

theorem cos_reflect2 (N x : ℝ) (hN : N ≠ 0) :
    Real.cos (4 * Real.pi * (N - x) / N) = Real.cos (4 * Real.pi * x / N) := by
  have := cos_reflect 2 N x hN
  norm_num at this
  exact this

theorem cos_reflect3 (N x : ℝ) (hN : N ≠ 0) :
    Real.cos (6 * Real.pi * (N - x) / N) = Real.cos (6 * Real.pi * x / N) := by
  have := cos_reflect 3 N x hN
  norm_num at this
  exact this

theorem hann_symm (N x : ℕ) (hN : 0 < N) (hx : x ≤ N) :
    Win.hann_at (ρ := ℝ) (σ := ℝ) N (N - x) = Win.hann_at (ρ := ℝ) N x := by
  have hN' : (N : ℝ) ≠ 0 := by exact_mod_cast hN.ne'
  rw [hann_real, hann_real, Nat.cast_sub hx, cos_reflect1 _ _ hN']

theorem blackman_symm (N x : ℕ) (hN : 0 < N) (hx : x ≤ N) :
    Win.blackman_at (ρ := ℝ) (σ := ℝ) N (N - x) = Win.blackman_at (ρ := ℝ) N x := by
  have hN' : (N : ℝ) ≠ 0 := by exact_mod_cast hN.ne'
  rw [blackman_real, blackman_real, Nat.cast_sub hx, cos_reflect1 _ _ hN', cos_reflect2 _ _ hN']

theorem blackmanHarris_symm (N x : ℕ) (hN : 0 < N) (hx : x ≤ N) :
    Win.blackman_harris_at (ρ := ℝ) (σ := ℝ) N (N - x) = Win.blackman_harris_at (ρ := ℝ) N x := by
  have hN' : (N : ℝ) ≠ 0 := by exact_mod_cast hN.ne'
  rw [blackmanHarris_real, blackmanHarris_real, Nat.cast_sub hx, cos_reflect1 _ _ hN',
    cos_reflect2 _ _ hN', cos_reflect3 _ _ hN']

/-- Periodic-window symmetry, all six windows: `w[N − x] = w[x]`. -/
theorem make_window_symm (w : Window) (N x : ℕ) (hN : 0 < N) (hx : x ≤ N) :
    Win.make_window_at (ρ := ℝ) (σ := ℝ) w N (N - x) = Win.make_window_at (ρ := ℝ) w N x := by
  cases w <;>
    simp only [Win.make_window_at, hann_symm N x hN hx, blackman_symm N x hN hx,
      blackmanHarris_symm N x hN hx]

/-! ### `sinc` is even -/

theorem sincFn_real (v : ℝ) :
    sincFn (ρ := ℝ) (σ := ℝ) v = if v = 0 then 1 else Real.sin (v * Real.pi) / (v * Real.pi) := by
  simp only [sincFn, isZero_eq, sone_eq, sin_eq, pi_eq, decide_eq_true_eq]

theorem sincFn_even (v : ℝ) : sincFn (ρ := ℝ) (σ := ℝ) (-v) = sincFn (ρ := ℝ) v := by
  rw [sincFn_real, sincFn_real]
  by_cases h : v = 0
  · simp [h]
  · have h' : -v ≠ 0 := neg_ne_zero.mpr h
    rw [if_neg h, if_neg h', neg_mul, Real.sin_neg, neg_div_neg_eq]

theorem sincFn_zero : sincFn (ρ := ℝ) (σ := ℝ) 0 = 1 := by
  rw [sincFn_real, if_pos rfl]

/-- `sinc` vanishes at the non-zero integers -/
theorem sincFn_int (k : ℤ) (hk : k ≠ 0) : sincFn (ρ := ℝ) (σ := ℝ) (k : ℝ) = 0 := by
  have h : (k : ℝ) ≠ 0 := by exact_mod_cast hk
  rw [sincFn_real, if_neg h, Real.sin_int_mul_pi, zero_div]

/-! ### the prototype is symmetric about its centre tap (linear phase) -/

theorem sincProto_real (npoints factor : ℕ) (fcut : ℝ) (w : Window) (x : ℕ) :
    sincProto (ρ := ℝ) (σ := ℝ) npoints factor fcut w x =
      Win.make_window_at (ρ := ℝ) w (npoints * factor) x *
        sincFn (ρ := ℝ) (((x : ℝ) - ((npoints * factor / 2 : ℕ) : ℝ)) * fcut / (factor : ℝ)) := by
  simp only [sincProto, sofNat_eq, sofCtl_eq]

/-- `npoints` is a multiple of 8 (`interpLen`), so the prototype length is even -/
theorem tot_even (npoints factor : ℕ) (h8 : 8 ∣ npoints) : 2 ∣ npoints * factor := by
  obtain ⟨k, rfl⟩ := h8
  exact ⟨4 * k * factor, by ring⟩

/-- Linear phase: `y[tot/2 + d] = y[tot/2 − d]` for `d ≤ tot/2`, `tot = npoints·factor` even. -/
theorem sincProto_symm (npoints factor : ℕ) (fcut : ℝ) (w : Window) (d : ℕ)
    (heven : 2 ∣ npoints * factor) (hd : d ≤ npoints * factor / 2) :
    sincProto (ρ := ℝ) (σ := ℝ) npoints factor fcut w (npoints * factor / 2 + d)
      = sincProto (ρ := ℝ) npoints factor fcut w (npoints * factor / 2 - d) := by
  rw [sincProto_real, sincProto_real]
  generalize npoints * factor = tot at *
  obtain ⟨h, rfl⟩ := heven
  have hh : 2 * h / 2 = h := by omega
  rw [hh] at hd ⊢
  rcases Nat.eq_zero_or_pos d with rfl | hdpos
  · simp
  have hN : 0 < 2 * h := by omega
  have e1 : h - d = 2 * h - (h + d) := by omega
  have hw : Win.make_window_at (ρ := ℝ) (σ := ℝ) w (2 * h) (h - d)
      = Win.make_window_at (ρ := ℝ) w (2 * h) (h + d) := by
    rw [e1]
    exact make_window_symm w (2 * h) (h + d) hN (by omega)
  rw [hw]
  congr 1
  rw [← sincFn_even]
  congr 1
  rw [Nat.cast_sub hd]
  push_cast
  ring

/-! ### values at the edge, non-negativity -/

theorem hann_zero (N : ℕ) : Win.make_window_at (ρ := ℝ) (σ := ℝ) .hann N 0 = 0 := by
  show Win.hann_at (ρ := ℝ) (σ := ℝ) N 0 = 0
  rw [hann_real]; simp

theorem blackman_zero (N : ℕ) : Win.make_window_at (ρ := ℝ) (σ := ℝ) .blackman N 0 = 0 := by
  show Win.blackman_at (ρ := ℝ) (σ := ℝ) N 0 = 0
  rw [blackman_real]; simp; norm_num

theorem blackmanHarris_zero (N : ℕ) :
    Win.make_window_at (ρ := ℝ) (σ := ℝ) .blackmanHarris N 0 = 6 / 100000 := by
  show Win.blackman_harris_at (ρ := ℝ) (σ := ℝ) N 0 = _
  rw [blackmanHarris_real]; simp; norm_num

theorem hann_nonneg (N x : ℕ) : 0 ≤ Win.make_window_at (ρ := ℝ) (σ := ℝ) .hann N x := by
  show 0 ≤ Win.hann_at (ρ := ℝ) (σ := ℝ) N x
  rw [hann_real]
  have := Real.cos_le_one (2 * Real.pi * x / N)
  linarith

theorem hann_le_one (N x : ℕ) : Win.make_window_at (ρ := ℝ) (σ := ℝ) .hann N x ≤ 1 := by
  show Win.hann_at (ρ := ℝ) (σ := ℝ) N x ≤ 1
  rw [hann_real]
  have := Real.neg_one_le_cos (2 * Real.pi * x / N)
  linarith

/-- Blackman: `0.42 − 0.5c + 0.08(2c² − 1) = (1 − c)(0.34 − 0.16c) ≥ 0` -/
theorem blackman_nonneg (N x : ℕ) : 0 ≤ Win.make_window_at (ρ := ℝ) (σ := ℝ) .blackman N x := by
  show 0 ≤ Win.blackman_at (ρ := ℝ) (σ := ℝ) N x
  rw [blackman_real]
  have e : 4 * Real.pi * x / N = 2 * (2 * Real.pi * x / N) := by ring
  rw [e, Real.cos_two_mul]
  have h1 := Real.cos_le_one (2 * Real.pi * x / N)
  have h2 := Real.neg_one_le_cos (2 * Real.pi * x / N)
  nlinarith [mul_nonneg (sub_nonneg.mpr h1) (sub_nonneg.mpr h1)]


/-- Blackman-Harris: with `c = cos θ`, value `= 0.00006 + (1 − c)·q(c)`, `q > 0` on `[−1, 1]`:
the window is bounded below by its edge value `0.00006` -/
theorem blackmanHarris_ge (N x : ℕ) :
    6 / 100000 ≤ Win.make_window_at (ρ := ℝ) (σ := ℝ) .blackmanHarris N x := by
  show _ ≤ Win.blackman_harris_at (ρ := ℝ) (σ := ℝ) N x
  rw [blackmanHarris_real]
  have e2 : 4 * Real.pi * x / N = 2 * (2 * Real.pi * x / N) := by ring
  have e3 : 6 * Real.pi * x / N = 3 * (2 * Real.pi * x / N) := by ring
  rw [e2, e3, Real.cos_two_mul, Real.cos_three_mul]
  have h1 := Real.cos_le_one (2 * Real.pi * x / N)
  have h2 := Real.neg_one_le_cos (2 * Real.pi * x / N)
  generalize Real.cos (2 * Real.pi * x / N) = c at h1 h2 ⊢
  have key : 287 / 800 - 48829 / 100000 * c + 883 / 6250 * (2 * c ^ 2 - 1) - 73 / 6250 * (4 * c ^ 3 - 3 * c)
      = 6 / 100000 + (1 - c) * (21741 / 100000 - 23584 / 100000 * c + 4672 / 100000 * c ^ 2) := by ring
  have hq : 0 ≤ 21741 / 100000 - 23584 / 100000 * c + 4672 / 100000 * c ^ 2 := by
    have e : 21741 / 100000 - 23584 / 100000 * c + 4672 / 100000 * c ^ 2
        = 2829 / 100000 + (1 - c) * (18912 / 100000 - 4672 / 100000 * c) := by ring
    rw [e]
    have : 0 ≤ (1 - c) * (18912 / 100000 - 4672 / 100000 * c) :=
      mul_nonneg (by linarith) (by linarith)
    linarith
  rw [key]
  have : 0 ≤ (1 - c) * (21741 / 100000 - 23584 / 100000 * c + 4672 / 100000 * c ^ 2) :=
    mul_nonneg (by linarith) hq
  linarith

theorem window_centre (w : Window) (h : ℕ) (hh : 0 < h) :
    Win.make_window_at (ρ := ℝ) (σ := ℝ) w (2 * h) h = 1 := by
  have hh' : (h : ℝ) ≠ 0 := by exact_mod_cast hh.ne'
  have a1 : 2 * Real.pi * (h : ℝ) / ((2 * h : ℕ) : ℝ) = Real.pi := by
    push_cast; field_simp
  have a2 : 4 * Real.pi * (h : ℝ) / ((2 * h : ℕ) : ℝ) = 2 * Real.pi := by
    push_cast; field_simp; ring
  have a3 : 6 * Real.pi * (h : ℝ) / ((2 * h : ℕ) : ℝ) = 3 * Real.pi := by
    push_cast; field_simp; ring
  have c3 : Real.cos (3 * Real.pi) = -1 := by
    have : 3 * Real.pi = Real.pi + 2 * Real.pi := by ring
    rw [this, Real.cos_add_two_pi, Real.cos_pi]
  have hh1 : Win.hann_at (ρ := ℝ) (σ := ℝ) (2 * h) h = 1 := by
    rw [hann_real, a1, Real.cos_pi]; norm_num
  have hb1 : Win.blackman_at (ρ := ℝ) (σ := ℝ) (2 * h) h = 1 := by
    rw [blackman_real, a1, a2, Real.cos_pi, Real.cos_two_pi]; norm_num
  have hbh1 : Win.blackman_harris_at (ρ := ℝ) (σ := ℝ) (2 * h) h = 1 := by
    rw [blackmanHarris_real, a1, a2, a3, Real.cos_pi, Real.cos_two_pi, c3]; norm_num
  cases w <;> simp only [Win.make_window_at, hh1, hb1, hbh1, mul_one]

/-- all six windows are non-negative on the whole grid (the squared ones trivially) -/
theorem make_window_nonneg (w : Window) (N x : ℕ) :
    0 ≤ Win.make_window_at (ρ := ℝ) (σ := ℝ) w N x := by
  have hb := blackman_nonneg N x
  have hh := hann_nonneg N x
  have hbh : 0 ≤ Win.make_window_at (ρ := ℝ) (σ := ℝ) .blackmanHarris N x :=
    le_trans (by norm_num) (blackmanHarris_ge N x)
  cases w
  · exact hb
  · exact mul_self_nonneg _
  · exact hbh
  · exact mul_self_nonneg _
  · exact hh
  · exact mul_self_nonneg _

/-- reflected form of the linear-phase property: `y[tot − i] = y[i]` for `i ≤ tot` -/
theorem sincProto_reflect (npoints factor : ℕ) (fcut : ℝ) (w : Window) (i : ℕ)
    (heven : 2 ∣ npoints * factor) (hi : i ≤ npoints * factor) :
    sincProto (ρ := ℝ) (σ := ℝ) npoints factor fcut w (npoints * factor - i)
      = sincProto (ρ := ℝ) npoints factor fcut w i := by
  obtain ⟨h, hh⟩ := heven
  have hh2 : npoints * factor / 2 = h := by omega
  by_cases hc : i ≤ h
  · have key := sincProto_symm npoints factor fcut w (h - i) ⟨h, hh⟩ (by omega)
    rw [hh2] at key
    have e1 : h + (h - i) = npoints * factor - i := by omega
    have e2 : h - (h - i) = i := by omega
    rw [e1, e2] at key
    exact key
  · have key := sincProto_symm npoints factor fcut w (i - h) ⟨h, hh⟩ (by omega)
    rw [hh2] at key
    have e1 : h + (i - h) = i := by omega
    have e2 : h - (i - h) = npoints * factor - i := by omega
    rw [e1, e2] at key
    exact key.symm

/-! ### DC gain over ℝ -/

theorem protoSum_real (npoints factor : ℕ) (fcut : ℝ) (w : Window) :
    protoSum (ρ := ℝ) (σ := ℝ) npoints factor fcut w
      = (∑ x ∈ Finset.range (npoints * factor), sincProto (ρ := ℝ) (σ := ℝ) npoints factor fcut w x)
        / (factor : ℝ) := by
  unfold protoSum protoFold
  rw [← foldl_range_map (M := ℝ)]
  rfl

/-- Mean DC gain of the branches is exactly 1 (real `sin`, `cos`, `π`). -/
theorem dc_gain_real (npoints factor : ℕ) (fcut : ℝ) (w : Window)
    (hS : protoSum (ρ := ℝ) (σ := ℝ) npoints factor fcut w ≠ 0) :
    ∑ s ∈ Finset.range factor, ∑ p ∈ Finset.range npoints,
      ((makeSincs (ρ := ℝ) (σ := ℝ) npoints factor fcut w).getD s #[]).getD p 0 = (factor : ℝ) := by
  have h := gain_core (sincProto (ρ := ℝ) (σ := ℝ) npoints factor fcut w) factor npoints _
    (protoSum_real npoints factor fcut w) hS
  rw [← h]
  apply Finset.sum_congr rfl
  intro s hs
  apply Finset.sum_congr rfl
  intro p hp
  exact makeSincs_entry npoints factor fcut w s p (Finset.mem_range.mp hs) (Finset.mem_range.mp hp)

/-- mirror symmetry of the table: for `s + 2 ≤ factor`, `sincs[s][p] = sincs[factor − 2 − s][npoints − 1 − p]` -/
theorem makeSincs_mirror (npoints factor : ℕ) (fcut : ℝ) (w : Window) (s p : ℕ)
    (heven : 2 ∣ npoints * factor) (hs : s + 2 ≤ factor) (hp : p < npoints) :
    ((makeSincs (ρ := ℝ) (σ := ℝ) npoints factor fcut w).getD s #[]).getD p 0
      = ((makeSincs (ρ := ℝ) (σ := ℝ) npoints factor fcut w).getD (factor - 2 - s) #[]).getD
          (npoints - 1 - p) 0 := by
  have e1 := makeSincs_entry (σ := ℝ) npoints factor fcut w s p (by omega) hp
  have e2 := makeSincs_entry (σ := ℝ) npoints factor fcut w (factor - 2 - s) (npoints - 1 - p)
    (by omega) (by omega)
  rw [szero_eq] at e1 e2
  rw [e1, e2]
  congr 1
  have hlt := tapIndex_lt (npoints := npoints) (factor := factor) (s := s) (p := p) (by omega) hp
  have hidx : tapIndex factor (factor - 2 - s) (npoints - 1 - p)
      = npoints * factor - tapIndex factor s p := by
    unfold tapIndex at hlt ⊢
    obtain ⟨q, rfl⟩ : ∃ q, npoints = p + 1 + q := ⟨npoints - (p + 1), by omega⟩
    have a1 : p + 1 + q - 1 - p = q := by omega
    rw [a1]
    have a2 : (p + 1 + q) * factor = factor * p + factor + factor * q := by ring
    rw [a2]
    omega
  rw [hidx, sincProto_reflect npoints factor fcut w _ heven hlt.le]

/-! ### the unpaired tap `y[0]`

The symmetry pairs `tot/2 + d` with `tot/2 − d`; within the table (`x < tot`) every tap has its partner
except `x = 0` (its partner would be `x = tot`).  For the Hann and Blackman families `y[0] = 0`, so the
prototype is an exactly symmetric (odd-length, `tot − 1` taps) filter; for the Blackman-Harris family
`y[0]` is the edge value `0.00006` (resp. its square) times a sinc value: tiny but not zero. -/

theorem sincProto_zero_of_hann_blackman (npoints factor : ℕ) (fcut : ℝ) (w : Window)
    (hw : w = .hann ∨ w = .hann2 ∨ w = .blackman ∨ w = .blackman2) :
    sincProto (ρ := ℝ) (σ := ℝ) npoints factor fcut w 0 = 0 := by
  rw [sincProto_real]
  have h1 := hann_zero (npoints * factor)
  have h2 := blackman_zero (npoints * factor)
  have : Win.make_window_at (ρ := ℝ) (σ := ℝ) w (npoints * factor) 0 = 0 := by
    rcases hw with rfl | rfl | rfl | rfl
    · exact h1
    · show Win.make_window_at (ρ := ℝ) (σ := ℝ) .hann (npoints * factor) 0
        * Win.make_window_at (ρ := ℝ) (σ := ℝ) .hann (npoints * factor) 0 = 0
      rw [h1, mul_zero]
    · exact h2
    · show Win.make_window_at (ρ := ℝ) (σ := ℝ) .blackman (npoints * factor) 0
        * Win.make_window_at (ρ := ℝ) (σ := ℝ) .blackman (npoints * factor) 0 = 0
      rw [h2, mul_zero]
  rw [this, zero_mul]

theorem sincProto_zero_blackmanHarris (npoints factor : ℕ) (fcut : ℝ) :
    sincProto (ρ := ℝ) (σ := ℝ) npoints factor fcut .blackmanHarris 0
      = 6 / 100000 * sincFn (ρ := ℝ) (((npoints * factor / 2 : ℕ) : ℝ) * fcut / (factor : ℝ)) := by
  rw [sincProto_real, blackmanHarris_zero, ← sincFn_even]
  congr 2
  push_cast
  ring

end Rubato.WinProofs
