/-
C15 at model level: the seven kernel models of `RubatoModel/Kernels.lean` compute, in any
commutative semiring, the plain dot product of `wave[index .. index + length)` with the taps of the
sub-filter, whatever the lane layout; and they depend on no other entry of `wave`.
-/
import RubatoModel.Kernels
import RubatoModel.SincTable
import Mathlib.Algebra.BigOperators.Group.Finset.Basic
import Mathlib.Algebra.Ring.Defs
import Mathlib.Tactic.Ring

namespace Rubato.KernProofs
open Rubato.Kern Finset

/-! ### `pack` -/

section Pack
variable {β : Type}

theorem flatten_chunks (l : List β) (lanes n : ℕ) :
    ((List.range n).map fun i => (l.drop (i * lanes)).take lanes).flatten = l.take (n * lanes) := by
  induction n with
  | zero => simp
  | succ n ih =>
    rw [List.range_succ, List.map_append, List.flatten_append, ih, Nat.succ_mul, List.take_add]
    simp

theorem ceil_mul_ge (len lanes : ℕ) (h : 0 < lanes) : len ≤ (len + lanes - 1) / lanes * lanes := by
  have h1 := Nat.div_add_mod (len + lanes - 1) lanes
  have h2 := Nat.mod_lt (len + lanes - 1) h
  have h3 : lanes * ((len + lanes - 1) / lanes) = (len + lanes - 1) / lanes * lanes :=
    Nat.mul_comm _ _
  omega

/-- `chunks` loses and reorders nothing (any `lanes > 0`, divisible or not). -/
theorem pack_flatten' (lanes : ℕ) (sinc : List β) (h : 0 < lanes) :
    (pack lanes sinc).flatten = sinc := by
  unfold pack
  rw [flatten_chunks]
  exact List.take_of_length_le (ceil_mul_ge _ _ h)

theorem ceil_div_of_dvd {len lanes : ℕ} (hd : lanes ∣ len) :
    (len + lanes - 1) / lanes = len / lanes := by
  obtain ⟨q, rfl⟩ := hd
  rcases Nat.eq_zero_or_pos lanes with h0 | hpos
  · subst h0; simp
  · have : lanes * q + lanes - 1 = lanes * q + (lanes - 1) := by omega
    rw [this, Nat.mul_add_div hpos, Nat.div_eq_of_lt (by omega), Nat.mul_div_cancel_left _ hpos]
    rfl

/-- packing is a bijection of the taps onto the lanes, in order -/
theorem pack_flatten (lanes : ℕ) (sinc : List β) (hd : lanes ∣ sinc.length) :
    (pack lanes sinc).flatten = sinc := by
  rcases Nat.eq_zero_or_pos lanes with h0 | hpos
  · subst h0
    have : sinc = [] := List.eq_nil_of_length_eq_zero (Nat.eq_zero_of_zero_dvd hd)
    subst this; simp [pack]
  · exact pack_flatten' lanes sinc hpos

theorem pack_length (lanes : ℕ) (sinc : List β) (hd : lanes ∣ sinc.length) :
    (pack lanes sinc).length = sinc.length / lanes := by
  simp [pack, ceil_div_of_dvd hd]

/-- every register is full -/
theorem pack_lanes (lanes : ℕ) (sinc : List β) (hd : lanes ∣ sinc.length) :
    ∀ r ∈ pack lanes sinc, r.length = lanes := by
  intro r hr
  simp only [pack, List.mem_map, List.mem_range, ceil_div_of_dvd hd] at hr
  obtain ⟨i, hi, rfl⟩ := hr
  obtain ⟨q, hq⟩ := hd
  rcases Nat.eq_zero_or_pos lanes with h0 | hpos
  · subst h0; simp
  · rw [hq, Nat.mul_div_cancel_left _ hpos] at hi
    have h1 : lanes * (i + 1) ≤ lanes * q := Nat.mul_le_mul_left lanes hi
    have h2 : lanes * (i + 1) = i * lanes + lanes := by rw [Nat.mul_succ, Nat.mul_comm]
    simp only [List.length_take, List.length_drop]
    omega

theorem pack_getD (lanes : ℕ) (sinc : List β) (s : ℕ) :
    (pack lanes sinc).getD s [] =
      if s < (sinc.length + lanes - 1) / lanes then (sinc.drop (s * lanes)).take lanes else [] := by
  unfold pack
  rw [List.getD_eq_getElem?_getD, List.getElem?_map]
  split
  · next h => rw [List.getElem?_range h]; rfl
  · next h => rw [List.getElem?_eq_none (by simpa using h)]; rfl

end Pack

section Lane
variable {α : Type} [OfNat α 0]

/-- tap `k` as the SIMD kernels find it in a sinc packed `L` lanes wide: lane `k % L` of register
`k / L` -/
def lane (L : ℕ) (packed : List (List α)) (k : ℕ) : α := (packed.getD (k / L) []).getD (k % L) 0

theorem lane_eq {L k s j : ℕ} (packed : List (List α)) (hj : j < L) (h : k = s * L + j) :
    lane L packed k = (packed.getD s []).getD j 0 := by
  subst h
  have h1 : (s * L + j) / L = s := by
    rw [Nat.mul_comm, Nat.mul_add_div (by omega), Nat.div_eq_of_lt hj]; rfl
  have h2 : (s * L + j) % L = j := by
    rw [Nat.mul_comm, Nat.mul_add_mod, Nat.mod_eq_of_lt hj]
  unfold lane
  rw [h1, h2]

/-- lane `k % L` of register `k / L` of the packed sinc is tap `k` (`0` past the end) -/
theorem lane_pack (L : ℕ) (hL : 0 < L) (sinc : List α) (k : ℕ) :
    lane L (pack L sinc) k = sinc.getD k 0 := by
  unfold lane
  rw [pack_getD]
  have hk : k / L * L + k % L = k := Nat.div_add_mod' k L
  split
  · rw [List.getD_eq_getElem?_getD, List.getElem?_take, if_pos (Nat.mod_lt _ hL),
      List.getElem?_drop, hk, ← List.getD_eq_getElem?_getD]
  · next h =>
    have h1 := ceil_mul_ge sinc.length L hL
    have h2 : (sinc.length + L - 1) / L * L ≤ k / L * L := Nat.mul_le_mul_right L (by omega)
    have h3 : sinc.length ≤ k := by omega
    rw [List.getD_eq_getElem?_getD, List.getD_eq_getElem?_getD, List.getElem?_eq_none h3]
    rfl

end Lane


/-! ### Sums by blocks of eight -/

section Sums
variable {M : Type} [AddCommMonoid M]

theorem sum_range_8_succ (f : ℕ → M) (n : ℕ) :
    ∑ k ∈ range (8 * (n + 1)), f k =
      ∑ k ∈ range (8 * n), f k +
        (f (8 * n) + f (8 * n + 1) + f (8 * n + 2) + f (8 * n + 3) +
         f (8 * n + 4) + f (8 * n + 5) + f (8 * n + 6) + f (8 * n + 7)) := by
  have : 8 * (n + 1) = 8 * n + 1 + 1 + 1 + 1 + 1 + 1 + 1 + 1 := by omega
  rw [this]
  simp only [sum_range_succ, Nat.reduceAdd, add_assoc]

end Sums

/-! ### The scalar loop, law-free part (used for the semiring proof and for the bridge to
`Rubato.scalarDot`) -/

section ScalarGen
variable {α : Type} [Add α] [Mul α] [OfNat α 0] (wave : List α) (index : ℕ)

theorem scalarLoop_succ (sinc : List α) (n : ℕ) :
    scalarLoop wave index sinc (n + 1) = scalarStep wave index sinc (scalarLoop wave index sinc n) := by
  simp [scalarLoop, List.range_succ]

theorem scalarLoop_idx (sinc : List α) (n : ℕ) : (scalarLoop wave index sinc n).w_idx = 8 * n := by
  induction n with
  | zero => simp [scalarLoop]
  | succ n ih =>
    rw [scalarLoop_succ]
    simp only [scalarStep, ih]
    omega

end ScalarGen

/-! ### The kernels -/

section Kernels
variable {α : Type} [CommSemiring α]

/-- sum of the lanes -/
def tot2 (a : V2 α) : α := a.x0 + a.x1
def tot4 (a : V4 α) : α := a.x0 + a.x1 + a.x2 + a.x3
def tot8 (a : V8 α) : α := a.x0 + a.x1 + a.x2 + a.x3 + a.x4 + a.x5 + a.x6 + a.x7

variable (wave : List α) (index : ℕ) (p : List (List α))

/-! #### AVX f64 -/

theorem avxF64Loop_succ (n : ℕ) :
    avxF64Loop wave index p (n + 1) = avxF64Step wave index p (avxF64Loop wave index p n) := by
  simp [avxF64Loop, List.range_succ]

theorem avxF64Loop_idx (n : ℕ) :
    (avxF64Loop wave index p n).w_idx = 8 * n ∧ (avxF64Loop wave index p n).s_idx = 2 * n := by
  induction n with
  | zero => simp [avxF64Loop]
  | succ n ih =>
    rw [avxF64Loop_succ]
    simp only [avxF64Step, ih.1, ih.2]
    omega

theorem lanes4 (n : ℕ) :
    lane 4 p (8 * n) = (p.getD (2 * n) []).getD 0 0 ∧
    lane 4 p (8 * n + 1) = (p.getD (2 * n) []).getD 1 0 ∧
    lane 4 p (8 * n + 2) = (p.getD (2 * n) []).getD 2 0 ∧
    lane 4 p (8 * n + 3) = (p.getD (2 * n) []).getD 3 0 ∧
    lane 4 p (8 * n + 4) = (p.getD (2 * n + 1) []).getD 0 0 ∧
    lane 4 p (8 * n + 5) = (p.getD (2 * n + 1) []).getD 1 0 ∧
    lane 4 p (8 * n + 6) = (p.getD (2 * n + 1) []).getD 2 0 ∧
    lane 4 p (8 * n + 7) = (p.getD (2 * n + 1) []).getD 3 0 := by
  refine ⟨?_, ?_, ?_, ?_, ?_, ?_, ?_, ?_⟩ <;> apply lane_eq <;> omega

theorem avxF64Loop_tot (n : ℕ) :
    tot4 (avxF64Loop wave index p n).acc0 + tot4 (avxF64Loop wave index p n).acc1 =
      ∑ k ∈ range (8 * n), rd wave index k * lane 4 p k := by
  induction n with
  | zero => simp [avxF64Loop, V4.zero, tot4]
  | succ n ih =>
    obtain ⟨hw, hs⟩ := avxF64Loop_idx wave index p n
    obtain ⟨h0, h1, h2, h3, h4, h5, h6, h7⟩ := lanes4 p n
    rw [avxF64Loop_succ, sum_range_8_succ, ← ih, h0, h1, h2, h3, h4, h5, h6, h7]
    simp only [avxF64Step, V4.fmadd, V4.load, V4.ofList, tot4, hw, hs, Nat.add_assoc,
      Nat.reduceAdd]
    ring

theorem avxF64Finish_eq (a b : V4 α) : avxF64Finish a b = tot4 a + tot4 b := by
  simp only [avxF64Finish, V4.add, V4.high, V4.low, V2.add, V2.hadd, tot4]
  ring

theorem avxF64_eq (length : ℕ) :
    avxF64 wave index p length =
      ∑ k ∈ range (8 * (length / 8)), rd wave index k * lane 4 p k := by
  simp only [avxF64, avxF64Finish_eq, avxF64Loop_tot]

/-! #### SSE f32 -/

theorem sseF32Loop_succ (n : ℕ) :
    sseF32Loop wave index p (n + 1) = sseF32Step wave index p (sseF32Loop wave index p n) := by
  simp [sseF32Loop, List.range_succ]

theorem sseF32Loop_idx (n : ℕ) :
    (sseF32Loop wave index p n).w_idx = 8 * n ∧ (sseF32Loop wave index p n).s_idx = 2 * n := by
  induction n with
  | zero => simp [sseF32Loop]
  | succ n ih =>
    rw [sseF32Loop_succ]
    simp only [sseF32Step, ih.1, ih.2]
    omega

theorem sseF32Loop_tot (n : ℕ) :
    tot4 (sseF32Loop wave index p n).acc0 + tot4 (sseF32Loop wave index p n).acc1 =
      ∑ k ∈ range (8 * n), rd wave index k * lane 4 p k := by
  induction n with
  | zero => simp [sseF32Loop, V4.zero, tot4]
  | succ n ih =>
    obtain ⟨hw, hs⟩ := sseF32Loop_idx wave index p n
    obtain ⟨h0, h1, h2, h3, h4, h5, h6, h7⟩ := lanes4 p n
    rw [sseF32Loop_succ, sum_range_8_succ, ← ih, h0, h1, h2, h3, h4, h5, h6, h7]
    simp only [sseF32Step, V4.add, V4.mul, V4.load, V4.ofList, tot4, hw, hs, Nat.add_assoc,
      Nat.reduceAdd]
    ring

theorem sseF32Finish_eq (a b : V4 α) : sseF32Finish a b = tot4 a + tot4 b := by
  simp only [sseF32Finish, V4.add, V4.hadd, tot4]
  ring

theorem sseF32_eq (length : ℕ) :
    sseF32 wave index p length =
      ∑ k ∈ range (8 * (length / 8)), rd wave index k * lane 4 p k := by
  simp only [sseF32, sseF32Finish_eq, sseF32Loop_tot]

/-! #### NEON f32 -/

theorem neonF32Loop_succ (n : ℕ) :
    neonF32Loop wave index p (n + 1) = neonF32Step wave index p (neonF32Loop wave index p n) := by
  simp [neonF32Loop, List.range_succ]

theorem neonF32Loop_idx (n : ℕ) :
    (neonF32Loop wave index p n).w_idx = 8 * n ∧ (neonF32Loop wave index p n).s_idx = 2 * n := by
  induction n with
  | zero => simp [neonF32Loop]
  | succ n ih =>
    rw [neonF32Loop_succ]
    simp only [neonF32Step, ih.1, ih.2]
    omega

theorem neonF32Loop_tot (n : ℕ) :
    tot4 (neonF32Loop wave index p n).acc0 + tot4 (neonF32Loop wave index p n).acc1 =
      ∑ k ∈ range (8 * n), rd wave index k * lane 4 p k := by
  induction n with
  | zero => simp [neonF32Loop, V4.zero, tot4]
  | succ n ih =>
    obtain ⟨hw, hs⟩ := neonF32Loop_idx wave index p n
    obtain ⟨h0, h1, h2, h3, h4, h5, h6, h7⟩ := lanes4 p n
    rw [neonF32Loop_succ, sum_range_8_succ, ← ih, h0, h1, h2, h3, h4, h5, h6, h7]
    simp only [neonF32Step, V4.vfma, V4.load, V4.ofList, tot4, hw, hs, Nat.add_assoc,
      Nat.reduceAdd]
    ring

theorem neonF32Finish_eq (a b : V4 α) : neonF32Finish a b = tot4 a + tot4 b := by
  simp only [neonF32Finish, V4.add, V4.high, V4.low, V2.add, tot4]
  ring

theorem neonF32_eq (length : ℕ) :
    neonF32 wave index p length =
      ∑ k ∈ range (8 * (length / 8)), rd wave index k * lane 4 p k := by
  simp only [neonF32, neonF32Finish_eq, neonF32Loop_tot]

theorem lanes2 (n : ℕ) :
    lane 2 p (8 * n) = (p.getD (4 * n) []).getD 0 0 ∧
    lane 2 p (8 * n + 1) = (p.getD (4 * n) []).getD 1 0 ∧
    lane 2 p (8 * n + 2) = (p.getD (4 * n + 1) []).getD 0 0 ∧
    lane 2 p (8 * n + 3) = (p.getD (4 * n + 1) []).getD 1 0 ∧
    lane 2 p (8 * n + 4) = (p.getD (4 * n + 2) []).getD 0 0 ∧
    lane 2 p (8 * n + 5) = (p.getD (4 * n + 2) []).getD 1 0 ∧
    lane 2 p (8 * n + 6) = (p.getD (4 * n + 3) []).getD 0 0 ∧
    lane 2 p (8 * n + 7) = (p.getD (4 * n + 3) []).getD 1 0 := by
  refine ⟨?_, ?_, ?_, ?_, ?_, ?_, ?_, ?_⟩ <;> apply lane_eq <;> omega

/-! #### SSE f64 -/

theorem sseF64Loop_succ (n : ℕ) :
    sseF64Loop wave index p (n + 1) = sseF64Step wave index p (sseF64Loop wave index p n) := by
  simp [sseF64Loop, List.range_succ]

theorem sseF64Loop_idx (n : ℕ) :
    (sseF64Loop wave index p n).w_idx = 8 * n ∧ (sseF64Loop wave index p n).s_idx = 4 * n := by
  induction n with
  | zero => simp [sseF64Loop]
  | succ n ih =>
    rw [sseF64Loop_succ]
    simp only [sseF64Step, ih.1, ih.2]
    omega

theorem sseF64Loop_tot (n : ℕ) :
    tot2 (sseF64Loop wave index p n).acc0 + tot2 (sseF64Loop wave index p n).acc1 +
      tot2 (sseF64Loop wave index p n).acc2 + tot2 (sseF64Loop wave index p n).acc3 =
      ∑ k ∈ range (8 * n), rd wave index k * lane 2 p k := by
  induction n with
  | zero => simp [sseF64Loop, V2.zero, tot2]
  | succ n ih =>
    obtain ⟨hw, hs⟩ := sseF64Loop_idx wave index p n
    obtain ⟨h0, h1, h2, h3, h4, h5, h6, h7⟩ := lanes2 p n
    rw [sseF64Loop_succ, sum_range_8_succ, ← ih, h0, h1, h2, h3, h4, h5, h6, h7]
    simp only [sseF64Step, V2.add, V2.mul, V2.load, V2.ofList, tot2, hw, hs, Nat.add_assoc,
      Nat.reduceAdd]
    ring

theorem sseF64Finish_eq (a b c d : V2 α) :
    sseF64Finish a b c d = tot2 a + tot2 b + tot2 c + tot2 d := by
  simp only [sseF64Finish, V2.add, V2.hadd, tot2]
  ring

theorem sseF64_eq (length : ℕ) :
    sseF64 wave index p length =
      ∑ k ∈ range (8 * (length / 8)), rd wave index k * lane 2 p k := by
  simp only [sseF64, sseF64Finish_eq, sseF64Loop_tot]

/-! #### NEON f64 -/

theorem neonF64Loop_succ (n : ℕ) :
    neonF64Loop wave index p (n + 1) = neonF64Step wave index p (neonF64Loop wave index p n) := by
  simp [neonF64Loop, List.range_succ]

theorem neonF64Loop_idx (n : ℕ) :
    (neonF64Loop wave index p n).w_idx = 8 * n ∧ (neonF64Loop wave index p n).s_idx = 4 * n := by
  induction n with
  | zero => simp [neonF64Loop]
  | succ n ih =>
    rw [neonF64Loop_succ]
    simp only [neonF64Step, ih.1, ih.2]
    omega

theorem neonF64Loop_tot (n : ℕ) :
    tot2 (neonF64Loop wave index p n).acc0 + tot2 (neonF64Loop wave index p n).acc1 +
      tot2 (neonF64Loop wave index p n).acc2 + tot2 (neonF64Loop wave index p n).acc3 =
      ∑ k ∈ range (8 * n), rd wave index k * lane 2 p k := by
  induction n with
  | zero => simp [neonF64Loop, V2.zero, tot2]
  | succ n ih =>
    obtain ⟨hw, hs⟩ := neonF64Loop_idx wave index p n
    obtain ⟨h0, h1, h2, h3, h4, h5, h6, h7⟩ := lanes2 p n
    rw [neonF64Loop_succ, sum_range_8_succ, ← ih, h0, h1, h2, h3, h4, h5, h6, h7]
    simp only [neonF64Step, V2.vfma, V2.load, V2.ofList, tot2, hw, hs, Nat.add_assoc,
      Nat.reduceAdd]
    ring

theorem neonF64Finish_eq (a b c d : V2 α) :
    neonF64Finish a b c d = tot2 a + tot2 b + tot2 c + tot2 d := by
  simp only [neonF64Finish, V2.add, tot2]
  ring

theorem neonF64_eq (length : ℕ) :
    neonF64 wave index p length =
      ∑ k ∈ range (8 * (length / 8)), rd wave index k * lane 2 p k := by
  simp only [neonF64, neonF64Finish_eq, neonF64Loop_tot]

/-! #### AVX f32 -/

theorem lanes8 (n : ℕ) :
    lane 8 p (8 * n) = (p.getD n []).getD 0 0 ∧
    lane 8 p (8 * n + 1) = (p.getD n []).getD 1 0 ∧
    lane 8 p (8 * n + 2) = (p.getD n []).getD 2 0 ∧
    lane 8 p (8 * n + 3) = (p.getD n []).getD 3 0 ∧
    lane 8 p (8 * n + 4) = (p.getD n []).getD 4 0 ∧
    lane 8 p (8 * n + 5) = (p.getD n []).getD 5 0 ∧
    lane 8 p (8 * n + 6) = (p.getD n []).getD 6 0 ∧
    lane 8 p (8 * n + 7) = (p.getD n []).getD 7 0 := by
  refine ⟨?_, ?_, ?_, ?_, ?_, ?_, ?_, ?_⟩ <;> apply lane_eq <;> omega

theorem avxF32Loop_succ (n : ℕ) :
    avxF32Loop wave index p (n + 1) = avxF32Step wave index p (avxF32Loop wave index p n) n := by
  simp [avxF32Loop, List.range_succ]

theorem avxF32Loop_idx (n : ℕ) : (avxF32Loop wave index p n).w_idx = 8 * n := by
  induction n with
  | zero => simp [avxF32Loop]
  | succ n ih =>
    rw [avxF32Loop_succ]
    simp only [avxF32Step, ih]
    omega

theorem avxF32Loop_tot (n : ℕ) :
    tot8 (avxF32Loop wave index p n).acc = ∑ k ∈ range (8 * n), rd wave index k * lane 8 p k := by
  induction n with
  | zero => simp [avxF32Loop, V8.zero, tot8]
  | succ n ih =>
    have hw := avxF32Loop_idx wave index p n
    obtain ⟨h0, h1, h2, h3, h4, h5, h6, h7⟩ := lanes8 p n
    rw [avxF32Loop_succ, sum_range_8_succ, ← ih, h0, h1, h2, h3, h4, h5, h6, h7]
    simp only [avxF32Step, V8.fmadd, V8.load, V8.ofList, tot8, hw]
    ring

theorem avxF32Finish_eq (a : V8 α) : avxF32Finish a = tot8 a := by
  simp only [avxF32Finish, V8.high, V8.low, V4.add, V4.hadd, tot8]
  ring

theorem avxF32_eq (length : ℕ) :
    avxF32 wave index p length =
      ∑ k ∈ range (8 * (length / 8)), rd wave index k * lane 8 p k := by
  simp only [avxF32, avxF32Finish_eq, avxF32Loop_tot]

/-! #### scalar -/

theorem scalarLoop_tot (sinc : List α) (n : ℕ) :
    tot8 (scalarLoop wave index sinc n).acc =
      ∑ k ∈ range (8 * n), rd wave index k * sinc.getD k 0 := by
  induction n with
  | zero => simp [scalarLoop, V8.zero, tot8]
  | succ n ih =>
    have hw := scalarLoop_idx wave index sinc n
    rw [scalarLoop_succ, sum_range_8_succ, ← ih]
    simp only [scalarStep, tot8, hw]
    ring

theorem scalarFinish_eq (a : V8 α) : scalarFinish a = tot8 a := rfl

theorem scalar_eq (sinc : List α) :
    scalar wave index sinc =
      ∑ k ∈ range (8 * (sinc.length / 8)), rd wave index k * sinc.getD k 0 := by
  simp only [scalar, scalarFinish_eq, scalarLoop_tot]

/-! ### The kernels on a packed sinc: the plain dot product -/

/-- the plain dot product of `wave[index .. index + length)` with the taps -/
def dot (wave : List α) (index : ℕ) (sinc : List α) (length : ℕ) : α :=
  ∑ k ∈ range length, wave.getD (index + k) 0 * sinc.getD k 0

variable (sinc : List α)

/-- no hypothesis: the trailing `length % 8` taps are dropped -/
theorem avxF32_pack (length : ℕ) :
    avxF32 wave index (pack 8 sinc) length = dot wave index sinc (8 * (length / 8)) := by
  rw [avxF32_eq]
  exact sum_congr rfl fun k _ => by rw [lane_pack 8 (by omega)]; rfl

theorem avxF32_dot (length : ℕ) (h8 : 8 ∣ length) :
    avxF32 wave index (pack 8 sinc) length =
      ∑ k ∈ range length, wave.getD (index + k) 0 * sinc.getD k 0 := by
  rw [avxF32_pack, Nat.mul_div_cancel' h8]; rfl

/-- no hypothesis: the trailing `length % 8` taps are dropped -/
theorem avxF64_pack (length : ℕ) :
    avxF64 wave index (pack 4 sinc) length = dot wave index sinc (8 * (length / 8)) := by
  rw [avxF64_eq]
  exact sum_congr rfl fun k _ => by rw [lane_pack 4 (by omega)]; rfl

theorem avxF64_dot (length : ℕ) (h8 : 8 ∣ length) :
    avxF64 wave index (pack 4 sinc) length =
      ∑ k ∈ range length, wave.getD (index + k) 0 * sinc.getD k 0 := by
  rw [avxF64_pack, Nat.mul_div_cancel' h8]; rfl

/-- no hypothesis: the trailing `length % 8` taps are dropped -/
theorem sseF32_pack (length : ℕ) :
    sseF32 wave index (pack 4 sinc) length = dot wave index sinc (8 * (length / 8)) := by
  rw [sseF32_eq]
  exact sum_congr rfl fun k _ => by rw [lane_pack 4 (by omega)]; rfl

theorem sseF32_dot (length : ℕ) (h8 : 8 ∣ length) :
    sseF32 wave index (pack 4 sinc) length =
      ∑ k ∈ range length, wave.getD (index + k) 0 * sinc.getD k 0 := by
  rw [sseF32_pack, Nat.mul_div_cancel' h8]; rfl

/-- no hypothesis: the trailing `length % 8` taps are dropped -/
theorem sseF64_pack (length : ℕ) :
    sseF64 wave index (pack 2 sinc) length = dot wave index sinc (8 * (length / 8)) := by
  rw [sseF64_eq]
  exact sum_congr rfl fun k _ => by rw [lane_pack 2 (by omega)]; rfl

theorem sseF64_dot (length : ℕ) (h8 : 8 ∣ length) :
    sseF64 wave index (pack 2 sinc) length =
      ∑ k ∈ range length, wave.getD (index + k) 0 * sinc.getD k 0 := by
  rw [sseF64_pack, Nat.mul_div_cancel' h8]; rfl

/-- no hypothesis: the trailing `length % 8` taps are dropped -/
theorem neonF32_pack (length : ℕ) :
    neonF32 wave index (pack 4 sinc) length = dot wave index sinc (8 * (length / 8)) := by
  rw [neonF32_eq]
  exact sum_congr rfl fun k _ => by rw [lane_pack 4 (by omega)]; rfl

theorem neonF32_dot (length : ℕ) (h8 : 8 ∣ length) :
    neonF32 wave index (pack 4 sinc) length =
      ∑ k ∈ range length, wave.getD (index + k) 0 * sinc.getD k 0 := by
  rw [neonF32_pack, Nat.mul_div_cancel' h8]; rfl

/-- no hypothesis: the trailing `length % 8` taps are dropped -/
theorem neonF64_pack (length : ℕ) :
    neonF64 wave index (pack 2 sinc) length = dot wave index sinc (8 * (length / 8)) := by
  rw [neonF64_eq]
  exact sum_congr rfl fun k _ => by rw [lane_pack 2 (by omega)]; rfl

theorem neonF64_dot (length : ℕ) (h8 : 8 ∣ length) :
    neonF64 wave index (pack 2 sinc) length =
      ∑ k ∈ range length, wave.getD (index + k) 0 * sinc.getD k 0 := by
  rw [neonF64_pack, Nat.mul_div_cancel' h8]; rfl

theorem scalar_dot' : scalar wave index sinc = dot wave index sinc (8 * (sinc.length / 8)) := by
  rw [scalar_eq]; rfl

theorem scalar_dot (h8 : 8 ∣ sinc.length) :
    scalar wave index sinc =
      ∑ k ∈ range sinc.length, wave.getD (index + k) 0 * sinc.getD k 0 := by
  rw [scalar_dot', Nat.mul_div_cancel' h8]; rfl

/-- C15, value part, in exact arithmetic: with `sinc_len` a multiple of 8 (asserted by every
constructor) and every sub-filter of that length (`make_sincs`), the six SIMD kernels return what
the scalar kernel returns. -/
theorem all_kernels_agree (length : ℕ) (h8 : 8 ∣ length) (hs : sinc.length = length) :
    avxF32 wave index (pack 8 sinc) length = scalar wave index sinc ∧
    avxF64 wave index (pack 4 sinc) length = scalar wave index sinc ∧
    sseF32 wave index (pack 4 sinc) length = scalar wave index sinc ∧
    sseF64 wave index (pack 2 sinc) length = scalar wave index sinc ∧
    neonF32 wave index (pack 4 sinc) length = scalar wave index sinc ∧
    neonF64 wave index (pack 2 sinc) length = scalar wave index sinc := by
  have hsc := scalar_dot wave index sinc (hs ▸ h8)
  rw [hs] at hsc
  rw [hsc]
  exact ⟨avxF32_dot wave index sinc length h8, avxF64_dot wave index sinc length h8,
    sseF32_dot wave index sinc length h8, sseF64_dot wave index sinc length h8,
    neonF32_dot wave index sinc length h8, neonF64_dot wave index sinc length h8⟩

/-! ### Reads -/

theorem flatMap_blocks (index n : ℕ) :
    ((List.range n).flatMap fun b => List.range' (index + 8 * b) 8) = List.range' index (8 * n) := by
  induction n with
  | zero => simp
  | succ n ih =>
    rw [List.range_succ, List.flatMap_append, ih]
    simp only [List.flatMap_cons, List.flatMap_nil, List.append_nil]
    rw [List.range'_append_1, Nat.mul_succ]

theorem readsScalar_eq (index n : ℕ) : readsScalar index n = List.range' index (8 * n) := by
  rw [← flatMap_blocks]; rfl

theorem reads1x8_eq (index length : ℕ) :
    reads1x8 index length = List.range' index (8 * (length / 8)) := by
  rw [← flatMap_blocks]; rfl

theorem reads2x4_eq (index length : ℕ) :
    reads2x4 index length = List.range' index (8 * (length / 8)) := by
  rw [← flatMap_blocks]; rfl

theorem reads4x2_eq (index length : ℕ) :
    reads4x2 index length = List.range' index (8 * (length / 8)) := by
  rw [← flatMap_blocks]; rfl

theorem sum_rd_congr (wave wave' : List α) (index : ℕ) (g : ℕ → α) (N : ℕ)
    (h : ∀ k < N, wave.getD (index + k) 0 = wave'.getD (index + k) 0) :
    ∑ k ∈ range N, rd wave index k * g k = ∑ k ∈ range N, rd wave' index k * g k :=
  sum_congr rfl fun k hk => by
    unfold rd; rw [h k (mem_range.mp hk)]

variable (wave' : List α)

/-- the result depends on `wave` only through the indices listed by `reads1x8` (any `p`, any `length`) -/
theorem avxF32_reads (length : ℕ)
    (h : ∀ i ∈ reads1x8 index length, wave.getD i 0 = wave'.getD i 0) :
    avxF32 wave index p length = avxF32 wave' index p length := by
  rw [avxF32_eq, avxF32_eq]
  refine sum_rd_congr wave wave' index _ _ fun k hk => h _ ?_
  rw [reads1x8_eq, List.mem_range'_1]; omega

theorem avxF32_reads_exactly (length : ℕ)
    (h : ∀ k < length, wave.getD (index + k) 0 = wave'.getD (index + k) 0) :
    avxF32 wave index p length = avxF32 wave' index p length := by
  rw [avxF32_eq, avxF32_eq]
  refine sum_rd_congr wave wave' index _ _ fun k hk => h k ?_
  have := Nat.mul_div_le length 8; omega

/-- the result depends on `wave` only through the indices listed by `reads2x4` (any `p`, any `length`) -/
theorem avxF64_reads (length : ℕ)
    (h : ∀ i ∈ reads2x4 index length, wave.getD i 0 = wave'.getD i 0) :
    avxF64 wave index p length = avxF64 wave' index p length := by
  rw [avxF64_eq, avxF64_eq]
  refine sum_rd_congr wave wave' index _ _ fun k hk => h _ ?_
  rw [reads2x4_eq, List.mem_range'_1]; omega

theorem avxF64_reads_exactly (length : ℕ)
    (h : ∀ k < length, wave.getD (index + k) 0 = wave'.getD (index + k) 0) :
    avxF64 wave index p length = avxF64 wave' index p length := by
  rw [avxF64_eq, avxF64_eq]
  refine sum_rd_congr wave wave' index _ _ fun k hk => h k ?_
  have := Nat.mul_div_le length 8; omega

/-- the result depends on `wave` only through the indices listed by `reads2x4` (any `p`, any `length`) -/
theorem sseF32_reads (length : ℕ)
    (h : ∀ i ∈ reads2x4 index length, wave.getD i 0 = wave'.getD i 0) :
    sseF32 wave index p length = sseF32 wave' index p length := by
  rw [sseF32_eq, sseF32_eq]
  refine sum_rd_congr wave wave' index _ _ fun k hk => h _ ?_
  rw [reads2x4_eq, List.mem_range'_1]; omega

theorem sseF32_reads_exactly (length : ℕ)
    (h : ∀ k < length, wave.getD (index + k) 0 = wave'.getD (index + k) 0) :
    sseF32 wave index p length = sseF32 wave' index p length := by
  rw [sseF32_eq, sseF32_eq]
  refine sum_rd_congr wave wave' index _ _ fun k hk => h k ?_
  have := Nat.mul_div_le length 8; omega

/-- the result depends on `wave` only through the indices listed by `reads4x2` (any `p`, any `length`) -/
theorem sseF64_reads (length : ℕ)
    (h : ∀ i ∈ reads4x2 index length, wave.getD i 0 = wave'.getD i 0) :
    sseF64 wave index p length = sseF64 wave' index p length := by
  rw [sseF64_eq, sseF64_eq]
  refine sum_rd_congr wave wave' index _ _ fun k hk => h _ ?_
  rw [reads4x2_eq, List.mem_range'_1]; omega

theorem sseF64_reads_exactly (length : ℕ)
    (h : ∀ k < length, wave.getD (index + k) 0 = wave'.getD (index + k) 0) :
    sseF64 wave index p length = sseF64 wave' index p length := by
  rw [sseF64_eq, sseF64_eq]
  refine sum_rd_congr wave wave' index _ _ fun k hk => h k ?_
  have := Nat.mul_div_le length 8; omega

/-- the result depends on `wave` only through the indices listed by `reads2x4` (any `p`, any `length`) -/
theorem neonF32_reads (length : ℕ)
    (h : ∀ i ∈ reads2x4 index length, wave.getD i 0 = wave'.getD i 0) :
    neonF32 wave index p length = neonF32 wave' index p length := by
  rw [neonF32_eq, neonF32_eq]
  refine sum_rd_congr wave wave' index _ _ fun k hk => h _ ?_
  rw [reads2x4_eq, List.mem_range'_1]; omega

theorem neonF32_reads_exactly (length : ℕ)
    (h : ∀ k < length, wave.getD (index + k) 0 = wave'.getD (index + k) 0) :
    neonF32 wave index p length = neonF32 wave' index p length := by
  rw [neonF32_eq, neonF32_eq]
  refine sum_rd_congr wave wave' index _ _ fun k hk => h k ?_
  have := Nat.mul_div_le length 8; omega

/-- the result depends on `wave` only through the indices listed by `reads4x2` (any `p`, any `length`) -/
theorem neonF64_reads (length : ℕ)
    (h : ∀ i ∈ reads4x2 index length, wave.getD i 0 = wave'.getD i 0) :
    neonF64 wave index p length = neonF64 wave' index p length := by
  rw [neonF64_eq, neonF64_eq]
  refine sum_rd_congr wave wave' index _ _ fun k hk => h _ ?_
  rw [reads4x2_eq, List.mem_range'_1]; omega

theorem neonF64_reads_exactly (length : ℕ)
    (h : ∀ k < length, wave.getD (index + k) 0 = wave'.getD (index + k) 0) :
    neonF64 wave index p length = neonF64 wave' index p length := by
  rw [neonF64_eq, neonF64_eq]
  refine sum_rd_congr wave wave' index _ _ fun k hk => h k ?_
  have := Nat.mul_div_le length 8; omega

theorem scalar_reads
    (h : ∀ i ∈ readsScalar index (sinc.length / 8), wave.getD i 0 = wave'.getD i 0) :
    scalar wave index sinc = scalar wave' index sinc := by
  rw [scalar_eq, scalar_eq]
  refine sum_rd_congr wave wave' index _ _ fun k hk => h _ ?_
  rw [readsScalar_eq, List.mem_range'_1]; omega

theorem scalar_reads_exactly
    (h : ∀ k < sinc.length, wave.getD (index + k) 0 = wave'.getD (index + k) 0) :
    scalar wave index sinc = scalar wave' index sinc := by
  rw [scalar_eq, scalar_eq]
  refine sum_rd_congr wave wave' index _ _ fun k hk => h k ?_
  have := Nat.mul_div_le sinc.length 8; omega

/-- C15, reads part: two waveforms that agree on `wave[index .. index + length)` give the same
result in all seven kernels (any packed sinc, any `length`, no divisibility hypothesis). -/
theorem reads_exactly (p8 p4 p2 : List (List α)) (length : ℕ) (hs : sinc.length = length)
    (h : ∀ k < length, wave.getD (index + k) 0 = wave'.getD (index + k) 0) :
    scalar wave index sinc = scalar wave' index sinc ∧
    avxF32 wave index p8 length = avxF32 wave' index p8 length ∧
    avxF64 wave index p4 length = avxF64 wave' index p4 length ∧
    sseF32 wave index p4 length = sseF32 wave' index p4 length ∧
    sseF64 wave index p2 length = sseF64 wave' index p2 length ∧
    neonF32 wave index p4 length = neonF32 wave' index p4 length ∧
    neonF64 wave index p2 length = neonF64 wave' index p2 length :=
  ⟨scalar_reads_exactly wave index sinc wave' (hs ▸ h),
   avxF32_reads_exactly wave index p8 wave' length h,
   avxF64_reads_exactly wave index p4 wave' length h,
   sseF32_reads_exactly wave index p4 wave' length h,
   sseF64_reads_exactly wave index p2 wave' length h,
   neonF32_reads_exactly wave index p4 wave' length h,
   neonF64_reads_exactly wave index p2 wave' length h⟩

end Kernels

/-! ### Bridge to the executable scalar kernel of `RubatoModel/SincTable.lean`

Law-free: holds for every instance of `SNum` (in particular the IEEE ones), with `T::zero()` read as
the literal `0` of the kernel models. -/

section Bridge
open Rubato
variable {ρ σ : Type} [SNum ρ σ]

/-- `T::zero()` as the literal `0` of the kernel models -/
@[reducible] def zeroOfSNum : OfNat σ 0 := ⟨SNum.zero⟩

theorem range8 : Array.range 8 = #[0, 1, 2, 3, 4, 5, 6, 7] := by decide

def V8toArray (a : V8 σ) : Array σ := #[a.x0, a.x1, a.x2, a.x3, a.x4, a.x5, a.x6, a.x7]

theorem getD_toList (a : Array σ) (i : ℕ) (z : σ) : a.toList.getD i z = a.getD i z := by
  simp [List.getD_eq_getElem?_getD, Array.getD_eq_getD_getElem?]

attribute [local instance] zeroOfSNum in
theorem arrLoop_eq (wave sinc : Array σ) (index n : ℕ) :
    (List.range n).foldl (fun (a : Array σ) blk =>
        (Array.range 8).map fun j =>
          a.getD j SNum.zero +
            wave.getD (index + 8 * blk + j) SNum.zero * sinc.getD (8 * blk + j) SNum.zero)
      (Array.replicate 8 SNum.zero)
    = V8toArray (scalarLoop wave.toList index sinc.toList n).acc := by
  induction n with
  | zero => simp [scalarLoop, V8.zero, V8toArray]; rfl
  | succ n ih =>
    have hw := scalarLoop_idx wave.toList index sinc.toList n
    have z0 : (0 : σ) = SNum.zero := rfl
    rw [List.range_succ, List.foldl_append, ih, scalarLoop_succ]
    simp only [List.foldl_cons, List.foldl_nil, range8, scalarStep, hw, rd, getD_toList, V8toArray]
    simp [Nat.add_assoc, z0]

attribute [local instance] zeroOfSNum in
/-- `Rubato.scalarDot` (the kernel the executable model runs) is `Rubato.Kern.scalar` -/
theorem scalarDot_eq_scalar (sincs : Array (Array σ)) (wave : Array σ) (index sub : ℕ) :
    scalarDot sincs wave index sub = scalar wave.toList index (sincs.getD sub #[]).toList := by
  unfold scalarDot scalar
  simp only [arrLoop_eq, Array.length_toList]
  simp [V8toArray, scalarFinish]

end Bridge

/-! ### Non-vacuity -/

section Examples

/-- window `wave[1..17)` = 1..16, garbage at 0 and 17 -/
def w16 : List ℤ := [100, 1, 2, 3, 4, 5, 6, 7, 8, 9, 10, 11, 12, 13, 14, 15, 16, 999]
/-- same window, other garbage, longer -/
def w16' : List ℤ := [-7, 1, 2, 3, 4, 5, 6, 7, 8, 9, 10, 11, 12, 13, 14, 15, 16, 12345, 5, 5]
def s16 : List ℤ := [1, -2, 3, -4, 5, -6, 7, -8, 9, -10, 11, -12, 13, -14, 15, -16]

example : pack 4 s16 = [[1, -2, 3, -4], [5, -6, 7, -8], [9, -10, 11, -12], [13, -14, 15, -16]] := by
  decide
example : pack 8 s16 = [[1, -2, 3, -4, 5, -6, 7, -8], [9, -10, 11, -12, 13, -14, 15, -16]] := by
  decide
example : (pack 2 s16).flatten = s16 ∧ (pack 2 s16).length = 8 := by decide
/-- not divisible: last register short (Rust would load past the chunk) -/
example : pack 4 [1, 2, 3, 4, 5, 6] = [[1, 2, 3, 4], [5, 6]] := by decide

example : scalar w16 1 s16 = -136 := by decide
example : avxF32 w16 1 (pack 8 s16) 16 = -136 := by decide
example : avxF64 w16 1 (pack 4 s16) 16 = -136 := by decide
example : sseF32 w16 1 (pack 4 s16) 16 = -136 := by decide
example : sseF64 w16 1 (pack 2 s16) 16 = -136 := by decide
example : neonF32 w16 1 (pack 4 s16) 16 = -136 := by decide
example : neonF64 w16 1 (pack 2 s16) 16 = -136 := by decide
example : ∑ k ∈ range 16, w16.getD (1 + k) 0 * s16.getD k 0 = -136 := by decide

/-- garbage outside the window is not seen -/
example : avxF64 w16' 1 (pack 4 s16) 16 = avxF64 w16 1 (pack 4 s16) 16 := by decide
example : sseF64 w16' 1 (pack 2 s16) 16 = -136 := by decide
/-- ... but a different start index does see other samples -/
example : avxF64 w16 0 (pack 4 s16) 16 ≠ avxF64 w16 1 (pack 4 s16) 16 := by decide
/-- the hypotheses of the theorems are satisfiable, and the instances found at `ℤ` are the ones
the theorems speak about -/
example : avxF32 w16 1 (pack 8 s16) 16 = scalar w16 1 s16 :=
  (all_kernels_agree w16 1 s16 16 ⟨2, rfl⟩ rfl).1
example : sseF64 w16 1 (pack 2 s16) 16 = sseF64 w16' 1 (pack 2 s16) 16 :=
  sseF64_reads_exactly w16 1 _ w16' 16 (by decide)
/-- `length` not a multiple of 8: the last `length % 8` taps are dropped by every SIMD kernel -/
example : avxF64 w16 1 (pack 4 s16) 12 = ∑ k ∈ range 8, w16.getD (1 + k) 0 * s16.getD k 0 := by
  decide
example : reads2x4 1 16 = List.range' 1 16 ∧ reads4x2 1 16 = reads1x8 1 16 := by decide

end Examples

end Rubato.KernProofs
