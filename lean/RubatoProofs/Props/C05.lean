/-
C05 — Output stream is independent of chunking and of the FixedIn/FixedOut variant.

* FFT types [law-free in the unit]: for ANY per-block resampler `u` (any function of an input block and the overlap state
  whose output blocks have `fft_out` frames), FftFixedIn, FftFixedOut and FftFixedInOut with the same `(fft_in, fft_out)`
  emit prefixes of one and the same reference stream — the concatenation of `u` over the consecutive full blocks of the
  concatenated input — whatever the chunk size / sub-chunk parameters and however the calls cut the input; the frames held
  back (`saved_frames`) are exactly the not-yet-processed input (FixedIn) or the not-yet-delivered output (FixedOut): no
  frame lost, duplicated or stale at a `saved_frames` boundary.  (Single channel; channels are independent by C11.)
* Asynchronous types [exact]: the evaluation instants are chunking-independent and identical for the fixed-input and the
  fixed-output variant (both start at `−L/2`, advance by `1/ratio` per output frame: potential identities of C07), and the
  data-plane refinement to the stream specification (`RubatoProofs/Async/Stream.lean`).
Not covered: floating-point differences between chunkings (position arithmetic is re-associated by the carry); at exact
ties of the sub-filter grid the sinc types can pick a neighbouring sub-filter (finding D16).
-/
import RubatoProofs.Fft.Routing
import RubatoProofs.Async.FixedIn
import RubatoProofs.Async.FixedOut
import RubatoProofs.Async.Stream
import RubatoModel.FftUnitModel
import RubatoProofs.Lemmas.StorageTie

set_option linter.unusedSectionVars false
set_option linter.unusedVariables false

namespace Rubato.C05
open Rubato Rubato.FftProofs

variable {σ υ : Type}

/-- FftFixedIn: the output stream IS the reference stream of the input consumed so far, block for block, and the
`saved` frames at the front of the internal buffer are exactly the input after the last full block -/
theorem fftIn_stream_is_reference {u : FftUnit σ υ} {z : σ} {ri ro chunk sub : Nat} {s : FState σ υ}
    (h : FState.init DivArith.exact u z .fftIn ri ro chunk sub 1 = .ok s)
    (hu : ∀ st b, b.length = s.fftIn → (u.run st b).1.length = s.fftOut)
    (cs : List (Call σ)) (hv : ValidHist u s cs) (ha : Active1 cs) :
    (runStream u s ([], []) cs).2.2 = refStream u s.fftIn u.init (runStream u s ([], []) cs).2.1 ∧
    (∃ buf, (runStream u s ([], []) cs).1.store = [buf] ∧
      buf.take (runStream u s ([], []) cs).1.saved = pending s.fftIn (runStream u s ([], []) cs).2.1) :=
  ⟨(fftIn_stream h hu cs hv ha).1, (fftIn_stream h hu cs hv ha).2.1⟩

/-- FftFixedOut: delivered frames ++ saved frames = reference stream of the input consumed; in particular the delivered
frames are a prefix of it -/
theorem fftOut_stream_is_reference_prefix {u : FftUnit σ υ} {z : σ} {ri ro chunk sub : Nat} {s : FState σ υ}
    (h : FState.init DivArith.exact u z .fftOut ri ro chunk sub 1 = .ok s)
    (hu : ∀ st b, b.length = s.fftIn → (u.run st b).1.length = s.fftOut)
    (cs : List (Call σ)) (hv : ValidHist u s cs) (ha : Active1 cs) :
    ∃ buf, (runStream u s ([], []) cs).1.store = [buf] ∧
      (runStream u s ([], []) cs).2.2 ++ buf.take (runStream u s ([], []) cs).1.saved =
        refStream u s.fftIn u.init (runStream u s ([], []) cs).2.1 ∧
      (runStream u s ([], []) cs).2.2 =
        (refStream u s.fftIn u.init (runStream u s ([], []) cs).2.1).take (runStream u s ([], []) cs).2.2.length := by
  obtain ⟨⟨buf, h1, h2, h3, -⟩, -⟩ := fftOut_stream h hu cs hv ha
  exact ⟨buf, h1, h2, h3⟩

/-- FftFixedInOut: the output stream is the reference stream of the input -/
theorem fftIo_stream_is_reference {u : FftUnit σ υ} {z : σ} {ri ro chunk sub : Nat} {s : FState σ υ}
    (h : FState.init DivArith.exact u z .fftIo ri ro chunk sub 1 = .ok s)
    (hu : ∀ st b, b.length = s.fftIn → (u.run st b).1.length = s.fftOut)
    (cs : List (Call σ)) (hv : ValidHist u s cs) (ha : Active1 cs) :
    (runStream u s ([], []) cs).2.2 = refStream u s.fftIn u.init (runStream u s ([], []) cs).2.1 :=
  (fftIo_stream h hu cs hv ha).1

/-- the reference stream is compositional: feeding more input only appends (so two runs whose consumed inputs are prefixes
of a common stream produce prefixes of a common output stream) -/
theorem reference_stream_extends (u : FftUnit σ υ) (n : Nat) (hn : 0 < n) (st : υ) (l x : List σ) :
    refStream u n st (l ++ x) = refStream u n st l ++ refStream u n (refState u n st l) (pending n l ++ x) :=
  (ref_append u hn st l x).1

/-- hence: FixedIn (any chunk size and sub-chunk count) and FixedInOut with the same block sizes, fed the same stream,
emit the same frames — on the input each has consumed so far the outputs are the SAME function `refStream` -/
theorem fftIn_and_fftIo_same_function {u : FftUnit σ υ} {z : σ} {ri ro c1 sub1 c2 sub2 : Nat}
    {s1 s2 : FState σ υ}
    (h1 : FState.init DivArith.exact u z .fftIn ri ro c1 sub1 1 = .ok s1)
    (h2 : FState.init DivArith.exact u z .fftIo ri ro c2 sub2 1 = .ok s2)
    (hsame : s1.fftIn = s2.fftIn ∧ s1.fftOut = s2.fftOut)
    (hu : ∀ st b, b.length = s1.fftIn → (u.run st b).1.length = s1.fftOut)
    (cs1 cs2 : List (Call σ)) (hv1 : ValidHist u s1 cs1) (ha1 : Active1 cs1)
    (hv2 : ValidHist u s2 cs2) (ha2 : Active1 cs2)
    (hin : (runStream u s1 ([], []) cs1).2.1 = (runStream u s2 ([], []) cs2).2.1) :
    (runStream u s1 ([], []) cs1).2.2 = (runStream u s2 ([], []) cs2).2.2 := by
  have e1 := (fftIn_stream h1 hu cs1 hv1 ha1).1
  have e2 := (fftIo_stream h2 (by rw [← hsame.1, ← hsame.2]; exact hu) cs2 hv2 ha2).1
  rw [e1, e2, hin, hsame.1]

/-! ### the modelled `resample_unit` (naive-DFT twin, `FftUnitModel.lean`) is such a unit

[law-free] The three stream theorems above take ANY unit whose output blocks have `fft_out` frames.  The unit the driver
runs against the real crate (filter spectrum, spectrum product, inverse transform, overlap-add) meets that hypothesis for
every arithmetic instance, so they apply to it: what the correspondence compares sample by sample is an instance of the
`u` of the theorems. -/

theorem modelled_unit_block_length {ρ σ : Type} [RNum ρ] [SNum ρ σ] [STrig σ] (t : UnitTables σ) (fi : Nat) :
    ∀ (st : Array σ) (b : List σ), b.length = fi →
      ((UnitTables.unit (ρ := ρ) t).run st b).1.length = t.fftOut :=
  fun st b _ => UnitTables.run_length (ρ := ρ) t st b

/-- FftFixedInOut over the modelled unit: output stream = reference stream of the input, for every history -/
theorem fftIo_stream_is_reference_modelled_unit {ρ σ : Type} [RNum ρ] [SNum ρ σ] [STrig σ]
    (t : UnitTables σ) {z : σ} {ri ro chunk sub : Nat} {s : FState σ (Array σ)}
    (h : FState.init DivArith.exact (UnitTables.unit (ρ := ρ) t) z .fftIo ri ro chunk sub 1 = .ok s)
    (ht : t.fftOut = s.fftOut)
    (cs : List (Call σ)) (hv : ValidHist (UnitTables.unit (ρ := ρ) t) s cs) (ha : Active1 cs) :
    (runStream (UnitTables.unit (ρ := ρ) t) s ([], []) cs).2.2 =
      refStream (UnitTables.unit (ρ := ρ) t) s.fftIn (UnitTables.unit (ρ := ρ) t).init
        (runStream (UnitTables.unit (ρ := ρ) t) s ([], []) cs).2.1 :=
  fftIo_stream_is_reference h (fun st b hb => by rw [← ht]; exact modelled_unit_block_length (ρ := ρ) t _ st b hb) cs hv ha

/-- FftFixedIn over the modelled unit -/
theorem fftIn_stream_is_reference_modelled_unit {ρ σ : Type} [RNum ρ] [SNum ρ σ] [STrig σ]
    (t : UnitTables σ) {z : σ} {ri ro chunk sub : Nat} {s : FState σ (Array σ)}
    (h : FState.init DivArith.exact (UnitTables.unit (ρ := ρ) t) z .fftIn ri ro chunk sub 1 = .ok s)
    (ht : t.fftOut = s.fftOut)
    (cs : List (Call σ)) (hv : ValidHist (UnitTables.unit (ρ := ρ) t) s cs) (ha : Active1 cs) :
    (runStream (UnitTables.unit (ρ := ρ) t) s ([], []) cs).2.2 =
      refStream (UnitTables.unit (ρ := ρ) t) s.fftIn (UnitTables.unit (ρ := ρ) t).init
        (runStream (UnitTables.unit (ρ := ρ) t) s ([], []) cs).2.1 :=
  (fftIn_stream_is_reference h (fun st b hb => by rw [← ht]; exact modelled_unit_block_length (ρ := ρ) t _ st b hb) cs hv ha).1

/-! ### asynchronous types: instants do not depend on the chunking nor on the variant -/

/-- fixed-input, constant ratio: one call moves `consumed + last_index` by exactly `(frames emitted)/r` -/
theorem fixedIn_instants_chunking_independent {r : ℚ} (hr : 0 < r) (c L : ℕ) {fuel : ℕ} {last : ℚ} (consumed : ℚ)
    (hf : FixedIn.nC c L r last ≤ fuel) :
    (consumed + c) + FixedIn.nextLast c L r r fuel last =
      consumed + last + ((FixedIn.callIn c L r r fuel last).1.length : ℚ) * (1 / r) :=
  FixedIn.potential_step hr c L hf consumed

/-- fixed-output: one call moves `consumed + last_index` by the advance `c/r` (constant ratio) — the same law -/
theorem fixedOut_instants_chunking_independent {c : ℕ} (hc : 0 < c) (t last : ℚ) :
    stepsOutLast ((t - t) / c) c t last = last + c * t := by
  rw [FixedOut.stepsOutLast_eq_advance hc]
  unfold FixedOut.advance; ring

end Rubato.C05

namespace Rubato.C05
open Rubato Rubato.Stream

/-! ### asynchronous types: the data-plane refinement (RubatoProofs/Async/Stream*.lean) -/

/-- **stream specification.**  For any run of successful single-channel calls at constant ratio from a fresh resampler —
any chunk sizes, any `set_chunk_size` schedule, inputs longer than needed — the `j`-th output frame overall is the kernel
(generated Lagrange formula, or the blend of LOCAL interpolator values) applied to the concatenated input (extended by
zeros to the left, and by ANY continuation `Y` to the right) at the instant `−L/2 + (j+1)/ratio`: a function of the
concatenated input, the parameters and the ratio only. -/
theorem async_output_is_stream_spec {kind : AKind} {r maxRel : ℚ} {deg : Degree} {sint : SincInterp}
    {ip : Interp ℚ} {chunk : ℕ} {s0 s : AState ℚ ℚ} {X O : List ℚ}
    (hinit : AState.init kind r maxRel deg sint ip chunk 1 = .ok s0)
    (hc : kind.isFixedIn = false → 0 < chunk) (hev : kind = .sincOut → 2 ∣ ip.len)
    (hloc : kind.isSinc = true → Local ip)
    (hrun : Run s0 s X O) (Y : List ℚ) (j : ℕ) (hj : j < O.length) :
    O.getD j 0 = specOf kind.isSinc deg sint ip (Xz (X ++ Y))
      (-((Lof kind ip / 2 : ℕ) : ℚ) + ((j : ℚ) + 1) / r) :=
  stream_spec_ext hinit hc hev hloc hrun Y j hj

/-- **chunking / variant independence.**  Two runs of the same algorithm at the same ratio — fixed-input or fixed-output,
any chunk sizes, any chunk-size schedules — whose consumed inputs are prefixes of one stream agree frame by frame on their
common prefix: nothing is lost, duplicated or taken from stale storage at a chunk boundary. -/
theorem async_chunking_and_variant_independent {kind1 kind2 : AKind} (hsame : kind1.isSinc = kind2.isSinc)
    {r maxRel1 maxRel2 : ℚ} {deg : Degree} {sint : SincInterp} {ip : Interp ℚ}
    {chunk1 chunk2 : ℕ} {s1 s2 t1 t2 : AState ℚ ℚ} {X1 X2 O1 O2 S : List ℚ}
    (hinit1 : AState.init kind1 r maxRel1 deg sint ip chunk1 1 = .ok s1)
    (hinit2 : AState.init kind2 r maxRel2 deg sint ip chunk2 1 = .ok s2)
    (hc1 : kind1.isFixedIn = false → 0 < chunk1) (hc2 : kind2.isFixedIn = false → 0 < chunk2)
    (hev : kind1 = .sincOut ∨ kind2 = .sincOut → 2 ∣ ip.len)
    (hloc : kind1.isSinc = true → Local ip)
    (hrun1 : Run s1 t1 X1 O1) (hrun2 : Run s2 t2 X2 O2)
    (hp1 : X1 <+: S) (hp2 : X2 <+: S) (j : ℕ) (hj1 : j < O1.length) (hj2 : j < O2.length) :
    O1.getD j 0 = O2.getD j 0 :=
  chunking_independent hsame hinit1 hinit2 hc1 hc2 hev hloc hrun1 hrun2 hp1 hp2 j hj1 hj2

/-- the internal buffer always holds exactly the last `2L + fill` frames of the concatenated input (zeros before the start),
and `last_index + consumed = −L/2 + produced/ratio` -/
theorem async_buffer_and_clock {kind : AKind} {r maxRel : ℚ} {deg : Degree} {sint : SincInterp}
    {ip : Interp ℚ} {chunk : ℕ} {s0 s : AState ℚ ℚ} {X O : List ℚ}
    (hinit : AState.init kind r maxRel deg sint ip chunk 1 = .ok s0)
    (hc : kind.isFixedIn = false → 0 < chunk) (hev : kind = .sincOut → 2 ∣ ip.len)
    (hloc : kind.isSinc = true → Local ip) (hrun : Run s0 s X O) :
    s.lastIndex + (X.length : ℚ) = -((Lof kind ip / 2 : ℕ) : ℚ) + (O.length : ℚ) / r ∧ BufOK s X :=
  stream_clock hinit hc hev hloc hrun

/-- the crate's scalar kernel (as modelled, bit for bit) satisfies the locality hypothesis -/
theorem scalar_kernel_is_local (t : Array (Array ℚ)) (len nbr : ℕ)
    (h : ∀ sub : ℕ, (t.getD sub #[]).size ≤ len) :
    Local ⟨len, nbr, scalarDot t⟩ :=
  scalarDot_local t len nbr h

end Rubato.C05

namespace Rubato.C05
open Rubato Rubato.Gen

/-- tie G14: what a call keeps of the previous calls and where it puts the new frames is the source text: every
asynchronous `process_into_buffer` first moves TWO filter lengths of history from the end of what the previous call loaded
(`chunk_size` on FastFixedIn, `current_buffer_fill` elsewhere) to the front of every channel's buffer, then copies exactly
`input_frames_next()` frames of each active channel behind them — the `shiftFrom`, `2L`, `minIn` of the model's `refill`.
Everything the chunking-independence theorems assume about the carry between calls. -/
theorem history_carry_is_the_source_text {ρ σ : Type} [RNum ρ] [SNum ρ σ] (s : AState ρ σ) (fill chunk needed L : Nat) :
    (Refill.fastIn_carry_to (ρ := ρ) chunk = Refill.fastIn_carry_from (ρ := ρ) chunk + 2 * Fast.polyLen ∧
     Refill.fastOut_carry_to (ρ := ρ) fill = Refill.fastOut_carry_from (ρ := ρ) fill + 2 * Fast.polyLen ∧
     Refill.sincIn_carry_to (ρ := ρ) fill L = Refill.sincIn_carry_from (ρ := ρ) fill + 2 * L ∧
     Refill.sincOut_carry_to (ρ := ρ) fill L = Refill.sincOut_carry_from (ρ := ρ) fill + 2 * L) ∧
    (Refill.fastIn_carry_dest (ρ := ρ) = 0 ∧ Refill.fastOut_carry_dest (ρ := ρ) = 0 ∧
     Refill.sincIn_carry_dest (ρ := ρ) = 0 ∧ Refill.sincOut_carry_dest (ρ := ρ) = 0) ∧
    (Refill.fastIn_load_from (ρ := ρ) = 2 * Fast.polyLen ∧ Refill.fastOut_load_from (ρ := ρ) = 2 * Fast.polyLen ∧
     Refill.sincIn_load_from (ρ := ρ) L = 2 * L ∧ Refill.sincOut_load_from (ρ := ρ) L = 2 * L) ∧
    (Refill.fastIn_load_to (ρ := ρ) chunk = Refill.fastIn_load_from (ρ := ρ) + Refill.fastIn_load_len (ρ := ρ) chunk ∧
     Refill.fastOut_load_to (ρ := ρ) needed = Refill.fastOut_load_from (ρ := ρ) + Refill.fastOut_load_len (ρ := ρ) needed ∧
     Refill.sincIn_load_to (ρ := ρ) L chunk = Refill.sincIn_load_from (ρ := ρ) L + Refill.sincIn_load_len (ρ := ρ) chunk ∧
     Refill.sincOut_load_to (ρ := ρ) L needed = Refill.sincOut_load_from (ρ := ρ) L + Refill.sincOut_load_len (ρ := ρ) needed) ∧
    (s.shiftFrom = (match s.kind with
      | .fastIn => Refill.fastIn_carry_from (ρ := ρ) s.chunk
      | .fastOut => Refill.fastOut_carry_from (ρ := ρ) s.fill
      | .sincIn => Refill.sincIn_carry_from (ρ := ρ) s.fill
      | .sincOut => Refill.sincOut_carry_from (ρ := ρ) s.fill) ∧
     s.minIn = (match s.kind with
      | .fastIn => Refill.fastIn_load_len (ρ := ρ) s.chunk
      | .fastOut => Refill.fastOut_load_len (ρ := ρ) s.needed
      | .sincIn => Refill.sincIn_load_len (ρ := ρ) s.chunk
      | .sincOut => Refill.sincOut_load_len (ρ := ρ) s.needed)) :=
  ⟨⟨rfl, rfl, rfl, rfl⟩, ⟨rfl, rfl, rfl, rfl⟩, ⟨rfl, rfl, rfl, rfl⟩, ⟨rfl, rfl, rfl, rfl⟩,
   StorageTie.model_refill_arguments s⟩

/-- the buffer-maintenance formulas read the fields one expects -/
theorem refill_formulas_read_the_expected_fields_C05 :
    Refill.refillParams.map (fun p => p.1) =
      ["fastIn_carry_from", "fastIn_carry_to", "fastIn_carry_dest", "fastIn_load_from", "fastIn_load_to", "fastIn_load_len",
       "fastOut_carry_from", "fastOut_carry_to", "fastOut_carry_dest", "fastOut_load_from", "fastOut_load_to",
       "fastOut_load_len", "sincIn_carry_from", "sincIn_carry_to", "sincIn_carry_dest", "sincIn_load_from",
       "sincIn_load_to", "sincIn_load_len", "sincOut_carry_from", "sincOut_carry_to", "sincOut_carry_dest",
       "sincOut_load_from", "sincOut_load_to", "sincOut_load_len"] ∧
    Refill.refillParams.map (fun p => p.2) =
      [["chunk_size"], ["chunk_size"], [], [], ["chunk_size"], ["chunk_size"],
       ["current_buffer_fill"], ["current_buffer_fill"], [], [], ["needed_input_size"], ["needed_input_size"],
       ["current_buffer_fill"], ["current_buffer_fill", "sinc_len"], [], ["sinc_len"], ["sinc_len", "chunk_size"], ["chunk_size"],
       ["current_buffer_fill"], ["current_buffer_fill", "sinc_len"], [], ["sinc_len"], ["sinc_len", "needed_input_size"],
       ["needed_input_size"]] := by
  decide

end Rubato.C05

namespace Rubato.C05
open Rubato Rubato.Gen

/-- tie G15: how the three synchronous types move frames between the caller's buffers, their staging buffers and the
per-block unit is the source text (slice bounds, block lengths, where new frames are stored, which frames are carried over
and where to, and the two counts each call reports) — the bookkeeping the reference-stream theorems above are about. -/
theorem fft_data_movement_is_the_source_text {ρ : Type} [RNum ρ]
    (saved ci co fi fo nextSaved nReady used neededLen extra needed processed saved' : Nat) :
    (Moves.fftIo_unit_in_len (ρ := ρ) ci = ci ∧ Moves.fftIo_unit_out_len (ρ := ρ) co = co ∧
      Moves.fftIo_ret_in (ρ := ρ) ci = ci ∧ Moves.fftIo_ret_out (ρ := ρ) co = co) ∧
    (Moves.fftIn_copy_at (ρ := ρ) saved = saved ∧ Moves.fftIn_copy_len (ρ := ρ) ci = ci ∧
      Moves.fftIn_frames_in_used (ρ := ρ) nReady fi = nReady * fi ∧
      Moves.fftIn_carry_cond (ρ := ρ) nextSaved used = decide (nextSaved > used) ∧
      Moves.fftIn_carry_from (ρ := ρ) used = used ∧ Moves.fftIn_carry_to (ρ := ρ) nextSaved = nextSaved ∧
      Moves.fftIn_extra (ρ := ρ) nextSaved used = nextSaved - used ∧ Moves.fftIn_saved_final (ρ := ρ) extra = extra ∧
      Moves.fftIn_ret_in (ρ := ρ) ci = ci ∧ Moves.fftIn_ret_out (ρ := ρ) neededLen = neededLen) ∧
    (Moves.fftOut_in_len (ρ := ρ) needed = needed ∧ Moves.fftOut_store_at (ρ := ρ) saved = saved ∧
      Moves.fftOut_processed (ρ := ρ) saved fo needed fi = saved + fo * (needed / fi) ∧
      Moves.fftOut_deliver_cond (ρ := ρ) processed co = decide (processed ≥ co) ∧
      Moves.fftOut_saved_delivered (ρ := ρ) processed co = processed - co ∧
      Moves.fftOut_saved_kept (ρ := ρ) processed = processed ∧
      Moves.fftOut_out_len (ρ := ρ) co = co ∧ Moves.fftOut_carry_from (ρ := ρ) co = co ∧
      Moves.fftOut_carry_to (ρ := ρ) co saved' = co + saved' ∧
      Moves.fftOut_used (ρ := ρ) needed = needed ∧ Moves.fftOut_ret_out (ρ := ρ) co = co) :=
  ⟨⟨rfl, rfl, rfl, rfl⟩, ⟨rfl, rfl, rfl, rfl, rfl, rfl, rfl, rfl, rfl, rfl⟩,
   ⟨rfl, rfl, rfl, rfl, rfl, rfl, rfl, rfl, rfl, rfl, rfl⟩⟩

/-- the data-movement formulas read the fields / locals one expects -/
theorem fft_move_formulas_read_the_expected_fields :
    Moves.moveParams.length = 35 ∧
    Moves.moveParams.lookup "fftOut_processed" = some ["saved_frames", "fft_size_out", "frames_needed", "fft_size_in"] ∧
    Moves.moveParams.lookup "fftOut_ret_in" = some ["input_frames_used"] ∧
    Moves.moveParams.lookup "fftOut_used" = some ["frames_needed"] ∧
    Moves.moveParams.lookup "fftIn_copy_at" = some ["saved_frames"] ∧
    Moves.moveParams.lookup "fftIn_ret_out" = some ["needed_len"] := by decide

end Rubato.C05
