/-
C12 — Ratio and chunk-size controls accept exactly the documented ranges.

[law-free] decision skeleton of the setters (true of the IEEE instantiation): `Ok` iff the range test
holds, `Err` leaves the state untouched, `Ok` changes exactly the documented fields;
`set_resample_ratio_relative x = set_resample_ratio (orig·x)`; chunk-size control; synchronous types.
[exact] the range test, in exact arithmetic, is `orig/max ≤ r ≤ orig·max`.
-/
import RubatoModel.Fft
import RubatoProofs.Lemmas.RatBridge
import RubatoProofs.Lemmas.FormulaTie
import Mathlib.Tactic.FieldSimp

set_option linter.unusedSectionVars false
set_option linter.unusedVariables false

namespace Rubato.C12
open Rubato
variable {ρ σ : Type} [RNum ρ] [SNum ρ σ]

/-- the setter succeeds exactly when the range test holds -/
theorem setRatio_ok_iff (s : AState ρ σ) (r : ρ) (ramp : Bool) :
    (s.setRatio r ramp).2 = .ok () ↔ ratioInRange r s.orig s.maxRel = true := by
  unfold AState.setRatio
  split
  · next h => cases s.kind <;> simp [h]
  · next h => simp [h]

/-- and otherwise returns RatioOutOfBounds -/
theorem setRatio_err (s : AState ρ σ) (r : ρ) (ramp : Bool) (h : ratioInRange r s.orig s.maxRel = false) :
    s.setRatio r ramp = (s, .error .ratioOutOfBounds) := by
  unfold AState.setRatio; simp [h]

/-- a rejected call changes nothing -/
theorem setRatio_rejected_unchanged (s : AState ρ σ) (r : ρ) (ramp : Bool)
    (h : (s.setRatio r ramp).2 ≠ .ok ()) : (s.setRatio r ramp).1 = s := by
  unfold AState.setRatio at h ⊢
  split
  · next hr => exfalso; apply h; cases s.kind <;> simp [hr]
  · rfl

/-- an accepted call sets the target; the current ratio only without ramp; nothing else but the
needed input size of the fixed-output types -/
theorem setRatio_accepted (s : AState ρ σ) (r : ρ) (ramp : Bool)
    (h : ratioInRange r s.orig s.maxRel = true) :
    let s' := (s.setRatio r ramp).1
    s'.target = r ∧ s'.ratio = (if ramp then s.ratio else r) ∧
    s'.kind = s.kind ∧ s'.nch = s.nch ∧ s'.chunk = s.chunk ∧ s'.maxChunk = s.maxChunk ∧ s'.fill = s.fill ∧
    s'.lastIndex = s.lastIndex ∧ s'.orig = s.orig ∧ s'.maxRel = s.maxRel ∧ s'.buf = s.buf ∧ s'.mask = s.mask ∧
    (s.kind.isFixedIn = true → s'.needed = s.needed) ∧
    (s.kind.isFixedIn = false →
      s'.needed = neededSinc s.lastIndex s.chunk (if ramp then s.ratio else r) r s.L) := by
  unfold AState.setRatio
  simp only [h, if_true]
  cases hk : s.kind <;> simp [AKind.isFixedIn, neededFastSet]

/-- `set_resample_ratio_relative(x)` IS `set_resample_ratio(original * x)` -/
theorem setRatioRelative_eq (s : AState ρ σ) (x : ρ) (ramp : Bool) :
    s.setRatioRelative x ramp = s.setRatio (s.orig * x) ramp := rfl

/-- set_chunk_size on the sinc types: accepted exactly for 1 ≤ n ≤ construction-time size -/
theorem setChunk_sinc (s : AState ρ σ) (n : Nat) (hk : s.kind = .sincIn ∨ s.kind = .sincOut) :
    ((s.setChunk n).2 = .ok () ↔ 1 ≤ n ∧ n ≤ s.maxChunk) ∧
    ((s.setChunk n).2 ≠ .ok () → s.setChunk n = (s, .error (.invalidChunk s.maxChunk n))) := by
  unfold AState.setChunk
  rcases hk with hk | hk <;> simp only [hk]
  all_goals
    by_cases hn : n > s.maxChunk
    · simp [hn]; try omega
    · by_cases h0 : n = 0
      · simp [h0]
      · have : ¬ (n > s.maxChunk) := hn
        simp [hn, h0]; try omega

/-- … and the polynomial types answer ChunkSizeNotAdjustable -/
theorem setChunk_fast (s : AState ρ σ) (n : Nat) (hk : s.kind = .fastIn ∨ s.kind = .fastOut) :
    s.setChunk n = (s, .error .chunkNotAdjustable) := by
  unfold AState.setChunk
  rcases hk with hk | hk <;> simp [hk]

/-- after an accepted change the next call consumes (fixed-in) / produces (fixed-out) exactly `n` -/
theorem setChunk_next_size (s : AState ρ σ) (n : Nat) (h1 : 1 ≤ n) (h2 : n ≤ s.maxChunk) :
    (s.kind = .sincIn → ((s.setChunk n).1).inputFramesNext = n) ∧
    (s.kind = .sincOut → ((s.setChunk n).1).outputFramesNext = n) := by
  have hn : ¬ (n > s.maxChunk) := by omega
  have h0 : ¬ (n = 0) := by omega
  constructor <;> intro hk <;>
    simp [AState.setChunk, hk, hn, h0, AState.inputFramesNext, AState.outputFramesNext, AKind.isFixedIn]

/-- synchronous resamplers: always SyncNotAdjustable / ChunkSizeNotAdjustable, state untouched -/
theorem fft_setters {σ υ : Type} (s : FState σ υ) (n : Nat) :
    s.setRatio = (s, .error .syncNotAdjustable) ∧ s.setChunk n = (s, .error .chunkNotAdjustable) :=
  ⟨rfl, rfl⟩

/-! ### [exact] the range test in exact arithmetic -/

/-- for `orig > 0`, `max > 0`: `r/orig ≥ 1/max ∧ r/orig ≤ max  ↔  orig/max ≤ r ≤ orig·max` (both bounds included) -/
theorem ratioInRange_exact (r orig maxRel : ℚ) (ho : 0 < orig) (hm : 0 < maxRel) :
    ratioInRange r orig maxRel = true ↔ orig / maxRel ≤ r ∧ r ≤ orig * maxRel := by
  unfold ratioInRange
  simp only [Bridge.ge_eq, Bridge.le_eq, Bridge.one_eq, Bool.and_eq_true, decide_eq_true_eq]
  constructor
  · rintro ⟨h1, h2⟩
    constructor
    · rw [div_le_iff₀ hm]
      rw [div_le_div_iff₀ hm ho] at h1
      linarith
    · rw [div_le_iff₀ ho] at h2; linarith
  · rintro ⟨h1, h2⟩
    constructor
    · rw [div_le_div_iff₀ hm ho]
      rw [div_le_iff₀ hm] at h1
      linarith
    · rw [div_le_iff₀ ho]; linarith

/-- non-positive values are rejected (for `max ≥ 1`) -/
theorem nonpositive_rejected (r orig maxRel : ℚ) (ho : 0 < orig) (hm : 1 ≤ maxRel) (hr : r ≤ 0) :
    ratioInRange r orig maxRel = false := by
  have hm0 : 0 < maxRel := by linarith
  rw [Bool.eq_false_iff]
  intro h
  rw [ratioInRange_exact r orig maxRel ho hm0] at h
  have : 0 < orig / maxRel := div_pos ho hm0
  linarith [h.1]

/-- relative form: `1/max ≤ x ≤ max` -/
theorem relative_exact (x orig maxRel : ℚ) (ho : 0 < orig) (hm : 0 < maxRel) :
    ratioInRange (orig * x) orig maxRel = true ↔ 1 / maxRel ≤ x ∧ x ≤ maxRel := by
  unfold ratioInRange
  simp only [Bridge.ge_eq, Bridge.le_eq, Bridge.one_eq, Bool.and_eq_true, decide_eq_true_eq]
  have : orig * x / orig = x := by field_simp
  rw [this]

/-! ### non-vacuity -/
example : ratioInRange (3/10 : ℚ) (1/10) 3 = true := by
  rw [ratioInRange_exact _ _ _ (by norm_num) (by norm_num)]; norm_num

end Rubato.C12

namespace Rubato.C12
open Rubato Rubato.Gen

/-- the range test of the model is, for every arithmetic instance, literally the condition regenerated from each of the
four `set_resample_ratio` bodies on this run (translator item G7) -/
theorem range_test_is_the_sources {ρ : Type} [RNum ρ] (new orig maxRel : ρ) :
    ratioInRange new orig maxRel = Formulas.fastIn_range_test new orig maxRel ∧
    ratioInRange new orig maxRel = Formulas.fastOut_range_test new orig maxRel ∧
    ratioInRange new orig maxRel = Formulas.sincIn_range_test new orig maxRel ∧
    ratioInRange new orig maxRel = Formulas.sincOut_range_test new orig maxRel :=
  ⟨rfl, rfl, rfl, rfl⟩

end Rubato.C12

namespace Rubato.C12
/-- … and each regenerated formula reads exactly the struct fields the model feeds it (guards against wrong-field slips) -/
theorem formulas_read_the_expected_fields_C12 :
    (Rubato.Gen.Formulas.formulaParams.map (·.1)).length = 24 ∧
    Rubato.Gen.Formulas.formulaParams.lookup "fastIn_output_delay" = some ["resample_ratio"] ∧
    Rubato.Gen.Formulas.formulaParams.lookup "fastOut_output_delay" = some ["resample_ratio"] ∧
    Rubato.Gen.Formulas.formulaParams.lookup "sincIn_output_delay" = some ["sinc_len", "resample_ratio"] ∧
    Rubato.Gen.Formulas.formulaParams.lookup "sincOut_output_delay" = some ["sinc_len", "resample_ratio"] := by
  rw [Rubato.FormulaTie.formulas_read_the_expected_fields]
  decide
end Rubato.C12

namespace Rubato.C12
open Rubato Rubato.Gen

/-- tie G7: `setChunk` of the model is `set_chunk_size` as regenerated: the sinc types reject exactly when the regenerated
test `chunksize > self.max_chunk_size || chunksize == 0` holds (payload `max_chunk_size`, request), the other five types
answer `ChunkSizeNotAdjustable` -/
theorem set_chunk_size_is_the_source_text {ρ σ : Type} [RNum ρ] [SNum ρ σ] (s : AState ρ σ) (n : Nat) :
    s.setChunk n =
      (match s.kind with
       | .fastIn | .fastOut => (s, .error .chunkNotAdjustable)
       | .sincIn =>
         if Formulas.sincIn_chunk_rejected (ρ := ρ) n s.maxChunk then (s, .error (.invalidChunk s.maxChunk n))
         else ({ s with chunk := n }, .ok ())
       | .sincOut =>
         if Formulas.sincOut_chunk_rejected (ρ := ρ) n s.maxChunk then (s, .error (.invalidChunk s.maxChunk n))
         else ({ s with chunk := n, needed := neededSinc s.lastIndex n s.ratio s.target s.L }, .ok ())) :=
  FormulaTie.setChunk_is_generated s n

/-- tie G7: the relative setter is the absolute setter at the regenerated `resample_ratio_original * rel_ratio` -/
theorem relative_setter_is_the_source_text {ρ σ : Type} [RNum ρ] [SNum ρ σ] (s : AState ρ σ) (rel : ρ) (ramp : Bool) :
    s.setRatioRelative rel ramp = s.setRatio (Formulas.fastIn_rel_new_ratio s.orig rel) ramp ∧
    Formulas.fastIn_rel_new_ratio s.orig rel = Formulas.sincOut_rel_new_ratio s.orig rel :=
  ⟨rfl, rfl⟩

end Rubato.C12
