/-
C12 — Ratio and chunk-size controls accept exactly the documented ranges.

[law-free] decision skeleton of the setters (true of the IEEE instantiation): `Ok` iff the range test
holds, `Err` leaves the state untouched, `Ok` changes exactly the documented fields;
`set_resample_ratio_relative x = set_resample_ratio (orig·x)`; chunk-size control; synchronous types.
[exact] the range test, in exact arithmetic, is `orig/max ≤ r ≤ orig·max`.
-/
import RubatoModel.Fft
import RubatoProofs.Lemmas.RatBridge
import RubatoProofs.Lemmas.FormulaTie
import RubatoProofs.Props.C10
import RubatoProofs.Async.OddLength
import Mathlib.Tactic.FieldSimp

set_option linter.unusedSectionVars false
set_option linter.unusedVariables false

namespace Rubato.C12
open Rubato
variable {ρ σ : Type} [RNum ρ] [SNum ρ σ]

/-- the setter succeeds exactly when the range test holds -/
theorem setRatio_ok_iff (s : AState ρ σ) (r : ρ) (ramp : Bool) :
    (s.setRatio r ramp).2 = .ok () ↔ ratioInRange r s.orig s.maxRel = true := by
  unfold AState.setRatio
  split
  · next h => cases s.kind <;> simp [h]
  · next h => simp [h]

/-- and otherwise returns RatioOutOfBounds -/
theorem setRatio_err (s : AState ρ σ) (r : ρ) (ramp : Bool) (h : ratioInRange r s.orig s.maxRel = false) :
    s.setRatio r ramp = (s, .error .ratioOutOfBounds) := by
  unfold AState.setRatio; simp [h]

/-- a rejected call changes nothing -/
theorem setRatio_rejected_unchanged (s : AState ρ σ) (r : ρ) (ramp : Bool)
    (h : (s.setRatio r ramp).2 ≠ .ok ()) : (s.setRatio r ramp).1 = s := by
  unfold AState.setRatio at h ⊢
  split
  · next hr => exfalso; apply h; cases s.kind <;> simp [hr]
  · rfl

/-- an accepted call sets the target; the current ratio only without ramp; nothing else but the
needed input size of the fixed-output types -/
theorem setRatio_accepted (s : AState ρ σ) (r : ρ) (ramp : Bool)
    (h : ratioInRange r s.orig s.maxRel = true) :
    let s' := (s.setRatio r ramp).1
    s'.target = r ∧ s'.ratio = (if ramp then s.ratio else r) ∧
    s'.kind = s.kind ∧ s'.nch = s.nch ∧ s'.chunk = s.chunk ∧ s'.maxChunk = s.maxChunk ∧ s'.fill = s.fill ∧
    s'.lastIndex = s.lastIndex ∧ s'.orig = s.orig ∧ s'.maxRel = s.maxRel ∧ s'.buf = s.buf ∧ s'.mask = s.mask ∧
    (s.kind.isFixedIn = true → s'.needed = s.needed) ∧
    (s.kind.isFixedIn = false →
      s'.needed = neededSinc s.lastIndex s.chunk (if ramp then s.ratio else r) r s.L) := by
  unfold AState.setRatio
  simp only [h, if_true]
  cases hk : s.kind <;> simp [AKind.isFixedIn, neededFastSet]

/-- `set_resample_ratio_relative(x)` IS `set_resample_ratio(original * x)` -/
theorem setRatioRelative_eq (s : AState ρ σ) (x : ρ) (ramp : Bool) :
    s.setRatioRelative x ramp = s.setRatio (s.orig * x) ramp := rfl

/-- set_chunk_size on the sinc types: accepted exactly for 1 ≤ n ≤ construction-time size -/
theorem setChunk_sinc (s : AState ρ σ) (n : Nat) (hk : s.kind = .sincIn ∨ s.kind = .sincOut) :
    ((s.setChunk n).2 = .ok () ↔ 1 ≤ n ∧ n ≤ s.maxChunk) ∧
    ((s.setChunk n).2 ≠ .ok () → s.setChunk n = (s, .error (.invalidChunk s.maxChunk n))) := by
  unfold AState.setChunk
  rcases hk with hk | hk <;> simp only [hk]
  all_goals
    by_cases hn : n > s.maxChunk
    · simp [hn]; try omega
    · by_cases h0 : n = 0
      · simp [h0]
      · have : ¬ (n > s.maxChunk) := hn
        simp [hn, h0]; try omega

/-- … and the polynomial types answer ChunkSizeNotAdjustable -/
theorem setChunk_fast (s : AState ρ σ) (n : Nat) (hk : s.kind = .fastIn ∨ s.kind = .fastOut) :
    s.setChunk n = (s, .error .chunkNotAdjustable) := by
  unfold AState.setChunk
  rcases hk with hk | hk <;> simp [hk]

/-- after an accepted change the next call consumes (fixed-in) / produces (fixed-out) exactly `n` -/
theorem setChunk_next_size (s : AState ρ σ) (n : Nat) (h1 : 1 ≤ n) (h2 : n ≤ s.maxChunk) :
    (s.kind = .sincIn → ((s.setChunk n).1).inputFramesNext = n) ∧
    (s.kind = .sincOut → ((s.setChunk n).1).outputFramesNext = n) := by
  have hn : ¬ (n > s.maxChunk) := by omega
  have h0 : ¬ (n = 0) := by omega
  constructor <;> intro hk <;>
    simp [AState.setChunk, hk, hn, h0, AState.inputFramesNext, AState.outputFramesNext, AKind.isFixedIn]

/-- synchronous resamplers: always SyncNotAdjustable / ChunkSizeNotAdjustable, state untouched -/
theorem fft_setters {σ υ : Type} (s : FState σ υ) (n : Nat) :
    s.setRatio = (s, .error .syncNotAdjustable) ∧ s.setChunk n = (s, .error .chunkNotAdjustable) :=
  ⟨rfl, rfl⟩

/-! ### [exact] the range test in exact arithmetic -/

/-- for `orig > 0`, `max > 0`: `r/orig ≥ 1/max ∧ r/orig ≤ max  ↔  orig/max ≤ r ≤ orig·max` (both bounds included) -/
theorem ratioInRange_exact (r orig maxRel : ℚ) (ho : 0 < orig) (hm : 0 < maxRel) :
    ratioInRange r orig maxRel = true ↔ orig / maxRel ≤ r ∧ r ≤ orig * maxRel := by
  unfold ratioInRange
  simp only [Bridge.ge_eq, Bridge.le_eq, Bridge.one_eq, Bool.and_eq_true, decide_eq_true_eq]
  constructor
  · rintro ⟨h1, h2⟩
    constructor
    · rw [div_le_iff₀ hm]
      rw [div_le_div_iff₀ hm ho] at h1
      linarith
    · rw [div_le_iff₀ ho] at h2; linarith
  · rintro ⟨h1, h2⟩
    constructor
    · rw [div_le_div_iff₀ hm ho]
      rw [div_le_iff₀ hm] at h1
      linarith
    · rw [div_le_iff₀ ho]; linarith

/-- non-positive values are rejected (for `max ≥ 1`) -/
theorem nonpositive_rejected (r orig maxRel : ℚ) (ho : 0 < orig) (hm : 1 ≤ maxRel) (hr : r ≤ 0) :
    ratioInRange r orig maxRel = false := by
  have hm0 : 0 < maxRel := by linarith
  rw [Bool.eq_false_iff]
  intro h
  rw [ratioInRange_exact r orig maxRel ho hm0] at h
  have : 0 < orig / maxRel := div_pos ho hm0
  linarith [h.1]

/-- relative form: `1/max ≤ x ≤ max` -/
theorem relative_exact (x orig maxRel : ℚ) (ho : 0 < orig) (hm : 0 < maxRel) :
    ratioInRange (orig * x) orig maxRel = true ↔ 1 / maxRel ≤ x ∧ x ≤ maxRel := by
  unfold ratioInRange
  simp only [Bridge.ge_eq, Bridge.le_eq, Bridge.one_eq, Bool.and_eq_true, decide_eq_true_eq]
  have : orig * x / orig = x := by field_simp
  rw [this]

/-! ### non-vacuity -/
example : ratioInRange (3/10 : ℚ) (1/10) 3 = true := by
  rw [ratioInRange_exact _ _ _ (by norm_num) (by norm_num)]; norm_num

end Rubato.C12

namespace Rubato.C12
open Rubato Rubato.Gen

/-- the range test of the model is, for every arithmetic instance, literally the condition regenerated from each of the
four `set_resample_ratio` bodies on this run (translator item G7) -/
theorem range_test_is_the_sources {ρ : Type} [RNum ρ] (new orig maxRel : ρ) :
    ratioInRange new orig maxRel = Formulas.fastIn_range_test new orig maxRel ∧
    ratioInRange new orig maxRel = Formulas.fastOut_range_test new orig maxRel ∧
    ratioInRange new orig maxRel = Formulas.sincIn_range_test new orig maxRel ∧
    ratioInRange new orig maxRel = Formulas.sincOut_range_test new orig maxRel :=
  ⟨rfl, rfl, rfl, rfl⟩

end Rubato.C12

namespace Rubato.C12
/-- … and each regenerated formula reads exactly the struct fields the model feeds it (guards against wrong-field slips) -/
theorem formulas_read_the_expected_fields_C12 :
    (Rubato.Gen.Formulas.formulaParams.map (·.1)).length = 24 ∧
    Rubato.Gen.Formulas.formulaParams.lookup "fastIn_output_delay" = some ["resample_ratio"] ∧
    Rubato.Gen.Formulas.formulaParams.lookup "fastOut_output_delay" = some ["resample_ratio"] ∧
    Rubato.Gen.Formulas.formulaParams.lookup "sincIn_output_delay" = some ["sinc_len", "resample_ratio"] ∧
    Rubato.Gen.Formulas.formulaParams.lookup "sincOut_output_delay" = some ["sinc_len", "resample_ratio"] := by
  rw [Rubato.FormulaTie.formulas_read_the_expected_fields]
  decide
end Rubato.C12

namespace Rubato.C12
open Rubato Rubato.Gen

/-- tie G7: `setChunk` of the model is `set_chunk_size` as regenerated: the sinc types reject exactly when the regenerated
test `chunksize > self.max_chunk_size || chunksize == 0` holds (payload `max_chunk_size`, request), the other five types
answer `ChunkSizeNotAdjustable` -/
theorem set_chunk_size_is_the_source_text {ρ σ : Type} [RNum ρ] [SNum ρ σ] (s : AState ρ σ) (n : Nat) :
    s.setChunk n =
      (match s.kind with
       | .fastIn | .fastOut => (s, .error .chunkNotAdjustable)
       | .sincIn =>
         if Formulas.sincIn_chunk_rejected (ρ := ρ) n s.maxChunk then (s, .error (.invalidChunk s.maxChunk n))
         else ({ s with chunk := n }, .ok ())
       | .sincOut =>
         if Formulas.sincOut_chunk_rejected (ρ := ρ) n s.maxChunk then (s, .error (.invalidChunk s.maxChunk n))
         else ({ s with chunk := n, needed := neededSinc s.lastIndex n s.ratio s.target s.L }, .ok ())) :=
  FormulaTie.setChunk_is_generated s n

/-- tie G7: the relative setter is the absolute setter at the regenerated `resample_ratio_original * rel_ratio` -/
theorem relative_setter_is_the_source_text {ρ σ : Type} [RNum ρ] [SNum ρ σ] (s : AState ρ σ) (rel : ρ) (ramp : Bool) :
    s.setRatioRelative rel ramp = s.setRatio (Formulas.fastIn_rel_new_ratio s.orig rel) ramp ∧
    Formulas.fastIn_rel_new_ratio s.orig rel = Formulas.sincOut_rel_new_ratio s.orig rel :=
  ⟨rfl, rfl⟩

end Rubato.C12

/-! ### History level: the ratios a resampler ever works with are ones the setter accepted

The per-call theorems above say what ONE setter call does.  The invariant below is what a user relies on over a
whole session: after ANY sequence of processing calls (successful, failed or crashed), absolute and relative ratio
changes (accepted or rejected, stepped or ramped), chunk-size changes and resets, both the ratio in force and the
target of a pending ramp are either the construction-time ratio or a value that passed the range test — and
`resample_ratio_original` and `max_relative_ratio`, against which the test is made, never change. -/
namespace Rubato.C12
open Rubato
variable {ρ σ : Type} [RNum ρ] [SNum ρ σ]

/-- a ratio that is the constructor's or passed the range test of this instance -/
def Accepted (s : AState ρ σ) (r : ρ) : Prop := r = s.orig ∨ ratioInRange r s.orig s.maxRel = true

/-- both the ratio in force and the ramp target were accepted -/
def RatiosOK (s : AState ρ σ) : Prop := Accepted s s.ratio ∧ Accepted s s.target

/-- what a processing call does to the two ratios: the target stays, the ratio in force stays or reaches the target -/
structure RatioFrame (s s' : AState ρ σ) : Prop where
  target : s'.target = s.target
  ratio : s'.ratio = s.ratio ∨ s'.ratio = s.target

theorem finishIn_ratioFrame (s : AState ρ σ) (mask : List Bool) (fuel : Nat) :
    RatioFrame s (s.finishIn mask fuel).1 := by
  unfold AState.finishIn
  simp only []
  split
  · exact ⟨rfl, Or.inl rfl⟩
  · split
    · exact ⟨rfl, Or.inl rfl⟩
    · exact ⟨rfl, Or.inr rfl⟩

theorem finishOut_ratioFrame (s : AState ρ σ) (mask : List Bool) :
    RatioFrame s (s.finishOut mask).1 := by
  unfold AState.finishOut
  simp only []
  split
  · exact ⟨rfl, Or.inl rfl⟩
  · exact ⟨rfl, Or.inr rfl⟩

theorem RatioFrame.of_eq {m s s' : AState ρ σ} (h : RatioFrame m s') (ht : m.target = s.target)
    (hr : m.ratio = s.ratio) : RatioFrame s s' :=
  ⟨h.target.trans ht, by rcases h.ratio with e | e; exact Or.inl (e.trans hr); exact Or.inr (e.trans ht)⟩

theorem process_ratioFrame (s : AState ρ σ) (a : CallArgs σ) : RatioFrame s (s.process a).1 := by
  unfold AState.process
  split
  · exact ⟨rfl, Or.inl rfl⟩
  · simp only []
    split
    · exact ⟨rfl, Or.inl rfl⟩
    · split
      · exact ⟨rfl, Or.inl rfl⟩
      · split
        · exact RatioFrame.of_eq (finishIn_ratioFrame _ _ _) rfl rfl
        · exact RatioFrame.of_eq (finishOut_ratioFrame _ _) rfl rfl

/-- `set_chunk_size` touches neither ratio nor the reference values -/
theorem setChunk_ratios (s : AState ρ σ) (n : Nat) :
    (s.setChunk n).1.orig = s.orig ∧ (s.setChunk n).1.maxRel = s.maxRel ∧
    (s.setChunk n).1.ratio = s.ratio ∧ (s.setChunk n).1.target = s.target := by
  unfold AState.setChunk
  cases s.kind
  · exact ⟨rfl, rfl, rfl, rfl⟩
  · exact ⟨rfl, rfl, rfl, rfl⟩
  · simp only []; split <;> exact ⟨rfl, rfl, rfl, rfl⟩
  · simp only []; split <;> exact ⟨rfl, rfl, rfl, rfl⟩

/-- one operation keeps `orig`, `maxRel` and the invariant -/
theorem step_ratiosOK (s : AState ρ σ) (h : RatiosOK s) (op : AOp ρ σ) :
    (s.step op).orig = s.orig ∧ (s.step op).maxRel = s.maxRel ∧ RatiosOK (s.step op) := by
  cases op with
  | proc a =>
    have hf := process_frame s a
    have hr := process_ratioFrame s a
    show ((s.process a).1).orig = _ ∧ ((s.process a).1).maxRel = _ ∧
      (Accepted (s.process a).1 (s.process a).1.ratio ∧ Accepted (s.process a).1 (s.process a).1.target)
    refine ⟨hf.orig, hf.maxRel, ?_, ?_⟩
    · unfold Accepted
      rw [hf.orig, hf.maxRel]
      rcases hr.ratio with e | e <;> rw [e]
      · exact h.1
      · exact h.2
    · unfold Accepted
      rw [hf.orig, hf.maxRel, hr.target]
      exact h.2
  | ratio r ramp =>
    show ((s.setRatio r ramp).1).orig = _ ∧ ((s.setRatio r ramp).1).maxRel = _ ∧ RatiosOK (s.setRatio r ramp).1
    by_cases hr : ratioInRange r s.orig s.maxRel = true
    · have ha := setRatio_accepted s r ramp hr
      simp only [] at ha
      obtain ⟨ht, hra, -, -, -, -, -, -, ho, hm, -⟩ := ha
      refine ⟨ho, hm, ?_, ?_⟩
      · show Accepted _ _
        unfold Accepted
        rw [ho, hm, hra]
        cases ramp
        · exact Or.inr hr
        · exact h.1
      · show Accepted _ _
        unfold Accepted
        rw [ho, hm, ht]
        exact Or.inr hr
    · have hu := setRatio_rejected_unchanged s r ramp (by
        intro hok; exact hr ((setRatio_ok_iff s r ramp).1 hok))
      rw [hu]; exact ⟨rfl, rfl, h⟩
  | rel x ramp =>
    show ((s.setRatio (s.orig * x) ramp).1).orig = _ ∧ ((s.setRatio (s.orig * x) ramp).1).maxRel = _ ∧
      RatiosOK (s.setRatio (s.orig * x) ramp).1
    by_cases hr : ratioInRange (s.orig * x) s.orig s.maxRel = true
    · have ha := setRatio_accepted s (s.orig * x) ramp hr
      simp only [] at ha
      obtain ⟨ht, hra, -, -, -, -, -, -, ho, hm, -⟩ := ha
      refine ⟨ho, hm, ?_, ?_⟩
      · show Accepted _ _
        unfold Accepted
        rw [ho, hm, hra]
        cases ramp
        · exact Or.inr hr
        · exact h.1
      · show Accepted _ _
        unfold Accepted
        rw [ho, hm, ht]
        exact Or.inr hr
    · have hu := setRatio_rejected_unchanged s (s.orig * x) ramp (by
        intro hok; exact hr ((setRatio_ok_iff s _ ramp).1 hok))
      rw [hu]; exact ⟨rfl, rfl, h⟩
  | chunk n =>
    obtain ⟨ho, hm, hr, ht⟩ := setChunk_ratios s n
    show ((s.setChunk n).1).orig = _ ∧ ((s.setChunk n).1).maxRel = _ ∧
      (Accepted (s.setChunk n).1 (s.setChunk n).1.ratio ∧ Accepted (s.setChunk n).1 (s.setChunk n).1.target)
    refine ⟨ho, hm, ?_, ?_⟩
    · unfold Accepted; rw [ho, hm, hr]; exact h.1
    · unfold Accepted; rw [ho, hm, ht]; exact h.2
  | reset =>
    show (s.reset).orig = _ ∧ (s.reset).maxRel = _ ∧ RatiosOK s.reset
    unfold AState.reset
    cases hk : s.kind <;> exact ⟨rfl, rfl, Or.inl rfl, Or.inl rfl⟩

/-- **C12, session level.**  From any state whose two ratios were accepted (the constructor's state is one, below),
after any sequence of operations: the reference values of the range test are unchanged and both ratios are accepted. -/
theorem ratios_accepted_after_any_history (s : AState ρ σ) (h : RatiosOK s) (ops : List (AOp ρ σ)) :
    (s.run ops).orig = s.orig ∧ (s.run ops).maxRel = s.maxRel ∧ RatiosOK (s.run ops) := by
  induction ops generalizing s with
  | nil => exact ⟨rfl, rfl, h⟩
  | cons op ops ih =>
    obtain ⟨ho, hm, hk⟩ := step_ratiosOK s h op
    obtain ⟨ho', hm', hk'⟩ := ih (s.step op) hk
    exact ⟨ho'.trans ho, hm'.trans hm, hk'⟩

/-- the constructor's state satisfies the invariant -/
theorem init_ratiosOK (kind : AKind) (ratio maxRel : ρ) (deg : Degree) (sint : SincInterp) (ip : Interp σ)
    (chunk nch : Nat) (s0 : AState ρ σ) (h : AState.init kind ratio maxRel deg sint ip chunk nch = .ok s0) :
    RatiosOK s0 := by
  have hr := C10.reset_init kind ratio maxRel deg sint ip chunk nch s0 h
  rw [← hr]
  unfold AState.reset
  cases hk : s0.kind <;> exact ⟨Or.inl rfl, Or.inl rfl⟩

end Rubato.C12

namespace Rubato.C12
open Rubato

/-- **C12, session level, exact arithmetic.**  In ℚ, for a resampler built with ratio `orig > 0` and
`max_relative_ratio ≥ 1`, after any history the ratio in force and the ramp target lie in the documented closed
interval `[orig/max, orig·max]`. -/
theorem ratios_in_documented_interval (kind : AKind) (ratio maxRel : ℚ) (deg : Degree) (sint : SincInterp)
    (ip : Interp ℚ) (chunk nch : Nat) (s0 : AState ℚ ℚ)
    (h : AState.init kind ratio maxRel deg sint ip chunk nch = .ok s0)
    (ho : 0 < s0.orig) (hm : 1 ≤ s0.maxRel) (ops : List (AOp ℚ ℚ)) :
    let s := s0.run ops
    (s0.orig / s0.maxRel ≤ s.ratio ∧ s.ratio ≤ s0.orig * s0.maxRel) ∧
    (s0.orig / s0.maxRel ≤ s.target ∧ s.target ≤ s0.orig * s0.maxRel) := by
  intro s
  obtain ⟨eo, em, hk⟩ := ratios_accepted_after_any_history s0
    (init_ratiosOK kind ratio maxRel deg sint ip chunk nch s0 h) ops
  have hm0 : 0 < s0.maxRel := by linarith
  have key : ∀ r : ℚ, Accepted (s0.run ops) r → s0.orig / s0.maxRel ≤ r ∧ r ≤ s0.orig * s0.maxRel := by
    intro r hr
    unfold Accepted at hr
    rw [eo, em] at hr
    rcases hr with e | e
    · subst e
      constructor
      · exact div_le_self ho.le hm
      · exact le_mul_of_one_le_right ho.le hm
    · exact (ratioInRange_exact r s0.orig s0.maxRel ho hm0).1 e
  exact ⟨key _ hk.1, key _ hk.2⟩

/-- non-vacuity: the hypotheses are met by a state the constructor really returns (`SincFixedIn`, ratio 4,
`max_resample_ratio_relative = 1`; `OddLength.d18_init`), followed by a history with an accepted ramp, a rejected
step, a processing call and a reset -/
example (a : CallArgs ℚ) :
    let s := OddLength.d18S0.run [.ratio 4 true, .ratio 5 false, .proc a, .rel 1 false, .reset]
    ((4 : ℚ) / 1 ≤ s.ratio ∧ s.ratio ≤ 4 * 1) ∧ ((4 : ℚ) / 1 ≤ s.target ∧ s.target ≤ 4 * 1) :=
  ratios_in_documented_interval _ _ _ _ _ _ _ _ OddLength.d18S0 OddLength.d18_init
    (by norm_num [OddLength.d18S0, OddLength.d18State]) (by norm_num [OddLength.d18S0, OddLength.d18State]) _

end Rubato.C12
