/-
C11 — Channels are independent; masked-out channels are skipped and left untouched.

[law-free] (every arithmetic instance).  Projection on channel `i` commutes with every operation: an n-channel resampler
produces on channel `i` exactly what a single-channel resampler with the same parameters, fed channel `i`'s input and the
same call history, produces (equality of complete projected states and outputs, for histories of any length); inactive
channels are not written (`none` output), their input is never indexed (replacing it by anything — the empty slice
included — changes nothing), and a mask changes neither the counts, nor the control state, nor the outputs of the active
channels.  FFT adapters: each channel's output and new `(overlap, store)` depend only on its own data and the shared scalars.
-/
import RubatoProofs.Indep.Channels

set_option linter.unusedSectionVars false
set_option linter.unusedVariables false

namespace Rubato.C11
open Rubato Rubato.Indep

variable {ρ σ : Type} [RNum ρ] [SNum ρ σ]

/-- one successful n-channel call, projected on an active channel, IS the single-channel call on that channel's data -/
theorem call_projects_on_active_channel {s s' : AState ρ σ} {a : CallArgs σ} {out : CallOut σ} {i : Nat}
    (h : s.process a = (s', .ok out)) (hsz : s.buf.size = s.nch)
    (hact : (effMask s.nch a.mask)[i]? = some true) :
    (chan i s).process (chanArgs i a) =
      (chan i s', .ok { nIn := out.nIn, nOut := out.nOut, out := [out.out.getD i none], stale := out.stale }) ∧
    ∃ o, out.out[i]? = some (some o) :=
  process_channel h hsz hact

/-- whole histories: the projection of the n-channel run on channel `i` is the single-channel run on channel `i`'s
operations, and the per-call traces (counts, frames of channel `i`) are equal -/
theorem history_projects_on_channel {i : Nat} (ops : List (AOp ρ σ)) {s : AState ρ σ} (hb : BufOk s)
    (hg : GoodHist i s ops) :
    chan i (s.run ops) = (chan i s).run (ops.map (chanOp i)) ∧
    chanTrace i s ops = chanTrace 0 (chan i s) (ops.map (chanOp i)) :=
  run_channel ops hb hg

/-- an inactive channel's input is never looked at: any replacement (also the empty slice) gives the very same result,
whether or not the call succeeds -/
theorem inactive_input_never_indexed (s : AState ρ σ) (a : CallArgs σ) (i : Nat) (x : Array σ)
    (hina : (effMask s.nch a.mask)[i]? ≠ some true) :
    s.process { a with input := a.input.set i x } = s.process a :=
  inactive_input_irrelevant s a i x hina

/-- an inactive channel is not written: its output is `none`; its internal buffer only undergoes the history shift -/
theorem inactive_channel_not_written {s s' : AState ρ σ} {a : CallArgs σ} {out : CallOut σ} {i : Nat}
    (h : s.process a = (s', .ok out)) (hsz : s.buf.size = s.nch)
    (hina : (effMask s.nch a.mask)[i]? = some false) :
    out.out[i]? = some none ∧
    s'.buf.getD i #[] = copyWithin (s.buf.getD i #[]) s.shiftFrom (2 * s.L) :=
  ⟨(inactive_untouched h hsz hina).1, (inactive_untouched h hsz hina).2.1⟩

/-- a mask changes neither the returned counts, nor the control state, nor the active channels' outputs and buffers -/
theorem mask_is_transparent_for_active_channels {s s₁ s₂ : AState ρ σ} {a : CallArgs σ} {m : List Bool}
    {o₁ o₂ : CallOut σ} (hsz : s.buf.size = s.nch)
    (h₁ : s.process { a with mask := some m } = (s₁, .ok o₁))
    (h₂ : s.process { a with mask := none } = (s₂, .ok o₂)) :
    o₁.nIn = o₂.nIn ∧ o₁.nOut = o₂.nOut ∧ o₁.stale = o₂.stale ∧
    (∃ b mm, s₂ = { s₁ with buf := b, mask := mm }) ∧
    ∀ i, m[i]? = some true → o₁.out[i]? = o₂.out[i]? ∧ s₁.buf.getD i #[] = s₂.buf.getD i #[] :=
  mask_does_not_change_active_outputs hsz h₁ h₂

/-- the channel-count invariant the statements above assume holds along every history -/
theorem bufOk_invariant (s : AState ρ σ) (hb : BufOk s) (op : AOp ρ σ) : BufOk (s.step op) :=
  bufOk_step hb op

/-- FFT adapters: channel `j`'s output and new `(overlap, store)` are a function of its own `(overlap, store, input,
output length)` and the shared scalars; an inactive channel is left exactly as it was -/
theorem fft_channel_independent {υ : Type} (da : DivArith) (u : FftUnit σ υ) {s s' : FState σ υ}
    {input : List (List σ)} {outLens : List Nat} {um : Option (List Bool)} {out : FCallOut σ}
    (h : FState.process da u s input outLens um = (s', .ok out))
    {j : Nat} {m : Bool} {o : υ} {st inp : List σ} {ol : Nat}
    (hm : (effMask s.nch um)[j]? = some m) (ho : s.ov[j]? = some o) (hst : s.store[j]? = some st)
    (hi : input[j]? = some inp) (hol : outLens[j]? = some ol) :
    if m then
      ∃ o' st' y, fftStep da u s.kind s.fftIn s.fftOut s.chunkIn s.chunkOut s.saved s.framesNeeded o st inp ol
          = some (o', st', y) ∧
        s'.ov[j]? = some o' ∧ s'.store[j]? = some st' ∧ out.out[j]? = some y
    else s'.ov[j]? = some o ∧ s'.store[j]? = some st ∧ out.out[j]? = some none :=
  fft_process_channel da u h hm ho hst hi hol

end Rubato.C11
