/-
C04 — Advertised frame counts are true bounds and exact reports.

[exact]  At every reachable state `input_frames_next ≤ input_frames_max` and `output_frames_next ≤ output_frames_max`;
a processing call consumes exactly `input_frames_next`, reports exactly what it wrote, and writes no more than
`output_frames_next` (exactly that for fixed-output and synchronous types).
* fixed-output types: every state of every history (ramped changes included) — `FixedOut.Good`;
* fixed-input types: the getter inequality for every in-range ratio/target pair; the count bound at constant ratio;
  FALSE under arbitrary ratio schedules (finding D5, witness below);
* FFT types: every valid history.
Not covered: the f32 evaluation of `needed_input_size` (exact here); the `+2` slack of `input_frames_max` absorbs ±1.
-/
import RubatoProofs.Async.FixedIn
import RubatoProofs.Async.FixedOut
import RubatoProofs.Fft.Control
import RubatoProofs.Props.C16
import RubatoProofs.Lemmas.FormulaTie
import RubatoProofs.Lemmas.DivBridge
import RubatoProofs.Props.C12

set_option linter.unusedSectionVars false
set_option linter.unusedVariables false

namespace Rubato.C04
open Rubato Rubato.Bridge

/-! ### fixed-output -/

/-- in every invariant state: `input_frames_next < input_frames_max` (strictly: the `+2` is never used) and
`output_frames_next = chunk ≤ max chunk = output_frames_max` -/
theorem fixedOut_getter_bounds {s : AState ℚ ℚ} (h : FixedOut.Inv s) :
    s.inputFramesNext < s.inputFramesMax ∧ s.outputFramesNext ≤ s.outputFramesMax := by
  refine ⟨h.needed_lt_max, ?_⟩
  simp only [AState.outputFramesNext, AState.outputFramesMax, h.not_fixedIn, Bool.false_eq_true, if_false]
  exact h.chunk_le

/-- … and that holds after ANY history, ramped ratio changes included -/
theorem fixedOut_bounds_after_any_history {s : AState ℚ ℚ} (h : FixedOut.Good s) (ops : List FixedOut.Op) :
    let s' := ops.foldl FixedOut.Op.apply s
    s'.inputFramesNext < s'.inputFramesMax ∧ s'.outputFramesNext ≤ s'.outputFramesMax :=
  fixedOut_getter_bounds (FixedOut.good_foldl h ops).inv

/-- an `Ok` call consumed exactly `input_frames_next()` and produced exactly `output_frames_next()` frames -/
theorem fixedOut_exact_counts {s : AState ℚ ℚ} (h : FixedOut.Good s) (ops : List FixedOut.Op) (a : CallArgs ℚ)
    (out : CallOut ℚ) :
    let s' := ops.foldl FixedOut.Op.apply s
    (s'.process a).2 = .ok out → out.nIn = s'.inputFramesNext ∧ out.nOut = s'.outputFramesNext := by
  intro s' ho
  have hg := FixedOut.good_foldl h ops
  rcases FixedOut.process_no_panic a hg.inv hg.buf hg.L8 hg.sinc with ⟨e, he, -⟩ | ⟨o, ho', -, -, -, h1, h2, -⟩
  · rw [ho] at he; cases he
  · rw [ho] at ho'
    cases ho'
    have hk : s'.kind.isFixedIn = false := hg.inv.not_fixedIn
    unfold AState.inputFramesNext AState.outputFramesNext
    rw [hk]
    exact ⟨h1, h2⟩

/-! ### fixed-input -/

/-- `output_frames_next ≤ output_frames_max` whenever both the current and the target ratio are in the accepted range
(so also in the middle of a ramp), and `input_frames_next = chunk ≤ max` -/
theorem fixedIn_getter_bounds {s : AState ℚ ℚ} (hk : s.kind.isFixedIn = true) (hc : s.chunk ≤ s.maxChunk)
    (h0 : 0 ≤ s.ratio) (h0' : 0 ≤ s.target) (h1 : s.ratio ≤ s.orig * s.maxRel) (h2 : s.target ≤ s.orig * s.maxRel) :
    s.inputFramesNext ≤ s.inputFramesMax ∧ s.outputFramesNext ≤ s.outputFramesMax := by
  simp only [AState.inputFramesNext, AState.inputFramesMax, AState.outputFramesNext, AState.outputFramesMax, hk, if_true]
  exact ⟨hc, FixedIn.outNextIn_le_outMaxIn hc h0 h0' h1 h2⟩

/-- constant ratio: the number of frames a call produces never exceeds `output_frames_next()` (slack 9) -/
theorem fixedIn_count_le_next {r : ℚ} (hr : 0 < r) (c L : ℕ) {last : ℚ} (hinv : FixedIn.Inv L ⌈1 / r⌉ last) :
    FixedIn.nC c L r last ≤ outNextIn c r r :=
  FixedIn.count_le hr c L hinv

/-- `…_false` (finding D5): under a ratio schedule the bound fails — 162 frames wanted, 74 advertised -/
theorem fixedIn_count_false :
    FixedIn.nC 64 8 1 (-108) = 162 ∧ outNextIn 64 (1 : ℚ) 1 = 74 ∧
    (FixedIn.callIn 64 8 1 1 74 (-108)).2.2 = true :=
  ⟨FixedIn.cex_count.2.2.1, FixedIn.cex_count.2.2.2.1, FixedIn.cex_count.2.2.2.2⟩

/-! ### FFT -/

open FftProofs in
theorem fft_getter_bounds {σ υ : Type} {s : FState σ υ} (h : WF s) :
    s.inputFramesNext ≤ s.inputFramesMax DivArith.exact ∧ s.outputFramesNext DivArith.exact ≤ s.outputFramesMax :=
  ⟨inputFramesNext_le_max h, outputFramesNext_le_max h⟩

open FftProofs in
/-- a valid call returns exactly `(input_frames_next, output_frames_next)` and keeps the state well-formed -/
theorem fft_exact_counts {σ υ : Type} (u : FftUnit σ υ) {s : FState σ υ} {input : List (List σ)}
    {outLens : List Nat} {um : Option (List Bool)} (hwf : WF s) (hv : ValidArgs s input outLens um) :
    ∃ s' r, s.process DivArith.exact u input outLens um = (s', .ok r) ∧
      r.nIn = s.inputFramesNext ∧ r.nOut = s.outputFramesNext DivArith.exact ∧ WF s' := by
  obtain ⟨s', r, hp, hs⟩ := process_ok u hwf hv
  exact ⟨s', r, hp, hs.nIn_eq, hs.nOut_eq, hs.wf⟩

/-! ### consequence for `process()`: it sizes its output by `output_frames_next` and drops nothing -/

/-- whatever the core wrote (`nOut` frames per active channel) is what `process()` returns (C16) -/
theorem process_never_drops_frames {S χ : Type} (C : Core S χ) (L : C16.ChanLaws C) (s : S) (input : List χ)
    (mask : Option (List Bool)) (s' : S) (nIn nOut : Nat) (out : List (Option χ))
    (h : C.proc s input (wrapOutLens C s mask) mask = (s', .ok (nIn, nOut, out)))
    (hsz : ∀ v, some v ∈ out → C.size v = nOut) :
    ∃ res, processW C s input mask = (s', .ok res) ∧
      ∀ (c : Nat) (v : χ), out[c]? = some (some v) → c < (wrapOutLens C s mask).length → res[c]? = some v := by
  obtain ⟨res, h1, -, h3⟩ := C16.process_returns_written C L s input mask s' nIn nOut out h hsz
  exact ⟨res, h1, h3⟩

end Rubato.C04

namespace Rubato.C04
open Rubato Rubato.Gen

/-- the size formulas the model (and hence every theorem above) uses are, for every arithmetic instance, literally the
ones regenerated from the Rust source on this run (translator item G7): getters, needed-size formulas, buffer lengths -/
theorem size_formulas_are_the_sources {ρ : Type} [RNum ρ] (chunk needed L : Nat) (last ratio target orig maxRel : ρ) :
    outMaxIn chunk orig maxRel = Formulas.fastIn_output_frames_max chunk orig maxRel ∧
    outMaxIn chunk orig maxRel = Formulas.sincIn_output_frames_max chunk orig maxRel ∧
    outNextIn chunk ratio target = Formulas.fastIn_output_frames_next chunk ratio target ∧
    outNextIn chunk ratio target = Formulas.fastIn_needed_len chunk ratio target ∧
    outNextIn chunk ratio target = Formulas.sincIn_calc_needed_len chunk ratio target ∧
    inMaxOut chunk orig maxRel Fast.polyLen = Formulas.fastOut_input_frames_max chunk orig maxRel ∧
    inMaxOut chunk orig maxRel L = Formulas.sincOut_input_frames_max chunk orig maxRel L ∧
    neededInit chunk ratio Fast.polyLen = Formulas.fastOut_needed_new chunk ratio ∧
    neededInit chunk ratio L = Formulas.sincOut_needed_new chunk ratio L ∧
    neededInit chunk orig Fast.polyLen = Formulas.fastOut_needed_reset chunk orig ∧
    neededInit chunk ratio L = Formulas.sincOut_needed_reset chunk ratio L ∧
    bufLenOut maxRel needed Fast.polyLen = Formulas.fastOut_buffer_len_new maxRel needed ∧
    bufLenOut maxRel needed L = Formulas.sincOut_buffer_len_new maxRel needed L ∧
    neededFastAfter last chunk ratio Fast.polyLen = Formulas.fastOut_needed_after last chunk ratio ∧
    neededFastSet last chunk ratio target Fast.polyLen = Formulas.fastOut_needed_set last chunk ratio target ∧
    neededSinc last chunk ratio target L = Formulas.sincOut_update_needed_len last chunk ratio target L :=
  ⟨rfl, rfl, rfl, rfl, rfl, rfl, rfl, rfl, rfl, rfl, rfl, rfl, rfl, rfl, rfl, rfl⟩

end Rubato.C04

namespace Rubato.C04
/-- … and each regenerated formula reads exactly the struct fields the model feeds it (guards against wrong-field slips) -/
theorem formulas_read_the_expected_fields_C04 :
    (Rubato.Gen.Formulas.formulaParams.map (·.1)).length = 24 ∧
    Rubato.Gen.Formulas.formulaParams.lookup "fastIn_output_delay" = some ["resample_ratio"] ∧
    Rubato.Gen.Formulas.formulaParams.lookup "fastOut_output_delay" = some ["resample_ratio"] ∧
    Rubato.Gen.Formulas.formulaParams.lookup "sincIn_output_delay" = some ["sinc_len", "resample_ratio"] ∧
    Rubato.Gen.Formulas.formulaParams.lookup "sincOut_output_delay" = some ["sinc_len", "resample_ratio"] := by
  rw [Rubato.FormulaTie.formulas_read_the_expected_fields]
  decide
end Rubato.C04

namespace Rubato.C04
open Rubato Rubato.Gen

/-- tie G7 for the synchronous types: the getters the FFT theorems above speak about (with `DivArith.exact`) are the
getter bodies the translator regenerates from synchro.rs in this run, read over exact arithmetic -/
theorem fft_getters_are_the_source_formulas {σ υ : Type} (s : FState σ υ) :
    (s.kind = .fftOut → s.inputFramesMax DivArith.exact =
        Formulas.fftOut_input_frames_max (ρ := ℚ) s.chunkOut s.fftOut s.fftIn) ∧
    (s.kind = .fftIn → s.outputFramesNext DivArith.exact =
        Formulas.fftIn_output_frames_next (ρ := ℚ) s.saved s.chunkIn s.fftIn s.fftOut) ∧
    (s.kind = .fftIn → s.outputFramesMax =
        Formulas.fftIn_omax_result (ρ := ℚ)
          (Formulas.fftIn_omax_max_subchunks_to_process (ρ := ℚ)
            (Formulas.fftIn_omax_max_available_frames (ρ := ℚ)
              (Formulas.fftIn_omax_max_stored_frames (ρ := ℚ) s.fftIn) s.chunkIn) s.fftIn) s.fftOut) := by
  rw [← DivBridge.ofNum_rat_eq_exact]
  exact ⟨(FormulaTie.fft_getters ℚ s).1, (FormulaTie.fft_getters ℚ s).2.1, (FormulaTie.fft_getters ℚ s).2.2.1⟩

end Rubato.C04

/-! ### Session level, fixed-input types: the advertised bounds hold after ANY history

`fixedIn_getter_bounds` above is a statement about one state and takes the facts it needs as hypotheses (chunk size at
most the construction-time size, both ratios non-negative and at most `orig·max`).  The theorems below discharge those
hypotheses for every state a fixed-input resampler can reach from its constructor: any sequence of processing calls
(successful, rejected, crashed), ratio changes (absolute, relative, stepped, ramped, accepted or rejected), chunk-size
changes and resets. -/
namespace Rubato.C04
open Rubato

/-- one operation keeps `chunk ≤ maxChunk` [law-free] -/
theorem step_chunk_le {ρ σ : Type} [RNum ρ] [SNum ρ σ] (s : AState ρ σ) (h : s.chunk ≤ s.maxChunk) (op : AOp ρ σ) :
    (s.step op).chunk ≤ (s.step op).maxChunk := by
  cases op with
  | proc a =>
    have hf := process_frame s a
    show ((s.process a).1).chunk ≤ ((s.process a).1).maxChunk
    rw [hf.chunk, hf.maxChunk]; exact h
  | ratio r ramp =>
    show ((s.setRatio r ramp).1).chunk ≤ ((s.setRatio r ramp).1).maxChunk
    by_cases hr : ratioInRange r s.orig s.maxRel = true
    · have ha := C12.setRatio_accepted s r ramp hr
      simp only [] at ha
      obtain ⟨-, -, -, -, hc, hm, -⟩ := ha
      rw [hc, hm]; exact h
    · rw [C12.setRatio_rejected_unchanged s r ramp (fun hok => hr ((C12.setRatio_ok_iff s r ramp).1 hok))]
      exact h
  | rel x ramp =>
    show ((s.setRatio (s.orig * x) ramp).1).chunk ≤ ((s.setRatio (s.orig * x) ramp).1).maxChunk
    by_cases hr : ratioInRange (s.orig * x) s.orig s.maxRel = true
    · have ha := C12.setRatio_accepted s (s.orig * x) ramp hr
      simp only [] at ha
      obtain ⟨-, -, -, -, hc, hm, -⟩ := ha
      rw [hc, hm]; exact h
    · rw [C12.setRatio_rejected_unchanged s _ ramp (fun hok => hr ((C12.setRatio_ok_iff s _ ramp).1 hok))]
      exact h
  | chunk n =>
    show ((s.setChunk n).1).chunk ≤ ((s.setChunk n).1).maxChunk
    unfold AState.setChunk
    cases s.kind
    · exact h
    · exact h
    · simp only []
      split
      · exact h
      · next hn => simp at hn; exact hn.1
    · simp only []
      split
      · exact h
      · next hn => simp at hn; exact hn.1
  | reset =>
    show (s.reset).chunk ≤ (s.reset).maxChunk
    unfold AState.reset
    cases s.kind
    · exact h
    · exact h
    · exact Nat.le_refl _
    · exact Nat.le_refl _

/-- … hence any history does [law-free] -/
theorem chunk_le_after_any_history {ρ σ : Type} [RNum ρ] [SNum ρ σ] (s : AState ρ σ) (h : s.chunk ≤ s.maxChunk)
    (ops : List (AOp ρ σ)) : (s.run ops).chunk ≤ (s.run ops).maxChunk := by
  induction ops generalizing s with
  | nil => exact h
  | cons op ops ih => exact ih (s.step op) (step_chunk_le s h op)

/-- the constructor starts every resampler at its maximum chunk size -/
theorem init_chunk_eq {ρ σ : Type} [RNum ρ] [SNum ρ σ] (kind : AKind) (ratio maxRel : ρ) (deg : Degree)
    (sint : SincInterp) (ip : Interp σ) (chunk nch : Nat) (s0 : AState ρ σ)
    (h : AState.init kind ratio maxRel deg sint ip chunk nch = .ok s0) : s0.chunk = s0.maxChunk := by
  unfold AState.init at h
  split at h
  · simp at h
  · simp only [] at h
    split at h
    · injection h with h; subst h; rfl
    · injection h with h; subst h; rfl

/-- every operation keeps the kind [law-free] -/
theorem kind_after_any_history {ρ σ : Type} [RNum ρ] [SNum ρ σ] (kind : AKind) (ratio maxRel : ρ) (deg : Degree)
    (sint : SincInterp) (ip : Interp σ) (chunk nch : Nat) (s0 : AState ρ σ)
    (h : AState.init kind ratio maxRel deg sint ip chunk nch = .ok s0) (ops : List (AOp ρ σ)) :
    (s0.run ops).kind = s0.kind := by
  have hfix := C10.reset_init kind ratio maxRel deg sint ip chunk nch s0 h
  have h0 := C10.init_sameShape kind ratio maxRel deg sint ip chunk nch s0 h
  suffices ∀ s, SameShape s s0 → SameShape (s.run ops) s0 from (this s0 h0).kind
  induction ops with
  | nil => intro s hs; exact hs
  | cons op ops ih => intro s hs; exact ih _ (C10.step_sameShape s s0 hs hfix op)

/-- **C04, fixed-input types, session level** [exact].  A `FastFixedIn`/`SincFixedIn` built with ratio `> 0` and
`max_resample_ratio_relative ≥ 1`: after ANY history, `input_frames_next() ≤ input_frames_max()` and
`output_frames_next() ≤ output_frames_max()` — in the middle of a ramp, after a shrunken chunk size, after rejected
calls, after resets. -/
theorem fixedIn_bounds_after_any_history (kind : AKind) (ratio maxRel : ℚ) (deg : Degree) (sint : SincInterp)
    (ip : Interp ℚ) (chunk nch : Nat) (s0 : AState ℚ ℚ)
    (h : AState.init kind ratio maxRel deg sint ip chunk nch = .ok s0) (hk : s0.kind.isFixedIn = true)
    (ho : 0 < s0.orig) (hm : 1 ≤ s0.maxRel) (ops : List (AOp ℚ ℚ)) :
    (s0.run ops).inputFramesNext ≤ (s0.run ops).inputFramesMax ∧
    (s0.run ops).outputFramesNext ≤ (s0.run ops).outputFramesMax := by
  have hkind := kind_after_any_history kind ratio maxRel deg sint ip chunk nch s0 h ops
  have hc := chunk_le_after_any_history s0 (le_of_eq (init_chunk_eq kind ratio maxRel deg sint ip chunk nch s0 h)) ops
  obtain ⟨eo, em, -⟩ := C12.ratios_accepted_after_any_history s0
    (C12.init_ratiosOK kind ratio maxRel deg sint ip chunk nch s0 h) ops
  obtain ⟨⟨l1, u1⟩, ⟨l2, u2⟩⟩ := C12.ratios_in_documented_interval kind ratio maxRel deg sint ip chunk nch s0 h ho hm ops
  have hpos : 0 ≤ s0.orig / s0.maxRel := le_of_lt (div_pos ho (by linarith))
  refine fixedIn_getter_bounds (by rw [hkind]; exact hk) hc (le_trans hpos l1) (le_trans hpos l2) ?_ ?_
  · rw [eo, em]; exact u1
  · rw [eo, em]; exact u2

/-- non-vacuity: the constructor state of `OddLength.d18_init` (`SincFixedIn`, ratio 4) meets every hypothesis -/
example (a : CallArgs ℚ) :
    let s := OddLength.d18S0.run [.ratio 4 true, .chunk 3, .proc a, .ratio 9 false, .reset, .chunk 8]
    s.inputFramesNext ≤ s.inputFramesMax ∧ s.outputFramesNext ≤ s.outputFramesMax :=
  fixedIn_bounds_after_any_history _ _ _ _ _ _ _ _ OddLength.d18S0 OddLength.d18_init (by rfl)
    (by norm_num [OddLength.d18S0, OddLength.d18State]) (by norm_num [OddLength.d18S0, OddLength.d18State]) _

end Rubato.C04
