/-
C15 — SIMD kernels equal the scalar kernel; CPU dispatch is transparent.

[exact, any commutative semiring] on lane-level models of the seven kernels (RubatoModel/Kernels.lean:
scalar 8-accumulator, AVX f32 1×8, AVX f64 2×4, SSE f32 2×4, SSE f64 4×2 — executable here — and the two
NEON layouts, read from the source, not run on this x86 host), faithful to the order of operations and to
the horizontal-sum epilogues.  Helper lemmas live in RubatoProofs/Kernels/Dot.lean; this file states the
property theorems.  The ulp bound of "up to summation-order rounding" is standard floating-point error
analysis and is measured by the oracle, not mechanised.
-/
import RubatoProofs.Kernels.Dot
import RubatoProofs.Lemmas.DivBridge
import RubatoModel.SincTable

namespace Rubato.C15
open Rubato.Kern Rubato.KernProofs Finset

variable {α : Type} [CommSemiring α]

/-- every kernel computes the plain dot product of `wave[index .. index+length)` with the taps of the
selected sub-filter, for every waveform, start index and tap vector, when `length` is a multiple of 8
(what every constructor asserts) -/
theorem every_kernel_is_the_dot_product (wave : List α) (index : ℕ) (sinc : List α) (length : ℕ)
    (h8 : 8 ∣ length) (hs : sinc.length = length) :
    let d := ∑ k ∈ range length, wave.getD (index + k) 0 * sinc.getD k 0
    scalar wave index sinc = d ∧
    avxF32 wave index (pack 8 sinc) length = d ∧ avxF64 wave index (pack 4 sinc) length = d ∧
    sseF32 wave index (pack 4 sinc) length = d ∧ sseF64 wave index (pack 2 sinc) length = d ∧
    neonF32 wave index (pack 4 sinc) length = d ∧ neonF64 wave index (pack 2 sinc) length = d := by
  intro d
  have hsc := scalar_dot wave index sinc (hs ▸ h8)
  rw [hs] at hsc
  exact ⟨hsc, avxF32_dot wave index sinc length h8, avxF64_dot wave index sinc length h8,
    sseF32_dot wave index sinc length h8, sseF64_dot wave index sinc length h8,
    neonF32_dot wave index sinc length h8, neonF64_dot wave index sinc length h8⟩

/-- **AVX, SSE and NEON return what the scalar interpolator returns** (as polynomials in samples and taps:
the kernels differ only by re-association and commutation of the additions) -/
theorem simd_equals_scalar (wave : List α) (index : ℕ) (sinc : List α) (length : ℕ)
    (h8 : 8 ∣ length) (hs : sinc.length = length) :
    avxF32 wave index (pack 8 sinc) length = scalar wave index sinc ∧
    avxF64 wave index (pack 4 sinc) length = scalar wave index sinc ∧
    sseF32 wave index (pack 4 sinc) length = scalar wave index sinc ∧
    sseF64 wave index (pack 2 sinc) length = scalar wave index sinc ∧
    neonF32 wave index (pack 4 sinc) length = scalar wave index sinc ∧
    neonF64 wave index (pack 2 sinc) length = scalar wave index sinc :=
  all_kernels_agree wave index sinc length h8 hs

/-- `pack_sincs` is a bijection of the taps onto the lanes, in order -/
theorem packing_is_a_bijection {β : Type} (lanes : ℕ) (sinc : List β) (hd : lanes ∣ sinc.length) :
    (pack lanes sinc).flatten = sinc ∧ (pack lanes sinc).length = sinc.length / lanes ∧
    ∀ r ∈ pack lanes sinc, r.length = lanes :=
  ⟨pack_flatten lanes sinc hd, pack_length lanes sinc hd, pack_lanes lanes sinc hd⟩

/-- **all kernels read exactly the `sinc_len` samples starting at `index` and nothing else**: two waveforms
that agree on that window give the same result in every kernel, whatever they contain elsewhere -/
theorem kernels_read_exactly_the_window (wave wave' : List α) (index : ℕ) (sinc : List α)
    (p8 p4 p2 : List (List α)) (length : ℕ) (hs : sinc.length = length)
    (h : ∀ k < length, wave.getD (index + k) 0 = wave'.getD (index + k) 0) :
    scalar wave index sinc = scalar wave' index sinc ∧
    avxF32 wave index p8 length = avxF32 wave' index p8 length ∧
    avxF64 wave index p4 length = avxF64 wave' index p4 length ∧
    sseF32 wave index p4 length = sseF32 wave' index p4 length ∧
    sseF64 wave index p2 length = sseF64 wave' index p2 length ∧
    neonF32 wave index p4 length = neonF32 wave' index p4 length ∧
    neonF64 wave index p2 length = neonF64 wave' index p2 length :=
  reads_exactly wave index sinc wave' p8 p4 p2 length hs h

/-- the list of `wave` indices each loop shape touches is the window, each index once, in increasing order -/
theorem read_sets_are_the_window (index length : ℕ) :
    reads1x8 index length = List.range' index (8 * (length / 8)) ∧
    reads2x4 index length = List.range' index (8 * (length / 8)) ∧
    reads4x2 index length = List.range' index (8 * (length / 8)) :=
  ⟨reads1x8_eq index length, reads2x4_eq index length, reads4x2_eq index length⟩

/-- the scalar kernel of the executable twin (`Rubato.scalarDot`, used by the table interpolator of the
model that the correspondence check runs against the Rust code) IS the scalar kernel proved about here —
law-free, hence bit for bit at the IEEE instances -/
theorem model_scalar_kernel_is_this_one {ρ σ : Type} [Rubato.SNum ρ σ] (sincs : Array (Array σ))
    (wave : Array σ) (index sub : ℕ) :
    letI := zeroOfSNum (ρ := ρ) (σ := σ)
    Rubato.scalarDot sincs wave index sub = scalar wave.toList index (sincs.getD sub #[]).toList :=
  scalarDot_eq_scalar sincs wave index sub

/-- if `length` is not a multiple of 8 every kernel silently ignores the trailing `length % 8` taps — which is
why every constructor asserts `sinc_len % 8 == 0` (stated for the AVX f32 kernel; the others are the
`*_pack` lemmas of Dot.lean) -/
theorem trailing_taps_dropped (wave : List α) (index : ℕ) (sinc : List α) (length : ℕ) :
    avxF32 wave index (pack 8 sinc) length =
      ∑ k ∈ range (8 * (length / 8)), wave.getD (index + k) 0 * sinc.getD k 0 :=
  avxF32_pack wave index sinc length

/-! ### non-vacuity: a 16-tap example over ℤ with garbage outside the window -/
example : avxF64 w16 1 (pack 4 s16) 16 = scalar w16 1 s16 ∧ sseF64 w16 1 (pack 2 s16) 16 = scalar w16 1 s16 := by
  decide

end Rubato.C15

namespace Rubato.C15
open Rubato Rubato.Gen

/-! ### the dispatch (`make_interpolator`, regenerated by the translator, tie G7)

The translator checks on the source text that every kernel constructor of the dispatch (AVX, SSE, NEON, scalar) is called
with the same `(sinc_len, oversampling_factor, f_cutoff, window)` and that none of them is rebound in between (it fails the
run otherwise); the two statements that compute those arguments are regenerated, the model uses them verbatim, and: -/

/-- [exact] the length every kernel is built with is the requested length rounded up to a multiple of 8 — the
hypothesis `8 ∣ length` of the kernel theorems above always holds for tables built by the dispatch -/
theorem dispatch_table_length (n : ℕ) :
    interpLen (ρ := ℚ) n = 8 * ((n + 7) / 8) ∧ 8 ∣ interpLen (ρ := ℚ) n ∧ n ≤ interpLen (ρ := ℚ) n := by
  have h : interpLen (ρ := ℚ) n = 8 * ((n + 7) / 8) := by
    unfold interpLen Formulas.mkInterp_sinc_len
    simp only [Bridge.div32_eq, Bridge.ofNat32_eq, Bridge.n32_eq, Bridge.lit_eq, Bridge.ceil_eq]
    have h8 : ((8 : ℕ) : ℚ) / ((1 : ℕ) : ℚ) = ((8 : ℕ) : ℚ) := by norm_num
    rw [h8, DivBridge.ceil_natdiv]
    have hnn : (0 : ℤ) ≤ (((n + 8 - 1) / 8 : ℕ) : ℤ) := Int.natCast_nonneg _
    rw [Bridge.toNat_intCast_of_nonneg hnn, Int.toNat_natCast]
    rfl
  refine ⟨h, ?_, ?_⟩
  · rw [h]; exact Dvd.intro _ rfl
  · rw [h]; omega

/-- [exact] and the cutoff every kernel is built with is `f_cutoff·min(1, ratio)` -/
theorem dispatch_cutoff (fcut ratio : ℚ) :
    interpCutoff fcut ratio = if 1 ≤ ratio then fcut else fcut * ratio := by
  unfold interpCutoff Formulas.mkInterp_f_cutoff
  simp only [Bridge.ge_eq, Bridge.lit_eq, decide_eq_true_eq, Bridge.mul32_eq, Bridge.n32_eq]
  norm_num

end Rubato.C15
