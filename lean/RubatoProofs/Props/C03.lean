/-
C03 — No UB, out-of-bounds access, panic or spurious error on any valid call history.

[exact, ρ = σ = ℚ]  The model turns every slice access of the Rust code into an explicit range test that ends the call
with `Outcome.abort` (unchecked access) or `Outcome.panic` (checked access / assert); the theorems show these outcomes
are unreachable.

* Fixed-OUTPUT types (FastFixedOut, SincFixedOut): after ANY history of operations — processing calls with arbitrary
  arguments, in-range or rejected ratio changes WITH OR WITHOUT RAMP, chunk-size changes, resets — a processing call ends
  in `Ok` (or in the `Err` of argument validation), never in a panic or an out-of-range access; every read stays inside
  the frames loaded (apart from the one-frame overshoot D14).  This is the full statement for these types (it became
  true with the two `fix:` commits to the needed-size formula).
* Fixed-INPUT types: the full statement is FALSE on this tree under arbitrary ratio schedules (`*_false` witnesses below:
  findings D3/D4/D5); proved: constant ratio, any chunk-size schedule (`RubatoProofs/Async/FixedInHistory.lean` lifts the
  per-call theorems used here to whole histories), and sufficient conditions for stepped changes.
* FFT types: unconditional for accepted constructors (positive rates): every valid call of every valid history is `Ok`.
* Cubic/Quadratic with oversampling_factor 1 panics on every frame (finding D12): `osf1_panics`.
Not covered: f64/f32 rounding of the index arithmetic (watched by the bit-exact Float twin and the debug-assertion build),
machine-word overflow, safety inside realfft/rustfft.
-/
import RubatoProofs.Async.FixedIn
import RubatoProofs.Async.FixedOut
import RubatoProofs.Fft.Control
import RubatoProofs.Async.FixedInHistory
import RubatoProofs.Async.Diverge
import RubatoProofs.Async.OddLength
import RubatoProofs.Lemmas.StorageTie

set_option linter.unusedSectionVars false
set_option linter.unusedVariables false

namespace Rubato.C03
open Rubato Rubato.Bridge

/-! ### fixed-output types: never a crash, after any history, ramps included -/

/-- accepted constructor arguments give a state satisfying the invariant bundle `FixedOut.Good` -/
theorem fixedOut_init_good {kind : AKind} (hk : kind = .fastOut ∨ kind = .sincOut) {ratio maxRel : ℚ}
    {deg : Degree} {sint : SincInterp} {ip : Interp ℚ} {chunk nch : ℕ} {s : AState ℚ ℚ} (hc : 0 < chunk)
    (hLe : kind = .sincOut → 2 ∣ ip.len) (hL8 : kind = .sincOut → 8 ≤ ip.len) (hn : kind = .sincOut → 1 ≤ ip.nbr)
    (hn2 : kind = .sincOut → sint = .cubic ∨ sint = .quadratic → 2 ≤ ip.nbr)
    (h : AState.init kind ratio maxRel deg sint ip chunk nch = .ok s) : FixedOut.Good s :=
  FixedOut.good_init hk hc hLe hL8 hn hn2 h

/-- **after ANY history** (arbitrary processing calls, ratio changes with or without ramp, accepted or rejected,
chunk-size changes, resets) a processing call on a fixed-output resampler returns `Err` (argument validation) or `Ok`
with exactly `(input_frames_next, chunk)` — never a panic, never an out-of-range unchecked access. -/
theorem fixedOut_never_crashes {s : AState ℚ ℚ} (h : FixedOut.Good s) (ops : List FixedOut.Op) (a : CallArgs ℚ) :
    let s' := ops.foldl FixedOut.Op.apply s
    (∃ e, (s'.process a).2 = .err e) ∨
    (∃ out, (s'.process a).2 = .ok out ∧ out.nIn = s'.needed ∧ out.nOut = s'.chunk) :=
  FixedOut.process_after_any_history h ops a

/-- … and the `Err` can only come from the mask check or from `validate_buffers`: with a mask of the right length and
buffers of the advertised sizes the call is `Ok` -/
theorem fixedOut_valid_call_ok {s : AState ℚ ℚ} (h : FixedOut.Good s) (a : CallArgs ℚ) (mask : List Bool)
    (hm : updateMask s.nch a.mask = .ok mask)
    (hv : validateBuffers (a.input.map Array.size) a.outLens mask s.nch s.needed s.chunk = .ok ()) :
    ∃ out, (s.process a).2 = .ok out ∧ out.nIn = s.needed ∧ out.nOut = s.chunk := by
  rcases FixedOut.process_no_panic a h.inv h.buf h.L8 h.sinc with ⟨e, he, -⟩ | ⟨out, ho, -, -, -, h1, h2, -⟩
  · exfalso
    -- an `Err` needs a failed mask check or a failed validation; both succeeded
    unfold AState.process at he
    have hk := h.inv.not_fixedIn
    simp only [hm, AState.minIn, AState.minOut, hk, Bool.false_eq_true, if_false, hv] at he
    split at he
    · simp at he
    · unfold AState.finishOut at he
      simp only [] at he
      split at he
      · unfold faultOutcome at he; split at he <;> simp at he
      · simp at he
  · exact ⟨out, ho, h1, h2⟩

/-- reads of a FastFixedOut call stay inside the pre-roll plus the frames loaded by THIS call, for every degree -/
theorem fastOut_window_in_loaded_data {c : ℕ} (hc : 0 < c) {r0 r1 : ℚ} (hr0 : 0 < r0) (hr1 : 0 < r1)
    {last : ℚ} (hlast : -9 < last) {p : ℚ}
    (hp : p ∈ stepsOut ((1 / r1 - 1 / r0) / c) c (1 / r0) last) (deg : Degree) :
    0 ≤ fastStart deg p ∧ fastStart deg p + fastWidth deg ≤ 2 * 8 + (neededSinc last c r0 r1 8 : ℤ) :=
  FixedOut.fast_window_in_fill hc hr0 hr1 hlast hp deg

/-! ### fixed-input types at constant ratio (per call; whole histories in FixedInHistory.lean) -/

/-- FastFixedIn, constant ratio: from the invariant, a call with the advertised output room is `Ok`, consumes the chunk,
reads only supplied data (`stale = false`) and re-establishes the invariant — for every chunk size and every degree -/
theorem fastIn_call_safe {r : ℚ} (hr : 0 < r) (s : AState ℚ ℚ) (mask : List Bool) (fuel : ℕ)
    (hk : s.kind = .fastIn) (hL : s.L = 8) (hratio : s.ratio = r) (htarget : s.target = r)
    (hbuf : ∀ i : ℕ, i < mask.length → s.chunk + 16 ≤ (s.buf.getD i #[]).size)
    (hinv : FixedIn.Inv 8 ⌈1 / r⌉ s.lastIndex) (hf : outNextIn s.chunk r r ≤ fuel) :
    ∃ outs, (s.finishIn mask fuel).2 = .ok
        { nIn := s.chunk, nOut := FixedIn.nC s.chunk 8 r s.lastIndex, out := outs, stale := false } ∧
      FixedIn.Inv 8 ⌈1 / r⌉ (s.finishIn mask fuel).1.lastIndex ∧
      (s.finishIn mask fuel).1.ratio = r ∧ (s.finishIn mask fuel).1.target = r :=
  FixedIn.fastIn_call hr s mask fuel hk hL hratio htarget hbuf hinv hf

/-- SincFixedIn, constant ratio, any current chunk size (set_chunk_size schedules included) -/
theorem sincIn_call_safe {r : ℚ} (hr : 0 < r) (s : AState ℚ ℚ) (mask : List Bool) (fuel : ℕ)
    (hk : s.kind = .sincIn) (hL : 3 ≤ s.L) (hlen : s.ip.len = s.L) (hnbr : 2 ≤ s.ip.nbr)
    (hratio : s.ratio = r) (htarget : s.target = r)
    (hbuf : ∀ i : ℕ, i < mask.length → s.chunk + 2 * s.L ≤ (s.buf.getD i #[]).size)
    (hinv : FixedIn.Inv s.L ⌈1 / r⌉ s.lastIndex) (hf : outNextIn s.chunk r r ≤ fuel) :
    ∃ outs, (s.finishIn mask fuel).2 = .ok
        { nIn := s.chunk, nOut := FixedIn.nC s.chunk s.L r s.lastIndex, out := outs, stale := false } ∧
      FixedIn.Inv s.L ⌈1 / r⌉ (s.finishIn mask fuel).1.lastIndex ∧
      (s.finishIn mask fuel).1.ratio = r ∧ (s.finishIn mask fuel).1.target = r :=
  FixedIn.sincIn_call hr s mask fuel hk hL hlen hnbr hratio htarget hbuf hinv hf

/-- the invariant holds after construction and is preserved by every call, whatever the chunk size -/
theorem fixedIn_invariant {r : ℚ} (hr : 0 < r) (c L : ℕ) {fuel : ℕ} {last : ℚ}
    (hinv : FixedIn.Inv L ⌈1 / r⌉ last) (hf : FixedIn.nC c L r last ≤ fuel) :
    FixedIn.Inv L ⌈1 / r⌉ (FixedIn.nextLast c L r r fuel last) :=
  FixedIn.inv_preserved hr c L hinv hf

/-- stepped ratio changes: slowing down is always safe; speeding up is safe when `⌈1/old⌉ ≤ 1/new + 4` (fast) -/
theorem fastIn_jump_sufficient {r r' : ℚ} (hr' : 0 < r') {c fuel : ℕ} {last p : ℚ}
    (hinv : FixedIn.Inv 8 ⌈1 / r⌉ last) (hT : ((⌈1 / r⌉ : ℤ) : ℚ) ≤ 1 / r' + 4)
    (hp : p ∈ (FixedIn.callIn c 8 r' r' fuel last).1) (deg : Degree) :
    0 ≤ fastStart deg p ∧ fastStart deg p + fastWidth deg ≤ 16 + (c : ℤ) :=
  FixedIn.fast_jump_safe hr' hinv hT hp deg

/-! ### `get_nearest_time(s)_k` -/

/-- index offsets in `{-1,0,1}`, `0 ≤ subindex < factor` (factor ≥ 2 for Cubic/Quadratic) -/
theorem nearest_points_in_range (sint : SincInterp) (p : ℚ) {f : ℕ} (hf : 1 ≤ f)
    (hf2 : sint = .cubic ∨ sint = .quadratic → 2 ≤ f) :
    ∀ q ∈ nearestTimes sint p f, ⌊p⌋ - 1 ≤ q.1 ∧ q.1 ≤ ⌊p⌋ + 1 ∧ 0 ≤ q.2 ∧ q.2 < (f : ℤ) :=
  FixedOut.nearestTimes_bounds sint p hf hf2

/-! ### FFT types: unconditional -/

open FftProofs in
/-- a valid call on a well-formed state never fails in any way; accepted constructors give well-formed states and
valid calls keep them well-formed (`FftProofs.process_ok`), so this covers every valid history -/
theorem fft_valid_call_never_fails {σ υ : Type} (u : FftUnit σ υ) {s : FState σ υ} {input : List (List σ)}
    {outLens : List Nat} {um : Option (List Bool)} (hwf : WF s) (hv : ValidArgs s input outLens um) :
    (∀ e, (s.process DivArith.exact u input outLens um).2 ≠ .err e) ∧
    (∀ m, (s.process DivArith.exact u input outLens um).2 ≠ .panic m) ∧
    (∀ m, (s.process DivArith.exact u input outLens um).2 ≠ .abort m) :=
  process_no_failure u hwf hv

open FftProofs in
theorem fft_history_stays_wellformed {σ υ : Type} {u : FftUnit σ υ} {z : σ} {kind : FKind}
    {ri ro chunk sub nch : Nat} {s : FState σ υ}
    (h : FState.init DivArith.exact u z kind ri ro chunk sub nch = .ok s) (cs : List (Call σ))
    (hv : ValidHist u s cs) : WF (runCalls u s (0, 0) cs).1 :=
  (runCalls_ledger u cs s 0 0 (init_wf' h) (init_ledger h) hv).1

/-! ### the full statement is false on this tree: witnesses (kernel-evaluated on the model) -/

/-- D4: FastFixedIn, chunk 64, ratio 1/10 then a stepped change to 1: the window of the first frame of the next call
starts at buffer index −4 — out-of-range unchecked read -/
theorem fastIn_jump_false : FixedIn.isAbort (FixedIn.cexState2.finishIn [true] 100).2 = true :=
  FixedIn.cex_second_call_aborts

/-- the same state is what the constructor and one valid call produce -/
theorem fastIn_jump_witness_reachable :
    AState.init .fastIn (1/10 : ℚ) 10 .septic .cubic default 64 1 = .ok FixedIn.cexState :=
  FixedIn.cexState_is_init

/-- D5: after 11 calls at ratio 1/100, one call at ratio 1 wants 162 frames where `output_frames_next()` says 74 -/
theorem fastIn_count_false :
    (FixedIn.runIn 8 (1/100) (List.replicate 11 64) (-4, 0, 0)).1 = -108 ∧
    FixedIn.Inv 8 ⌈1 / (1/100 : ℚ)⌉ (-108) ∧ FixedIn.nC 64 8 1 (-108) = 162 ∧
    outNextIn 64 (1 : ℚ) 1 = 74 ∧ (FixedIn.callIn 64 8 1 1 74 (-108)).2.2 = true :=
  FixedIn.cex_count

/-- a RAMPED change from a fresh FastFixedIn (chunk 16, 1/10 → 1) reads past the end of the buffer -/
theorem fastIn_ramp_false : FixedIn.isAbort (FixedIn.rampState.finishIn [true] 18).2 = true :=
  FixedIn.cex_ramp_call_aborts

/-- D12: Cubic/Quadratic with oversampling_factor = 1 trips the sub-index assertion at EVERY position -/
theorem osf1_panics {s : AState ℚ ℚ} (hk : s.kind.isSinc = true) (hn : s.ip.nbr = 1)
    (hs : s.sint = .cubic ∨ s.sint = .quadratic) (bufLen : ℕ) (p : ℚ) :
    posFault s bufLen p = some (.panic "get_sinc_interpolated") :=
  FixedOut.sinc_factor_one_faults hk hn hs bufLen p

end Rubato.C03

namespace Rubato.C03
open Rubato

/-! ### fixed-input types, whole histories at constant ratio (lifted in RubatoProofs/Async/FixedInHistory.lean) -/

/-- **FastFixedIn / SincFixedIn at constant ratio**: from an accepted constructor call, after ANY list of operations
(processing calls with arbitrary — valid or malformed — arguments, set_chunk_size with any argument, reset), a call with
a mask of the right length and buffers of the advertised sizes returns `Ok`, consumes exactly `input_frames_next()`,
writes at most `output_frames_next() ≤ output_frames_max()` frames, reads only supplied data, and a malformed call
returns `Err`; a panic or an out-of-range access is unreachable. -/
theorem fixedIn_constant_ratio_never_crashes {kind : AKind} (hk : kind = .fastIn ∨ kind = .sincIn) {ratio maxRel : ℚ}
    {deg : Degree} {sint : SincInterp} {ip : Interp ℚ} {chunk nch : ℕ} {s0 : AState ℚ ℚ}
    (hL : kind = .sincIn → 3 ≤ ip.len) (hn : kind = .sincIn → 1 ≤ ip.nbr)
    (hn2 : kind = .sincIn → sint = .cubic ∨ sint = .quadratic → 2 ≤ ip.nbr)
    (hm : outNextIn chunk ratio ratio ≤ idleFuel)
    (h : AState.init kind ratio maxRel deg sint ip chunk nch = .ok s0) (ops : List FixedInHistory.OpC)
    (a : CallArgs ℚ) :
    let s := ops.foldl FixedInHistory.OpC.apply s0
    (FixedInHistory.ValidCall s a → ∃ out, (s.process a).2 = .ok out ∧ out.nIn = s.inputFramesNext ∧
        out.nOut ≤ s.outputFramesNext ∧ s.outputFramesNext ≤ s.outputFramesMax ∧ out.stale = false ∧
        FixedInHistory.GoodIn (s.process a).1) ∧
    (¬ FixedInHistory.ValidCall s a → ∃ e, (s.process a).2 = .err e) :=
  FixedInHistory.fixedIn_constant_ratio_safe hk hL hn hn2 hm h ops a

end Rubato.C03

namespace Rubato.C03
open Rubato

/-- finding D17 on the model [exact]: once the ramp has driven the step to `t + inc ≤ 0` with `inc ≤ 0`, the fixed-input
stepping loop never reaches `end_idx` — it uses up ANY fuel and emits one position per unit of fuel.  With an active channel
the fuel is the room of the output buffer (out-of-range write, D3/D4); with no active channel the real loop has nothing that
stops it (the model ends the call in `panic "position diverges"` after its idle fuel) -/
theorem fixedIn_ramp_can_diverge (inc endIdx : ℚ) (hinc : inc ≤ 0) (fuel : ℕ) (t idx : ℚ)
    (ht : t + inc ≤ 0) (hi : idx < endIdx) :
    (stepsIn inc endIdx fuel t idx).2.2 = true ∧ (stepsIn inc endIdx fuel t idx).1.length = fuel :=
  ⟨Diverge.stepsIn_diverges inc endIdx hinc fuel t idx ht hi, Diverge.stepsIn_diverges_length inc endIdx hinc fuel t idx ht hi⟩

end Rubato.C03

namespace Rubato.C03
open Rubato

/-- finding D18 on the model (kernel-evaluated witness): `SincFixedIn` built around a user interpolator of length 1 (ratio 4,
chunk 8, Linear, 2 sub-filters) is accepted by the constructor, its first call succeeds, its SECOND valid call panics in
`get_sinc_interpolated`; the same configuration with length 2 runs four calls without failure -/
theorem sincIn_user_interpolator_len1_false :
    AState.init .sincIn (4 : ℚ) 1 .cubic SincInterp.linear (probeInterp (ρ := ℚ) 1 2) 8 1 = .ok OddLength.d18S0 ∧
    OddLength.isPanic (OddLength.outcomeOf 1 OddLength.d18S0) = true ∧
    OddLength.okSummary (OddLength.outcomeOf 3 OddLength.d18C0) = some (8, 32, false) :=
  ⟨OddLength.d18_init, OddLength.d18_panics, OddLength.d18_control_ok.2.2.2⟩

end Rubato.C03

namespace Rubato.C03
open Rubato Rubato.Gen

/-- tie G13: the per-channel storage the model's constructors allocate is what the Rust constructors allocate (regenerated
formulas; fixed-output asynchronous types: `FormulaTie.fastOut_buffer_len` / `sincOut_buffer_len`) -/
theorem constructor_storage_is_the_source_text {ρ : Type} [RNum ρ] (chunk L fi fo : Nat) :
    chunk + 2 * Fast.polyLen = Storage.fastIn_buffer_len (ρ := ρ) chunk ∧
    chunk + 2 * L = Storage.sincIn_buffer_len (ρ := ρ) chunk L ∧
    chunk + fi = Storage.fftIn_input_buffer_len (ρ := ρ) chunk fi ∧
    chunk + fo = Storage.fftOut_output_buffer_len (ρ := ρ) chunk fo ∧
    Storage.fftIo_overlap_len (ρ := ρ) fo = fo ∧ Storage.fftIn_overlap_len (ρ := ρ) fo = fo ∧
    Storage.fftOut_overlap_len (ρ := ρ) fo = fo :=
  ⟨rfl, rfl, rfl, rfl, rfl, rfl, rfl⟩

/-- ... and it is enough: FftFixedIn can always append a whole request behind fewer than one block of carried-over frames;
FftFixedOut can always append the blocks that complete a chunk behind the frames it carried over; the fixed-input
asynchronous types load one chunk behind two filter lengths of history. -/
theorem constructor_storage_suffices {ρ : Type} [RNum ρ] (chunk L fi fo saved : Nat) :
    (saved < fi → saved + chunk ≤ Storage.fftIn_input_buffer_len (ρ := ρ) chunk fi) ∧
    (0 < fo → saved ≤ chunk →
      saved + ((chunk - saved + fo - 1) / fo) * fo ≤ Storage.fftOut_output_buffer_len (ρ := ρ) chunk fo) ∧
    Refill.sincIn_load_to (ρ := ρ) L chunk ≤ Storage.sincIn_buffer_len (ρ := ρ) chunk L ∧
    Refill.fastIn_load_to (ρ := ρ) chunk ≤ Storage.fastIn_buffer_len (ρ := ρ) chunk :=
  ⟨StorageTie.fftIn_input_fits chunk fi saved, StorageTie.fftOut_output_fits chunk fo saved,
   (StorageTie.asyncIn_load_fits chunk L).1, (StorageTie.asyncIn_load_fits chunk L).2⟩

/-- the storage formulas read the constructor arguments one expects -/
theorem storage_formulas_read_the_expected_locals_C03 :
    Storage.storageParams =
      [("fastIn_buffer_len", ["chunk_size"]),
       ("sincIn_buffer_len", ["chunk_size", "sinc_len"]),
       ("fftIo_overlap_len", ["fft_size_out"]),
       ("fftOut_overlap_len", ["fft_size_out"]),
       ("fftOut_output_buffer_len", ["chunk_size_out", "fft_size_out"]),
       ("fftIn_overlap_len", ["fft_size_out"]),
       ("fftIn_input_buffer_len", ["chunk_size_in", "fft_size_in"])] :=
  StorageTie.storage_formulas_read_the_expected_locals

end Rubato.C03

namespace Rubato.C03
open Rubato Rubato.Gen

/-- tie G17: which constructor arguments are rejected is the source text: `validate_ratios` (both copies agree) is
`ratio <= 0 -> InvalidRatio`, then `max_relative < 1 -> InvalidRelativeRatio`; `validate_sample_rates` is `input == 0 ||
output == 0`; and every one of the seven constructors validates its own arguments in its first statement, before it computes
or allocates anything (the sinc `new` hand the same arguments to `new_with_interpolator`).  Everything the theorems assume of
an accepted configuration (`0 < ratio`, `1 ≤ max_relative`, positive rates) comes from here. -/
theorem constructor_validation_is_the_source_text (r m : Rat) (ri ro : Nat) :
    validateRatios r m =
      (if Ctor.ctor_invalid_ratio r then .error .invalidRatio
       else if Ctor.ctor_invalid_relative m then .error .invalidRelativeRatio else .ok ()) ∧
    ((ri = 0 ∨ ro = 0) ↔ Ctor.ctor_invalid_rates (ρ := Rat) ri ro = true) ∧
    (∀ e ∈ Ctor.ctorValidatesFirst, e.2 = 1) ∧ Ctor.ctorValidatesFirst.map (·.1) = [0, 1, 2, 3, 4, 5, 6] :=
  ⟨CtorTie.validateRatios_is_generated r m, CtorTie.invalid_rates_is_generated ri ro,
   CtorTie.constructors_validate_first, CtorTie.constructors_validate_first_all⟩

end Rubato.C03

namespace Rubato.C03
open Rubato

/-- finding D20 on the model (kernel-evaluated witness): `SincFixedOut` built around a user interpolator of length 1 (ratio 13,
chunk 12, Linear, 3 sub-filters: one input frame per call, a buffer of 4) is accepted by the constructor and its FIRST valid
call panics in `get_sinc_interpolated`; the same configuration with length 2 runs four calls without failure.  (The
fixed-output safety theorems above carry `8 ≤ len`, `2 ∣ len`: this is the excluded corner, run.) -/
theorem sincOut_user_interpolator_len1_false :
    AState.init .sincOut (13 : ℚ) 1 .cubic SincInterp.linear (probeInterp (ρ := ℚ) 1 3) 12 1 = .ok OddLength.d20S0 ∧
    OddLength.isPanic (OddLength.outcomeOf 0 OddLength.d20S0) = true ∧
    (OddLength.okSummary (OddLength.outcomeOf 3 OddLength.d20C0)).isSome = true :=
  ⟨OddLength.d20_init, OddLength.d20_panics, OddLength.d20_control_ok.2.2.2⟩

end Rubato.C03
