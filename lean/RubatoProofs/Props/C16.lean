/-
C16 — Convenience wrappers equal the core call; partial processing equals zero-padding.

[law-free] over an ABSTRACT core (`Core S χ`: any `process_into_buffer` with its two getters), so the
statements hold for all seven resampler types and both sample types at once.
-/
import RubatoModel.Wrappers
import RubatoModel.Generated

set_option linter.unusedSectionVars false
set_option linter.unusedVariables false

namespace Rubato.C16
open Rubato
variable {S χ : Type}

/-- laws of a channel container (satisfied by `Array σ` and `List σ`) -/
structure ChanLaws (C : Core S χ) : Prop where
  takeN_all : ∀ (x : χ) (n : Nat), C.size x ≤ n → C.takeN x n = x
  size_zeros : ∀ n, C.size (C.zeros n) = n
  size_takeN : ∀ (x : χ) (n : Nat), C.size (C.takeN x n) = min n (C.size x)
  size_append : ∀ x y, C.size (C.append x y) = C.size x + C.size y
  zeros_zero : C.zeros 0 = C.empty

/-- `process()` hands the core exactly: the caller's input, output buffers of `output_frames_next()` frames for
the channels the mask keeps (empty ones for the others), and the caller's mask. -/
theorem process_calls_core (C : Core S χ) (s : S) (input : List χ) (mask : Option (List Bool)) :
    (processW C s input mask).1 = (C.proc s input (wrapOutLens C s mask) mask).1 := by
  rcases hp : C.proc s input (wrapOutLens C s mask) mask with ⟨s', o⟩
  rcases o with ⟨_, _, _⟩ | _ | _ | _ <;> simp [processW, hp]

/-- `process()` fails exactly when the core fails, with the same error -/
theorem process_err (C : Core S χ) (s : S) (input : List χ) (mask : Option (List Bool)) (e : RErr)
    (h : (C.proc s input (wrapOutLens C s mask) mask).2 = .err e) :
    (processW C s input mask).2 = .err e := by
  rcases hp : C.proc s input (wrapOutLens C s mask) mask with ⟨s', o⟩
  rw [hp] at h
  simp only [] at h
  subst h
  simp [processW, hp]

/-- `process()` returns exactly the frames the core wrote: for a channel the core wrote `v` (with `size v = nOut`)
the vector returned is `v`; for a channel the core skipped the vector is what was allocated, cut to `nOut`. -/
theorem process_returns_written (C : Core S χ) (L : ChanLaws C) (s : S) (input : List χ)
    (mask : Option (List Bool)) (s' : S) (nIn nOut : Nat) (out : List (Option χ))
    (h : C.proc s input (wrapOutLens C s mask) mask = (s', .ok (nIn, nOut, out)))
    (hsz : ∀ v, some v ∈ out → C.size v = nOut) :
    ∃ res, processW C s input mask = (s', .ok res) ∧ res.length = min (wrapOutLens C s mask).length out.length ∧
      ∀ (c : Nat) (v : χ), out[c]? = some (some v) → c < (wrapOutLens C s mask).length → res[c]? = some v := by
  refine ⟨wrapResult C (wrapOutLens C s mask) nOut out, ?_, ?_, ?_⟩
  · unfold processW; simp only [h]
  · simp [wrapResult]
  · intro c v hv hc
    simp only [wrapResult, List.getElem?_map, List.getElem?_zip_eq_some, Option.map_eq_some_iff]
    refine ⟨((wrapOutLens C s mask)[c], some v), ⟨by simp [hc], hv⟩, ?_⟩
    simp only []
    apply L.takeN_all
    rw [hsz v (List.mem_of_getElem? hv)]
    exact Nat.le_refl _

/-- masked-out channels come back as empty vectors -/
theorem process_masked_empty (C : Core S χ) (L : ChanLaws C) (s : S) (m : List Bool) (c : Nat)
    (hc : c < C.nch s) (hm : m[c]? = some false) :
    (wrapOutLens C s (some m))[c]? = some 0 := by
  simp [wrapOutLens, maskAt, hc, hm]

/-- `process_partial_into_buffer(Some(x))` IS `process_into_buffer` on `x` cut to `input_frames_next()` and
padded with zeros (a zero-length channel is passed as an empty slice, as in the Rust code) -/
theorem partial_is_padding (C : Core S χ) (s : S) (xs : List χ) (outLens : List Nat)
    (mask : Option (List Bool)) :
    processPartialInto C s (some xs) outLens mask = C.proc s (paddedInput C s (some xs)) outLens mask := rfl

/-- every padded channel of a non-empty input has exactly `input_frames_next()` frames, starting with the given
frames, for every given length `1 ≤ k` -/
theorem padded_channel (C : Core S χ) (L : ChanLaws C) (s : S) (xs : List χ) (c : Nat) (x : χ)
    (hc : c < C.nch s) (hx : xs[c]? = some x) (hk : 0 < C.size x) (h0 : 0 < C.inNext s) :
    (paddedInput C s (some xs))[c]? =
      some (C.append (C.takeN x (min (C.size x) (C.inNext s))) (C.zeros (C.inNext s - min (C.size x) (C.inNext s)))) ∧
    C.size (C.append (C.takeN x (min (C.size x) (C.inNext s))) (C.zeros (C.inNext s - min (C.size x) (C.inNext s))))
        = C.inNext s := by
  constructor
  · simp only [paddedInput, List.getElem?_map, List.getElem?_range hc, Option.map_some, hx]
    have : min (C.size x) (C.inNext s) > 0 := by omega
    simp [this]
  · rw [L.size_append, L.size_takeN, L.size_zeros]
    omega

/-- a channel given with zero frames is passed on as an empty slice (the `clear()` branch) -/
theorem padded_channel_empty (C : Core S χ) (s : S) (xs : List χ) (c : Nat) (x : χ)
    (hc : c < C.nch s) (hx : xs[c]? = some x) (hk : C.size x = 0) :
    (paddedInput C s (some xs))[c]? = some C.empty := by
  simp [paddedInput, List.getElem?_range hc, hx, hk]

/-- channels missing from the partial input are all zeros -/
theorem padded_channel_missing (C : Core S χ) (s : S) (xs : List χ) (c : Nat)
    (hc : c < C.nch s) (hx : xs[c]? = none) :
    (paddedInput C s (some xs))[c]? = some (C.zeros (C.inNext s)) := by
  simp [paddedInput, List.getElem?_range hc, hx]

/-- `n`-fold iteration -/
def iter {α : Type} (f : α → α) : Nat → α → α
  | 0, a => a
  | n + 1, a => iter f n (f a)

/-- `process_partial_into_buffer(None)` IS processing an all-zero chunk -/
theorem partial_none_is_zero_chunk (C : Core S χ) (s : S) (outLens : List Nat) (mask : Option (List Bool)) :
    processPartialInto C s none outLens mask =
      C.proc s (List.replicate (C.nch s) (C.zeros (C.inNext s))) outLens mask := rfl

/-- repeated `None` calls = feeding zero chunks: the state after `n` flush calls is the state after `n`
all-zero chunks (so they push the tail of the stream out) -/
theorem flush_is_zero_feed (C : Core S χ) (outLens : List Nat) (mask : Option (List Bool)) (n : Nat) (s : S) :
    (iter (fun s => (processPartialInto C s none outLens mask).1) n s) =
    (iter (fun s => (C.proc s (List.replicate (C.nch s) (C.zeros (C.inNext s))) outLens mask).1) n s) := rfl

/-- `process_partial` is `process` composed with the padding -/
theorem partial_wrapper (C : Core S χ) (s : S) (input : Option (List χ)) (mask : Option (List Bool)) :
    processPartialW C s input mask = processW C s (paddedInput C s input) mask := by
  unfold processPartialW processW processPartialInto
  rfl

/-! ### the object-safe wrapper trait (`implement_resampler!`, extracted by the translator, tie G8) -/

/-- every method of the generated wrapper trait is one call of the `rubato::Resampler` method OF THE SAME NAME, on
`self`, with the wrapper's own parameters in their own order — "forwards every method unchanged" as a statement about
the macro text the translator extracted from lib.rs in this run -/
theorem vec_wrapper_forwards_same_method :
    ∀ e ∈ Rubato.Gen.Forward.forwardTable, e.2.1 = e.1 ∧ e.2.2.1 = List.range e.2.2.2 := by
  decide

/-- and the blanket impl defines every declared method exactly once -/
theorem vec_wrapper_covers_all_methods :
    (Rubato.Gen.Forward.forwardTable.map (·.1)).Perm (List.range Rubato.Gen.Forward.forwardMethods) := by
  decide

end Rubato.C16

namespace Rubato.C16
open Rubato.Gen

/-- tie G16 (lib.rs, regenerated on every run): the provided methods of `Resampler` are what the model's wrappers are:
`process` and `process_partial` allocate `output_frames_next()` frames for every ACTIVE channel (an empty vector for a
masked one), delegate to `process_into_buffer` / `process_partial_into_buffer`, truncate every channel to the returned
length; `process_partial_into_buffer` zero-pads to `input_frames_next()` frames per channel (at most that many frames of
every supplied channel are copied, an empty one is cleared) and delegates to `process_into_buffer`;
`input_buffer_allocate` / `output_buffer_allocate` are `make_buffer(nbr_channels, input_frames_max / output_frames_max,
filled)`.  The statement shapes are checked on the text; the table records which getter sizes what and who is called. -/
theorem trait_defaults_are_the_source_text :
    TraitDefaults.traitDefaults = [(0, 2, 0), (1, 0, 0), (2, 2, 1), (3, 1, 2), (4, 3, 2)] := by
  decide

end Rubato.C16
