/-
C10 — reset() returns the resampler to its freshly-constructed behaviour.

[law-free]: proved for EVERY instance of the arithmetic interfaces (`RNum ρ`, `SNum ρ σ`), so it is
literally true of the IEEE instantiation that the correspondence check ties to the Rust code: after any
sequence of operations, `reset` yields the very state the constructor produced — as an equality of
complete model states (buffers, position, both ratios, chunk size, needed size, fill, mask) — hence
identical getters and, `step` being a function, bit-identical futures.
-/
import RubatoProofs.Lemmas.Shape
import RubatoProofs.Fft.Control
import RubatoProofs.Lemmas.FormulaTie
import RubatoModel.Generated

namespace Rubato.C10
open Rubato
variable {ρ σ : Type} [RNum ρ] [SNum ρ σ]

theorem setRatio_sameShape (s s0 : AState ρ σ) (h : SameShape s s0) (r : ρ) (ramp : Bool) :
    SameShape (s.setRatio r ramp).1 s0 := by
  unfold AState.setRatio
  split
  · cases hk : s.kind <;> simp only [] <;>
      exact ⟨by simpa [hk] using h.kind, h.nch, h.maxChunk, h.orig, h.maxRel, h.L, h.deg, h.sint, h.ip, h.shape,
        fun hh => h.chunkFast (by simpa [hk] using hh), fun hh => by first | exact h.neededIn (by simpa [hk] using hh) | simp [hk] at hh,
        fun hh => by first | exact h.fillFastIn (by simpa [hk] using hh) | simp [hk] at hh⟩
  · exact h

theorem setChunk_sameShape (s s0 : AState ρ σ) (h : SameShape s s0) (n : Nat) :
    SameShape (s.setChunk n).1 s0 := by
  unfold AState.setChunk
  cases hk : s.kind <;> simp only []
  · exact h
  · exact h
  · split
    · exact h
    · exact ⟨by simpa [hk] using h.kind, h.nch, h.maxChunk, h.orig, h.maxRel, h.L, h.deg, h.sint, h.ip, h.shape,
        fun hh => by simp [hk] at hh, fun _ => h.neededIn (Or.inr hk), fun hh => by simp [hk] at hh⟩
  · split
    · exact h
    · exact ⟨by simpa [hk] using h.kind, h.nch, h.maxChunk, h.orig, h.maxRel, h.L, h.deg, h.sint, h.ip, h.shape,
        fun hh => by simp [hk] at hh, fun hh => by simp [hk] at hh, fun hh => by simp [hk] at hh⟩

theorem process_sameShape (s s0 : AState ρ σ) (h : SameShape s s0) (a : CallArgs σ) :
    SameShape (s.process a).1 s0 := by
  have f := process_frame s a
  refine ⟨f.kind.trans h.kind, f.nch.trans h.nch, f.maxChunk.trans h.maxChunk, f.orig.trans h.orig,
    f.maxRel.trans h.maxRel, f.L.trans h.L, f.deg.trans h.deg, f.sint.trans h.sint, f.ip.trans h.ip,
    f.shape.trans h.shape, fun hh => ?_, fun hh => ?_, fun hh => ?_⟩
  · rw [f.kind] at hh; rw [f.chunk]; exact h.chunkFast hh
  · rw [f.kind] at hh
    have : s.kind.isFixedIn = true := by rcases hh with e | e <;> simp [e, AKind.isFixedIn]
    rw [f.neededIn this]; exact h.neededIn hh
  · rw [f.kind] at hh
    have hfi : s.kind.isFixedIn = true := by simp [hh, AKind.isFixedIn]
    obtain ⟨h1, h2⟩ := h.fillFastIn hh
    refine ⟨?_, h2⟩
    rcases f.fillIn hfi with e | e
    · rw [e]; exact h1
    · rw [e, h.chunkFast (Or.inl hh)]; exact h2.symm

/-- the state `reset` computes depends only on what `SameShape` pins down -/
theorem reset_eq_of_sameShape (s s0 : AState ρ σ) (h : SameShape s s0) : s.reset = s0.reset := by
  obtain ⟨hk, hn, hm, ho, hr, hL, hd, hs, hi, hsh, hcf, hni, hff⟩ := h
  have hz : zeroLike s.buf = zeroLike s0.buf := by
    unfold zeroLike
    apply Array.ext'
    simp only [Array.toList_map]
    unfold bufShape at hsh
    have : s.buf.toList.map (fun ch => Array.replicate ch.size (SNum.zero : σ)) =
        (s.buf.toList.map Array.size).map (fun n => Array.replicate n (SNum.zero : σ)) := by
      simp [List.map_map, Function.comp]
    rw [this, hsh]; simp [List.map_map, Function.comp]
  unfold AState.reset
  cases hk0 : s0.kind <;> rw [hk0] at hk <;> simp only [hk]
  · -- fastIn
    have c := hcf (Or.inl hk); have nd := hni (Or.inl hk); obtain ⟨f1, _⟩ := hff hk
    cases s; cases s0; simp_all
  · have c := hcf (Or.inr hk)
    cases s; cases s0; simp_all
  · have nd := hni (Or.inr hk)
    cases s; cases s0; simp_all
  · cases s; cases s0; simp_all

/-- a fresh state is a fixed point of `reset` -/
theorem reset_init (kind : AKind) (ratio maxRel : ρ) (deg : Degree) (sint : SincInterp) (ip : Interp σ)
    (chunk nch : Nat) (s0 : AState ρ σ) (h : AState.init kind ratio maxRel deg sint ip chunk nch = .ok s0) :
    s0.reset = s0 := by
  unfold AState.init at h
  split at h
  · simp at h
  · simp only [] at h
    have hzz : ∀ len, zeroLike (zeroBuf (σ := σ) nch len) = zeroBuf nch len := by
      intro len; unfold zeroLike zeroBuf; apply Array.ext' ; simp
    split at h
    · next hfi =>
      injection h with h; subst h
      unfold AState.reset
      cases kind <;> simp_all [AKind.isFixedIn, hzz]
    · next hfi =>
      injection h with h; subst h
      unfold AState.reset
      cases kind <;> simp_all [AKind.isFixedIn, hzz]

theorem init_sameShape (kind : AKind) (ratio maxRel : ρ) (deg : Degree) (sint : SincInterp) (ip : Interp σ)
    (chunk nch : Nat) (s0 : AState ρ σ) (h : AState.init kind ratio maxRel deg sint ip chunk nch = .ok s0) :
    SameShape s0 s0 := by
  apply SameShape.refl_of
  intro hk
  unfold AState.init at h
  split at h
  · simp at h
  · simp only [] at h
    split at h
    · injection h with h; subst h; rfl
    · next hfi => injection h with h; subst h; simp [AKind.isFixedIn] at hfi hk; simp [hk] at hfi

theorem step_sameShape (s s0 : AState ρ σ) (h : SameShape s s0) (hfix : s0.reset = s0) (op : AOp ρ σ) :
    SameShape (s.step op) s0 := by
  cases op with
  | proc a => exact process_sameShape s s0 h a
  | ratio r ramp => exact setRatio_sameShape s s0 h r ramp
  | rel r ramp => exact setRatio_sameShape s s0 h _ ramp
  | chunk n => exact setChunk_sameShape s s0 h n
  | reset =>
    show SameShape s.reset s0
    rw [reset_eq_of_sameShape s s0 h, hfix]
    exact SameShape.refl_of s0 (fun hk => (h.fillFastIn (h.kind.trans hk)).2)

/-- **C10 (asynchronous resamplers).**  Whatever happened before — any number of processing calls
(successful, failed or even crashed), ratio changes with or without ramp (completed or pending),
chunk-size changes, earlier resets — `reset` returns exactly the constructor's state. -/
theorem reset_returns_fresh_state (kind : AKind) (ratio maxRel : ρ) (deg : Degree) (sint : SincInterp)
    (ip : Interp σ) (chunk nch : Nat) (s0 : AState ρ σ)
    (h : AState.init kind ratio maxRel deg sint ip chunk nch = .ok s0) (ops : List (AOp ρ σ)) :
    (s0.run ops).reset = s0 := by
  have hfix := reset_init kind ratio maxRel deg sint ip chunk nch s0 h
  have h0 := init_sameShape kind ratio maxRel deg sint ip chunk nch s0 h
  suffices ∀ s, SameShape s s0 → SameShape (s.run ops) s0 by
    rw [reset_eq_of_sameShape _ _ (this s0 h0), hfix]
  induction ops with
  | nil => intro s hs; exact hs
  | cons op ops ih => intro s hs; exact ih _ (step_sameShape s s0 hs hfix op)

/-- consequence: all getters after `reset` are those of a fresh instance -/
theorem getters_after_reset (kind : AKind) (ratio maxRel : ρ) (deg : Degree) (sint : SincInterp)
    (ip : Interp σ) (chunk nch : Nat) (s0 : AState ρ σ)
    (h : AState.init kind ratio maxRel deg sint ip chunk nch = .ok s0) (ops : List (AOp ρ σ)) :
    let s := (s0.run ops).reset
    s.inputFramesNext = s0.inputFramesNext ∧ s.inputFramesMax = s0.inputFramesMax ∧
    s.outputFramesNext = s0.outputFramesNext ∧ s.outputFramesMax = s0.outputFramesMax ∧
    s.outputDelay = s0.outputDelay := by
  intro s
  have hs : s = s0 := reset_returns_fresh_state kind ratio maxRel deg sint ip chunk nch s0 h ops
  rw [hs]
  exact ⟨rfl, rfl, rfl, rfl, rfl⟩

/-- consequence: any future after `reset` is the future of a fresh instance (bit-identical outputs and counts) -/
theorem future_after_reset (kind : AKind) (ratio maxRel : ρ) (deg : Degree) (sint : SincInterp)
    (ip : Interp σ) (chunk nch : Nat) (s0 : AState ρ σ)
    (h : AState.init kind ratio maxRel deg sint ip chunk nch = .ok s0) (before after : List (AOp ρ σ))
    (a : CallArgs σ) :
    (((s0.run before).reset).run after).process a = (s0.run after).process a := by
  rw [reset_returns_fresh_state kind ratio maxRel deg sint ip chunk nch s0 h before]

end Rubato.C10

namespace Rubato.C10
open Rubato Rubato.FftProofs

/-- **C10 (synchronous resamplers).**  After ANY valid history, `reset` returns exactly the constructor's state
(overlaps, buffers, `saved_frames`, `frames_needed`, mask) — hence identical getters and identical futures. -/
theorem fft_reset_returns_fresh_state {σ υ : Type} {u : FftUnit σ υ} {z : σ} {kind : FKind}
    {ri ro chunk sub nch : Nat} {s : FState σ υ}
    (h : FState.init DivArith.exact u z kind ri ro chunk sub nch = .ok s)
    (cs : List (Call σ)) (hv : ValidHist u s cs) :
    FState.reset DivArith.exact u z (runCalls u s (0, 0) cs).1 = s :=
  reset_after_history h cs hv

end Rubato.C10

namespace Rubato.C10
open Rubato Rubato.Gen

/-- tie G7: the read position a constructor starts from and the one `reset()` restores are the same regenerated
expression `-(L/2)` (all four asynchronous types; `L = POLYNOMIAL_LEN` for the polynomial ones) -/
theorem reset_restores_the_constructor_position {ρ : Type} [RNum ρ] (L : Nat) :
    (Formulas.sincIn_reset_last_index L : ρ) = Formulas.sincIn_new_last_index L ∧
    (Formulas.sincOut_reset_last_index L : ρ) = Formulas.sincOut_new_last_index L ∧
    (Formulas.fastIn_reset_last_index : ρ) = Formulas.fastIn_new_last_index ∧
    (Formulas.fastOut_reset_last_index : ρ) = Formulas.fastOut_new_last_index ∧
    (- RNum.ofNat (L / 2) : ρ) = Formulas.sincIn_new_last_index L ∧
    (- RNum.ofNat (Fast.polyLen / 2) : ρ) = Formulas.fastIn_new_last_index :=
  ⟨rfl, rfl, rfl, rfl, rfl, rfl⟩

end Rubato.C10

namespace Rubato.C10
open Rubato.Gen

/-- tie G12 (syntactic, regenerated on every run): every field of the seven resampler structs that any method other than the
constructors and `reset` writes is restored by `reset()` — by a whole-buffer zero fill, a whole-mask `true` fill or an
assignment — or is scratch storage (next theorem).  A `reset()` that clears part of a buffer, loops over a sub-range or
skips a field does not translate or does not satisfy this. -/
theorem reset_restores_every_mutable_field :
    ∀ r ∈ Reset.resetTable, r.2.2.1 = true → (r.2.2.2.1 = true ∨ r.2.2.2.2 = true) := by
  decide

/-- ... and `reset()` assigns nothing else: a field it writes is one that changes during use (an assignment to a
construction-time constant such as `max_chunk_size` would change what later calls accept). -/
theorem reset_touches_only_mutable_fields :
    ∀ r ∈ Reset.resetTable, r.2.2.2.1 = true → r.2.2.1 = true := by
  decide

/-- the only storage exempted as scratch is the `resampler` (FftResampler) field of the three synchronous types (type ids
4, 5, 6): `resample_unit` overwrites its buffers completely before reading them (tie G7 `fftUnit_*`, C02). -/
theorem reset_scratch_fields :
    (Reset.resetTable.filter (fun r => r.2.2.2.2)).map (fun r => r.1) = [4, 5, 6] := by
  decide

end Rubato.C10
