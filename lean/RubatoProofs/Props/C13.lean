/-
C13 — Malformed arguments yield the matching Err, never a panic, and change nothing.

[law-free] (every arithmetic instance, IEEE included).
* `validate_buffers` is a decision list: the first failing test, in the documented order, determines
  the variant and its fields;
* a call whose arguments fail validation returns that `Err` before any observable state change: the
  only field that can differ is the stored channel mask, and the stored mask is dead state — no operation's
  result depends on it (`process_ignores_mask`), so a following call behaves as if the failed call never happened;
* nothing is written: an `Outcome.err` carries no output at all (by the type of `Outcome`);
* constructors: the documented `Err` exactly for non-positive ratio, max relative ratio < 1, zero rates.
-/
import RubatoProofs.Lemmas.Shape
import RubatoModel.Fft
import RubatoProofs.Lemmas.ValidateTie
import RubatoProofs.Lemmas.FormulaTie

set_option linter.unusedSectionVars false
set_option linter.unusedVariables false

namespace Rubato.C13
open Rubato
variable {ρ σ : Type} [RNum ρ] [SNum ρ σ]

/-! ### `validate_buffers` as a decision list -/

theorem validate_wrongIn (i o : List Nat) (m : List Bool) (c a b : Nat) (h : i.length ≠ c) :
    validateBuffers i o m c a b = .error (.wrongIn c i.length) := by
  simp [validateBuffers, h]

theorem validate_wrongMask (i o : List Nat) (m : List Bool) (c a b : Nat) (h1 : i.length = c)
    (h : m.length ≠ c) : validateBuffers i o m c a b = .error (.wrongMask c m.length) := by
  simp [validateBuffers, h1, h]

theorem validate_insufIn (i o : List Nat) (m : List Bool) (c a b ch len : Nat) (h1 : i.length = c)
    (h2 : m.length = c) (h : firstShort i m a = some (ch, len)) :
    validateBuffers i o m c a b = .error (.insufIn ch a len) := by
  simp [validateBuffers, h1, h2, h]

theorem validate_wrongOut (i o : List Nat) (m : List Bool) (c a b : Nat) (h1 : i.length = c)
    (h2 : m.length = c) (h3 : firstShort i m a = none) (h : o.length ≠ c) :
    validateBuffers i o m c a b = .error (.wrongOut c o.length) := by
  simp [validateBuffers, h1, h2, h3, h]

theorem validate_insufOut (i o : List Nat) (m : List Bool) (c a b ch len : Nat) (h1 : i.length = c)
    (h2 : m.length = c) (h3 : firstShort i m a = none) (h4 : o.length = c)
    (h : firstShort o m b = some (ch, len)) :
    validateBuffers i o m c a b = .error (.insufOut ch b len) := by
  simp [validateBuffers, h1, h2, h3, h4, h]

theorem validate_ok_iff (i o : List Nat) (m : List Bool) (c a b : Nat) :
    validateBuffers i o m c a b = .ok () ↔
      i.length = c ∧ m.length = c ∧ firstShort i m a = none ∧ o.length = c ∧ firstShort o m b = none := by
  unfold validateBuffers
  by_cases h1 : i.length = c <;> simp [h1]
  by_cases h2 : m.length = c <;> simp [h2]
  cases h3 : firstShort i m a <;> simp
  by_cases h4 : o.length = c <;> simp [h4]
  cases h5 : firstShort o m b <;> simp

/-- what `firstShort` finds: the FIRST active channel that is too short, with its actual length -/
theorem firstShort_go_some (lens : List Nat) (mask : List Bool) (need i ch len : Nat)
    (h : firstShort.go need lens mask i = some (ch, len)) :
    i ≤ ch ∧ lens[ch - i]? = some len ∧ mask[ch - i]? = some true ∧ len < need ∧
    ∀ (j : Nat), j < ch - i → ¬ (mask[j]? = some true ∧ ∃ l, lens[j]? = some l ∧ l < need) := by
  induction lens generalizing mask i with
  | nil => simp [firstShort.go] at h
  | cons l ls ih =>
    cases mask with
    | nil => simp [firstShort.go] at h
    | cons m ms =>
      simp only [firstShort.go] at h
      split at h
      · next hc =>
        simp only [Option.some.injEq, Prod.mk.injEq] at h
        obtain ⟨rfl, rfl⟩ := h
        simp only [Bool.and_eq_true, decide_eq_true_eq] at hc
        simp [hc.1, hc.2]
      · next hc =>
        obtain ⟨h1, h2, h3, h4, h5⟩ := ih ms (i + 1) h
        have hlt : i < ch := by omega
        have e : ch - i = (ch - (i + 1)) + 1 := by omega
        refine ⟨by omega, ?_, ?_, h4, ?_⟩
        · rw [e]; simpa using h2
        · rw [e]; simpa using h3
        · intro j hj
          cases j with
          | zero =>
            simp only [Bool.and_eq_true, decide_eq_true_eq, not_and] at hc
            simp only [List.getElem?_cons_zero, Option.some.injEq, exists_eq_left']
            intro ⟨hm, hl⟩; exact hc hm hl
          | succ j =>
            have := h5 j (by omega)
            simpa using this

/-- when the lengths match, `none` means every active channel is long enough -/
theorem firstShort_go_none (lens : List Nat) (mask : List Bool) (need i : Nat)
    (hl : lens.length = mask.length) (h : firstShort.go need lens mask i = none) :
    ∀ (j l : Nat), lens[j]? = some l → mask[j]? = some true → need ≤ l := by
  induction lens generalizing mask i with
  | nil => intro j l h1; simp at h1
  | cons l0 ls ih =>
    cases mask with
    | nil => simp at hl
    | cons m ms =>
      simp only [firstShort.go] at h
      split at h
      · simp at h
      · next hc =>
        intro j l h1 h2
        cases j with
        | zero =>
          simp only [List.getElem?_cons_zero, Option.some.injEq] at h1 h2
          subst h1 h2
          simp only [Bool.and_eq_true, decide_eq_true_eq, not_and, true_implies] at hc
          omega
        | succ j =>
          exact ih ms (i + 1) (by simpa using hl) h j l (by simpa using h1) (by simpa using h2)

/-! ### the mask check that precedes everything (after the `fix:`): Err instead of a panic -/

theorem updateMask_wrong_length (nch : Nat) (m : List Bool) (h : m.length ≠ nch) :
    updateMask nch (some m) = .error (.wrongMask nch m.length) := by
  simp [updateMask, h]

/-! ### a rejected processing call changes nothing observable -/

/-- two states that differ at most in the stored mask -/
def EqUpToMask (s t : AState ρ σ) : Prop := ∃ m, t = { s with mask := m }

theorem faultOutcome_not_err {α : Type} (f : Outcome Unit) (e : RErr) : (faultOutcome f : Outcome α) ≠ .err e := by
  unfold faultOutcome; split <;> simp

theorem finishIn_not_err (s : AState ρ σ) (mask : List Bool) (fuel : Nat) (e : RErr) :
    (s.finishIn mask fuel).2 ≠ .err e := by
  unfold AState.finishIn
  simp only []
  split
  · split <;> (try split) <;> simp
  · split
    · exact faultOutcome_not_err _ e
    · simp

theorem finishOut_not_err (s : AState ρ σ) (mask : List Bool) (e : RErr) :
    (s.finishOut mask).2 ≠ .err e := by
  unfold AState.finishOut
  simp only []
  split
  · exact faultOutcome_not_err _ e
  · simp

theorem process_err_state (s : AState ρ σ) (a : CallArgs σ) (e : RErr) (h : (s.process a).2 = .err e) :
    EqUpToMask s (s.process a).1 := by
  cases h1 : updateMask s.nch a.mask with
  | error e1 => simp only [AState.process, h1]; exact ⟨s.mask, rfl⟩
  | ok mask =>
    cases h2 : validateBuffers (a.input.map Array.size) a.outLens mask s.nch
        (AState.minIn { s with mask := mask }) (AState.minOut { s with mask := mask }) with
    | error e2 => simp only [AState.process, h1, h2]; exact ⟨mask, rfl⟩
    | ok u =>
      exfalso
      cases h3 : refill { s with mask := mask } mask a.input (AState.shiftFrom { s with mask := mask })
          (AState.minIn { s with mask := mask }) with
      | none => simp [AState.process, h1, h2, h3] at h
      | some buf =>
        simp only [AState.process, h1, h2, h3] at h
        split at h
        · exact finishIn_not_err _ _ _ e h
        · exact finishOut_not_err _ _ e h

/-- the stored mask is dead state: `process_into_buffer` overwrites it before reading it -/
theorem process_ignores_mask (s : AState ρ σ) (m : List Bool) (a : CallArgs σ) :
    (({ s with mask := m } : AState ρ σ).process a).2 = (s.process a).2 ∧
    EqUpToMask (s.process a).1 (({ s with mask := m } : AState ρ σ).process a).1 := by
  unfold AState.process
  cases hm : updateMask s.nch a.mask with
  | error e => exact ⟨rfl, ⟨m, rfl⟩⟩
  | ok mask => exact ⟨rfl, ⟨_, rfl⟩⟩

/-- setters and getters never look at the stored mask either -/
theorem setRatio_ignores_mask (s : AState ρ σ) (m : List Bool) (r : ρ) (ramp : Bool) :
    (({ s with mask := m } : AState ρ σ).setRatio r ramp).2 = (s.setRatio r ramp).2 ∧
    EqUpToMask (s.setRatio r ramp).1 (({ s with mask := m } : AState ρ σ).setRatio r ramp).1 := by
  unfold AState.setRatio
  split
  · cases hk : s.kind <;> exact ⟨rfl, ⟨m, rfl⟩⟩
  · exact ⟨rfl, ⟨m, rfl⟩⟩

theorem getters_ignore_mask (s : AState ρ σ) (m : List Bool) :
    let t : AState ρ σ := { s with mask := m }
    t.inputFramesNext = s.inputFramesNext ∧ t.inputFramesMax = s.inputFramesMax ∧
    t.outputFramesNext = s.outputFramesNext ∧ t.outputFramesMax = s.outputFramesMax ∧
    t.outputDelay = s.outputDelay := ⟨rfl, rfl, rfl, rfl, rfl⟩

/-- **a following valid call behaves as if the failed call never happened** -/
theorem failed_call_invisible (s : AState ρ σ) (bad good : CallArgs σ) (e : RErr)
    (h : (s.process bad).2 = .err e) :
    ((s.process bad).1.process good).2 = (s.process good).2 ∧
    EqUpToMask (s.process good).1 ((s.process bad).1.process good).1 := by
  obtain ⟨m, hm⟩ := process_err_state s bad e h
  rw [hm]
  exact process_ignores_mask s m good

/-! ### constructors -/

theorem ctor_errors (kind : AKind) (ratio maxRel : ρ) (deg : Degree) (sint : SincInterp) (ip : Interp σ)
    (chunk nch : Nat) :
    (RNum.le ratio RNum.zero = true →
      AState.init kind ratio maxRel deg sint ip chunk nch = .error .invalidRatio) ∧
    (RNum.le ratio RNum.zero = false → RNum.lt maxRel RNum.one = true →
      AState.init kind ratio maxRel deg sint ip chunk nch = .error .invalidRelativeRatio) ∧
    (RNum.le ratio RNum.zero = false → RNum.lt maxRel RNum.one = false →
      ∃ s, AState.init kind ratio maxRel deg sint ip chunk nch = .ok s) := by
  refine ⟨fun h => ?_, fun h1 h2 => ?_, fun h1 h2 => ?_⟩
  · simp [AState.init, validateRatios, h]
  · simp [AState.init, validateRatios, h1, h2]
  · cases kind <;> simp [AState.init, validateRatios, h1, h2, AKind.isFixedIn]

theorem fft_ctor_errors {σ υ : Type} (da : DivArith) (u : FftUnit σ υ) (z : σ) (kind : FKind)
    (ri ro chunk sub nch : Nat) :
    (ri = 0 ∨ ro = 0 → FState.init da u z kind ri ro chunk sub nch = .error (.invalidSampleRate ri ro)) ∧
    (ri ≠ 0 → ro ≠ 0 → ∃ s, FState.init da u z kind ri ro chunk sub nch = .ok s) := by
  constructor
  · intro h; simp [FState.init, h]
  · intro h1 h2
    have : ¬ (ri = 0 ∨ ro = 0) := by omega
    simp only [FState.init, this, if_false]
    cases kind <;> exact ⟨_, rfl⟩

/-! ### non-vacuity -/
example : validateBuffers [5, 0] [9, 9] [true, false] 2 5 9 = .ok () := by rfl
example : validateBuffers [5, 4] [9, 9] [true, true] 2 5 9 = .error (.insufIn 1 5 4) := by rfl
example : validateBuffers [5] [9, 9] [true, true, true] 2 5 9 = .error (.wrongIn 2 1) := by rfl

end Rubato.C13

namespace Rubato.C13
open Rubato Rubato.Gen

/-- tie G10: the `validateBuffers` all theorems of this file are about IS the decision list the translator regenerates from
`lib.rs::validate_buffers` in this run (order of the checks, which error each raises, with which payload) -/
theorem validate_buffers_is_the_source_text (inLens outLens : List Nat) (mask : List Bool) (channels minIn minOut : Nat) :
    validateBuffers inLens outLens mask channels minIn minOut =
      ValidateTie.runSteps Validation.validateSteps inLens outLens mask channels minIn minOut :=
  ValidateTie.validateBuffers_is_generated inLens outLens mask channels minIn minOut

/-- tie G10: every one of the seven `process_into_buffer` bodies starts with the mask prologue (length check BEFORE the copy),
hands `validate_buffers` the lengths the model uses, and writes no field of `self` other than the channel mask before the
validation — so the call that is rejected has changed nothing but the stored mask -/
theorem nothing_is_written_before_validation :
    Validation.validateCalls.map (·.2.2.2) = [0, 0, 0, 0, 0, 0, 0] ∧
    Validation.validateCalls.map (·.2.1) = ["self.chunk_size", "self.needed_input_size", "self.chunk_size",
      "self.needed_input_size", "self.chunk_size_in", "self.frames_needed", "self.chunk_size_in"] ∧
    Validation.validateCalls.map (·.2.2.1) = ["needed_len", "self.chunk_size", "needed_len", "self.chunk_size",
      "needed_len", "self.chunk_size_out", "self.chunk_size_out"] := by
  rw [ValidateTie.validate_calls]; exact ⟨rfl, rfl, rfl⟩

/-- tie G7: the `needed_len` the fixed-input types validate the output against is `output_frames_next()` -/
theorem needed_len_is_output_frames_next {ρ : Type} [RNum ρ] (chunk : Nat) (ratio target : ρ) :
    Formulas.fastIn_needed_len chunk ratio target = Formulas.fastIn_output_frames_next chunk ratio target ∧
    Formulas.sincIn_calc_needed_len chunk ratio target = outNextIn chunk ratio target ∧
    Formulas.fastIn_needed_len chunk ratio target = outNextIn chunk ratio target :=
  ⟨rfl, rfl, rfl⟩

end Rubato.C13
