/-
C02 — Unrepresentable content is rejected (anti-aliasing / anti-imaging stopband).

Same split as C01: the attenuation figures are measured (oracle, every run); proved, about definitions regenerated from the
Rust source: the effective cutoff handed to the table, `calculate_cutoff ∈ (0,1)` and strictly increasing (so the stopband
edge `f_cutoff + (1 − calculate_cutoff)/min(1, ratio)` is well defined and above `f_cutoff`), the window constants are the
textbook Hann / Blackman / Blackman-Harris ones, the squared variants square exactly the named base window, the windows are
non-negative, vanish at the ends (Hann, Blackman) or are 6·10⁻⁵ there (Blackman-Harris) and are 1 at the centre.
-/
import RubatoProofs.Windows.Cutoff
import RubatoProofs.Windows.Symmetry
import RubatoModel.SincTable
import RubatoModel.FftUnitModel
import RubatoProofs.Lemmas.FormulaTie
import RubatoProofs.Props.C15

set_option linter.unusedSectionVars false
set_option linter.unusedVariables false

namespace Rubato.C02
open Rubato Rubato.Gen

/-- the table is built with `f_cutoff` when up-sampling and `f_cutoff·ratio` when down-sampling, i.e. `f_cutoff·min(1, ratio)` -/
theorem effective_cutoff (fcut ratio : ℚ) :
    interpCutoff fcut ratio = if 1 ≤ ratio then fcut else fcut * ratio := by
  unfold interpCutoff Formulas.mkInterp_f_cutoff
  simp only [Bridge.ge_eq, Bridge.lit_eq, decide_eq_true_eq, Bridge.mul32_eq, Bridge.n32_eq]
  norm_num

theorem cutoff_in_unit_interval (n : ℕ) (w : Window) (hn : 1 ≤ n) :
    0 < Win.calculate_cutoff (ρ := ℚ) (σ := ℚ) n w ∧ Win.calculate_cutoff (ρ := ℚ) (σ := ℚ) n w < 1 :=
  ⟨WinProofs.cutoff_pos n w hn, WinProofs.cutoff_lt_one n w hn⟩

theorem cutoff_strictly_increasing (n m : ℕ) (w : Window) (hn : 1 ≤ n) (hnm : n < m) :
    Win.calculate_cutoff (ρ := ℚ) (σ := ℚ) n w < Win.calculate_cutoff (ρ := ℚ) (σ := ℚ) m w :=
  WinProofs.cutoff_strictMono n m w hn hnm

/-- the stopband edge lies above `f_cutoff`: the transition half-width `(1 − calculate_cutoff)/min(1,ratio)` is positive -/
theorem transition_width_positive (n : ℕ) (w : Window) (hn : 1 ≤ n) (m : ℚ) (hm : 0 < m) :
    0 < (1 - Win.calculate_cutoff (ρ := ℚ) (σ := ℚ) n w) / m :=
  div_pos (WinProofs.one_sub_cutoff_pos n w hn) hm

theorem hann_is_textbook [STrig ℚ] (N x : ℕ) :
    Win.hann_at (ρ := ℚ) (σ := ℚ) N x = 5 / 10 - 5 / 10 * STrig.cos (2 * STrig.pi * (x : ℚ) / (N : ℚ)) :=
  WinProofs.hann_textbook N x

theorem blackman_is_textbook [STrig ℚ] (N x : ℕ) :
    Win.blackman_at (ρ := ℚ) (σ := ℚ) N x
      = 42 / 100 - 5 / 10 * STrig.cos (2 * STrig.pi * (x : ℚ) / (N : ℚ))
        + 8 / 100 * STrig.cos (4 * STrig.pi * (x : ℚ) / (N : ℚ)) :=
  WinProofs.blackman_textbook N x

theorem blackmanHarris_is_textbook [STrig ℚ] (N x : ℕ) :
    Win.blackman_harris_at (ρ := ℚ) (σ := ℚ) N x
      = 35875 / 100000 - 48829 / 100000 * STrig.cos (2 * STrig.pi * (x : ℚ) / (N : ℚ))
        + 14128 / 100000 * STrig.cos (4 * STrig.pi * (x : ℚ) / (N : ℚ))
        - 1168 / 100000 * STrig.cos (6 * STrig.pi * (x : ℚ) / (N : ℚ)) :=
  WinProofs.blackmanHarris_textbook N x

/-- the `…2` variants square exactly their base window; the others are the base window (law-free: every instance) -/
theorem squared_variants {ρ σ : Type} [RNum ρ] [SNum ρ σ] [STrig σ] (w : Window) (N x : ℕ) :
    Win.make_window_at (ρ := ρ) (σ := σ) w N x =
      if Win.windowSquared w then
        Win.make_window_at (ρ := ρ) (WinProofs.baseWindow w) N x * Win.make_window_at (ρ := ρ) (WinProofs.baseWindow w) N x
      else Win.make_window_at (ρ := ρ) (WinProofs.baseWindow w) N x :=
  WinProofs.make_window_at_eq w N x

theorem squared_are_exactly (w : Window) :
    Win.windowSquared w = true ↔ (w = .blackman2 ∨ w = .blackmanHarris2 ∨ w = .hann2) :=
  WinProofs.windowSquared_iff w

open scoped Rubato.RealArith in
theorem windows_nonnegative (w : Window) (N x : ℕ) : 0 ≤ Win.make_window_at (ρ := ℝ) (σ := ℝ) w N x :=
  WinProofs.make_window_nonneg w N x

open scoped Rubato.RealArith in
theorem windows_are_one_at_centre (w : Window) (h : ℕ) (hh : 0 < h) :
    Win.make_window_at (ρ := ℝ) (σ := ℝ) w (2 * h) h = 1 :=
  WinProofs.window_centre w h hh

/-! ### the synchronous (FFT) resamplers: model of `FftResampler::new` / `resample_unit` (`FftUnitModel.lean`, compared
sample by sample with the crate in the correspondence run) -/

/-- [law-free] every output-spectrum bin from `min(fft_in + 1, fft_out)` up to the Nyquist bin of the output transform is
exactly zero, whatever the input block: content above the smaller Nyquist frequency never reaches the output transform -/
theorem fft_bins_above_cut_are_zero {ρ σ : Type} [RNum ρ] [SNum ρ σ] (t : UnitTables σ) (waveIn : List σ) (k : ℕ)
    (hk : (if t.fftIn < t.fftOut then t.fftIn + 1 else t.fftOut) ≤ k) (hk' : k ≤ t.fftOut) :
    (t.spectrumOut (ρ := ρ) waveIn)[k]? = some (SNum.zero (ρ := ρ), SNum.zero (ρ := ρ)) :=
  UnitTables.spectrumOut_zero_above (ρ := ρ) t waveIn k hk hk'

/-- [law-free] the anti-aliasing filter of the FFT resamplers is the transform of `make_sincs(fft_in, 1, cutoff,
BlackmanHarris2)[0] / (2·fft_in)` zero-padded to `2·fft_in` points (the padding is exactly zero) -/
theorem fft_filter_is_the_padded_sinc_table {ρ σ : Type} [RNum ρ] [SNum ρ σ] [STrig σ] (cutoff : ρ) (fftIn fftOut : ℕ) :
    (UnitTables.make (ρ := ρ) (σ := σ) cutoff fftIn fftOut).filterF =
        rdft (ρ := ρ) (twiddles (ρ := ρ) (2 * fftIn)) (filterTaps (ρ := ρ) (σ := σ) cutoff fftIn) ∧
    ∀ n, fftIn ≤ n → n < 2 * fftIn →
      (filterTaps (ρ := ρ) (σ := σ) cutoff fftIn)[n]? = some (SNum.zero (ρ := ρ)) :=
  ⟨UnitTables.make_filter (ρ := ρ) cutoff fftIn fftOut, fun n h1 h2 => filterTaps_padding (ρ := ρ) cutoff fftIn n h1 h2⟩

/-- [exact] the cutoff handed to that table: `calculate_cutoff(min(fft_in, fft_out))·min(1, fft_out/fft_in)` -/
theorem fft_effective_cutoff (c : ℕ → ℚ) (fi fo : ℕ) :
    fftCutoff c fi fo = if fo < fi then c fo * (fo : ℚ) / (fi : ℚ) else c fi := by
  unfold fftCutoff
  simp only [Bridge.mul32_eq, Bridge.div32_eq, Bridge.ofNat32_eq, gt_iff_lt]

/-- tie G7: the cutoff, the number of bins kept, the table arguments, the tap divisor and the padded length the three
theorems above speak about are the statements of `FftResampler::new` / `resample_unit` as regenerated from synchro.rs in
this run -/
theorem fft_unit_is_the_source_text {ρ σ : Type} [RNum ρ] [SNum ρ σ] (c : ℕ → ρ) (t : UnitTables σ) (fi fo : ℕ) :
    fftCutoff c fi fo = Formulas.fftUnit_cutoff fi fo c ∧
    t.newLen = Formulas.fftUnit_new_len (ρ := ρ) t.fftIn t.fftOut ∧
    Formulas.fftUnit_sinc_factor = 1 ∧ Formulas.fftUnit_window = Window.blackmanHarris2 ∧
    Formulas.fftUnit_tap_divisor (ρ := ρ) fi = 2 * fi ∧ Formulas.fftUnit_filter_len (ρ := ρ) fi = 2 * fi :=
  ⟨FormulaTie.fftUnit_cutoff ρ c fi fo, FormulaTie.fftUnit_new_len ρ t, rfl, rfl, rfl, rfl⟩

end Rubato.C02

namespace Rubato.C02
open Rubato

/-- [exact] tie G7 (`make_interpolator`): the filter the sinc constructors build is never SHORTER than the one requested — the
requested `sinc_len` is rounded UP to a multiple of 8 — so the transition band promised for the requested length
(`calculate_cutoff(sinc_len, window)`) is met by a filter at least that long.  (Rounding to the nearest multiple, or down,
no longer proves this.) -/
theorem filter_length_covers_the_request (n : ℕ) :
    8 ∣ interpLen (ρ := ℚ) n ∧ n ≤ interpLen (ρ := ℚ) n :=
  ⟨(C15.dispatch_table_length n).2.1, (C15.dispatch_table_length n).2.2⟩

end Rubato.C02
